/-
  Helper lemmas for C05 / C16 about the model assembler (BMV.Basm).
-/
import BMV.Basm
import BMV.Proofs.Topology
import BMV.Proofs.Encode
import BMV.Props.C03
import BMV.BasmSem
namespace BMV.Basm
open BMV BMV.Bits BMV.Topology

theorem nodupB_iff (l : List Bond) : nodupB l = true ↔ l.Nodup := by
  induction l with
  | nil => simp [nodupB]
  | cons b bs ih =>
    simp only [nodupB, Bool.and_eq_true, Bool.not_eq_true', List.nodup_cons, ih]
    constructor
    · rintro ⟨h1, h2⟩; refine ⟨?_, h2⟩; intro hm; simp [List.contains_iff_mem, hm] at h1
    · rintro ⟨h1, h2⟩; refine ⟨?_, h2⟩; simpa [List.contains_iff_mem] using h1

theorem mem_expectedIin (t : Topo) (b : Bond) : b ∈ expectedIin t ↔ isIin t b := by
  unfold expectedIin isIin
  simp only [List.mem_append, List.mem_map, List.mem_range, List.mem_flatMap]
  constructor
  · rintro (⟨k, hk, rfl⟩ | ⟨⟨nm, p⟩, hp, i, hi, rfl⟩)
    · exact Or.inl ⟨rfl, hk, rfl⟩
    · right
      have := List.mk_mem_zipIdx_iff_getElem?.mp hp
      exact ⟨rfl, ⟨nm, this, hi⟩⟩
  · rintro (⟨h1, h2, h3⟩ | ⟨h1, ⟨nm, h2, h3⟩⟩)
    · left; refine ⟨b.res, h2, ?_⟩; cases b; simp_all
    · right
      refine ⟨(nm, b.res), List.mk_mem_zipIdx_iff_getElem?.mpr h2, b.ext, h3, ?_⟩
      cases b; simp_all

theorem mem_expectedIout (t : Topo) (b : Bond) : b ∈ expectedIout t ↔ isIout t b := by
  unfold expectedIout isIout
  simp only [List.mem_append, List.mem_map, List.mem_range, List.mem_flatMap]
  constructor
  · rintro (⟨k, hk, rfl⟩ | ⟨⟨nm, p⟩, hp, i, hi, rfl⟩)
    · exact Or.inl ⟨rfl, hk, rfl⟩
    · right
      have := List.mk_mem_zipIdx_iff_getElem?.mp hp
      exact ⟨rfl, ⟨nm, this, hi⟩⟩
  · rintro (⟨h1, h2, h3⟩ | ⟨h1, ⟨nm, h2, h3⟩⟩)
    · left; refine ⟨b.res, h2, ?_⟩; cases b; simp_all
    · right
      refine ⟨(nm, b.res), List.mk_mem_zipIdx_iff_getElem?.mpr h2, b.ext, h3, ?_⟩
      cases b; simp_all

theorem wfB_of_WF {t : Topo} (h : WF t) : wfB t = true := by
  unfold wfB
  simp only [Bool.and_eq_true, beq_iff_eq, List.all_eq_true, List.contains_iff_mem, decide_eq_true_eq]
  refine ⟨⟨⟨⟨⟨⟨⟨h.links_len, ?_⟩, (nodupB_iff _).mpr h.iin_nodup⟩, (nodupB_iff _).mpr h.iout_nodup⟩, ?_⟩, ?_⟩, ?_⟩, ?_⟩
  · intro l hl
    cases l with
    | none => trivial
    | some j => simpa using h.links_rng j hl
  · intro b hb; exact (mem_expectedIin t b).mpr ((h.iin_mem b).mp hb)
  · intro b hb; exact (h.iin_mem b).mpr ((mem_expectedIin t b).mp hb)
  · intro b hb; exact (mem_expectedIout t b).mpr ((h.iout_mem b).mp hb)
  · intro b hb; exact (h.iout_mem b).mpr ((mem_expectedIout t b).mp hb)


/-! ### the topology built from the ioatt pairs -/

theorem addBond_procs (t : Topo) (a b : Bond) : (addBond t a b).procs = t.procs := by
  rcases addBond_eq (t := t) a b with ⟨_, h⟩ | ⟨i, j, o, s, _, _, _, h⟩ <;> rw [h]

theorem foldl_addProcessor (cps : List CP) (t : Topo) (h : WF t) :
    WF (cps.foldl (fun t cp => addProcessor t cp.arch.n cp.arch.m) t) ∧
    (cps.foldl (fun t cp => addProcessor t cp.arch.n cp.arch.m) t).procs = t.procs ++ cps.map (fun cp => (cp.arch.n, cp.arch.m)) := by
  induction cps generalizing t with
  | nil => simp [h]
  | cons c cs ih =>
    obtain ⟨h1, h2⟩ := ih (addProcessor t c.arch.n c.arch.m) (wf_addProcessor h _ _)
    refine ⟨h1, ?_⟩
    rw [List.foldl_cons, h2]
    simp [addProcessor]

theorem foldl_addInput (l : List Nat) (t : Topo) (h : WF t) :
    WF (l.foldl (fun t _ => addInput t) t) ∧ (l.foldl (fun t _ => addInput t) t).procs = t.procs := by
  induction l generalizing t with
  | nil => exact ⟨h, rfl⟩
  | cons _ l ih => exact ih (addInput t) (wf_addInput h)

theorem foldl_addOutput (l : List Nat) (t : Topo) (h : WF t) :
    WF (l.foldl (fun t _ => addOutput t) t) ∧ (l.foldl (fun t _ => addOutput t) t).procs = t.procs := by
  induction l generalizing t with
  | nil => exact ⟨h, rfl⟩
  | cons _ l ih => exact ih (addOutput t) (wf_addOutput h)

theorem foldl_addBond (ps : List (Bond × Bond)) (t : Topo) (h : WF t) :
    WF (ps.foldl (fun t p => addBond t p.1 p.2) t) ∧ (ps.foldl (fun t p => addBond t p.1 p.2) t).procs = t.procs := by
  induction ps generalizing t with
  | nil => exact ⟨h, rfl⟩
  | cons p ps ih =>
    obtain ⟨h1, h2⟩ := ih (addBond t p.1 p.2) (wf_addBond h _ _)
    exact ⟨h1, by rw [List.foldl_cons, h2, addBond_procs]⟩

theorem mkTopo_wf (cps : List CP) (ps : List (Bond × Bond)) :
    WF (mkTopo cps ps) ∧ (mkTopo cps ps).procs = cps.map (fun cp => (cp.arch.n, cp.arch.m)) := by
  unfold mkTopo
  obtain ⟨a1, a2⟩ := foldl_addProcessor cps Topo.empty wf_empty
  obtain ⟨b1, b2⟩ := foldl_addInput (List.range (extCount 0 ps)) _ a1
  obtain ⟨c1, c2⟩ := foldl_addOutput (List.range (extCount 1 ps)) _ b1
  obtain ⟨d1, d2⟩ := foldl_addBond ps _ c1
  refine ⟨d1, ?_⟩
  rw [d2, c2, b2, a2]; simp [Topo.empty]

theorem range_map_getElem? {α β} (l : List α) (f : α → β) :
    (List.range l.length).map (fun d => (l[d]?).map f) = (l.map f).map some := by
  apply List.ext_getElem?
  intro i
  by_cases hi : i < l.length
  · simp [hi]
  · simp [hi]


/-! ### `mapE`, `asmAll` -/

/-- element-wise relation of two lists (core has no `Forall₂`) -/
inductive All2 {α β : Type} (R : α → β → Prop) : List α → List β → Prop
  | nil : All2 R [] []
  | cons {x y xs ys} : R x y → All2 R xs ys → All2 R (x :: xs) (y :: ys)

theorem All2.length_eq {α β : Type} {R : α → β → Prop} {l : List α} {ys : List β} (h : All2 R l ys) :
    l.length = ys.length := by
  induction h with
  | nil => rfl
  | cons _ _ ih => simp [ih]

theorem All2.get {α β : Type} {R : α → β → Prop} {l : List α} {ys : List β} (h : All2 R l ys) :
    ∀ (i : Nat) x y, l[i]? = some x → ys[i]? = some y → R x y := by
  induction h with
  | nil => intro i x y hx; simp at hx
  | cons hr _ ih =>
    intro i x y hx hy
    cases i with
    | zero => simp at hx hy; subst hx; subst hy; exact hr
    | succ i => exact ih i x y (by simpa using hx) (by simpa using hy)

theorem mapE_ok {α β : Type} {f : α → Except Err β} : ∀ {l : List α} {ys : List β},
    mapE f l = .ok ys → All2 (fun x y => f x = .ok y) l ys
  | [], ys, h => by simp [mapE] at h; subst h; exact .nil
  | x :: xs, ys, h => by
    simp only [mapE] at h
    cases h1 : f x with
    | error e => simp [h1] at h
    | ok y =>
      cases h2 : mapE f xs with
      | error e => simp [h1, h2] at h
      | ok ys' =>
        simp [h1, h2] at h; subst h
        exact .cons h1 (mapE_ok h2)

theorem all2_mem_right {α β : Type} {R : α → β → Prop} {l : List α} {ys : List β}
    (h : All2 R l ys) : ∀ y ∈ ys, ∃ x ∈ l, R x y := by
  induction h with
  | nil => intro y hy; cases hy
  | cons hr _ ih =>
    intro y hy
    rcases List.mem_cons.mp hy with rfl | hy
    · exact ⟨_, List.mem_cons_self, hr⟩
    · obtain ⟨x, hx, hxy⟩ := ih y hy
      exact ⟨x, List.mem_cons_of_mem _ hx, hxy⟩

theorem asmAll_ok {a : Arch} : ∀ {is : List Instr} {ws : List Bits},
    asmAll a is = .ok ws → All2 (fun i w => Encode.asm a i = .ok w) is ws
  | [], ws, h => by simp [asmAll] at h; subst h; exact .nil
  | i :: is, ws, h => by
    simp only [asmAll] at h
    cases h1 : Encode.asm a i with
    | error e => simp [h1] at h
    | ok w =>
      cases h2 : asmAll a is with
      | error e => simp [h1, h2] at h
      | ok ws' =>
        simp [h1, h2] at h; subst h
        exact .cons h1 (asmAll_ok h2)

/-! ### one assembled word passes the validator -/

theorem operandOk_of_enc {a : Arch} {f : FieldKind} {x : Operand} {b : Bits}
    (h : Encode.encOperand a f x = some b) (hl : b.length = a.width f) : WfBM.operandOk a f x = true := by
  have he := (Encode.encOperand_eq h).1
  rw [he] at hl
  have hfit := (encField_exact_iff.mp hl).2
  cases f <;> cases x <;> simp only [Encode.encOperand] at h <;> first
    | (simp only [WfBM.operandOk, decide_eq_true_eq]
       first
         | (split at h <;> first | assumption | cases h)
         | (simpa [Encode.opVal, Arch.width] using hfit))
    | cases h

theorem operandsOk_of_enc {a : Arch} : ∀ {fs : List FieldKind} {xs : List Operand} {body : Bits},
    Encode.encOperands a fs xs = some body → body.length = (fs.map a.width).sum → WfBM.operandsOk a fs xs = true
  | [], [], body, _, _ => by simp [WfBM.operandsOk]
  | [], _ :: _, _, h, _ => by simp [Encode.encOperands] at h
  | _ :: _, [], _, h, _ => by simp [Encode.encOperands] at h
  | f :: fs, x :: xs, body, h, hl => by
    simp only [Encode.encOperands] at h
    cases h1 : Encode.encOperand a f x with
    | none => simp [h1] at h
    | some b =>
      cases h2 : Encode.encOperands a fs xs with
      | none => simp [h1, h2] at h
      | some bs =>
        simp [h1, h2] at h; subst h
        have g1 := Encode.encOperand_len_ge h1
        have g2 := Encode.encOperands_len_ge h2
        simp only [List.length_append, List.map_cons, List.sum_cons] at hl
        simp only [WfBM.operandsOk, Bool.and_eq_true]
        exact ⟨operandOk_of_enc h1 (by omega), operandsOk_of_enc h2 (by omega)⟩

theorem wordOk_of_asm {a : Arch} {i : Instr} {w : Bits} (h : Encode.asm a i = .ok w)
    (hm : modeOk i.op a.mode = true) : WfBM.wordOk a w = true := by
  have hd := BMV.Props.C03.disasm_asm a i w h
  obtain ⟨idx, fs, body, _, hlay, hbody, hopl, hbl, hw, hlen⟩ := Encode.asm_ok_inv h
  unfold WfBM.wordOk
  have hop : (Encode.normalise i).op = i.op := rfl
  simp only [hd, hop, hlay, hm, hlen, beq_self_eq_true, Bool.true_and, Bool.and_eq_true]
  refine ⟨operandsOk_of_enc hbody hbl, ?_⟩
  have hdrop : w.drop (a.opBits + (fs.map a.width).sum) =
      List.replicate (a.maxWord - (a.opBits + (fs.map a.width).sum)) false := by
    rw [hw]
    exact Encode.drop_of_len (by simp [hopl, hbl])
  rw [hdrop]
  simp

/-! ### the opcode list -/

theorem allOps_pairwise : allOps.Pairwise (· < ·) := by decide

theorem sortedStrict_of_pairwise : ∀ {l : List String}, l.Pairwise (· < ·) → WfBM.sortedStrict l = true
  | [], _ => rfl
  | [_], _ => rfl
  | a :: b :: rest, h => by
    rw [List.pairwise_cons] at h
    simp only [WfBM.sortedStrict, Bool.and_eq_true, decide_eq_true_eq]
    exact ⟨h.1 b List.mem_cons_self, sortedStrict_of_pairwise h.2⟩

theorem opsOf_sorted (rs : List RLine) : WfBM.sortedStrict (opsOf rs) = true :=
  sortedStrict_of_pairwise (List.Pairwise.filter _ allOps_pairwise)

theorem allOps_noSo : ∀ op ∈ allOps, WfBM.soKind op = none := by decide

theorem allOps_known : ∀ op ∈ allOps, (layout op).isSome = true ∧ modeOk op .ha = true := by decide

theorem opsOf_known (rs : List RLine) : ∀ op ∈ opsOf rs, (layout op).isSome = true ∧ modeOk op .ha = true :=
  fun op h => allOps_known op (List.mem_filter.mp h).1

/-! ### sizing -/

theorem le_two_pow_neededBits {n : Nat} (h2 : n ≤ 2 ^ 63) : n ≤ 2 ^ neededBits n := by
  unfold neededBits
  by_cases h0 : n > 0
  · simp only [h0, if_true]
    unfold leastBits
    cases hf : (List.range' 1 (64 - 1)).find? (fun b => decide (2 ^ b ≥ n)) with
    | some b =>
      have := List.find?_some hf
      simpa using this
    | none =>
      have := List.find?_eq_none.mp hf 63 (List.mem_range'.mpr ⟨62, by omega, by omega⟩)
      simp at this; omega
  · have : n = 0 := by omega
    subst this; simp


/-! ### one processor -/

theorem resolve_length (rs : List RLine) : (resolve rs).length = rs.length := by simp [resolve]

theorem wfCP_of_mkCP {rsize : Nat} {rs : List RLine} {cp : CP} (h : mkCP rsize rs = .ok cp)
    (hr : 0 < rsize) (hsz : rs.length ≤ 2 ^ 63) : WfBM.wfCP rsize cp = true := by
  unfold mkCP at h
  cases hws : asmAll (mkArch rsize rs) (resolve rs) with
  | error e => simp [hws] at h
  | ok ws =>
    simp only [hws] at h
    cases h
    have hall := asmAll_ok hws
    have hmode : (mkArch rsize rs).mode = .ha := rfl
    have hwords : ws.all (WfBM.wordOk (mkArch rsize rs)) = true := by
      rw [List.all_eq_true]
      intro w hw
      obtain ⟨i, _, hi⟩ := all2_mem_right hall w hw
      obtain ⟨idx, hidx, _, _⟩ := BMV.Props.C03.opcode_numbering _ i w hi
      have hmem : i.op ∈ opsOf rs := List.mem_of_getElem? hidx
      exact wordOk_of_asm hi (by rw [hmode]; exact (opsOf_known rs _ hmem).2)
    have hknown : WfBM.opsKnown (mkArch rsize rs) = true := by
      unfold WfBM.opsKnown
      rw [List.all_eq_true]
      intro op hop
      have := opsOf_known rs op hop
      simp only [Bool.and_eq_true]; exact ⟨this.1, by rw [hmode]; exact this.2⟩
    have hfit : WfBM.romFits { arch := mkArch rsize rs, prog := ws } = true := by
      unfold WfBM.romFits
      simp only [hmode, List.length_nil, Nat.add_zero, decide_eq_true_eq]
      rw [← hall.length_eq, resolve_length]
      exact le_two_pow_neededBits hsz
    unfold WfBM.wfCP
    simp only [Bool.and_eq_true, decide_eq_true_eq, beq_iff_eq]
    exact ⟨⟨⟨⟨⟨⟨rfl, hr⟩, opsOf_sorted rs⟩, hknown⟩, hwords⟩, by simp⟩, hfit⟩


/-! ### section lengths -/

theorem matchLines_length {mode : Option IoMode} : ∀ {ls : List Line} {rs : List RLine},
    matchLines mode ls = .ok rs → rs.length = ls.length
  | [], rs, h => by simp [matchLines] at h; subst h; rfl
  | l :: ls, rs, h => by
    simp only [matchLines] at h
    cases h1 : matchLine mode l with
    | none => simp [h1] at h
    | some p =>
      obtain ⟨op, args⟩ := p
      cases h2 : matchLines mode ls with
      | error e => simp [h1, h2] at h
      | ok rs' =>
        simp [h1, h2] at h; subst h
        simp [matchLines_length h2]

theorem dropEntry_length : ∀ {ls ls' : List Line}, dropEntry ls = some ls' →
    ls'.length ≤ ls.length ∧ (ls.any isEntry = true → ls'.length + 1 = ls.length)
  | [], ls', h => by simp [dropEntry] at h; subst h; simp
  | l :: rest, ls', h => by
    simp only [dropEntry] at h
    by_cases he : isEntry l = true
    · simp only [he, if_true] at h
      by_cases hl : l.labels.isEmpty = true
      · simp only [hl, if_true] at h; cases h; simp
      · simp only [hl] at h
        cases rest with
        | nil => simp at h
        | cons n rest' => simp at h; subst h; simp
    · simp only [he] at h
      cases hd : dropEntry rest with
      | none => simp [hd] at h
      | some r =>
        simp [hd] at h; subst h
        obtain ⟨a, b⟩ := dropEntry_length hd
        refine ⟨by simp; omega, ?_⟩
        intro hany
        simp only [List.any_cons, he, Bool.false_or] at hany
        simp [b hany]

theorem prepSection_length {fix : Bool} {gmode : Option IoMode} {s : Section} {rs : List RLine}
    (h : prepSection fix gmode s = .ok rs) : rs.length ≤ s.lines.length := by
  unfold prepSection at h
  cases fix with
  | false =>
    simp only [Bool.false_eq_true, if_false] at h
    cases hr : removeEntry s.lines with
    | error e => simp [hr] at h
    | ok ls =>
      simp only [hr] at h
      rw [matchLines_length h]
      unfold removeEntry at hr
      split at hr <;> try cases hr
      split at hr <;> try cases hr
      split at hr <;> cases hr
      exact List.length_filter_le _ _
  | true =>
    simp only [if_true] at h
    cases hr : removeEntryFix s.lines with
    | error e => simp [hr] at h
    | ok ls =>
      simp only [hr] at h
      rw [matchLines_length h]
      unfold removeEntryFix at hr
      split at hr <;> try cases hr
      rename_i e hfe
      split at hr <;> try cases hr
      split at hr <;> try cases hr
      split at hr <;> try cases hr
      rename_i ls' hd
      have hany : s.lines.any isEntry = true := by
        have : e ∈ s.lines.filter isEntry := by rw [hfe]; exact List.mem_singleton.mpr rfl
        obtain ⟨h1, h2⟩ := List.mem_filter.mp this
        exact List.any_eq_true.mpr ⟨e, h1, h2⟩
      obtain ⟨a, b⟩ := dropEntry_length hd
      have := b hany
      split at hr <;> cases hr <;> simp <;> omega


/-! ### inversion of `assemble` -/

/-- the Go `int` arithmetic of `Needed_bits` is exact up to here (a section of 2^63 lines is not a
    practical concern; beyond it the real loop does not terminate) -/
def SizeOk (src : Source) : Prop := ∀ s ∈ src.sections, s.lines.length ≤ 2 ^ 63

theorem assemble_ok_inv {src : Source} {fix : Bool} {bm : BM} (h : assemble src fix = .ok bm) :
    ∃ rsize ss bodies cps,
      src.rsize = some rsize ∧ 0 < rsize ∧ rsize < 256 ∧
      src.sections.any (fun s => hasDup (allLabels s.lines)) = false ∧
      mapE (secPrep fix src) src.sections = .ok ss ∧
      mapE (cpBody ss) src.procs = .ok bodies ∧
      bodies.any (fun rs => (regsOf rs).isEmpty) = false ∧
      mapE (mkCP rsize) bodies = .ok cps ∧
      bm = { rsize := rsize, cps := cps, procs := List.range cps.length,
             topo := mkTopo cps (pairs src.procs src.ioatts), solinks := List.replicate cps.length [] } := by
  unfold assemble at h
  by_cases hd : src.sections.any (fun s => hasDup (allLabels s.lines)) = true
  · simp [hd] at h
  · simp only [hd] at h
    cases hss : mapE (secPrep fix src) src.sections with
    | error e => simp [hss] at h
    | ok ss =>
      simp only [hss] at h
      cases hb : mapE (cpBody ss) src.procs with
      | error e => simp [hb] at h
      | ok bodies =>
        simp only [hb] at h
        cases hrs : src.rsize with
        | none => simp [hrs] at h
        | some rsize =>
          simp only [hrs] at h
          by_cases hr : 0 < rsize ∧ rsize < 256
          · simp only [hr, not_true_eq_false, and_self, if_false] at h
            by_cases hn : bodies.any (fun rs => (regsOf rs).isEmpty) = true
            · simp [hn] at h
            · simp only [hn] at h
              cases hc : mapE (mkCP rsize) bodies with
              | error e => simp [hc] at h
              | ok cps =>
                simp only [hc] at h
                refine ⟨rsize, ss, bodies, cps, rfl, hr.1, hr.2, by simpa using hd, by first | rfl | exact hss, by first | rfl | exact hb, by simpa using hn, by first | rfl | exact hc, ?_⟩
                simpa using h.symm
          · simp [hr] at h

theorem findSection_mem {ss : List (String × List RLine)} {name : String} {rs : List RLine}
    (h : findSection ss name = some rs) : ∃ n, (n, rs) ∈ ss := by
  unfold findSection at h
  cases hf : ss.reverse.find? (·.1 == name) with
  | none => simp [hf] at h
  | some p =>
    simp [hf] at h
    exact ⟨p.1, by have := List.mem_reverse.mp (List.mem_of_find?_eq_some hf); rw [← h]; exact this⟩

/-- every processor body of an accepted source comes from a section of the source -/
theorem body_from_section {src : Source} {fix : Bool} {ss : List (String × List RLine)} {bodies : List (List RLine)}
    (hss : mapE (secPrep fix src) src.sections = .ok ss) (hb : mapE (cpBody ss) src.procs = .ok bodies) :
    ∀ rs ∈ bodies, ∃ s ∈ src.sections, prepSection fix src.iomode s = .ok rs := by
  intro rs hrs
  obtain ⟨c, _, hc⟩ := all2_mem_right (mapE_ok hb) rs hrs
  unfold cpBody at hc
  cases hf : findSection ss c.romcode with
  | none => simp [hf] at hc
  | some rs' =>
    simp [hf] at hc; subst hc
    obtain ⟨n, hn⟩ := findSection_mem hf
    obtain ⟨s, hs, hsp⟩ := all2_mem_right (mapE_ok hss) _ hn
    refine ⟨s, hs, ?_⟩
    unfold secPrep at hsp
    cases hp : prepSection fix src.iomode s with
    | error e => simp [hp] at hsp
    | ok r => simp [hp] at hsp; rw [hsp.2]

theorem assemble_wf {src : Source} {fix : Bool} {bm : BM} (h : assemble src fix = .ok bm) (hsz : SizeOk src) :
    WfBM bm = true := by
  obtain ⟨rsize, ss, bodies, cps, _, hr, _, _, hss, hb, _, hc, rfl⟩ := assemble_ok_inv h
  unfold WfBM
  rw [Bool.and_eq_true, Bool.and_eq_true]
  refine ⟨⟨?_, ?_⟩, ?_⟩
  · rw [List.all_eq_true]
    intro cp hcp
    obtain ⟨rs, hrs, hmk⟩ := all2_mem_right (mapE_ok hc) cp hcp
    obtain ⟨s, hs, hp⟩ := body_from_section hss hb rs hrs
    exact wfCP_of_mkCP hmk hr (Nat.le_trans (prepSection_length hp) (hsz s hs))
  · unfold WfBM.wfTopo
    obtain ⟨hwf, hprocs⟩ := mkTopo_wf cps (pairs src.procs src.ioatts)
    rw [Bool.and_eq_true]
    refine ⟨?_, wfB_of_WF hwf⟩
    simp only [WfBM.procPorts, hprocs, beq_iff_eq]
    exact range_map_getElem? cps _
  · -- no shared objects in the subset: empty link lists, empty constraints, no shared-object opcode
    have hcp : ∀ cp ∈ cps, cp.sharedC = [] ∧ cp.arch.ops ⊆ allOps := by
      intro cp hcp
      obtain ⟨rs, _, hmk⟩ := all2_mem_right (mapE_ok hc) cp hcp
      unfold mkCP at hmk
      cases hws : asmAll (mkArch rsize rs) (resolve rs) with
      | error e => simp [hws] at hmk
      | ok ws =>
        simp only [hws, Except.ok.injEq] at hmk
        subst hmk
        exact ⟨rfl, fun op hop => (List.mem_filter.mp hop).1⟩
    unfold WfBM.wfShared
    simp only [Bool.and_eq_true, List.all_eq_true, beq_iff_eq, List.length_replicate, List.length_range, true_and]
    refine ⟨⟨?_, ?_⟩, ?_⟩
    · intro ls hls
      rw [List.eq_of_mem_replicate hls]
      intro i hi; cases hi
    · intro p hp
      obtain ⟨d, ls⟩ := p
      have h1 := List.of_mem_zip hp
      have hd : d < cps.length := List.mem_range.mp h1.1
      have hl : ls = [] := List.eq_of_mem_replicate h1.2
      subst hl
      simp only [List.getElem?_eq_getElem hd, List.filterMap_nil]
      rw [(hcp _ (List.getElem_mem hd)).1]; rfl
    · intro cp hcpm
      unfold WfBM.soOpsServed
      rw [List.all_eq_true]
      intro op hop
      have : WfBM.soKind op = none := allOps_noSo op ((hcp cp hcpm).2 hop)
      simp [this]


/-! ### rejection of operands that cannot fit -/

theorem all2_mem_left {α β : Type} {R : α → β → Prop} {l : List α} {ys : List β}
    (h : All2 R l ys) : ∀ x ∈ l, ∃ y ∈ ys, R x y := by
  induction h with
  | nil => intro x hx; cases hx
  | cons hr _ ih =>
    intro x hx
    rcases List.mem_cons.mp hx with rfl | hx
    · exact ⟨_, List.mem_cons_self, hr⟩
    · obtain ⟨y, hy, hxy⟩ := ih x hx
      exact ⟨y, List.mem_cons_of_mem _ hy, hxy⟩

theorem asmAll_rejects {a : Arch} {is : List Instr} {i : Instr} (hi : i ∈ is)
    (hbad : ∀ w, Encode.asm a i ≠ .ok w) : ∀ ws, asmAll a is ≠ .ok ws := by
  intro ws h
  obtain ⟨w, _, hw⟩ := all2_mem_left (asmAll_ok h) i hi
  exact hbad w hw

/-- a numeric operand survives symbol resolution unchanged, at the same position -/
theorem resolve_num_at (tbl : List (String × Nat)) (pre post : List Arg) (n : Nat) :
    (pre ++ Arg.num n :: post).map (resolveArg tbl) =
      pre.map (resolveArg tbl) ++ Operand.num n :: post.map (resolveArg tbl) := by
  simp [resolveArg]

/-- C03's `asm_rejects_overflow` lifted to a whole processor body: a line with a number that does
    not fit its field (immediate ≥ 2^Rsize, ROM address ≥ 2^O with O = neededBits(#lines), …)
    makes the processor — hence the machine — unassemblable. -/
theorem mkCP_rejects_overflow {rsize : Nat} {rs : List RLine} {r : RLine} (hr : r ∈ rs)
    (pre post : List Arg) (n : Nat) (hargs : r.args = pre ++ .num n :: post)
    (fs : List FieldKind) (f : FieldKind) (hlay : layout r.op = some fs) (hlen : lenientArity r.op = false)
    (hf : fs[pre.length]? = some f) (hbig : ¬ n < 2 ^ (mkArch rsize rs).width f) :
    ∀ cp, mkCP rsize rs ≠ .ok cp := by
  intro cp h
  unfold mkCP at h
  cases hws : asmAll (mkArch rsize rs) (resolve rs) with
  | error e => simp [hws] at h
  | ok ws =>
    refine asmAll_rejects (i := ⟨r.op, r.args.map (resolveArg (labelTable rs))⟩) ?_ ?_ ws hws
    · unfold resolve; exact List.mem_map.mpr ⟨r, hr, rfl⟩
    · rw [hargs, resolve_num_at]
      have := BMV.Props.C03.asm_rejects_overflow (mkArch rsize rs) r.op (pre.map (resolveArg (labelTable rs)))
        (post.map (resolveArg (labelTable rs))) n fs f hlay hlen (by simpa using hf) hbig
      exact this

theorem assemble_rejects_overflow {src : Source} {fix : Bool} {rs : List RLine}
    (hbody : ∀ ss, mapE (secPrep fix src) src.sections = .ok ss → ∃ c ∈ src.procs, cpBody ss c = .ok rs)
    {r : RLine} (hr : r ∈ rs) (pre post : List Arg) (n : Nat) (hargs : r.args = pre ++ .num n :: post)
    (fs : List FieldKind) (f : FieldKind) (hlay : layout r.op = some fs) (hlen : lenientArity r.op = false)
    (hf : fs[pre.length]? = some f)
    (hbig : ∀ rsize, src.rsize = some rsize → ¬ n < 2 ^ (mkArch rsize rs).width f) :
    ∀ bm, assemble src fix ≠ .ok bm := by
  intro bm h
  obtain ⟨rsize, ss, bodies, cps, hrs, _, _, _, hss, hb, _, hc, _⟩ := assemble_ok_inv h
  obtain ⟨c, hc1, hc2⟩ := hbody ss hss
  obtain ⟨rs', hrs', hcb⟩ := all2_mem_left (mapE_ok hb) c hc1
  rw [hc2] at hcb
  cases hcb
  obtain ⟨cp, _, hmk⟩ := all2_mem_left (mapE_ok hc) rs hrs'
  exact mkCP_rejects_overflow hr pre post n hargs fs f hlay hlen hf (hbig rsize hrs) cp hmk

/-! ### `Needed_bits` at the power-of-two boundaries -/

theorem neededBits_spec {n : Nat} (h1 : 1 ≤ n) (h2 : n ≤ 2 ^ 63) :
    1 ≤ neededBits n ∧ neededBits n ≤ 63 ∧ n ≤ 2 ^ neededBits n ∧ ∀ j, 1 ≤ j → j < neededBits n → 2 ^ j < n := by
  unfold neededBits
  simp only [show n > 0 from h1, if_true]
  unfold leastBits
  cases hf : (List.range' 1 (64 - 1)).find? (fun b => decide (2 ^ b ≥ n)) with
  | some b =>
    obtain ⟨hp, hm, hmin⟩ := List.find?_range'_eq_some.mp hf
    simp only [decide_eq_true_eq] at hp
    simp only [List.mem_range'_1] at hm
    show 1 ≤ b ∧ b ≤ 63 ∧ n ≤ 2 ^ b ∧ ∀ j, 1 ≤ j → j < b → 2 ^ j < n
    refine ⟨hm.1, by omega, hp, ?_⟩
    intro j hj1 hj2
    have := hmin j hj1 hj2
    simp only [Bool.not_eq_true', decide_eq_false_iff_not] at this
    omega
  | none =>
    have := List.find?_eq_none.mp hf 63 (List.mem_range'.mpr ⟨62, by omega, by omega⟩)
    simp at this; omega

/-- exactly 2^k items need k bits (the last register / line still has an address) -/
theorem neededBits_pow2 {k : Nat} (h1 : 1 ≤ k) (h2 : k ≤ 63) : neededBits (2 ^ k) = k := by
  have hle : 2 ^ k ≤ 2 ^ 63 := Nat.pow_le_pow_right (by omega) h2
  obtain ⟨a, _, c, d⟩ := neededBits_spec (Nat.one_le_two_pow) hle
  have h3 : k ≤ neededBits (2 ^ k) := (Nat.pow_le_pow_iff_right (by omega)).mp c
  by_cases hlt : k < neededBits (2 ^ k)
  · have := d k h1 hlt; omega
  · omega

/-- one more than 2^k needs one more bit -/
theorem neededBits_pow2_succ {k : Nat} (h1 : 1 ≤ k) (h2 : k < 63) : neededBits (2 ^ k + 1) = k + 1 := by
  have hle : 2 ^ k + 1 ≤ 2 ^ 63 := by
    have : 2 ^ (k + 1) ≤ 2 ^ 63 := Nat.pow_le_pow_right (by omega) (by omega)
    have : 2 ^ (k + 1) = 2 * 2 ^ k := by rw [Nat.pow_succ]; omega
    have : 1 ≤ 2 ^ k := Nat.one_le_two_pow
    omega
  obtain ⟨a, _, c, d⟩ := neededBits_spec (Nat.le_add_left 1 _) hle
  have h3 : k < neededBits (2 ^ k + 1) := by
    apply Nat.lt_of_not_le
    intro hcon
    have : 2 ^ neededBits (2 ^ k + 1) ≤ 2 ^ k := Nat.pow_le_pow_right (by omega) hcon
    have : 1 ≤ 2 ^ k := Nat.one_le_two_pow
    omega
  by_cases hlt : k + 1 < neededBits (2 ^ k + 1)
  · have := d (k + 1) (by omega) hlt
    have : 2 ^ (k + 1) = 2 * 2 ^ k := by rw [Nat.pow_succ]; omega
    have : 1 ≤ 2 ^ k := Nat.one_le_two_pow
    omega
  · omega


/-! ### labels, positions, addresses -/

/-- index of a kept line inside the filtered list -/
theorem filter_getElem?_addr : ∀ (ls : List Line) (p : Nat) (l : Line), ls[p]? = some l → isEntry l = false →
    (ls.filter fun l => !isEntry l)[addr ls p]? = some l
  | [], p, l, h, _ => by simp at h
  | x :: xs, 0, l, h, hne => by
    simp at h; subst h
    simp [addr, hne]
  | x :: xs, p + 1, l, h, hne => by
    have ih := filter_getElem?_addr xs p l (by simpa using h) hne
    by_cases hx : isEntry x = true
    · simp only [addr, List.take_succ_cons, List.filter_cons, hx, Bool.not_true, Bool.false_eq_true, if_false] at ih ⊢
      exact ih
    · have hx' : isEntry x = false := by simpa using hx
      simp only [addr, List.take_succ_cons, List.filter_cons, hx', Bool.not_false, if_true, List.length_cons,
        List.getElem?_cons_succ] at ih ⊢
      exact ih

theorem matchLines_get {mode : Option IoMode} : ∀ {ls : List Line} {rs : List RLine},
    matchLines mode ls = .ok rs → ∀ (i : Nat) (l : Line), ls[i]? = some l →
      ∃ r : RLine, rs[i]? = some r ∧ r.labels = l.labels ∧ matchLine mode l = some (r.op, r.args)
  | [], rs, h, i, l, hl => by simp at hl
  | x :: xs, rs, h, i, l, hl => by
    simp only [matchLines] at h
    cases h1 : matchLine mode x with
    | none => simp [h1] at h
    | some p =>
      obtain ⟨op, args⟩ := p
      cases h2 : matchLines mode xs with
      | error e => simp [h1, h2] at h
      | ok rs' =>
        simp [h1, h2] at h; subst h
        cases i with
        | zero => simp at hl; subst hl; exact ⟨_, rfl, rfl, h1⟩
        | succ i => simpa using matchLines_get h2 i l (by simpa using hl)


theorem hasDup_false_iff (l : List String) : hasDup l = false ↔ l.Nodup := by
  induction l with
  | nil => simp [hasDup]
  | cons x xs ih =>
    simp only [hasDup, Bool.or_eq_false_iff, List.nodup_cons, ih]
    constructor
    · rintro ⟨h1, h2⟩; exact ⟨by simpa using h1, h2⟩
    · rintro ⟨h1, h2⟩; exact ⟨by simpa using h1, h2⟩

/-- with duplicate-free labels, a label sits on one line only -/
theorem label_unique {rs : List RLine} (hnd : (rs.flatMap (·.labels)).Nodup) {i j : Nat} {ri rj : RLine} {s : String}
    (hi : rs[i]? = some ri) (hj : rs[j]? = some rj) (hsi : s ∈ ri.labels) (hsj : s ∈ rj.labels) : i = j := by
  unfold List.Nodup at hnd
  rw [List.pairwise_flatMap] at hnd
  have hp := List.pairwise_iff_getElem.mp hnd.2
  obtain ⟨hil, hie⟩ := List.getElem?_eq_some_iff.mp hi
  obtain ⟨hjl, hje⟩ := List.getElem?_eq_some_iff.mp hj
  rcases Nat.lt_trichotomy i j with h | h | h
  · exact absurd rfl (hp i j hil hjl h s (by rw [hie]; exact hsi) s (by rw [hje]; exact hsj))
  · exact h
  · exact absurd rfl (hp j i hjl hil h s (by rw [hje]; exact hsj) s (by rw [hie]; exact hsi))

theorem mem_labelTable {rs : List RLine} {s : String} {i : Nat} :
    (s, i) ∈ labelTable rs ↔ ∃ r, rs[i]? = some r ∧ s ∈ r.labels := by
  unfold labelTable
  simp only [List.mem_flatMap, List.mem_map, Prod.mk.injEq]
  constructor
  · rintro ⟨⟨r, k⟩, hk, s', hs', rfl, rfl⟩
    exact ⟨r, List.mk_mem_zipIdx_iff_getElem?.mp hk, hs'⟩
  · rintro ⟨r, hr, hs⟩
    exact ⟨(r, i), List.mk_mem_zipIdx_iff_getElem?.mpr hr, s, hs, rfl, rfl⟩

/-- `symbolTagger`/`symbolResolver`: a label resolves to the index of the line it is attached to -/
theorem lookup_labelTable {rs : List RLine} (hnd : (rs.flatMap (·.labels)).Nodup) {i : Nat} {r : RLine} {s : String}
    (hr : rs[i]? = some r) (hs : s ∈ r.labels) : lookup (labelTable rs) s = some i := by
  unfold lookup
  have hmem : (s, i) ∈ labelTable rs := mem_labelTable.mpr ⟨r, hr, hs⟩
  cases hf : (labelTable rs).find? (·.1 == s) with
  | none =>
    have := List.find?_eq_none.mp hf (s, i) hmem
    simp at this
  | some p =>
    have h1 := List.find?_some hf
    have h2 := List.mem_of_find?_eq_some hf
    have hp1 : p.1 = s := by simpa using h1
    obtain ⟨r', hr', hs'⟩ := mem_labelTable.mp (show (s, p.2) ∈ labelTable rs by rw [← hp1]; exact h2)
    simp only [Option.map_some, Option.some.injEq]
    exact label_unique hnd hr' hr hs' hs

theorem lookup_lt {rs : List RLine} {s : String} {i : Nat} (h : lookup (labelTable rs) s = some i) : i < rs.length := by
  unfold lookup at h
  cases hf : (labelTable rs).find? (·.1 == s) with
  | none => simp [hf] at h
  | some p =>
    simp [hf] at h
    have h2 := List.mem_of_find?_eq_some hf
    obtain ⟨r', hr', _⟩ := mem_labelTable.mp (show (p.1, p.2) ∈ labelTable rs from h2)
    rw [← h]
    exact (List.getElem?_eq_some_iff.mp hr').1


theorem filter_flatMap_sublist {α β} (p : α → Bool) (f : α → List β) : ∀ (l : List α),
    ((l.filter p).flatMap f).Sublist (l.flatMap f)
  | [] => by simp
  | x :: xs => by
    by_cases hp : p x = true
    · simp only [List.filter_cons, hp, if_true, List.flatMap_cons]
      exact List.Sublist.append (List.Sublist.refl _) (filter_flatMap_sublist p f xs)
    · simp only [List.filter_cons, hp, List.flatMap_cons]
      exact List.Sublist.trans (filter_flatMap_sublist p f xs) (List.sublist_append_right _ _)

theorem matchLines_labels {mode : Option IoMode} : ∀ {ls : List Line} {rs : List RLine},
    matchLines mode ls = .ok rs → rs.flatMap (·.labels) = ls.flatMap (·.labels)
  | [], rs, h => by simp [matchLines] at h; subst h; rfl
  | x :: xs, rs, h => by
    simp only [matchLines] at h
    cases h1 : matchLine mode x with
    | none => simp [h1] at h
    | some p =>
      obtain ⟨op, args⟩ := p
      cases h2 : matchLines mode xs with
      | error e => simp [h1, h2] at h
      | ok rs' =>
        simp [h1, h2] at h; subst h
        simp [matchLines_labels h2]

theorem removeEntry_eq {ls ls' : List Line} (h : removeEntry ls = .ok ls') : ls' = ls.filter fun l => !isEntry l := by
  unfold removeEntry at h
  split at h <;> try cases h
  split at h <;> try cases h
  split at h <;> cases h
  rfl

/-- label table after the entry-line removal (unchanged tree): a label attached to an instruction
    line at source position `p` resolves to the ROM address of that instruction, i.e. the number
    of instructions before it — the directive no longer counts — and the line at that address is
    the matched form of that very source line. -/
theorem label_after_entry_removal_aux {ls ls' : List Line} {mode : Option IoMode} {rs : List RLine}
    (h1 : removeEntry ls = .ok ls') (h2 : matchLines mode ls' = .ok rs) (hnd : hasDup (allLabels ls) = false)
    {p : Nat} {l : Line} (hl : ls[p]? = some l) (hne : isEntry l = false) :
    (∃ r : RLine, rs[addr ls p]? = some r ∧ r.labels = l.labels ∧ matchLine mode l = some (r.op, r.args)) ∧
    ∀ s ∈ l.labels, lookup (labelTable rs) s = some (addr ls p) := by
  have he := removeEntry_eq h1
  subst he
  have hget := filter_getElem?_addr ls p l hl hne
  obtain ⟨r, hr, hrl, hm⟩ := matchLines_get h2 _ l hget
  refine ⟨⟨r, hr, hrl, hm⟩, ?_⟩
  intro s hs
  have hnd' : (rs.flatMap (·.labels)).Nodup := by
    rw [matchLines_labels h2]
    exact List.Nodup.sublist (filter_flatMap_sublist _ _ ls) ((hasDup_false_iff _).mp hnd)
  exact lookup_labelTable hnd' hr (by rw [hrl]; exact hs)

/-- the opcode field of the k-th ROM word is the position of that line's opcode in the sorted set
    of opcodes used by the whole section -/
theorem opcode_index_aux {rsize : Nat} {rs : List RLine} {cp : CP} (h : mkCP rsize rs = .ok cp)
    {k : Nat} {r : RLine} {w : Bits} (hr : rs[k]? = some r) (hw : cp.prog[k]? = some w) :
    cp.arch.ops = opsOf rs ∧ (opsOf rs)[getId (w.take cp.arch.opBits)]? = some r.op := by
  unfold mkCP at h
  cases hws : asmAll (mkArch rsize rs) (resolve rs) with
  | error e => simp [hws] at h
  | ok ws =>
    simp only [hws] at h
    cases h
    refine ⟨rfl, ?_⟩
    have hi : (resolve rs)[k]? = some ⟨r.op, r.args.map (resolveArg (labelTable rs))⟩ := by
      simp [resolve, hr]
    have hasm := (asmAll_ok hws).get k _ w hi hw
    obtain ⟨idx, hidx, hid, _⟩ := BMV.Props.C03.opcode_numbering _ _ w hasm
    rw [hid]; exact hidx

end BMV.Basm
