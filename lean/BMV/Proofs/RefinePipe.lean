/-
  C01 helper: the two-step ("pipelined") integer opcodes addp / multp / divp.  Both back-ends take
  two ticks per instruction (simulator: phase 0 sets the phase, phase 1 computes and retires;
  hardware: `put` latches the operands into the helper module's input registers, `get` writes the
  module's output and retires), so the refinement stays lock-step; the relation is extended by
  `PipeRel`: the simulator's phase flag is the hardware's state register, and while an instruction
  is in its second tick the latched operands are the registers the instruction names.
-/
import BMV.Proofs.Refine
namespace BMV.Refine
open BMV BMV.Bits

theorem pipe_mem_iff (op : String) : op ∈ Isa.pipeOps ↔ op ∈ Rtl.pipeOps := by
  simp [Isa.pipeOps, Rtl.pipeOps]

/-- phase flags vs state registers, and the latched operands of the instruction in flight -/
def PipeRel (a : Arch) (prog : List Bits) (s : VmState) (h : RtlState) : Prop :=
  s.phase.Nodup ∧
  ∀ op ∈ Isa.pipeOps,
    ((op ∈ s.phase) ↔ (h.getPipe op).st = true) ∧
    (op ∈ s.phase →
      ∃ w, prog[s.pc]? = some w ∧ a.ops[getId (w.take a.opBits)]? = some op ∧
        (h.getPipe op).a = s.regs.getD (Isa.field (w.drop a.opBits) 0 a.r) 0 ∧
        (h.getPipe op).b = s.regs.getD (Isa.field (w.drop a.opBits) a.r a.r) 0)

/-- Hypotheses under which one simulator step and one clock of a pipelined opcode are compared. -/
structure PipeHyp (a : Arch) (prog : List Bits) (s : VmState) (h : RtlState) (p : PortsIn)
    (w : Bits) (op : String) (s' : VmState) : Prop where
  ws : a.wordSize = 0
  wlen : w.length = a.maxWord
  rel : Rel s h
  prel : PipeRel a prog s h
  fetch : prog[s.pc]? = some w
  decode : a.ops[getId (w.take a.opBits)]? = some op
  pipe : op ∈ Isa.pipeOps
  width : Isa.stdSize a.rsize = true
  step : Isa.step a prog s = some s'
  noFall : s'.pc < 2 ^ a.o

theorem exec_pipe (a : Arch) (n : Nat) (op : String) (body : Bits) (s : VmState) (hop : op ∈ Isa.pipeOps) :
    Isa.exec a n op body s =
      (if op ∈ s.phase then
        (s.regs[Isa.field body 0 a.r]?).bind fun d => (s.regs[Isa.field body a.r a.r]?).bind fun sv =>
          (Isa.pbinop op a.rsize d sv).map fun v =>
            { s with pc := s.pc + 1, regs := s.regs.set (Isa.field body 0 a.r) v, phase := s.phase.erase op }
      else some { s with phase := s.phase ++ [op] }) := by
  simp only [Isa.pipeOps, List.mem_cons, List.not_mem_nil, or_false] at hop
  rcases hop with rfl | rfl | rfl <;>
  · simp only [Isa.exec]
    simp [Isa.pipeOps]
    split
    · cases s.regs[Isa.field body 0 a.r]? with
      | none => rfl
      | some d =>
        cases s.regs[Isa.field body a.r a.r]? with
        | none => rfl
        | some sv => simp only [Option.bind_some]; cases Isa.pbinop _ a.rsize d sv <;> rfl
    · rfl

theorem main_pipe (a : Arch) (cur : Nat) (op : String) (h : RtlState) (p : PortsIn)
    (hcur : Rtl.curOp a cur = some op) (hop : op ∈ Rtl.pipeOps) :
    Rtl.mainBlock a cur h p =
      (if (h.getPipe op).st = false then
        h.setPipe op { st := true, a := h.regs.getD (Rtl.part cur a.maxWord a.opBits a.r) 0,
                       b := h.regs.getD (Rtl.part cur a.maxWord (a.opBits + a.r) a.r) 0 }
       else { (h.setPipe op { (h.getPipe op) with st := false }) with
              pc := (h.pc + 1) % 2 ^ a.o,
              regs := h.regs.set (Rtl.part cur a.maxWord a.opBits a.r)
                (Rtl.pbinop op a.rsize (h.getPipe op).a (h.getPipe op).b) }) := by
  simp only [Rtl.pipeOps, List.mem_cons, List.not_mem_nil, or_false] at hop
  rcases hop with rfl | rfl | rfl <;> simp [Rtl.mainBlock, hcur, Rtl.unops, Rtl.binops, Rtl.pipeOps]

theorem pbinop_agree (op : String) (rs d s v : Nat) (hop : op ∈ Isa.pipeOps)
    (h : Isa.pbinop op rs d s = some v) : Rtl.pbinop op rs d s = v := by
  simp only [Isa.pipeOps, List.mem_cons, List.not_mem_nil, or_false] at hop
  rcases hop with rfl | rfl | rfl
  · simp [Isa.pbinop] at h; simp [Rtl.pbinop]; exact h.2
  · simp [Isa.pbinop] at h; simp [Rtl.pbinop]; exact h.2
  · simp [Isa.pbinop] at h; simp [Rtl.pbinop]; exact h.2.2

theorem getPipe_setPipe_same (h : RtlState) (op : String) (q : Pipe) (hop : op ∈ Rtl.pipeOps) :
    (h.setPipe op q).getPipe op = q := by
  simp only [Rtl.pipeOps, List.mem_cons, List.not_mem_nil, or_false] at hop
  rcases hop with rfl | rfl | rfl <;> simp [RtlState.setPipe, RtlState.getPipe]

theorem getPipe_setPipe_other (h : RtlState) (op op' : String) (q : Pipe) (hop : op ∈ Rtl.pipeOps)
    (hop' : op' ∈ Rtl.pipeOps) (hne : op' ≠ op) : (h.setPipe op q).getPipe op' = h.getPipe op' := by
  simp only [Rtl.pipeOps, List.mem_cons, List.not_mem_nil, or_false] at hop hop'
  rcases hop with rfl | rfl | rfl <;> rcases hop' with rfl | rfl | rfl <;>
    first
    | exact absurd rfl hne
    | simp [RtlState.setPipe, RtlState.getPipe]

theorem setPipe_arch (h : RtlState) (op : String) (q : Pipe) :
    (h.setPipe op q).pc = h.pc ∧ (h.setPipe op q).regs = h.regs ∧ (h.setPipe op q).auxo = h.auxo := by
  unfold RtlState.setPipe
  (repeat' split) <;> exact ⟨rfl, rfl, rfl⟩

theorem runDeferred_phase (s : VmState) : (Isa.runDeferred s).phase = s.phase := by
  simp [Isa.runDeferred]

theorem curOp_pipe {a : Arch} {w : Bits} {op : String} (hws : a.wordSize = 0) (hwlen : w.length = a.maxWord)
    (hdec : a.ops[getId (w.take a.opBits)]? = some op) (hop : op ∈ Isa.pipeOps) :
    Rtl.curOp a (getId w) = some op ∧ a.opBits + (a.r + a.r) ≤ a.maxWord := by
  have hfit : a.opBits + (a.r + a.r) ≤ a.maxWord := by
    have := instr_fits a hws hdec
    rw [instrLen_pipe a op ((pipe_mem_iff op).mp hop)] at this
    exact this
  refine ⟨?_, hfit⟩
  unfold Rtl.curOp
  rw [← opcode_eq_part w a.maxWord a.opBits hwlen (by omega)]
  exact hdec

/-- no other pipelined opcode is in flight while `op` is the current instruction -/
theorem others_idle {a : Arch} {prog : List Bits} {s : VmState} {h : RtlState} {w : Bits} {op : String}
    (hp : PipeRel a prog s h) (hf : prog[s.pc]? = some w) (hd : a.ops[getId (w.take a.opBits)]? = some op)
    {op' : String} (hop' : op' ∈ Isa.pipeOps) (hne : op' ≠ op) :
    op' ∉ s.phase ∧ (h.getPipe op').st = false := by
  obtain ⟨hiff, hlat⟩ := hp.2 op' hop'
  have hn : op' ∉ s.phase := by
    intro hin
    obtain ⟨w', hf', hd', _⟩ := hlat hin
    rw [hf] at hf'
    cases hf'
    rw [hd] at hd'
    cases hd'
    exact hne rfl
  refine ⟨hn, ?_⟩
  cases hst : (h.getPipe op').st
  · rfl
  · exact absurd (hiff.mpr hst) hn

/-- **one tick of a pipelined opcode**: the relation on pc / registers / outputs and the pipeline
    relation are both preserved -/
theorem refine_pipe {a : Arch} {prog : List Bits} {s : VmState} {h : RtlState} {p : PortsIn}
    {w : Bits} {op : String} {s' : VmState} (H : PipeHyp a prog s h p w op s') :
    Rel s' (Rtl.cycle a prog h p) ∧ PipeRel a prog s' (Rtl.cycle a prog h p) := by
  obtain ⟨rpc, rregs, rout⟩ := H.rel
  obtain ⟨dpc, dregs, dout, _⟩ := runDeferred_arch s
  have dph := runDeferred_phase s
  obtain ⟨hcur, hfit⟩ := curOp_pipe H.ws H.wlen H.decode H.pipe
  have hopR := (pipe_mem_iff op).mp H.pipe
  have hk := field_eq_part w a.maxWord a.opBits 0 a.r H.wlen (by omega)
  have hs := field_eq_part w a.maxWord a.opBits a.r a.r H.wlen (by omega)
  simp only [Nat.add_zero] at hk
  -- the simulator step is `exec` of this opcode
  have hex : Isa.exec a prog.length op (w.drop a.opBits) (Isa.runDeferred s) = some s' := by
    have hst := H.step
    unfold Isa.step at hst
    have hpc : ¬ s.pc > prog.length := by
      have := (List.getElem?_eq_some_iff.mp H.fetch).1; omega
    simp only [hpc, if_false, dpc, H.fetch, H.decode] at hst
    exact hst
  rw [exec_pipe a _ op _ _ H.pipe, dph] at hex
  -- the hardware clock is the pipelined arm
  have hmain := main_pipe a (getId w) op h p hcur hopR
  have hcyc : ∀ x : RtlState, Rtl.mainBlock a (Rtl.fetch prog h.pc) h p = x →
      (Rtl.cycle a prog h p).pc = x.pc ∧ (Rtl.cycle a prog h p).regs = x.regs ∧
      (Rtl.cycle a prog h p).auxo = x.auxo ∧ ∀ o, (Rtl.cycle a prog h p).getPipe o = x.getPipe o := by
    intro x hx
    subst hx
    refine ⟨rfl, rfl, rfl, fun o => ?_⟩
    simp [Rtl.cycle, RtlState.getPipe]
  rw [← rpc, fetch_eq H.fetch] at hcyc
  obtain ⟨hnd, hall⟩ := H.prel
  obtain ⟨hiff, hlat⟩ := hall op H.pipe
  by_cases hin : op ∈ s.phase
  · -- second tick: compute and retire
    have hst : (h.getPipe op).st = true := hiff.mp hin
    obtain ⟨w', hf', _, ha, hb⟩ := hlat hin
    rw [H.fetch] at hf'
    cases hf'
    simp only [hin, if_true, dregs] at hex
    cases hd : s.regs[Isa.field (w.drop a.opBits) 0 a.r]? with
    | none => simp [hd] at hex
    | some d =>
      cases hsv : s.regs[Isa.field (w.drop a.opBits) a.r a.r]? with
      | none => simp [hd, hsv] at hex
      | some sv =>
        simp only [hd, hsv, Option.bind_some] at hex
        cases hv : Isa.pbinop op a.rsize d sv with
        | none => simp [hv] at hex
        | some v =>
          simp only [hv, Option.map_some, Option.some.injEq] at hex
          have hagree := pbinop_agree op a.rsize d sv v H.pipe hv
          have ha' : (h.getPipe op).a = d := by rw [ha, getD_of_getElem? hd]
          have hb' : (h.getPipe op).b = sv := by rw [hb, getD_of_getElem? hsv]
          have hnf := H.noFall
          rw [← hex] at hnf ⊢
          simp only [dpc] at hnf
          simp only [hst, Bool.true_eq_false, if_false] at hmain
          obtain ⟨cpc, cregs, cauxo, cpipe⟩ := hcyc _ hmain
          refine ⟨⟨?_, ?_, ?_⟩, ?_, ?_⟩
          · simp only [dpc]; rw [cpc]; simp only; rw [← rpc, Nat.mod_eq_of_lt hnf]
          · rw [cregs]; simp only; rw [← hk, ha', hb', hagree, rregs]
          · rw [cauxo]; simp only [dout]; rw [(setPipe_arch h op _).2.2]; exact rout
          · exact hnd.erase op
          · intro op' hop'
            by_cases hne : op' = op
            · subst hne
              have hnot : op' ∉ s.phase.erase op' := fun hm => (List.Nodup.mem_erase_iff hnd).mp hm |>.1 rfl
              refine ⟨⟨fun hm => absurd hm hnot, fun hm => ?_⟩, fun hm => absurd hm hnot⟩
              rw [cpipe] at hm
              simp only [RtlState.getPipe] at hm
              have := getPipe_setPipe_same h op' { (h.getPipe op') with st := false } hopR
              simp only [RtlState.getPipe] at this
              rw [this] at hm
              cases hm
            · obtain ⟨hn', hst'⟩ := others_idle ⟨hnd, hall⟩ H.fetch H.decode hop' hne
              have hnot : op' ∉ s.phase.erase op := fun hm => hn' (List.mem_of_mem_erase hm)
              refine ⟨⟨fun hm => absurd hm hnot, fun hm => ?_⟩, fun hm => absurd hm hnot⟩
              rw [cpipe] at hm
              have e : ({ (h.setPipe op { (h.getPipe op) with st := false }) with
                  pc := (h.pc + 1) % 2 ^ a.o,
                  regs := h.regs.set (Rtl.part (getId w) a.maxWord a.opBits a.r)
                    (Rtl.pbinop op a.rsize (h.getPipe op).a (h.getPipe op).b) } : RtlState).getPipe op' =
                  (h.setPipe op { (h.getPipe op) with st := false }).getPipe op' := by
                simp [RtlState.getPipe]
              rw [e, getPipe_setPipe_other h op op' _ hopR ((pipe_mem_iff op').mp hop') hne, hst'] at hm
              cases hm
  · -- first tick: latch the operands
    have hst : (h.getPipe op).st = false := by
      cases hx : (h.getPipe op).st
      · rfl
      · exact absurd (hiff.mpr hx) hin
    simp only [hin, if_false, Option.some.injEq] at hex
    rw [← hex]
    simp only [hst, if_true] at hmain
    obtain ⟨cpc, cregs, cauxo, cpipe⟩ := hcyc _ hmain
    obtain ⟨spc, sregs, sauxo⟩ := setPipe_arch h op
      { st := true, a := h.regs.getD (Rtl.part (getId w) a.maxWord a.opBits a.r) 0,
        b := h.regs.getD (Rtl.part (getId w) a.maxWord (a.opBits + a.r) a.r) 0 }
    refine ⟨⟨?_, ?_, ?_⟩, ?_, ?_⟩
    · simp only [dpc]; rw [cpc, spc]; exact rpc
    · simp only [dregs]; rw [cregs, sregs]; exact rregs
    · simp only [dout]; rw [cauxo, sauxo]; exact rout
    · simp only
      rw [List.nodup_append]
      refine ⟨hnd, by simp, ?_⟩
      intro x hx y hy
      simp only [List.mem_singleton] at hy
      subst hy
      intro e
      subst e
      exact hin hx
    · intro op' hop'
      by_cases hne : op' = op
      · subst hne
        refine ⟨⟨fun _ => ?_, fun _ => by simp⟩, fun _ => ?_⟩
        · rw [cpipe, getPipe_setPipe_same h op' _ hopR]
        · refine ⟨w, ?_, H.decode, ?_, ?_⟩
          · simp only [dpc]; exact H.fetch
          · rw [cpipe, getPipe_setPipe_same h op' _ hopR]
            simp only [dregs]
            rw [← hk, rregs]
          · rw [cpipe, getPipe_setPipe_same h op' _ hopR]
            simp only [dregs]
            rw [← hs, rregs]
      · obtain ⟨hn', hst'⟩ := others_idle ⟨hnd, hall⟩ H.fetch H.decode hop' hne
        have hnot : op' ∉ s.phase ++ [op] := by
          simp only [List.mem_append, List.mem_singleton, not_or]
          exact ⟨hn', hne⟩
        refine ⟨⟨fun hm => absurd hm hnot, fun hm => ?_⟩, fun hm => absurd hm hnot⟩
        rw [cpipe, getPipe_setPipe_other h op op' _ hopR ((pipe_mem_iff op').mp hop') hne, hst'] at hm
        cases hm


theorem lockstep_not_pipe {op : String} (h : op ∈ lockstepOps) : op ∉ Isa.pipeOps := by
  simp only [lockstepOps, List.mem_cons, List.not_mem_nil, or_false] at h
  rcases h with rfl | rfl | rfl | rfl | rfl | rfl | rfl | rfl | rfl | rfl | rfl | rfl | rfl | rfl | rfl | rfl | rfl | rfl | rfl | rfl | rfl <;>
    decide

local macro "phbranch" h:ident : tactic =>
  `(tactic| ((repeat' (split at $h:ident)) <;> (cases $h:ident <;> rfl)))

/-- only the pipelined opcodes touch the phase flags -/
theorem exec_phase {a : Arch} {n : Nat} {op : String} {body : Bits} {s s' : VmState}
    (h : Isa.exec a n op body s = some s') (hnp : op ∉ Isa.pipeOps) : s'.phase = s.phase := by
  unfold Isa.exec at h
  simp only at h
  by_cases h1 : op = "nop"
  · rw [if_pos h1] at h; phbranch h
  rw [if_neg h1] at h
  by_cases h2 : op = "rset"
  · rw [if_pos h2] at h; phbranch h
  rw [if_neg h2] at h
  by_cases h3 : op ∈ ["inc", "dec", "clr"]
  · rw [if_pos h3] at h; phbranch h
  rw [if_neg h3] at h
  by_cases h4 : op ∈ ["add", "mult", "div", "cpy", "and", "or", "xor", "nand", "nor", "xnor", "not", "mod"]
  · rw [if_pos h4] at h; phbranch h
  rw [if_neg h4, if_neg hnp] at h
  by_cases h5 : op = "j"
  · rw [if_pos h5] at h; phbranch h
  rw [if_neg h5] at h
  by_cases h6 : op = "jz"
  · rw [if_pos h6] at h; phbranch h
  rw [if_neg h6] at h
  by_cases h7 : op = "i2r"
  · rw [if_pos h7] at h; phbranch h
  rw [if_neg h7] at h
  by_cases h8 : op = "r2o"
  · rw [if_pos h8] at h; phbranch h
  rw [if_neg h8] at h
  by_cases h9 : op = "i2rw"
  · rw [if_pos h9] at h; phbranch h
  rw [if_neg h9] at h
  by_cases h10 : op = "r2owa"
  · rw [if_pos h10] at h; phbranch h
  rw [if_neg h10] at h
  cases h

/-- only the pipelined opcodes touch the helper modules' registers -/
theorem mainBlock_pipes {a : Arch} {cur : Nat} (s : RtlState) (p : PortsIn) {op : String}
    (hc : Rtl.curOp a cur = some op) (hnp : op ∉ Rtl.pipeOps) (o : String) :
    (Rtl.mainBlock a cur s p).getPipe o = s.getPipe o := by
  unfold Rtl.mainBlock
  simp only [hc]
  by_cases h1 : op = "nop"
  · rw [if_pos h1]; rfl
  rw [if_neg h1]
  by_cases h2 : op = "rset"
  · rw [if_pos h2]; rfl
  rw [if_neg h2]
  by_cases h3 : op ∈ Rtl.unops
  · rw [if_pos h3]; rfl
  rw [if_neg h3]
  by_cases h4 : op ∈ Rtl.binops
  · rw [if_pos h4]; rfl
  rw [if_neg h4, if_neg hnp]
  by_cases h5 : op = "j"
  · rw [if_pos h5]; rfl
  rw [if_neg h5]
  by_cases h6 : op = "jz"
  · rw [if_pos h6]; split <;> rfl
  rw [if_neg h6]
  by_cases h7 : op = "i2r"
  · rw [if_pos h7]; split <;> rfl
  rw [if_neg h7]
  by_cases h8 : op = "r2o"
  · rw [if_pos h8]; split <;> rfl
  rw [if_neg h8]
  by_cases h9 : op = "i2rw"
  · rw [if_pos h9]; split <;> rfl
  rw [if_neg h9]
  by_cases h10 : op = "r2owa"
  · rw [if_pos h10]; (repeat' split) <;> rfl
  rw [if_neg h10]
  rfl

/-- a one-clock opcode leaves the pipeline relation alone -/
theorem lockstep_keeps_pipe {a : Arch} {prog : List Bits} {s : VmState} {h : RtlState} {p : PortsIn}
    {w : Bits} {op : String} {s' : VmState} (H : StepHyp a prog s h p w op s') (hp : PipeRel a prog s h) :
    PipeRel a prog s' (Rtl.cycle a prog h p) := by
  have hnp := lockstep_not_pipe H.lock
  have hex := step_exec H
  have hph : s'.phase = s.phase := by rw [exec_phase hex hnp, runDeferred_phase]
  have hcur := curOp_eq H
  have hpipes : ∀ o, (Rtl.cycle a prog h p).getPipe o = h.getPipe o := by
    intro o
    have : (Rtl.cycle a prog h p).getPipe o = (Rtl.mainBlock a (Rtl.fetch prog h.pc) h p).getPipe o := by
      simp [Rtl.cycle, RtlState.getPipe]
    rw [this, ← H.rel.1, fetch_eq H.fetch]
    exact mainBlock_pipes h p hcur (fun hm => hnp ((pipe_mem_iff op).mpr hm)) o
  refine ⟨by rw [hph]; exact hp.1, ?_⟩
  intro op' hop'
  have hne : op' ≠ op := fun e => hnp (e ▸ hop')
  obtain ⟨hn', hst'⟩ := others_idle hp H.fetch H.decode hop' hne
  rw [hph, hpipes]
  exact ⟨⟨fun hm => absurd hm hn', fun hm => by rw [hst'] at hm; cases hm⟩, fun hm => absurd hm hn'⟩

end BMV.Refine
