/-
  Helper lemmas for C02 about the simulator world of BMV.Bm: what the movement loops of
  `VM.Step` (`Bm.preMove` / `Bm.postMove`) do, seen from one processor port — `isaStep` as a
  synchronous product of the processors over the bonds (`isaStep_proc`) — and the projection of one
  bond of a machine step onto C04's handshake model `Hs.Isa.step`.
-/
import BMV.Proofs.Bond
import BMV.Proofs.Bm
import BMV.Hs
namespace BMV.Bm
open BMV BMV.Bits BMV.Topology

/-! ### list plumbing -/

theorem getElem?_modifyAt {α} (l : List α) (r p : Nat) (f : α → α) :
    (modifyAt l r f)[p]? = if p = r then (l[p]?).map f else l[p]? := by
  unfold modifyAt
  cases h : l[r]? with
  | none =>
    by_cases hp : p = r
    · subst hp; simp [h]
    · simp [hp]
  | some x =>
    by_cases hp : p = r
    · subst hp
      have hlt : p < l.length := (List.getElem?_eq_some_iff.mp h).1
      simp [List.getElem?_set_self hlt, h]
    · simp only [hp, if_false]
      rw [List.getElem?_set_ne (fun e => hp e.symm)]

theorem length_modifyAt {α} (l : List α) (r : Nat) (f : α → α) : (modifyAt l r f).length = l.length := by
  unfold modifyAt
  cases l[r]? <;> simp

/-- a fold of keyed in-place updates, seen from one position -/
theorem foldl_modifyAt_get {α β} (l : List β) (cond : β → Bool) (res : β → Nat) (upd : β → α → α)
    (g : List α → β → List α)
    (hg : ∀ ps x, g ps x = if cond x then modifyAt ps (res x) (upd x) else ps)
    (ps : List α) (p : Nat) :
    (l.foldl g ps)[p]? =
      (ps[p]?).map (fun v => (l.filter (fun x => cond x && res x == p)).foldl (fun v x => upd x v) v) := by
  induction l generalizing ps with
  | nil => simp
  | cons x l ih =>
    simp only [List.foldl_cons]
    rw [ih, hg]
    by_cases hc : cond x = true
    · simp only [hc, if_true, getElem?_modifyAt]
      by_cases hp : p = res x
      · subst hp
        simp only [if_true, List.filter_cons, hc, Bool.true_and, beq_self_eq_true, List.foldl_cons, Option.map_map]
        rfl
      · have : (res x == p) = false := by simp; exact fun e => hp e.symm
        simp only [hp, if_false, List.filter_cons, hc, this, Bool.and_false]
        rfl
    · simp only [hc, if_false, List.filter_cons, Bool.false_and]
      simp [hc]

theorem length_foldl_modifyAt {α β} (l : List β) (cond : β → Bool) (res : β → Nat) (upd : β → α → α)
    (g : List α → β → List α)
    (hg : ∀ ps x, g ps x = if cond x then modifyAt ps (res x) (upd x) else ps)
    (ps : List α) : (l.foldl g ps).length = ps.length := by
  induction l generalizing ps with
  | nil => rfl
  | cons x l ih =>
    simp only [List.foldl_cons]
    rw [ih, hg]
    split
    · exact length_modifyAt _ _ _
    · rfl

/-! ### what the writes of one movement loop do to one processor -/

/-- `Processors[r].Inputs[ext] = x; InputsValid[ext] = vld` -/
def wIn (ext x : Nat) (vld : Bool) (v : VmState) : VmState :=
  { v with inputs := v.inputs.set ext x, inValid := v.inValid.set ext vld }

/-- `Processors[r].OutputsRecv[ext] = rc` -/
def wRecv (ext : Nat) (rc : Bool) (v : VmState) : VmState :=
  { v with outRecv := v.outRecv.set ext rc }

/-- the input-side view of a processor: everything but `inputs` / `inValid` is untouched -/
structure SameButIn (v v' : VmState) : Prop where
  pc : v'.pc = v.pc
  regs : v'.regs = v.regs
  outputs : v'.outputs = v.outputs
  outValid : v'.outValid = v.outValid
  inRecv : v'.inRecv = v.inRecv
  outRecv : v'.outRecv = v.outRecv
  deferred : v'.deferred = v.deferred
  lenI : v'.inputs.length = v.inputs.length
  lenV : v'.inValid.length = v.inValid.length

theorem foldl_wIn_frame (ws : List (Nat × Nat × Bool)) (v : VmState) :
    SameButIn v (ws.foldl (fun v w => wIn w.1 w.2.1 w.2.2 v) v) := by
  induction ws generalizing v with
  | nil => exact ⟨rfl, rfl, rfl, rfl, rfl, rfl, rfl, rfl, rfl⟩
  | cons w ws ih =>
    simp only [List.foldl_cons]
    have h := ih (wIn w.1 w.2.1 w.2.2 v)
    exact ⟨h.pc, h.regs, h.outputs, h.outValid, h.inRecv, h.outRecv, h.deferred,
      by rw [h.lenI]; simp [wIn], by rw [h.lenV]; simp [wIn]⟩

/-- a port nobody writes keeps its value -/
theorem foldl_wIn_other (ws : List (Nat × Nat × Bool)) (v : VmState) (k : Nat) (hno : ∀ w ∈ ws, w.1 ≠ k) :
    (ws.foldl (fun v w => wIn w.1 w.2.1 w.2.2 v) v).inputs[k]? = v.inputs[k]? ∧
    (ws.foldl (fun v w => wIn w.1 w.2.1 w.2.2 v) v).inValid[k]? = v.inValid[k]? := by
  induction ws generalizing v with
  | nil => exact ⟨rfl, rfl⟩
  | cons w ws ih =>
    simp only [List.foldl_cons]
    have := ih (wIn w.1 w.2.1 w.2.2 v) (fun w' hw' => hno w' (List.mem_cons_of_mem _ hw'))
    rw [this.1, this.2]
    have hw := hno w (by simp)
    simp only [wIn]
    exact ⟨List.getElem?_set_ne hw, List.getElem?_set_ne hw⟩

/-- a port written by exactly one kind of write holds that write afterwards -/
theorem foldl_wIn_get (ws : List (Nat × Nat × Bool)) (v : VmState) (k x : Nat) (vld : Bool)
    (hmem : (k, x, vld) ∈ ws) (huniq : ∀ w ∈ ws, w.1 = k → w = (k, x, vld))
    (hk : k < v.inputs.length) (hk' : k < v.inValid.length) :
    (ws.foldl (fun v w => wIn w.1 w.2.1 w.2.2 v) v).inputs[k]? = some x ∧
    (ws.foldl (fun v w => wIn w.1 w.2.1 w.2.2 v) v).inValid[k]? = some vld := by
  induction ws generalizing v with
  | nil => simp at hmem
  | cons w ws ih =>
    simp only [List.foldl_cons]
    by_cases hin : (k, x, vld) ∈ ws
    · exact ih (wIn w.1 w.2.1 w.2.2 v) hin (fun w' hw' => huniq w' (List.mem_cons_of_mem _ hw'))
        (by simp [wIn]; exact hk) (by simp [wIn]; exact hk')
    · have hw : w = (k, x, vld) := by
        rcases List.mem_cons.mp hmem with h | h
        · exact h.symm
        · exact absurd h hin
      have hno : ∀ w' ∈ ws, w'.1 ≠ k := by
        intro w' hw' e
        exact hin (huniq w' (List.mem_cons_of_mem _ hw') e ▸ hw')
      have := foldl_wIn_other ws (wIn w.1 w.2.1 w.2.2 v) k hno
      rw [this.1, this.2, hw]
      simp only [wIn]
      exact ⟨List.getElem?_set_self hk, List.getElem?_set_self hk'⟩

/-- the recv-side view: everything but `outRecv` is untouched -/
structure SameButRecv (v v' : VmState) : Prop where
  pc : v'.pc = v.pc
  regs : v'.regs = v.regs
  inputs : v'.inputs = v.inputs
  inValid : v'.inValid = v.inValid
  outputs : v'.outputs = v.outputs
  outValid : v'.outValid = v.outValid
  inRecv : v'.inRecv = v.inRecv
  deferred : v'.deferred = v.deferred
  lenR : v'.outRecv.length = v.outRecv.length

theorem foldl_wRecv_frame (ws : List (Nat × Bool)) (v : VmState) :
    SameButRecv v (ws.foldl (fun v w => wRecv w.1 w.2 v) v) := by
  induction ws generalizing v with
  | nil => exact ⟨rfl, rfl, rfl, rfl, rfl, rfl, rfl, rfl, rfl⟩
  | cons w ws ih =>
    simp only [List.foldl_cons]
    have h := ih (wRecv w.1 w.2 v)
    exact ⟨h.pc, h.regs, h.inputs, h.inValid, h.outputs, h.outValid, h.inRecv, h.deferred, by rw [h.lenR]; simp [wRecv]⟩

theorem foldl_wRecv_other (ws : List (Nat × Bool)) (v : VmState) (k : Nat) (hno : ∀ w ∈ ws, w.1 ≠ k) :
    (ws.foldl (fun v w => wRecv w.1 w.2 v) v).outRecv[k]? = v.outRecv[k]? := by
  induction ws generalizing v with
  | nil => rfl
  | cons w ws ih =>
    simp only [List.foldl_cons]
    rw [ih (wRecv w.1 w.2 v) (fun w' hw' => hno w' (List.mem_cons_of_mem _ hw'))]
    simp only [wRecv]
    exact List.getElem?_set_ne (hno w (by simp))

theorem foldl_wRecv_get (ws : List (Nat × Bool)) (v : VmState) (k : Nat) (rc : Bool)
    (hmem : (k, rc) ∈ ws) (huniq : ∀ w ∈ ws, w.1 = k → w = (k, rc)) (hk : k < v.outRecv.length) :
    (ws.foldl (fun v w => wRecv w.1 w.2 v) v).outRecv[k]? = some rc := by
  induction ws generalizing v with
  | nil => simp at hmem
  | cons w ws ih =>
    simp only [List.foldl_cons]
    by_cases hin : (k, rc) ∈ ws
    · exact ih (wRecv w.1 w.2 v) hin (fun w' hw' => huniq w' (List.mem_cons_of_mem _ hw')) (by simp [wRecv]; exact hk)
    · have hw : w = (k, rc) := by
        rcases List.mem_cons.mp hmem with h | h
        · exact h.symm
        · exact absurd h hin
      have hno : ∀ w' ∈ ws, w'.1 ≠ k := by
        intro w' hw' e
        exact hin (huniq w' (List.mem_cons_of_mem _ hw') e ▸ hw')
      rw [foldl_wRecv_other ws _ k hno, hw]
      simp only [wRecv]
      exact List.getElem?_set_self hk

/-! ### the two loops that write into the processors -/

def inWrites (t : Topo) (s : BmState) (p : Nat) : List (Nat × Nat × Bool) :=
  (t.iin.zipIdx.filter (fun x => decide (x.1.kind = 2) && x.1.res == p)).map
    fun x => (x.1.ext, s.iiRegs.getD x.2 0, s.iiValid.getD x.2 false)

def recvWrites (t : Topo) (s : BmState) (p : Nat) : List (Nat × Bool) :=
  (t.iout.zipIdx.filter (fun x => decide (x.1.kind = 3) && x.1.res == p)).map
    fun x => (x.1.ext, s.ioRecv.getD x.2 false)

theorem mvToProcs_get (t : Topo) (s : BmState) (p : Nat) :
    (mvToProcs t s).procs[p]? =
      (s.procs[p]?).map (fun v => (inWrites t s p).foldl (fun v w => wIn w.1 w.2.1 w.2.2 v) v) := by
  unfold mvToProcs inWrites
  simp only
  rw [foldl_modifyAt_get (t.iin.zipIdx) (fun x => decide (x.1.kind = 2)) (fun x => x.1.res)
    (fun x v => wIn x.1.ext (s.iiRegs.getD x.2 0) (s.iiValid.getD x.2 false) v)]
  · simp only [List.foldl_map]
  · rintro ps ⟨b, i⟩
    by_cases h : b.kind = 2 <;> simp [h, wIn]

theorem mvRecvToProcs_get (t : Topo) (s : BmState) (p : Nat) :
    (mvRecvToProcs t s).procs[p]? =
      (s.procs[p]?).map (fun v => (recvWrites t s p).foldl (fun v w => wRecv w.1 w.2 v) v) := by
  unfold mvRecvToProcs recvWrites
  simp only
  rw [foldl_modifyAt_get (t.iout.zipIdx) (fun x => decide (x.1.kind = 3)) (fun x => x.1.res)
    (fun x v => wRecv x.1.ext (s.ioRecv.getD x.2 false) v)]
  · simp only [List.foldl_map]
  · rintro ps ⟨b, i⟩
    by_cases h : b.kind = 3 <;> simp [h, wRecv]

/-- the writes to port `(p, k)` all come from the slot of `pPiK` -/
theorem inWrites_spec {t : Topo} (h : WF t) (s : BmState) {p k i : Nat} (hi : t.iin[i]? = some ⟨2, p, k⟩) :
    (k, s.iiRegs.getD i 0, s.iiValid.getD i false) ∈ inWrites t s p ∧
    ∀ w ∈ inWrites t s p, w.1 = k → w = (k, s.iiRegs.getD i 0, s.iiValid.getD i false) := by
  unfold inWrites
  constructor
  · rw [List.mem_map]
    refine ⟨(⟨2, p, k⟩, i), ?_, rfl⟩
    rw [List.mem_filter]
    exact ⟨List.mem_zipIdx_iff_getElem?.mpr hi, by simp⟩
  · intro w hw hk
    rw [List.mem_map] at hw
    obtain ⟨⟨b, i'⟩, hm, rfl⟩ := hw
    rw [List.mem_filter] at hm
    obtain ⟨hm, hc⟩ := hm
    simp only [Bool.and_eq_true, decide_eq_true_eq, beq_iff_eq] at hc
    have hb : b = ⟨2, p, k⟩ := by
      cases b; simp_all
    subst hb
    have := idx_unique h.iin_nodup (List.mem_zipIdx_iff_getElem?.mp hm) hi
    subst this
    rfl

theorem recvWrites_spec {t : Topo} (h : WF t) (s : BmState) {p o j : Nat} (hj : t.iout[j]? = some ⟨3, p, o⟩) :
    (o, s.ioRecv.getD j false) ∈ recvWrites t s p ∧
    ∀ w ∈ recvWrites t s p, w.1 = o → w = (o, s.ioRecv.getD j false) := by
  unfold recvWrites
  constructor
  · rw [List.mem_map]
    refine ⟨(⟨3, p, o⟩, j), ?_, rfl⟩
    rw [List.mem_filter]
    exact ⟨List.mem_zipIdx_iff_getElem?.mpr hj, by simp⟩
  · intro w hw hk
    rw [List.mem_map] at hw
    obtain ⟨⟨b, j'⟩, hm, rfl⟩ := hw
    rw [List.mem_filter] at hm
    obtain ⟨hm, hc⟩ := hm
    simp only [Bool.and_eq_true, decide_eq_true_eq, beq_iff_eq] at hc
    have hb : b = ⟨3, p, o⟩ := by
      cases b; simp_all
    subst hb
    have := idx_unique h.iout_nodup (List.mem_zipIdx_iff_getElem?.mp hm) hj
    subst this
    rfl

/-! ### `preMove`, seen from one processor -/

/-- the state after the first two pre-compute loops (external inputs → internal outputs → internal inputs) -/
def preIi (t : Topo) (s : BmState) : BmState := mvLinks t (mvExtIn t s)

/-- `InternalInputsRecv` after the loop that copies the external outputs' recv -/
def preRecvArr (t : Topo) (s : BmState) : List Bool :=
  t.iin.zipIdx.map fun (b, i) => if b.kind = 1 then s.outRecv.getD b.res false else s.iiRecv.getD i false

/-- everything of a processor that the movement loops do not touch -/
structure SameButPorts (v v' : VmState) : Prop where
  pc : v'.pc = v.pc
  regs : v'.regs = v.regs
  outputs : v'.outputs = v.outputs
  outValid : v'.outValid = v.outValid
  inRecv : v'.inRecv = v.inRecv
  deferred : v'.deferred = v.deferred
  lenI : v'.inputs.length = v.inputs.length
  lenV : v'.inValid.length = v.inValid.length
  lenR : v'.outRecv.length = v.outRecv.length

theorem preMove_procs_length (t : Topo) (s : BmState) : (preMove t s).procs.length = s.procs.length := by
  unfold preMove mvRecvToProcs
  simp only
  rw [length_foldl_modifyAt (t.iout.zipIdx) (fun x => decide (x.1.kind = 3)) (fun x => x.1.res)
    (fun x v => wRecv x.1.ext ((mvRecvAnd t (mvExtRecv t (mvToProcs t (mvLinks t (mvExtIn t s))))).ioRecv.getD x.2 false) v)]
  · show (mvToProcs t (mvLinks t (mvExtIn t s))).procs.length = _
    unfold mvToProcs
    simp only
    rw [length_foldl_modifyAt (t.iin.zipIdx) (fun x => decide (x.1.kind = 2)) (fun x => x.1.res)
      (fun x v => wIn x.1.ext ((mvLinks t (mvExtIn t s)).iiRegs.getD x.2 0) ((mvLinks t (mvExtIn t s)).iiValid.getD x.2 false) v)]
    · rfl
    · rintro ps ⟨b, i⟩
      by_cases h : b.kind = 2 <;> simp [h, wIn]
  · rintro ps ⟨b, i⟩
    by_cases h : b.kind = 3 <;> simp [h, wRecv]

theorem preMove_proc {t : Topo} (h : WF t) (s : BmState) {p : Nat} {v : VmState} (hv : s.procs[p]? = some v) :
    ∃ v', (preMove t s).procs[p]? = some v' ∧ SameButPorts v v' ∧
      (∀ k i, t.iin[i]? = some ⟨2, p, k⟩ → k < v.inputs.length → k < v.inValid.length →
        v'.inputs[k]? = some ((preIi t s).iiRegs.getD i 0) ∧ v'.inValid[k]? = some ((preIi t s).iiValid.getD i false)) ∧
      (∀ o j, t.iout[j]? = some ⟨3, p, o⟩ → o < v.outRecv.length →
        v'.outRecv[o]? = some (recvOf t.links (preRecvArr t s) j)) := by
  -- after the loop into the processors' inputs
  have h3 : (mvToProcs t (preIi t s)).procs[p]? =
      some ((inWrites t (preIi t s) p).foldl (fun v w => wIn w.1 w.2.1 w.2.2 v) v) := by
    rw [mvToProcs_get]
    have : (preIi t s).procs = s.procs := rfl
    rw [this, hv]; rfl
  let v3 := (inWrites t (preIi t s) p).foldl (fun v w => wIn w.1 w.2.1 w.2.2 v) v
  let s5 := mvRecvAnd t (mvExtRecv t (mvToProcs t (preIi t s)))
  have h5p : s5.procs = (mvToProcs t (preIi t s)).procs := rfl
  have h6 : (preMove t s).procs[p]? = some ((recvWrites t s5 p).foldl (fun v w => wRecv w.1 w.2 v) v3) := by
    show (mvRecvToProcs t s5).procs[p]? = _
    rw [mvRecvToProcs_get, h5p, h3]; rfl
  have f3 := foldl_wIn_frame (inWrites t (preIi t s) p) v
  have f6 := foldl_wRecv_frame (recvWrites t s5 p) v3
  refine ⟨_, h6, ?_, ?_, ?_⟩
  · exact ⟨f6.pc.trans f3.pc, f6.regs.trans f3.regs, f6.outputs.trans f3.outputs, f6.outValid.trans f3.outValid,
      f6.inRecv.trans f3.inRecv, f6.deferred.trans f3.deferred, by rw [f6.inputs]; exact f3.lenI,
      by rw [f6.inValid]; exact f3.lenV, by rw [f6.lenR, f3.outRecv]⟩
  · intro k i hi hk hk'
    obtain ⟨hm, hu⟩ := inWrites_spec h (preIi t s) hi
    have := foldl_wIn_get _ v k _ _ hm hu hk hk'
    rw [f6.inputs, f6.inValid]
    exact this
  · intro o j hj ho
    obtain ⟨hm, hu⟩ := recvWrites_spec h s5 hj
    have hlen : o < v3.outRecv.length := by rw [f3.outRecv]; exact ho
    have := foldl_wRecv_get _ v3 o _ hm hu hlen
    rw [this]
    have hjlt : j < t.iout.length := (List.getElem?_eq_some_iff.mp hj).1
    have : s5.ioRecv.getD j false = recvOf t.links (preRecvArr t s) j := by
      show ((List.range t.iout.length).map (recvOf t.links (mvExtRecv t (mvToProcs t (preIi t s))).iiRecv)).getD j false = _
      rw [List.getD_eq_getElem?_getD, List.getElem?_map, List.getElem?_range hjlt]
      rfl
    rw [this]

/-! ### compute and `postMove` -/

theorem mapM_option {α β} (f : α → Option β) (l : List α) (l' : List β) (h : l.mapM f = some l') :
    l'.length = l.length ∧ ∀ (i : Nat) x, l[i]? = some x → ∃ y, f x = some y ∧ l'[i]? = some y := by
  induction l generalizing l' with
  | nil =>
    simp only [List.mapM_nil] at h
    cases h
    exact ⟨rfl, by simp⟩
  | cons a l ih =>
    simp only [List.mapM_cons] at h
    cases hfa : f a with
    | none => simp [hfa] at h
    | some b =>
      cases hl : l.mapM f with
      | none => simp [hfa, hl] at h
      | some bs =>
        simp [hfa, hl] at h
        subst h
        obtain ⟨hlen, hget⟩ := ih bs hl
        refine ⟨by simp [hlen], ?_⟩
        intro i x hx
        cases i with
        | zero => simp at hx; subst hx; exact ⟨b, hfa, by simp⟩
        | succ i => simp at hx; simpa using hget i x hx

theorem compute_spec {m : Machine} {s s' : BmState} (h : compute m s = some s') :
    s' = { s with procs := s'.procs } ∧ s'.procs.length = s.procs.length ∧
    ∀ (p : Nat) v, s.procs[p]? = some v → ∃ a prog v', m.archs[p]? = some a ∧ m.progs[p]? = some prog ∧
      Isa.step a prog v = some v' ∧ s'.procs[p]? = some v' := by
  unfold compute at h
  simp only [bind, Option.bind, pure] at h
  split at h
  · cases h
  · rename_i ps hps
    cases h
    obtain ⟨hlen, hget⟩ := mapM_option _ _ _ hps
    refine ⟨rfl, by simpa using hlen, ?_⟩
    intro p v hv
    have hz : s.procs.zipIdx[p]? = some (v, p) := by
      rw [List.getElem?_zipIdx]; simp [hv]
    obtain ⟨y, hy, hy'⟩ := hget p (v, p) hz
    simp only at hy
    split at hy
    · rename_i a prog ha hp
      exact ⟨a, prog, y, ha, hp, hy, hy'⟩
    · cases hy

theorem mvExtOut_frame (t : Topo) (s : BmState) :
    (mvExtOut t s).procs = s.procs ∧ (mvExtOut t s).ioRegs = s.ioRegs ∧ (mvExtOut t s).ioValid = s.ioValid ∧
    (mvExtOut t s).iiRecv = s.iiRecv ∧ (mvExtOut t s).iiRegs = s.iiRegs ∧ (mvExtOut t s).iiValid = s.iiValid := by
  unfold mvExtOut
  generalize t.iin.zipIdx = l
  induction l generalizing s with
  | nil => exact ⟨rfl, rfl, rfl, rfl, rfl, rfl⟩
  | cons x l ih =>
    simp only [List.foldl_cons]
    obtain ⟨b, i⟩ := x
    by_cases hb : b.kind = 1
    · simp only [hb, if_true]
      have := ih { s with outRegs := s.outRegs.set b.res (s.iiRegs.getD i 0), outValid := s.outValid.set b.res (s.iiValid.getD i false) }
      exact this
    · simp only [hb, if_false]; exact ih s

theorem mvExtInRecv_frame (t : Topo) (s : BmState) :
    (mvExtInRecv t s).procs = s.procs ∧ (mvExtInRecv t s).ioRegs = s.ioRegs ∧ (mvExtInRecv t s).ioValid = s.ioValid ∧
    (mvExtInRecv t s).iiRecv = s.iiRecv := by
  unfold mvExtInRecv
  generalize t.iout.zipIdx = l
  induction l generalizing s with
  | nil => exact ⟨rfl, rfl, rfl, rfl⟩
  | cons x l ih =>
    simp only [List.foldl_cons]
    obtain ⟨b, i⟩ := x
    by_cases hb : b.kind = 0
    · simp only [hb, if_true]
      exact ih { s with inRecv := s.inRecv.set b.res (s.ioRecv.getD i false) }
    · simp only [hb, if_false]; exact ih s

/-- the internal arrays agree with the processors' port registers (true after every `VM.Step`) -/
structure Coherent (t : Topo) (s : BmState) : Prop where
  io : ∀ j q o, t.iout[j]? = some ⟨3, q, o⟩ →
    s.ioRegs.getD j 0 = (s.procs.getD q {}).outputs.getD o 0 ∧
    s.ioValid.getD j false = (s.procs.getD q {}).outValid.getD o false
  ii : ∀ i c k, t.iin[i]? = some ⟨2, c, k⟩ → s.iiRecv.getD i false = (s.procs.getD c {}).inRecv.getD k false

theorem postMove_procs (t : Topo) (s : BmState) : (postMove t s).procs = s.procs := by
  unfold postMove
  rw [(mvExtInRecv_frame t _).1]
  show (mvExtOut t (mvLinks t (mvFromProcs t s))).procs = _
  rw [(mvExtOut_frame t _).1]
  rfl

theorem postMove_coherent (t : Topo) (s : BmState) : Coherent t (postMove t s) := by
  have hp := postMove_procs t s
  constructor
  · intro j q o hj
    have hjlt : j < t.iout.length := (List.getElem?_eq_some_iff.mp hj).1
    rw [hp]
    unfold postMove
    rw [(mvExtInRecv_frame t _).2.1, (mvExtInRecv_frame t _).2.2.1]
    show (mvExtOut t (mvLinks t (mvFromProcs t s))).ioRegs.getD j 0 = _ ∧ (mvExtOut t (mvLinks t (mvFromProcs t s))).ioValid.getD j false = _
    rw [(mvExtOut_frame t _).2.1, (mvExtOut_frame t _).2.2.1]
    show (mvFromProcs t s).ioRegs.getD j 0 = _ ∧ (mvFromProcs t s).ioValid.getD j false = _
    unfold mvFromProcs
    simp only [List.getD_eq_getElem?_getD, List.getElem?_map, List.getElem?_zipIdx, hj]
    simp
  · intro i c k hi
    have hilt : i < t.iin.length := (List.getElem?_eq_some_iff.mp hi).1
    rw [hp]
    unfold postMove
    rw [(mvExtInRecv_frame t _).2.2.2]
    show (mvProcRecv t (mvExtOut t (mvLinks t (mvFromProcs t s)))).iiRecv.getD i false = _
    unfold mvProcRecv
    simp only [List.getD_eq_getElem?_getD, List.getElem?_map, List.getElem?_zipIdx, hi]
    rw [(mvExtOut_frame t _).1]
    simp
    rfl

theorem setEnv_coherent {t : Topo} {s : BmState} (h : Coherent t s) (e : EnvIn) : Coherent t (setEnv s e) :=
  ⟨h.io, h.ii⟩

/-! ### `Isa.step` keeps the port arrays' sizes -/

structure SameLens (v v' : VmState) : Prop where
  inputs : v'.inputs.length = v.inputs.length
  inValid : v'.inValid.length = v.inValid.length
  inRecv : v'.inRecv.length = v.inRecv.length
  outputs : v'.outputs.length = v.outputs.length
  outValid : v'.outValid.length = v.outValid.length
  outRecv : v'.outRecv.length = v.outRecv.length

local macro "branch" h:ident : tactic =>
  `(tactic| ((repeat' (split at $h:ident)) <;> (cases $h:ident <;> (constructor <;> simp))))

theorem exec_lens {a : Arch} {n : Nat} {op : String} {body : Bits} {s s' : VmState}
    (h : Isa.exec a n op body s = some s') : SameLens s s' := by
  unfold Isa.exec at h
  simp only at h
  by_cases h1 : op = "nop"
  · rw [if_pos h1] at h; branch h
  rw [if_neg h1] at h
  by_cases h2 : op = "rset"
  · rw [if_pos h2] at h; branch h
  rw [if_neg h2] at h
  by_cases h3 : op ∈ ["inc", "dec", "clr"]
  · rw [if_pos h3] at h; branch h
  rw [if_neg h3] at h
  by_cases h4 : op ∈ ["add", "mult", "div", "cpy", "and", "or", "xor", "nand", "nor", "xnor", "not", "mod"]
  · rw [if_pos h4] at h; branch h
  rw [if_neg h4] at h
  by_cases h4b : op ∈ Isa.pipeOps
  · rw [if_pos h4b] at h; branch h
  rw [if_neg h4b] at h
  by_cases h5 : op = "j"
  · rw [if_pos h5] at h; branch h
  rw [if_neg h5] at h
  by_cases h6 : op = "jz"
  · rw [if_pos h6] at h; branch h
  rw [if_neg h6] at h
  by_cases h7 : op = "i2r"
  · rw [if_pos h7] at h; branch h
  rw [if_neg h7] at h
  by_cases h8 : op = "r2o"
  · rw [if_pos h8] at h; branch h
  rw [if_neg h8] at h
  by_cases h9 : op = "i2rw"
  · rw [if_pos h9] at h; branch h
  rw [if_neg h9] at h
  by_cases h10 : op = "r2owa"
  · rw [if_pos h10] at h; branch h
  rw [if_neg h10] at h
  cases h

theorem foldl_set_length (l : List Nat) (r : List Bool) : (l.foldl (fun l i => l.set i false) r).length = r.length := by
  induction l generalizing r with
  | nil => rfl
  | cons i l ih => simp only [List.foldl_cons]; rw [ih]; simp

theorem step_lens {a : Arch} {prog : List Bits} {s s' : VmState} (h : Isa.step a prog s = some s') : SameLens s s' := by
  unfold Isa.step at h
  split at h
  · cases h
  · have hd : SameLens s (Isa.runDeferred s) := by
      unfold Isa.runDeferred
      exact ⟨rfl, rfl, foldl_set_length _ _, rfl, rfl, rfl⟩
    simp only at h
    split at h
    · cases h; exact hd
    · split at h
      · cases h
      · have := exec_lens h
        exact ⟨this.inputs.trans hd.inputs, this.inValid.trans hd.inValid, this.inRecv.trans hd.inRecv,
          this.outputs.trans hd.outputs, this.outValid.trans hd.outValid, this.outRecv.trans hd.outRecv⟩

/-- the port arrays of a processor have the sizes of its architecture -/
structure PortSized (a : Arch) (v : VmState) : Prop where
  inputs : v.inputs.length = a.n
  inValid : v.inValid.length = a.n
  inRecv : v.inRecv.length = a.n
  outputs : v.outputs.length = a.m
  outValid : v.outValid.length = a.m
  outRecv : v.outRecv.length = a.m

def Sized (m : Machine) (s : BmState) : Prop :=
  ∀ (p : Nat) v a, s.procs[p]? = some v → m.archs[p]? = some a → PortSized a v

/-! ### `VM.Step`, seen from one processor -/

theorem isaStep_spec {m : Machine} (h : WF m.topo) {s : BmState} {e : EnvIn} {s' : BmState}
    (hs : isaStep m (setEnv s e) = some s') :
    Coherent m.topo s' ∧ s'.procs.length = s.procs.length ∧
    ∀ (p : Nat) v, s.procs[p]? = some v → ∃ a prog v1 v', m.archs[p]? = some a ∧ m.progs[p]? = some prog ∧
      (preMove m.topo (setEnv s e)).procs[p]? = some v1 ∧ Isa.step a prog v1 = some v' ∧ s'.procs[p]? = some v' := by
  unfold isaStep at hs
  cases hc : compute m (preMove m.topo (setEnv s e)) with
  | none => simp [hc] at hs
  | some s2 =>
    simp only [hc, Option.map_some, Option.some.injEq] at hs
    subst hs
    obtain ⟨_, hlen, hget⟩ := compute_spec hc
    refine ⟨postMove_coherent _ _, ?_, ?_⟩
    · rw [postMove_procs, hlen, preMove_procs_length]; rfl
    · intro p v hv
      obtain ⟨v1, h1, _⟩ := preMove_proc h (setEnv s e) (p := p) (v := v) hv
      obtain ⟨a, prog, v', ha, hp, hst, hv'⟩ := hget p v1 h1
      exact ⟨a, prog, v1, v', ha, hp, h1, hst, by rw [postMove_procs]; exact hv'⟩

theorem isaStep_sized {m : Machine} (h : WF m.topo) {s : BmState} {e : EnvIn} {s' : BmState}
    (hs : isaStep m (setEnv s e) = some s') (hz : Sized m s) : Sized m s' := by
  obtain ⟨_, hlen, hget⟩ := isaStep_spec h hs
  intro p v' a hv' ha
  have hp : p < s.procs.length := by rw [← hlen]; exact (List.getElem?_eq_some_iff.mp hv').1
  obtain ⟨a', prog, v1, v'', ha', _, h1, hst, hv''⟩ := hget p _ (List.getElem?_eq_getElem hp)
  rw [ha] at ha'; cases ha'
  rw [hv'] at hv''; cases hv''
  obtain ⟨v1', h1', hsb, _, _⟩ := preMove_proc h (setEnv s e) (p := p) (List.getElem?_eq_getElem hp)
  rw [h1] at h1'; cases h1'
  have z := hz p _ a (List.getElem?_eq_getElem hp) ha
  have l := step_lens hst
  exact ⟨by rw [l.inputs, hsb.lenI]; exact z.inputs, by rw [l.inValid, hsb.lenV]; exact z.inValid,
    by rw [l.inRecv, hsb.inRecv]; exact z.inRecv, by rw [l.outputs, hsb.outputs]; exact z.outputs,
    by rw [l.outValid, hsb.outValid]; exact z.outValid, by rw [l.outRecv, hsb.lenR]; exact z.outRecv⟩

/-! ### one instruction, seen from one port -/

theorem step_decode {a : Arch} {prog : List Bits} {s s' : VmState} (h : Isa.step a prog s = some s') :
    (decode a prog s.pc = none → s' = Isa.runDeferred s) ∧
    (∀ op body, decode a prog s.pc = some (op, body) → Isa.exec a prog.length op body (Isa.runDeferred s) = some s') := by
  unfold Isa.step at h
  unfold decode
  split at h
  · cases h
  · simp only at h
    have hpc : (Isa.runDeferred s).pc = s.pc := rfl
    rw [hpc] at h
    cases hw : prog[s.pc]? with
    | none =>
      simp only [hw] at h
      cases h
      exact ⟨fun _ => rfl, fun _ _ hd => by cases hd⟩
    | some w =>
      simp only [hw] at h
      cases hop : a.ops[getId (w.take a.opBits)]? with
      | none => simp [hop] at h
      | some op =>
        simp only [hop] at h
        refine ⟨fun hd => (by simp only [hop] at hd; cases hd), ?_⟩
        intro op' body hd
        simp only [hop] at hd
        simp only [Option.map_some, Option.some.injEq, Prod.mk.injEq] at hd
        obtain ⟨rfl, rfl⟩ := hd
        exact h

local macro "framebranch" h:ident : tactic =>
  `(tactic| ((repeat' (split at $h:ident)) <;> (cases $h:ident <;> (first | (refine ⟨fun _ => rfl, fun _ => ⟨rfl, rfl⟩⟩) | skip))))

/-- which port flags an instruction can touch: only `r2owa` writes `outValid`, only `i2rw` writes
    `inRecv` and the deferred set -/
theorem exec_frame {a : Arch} {n : Nat} {op : String} {body : Bits} {s s' : VmState}
    (h : Isa.exec a n op body s = some s') :
    (op ≠ "r2owa" → s'.outValid = s.outValid) ∧ (op ≠ "i2rw" → s'.inRecv = s.inRecv ∧ s'.deferred = s.deferred) := by
  unfold Isa.exec at h
  simp only at h
  by_cases h1 : op = "nop"
  · rw [if_pos h1] at h; framebranch h
  rw [if_neg h1] at h
  by_cases h2 : op = "rset"
  · rw [if_pos h2] at h; framebranch h
  rw [if_neg h2] at h
  by_cases h3 : op ∈ ["inc", "dec", "clr"]
  · rw [if_pos h3] at h; framebranch h
  rw [if_neg h3] at h
  by_cases h4 : op ∈ ["add", "mult", "div", "cpy", "and", "or", "xor", "nand", "nor", "xnor", "not", "mod"]
  · rw [if_pos h4] at h; framebranch h
  rw [if_neg h4] at h
  by_cases h4b : op ∈ Isa.pipeOps
  · rw [if_pos h4b] at h; framebranch h
  rw [if_neg h4b] at h
  by_cases h5 : op = "j"
  · rw [if_pos h5] at h; framebranch h
  rw [if_neg h5] at h
  by_cases h6 : op = "jz"
  · rw [if_pos h6] at h; framebranch h
  rw [if_neg h6] at h
  by_cases h7 : op = "i2r"
  · rw [if_pos h7] at h; framebranch h
  rw [if_neg h7] at h
  by_cases h8 : op = "r2o"
  · rw [if_pos h8] at h; framebranch h
  rw [if_neg h8] at h
  by_cases h9 : op = "i2rw"
  · subst h9
    rw [if_pos rfl] at h
    refine ⟨fun _ => ?_, fun hne => absurd rfl hne⟩
    (repeat' (split at h)) <;> (cases h <;> rfl)
  rw [if_neg h9] at h
  by_cases h10 : op = "r2owa"
  · subst h10
    rw [if_pos rfl] at h
    refine ⟨fun hne => absurd rfl hne, fun _ => ?_⟩
    (repeat' (split at h)) <;> (cases h <;> exact ⟨rfl, rfl⟩)
  rw [if_neg h10] at h
  cases h

theorem exec_i2rw_eq (a : Arch) (n : Nat) (body : Bits) (s : VmState) :
    Isa.exec a n "i2rw" body s =
      (match s.inValid[Isa.field body a.r a.inBits]?, s.inputs[Isa.field body a.r a.inBits]? with
       | some true, some v =>
         if s.inRecv[Isa.field body a.r a.inBits]? = some true then some s
         else if Isa.field body 0 a.r < s.regs.length then
           some { s with pc := s.pc + 1, regs := s.regs.set (Isa.field body 0 a.r) v,
                         inRecv := s.inRecv.set (Isa.field body a.r a.inBits) true,
                         deferred := if Isa.field body a.r a.inBits ∈ s.deferred then s.deferred
                                     else s.deferred ++ [Isa.field body a.r a.inBits] }
         else none
       | some false, some _ => some { s with inRecv := s.inRecv.set (Isa.field body a.r a.inBits) false }
       | _, _ => none) := by
  unfold Isa.exec
  simp only
  rw [if_neg (by decide), if_neg (by decide), if_neg (by decide), if_neg (by decide), if_neg (by decide),
    if_neg (by decide), if_neg (by decide), if_neg (by decide), if_pos True.intro]
  cases s.inValid[Isa.field body a.r a.inBits]? with
  | none => rfl
  | some b => cases b <;> cases s.inputs[Isa.field body a.r a.inBits]? <;> rfl

theorem exec_r2owa_eq (a : Arch) (n : Nat) (body : Bits) (s : VmState) :
    Isa.exec a n "r2owa" body s =
      (match s.regs[Isa.field body 0 a.r]?, s.outRecv[Isa.field body a.r a.outBits]? with
       | some v, some rc =>
         if s.outValid[Isa.field body a.r a.outBits]? = some false ∧ rc then some s
         else if Isa.field body a.r a.outBits < s.outputs.length then
           some (if rc then { s with outputs := s.outputs.set (Isa.field body a.r a.outBits) v,
                                      outValid := s.outValid.set (Isa.field body a.r a.outBits) false, pc := s.pc + 1 }
                 else { s with outputs := s.outputs.set (Isa.field body a.r a.outBits) v,
                               outValid := s.outValid.set (Isa.field body a.r a.outBits) true })
         else none
       | _, _ => none) := by
  unfold Isa.exec
  simp only
  rw [if_neg (by decide), if_neg (by decide), if_neg (by decide), if_neg (by decide), if_neg (by decide),
    if_neg (by decide), if_neg (by decide), if_neg (by decide), if_neg (by decide), if_pos True.intro]
  cases s.regs[Isa.field body 0 a.r]? with
  | none => rfl
  | some v => cases s.outRecv[Isa.field body a.r a.outBits]? <;> rfl

theorem exec_i2rw_obs {a : Arch} {n : Nat} {body : Bits} {s s' : VmState}
    (h : Isa.exec a n "i2rw" body s = some s') :
    (∀ k', k' ≠ Isa.field body a.r a.inBits →
      s'.inRecv.getD k' false = s.inRecv.getD k' false ∧ (k' ∈ s'.deferred ↔ k' ∈ s.deferred)) ∧
    ∃ b x, s.inValid[Isa.field body a.r a.inBits]? = some b ∧ s.inputs[Isa.field body a.r a.inBits]? = some x ∧
      (b = true → s.inRecv[Isa.field body a.r a.inBits]? = some true → s' = s) ∧
      (b = true → s.inRecv[Isa.field body a.r a.inBits]? ≠ some true →
        s'.pc = s.pc + 1 ∧ s'.inRecv = s.inRecv.set (Isa.field body a.r a.inBits) true ∧
        Isa.field body a.r a.inBits ∈ s'.deferred ∧ s'.regs = s.regs.set (Isa.field body 0 a.r) x) ∧
      (b = false → s'.pc = s.pc ∧ s'.inRecv = s.inRecv.set (Isa.field body a.r a.inBits) false ∧ s'.deferred = s.deferred) := by
  rw [exec_i2rw_eq] at h
  cases hv : s.inValid[Isa.field body a.r a.inBits]? with
  | none => rw [hv] at h; cases h
  | some b =>
    cases hx : s.inputs[Isa.field body a.r a.inBits]? with
    | none => rw [hv, hx] at h; cases b <;> cases h
    | some x =>
      rw [hv, hx] at h
      cases b with
      | false =>
        simp only at h
        cases h
        refine ⟨fun k' hk' => ⟨?_, Iff.rfl⟩, false, x, rfl, rfl, ?_, ?_, fun _ => ⟨rfl, rfl, rfl⟩⟩
        · simp only [List.getD_eq_getElem?_getD]
          rw [List.getElem?_set_ne (fun e => hk' e.symm)]
        · intro hb; cases hb
        · intro hb; cases hb
      | true =>
        simp only at h
        split at h
        · rename_i hr
          cases h
          refine ⟨fun _ _ => ⟨rfl, Iff.rfl⟩, true, x, rfl, rfl, fun _ _ => rfl, fun _ hne => absurd hr hne, ?_⟩
          intro hb; cases hb
        · rename_i hr
          split at h
          · cases h
            refine ⟨fun k' hk' => ⟨?_, ?_⟩, true, x, rfl, rfl, fun _ hr' => absurd hr' hr, fun _ _ => ⟨rfl, rfl, ?_, rfl⟩, ?_⟩
            · simp only [List.getD_eq_getElem?_getD]
              rw [List.getElem?_set_ne (fun e => hk' e.symm)]
            · simp only
              split
              · exact Iff.rfl
              · simp only [List.mem_append, List.mem_singleton]
                exact ⟨fun hh => hh.resolve_right hk', Or.inl⟩
            · simp only
              split
              · assumption
              · simp
            · intro hb; cases hb
          · cases h

theorem exec_r2owa_obs {a : Arch} {n : Nat} {body : Bits} {s s' : VmState}
    (h : Isa.exec a n "r2owa" body s = some s') :
    (∀ o', o' ≠ Isa.field body a.r a.outBits → s'.outValid.getD o' false = s.outValid.getD o' false) ∧
    ∃ rc, s.outRecv[Isa.field body a.r a.outBits]? = some rc ∧
      (s.outValid[Isa.field body a.r a.outBits]? = some false → rc = true → s' = s) ∧
      (¬ (s.outValid[Isa.field body a.r a.outBits]? = some false ∧ rc = true) →
        Isa.field body a.r a.outBits < s.outputs.length ∧
        (rc = true → s'.pc = s.pc + 1 ∧ s'.outValid = s.outValid.set (Isa.field body a.r a.outBits) false) ∧
        (rc = false → s'.pc = s.pc ∧ s'.outValid = s.outValid.set (Isa.field body a.r a.outBits) true)) := by
  rw [exec_r2owa_eq] at h
  cases hreg : s.regs[Isa.field body 0 a.r]? with
  | none => rw [hreg] at h; cases h
  | some v =>
    cases hrc : s.outRecv[Isa.field body a.r a.outBits]? with
    | none => rw [hreg, hrc] at h; cases h
    | some rc =>
      rw [hreg, hrc] at h
      simp only at h
      split at h
      · rename_i hst
        cases h
        exact ⟨fun _ _ => rfl, rc, rfl, fun _ _ => rfl, fun hn => absurd hst hn⟩
      · rename_i hst
        split at h
        · rename_i hlt
          cases h
          refine ⟨fun o' ho' => ?_, rc, rfl, fun h1 h2 => absurd ⟨h1, h2⟩ hst, fun _ => ⟨hlt, ?_, ?_⟩⟩
          · cases rc <;> simp only [List.getD_eq_getElem?_getD] <;> simp [List.getElem?_set_ne (fun e => ho' e.symm)]
          · intro hr; subst hr; exact ⟨rfl, rfl⟩
          · intro hr; subst hr; exact ⟨rfl, rfl⟩
        · cases h

theorem getD_foldl_set_false (done : List Nat) (l : List Bool) (k : Nat) :
    (done.foldl (fun l i => l.set i false) l).getD k false = if k ∈ done then false else l.getD k false := by
  induction done generalizing l with
  | nil => simp
  | cons d ds ih =>
    simp only [List.foldl_cons]
    rw [ih]
    by_cases hk : k ∈ ds
    · simp [hk]
    · simp only [hk, if_false, List.mem_cons, or_false]
      by_cases hd : k = d
      · subst hd
        simp only [if_true, List.getD_eq_getElem?_getD]
        by_cases hlt : k < l.length
        · rw [List.getElem?_set_self hlt]; rfl
        · rw [List.getElem?_eq_none (by simp; omega)]; rfl
      · simp only [hd, if_false, List.getD_eq_getElem?_getD]
        rw [List.getElem?_set_ne (fun e => hd e.symm)]

/-- `ExecuteDeferredInstructions`, seen from input `k` -/
theorem runDeferred_obs (s : VmState) (k : Nat) :
    (Isa.runDeferred s).inRecv.getD k false =
      (if k ∈ s.deferred ∧ s.inValid[k]? = some false then false else s.inRecv.getD k false) ∧
    (k ∈ (Isa.runDeferred s).deferred ↔ k ∈ s.deferred ∧ ¬ s.inValid[k]? = some false) := by
  unfold Isa.runDeferred
  simp only
  refine ⟨?_, ?_⟩
  · rw [getD_foldl_set_false]
    simp only [List.mem_filter, decide_eq_true_eq]
  · simp only [List.mem_filter, decide_eq_true_eq, ne_eq]

end BMV.Bm
