/-
  C01, `ro2rri`: one simulator step = two hardware clocks.  The first clock only presents the
  address (no architectural register moves), the second writes the ROM cell into the destination
  register and retires; after it the two worlds are related again and the flag is back down.
-/
import BMV.Proofs.Refine
import BMV.Proofs.RefinePipe
namespace BMV.Refine
open BMV BMV.Bits

theorem len_ro2rri (a : Arch) : a.instrLen "ro2rri" = a.opBits + (a.r + a.r) := by
  simp [Arch.instrLen, declLayout, layout, modeOk, Arch.width]

/-- Hypotheses under which an `ro2rri` instruction is compared: the property's "in-range
    operands" for this opcode are that the addressed cell exists (program or data) and that the
    ROM fits its address space. -/
structure RomHyp (a : Arch) (prog data : List Bits) (s : VmState) (h : RtlState) (w : Bits) : Prop where
  ws : a.wordSize = 0
  wlen : ∀ x ∈ prog ++ data, x.length = a.maxWord
  regsLen : s.regs.length = 2 ^ a.r
  rel : Rel s h
  ready : h.romReady = false
  fetch : prog[s.pc]? = some w
  decode : a.ops[getId (w.take a.opBits)]? = some "ro2rri"
  rsize : a.rsize ≤ 64
  fits : prog.length + data.length ≤ 2 ^ a.o
  inRom : ∀ loc, s.regs[Isa.field (w.drop a.opBits) a.r a.r]? = some loc → loc < prog.length + data.length
  noFall : s.pc + 1 < 2 ^ a.o

/-- the value both back-ends keep of a ROM word: its low `min Rsize W` bits -/
theorem rom_value (rw : Bits) (W rs : Nat) (hl : rw.length = W) :
    getId ((rw.drop (W - min rs W)).take (min rs W)) = if rs ≤ W then getId rw % 2 ^ rs else getId rw := by
  by_cases h : rs ≤ W
  · have hm : min rs W = rs := Nat.min_eq_left h
    rw [hm, if_pos h]
    have := slice_eq_extract rw (W - rs) rs (by omega)
    rw [this, hl]
    have : W - (W - rs) - rs = 0 := by omega
    simp [this]
  · have hm : min rs W = W := Nat.min_eq_right (by omega)
    rw [hm, if_neg h]
    simp [← hl]

theorem refine_rom {a : Arch} {prog data : List Bits} {s : VmState} {h : RtlState} {w : Bits}
    (H : RomHyp a prog data s h w) (p1 p2 : PortsIn) :
    ∃ s', Isa.stepRom a prog data s = some s' ∧
      (Rtl.cycleRom a prog data h p1).pc = h.pc ∧
      (Rtl.cycleRom a prog data h p1).regs = h.regs ∧
      (Rtl.cycleRom a prog data h p1).auxo = h.auxo ∧
      Rel s' (Rtl.cycleRom a prog data (Rtl.cycleRom a prog data h p1) p2) ∧
      (Rtl.cycleRom a prog data (Rtl.cycleRom a prog data h p1) p2).romReady = false := by
  obtain ⟨rpc, rregs, rout⟩ := H.rel
  obtain ⟨dpc, dregs, dout, _⟩ := runDeferred_arch s
  have hwmem : w ∈ prog := List.mem_of_getElem? H.fetch
  have hwl : w.length = a.maxWord := H.wlen w (by simp [hwmem])
  have hfit : a.opBits + (a.r + a.r) ≤ a.maxWord := by
    have := instr_fits a H.ws H.decode; rw [len_ro2rri] at this; exact this
  -- decoding
  have hcur : Rtl.curOp a (getId w) = some "ro2rri" := by
    unfold Rtl.curOp
    rw [← opcode_eq_part w a.maxWord a.opBits hwl (by omega)]
    exact H.decode
  have hkd := field_eq_part w a.maxWord a.opBits 0 a.r hwl (by omega)
  simp only [Nat.add_zero] at hkd
  have hks := field_eq_part w a.maxWord a.opBits a.r a.r hwl (by omega)
  have hkdlt : Isa.field (w.drop a.opBits) 0 a.r < s.regs.length := by
    rw [H.regsLen]; exact field_lt _ _ _
  have hkslt : Isa.field (w.drop a.opBits) a.r a.r < s.regs.length := by
    rw [H.regsLen]; exact field_lt _ _ _
  obtain ⟨loc, hloc⟩ : ∃ loc, s.regs[Isa.field (w.drop a.opBits) a.r a.r]? = some loc :=
    ⟨_, List.getElem?_eq_getElem hkslt⟩
  have hlocin := H.inRom loc hloc
  obtain ⟨rw, hrw⟩ : ∃ rw, (prog ++ data)[loc]? = some rw :=
    ⟨_, List.getElem?_eq_getElem (by simpa using hlocin)⟩
  have hrwl : rw.length = a.maxWord := H.wlen rw (List.mem_of_getElem? hrw)
  have hW : (prog.headD []).length = a.maxWord := by
    cases prog with
    | nil => simp at hwmem
    | cons x xs => exact H.wlen x (by simp)
  -- the simulator
  have hpc : ¬ s.pc > prog.length := by
    have := (List.getElem?_eq_some_iff.mp H.fetch).1; omega
  have hstep : Isa.stepRom a prog data s =
      some { Isa.runDeferred s with
             pc := s.pc + 1,
             regs := s.regs.set (Isa.field (w.drop a.opBits) 0 a.r)
               (getId ((rw.drop (a.maxWord - min a.rsize a.maxWord)).take (min a.rsize a.maxWord))) } := by
    unfold Isa.stepRom
    simp only [hpc, if_false, dpc, H.fetch, H.decode]
    unfold Isa.execRom
    have hrs : ¬ a.rsize > 64 := by have := H.rsize; omega
    simp only [if_true, hrs, if_false, dregs, hloc, hrw, hW, hrwl, Nat.lt_irrefl, hkdlt, dpc]
  refine ⟨_, hstep, ?_⟩
  -- first clock
  have hf1 : Rtl.fetch (prog ++ data) h.pc = getId w := by
    rw [← rpc]; exact fetch_eq (by rw [List.getElem?_append_left (List.getElem?_eq_some_iff.mp H.fetch).1]; exact H.fetch)
  have h1 : Rtl.cycleRom a prog data h p1 =
      { h with romBus := h.regs.getD (Rtl.part (getId w) a.maxWord (a.opBits + a.r) a.r) 0 % 2 ^ a.o,
               romReady := true,
               iRecv := (List.range a.n).map (Rtl.recvBlock a (getId w) h p1),
               oVal := (List.range a.m).map (Rtl.valBlock a (getId w) h p1) } := by
    unfold Rtl.cycleRom
    simp only [hf1, Rtl.romArm, hcur, if_true, H.ready, Bool.false_eq_true, if_false]
  rw [h1]
  refine ⟨rfl, rfl, rfl, ?_⟩
  -- second clock
  have hbus : h.regs.getD (Rtl.part (getId w) a.maxWord (a.opBits + a.r) a.r) 0 % 2 ^ a.o = loc := by
    rw [← hks, ← rregs, getD_of_getElem? hloc]
    exact Nat.mod_eq_of_lt (by have := H.fits; omega)
  simp only [hbus]
  unfold Rtl.cycleRom
  simp only [hf1, Rtl.romArm, hcur, if_true]
  have hv : Rtl.fetch (prog ++ data) loc = getId rw := fetch_eq hrw
  simp only [hv]
  refine ⟨⟨?_, ?_, ?_⟩, trivial⟩
  · show s.pc + 1 = (h.pc + 1) % 2 ^ a.o
    rw [← rpc]; exact (Nat.mod_eq_of_lt H.noFall).symm
  · show s.regs.set _ _ = h.regs.set _ _
    rw [← rregs, ← hkd, rom_value rw a.maxWord a.rsize hrwl]
  · show (Isa.runDeferred s).outputs = h.auxo
    rw [dout]; exact rout

/-- inside the program, on every other opcode, the wrapper is the plain clock -/
theorem cycleRom_eq_cycle (a : Arch) (prog data : List Bits) (h : RtlState) (p : PortsIn)
    (hpc : h.pc < prog.length)
    (hop : Rtl.curOp a (Rtl.fetch prog h.pc) ≠ some "ro2rri") :
    Rtl.cycleRom a prog data h p = Rtl.cycle a prog h p := by
  have hf : Rtl.fetch (prog ++ data) h.pc = Rtl.fetch prog h.pc := by
    unfold Rtl.fetch; rw [List.getElem?_append_left hpc]
  unfold Rtl.cycleRom
  simp only [hf, Rtl.romArm, hop, if_false]
  unfold Rtl.cycle
  simp only [hf]

theorem stepRom_eq_step (a : Arch) (prog data : List Bits) (s : VmState)
    (hop : ∀ w, prog[s.pc]? = some w → a.ops[getId (w.take a.opBits)]? ≠ some "ro2rri") :
    Isa.stepRom a prog data s = Isa.step a prog s := by
  unfold Isa.stepRom Isa.step
  split
  · rfl
  · have dpc := (runDeferred_arch s).1
    simp only [dpc]
    cases hw : prog[s.pc]? with
    | none => rfl
    | some w =>
      simp only
      cases hop' : a.ops[getId (w.take a.opBits)]? with
      | none => rfl
      | some op =>
        have : op ≠ "ro2rri" := by
          intro he; subst he; exact hop w hw hop'
        simp [Isa.execRom, this]

/-- the plain clock never touches the ro2rri registers -/
theorem cycle_rom_regs (a : Arch) (prog : List Bits) (h : RtlState) (p : PortsIn) :
    (Rtl.cycle a prog h p).romReady = h.romReady ∧ (Rtl.cycle a prog h p).romBus = h.romBus := by
  have k1 : ∀ cur, (Rtl.mainBlock a cur h p).romReady = h.romReady := by
    intro cur
    unfold Rtl.mainBlock
    cases Rtl.curOp a cur with
    | none => rfl
    | some op => simp [RtlState.setPipe, apply_ite RtlState.romReady]
  have k2 : ∀ cur, (Rtl.mainBlock a cur h p).romBus = h.romBus := by
    intro cur
    unfold Rtl.mainBlock
    cases Rtl.curOp a cur with
    | none => rfl
    | some op => simp [RtlState.setPipe, apply_ite RtlState.romBus]
  exact ⟨k1 _, k2 _⟩

/-- a retired `ro2rri` leaves the pipeline relation as it was (no pipelined opcode is in flight
    while another opcode is being executed) -/
theorem rom_keeps_pipe {a : Arch} {prog data : List Bits} {s s' : VmState} {h : RtlState} {w : Bits}
    (H : RomHyp a prog data s h w) (hp : PipeRel a prog s h) (p1 p2 : PortsIn)
    (hs : Isa.stepRom a prog data s = some s') :
    PipeRel a prog s' (Rtl.cycleRom a prog data (Rtl.cycleRom a prog data h p1) p2) := by
  obtain ⟨s2, hs2, _, _, _, _, _⟩ := refine_rom H p1 p2
  -- the phase list is untouched
  have hph : s'.phase = s.phase := by
    have hpc : ¬ s.pc > prog.length := by
      have := (List.getElem?_eq_some_iff.mp H.fetch).1; omega
    have dpc := (runDeferred_arch s).1
    unfold Isa.stepRom at hs
    simp only [hpc, if_false, dpc, H.fetch, H.decode] at hs
    unfold Isa.execRom at hs
    simp only [if_true] at hs
    split at hs
    · cases hs
    · split at hs
      · cases hs
      · split at hs
        · cases hs
        · split at hs
          · cases hs
          · split at hs
            · cases hs; simp [runDeferred_phase]
            · cases hs
  have hpipes : ∀ o, (Rtl.cycleRom a prog data (Rtl.cycleRom a prog data h p1) p2).getPipe o = h.getPipe o := by
    intro o
    have hwl : w.length = a.maxWord := H.wlen w (by simp [List.mem_of_getElem? H.fetch])
    have hfit : a.opBits ≤ a.maxWord := by
      have := instr_fits a H.ws H.decode; rw [len_ro2rri] at this; omega
    have hcur : Rtl.curOp a (getId w) = some "ro2rri" := by
      unfold Rtl.curOp
      rw [← opcode_eq_part w a.maxWord a.opBits hwl hfit]
      exact H.decode
    have hf1 : Rtl.fetch (prog ++ data) h.pc = getId w := by
      rw [← H.rel.1]; exact fetch_eq (by rw [List.getElem?_append_left (List.getElem?_eq_some_iff.mp H.fetch).1]; exact H.fetch)
    have e1 : ∀ (x : RtlState) (q : PortsIn), x.pc = h.pc →
        (Rtl.cycleRom a prog data x q).getPipe o = x.getPipe o ∧ (x.romReady = false → (Rtl.cycleRom a prog data x q).pc = x.pc) := by
      intro x q hx
      unfold Rtl.cycleRom
      simp only [hx, hf1, Rtl.romArm, hcur, if_true]
      cases x.romReady <;> simp [RtlState.getPipe]
    have hx1 := e1 h p1 rfl
    have hx2 := e1 (Rtl.cycleRom a prog data h p1) p2 (hx1.2 H.ready)
    rw [hx2.1, hx1.1]
  refine ⟨by rw [hph]; exact hp.1, ?_⟩
  intro op' hop'
  have hne : op' ≠ "ro2rri" := by
    simp only [Isa.pipeOps, List.mem_cons, List.not_mem_nil, or_false] at hop'
    rcases hop' with rfl | rfl | rfl <;> decide
  obtain ⟨hn', hst'⟩ := others_idle hp H.fetch H.decode hop' hne
  rw [hph, hpipes]
  exact ⟨⟨fun hm => absurd hm hn', fun hm => by rw [hst'] at hm; cases hm⟩, fun hm => absurd hm hn'⟩

end BMV.Refine
