/-
  C18, `wf_total` (6): `elabModule` / `elaborate` return a `Resolved` design (`elab_sigs_in_range`).
-/
import BMV.Proofs.VlogElab2
namespace BMV.Vlog

theorem ScOk.empty (n : Nat) : ScOk ({} : Scope) n := by
  intro name i h
  simp at h

theorem elabModule_of_bodyPass (mods : List Module) (fuel : Nat)
    (hB : ∀ (pfx : String) (sc : Scope) (items : List Item) (s s' : ElabSt), items.all srcItem = true →
      ScOk sc s.sigs.size → StOk s → bodyPass mods pfx sc fuel items s = .ok ((), s') →
      StOk s' ∧ s.sigs.size ≤ s'.sigs.size) : EMdSpec mods fuel := by
  intro m pfx isTop ov s s' csc hm hst h
  unfold elabModule at h
  simp only [] at h
  obtain ⟨sc, s1, h1, h2⟩ := em_bind_ok h
  obtain ⟨hsc1, he1⟩ := declPass_spec pfx isTop ov m.items {} 0 s s1 sc (ScOk.empty _) h1
  obtain ⟨_, s2, h3, h4⟩ := em_bind_ok h2
  have hs2 : s2 = s1 := by
    refine em_forIn_inv _ (fun _ st => st = s1) m.ports _ s1 _ s2 rfl ?_ h3
    intro p b st r st1 _ hI hf
    subst hI
    cases hcp : sc[p]? with
    | none =>
      simp only [hcp] at hf
      obtain ⟨_, sa, hc, _⟩ := em_bind_ok hf
      exact (em_efail hc).elim
    | some bnd =>
      cases bnd with
      | const cw cv =>
        simp only [hcp] at hf
        obtain ⟨_, sa, hc, _⟩ := em_bind_ok hf
        exact (em_efail hc).elim
      | sig i =>
        simp only [hcp] at hf
        obtain ⟨g, sa, hg, hf2⟩ := em_bind_ok hf
        obtain ⟨rfl, rfl⟩ := em_get_ok hg
        split at hf2
        · obtain ⟨_, sb, hc, _⟩ := em_bind_ok hf2
          exact (em_efail hc).elim
        · exact (em_pure_ok hf2).2
  subst hs2
  obtain ⟨_, s3, h5, h6⟩ := em_bind_ok h4
  obtain ⟨hst3, hsz3⟩ := hB pfx sc m.items s2 s3 hm hsc1 (hst.ext he1) h5
  obtain ⟨rfl, rfl⟩ := em_pure_ok h6
  exact ⟨hst3, Nat.le_trans he1.size hsz3, hsc1.mono hsz3⟩

theorem elab_specs (mods : List Module) (hmods : ∀ m, m ∈ mods → srcModule m = true) :
    ∀ (fuel : Nat), EMdSpec mods fuel
  | 0 => elabModule_of_bodyPass mods 0 (fun pfx sc items s s' hi hsc hst h =>
      bodyPass_spec mods hmods 0 (fun k hk => by omega) pfx sc items s s' hi hsc hst h)
  | k + 1 => elabModule_of_bodyPass mods (k + 1) (fun pfx sc items s s' hi hsc hst h =>
      bodyPass_spec mods hmods (k + 1) (fun k' hk => by
        have : k' = k := by omega
        subst this
        exact elab_specs mods hmods k') pfx sc items s s' hi hsc hst h)

theorem StOk.init : StOk ({} : ElabSt) :=
  ⟨fun _ h => by simp at h, fun _ h => by simp at h, fun _ h => by simp at h, fun _ h => by simp at h⟩

theorem resolved_of_stOk (st : ElabSt) (hst : StOk st) (topName : String) (roots : Array Nat) :
    ({ top := topName, sigs := st.sigs, assigns := st.assigns, combs := st.combs, procs := st.procs,
       inits := st.inits, roots := roots, warnings := st.warnings } : Design).Resolved = true := by
  unfold Design.Resolved
  simp only [Bool.and_eq_true, List.all_eq_true]
  exact ⟨⟨⟨fun a ha => by simpa using hst.assigns a ha, hst.combs⟩, hst.procs⟩, hst.inits⟩

theorem elaborate_jp (src : Source) (hsrc : src.fromReader = true) (topName : String) (d : Design)
    (h : (match findModule src.modules topName with
      | some m => do
        let (_, st) ← (elabModule src.modules m "" true .none 64).run {}
        pure { top := topName, sigs := st.sigs, assigns := st.assigns, combs := st.combs, procs := st.procs,
               inits := st.inits, roots := computeRoots st.sigs.size st.assigns, warnings := st.warnings }
      | _ => throw s!"[undefined-module] top module {topName}" : R Design) = .ok d) : d.Resolved = true := by
  have hmods : ∀ m, m ∈ src.modules → srcModule m = true := by
    intro m hm
    unfold Source.fromReader at hsrc
    exact List.all_eq_true.mp hsrc m hm
  split at h
  · rename_i m hfm
    obtain ⟨r, hr, h⟩ := bind_ok h
    obtain ⟨csc, st⟩ := r
    simp only [pure, Except.pure, Except.ok.injEq] at h
    subst h
    have hm : srcModule m = true := hmods m (by unfold findModule at hfm; exact List.mem_of_find?_eq_some hfm)
    obtain ⟨hst, _, _⟩ := elab_specs src.modules hmods 64 m "" true .none {} st csc hm StOk.init hr
    exact resolved_of_stOk st hst _ _
  · simp [throw, throwThe, MonadExceptOf.throw] at h

/-- **what `elaborate` establishes**: the design it returns is `Resolved` -/
theorem elaborate_resolved (src : Source) (hsrc : src.fromReader = true) (top : Option String) (d : Design)
    (h : elaborate src top = .ok d) : d.Resolved = true := by
  unfold elaborate at h
  simp only [] at h
  cases top with
  | some t =>
    simp only [] at h
    obtain ⟨tn, htn, h⟩ := bind_ok h
    exact elaborate_jp src hsrc tn d h
  | none =>
    simp only [] at h
    split at h
    · obtain ⟨tn, htn, h⟩ := bind_ok h
      exact elaborate_jp src hsrc tn d h
    · obtain ⟨tn, htn, h⟩ := bind_ok h
      simp [throw, throwThe, MonadExceptOf.throw] at htn

end BMV.Vlog
