/-
  BMV.Proofs.Quantum — lemmas behind C14.

  Part A: the per-layer certificate `checkLayer` (decidable, index level) and the general lemma
          `layer_of_check`: if the certificate holds for the argument lists of a layer then, over every
          lawful commutative semiring and for every choice of gate matrices, the model of
          `BmMatrixFromOperation` returns a 2^n matrix whose entries are those of `layerRef`.
  Part B: enumeration `genLayers` of all layer shapes and its completeness.
  Part C: matrix algebra (finite sums, associativity), `layerRef` = product of the `embed`s,
          product of the compiled layers = `Uref`, simulation = column.
-/
import BMV.Quantum
import Mathlib.Tactic.Ring

namespace BMV.Quantum
open MulOps Ops

/-! ## Part A -/

def idxBase (bs : List (Nat × Nat)) (i : Nat) : Nat := bs.foldr (fun b x => tr b.1 b.2 x) i

/-- the basis-index map realised by the whole "swaps back" loop -/
def permOf (n : Nat) (sw : List (Nat × Nat)) (i : Nat) : Nat :=
  sw.reverse.foldr (fun s x => idxBase (baseSwaps n s) x) i

/-- which qubits every tensor factor stands for, read off the final local order; checks that a gate
    factor sits exactly on its arguments, in order -/
def slotsOf (L : List (List Nat)) : List (Option Nat) → List Nat → Option (List (Option Nat × List Nat))
  | [], loc => if loc.isEmpty then some [] else none
  | none :: fs, loc =>
    match loc with
    | u :: rest => (slotsOf L fs rest).map ((none, [u]) :: ·)
    | [] => none
  | some k :: fs, loc =>
    match L[k]? with
    | none => none
    | some args =>
      if loc.take args.length == args then (slotsOf L fs (loc.drop args.length)).map ((some k, args) :: ·)
      else none

def idQubits (sl : List (Option Nat × List Nat)) : List Nat := (sl.filter (·.1.isNone)).flatMap (·.2)

/-- the certificate for one layer shape -/
def checkLayer (n : Nat) (L : List (List Nat)) : Bool :=
  match plan false n L with
  | none => false
  | some p =>
    match slotsOf L p.factors p.loc with
    | none => false
    | some slots =>
      let idq := idQubits slots
      p.loc.length == n
      && !p.factors.isEmpty
      && (List.range (2 ^ n)).all (fun i => permOf n p.swaps i == locIdx n p.loc i)
      && (p.factors.filterMap id).isPerm (List.range L.length)
      && (List.range n).all (fun a => (L.flatten.contains a) != (idq.contains a))
      && idq.all (· < n)

section lemmas
variable {R : Type}

theorem applyBase_eq (a : Mat R) (bs : List (Nat × Nat)) :
    applyBase a bs = fun i j => a (idxBase bs i) (idxBase bs j) := by
  induction bs generalizing a with
  | nil => rfl
  | cons b bs ih =>
    show applyBase (swapRC a b.1 b.2) bs = _
    rw [ih]; rfl

theorem undoSwaps_eq (n : Nat) (a : Mat R) (sw : List (Nat × Nat)) :
    undoSwaps n a sw = fun i j => a (permOf n sw i) (permOf n sw j) := by
  unfold undoSwaps permOf
  generalize sw.reverse = l
  induction l generalizing a with
  | nil => rfl
  | cons s l ih =>
    show List.foldl _ (applyBase a (baseSwaps n s)) l = _
    rw [ih, applyBase_eq]; rfl

/-! ### `locIdx` -/

theorem locIdx_foldl (n i : Nat) (args : List Nat) (c : Nat) :
    args.foldl (fun acc a => 2 * acc + (qbit n a i).toNat) c
      = c * 2 ^ args.length + locIdx n args i := by
  unfold locIdx
  induction args generalizing c with
  | nil => simp
  | cons a as ih =>
    simp only [List.foldl_cons, List.length_cons]
    rw [ih (2 * c + _), ih (2 * 0 + _)]
    ring

theorem locIdx_foldl_lt (n i : Nat) (args : List Nat) (c : Nat) :
    args.foldl (fun acc a => 2 * acc + (qbit n a i).toNat) c < (c + 1) * 2 ^ args.length := by
  induction args generalizing c with
  | nil => simp
  | cons a as ih =>
    simp only [List.foldl_cons, List.length_cons]
    have h := ih (2 * c + (qbit n a i).toNat)
    have hb : (qbit n a i).toNat ≤ 1 := Bool.toNat_le _
    have h2 : (2 * c + (qbit n a i).toNat + 1) * 2 ^ as.length ≤ (2 * c + 2) * 2 ^ as.length :=
      Nat.mul_le_mul_right _ (by omega)
    have h3 : (2 * c + 2) * 2 ^ as.length = (c + 1) * 2 ^ (as.length + 1) := by ring
    omega

theorem locIdx_lt (n i : Nat) (args : List Nat) : locIdx n args i < 2 ^ args.length := by
  have := locIdx_foldl_lt n i args 0
  simpa [locIdx] using this

theorem locIdx_append (n i : Nat) (a b : List Nat) :
    locIdx n (a ++ b) i = locIdx n a i * 2 ^ b.length + locIdx n b i := by
  have h := locIdx_foldl n i b (locIdx n a i)
  unfold locIdx at h ⊢
  rw [List.foldl_append]; exact h

theorem locIdx_append_div (n i : Nat) (a b : List Nat) :
    locIdx n (a ++ b) i / 2 ^ b.length = locIdx n a i := by
  rw [locIdx_append, Nat.add_comm, Nat.add_mul_div_right _ _ (Nat.two_pow_pos _),
    Nat.div_eq_of_lt (locIdx_lt n i b)]; simp

theorem locIdx_append_mod (n i : Nat) (a b : List Nat) :
    locIdx n (a ++ b) i % 2 ^ b.length = locIdx n b i := by
  rw [locIdx_append, Nat.add_comm, Nat.add_mul_mod_self_right, Nat.mod_eq_of_lt (locIdx_lt n i b)]

theorem locIdx_single (n i u : Nat) : locIdx n [u] i = (qbit n u i).toNat := by
  simp [locIdx]

end lemmas

/-! ### algebra in a lawful carrier -/
section lawful
variable {R : Type} [Ops R] [Lawful R]

instance : Std.Associative (α := R) MulOps.mul := ⟨Lawful.mul_assoc⟩
instance : Std.Commutative (α := R) MulOps.mul := ⟨Lawful.mul_comm⟩
instance : Std.Associative (α := R) Ops.add := ⟨Lawful.add_assoc⟩
instance : Std.Commutative (α := R) Ops.add := ⟨Lawful.add_comm⟩

theorem mul_one' (a : R) : mul a one = a := by rw [Lawful.mul_comm]; exact Lawful.one_mul a
theorem mul_zero' (a : R) : mul a (zero : R) = zero := by rw [Lawful.mul_comm]; exact Lawful.zero_mul a
theorem add_zero' (a : R) : add a (zero : R) = a := by rw [Lawful.add_comm]; exact Lawful.zero_add a
theorem right_distrib' (a b c : R) : mul (add a b) c = add (mul a c) (mul b c) := by
  rw [Lawful.mul_comm, Lawful.left_distrib, Lawful.mul_comm c a, Lawful.mul_comm c b]

def prod : List R → R
  | [] => one
  | x :: xs => mul x (prod xs)

theorem prod_perm {l₁ l₂ : List R} (h : l₁.Perm l₂) : prod l₁ = prod l₂ := by
  induction h with
  | nil => rfl
  | cons x _ ih => simp only [prod, ih]
  | swap x y l => simp only [prod]; ac_rfl
  | trans _ _ ih₁ ih₂ => exact ih₁.trans ih₂

/-- value contributed by one tensor factor at basis indices `i`, `j` -/
def fval (n : Nat) (gs : List (Gate R)) (i j : Nat) : Option Nat × List Nat → R
  | (none, s) => if s.all (fun u => qbit n u i == qbit n u j) then one else zero
  | (some k, _) =>
    match gs[k]? with
    | some g => g.m (locIdx n g.args i) (locIdx n g.args j)
    | none => one

/-- the tensor-product fold keeps: entry at the local indices of (i, j) = product of the factor values -/
theorem tensorAll_inv (n : Nat) (gs : List (Gate R)) (i j : Nat) :
    ∀ (fs : List (Option Nat)) (loc : List Nat) (sl : List (Option Nat × List Nat))
      (A : DMat R) (S : List Nat) (c : R),
      slotsOf (gs.map (·.args)) fs loc = some sl →
      A.dim = 2 ^ S.length →
      A.e (locIdx n S i) (locIdx n S j) = c →
      ∃ M, tensorAll gs fs (some A) = some M ∧ M.dim = 2 ^ (S.length + loc.length) ∧
        M.e (locIdx n (S ++ loc) i) (locIdx n (S ++ loc) j)
          = sl.foldl (fun acc s => mul acc (fval n gs i j s)) c := by
  intro fs
  induction fs with
  | nil =>
    intro loc sl A S c hs hd he
    simp only [slotsOf] at hs
    split at hs
    · rename_i hl
      have : loc = [] := by simpa using hl
      subst this
      cases hs
      exact ⟨A, rfl, by simpa using hd, by simpa using he⟩
    · cases hs
  | cons f fs ih =>
    intro loc sl A S c hs hd he
    cases f with
    | none =>
      simp only [slotsOf] at hs
      cases loc with
      | nil => cases hs
      | cons u rest =>
        simp only [Option.map_eq_some_iff] at hs
        obtain ⟨sl', hs', rfl⟩ := hs
        have key := ih rest sl' (tensor A ident2) (S ++ [u])
          (mul c (fval n gs i j (none, [u]))) hs'
          (by simp [tensor, ident2, hd, Nat.pow_succ])
          (by
            simp only [tensor, ident2]
            have hdiv := locIdx_append_div n
            have e1 : (2:Nat) = 2 ^ [u].length := by simp
            rw [show (2:Nat) = 2 ^ [u].length from e1]
            rw [locIdx_append_div, locIdx_append_div, locIdx_append_mod, locIdx_append_mod, he]
            simp only [locIdx_single, fval, List.all_cons, List.all_nil, Bool.and_true]
            congr 1
            cases qbit n u i <;> cases qbit n u j <;> simp)
        obtain ⟨M, hM, hdim, hent⟩ := key
        refine ⟨M, ?_, ?_, ?_⟩
        · simp only [tensorAll, factorMat]; exact hM
        · rw [hdim]; simp only [List.length_append, List.length_cons, List.length_nil]; congr 1; omega
        · simpa [List.append_assoc] using hent
    | some k =>
      simp only [slotsOf] at hs
      cases hk : (gs.map (·.args))[k]? with
      | none => rw [hk] at hs; cases hs
      | some args =>
        rw [hk] at hs
        simp only at hs
        split at hs
        · rename_i htake
          simp only [Option.map_eq_some_iff] at hs
          obtain ⟨sl', hs', rfl⟩ := hs
          have htake' : loc.take args.length = args := by simpa using htake
          have hloc : loc = args ++ loc.drop args.length := by
            conv => lhs; rw [← List.take_append_drop args.length loc]
            rw [htake']
          have hlen : args.length ≤ loc.length := by
            have := congrArg List.length htake'
            simp at this; omega
          -- the gate
          rw [List.getElem?_map] at hk
          cases hg : gs[k]? with
          | none => rw [hg] at hk; cases hk
          | some g =>
            rw [hg] at hk
            simp only [Option.map_some, Option.some.injEq] at hk
            subst hk
            have key := ih (loc.drop g.args.length) sl' (tensor A ⟨2 ^ g.args.length, g.m⟩) (S ++ g.args)
              (mul c (fval n gs i j (some k, g.args))) hs'
              (by simp [tensor, hd, Nat.pow_add])
              (by
                simp only [tensor]
                rw [locIdx_append_div, locIdx_append_div, locIdx_append_mod, locIdx_append_mod, he]
                simp only [fval, hg])
            obtain ⟨M, hM, hdim, hent⟩ := key
            refine ⟨M, ?_, ?_, ?_⟩
            · simp only [tensorAll, factorMat, hg]; exact hM
            · rw [hdim]; simp only [List.length_append, List.length_drop]; congr 1; omega
            · rw [List.append_assoc, ← hloc] at hent; exact hent
        · cases hs

/-- gate value of line `k` at (i, j) -/
def hval (n : Nat) (gs : List (Gate R)) (i j : Nat) (k : Nat) : R :=
  match gs[k]? with
  | some g => g.m (locIdx n g.args i) (locIdx n g.args j)
  | none => one

/-- splitting the running product into the identity part and the gate part -/
theorem foldl_fval_split (n : Nat) (gs : List (Gate R)) (i j : Nat)
    (sl : List (Option Nat × List Nat)) (c : R) :
    sl.foldl (fun acc s => mul acc (fval n gs i j s)) c
      = mul c (mul (if (idQubits sl).all (fun u => qbit n u i == qbit n u j) then one else zero)
                   (prod ((sl.filterMap (·.1)).map (hval n gs i j)))) := by
  induction sl generalizing c with
  | nil => simp [idQubits, prod, Lawful.one_mul, mul_one']
  | cons s sl ih =>
    rw [List.foldl_cons, ih]
    obtain ⟨t, q⟩ := s
    cases t with
    | none =>
      have hid : idQubits ((none, q) :: sl) = q ++ idQubits sl := by simp [idQubits]
      rw [hid, List.all_append]
      simp only [fval, List.filterMap_cons]
      by_cases h : q.all (fun u => qbit n u i == qbit n u j) = true
      · rw [if_pos h, mul_one']
        simp only [h, Bool.true_and]
      · have hq : q.all (fun u => qbit n u i == qbit n u j) = false := Bool.eq_false_iff.mpr h
        simp only [hq, Bool.false_and, Bool.false_eq_true, ↓reduceIte, mul_zero', Lawful.zero_mul]
    | some k =>
      have hid : idQubits ((some k, q) :: sl) = idQubits sl := by simp [idQubits]
      rw [hid]
      simp only [fval, List.filterMap_cons, List.map_cons, prod, hval]
      ac_rfl

theorem slotsOf_tags (L : List (List Nat)) :
    ∀ (fs : List (Option Nat)) (loc : List Nat) (sl : List (Option Nat × List Nat)),
      slotsOf L fs loc = some sl → sl.map (·.1) = fs := by
  intro fs
  induction fs with
  | nil =>
    intro loc sl h
    simp only [slotsOf] at h
    split at h
    · cases h; rfl
    · cases h
  | cons f fs ih =>
    intro loc sl h
    cases f with
    | none =>
      simp only [slotsOf] at h
      cases loc with
      | nil => cases h
      | cons u rest =>
        simp only [Option.map_eq_some_iff] at h
        obtain ⟨sl', hs', rfl⟩ := h
        simp [ih rest sl' hs']
    | some k =>
      simp only [slotsOf] at h
      cases hk : L[k]? with
      | none => rw [hk] at h; cases h
      | some args =>
        rw [hk] at h
        simp only at h
        split at h
        · simp only [Option.map_eq_some_iff] at h
          obtain ⟨sl', hs', rfl⟩ := h
          simp [ih _ sl' hs']
        · cases h

theorem prod_map_eq_foldr {α : Type} (f : α → R) (l : List α) :
    prod (l.map f) = l.foldr (fun g acc => mul (f g) acc) one := by
  induction l with
  | nil => rfl
  | cons a l ih => simp [prod, ih]

theorem range_map_hval (n : Nat) (gs : List (Gate R)) (i j : Nat) :
    (List.range gs.length).map (hval n gs i j)
      = gs.map (fun g => g.m (locIdx n g.args i) (locIdx n g.args j)) := by
  apply List.ext_getElem
  · simp
  · intro k h1 h2
    simp only [List.getElem_map, List.getElem_range, hval]
    have : k < gs.length := by simpa using h2
    simp [List.getElem?_eq_getElem this]

theorem agree_equiv (n : Nat) (touched idq : List Nat) (i j : Nat)
    (hE : (List.range n).all (fun a => (touched.contains a) != (idq.contains a)) = true)
    (hB : idq.all (· < n) = true) :
    idq.all (fun u => qbit n u i == qbit n u j) = agreeOut n touched i j := by
  unfold agreeOut
  have hE' : ∀ a, a < n → ¬ (a ∈ touched ↔ a ∈ idq) := by
    intro a ha
    have := (List.all_eq_true.mp hE) a (List.mem_range.mpr ha)
    simpa using this
  have hB' : ∀ u ∈ idq, u < n := by
    intro u hu
    have := (List.all_eq_true.mp hB) u hu
    simpa using this
  rw [Bool.eq_iff_iff, List.all_eq_true, List.all_eq_true]
  constructor
  · intro h a ha
    have ha' := List.mem_range.mp ha
    by_cases ht : a ∈ touched
    · simp [ht]
    · have hi : a ∈ idq := by
        by_contra hn
        exact hE' a ha' ⟨fun x => absurd x ht, fun x => absurd x hn⟩
      have := h a hi
      simp [this]
  · intro h u hu
    have hlt := hB' u hu
    have := h u (List.mem_range.mpr hlt)
    have hnt : ¬ u ∈ touched := fun ht => hE' u hlt ⟨fun _ => hu, fun _ => ht⟩
    simpa [hnt] using this

/-- **the lifting lemma**: a layer shape that passes the certificate is compiled correctly for every
    choice of gate matrices over every lawful commutative semiring -/
theorem layer_of_check (n : Nat) (gs : List (Gate R))
    (hc : checkLayer n (gs.map (·.args)) = true) :
    ∃ M, layer false n gs = some M ∧ M.dim = 2 ^ n ∧
      ∀ i j, i < 2 ^ n → j < 2 ^ n → M.e i j = layerRef n gs i j := by
  unfold checkLayer at hc
  cases hp : plan false n (gs.map (·.args)) with
  | none => rw [hp] at hc; cases hc
  | some p =>
    rw [hp] at hc
    simp only at hc
    cases hsl : slotsOf (gs.map (·.args)) p.factors p.loc with
    | none => rw [hsl] at hc; cases hc
    | some sl =>
      rw [hsl] at hc
      simp only [Bool.and_eq_true, beq_iff_eq, Bool.not_eq_true'] at hc
      obtain ⟨⟨⟨⟨⟨hlen, hne⟩, hperm⟩, hks⟩, hE⟩, hB⟩ := hc
      -- first factor
      cases hf : p.factors with
      | nil => rw [hf] at hne; simp at hne
      | cons f fs =>
        have htags := slotsOf_tags _ _ _ _ hsl
        -- peel the first slot
        cases sl with
        | nil => rw [hf] at htags; simp at htags
        | cons s0 sl' =>
          -- generic statement for every i j
          have main : ∀ i j, ∃ M, tensorAll gs p.factors none = some M ∧ M.dim = 2 ^ p.loc.length ∧
              M.e (locIdx n p.loc i) (locIdx n p.loc j)
                = (s0 :: sl').foldl (fun acc s => mul acc (fval n gs i j s)) one := by
            intro i j
            rw [hf] at hsl ⊢
            cases f with
            | none =>
              simp only [slotsOf] at hsl
              cases hl : p.loc with
              | nil => rw [hl] at hsl; cases hsl
              | cons u rest =>
                rw [hl] at hsl
                simp only [Option.map_eq_some_iff] at hsl
                obtain ⟨sl2, hs2, heq⟩ := hsl
                cases heq
                have key := tensorAll_inv n gs i j fs rest sl' ident2 [u]
                  (mul one (fval n gs i j (none, [u]))) hs2 (by simp [ident2])
                  (by
                    simp only [ident2, locIdx_single, fval, List.all_cons, List.all_nil, Bool.and_true,
                      Lawful.one_mul]
                    congr 1
                    cases qbit n u i <;> cases qbit n u j <;> simp)
                obtain ⟨M, hM, hdim, hent⟩ := key
                refine ⟨M, ?_, ?_, ?_⟩
                · simp only [tensorAll, factorMat]; exact hM
                · rw [hdim]; simp; omega
                · simpa using hent
            | some k =>
              simp only [slotsOf] at hsl
              cases hk : (gs.map (·.args))[k]? with
              | none => rw [hk] at hsl; cases hsl
              | some args =>
                rw [hk] at hsl
                simp only at hsl
                split at hsl
                · rename_i htake
                  simp only [Option.map_eq_some_iff] at hsl
                  obtain ⟨sl2, hs2, heq⟩ := hsl
                  cases heq
                  have htake' : p.loc.take args.length = args := by simpa using htake
                  have hloc : p.loc = args ++ p.loc.drop args.length := by
                    conv => lhs; rw [← List.take_append_drop args.length p.loc]
                    rw [htake']
                  have hlen' : args.length ≤ p.loc.length := by
                    have := congrArg List.length htake'
                    simp at this; omega
                  rw [List.getElem?_map] at hk
                  cases hg : gs[k]? with
                  | none => rw [hg] at hk; cases hk
                  | some g =>
                    rw [hg] at hk
                    simp only [Option.map_some, Option.some.injEq] at hk
                    subst hk
                    have key := tensorAll_inv n gs i j fs (p.loc.drop g.args.length) sl'
                      ⟨2 ^ g.args.length, g.m⟩ g.args
                      (mul one (fval n gs i j (some k, g.args))) hs2 rfl
                      (by simp only [fval, hg, Lawful.one_mul])
                    obtain ⟨M, hM, hdim, hent⟩ := key
                    refine ⟨M, ?_, ?_, ?_⟩
                    · simp only [tensorAll, factorMat, hg]; exact hM
                    · rw [hdim]; simp only [List.length_drop]; congr 1; omega
                    · rw [← hloc] at hent; simpa using hent
                · cases hsl
          obtain ⟨M0, hM0, hdim0, _⟩ := main 0 0
          refine ⟨⟨M0.dim, undoSwaps n M0.e p.swaps⟩, ?_, ?_, ?_⟩
          · simp only [layer, hp, build, hM0]
          · simp only [hdim0, hlen]
          · intro i j hi hj
            obtain ⟨M, hM, _, hent⟩ := main i j
            rw [hM0] at hM
            cases hM
            simp only [undoSwaps_eq]
            have hpi : permOf n p.swaps i = locIdx n p.loc i := by
              have := (List.all_eq_true.mp hperm) i (List.mem_range.mpr hi)
              simpa using this
            have hpj : permOf n p.swaps j = locIdx n p.loc j := by
              have := (List.all_eq_true.mp hperm) j (List.mem_range.mpr hj)
              simpa using this
            rw [hpi, hpj, hent, foldl_fval_split, Lawful.one_mul]
            -- identity part
            have hid := agree_equiv n (gs.map (·.args)).flatten (idQubits (s0 :: sl')) i j hE hB
            -- gate part
            have hks' : ((s0 :: sl').filterMap (·.1)).Perm (List.range gs.length) := by
              have h1 : (s0 :: sl').filterMap (·.1) = p.factors.filterMap id := by
                rw [← htags, List.filterMap_map]; rfl
              rw [h1]
              have := List.isPerm_iff.mp hks
              simpa using this
            have hg : prod (((s0 :: sl').filterMap (·.1)).map (hval n gs i j))
                = gs.foldr (fun g acc => mul (g.m (locIdx n g.args i) (locIdx n g.args j)) acc) one := by
              rw [prod_perm (hks'.map _), range_map_hval, prod_map_eq_foldr]
            rw [hid, hg]
            unfold layerRef
            have hfl : (gs.map (·.args)).flatten = gs.flatMap (·.args) := by
              simp [List.flatMap]
            rw [hfl]
            split
            · exact Lawful.one_mul _
            · exact Lawful.zero_mul _

end lawful

/-! ## Part B: every layer shape -/

/-- all gates (argument lists of arity 1 and 2) on the free qubits -/
def gatesOn (free : List Nat) : List (List Nat) :=
  free.map (fun a => [a]) ++ free.flatMap fun a => (free.filter (· != a)).map fun b => [a, b]

/-- all ordered lists of at most `f` pairwise disjoint gates on the free qubits -/
def genLayers : Nat → List Nat → List (List (List Nat))
  | 0, _ => [[]]
  | f + 1, free => [] :: (gatesOn free).flatMap fun g =>
      (genLayers f (free.filter fun a => !g.contains a)).map (g :: ·)

def allLayers (n : Nat) : List (List (List Nat)) := genLayers n (List.range n)

def checkAll (n : Nat) : Bool := (allLayers n).all (checkLayer n)

/-- a layer on `n` qubits: gates of arity 1 or 2, arguments declared, no qubit used twice -/
structure ValidLayer (n : Nat) (L : List (List Nat)) : Prop where
  arity : ∀ a ∈ L, a.length = 1 ∨ a.length = 2
  bound : ∀ x ∈ L.flatten, x < n
  nodup : L.flatten.Nodup

theorem mem_gatesOn (free g : List Nat) (har : g.length = 1 ∨ g.length = 2)
    (hmem : ∀ x ∈ g, x ∈ free) (hnd : g.Nodup) : g ∈ gatesOn free := by
  unfold gatesOn
  rcases har with h1 | h2
  · match g, h1 with
    | [a], _ =>
      apply List.mem_append_left
      exact List.mem_map.mpr ⟨a, hmem a (by simp), rfl⟩
  · match g, h2 with
    | [a, b], _ =>
      apply List.mem_append_right
      rw [List.mem_flatMap]
      refine ⟨a, hmem a (by simp), ?_⟩
      rw [List.mem_map]
      refine ⟨b, ?_, rfl⟩
      rw [List.mem_filter]
      refine ⟨hmem b (by simp), ?_⟩
      have : a ≠ b := by
        intro h; subst h; simp at hnd
      simpa using fun h => this h.symm

theorem mem_genLayers : ∀ (f : Nat) (free : List Nat) (L : List (List Nat)),
    L.length ≤ f → (∀ a ∈ L, a.length = 1 ∨ a.length = 2) → (∀ x ∈ L.flatten, x ∈ free) →
    L.flatten.Nodup → L ∈ genLayers f free := by
  intro f
  induction f with
  | zero =>
    intro free L hl _ _ _
    have : L = [] := List.eq_nil_of_length_eq_zero (by omega)
    subst this; simp [genLayers]
  | succ f ih =>
    intro free L hl har hmem hnd
    cases L with
    | nil => simp [genLayers]
    | cons g rest =>
      simp only [genLayers]
      apply List.mem_cons_of_mem
      rw [List.mem_flatMap]
      simp only [List.flatten_cons, List.nodup_append] at hnd
      obtain ⟨hg, hrest, hdisj⟩ := hnd
      refine ⟨g, mem_gatesOn free g (har g (by simp)) (fun x hx => hmem x (by simp [hx])) hg, ?_⟩
      rw [List.mem_map]
      refine ⟨rest, ?_, rfl⟩
      apply ih
      · simp at hl; omega
      · intro a ha; exact har a (by simp [ha])
      · intro x hx
        rw [List.mem_filter]
        refine ⟨hmem x (by simp only [List.flatten_cons, List.mem_append]; exact Or.inr hx), ?_⟩
        have : x ∉ g := fun hxg => hdisj x hxg x hx rfl
        simpa using this
      · exact hrest

theorem validLayer_mem_allLayers (n : Nat) (L : List (List Nat)) (h : ValidLayer n L) :
    L ∈ allLayers n := by
  apply mem_genLayers
  · -- pigeonhole: every gate uses at least one of the n qubits, none twice
    have h1 : L.length ≤ L.flatten.length := by
      have har := h.arity
      clear h
      induction L with
      | nil => simp
      | cons a L ih =>
        have := har a (by simp)
        have := ih (fun b hb => har b (by simp [hb]))
        simp only [List.length_cons, List.flatten_cons, List.length_append]
        omega
    have h2 : L.flatten.length ≤ (List.range n).length :=
      h.nodup.length_le_of_subset (fun x hx => List.mem_range.mpr (h.bound x hx))
    simpa using Nat.le_trans h1 h2
  · exact h.arity
  · intro x hx; exact List.mem_range.mpr (h.bound x hx)
  · exact h.nodup

/-! ## Part C: matrix algebra -/
section algebra
variable {R : Type} [Ops R] [Lawful R]

theorem sumN_congr {f g : Nat → R} (N : Nat) (h : ∀ k, k < N → f k = g k) : sumN f N = sumN g N := by
  induction N with
  | zero => rfl
  | succ N ih =>
    simp only [sumN]
    rw [ih (fun k hk => h k (Nat.lt_succ_of_lt hk)), h N (Nat.lt_succ_self N)]

theorem sumN_zero (N : Nat) : sumN (fun _ => (zero : R)) N = zero := by
  induction N with
  | zero => rfl
  | succ N ih => simp only [sumN, ih, add_zero']

theorem sumN_single {f : Nat → R} (N k0 : Nat) (hk : k0 < N)
    (h : ∀ k, k < N → k ≠ k0 → f k = zero) : sumN f N = f k0 := by
  induction N with
  | zero => omega
  | succ N ih =>
    simp only [sumN]
    by_cases hN : k0 = N
    · subst hN
      have : sumN f k0 = zero := by
        rw [sumN_congr k0 (g := fun _ => zero) (fun k hk' => h k (Nat.lt_succ_of_lt hk') (by omega))]
        exact sumN_zero k0
      rw [this, Lawful.zero_add]
    · rw [ih (by omega) (fun k hk' hne => h k (Nat.lt_succ_of_lt hk') hne),
        h N (Nat.lt_succ_self N) (fun e => hN e.symm), add_zero']

theorem sumN_add (f g : Nat → R) (N : Nat) :
    sumN (fun k => add (f k) (g k)) N = add (sumN f N) (sumN g N) := by
  induction N with
  | zero => simp only [sumN, Lawful.zero_add]
  | succ N ih => simp only [sumN, ih]; ac_rfl

theorem sumN_mul_left (a : R) (f : Nat → R) (N : Nat) :
    mul a (sumN f N) = sumN (fun k => mul a (f k)) N := by
  induction N with
  | zero => simp only [sumN, mul_zero']
  | succ N ih => simp only [sumN, Lawful.left_distrib, ih]

theorem sumN_mul_right (a : R) (f : Nat → R) (N : Nat) :
    mul (sumN f N) a = sumN (fun k => mul (f k) a) N := by
  induction N with
  | zero => simp only [sumN, Lawful.zero_mul]
  | succ N ih => simp only [sumN, right_distrib', ih]

theorem sumN_comm (f : Nat → Nat → R) (N M : Nat) :
    sumN (fun k => sumN (fun l => f k l) M) N = sumN (fun l => sumN (fun k => f k l) N) M := by
  induction N with
  | zero => simp only [sumN]; exact (sumN_zero M).symm
  | succ N ih => simp only [sumN, ih, sumN_add]

theorem mmul_assoc (N : Nat) (a b c : Mat R) : mmul N (mmul N a b) c = mmul N a (mmul N b c) := by
  funext i j
  simp only [mmul]
  -- Σ_k (Σ_l a i l * b l k) * c k j = Σ_l a i l * (Σ_k b l k * c k j)
  have h1 : ∀ k, mul (sumN (fun l => mul (a i l) (b l k)) N) (c k j)
      = sumN (fun l => mul (a i l) (mul (b l k) (c k j))) N := by
    intro k
    rw [sumN_mul_right]
    exact sumN_congr N (fun l _ => Lawful.mul_assoc _ _ _)
  have h2 : ∀ l, mul (a i l) (sumN (fun k => mul (b l k) (c k j)) N)
      = sumN (fun k => mul (a i l) (mul (b l k) (c k j))) N := fun l => sumN_mul_left _ _ _
  rw [sumN_congr N (fun k _ => h1 k), sumN_congr N (fun l _ => h2 l)]
  exact sumN_comm (fun k l => mul (a i l) (mul (b l k) (c k j))) N N

/-- two matrices with the same entries on the range -/
def EqOn (N : Nat) (a b : Mat R) : Prop := ∀ i j, i < N → j < N → a i j = b i j

theorem mmul_congr (N : Nat) {a a' b b' : Mat R} (ha : EqOn N a a') (hb : EqOn N b b') :
    EqOn N (mmul N a b) (mmul N a' b') := by
  intro i j hi hj
  simp only [mmul]
  exact sumN_congr N (fun k hk => by rw [ha i k hi hk, hb k j hk hj])

theorem mmul_id_right (N : Nat) (a : Mat R) : EqOn N (mmul N a idMat) a := by
  intro i j _ hj
  simp only [mmul, idMat]
  rw [sumN_single N j hj (fun k _ hne => by rw [if_neg hne, mul_zero'])]
  rw [if_pos rfl, mul_one']

theorem mulVec_mmul (N : Nat) (a b : Mat R) (v : Nat → R) :
    mulVec N (mmul N a b) v = mulVec N a (mulVec N b v) := by
  funext i
  simp only [mulVec, mmul]
  have h1 : ∀ k, mul (sumN (fun l => mul (a i l) (b l k)) N) (v k)
      = sumN (fun l => mul (a i l) (mul (b l k) (v k))) N := by
    intro k
    rw [sumN_mul_right]
    exact sumN_congr N (fun l _ => Lawful.mul_assoc _ _ _)
  have h2 : ∀ l, mul (a i l) (sumN (fun k => mul (b l k) (v k)) N)
      = sumN (fun k => mul (a i l) (mul (b l k) (v k))) N := fun l => sumN_mul_left _ _ _
  rw [sumN_congr N (fun k _ => h1 k), sumN_congr N (fun l _ => h2 l)]
  exact sumN_comm (fun k l => mul (a i l) (mul (b l k) (v k))) N N

theorem mulVec_congr (N : Nat) {a a' : Mat R} (ha : EqOn N a a') {v v' : Nat → R}
    (hv : ∀ k, k < N → v k = v' k) : ∀ i, i < N → mulVec N a v i = mulVec N a' v' i := by
  intro i hi
  simp only [mulVec]
  exact sumN_congr N (fun k hk => by rw [ha i k hi hk, hv k hk])

/-- `RunSoftwareSimulation` = multiplication by the product of the matrices -/
theorem simulate_eq (N : Nat) (ms : List (Mat R)) (v : Nat → R) :
    ∀ i, i < N → simulate N ms v i = mulVec N (prodMats N ms) v i := by
  unfold simulate prodMats
  -- generalise the accumulators
  have gen : ∀ (ms : List (Mat R)) (P : Mat R) (w : Nat → R),
      (∀ i, i < N → w i = mulVec N P v i) →
      ∀ i, i < N → ms.foldl (fun s m => mulVec N m s) w i
        = mulVec N (ms.foldl (fun P m => mmul N m P) P) v i := by
    intro ms
    induction ms with
    | nil => intro P w h; exact h
    | cons m ms ih =>
      intro P w h
      apply ih
      intro i hi
      rw [mulVec_mmul]
      exact mulVec_congr N (fun _ _ _ _ => rfl) h i hi
  apply gen
  intro i hi
  simp only [mulVec, idMat]
  rw [sumN_single N i hi (fun k _ hne => by rw [if_neg (fun e => hne e.symm), Lawful.zero_mul])]
  rw [if_pos rfl, Lawful.one_mul]

/-- multiplying by a basis vector picks a column -/
theorem mulVec_basis (N : Nat) (a : Mat R) (k : Nat) (hk : k < N) (i : Nat) :
    mulVec N a (basis k) i = a i k := by
  simp only [mulVec, basis]
  rw [sumN_single N k hk (fun l _ hne => by rw [if_neg hne, mul_zero'])]
  rw [if_pos rfl, mul_one']

end algebra

/-! ### `layerRef (g :: gs)` = `embed g` · `layerRef gs` (the finite sum has exactly one non-zero term) -/
section collapse

def maskOf (n : Nat) (args : List Nat) : Nat := args.foldl (fun m a => m ||| 2 ^ (n - 1 - a)) 0

/-- the basis index with the bits of `j` on the masked positions and the bits of `i` elsewhere -/
def mix (m i j : Nat) : Nat := (i ^^^ (i &&& m)) ||| (j &&& m)

theorem testBit_maskOf_aux (n p : Nat) (args : List Nat) (m0 : Nat) :
    (args.foldl (fun m a => m ||| 2 ^ (n - 1 - a)) m0).testBit p
      = (m0.testBit p || args.any (fun a => decide (n - 1 - a = p))) := by
  induction args generalizing m0 with
  | nil => simp
  | cons a as ih =>
    simp only [List.foldl_cons, ih, Nat.testBit_or, Nat.testBit_two_pow, List.any_cons, Bool.or_assoc]

theorem testBit_maskOf (n p : Nat) (args : List Nat) :
    (maskOf n args).testBit p = args.any (fun a => decide (n - 1 - a = p)) := by
  simp [maskOf, testBit_maskOf_aux]

theorem testBit_mix (m i j p : Nat) :
    (mix m i j).testBit p = if m.testBit p then j.testBit p else i.testBit p := by
  simp only [mix, Nat.testBit_or, Nat.testBit_xor, Nat.testBit_and]
  cases m.testBit p <;> cases i.testBit p <;> cases j.testBit p <;> rfl

theorem mask_at (n a : Nat) (args : List Nat) (ha : a < n) (hargs : ∀ x ∈ args, x < n) :
    (maskOf n args).testBit (n - 1 - a) = args.contains a := by
  rw [testBit_maskOf, Bool.eq_iff_iff]
  simp only [List.any_eq_true, decide_eq_true_eq, List.contains_iff_mem]
  constructor
  · rintro ⟨x, hx, he⟩
    have := hargs x hx
    have : x = a := by omega
    subst this; exact hx
  · intro h; exact ⟨a, h, rfl⟩

theorem qbit_mix (n a : Nat) (args : List Nat) (i j : Nat) (ha : a < n) (hargs : ∀ x ∈ args, x < n) :
    qbit n a (mix (maskOf n args) i j) = if a ∈ args then qbit n a j else qbit n a i := by
  simp only [qbit, testBit_mix, mask_at n a args ha hargs]
  by_cases h : a ∈ args
  · simp [h]
  · simp [h]

theorem mix_lt (n m i j : Nat) (hi : i < 2 ^ n) (hj : j < 2 ^ n) : mix m i j < 2 ^ n := by
  apply Nat.lt_pow_two_of_testBit
  intro p hp
  rw [testBit_mix]
  have h2 : 2 ^ n ≤ 2 ^ p := Nat.pow_le_pow_right (by omega) hp
  have hi' := Nat.testBit_lt_two_pow (Nat.lt_of_lt_of_le hi h2)
  have hj' := Nat.testBit_lt_two_pow (Nat.lt_of_lt_of_le hj h2)
  simp [hi', hj']

theorem agreeOut_iff (n : Nat) (as : List Nat) (i j : Nat) :
    agreeOut n as i j = true ↔ ∀ a, a < n → a ∈ as ∨ qbit n a i = qbit n a j := by
  simp only [agreeOut, List.all_eq_true, List.mem_range, Bool.or_eq_true, List.contains_iff_mem,
    beq_iff_eq]

theorem locIdx_congr (n : Nat) (args : List Nat) (i k : Nat)
    (h : ∀ a ∈ args, qbit n a i = qbit n a k) : locIdx n args i = locIdx n args k := by
  unfold locIdx
  generalize (0 : Nat) = c
  induction args generalizing c with
  | nil => rfl
  | cons a as ih =>
    simp only [List.foldl_cons]
    rw [h a (by simp)]
    exact ih (fun b hb => h b (by simp [hb])) _

theorem unique_mid (n : Nat) (A B : List Nat) (i j k : Nat) (hk : k < 2 ^ n) (hi : i < 2 ^ n)
    (hj : j < 2 ^ n) (hA : ∀ x ∈ A, x < n) (hdisj : ∀ x ∈ A, x ∉ B)
    (h1 : agreeOut n A i k = true) (h2 : agreeOut n B k j = true) :
    k = mix (maskOf n A) i j := by
  apply Nat.eq_of_testBit_eq
  intro p
  rw [testBit_mix]
  by_cases hp : p < n
  · have ha : n - 1 - p < n := by omega
    have hpa : p = n - 1 - (n - 1 - p) := by omega
    have e1 := (agreeOut_iff n A i k).mp h1 _ ha
    have e2 := (agreeOut_iff n B k j).mp h2 _ ha
    rw [hpa, mask_at n _ A ha hA]
    by_cases hm : (n - 1 - p) ∈ A
    · have : A.contains (n - 1 - p) = true := by simpa using hm
      rw [this]
      simp only [if_true]
      rcases e2 with hb | hb
      · exact absurd hb (hdisj _ hm)
      · exact hb
    · have : A.contains (n - 1 - p) = false := by simpa using hm
      rw [this]
      simp only [Bool.false_eq_true, if_false]
      rcases e1 with hb | hb
      · exact absurd hb hm
      · exact hb.symm
  · have h2' : 2 ^ n ≤ 2 ^ p := Nat.pow_le_pow_right (by omega) (by omega)
    rw [Nat.testBit_lt_two_pow (Nat.lt_of_lt_of_le hk h2'),
      Nat.testBit_lt_two_pow (Nat.lt_of_lt_of_le hi h2'),
      Nat.testBit_lt_two_pow (Nat.lt_of_lt_of_le hj h2')]
    simp

variable {R : Type} [Ops R] [Lawful R]

theorem layerRef_cons (n : Nat) (g : Gate R) (gs : List (Gate R))
    (hv : ValidLayer n ((g :: gs).map (·.args))) :
    EqOn (2 ^ n) (mmul (2 ^ n) (embed n g) (layerRef n gs)) (layerRef n (g :: gs)) := by
  intro i j hi hj
  have hfl : ((g :: gs).map (·.args)).flatten = g.args ++ gs.flatMap (·.args) := by
    simp [List.flatMap]
  have hA : ∀ x ∈ g.args, x < n := fun x hx => hv.bound x (by rw [hfl]; simp [hx])
  have hB : ∀ x ∈ gs.flatMap (·.args), x < n := fun x hx => hv.bound x (by rw [hfl]; simp [hx])
  have hnd := hv.nodup
  rw [hfl, List.nodup_append] at hnd
  have hdisj : ∀ x ∈ g.args, x ∉ gs.flatMap (·.args) := fun x hx hx' => hnd.2.2 x hx x hx' rfl
  simp only [mmul]
  rw [sumN_single (2 ^ n) (mix (maskOf n g.args) i j) (mix_lt n _ i j hi hj)]
  · -- the surviving term
    have hq := fun a (ha : a < n) => qbit_mix n a g.args i j ha hA
    have ag1 : agreeOut n g.args i (mix (maskOf n g.args) i j) = true := by
      rw [agreeOut_iff]
      intro a ha
      by_cases hm : a ∈ g.args
      · exact Or.inl hm
      · right
        rw [hq a ha, if_neg hm]
    have l1 : locIdx n g.args (mix (maskOf n g.args) i j) = locIdx n g.args j := by
      apply locIdx_congr
      intro a ha
      rw [hq a (hA a ha), if_pos ha]
    have ag2 : agreeOut n (gs.flatMap (·.args)) (mix (maskOf n g.args) i j) j
        = agreeOut n (g.args ++ gs.flatMap (·.args)) i j := by
      rw [Bool.eq_iff_iff, agreeOut_iff, agreeOut_iff]
      constructor
      · intro h a ha
        by_cases hm : a ∈ g.args
        · exact Or.inl (by simp [hm])
        · rcases h a ha with hb | hb
          · exact Or.inl (by simp [hb])
          · right
            rw [hq a ha, if_neg hm] at hb
            exact hb
      · intro h a ha
        by_cases hm : a ∈ g.args
        · right
          rw [hq a ha, if_pos hm]
        · rcases h a ha with hb | hb
          · rw [List.mem_append] at hb
            rcases hb with hb | hb
            · exact absurd hb hm
            · exact Or.inl hb
          · right
            rw [hq a ha, if_neg hm]
            exact hb
    have l2 : gs.foldr (fun g' acc => mul (g'.m (locIdx n g'.args (mix (maskOf n g.args) i j))
          (locIdx n g'.args j)) acc) one
        = gs.foldr (fun g' acc => mul (g'.m (locIdx n g'.args i) (locIdx n g'.args j)) acc) one := by
      rw [← prod_map_eq_foldr, ← prod_map_eq_foldr]
      congr 1
      apply List.map_congr_left
      intro g' hg'
      have : locIdx n g'.args (mix (maskOf n g.args) i j) = locIdx n g'.args i := by
        apply locIdx_congr
        intro a ha
        have hmem : a ∈ gs.flatMap (·.args) := List.mem_flatMap.mpr ⟨g', hg', ha⟩
        have hna : a ∉ g.args := fun h => hdisj a h hmem
        rw [hq a (hB a hmem), if_neg hna]
      rw [this]
    simp only [embed, layerRef, ag1, if_true, l1, ag2, l2, List.flatMap_cons, List.foldr_cons]
    split
    · rfl
    · exact mul_zero' _
  · -- every other term vanishes
    intro k hk hne
    simp only [embed, layerRef]
    by_cases h1 : agreeOut n g.args i k = true
    · by_cases h2 : agreeOut n (gs.flatMap (·.args)) k j = true
      · exact absurd (unique_mid n g.args _ i j k hk hi hj hA hdisj h1 h2) hne
      · rw [if_neg h2]; exact mul_zero' _
    · rw [if_neg h1]; exact Lawful.zero_mul _

end collapse

/-! ### a layer is the ordered product of its gates' embeddings; the compiled circuit is `Uref` -/
section circuit
variable {R : Type} [Ops R] [Lawful R]

theorem validLayer_perm {n : Nat} {L L' : List (List Nat)} (h : L.Perm L') (hv : ValidLayer n L) :
    ValidLayer n L' :=
  ⟨fun a ha => hv.arity a (h.mem_iff.mpr ha),
   fun x hx => hv.bound x (h.flatten.mem_iff.mpr hx),
   h.flatten.nodup hv.nodup⟩

theorem layerRef_perm (n : Nat) {gs gs' : List (Gate R)} (h : gs.Perm gs') :
    layerRef n gs = layerRef n gs' := by
  funext i j
  unfold layerRef
  have hag : agreeOut n (gs.flatMap (·.args)) i j = agreeOut n (gs'.flatMap (·.args)) i j := by
    rw [Bool.eq_iff_iff, agreeOut_iff, agreeOut_iff]
    have hm := fun a => (h.flatMap_right (·.args)).mem_iff (a := a)
    constructor
    · intro hh a ha; rcases hh a ha with hb | hb
      · exact Or.inl ((hm a).mp hb)
      · exact Or.inr hb
    · intro hh a ha; rcases hh a ha with hb | hb
      · exact Or.inl ((hm a).mpr hb)
      · exact Or.inr hb
  rw [hag, ← prod_map_eq_foldr, ← prod_map_eq_foldr, prod_perm (h.map _)]

theorem layerRef_nil (n : Nat) : EqOn (2 ^ n) (layerRef n ([] : List (Gate R))) idMat := by
  intro i j hi hj
  simp only [layerRef, idMat, List.flatMap_nil, List.foldr_nil]
  have : agreeOut n [] i j = true ↔ i = j := by
    rw [agreeOut_iff]
    constructor
    · intro h
      apply Nat.eq_of_testBit_eq
      intro p
      by_cases hp : p < n
      · have := h (n - 1 - p) (by omega)
        rcases this with hb | hb
        · cases hb
        · have e : n - 1 - (n - 1 - p) = p := by omega
          simpa [qbit, e] using hb
      · have h2' : 2 ^ n ≤ 2 ^ p := Nat.pow_le_pow_right (by omega) (by omega)
        rw [Nat.testBit_lt_two_pow (Nat.lt_of_lt_of_le hi h2'),
          Nat.testBit_lt_two_pow (Nat.lt_of_lt_of_le hj h2')]
    · intro h a _; exact Or.inr (by rw [h])
  by_cases hij : i = j
  · rw [if_pos (this.mpr hij), if_pos hij]
  · rw [if_neg (fun h => hij (this.mp h)), if_neg hij]

theorem mmul_id_left (N : Nat) (a : Mat R) : EqOn N (mmul N idMat a) a := by
  intro i j hi _
  simp only [mmul, idMat]
  rw [sumN_single N i hi (fun k _ hne => by rw [if_neg (fun e => hne e.symm), Lawful.zero_mul])]
  rw [if_pos rfl, Lawful.one_mul]

theorem EqOn.trans {N : Nat} {a b c : Mat R} (h1 : EqOn N a b) (h2 : EqOn N b c) : EqOn N a c :=
  fun i j hi hj => (h1 i j hi hj).trans (h2 i j hi hj)

theorem EqOn.symm {N : Nat} {a b : Mat R} (h : EqOn N a b) : EqOn N b a :=
  fun i j hi hj => (h i j hi hj).symm

theorem EqOn.refl (N : Nat) (a : Mat R) : EqOn N a a := fun _ _ _ _ => rfl

theorem embedChain_foldr (n : Nat) (U : Mat R) : ∀ (r : List (Gate R)),
    ValidLayer n (r.map (·.args)) →
    EqOn (2 ^ n) (r.foldr (fun g acc => mmul (2 ^ n) (embed n g) acc) U) (mmul (2 ^ n) (layerRef n r) U) := by
  intro r
  induction r with
  | nil =>
    intro _
    exact ((mmul_congr _ (layerRef_nil n) (EqOn.refl _ U)).trans (mmul_id_left _ U)).symm
  | cons g r ih =>
    intro hv
    have hv' : ValidLayer n (r.map (·.args)) := by
      refine ⟨fun a ha => hv.arity a (by simp at ha ⊢; exact Or.inr ha), fun x hx => hv.bound x ?_, ?_⟩
      · simp only [List.map_cons, List.flatten_cons, List.mem_append]; exact Or.inr hx
      · have := hv.nodup
        simp only [List.map_cons, List.flatten_cons, List.nodup_append] at this
        exact this.2.1
    simp only [List.foldr_cons]
    refine (mmul_congr _ (EqOn.refl _ _) (ih hv')).trans ?_
    rw [← mmul_assoc]
    exact mmul_congr _ (layerRef_cons n g r hv) (EqOn.refl _ U)

/-- gates of one layer applied one after the other (in program order) = the layer's reference -/
theorem embedChain (n : Nat) (U : Mat R) (gs : List (Gate R)) (hv : ValidLayer n (gs.map (·.args))) :
    EqOn (2 ^ n) (gs.foldl (fun U g => mmul (2 ^ n) (embed n g) U) U) (mmul (2 ^ n) (layerRef n gs) U) := by
  have h1 : gs.foldl (fun U g => mmul (2 ^ n) (embed n g) U) U
      = gs.reverse.foldr (fun g acc => mmul (2 ^ n) (embed n g) acc) U := by
    rw [List.foldr_reverse]
  rw [h1, ← layerRef_perm n (List.reverse_perm gs)]
  apply embedChain_foldr
  exact validLayer_perm (((List.reverse_perm gs).map (·.args)).symm) hv

/-- a gate of the supported shapes on declared qubits -/
def OkGate (n : Nat) (g : Gate R) : Prop :=
  (g.args.length = 1 ∨ g.args.length = 2) ∧ (∀ x ∈ g.args, x < n) ∧ g.args.Nodup

theorem splitLayers_spec (n : Nat) : ∀ (gs cur : List (Gate R)) (used : List Nat),
    (∀ g ∈ gs, OkGate n g) → ValidLayer n (cur.reverse.map (·.args)) →
    (∀ x, x ∈ used ↔ x ∈ (cur.map (·.args)).flatten) →
    (∀ l ∈ splitLayers (·.args) gs cur used, ValidLayer n (l.map (·.args))) ∧
      (splitLayers (·.args) gs cur used).flatten = cur.reverse ++ gs := by
  intro gs
  induction gs with
  | nil =>
    intro cur used _ hv _
    simp only [splitLayers]
    cases cur with
    | nil => simp
    | cons c cs =>
      refine ⟨?_, by simp⟩
      intro l hl
      simp at hl
      subst hl
      simpa using hv
  | cons g gs ih =>
    intro cur used hok hv hu
    have hg := hok g (by simp)
    have hok' : ∀ g' ∈ gs, OkGate n g' := fun g' h => hok g' (by simp [h])
    simp only [splitLayers]
    split
    · -- a qubit is reused: close the current layer
      have hsingle : ValidLayer n (([g] : List (Gate R)).reverse.map (·.args)) := by
        refine ⟨?_, ?_, ?_⟩
        · intro a ha; simp at ha; subst ha; exact hg.1
        · intro x hx; simp at hx; exact hg.2.1 x hx
        · simpa using hg.2.2
      have := ih [g] g.args hok' hsingle (by intro x; simp)
      obtain ⟨h1, h2⟩ := this
      constructor
      · intro l hl
        rw [List.mem_append] at hl
        rcases hl with hl | hl
        · cases cur with
          | nil => simp at hl
          | cons c cs => simp at hl; subst hl; simpa using hv
        · exact h1 l hl
      · rw [List.flatten_append, h2]
        cases cur with
        | nil => simp
        | cons c cs => simp
    · rename_i hno
      have hno' : ∀ x ∈ g.args, x ∉ used := by
        intro x hx hxu
        apply hno
        rw [List.any_eq_true]
        exact ⟨x, hx, by simpa using hxu⟩
      have hflat : ((g :: cur).reverse.map (·.args)).flatten
          = (cur.reverse.map (·.args)).flatten ++ g.args := by simp
      have hmemrev : ∀ x, x ∈ (cur.reverse.map (·.args)).flatten ↔ x ∈ (cur.map (·.args)).flatten := by
        intro x
        exact (((List.reverse_perm cur).map (·.args)).flatten).mem_iff
      have hv2 : ValidLayer n ((g :: cur).reverse.map (·.args)) := by
        refine ⟨?_, ?_, ?_⟩
        · intro a ha
          simp only [List.reverse_cons, List.map_append, List.map_cons, List.map_nil, List.mem_append,
            List.mem_singleton] at ha
          rcases ha with ha | ha
          · exact hv.arity a ha
          · subst ha; exact hg.1
        · intro x hx
          rw [hflat, List.mem_append] at hx
          rcases hx with hx | hx
          · exact hv.bound x hx
          · exact hg.2.1 x hx
        · rw [hflat, List.nodup_append]
          refine ⟨hv.nodup, hg.2.2, ?_⟩
          intro a ha b hb hab
          subst hab
          exact hno' a hb ((hu a).mpr ((hmemrev a).mp ha))
      have := ih (g :: cur) (g.args ++ used) hok' hv2 (by
        intro x
        simp only [List.mem_append, List.map_cons, List.flatten_cons]
        rw [hu x])
      obtain ⟨h1, h2⟩ := this
      exact ⟨h1, by rw [h2]; simp⟩

theorem compileLayers_spec (n : Nat) (c : List (Gate R)) (hok : ∀ g ∈ c, OkGate n g) :
    (∀ l ∈ compileLayers c, ValidLayer n (l.map (·.args))) ∧ (compileLayers c).flatten = c := by
  have := splitLayers_spec n c [] [] hok ⟨by simp, by simp, by simp⟩ (by simp)
  simpa [compileLayers] using this

/-- if every layer is compiled to its reference, the product of the matrices follows the circuit -/
theorem compileMats_prod (n : Nat)
    (hlayer : ∀ gs : List (Gate R), ValidLayer n (gs.map (·.args)) →
      ∃ M, layer false n gs = some M ∧ M.dim = 2 ^ n ∧ EqOn (2 ^ n) M.e (layerRef n gs)) :
    ∀ (ls : List (List (Gate R))), (∀ l ∈ ls, ValidLayer n (l.map (·.args))) →
      ∃ Ms, compileMats false n ls = some Ms ∧ Ms.length = ls.length ∧ (∀ M ∈ Ms, M.dim = 2 ^ n) ∧
        ∀ U U' : Mat R, EqOn (2 ^ n) U U' →
          EqOn (2 ^ n) ((Ms.map (·.e)).foldl (fun P m => mmul (2 ^ n) m P) U)
            (ls.flatten.foldl (fun U g => mmul (2 ^ n) (embed n g) U) U') := by
  intro ls
  induction ls with
  | nil => intro _; exact ⟨[], rfl, rfl, by simp, fun U U' h => by simpa using h⟩
  | cons l ls ih =>
    intro hv
    obtain ⟨M, hM, hdim, hent⟩ := hlayer l (hv l (by simp))
    obtain ⟨Ms, hMs, hlen, hdims, hprod⟩ := ih (fun l' h => hv l' (by simp [h]))
    refine ⟨M :: Ms, by simp [compileMats, hM, hMs], by simp [hlen], ?_, ?_⟩
    · intro M' hM'
      simp only [List.mem_cons] at hM'
      rcases hM' with h | h
      · subst h; exact hdim
      · exact hdims M' h
    · intro U U' hU
      simp only [List.map_cons, List.foldl_cons, List.flatten_cons, List.foldl_append]
      apply hprod
      exact (mmul_congr _ hent hU).trans (embedChain n U' l (hv l (by simp))).symm

end circuit

end BMV.Quantum
