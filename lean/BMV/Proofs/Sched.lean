/-
  Lemmas about BMV.Sched (generic: permutation independence of folds, first match, sorting,
  membership, framed updates).  Core only (List.Perm and its lemmas are in core).
-/
import BMV.Sched
namespace BMV.Sched
open List

/-! ## folds -/

/-- a fold whose step is right-commutative gives the same result for every permutation -/
theorem foldl_perm_of_comm {α β : Type} {f : β → α → β}
    (comm : ∀ z x y, f (f z x) y = f (f z y) x) {l₁ l₂ : List α} (h : l₁ ~ l₂) (init : β) :
    walk f init l₁ = walk f init l₂ :=
  h.foldl_eq' (fun x _ y _ z => comm z x y) init

/-- the same, when the step only commutes on the elements that are actually walked -/
theorem foldl_perm_of_comm_on {α β : Type} {f : β → α → β} {l₁ l₂ : List α} (h : l₁ ~ l₂)
    (comm : ∀ x ∈ l₁, ∀ y ∈ l₁, ∀ z, f (f z x) y = f (f z y) x) (init : β) :
    walk f init l₁ = walk f init l₂ :=
  h.foldl_eq' comm init

/-- walks with a state-independent failure test: permutation independent when the steps commute -/
theorem walkE_perm {σ α : Type} {fails : α → Bool} {step : σ → α → σ} {l₁ l₂ : List α}
    (h : l₁ ~ l₂) (comm : ∀ x ∈ l₁, ∀ y ∈ l₁, ∀ z, step (step z x) y = step (step z y) x)
    (init : σ) : walkE fails step init l₁ = walkE fails step init l₂ := by
  unfold walkE
  apply h.foldl_eq'
  intro x hx y hy z
  cases z with
  | none => rfl
  | some s =>
    cases hfx : fails x <;> cases hfy : fails y <;> simp [stepE, hfx, hfy, comm x hx y hy s]

/-- a walk that may fail returns `none` exactly when some walked entry fails -/
theorem walkE_eq_none_iff {σ α : Type} {fails : α → Bool} {step : σ → α → σ} (l : List α) (init : σ) :
    walkE fails step init l = none ↔ ∃ x ∈ l, fails x = true := by
  unfold walkE
  suffices H : ∀ (os : Option σ), (l.foldl (stepE fails step) os = none ↔
      (os = none ∨ ∃ x ∈ l, fails x = true)) by
    simpa using H (some init)
  induction l with
  | nil => intro os; simp
  | cons a l ih =>
    intro os
    simp only [foldl_cons, ih, mem_cons, exists_eq_or_imp]
    cases os with
    | none => simp [stepE]
    | some s => cases hfa : fails a <;> simp [stepE, hfa]

/-! ## first match -/

/-- if all entries that satisfy `p` agree on `g`, "the first that satisfies p" is permutation
    independent (in particular when at most one entry satisfies `p`) -/
theorem first_match_unique {α β : Type} {p : α → Bool} {g : α → β} {l₁ l₂ : List α} (h : l₁ ~ l₂)
    (uniq : ∀ a ∈ l₁, ∀ b ∈ l₁, p a = true → p b = true → g a = g b) :
    firstMatch p g l₁ = firstMatch p g l₂ := by
  unfold firstMatch
  cases h₁ : l₁.find? p with
  | none =>
    have : l₂.find? p = none := by
      rw [find?_eq_none] at h₁ ⊢
      intro x hx; exact h₁ x (h.symm.subset hx)
    rw [this]
  | some a =>
    have ha := mem_of_find?_eq_some h₁
    have hpa := find?_some h₁
    cases h₂ : l₂.find? p with
    | none =>
      rw [find?_eq_none] at h₂
      exact absurd hpa (h₂ a (h.subset ha))
    | some b =>
      have hb := h.symm.subset (mem_of_find?_eq_some h₂)
      have hpb := find?_some h₂
      simp only [Option.map_some, Option.some.injEq]
      exact uniq a ha b hb hpa hpb

/-- converse witness: two overlapping matchers that disagree, tried in the two orders, give
    different results -/
theorem first_match_order_sensitive {α β : Type} {p : α → Bool} {g : α → β} {a b : α} (l : List α)
    (ha : p a = true) (hb : p b = true) (hg : g a ≠ g b) :
    (a :: b :: l) ~ (b :: a :: l) ∧ firstMatch p g (a :: b :: l) ≠ firstMatch p g (b :: a :: l) := by
  refine ⟨Perm.swap b a l, ?_⟩
  simp [firstMatch, ha, hb, hg]

/-! ## sorting -/

theorem insertSorted_perm {α : Type} (le : α → α → Bool) (a : α) (l : List α) :
    insertSorted le a l ~ a :: l := by
  induction l with
  | nil => exact Perm.refl _
  | cons b l ih =>
    unfold insertSorted
    split
    · exact Perm.refl _
    · exact (Perm.cons b ih).trans (Perm.swap a b l)

theorem isort_perm {α : Type} (le : α → α → Bool) (l : List α) : isort le l ~ l := by
  induction l with
  | nil => exact Perm.refl _
  | cons a l ih => exact (insertSorted_perm le a _).trans (Perm.cons a ih)

/-- hypotheses that make `le` a total order (decidable, Bool-valued as in the model) -/
structure TotalOrder {α : Type} (le : α → α → Bool) : Prop where
  total : ∀ a b, le a b = true ∨ le b a = true
  trans : ∀ a b c, le a b = true → le b c = true → le a c = true
  antisymm : ∀ a b, le a b = true → le b a = true → a = b

theorem insertSorted_sorted {α : Type} {le : α → α → Bool} (ho : TotalOrder le) (a : α) (l : List α)
    (hl : l.Pairwise (fun x y => le x y = true)) :
    (insertSorted le a l).Pairwise (fun x y => le x y = true) := by
  induction l with
  | nil => simp [insertSorted]
  | cons b l ih =>
    rw [pairwise_cons] at hl
    unfold insertSorted
    split
    · rename_i hab
      rw [pairwise_cons]
      refine ⟨?_, pairwise_cons.mpr hl⟩
      intro c hc
      rcases mem_cons.mp hc with rfl | hc
      · exact hab
      · exact ho.trans _ _ _ hab (hl.1 c hc)
    · rename_i hab
      rw [pairwise_cons]
      refine ⟨?_, ih hl.2⟩
      intro c hc
      have hc' := (insertSorted_perm le a l).subset hc
      rcases mem_cons.mp hc' with rfl | hc'
      · rcases ho.total c b with h | h
        · exact absurd h hab
        · exact h
      · exact hl.1 c hc'

theorem isort_sorted {α : Type} {le : α → α → Bool} (ho : TotalOrder le) (l : List α) :
    (isort le l).Pairwise (fun x y => le x y = true) := by
  induction l with
  | nil => simp [isort]
  | cons a l ih => exact insertSorted_sorted ho a _ ih

/-- sorting a permutation gives the same list -/
theorem sort_perm {α : Type} {le : α → α → Bool} (ho : TotalOrder le) {l₁ l₂ : List α} (h : l₁ ~ l₂) :
    isort le l₁ = isort le l₂ := by
  apply Perm.eq_of_pairwise (le := fun x y => le x y = true)
  · intro a b _ _ hab hba; exact ho.antisymm a b hab hba
  · exact isort_sorted ho l₁
  · exact isort_sorted ho l₂
  · exact (isort_perm le l₁).trans (h.trans (isort_perm le l₂).symm)

/-! ## membership -/

theorem membership_perm {α : Type} {l₁ l₂ : List α} (h : l₁ ~ l₂) (x : α) : x ∈ l₁ ↔ x ∈ l₂ :=
  h.mem_iff

theorem contains_perm {α : Type} [BEq α] [LawfulBEq α] {l₁ l₂ : List α} (h : l₁ ~ l₂) (x : α) :
    l₁.contains x = l₂.contains x := by
  rw [Bool.eq_iff_iff]; simp [h.mem_iff]

/-! ## framed updates -/

/-- agents with disjoint footprints commute -/
theorem par_step_frame {K V : Type} {fp₁ fp₂ : K → Bool} {f₁ f₂ : Store K V → Store K V}
    (h₁ : FrameStep fp₁ f₁) (h₂ : FrameStep fp₂ f₂)
    (disj : ∀ c, ¬(fp₁ c = true ∧ fp₂ c = true)) (s : Store K V) :
    f₂ (f₁ s) = f₁ (f₂ s) := by
  funext c
  cases hc₁ : fp₁ c with
  | false =>
    rw [h₁.outside _ c hc₁]
    cases hc₂ : fp₂ c with
    | false => rw [h₂.outside _ c hc₂, h₂.outside _ c hc₂, h₁.outside _ c hc₁]
    | true =>
      apply h₂.inside _ _ _ c hc₂
      intro d hd
      have : fp₁ d = false := by
        cases hd₁ : fp₁ d with
        | false => rfl
        | true => exact absurd ⟨hd₁, hd⟩ (disj d)
      exact h₁.outside _ d this
  | true =>
    have hc₂ : fp₂ c = false := by
      cases hc₂ : fp₂ c with
      | false => rfl
      | true => exact absurd ⟨hc₁, hc₂⟩ (disj c)
    rw [h₂.outside _ c hc₂]
    apply h₁.inside _ _ _ c hc₁
    intro d hd
    have : fp₂ d = false := by
      cases hd₂ : fp₂ d with
      | false => rfl
      | true => exact absurd ⟨hd, hd₂⟩ (disj d)
    exact (h₂.outside _ d this).symm

theorem pairwise_rel_of_ne {α : Type} {R : α → α → Prop} (symm : ∀ {a b}, R a b → R b a) {l : List α}
    (h : l.Pairwise R) : ∀ {a b}, a ∈ l → b ∈ l → a ≠ b → R a b := by
  induction h with
  | nil => intro a b ha; cases ha
  | cons hx _ ih =>
    intro a b ha hb hab
    rcases mem_cons.mp ha with rfl | ha'
    · rcases mem_cons.mp hb with rfl | hb'
      · exact absurd rfl hab
      · exact hx b hb'
    · rcases mem_cons.mp hb with rfl | hb'
      · exact symm (hx a ha')
      · exact ih ha' hb' hab

/-- a walk whose iterations are framed on pairwise disjoint footprints is permutation independent
    (with or without a state-independent failure test) -/
theorem framed_walkE_det {E K V : Type} (fp : E → K → Bool) (stepf : E → Store K V → Store K V)
    (fails : E → Bool) (hframe : ∀ e, FrameStep (fp e) (stepf e)) (l : List E)
    (hdisj : l.Pairwise (fun a b => ∀ c, ¬(fp a c = true ∧ fp b c = true)))
    {π₁ π₂ : List E} (h₁ : π₁ ~ l) (h₂ : π₂ ~ l) (s : Store K V) :
    walkE fails (fun s e => stepf e s) s π₁ = walkE fails (fun s e => stepf e s) s π₂ := by
  apply walkE_perm (h₁.trans h₂.symm)
  intro x hx y hy z
  by_cases hxy : x = y
  · subst hxy; rfl
  · have hsym : ∀ {a b : E}, (∀ c, ¬(fp a c = true ∧ fp b c = true)) → (∀ c, ¬(fp b c = true ∧ fp a c = true)) :=
      fun h c hc => h c ⟨hc.2, hc.1⟩
    have := pairwise_rel_of_ne (fun h => hsym h) hdisj (h₁.subset hx) (h₁.subset hy) hxy
    exact par_step_frame (hframe x) (hframe y) this z

theorem framed_walk_det {E K V : Type} (fp : E → K → Bool) (stepf : E → Store K V → Store K V)
    (hframe : ∀ e, FrameStep (fp e) (stepf e)) (l : List E)
    (hdisj : l.Pairwise (fun a b => ∀ c, ¬(fp a c = true ∧ fp b c = true)))
    {π₁ π₂ : List E} (h₁ : π₁ ~ l) (h₂ : π₂ ~ l) (s : Store K V) :
    walk (fun s e => stepf e s) s π₁ = walk (fun s e => stepf e s) s π₂ := by
  apply foldl_perm_of_comm_on (h₁.trans h₂.symm)
  intro x hx y hy z
  by_cases hxy : x = y
  · subst hxy; rfl
  · have hsym : ∀ {a b : E}, (∀ c, ¬(fp a c = true ∧ fp b c = true)) → (∀ c, ¬(fp b c = true ∧ fp a c = true)) :=
      fun h c hc => h c ⟨hc.2, hc.1⟩
    have := pairwise_rel_of_ne (fun h => hsym h) hdisj (h₁.subset hx) (h₁.subset hy) hxy
    exact par_step_frame (hframe x) (hframe y) this z

/-! ## stores -/

theorem Store.set_comm {K V : Type} [DecidableEq K] (s : Store K V) {k₁ k₂ : K} (h : k₁ ≠ k₂) (v₁ v₂ : V) :
    (s.set k₁ v₁).set k₂ v₂ = (s.set k₂ v₂).set k₁ v₁ := by
  funext c
  by_cases h1 : c = k₁
  · subst h1; simp [Store.set, h]
  · by_cases h2 : c = k₂
    · subst h2; simp [Store.set, h1]
    · simp [Store.set, h1, h2]

theorem Store.set_idem_comm {K V : Type} [DecidableEq K] (s : Store K V) (k₁ k₂ : K) (v : V) :
    (s.set k₁ v).set k₂ v = (s.set k₂ v).set k₁ v := by
  funext c
  simp only [Store.set]
  by_cases h1 : c = k₁ <;> by_cases h2 : c = k₂ <;> simp [h1, h2]

/-- writing one's own cell from one's own cell is framed on that cell -/
theorem frame_set_own {K V : Type} [DecidableEq K] (k : K) (g : V → V) :
    FrameStep (fun c => decide (c = k)) (fun s : Store K V => s.set k (g (s k))) := by
  constructor
  · intro s c hc
    simp only [decide_eq_false_iff_not] at hc
    simp [Store.set, hc]
  · intro s t hst c hc
    simp only [decide_eq_true_eq] at hc
    subst hc
    have := hst c (by simp)
    simp [Store.set, this]

end BMV.Sched
