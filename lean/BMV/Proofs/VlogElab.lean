/-
  C18, towards `wf_total` (4): what elaboration establishes — resolved expressions are identifier-free
  and in range w.r.t. the scope's signals.
-/
import BMV.Proofs.VlogSafe3
namespace BMV.Vlog

/-- every signal a scope knows exists -/
def ScOk (sc : Scope) (n : Nat) : Prop := ∀ (name : String) (i : Nat), sc[name]? = some (.sig i) → i < n

mutual
theorem wfE_mono {n m : Nat} (hnm : n ≤ m) : ∀ (e : Expr), wfE n e = true → wfE m e = true
  | .id _, h => by simp [wfE] at h
  | .num _ _, _ => by simp [wfE]
  | .sig i, h => by simp only [wfE, decide_eq_true_eq] at h ⊢; omega
  | .idx b i, h => by
    simp only [wfE, Bool.and_eq_true] at h ⊢
    exact ⟨wfE_mono hnm b h.1, wfE_mono hnm i h.2⟩
  | .rng b x l, h => by
    simp only [wfE, Bool.and_eq_true] at h ⊢
    exact ⟨⟨wfE_mono hnm b h.1.1, wfE_mono hnm x h.1.2⟩, wfE_mono hnm l h.2⟩
  | .ipart b s w _, h => by
    simp only [wfE, Bool.and_eq_true] at h ⊢
    exact ⟨⟨wfE_mono hnm b h.1.1, wfE_mono hnm s h.1.2⟩, wfE_mono hnm w h.2⟩
  | .cat es, h => by simp only [wfE] at h ⊢; exact wfEL_mono hnm es h
  | .rep c es, h => by
    simp only [wfE, Bool.and_eq_true] at h ⊢
    exact ⟨wfE_mono hnm c h.1, wfEL_mono hnm es h.2⟩
  | .un _ e, h => by simp only [wfE] at h ⊢; exact wfE_mono hnm e h
  | .bin _ a b, h => by
    simp only [wfE, Bool.and_eq_true] at h ⊢
    exact ⟨wfE_mono hnm a h.1, wfE_mono hnm b h.2⟩
  | .cond c a b, h => by
    simp only [wfE, Bool.and_eq_true] at h ⊢
    exact ⟨⟨wfE_mono hnm c h.1.1, wfE_mono hnm a h.1.2⟩, wfE_mono hnm b h.2⟩
theorem wfEL_mono {n m : Nat} (hnm : n ≤ m) : ∀ (es : List Expr), wfEL n es = true → wfEL m es = true
  | [], _ => by simp [wfEL]
  | e :: es, h => by
    simp only [wfEL, Bool.and_eq_true] at h ⊢
    exact ⟨wfE_mono hnm e h.1, wfEL_mono hnm es h.2⟩
end

mutual
theorem resolveExpr_wf (sc : Scope) (n : Nat) (hsc : ScOk sc n) :
    ∀ (e e' : Expr), srcE e = true → resolveExpr sc e = .ok e' → wfE n e' = true
  | .num w v, e', _, h => by
    simp only [resolveExpr, pure, Except.pure, Except.ok.injEq] at h; subst h; rfl
  | .sig i, e', hs, _ => by simp [srcE] at hs
  | .id name, e', _, h => by
    unfold resolveExpr at h
    split at h
    · rename_i i heq
      simp only [pure, Except.pure, Except.ok.injEq] at h; subst h
      simp only [wfE, decide_eq_true_eq]
      exact hsc name i heq
    · simp only [pure, Except.pure, Except.ok.injEq] at h; subst h; rfl
    · simp [throw, throwThe, MonadExceptOf.throw] at h
  | .idx b i, e', hs, h => by
    simp only [srcE, Bool.and_eq_true] at hs
    unfold resolveExpr at h
    obtain ⟨b', hb, h⟩ := bind_ok h
    obtain ⟨i', hi, h⟩ := bind_ok h
    simp only [pure, Except.pure, Except.ok.injEq] at h; subst h
    simp [wfE, resolveExpr_wf sc n hsc b b' hs.1 hb, resolveExpr_wf sc n hsc i i' hs.2 hi]
  | .rng b m l, e', hs, h => by
    simp only [srcE, Bool.and_eq_true] at hs
    unfold resolveExpr at h
    obtain ⟨m', _, h⟩ := bind_ok h
    obtain ⟨mv, _, h⟩ := bind_ok h
    obtain ⟨l', _, h⟩ := bind_ok h
    obtain ⟨lv, _, h⟩ := bind_ok h
    obtain ⟨b', hb, h⟩ := bind_ok h
    simp only [pure, Except.pure, Except.ok.injEq] at h; subst h
    simp [wfE, resolveExpr_wf sc n hsc b b' hs.1.1 hb]
  | .ipart b s w up, e', hs, h => by
    simp only [srcE, Bool.and_eq_true] at hs
    unfold resolveExpr at h
    obtain ⟨w', _, h⟩ := bind_ok h
    obtain ⟨wv, _, h⟩ := bind_ok h
    obtain ⟨b', hb, h⟩ := bind_ok h
    obtain ⟨s', hs', h⟩ := bind_ok h
    simp only [pure, Except.pure, Except.ok.injEq] at h; subst h
    simp [wfE, resolveExpr_wf sc n hsc b b' hs.1.1 hb, resolveExpr_wf sc n hsc s s' hs.1.2 hs']
  | .cat es, e', hs, h => by
    simp only [srcE] at hs
    unfold resolveExpr at h
    obtain ⟨es', hes, h⟩ := bind_ok h
    simp only [pure, Except.pure, Except.ok.injEq] at h; subst h
    simp [wfE, resolveExprs_wf sc n hsc es es' hs hes]
  | .rep c es, e', hs, h => by
    simp only [srcE, Bool.and_eq_true] at hs
    unfold resolveExpr at h
    obtain ⟨n', _, h⟩ := bind_ok h
    obtain ⟨nv, _, h⟩ := bind_ok h
    obtain ⟨es', hes, h⟩ := bind_ok h
    simp only [pure, Except.pure, Except.ok.injEq] at h; subst h
    simp [wfE, resolveExprs_wf sc n hsc es es' hs.2 hes]
  | .un op e, e', hs, h => by
    simp only [srcE] at hs
    unfold resolveExpr at h
    obtain ⟨x, hx, h⟩ := bind_ok h
    simp only [pure, Except.pure, Except.ok.injEq] at h; subst h
    simp [wfE, resolveExpr_wf sc n hsc e x hs hx]
  | .bin op a b, e', hs, h => by
    simp only [srcE, Bool.and_eq_true] at hs
    unfold resolveExpr at h
    obtain ⟨a', ha, h⟩ := bind_ok h
    obtain ⟨b', hb, h⟩ := bind_ok h
    simp only [pure, Except.pure, Except.ok.injEq] at h; subst h
    simp [wfE, resolveExpr_wf sc n hsc a a' hs.1 ha, resolveExpr_wf sc n hsc b b' hs.2 hb]
  | .cond c a b, e', hs, h => by
    simp only [srcE, Bool.and_eq_true] at hs
    unfold resolveExpr at h
    obtain ⟨c', hc, h⟩ := bind_ok h
    obtain ⟨a', ha, h⟩ := bind_ok h
    obtain ⟨b', hb, h⟩ := bind_ok h
    simp only [pure, Except.pure, Except.ok.injEq] at h; subst h
    simp [wfE, resolveExpr_wf sc n hsc c c' hs.1.1 hc, resolveExpr_wf sc n hsc a a' hs.1.2 ha,
      resolveExpr_wf sc n hsc b b' hs.2 hb]
theorem resolveExprs_wf (sc : Scope) (n : Nat) (hsc : ScOk sc n) :
    ∀ (es es' : List Expr), srcEL es = true → resolveExprs sc es = .ok es' → wfEL n es' = true
  | [], es', _, h => by
    simp only [resolveExprs, pure, Except.pure, Except.ok.injEq] at h; subst h; rfl
  | e :: es, es', hs, h => by
    simp only [srcEL, Bool.and_eq_true] at hs
    unfold resolveExprs at h
    obtain ⟨x, hx, h⟩ := bind_ok h
    obtain ⟨xs, hxs, h⟩ := bind_ok h
    simp only [pure, Except.pure, Except.ok.injEq] at h; subst h
    simp [wfEL, resolveExpr_wf sc n hsc e x hs.1 hx, resolveExprs_wf sc n hsc es xs hs.2 hxs]
end



theorem em_bind_ok {α β : Type} {x : EM α} {f : α → EM β} {s : ElabSt} {r : β × ElabSt}
    (h : (x >>= f) s = .ok r) : ∃ a s1, x s = .ok (a, s1) ∧ f a s1 = .ok r := by
  simp only [bind, StateT.bind] at h
  cases hx : x s with
  | error e => rw [hx] at h; simp [Except.bind] at h
  | ok p => rw [hx] at h; exact ⟨p.1, p.2, rfl, h⟩

theorem em_lift_ok {α : Type} {r : R α} {s s' : ElabSt} {a : α}
    (h : (liftM r : EM α) s = .ok (a, s')) : r = .ok a ∧ s' = s := by
  simp only [liftM, monadLift, MonadLift.monadLift, StateT.lift, bind, Except.bind] at h
  cases r with
  | error e => simp at h
  | ok b => simp [pure, Except.pure] at h; exact ⟨by rw [h.1], h.2.symm⟩

theorem em_get_ok {s s' a : ElabSt} (h : (get : EM ElabSt) s = .ok (a, s')) : a = s ∧ s' = s := by
  simp [get, getThe, MonadStateOf.get, StateT.get, pure, Except.pure] at h
  exact ⟨h.1.symm, h.2.symm⟩

theorem em_set_ok {v s s' : ElabSt} {a : PUnit} (h : (set v : EM PUnit) s = .ok (a, s')) : s' = v := by
  simp [set, MonadStateOf.set, StateT.set, pure, Except.pure] at h
  exact h.symm

theorem em_pure_ok {α : Type} {a b : α} {s s' : ElabSt} (h : (pure a : EM α) s = .ok (b, s')) : b = a ∧ s' = s := by
  simp [pure, StateT.pure, Except.pure] at h
  exact ⟨h.1.symm, h.2.symm⟩

theorem em_modify_ok {f : ElabSt → ElabSt} {s s' : ElabSt} {a : PUnit}
    (h : (modify f : EM PUnit) s = .ok (a, s')) : s' = f s := by
  simp [modify, modifyGet, MonadStateOf.modifyGet, StateT.modifyGet, pure, Except.pure] at h
  exact h.symm

theorem em_efail {α : Type} {m : String} {s : ElabSt} {r : α × ElabSt} (h : (efail m : EM α) s = .ok r) : False := by
  simp [efail, throw, throwThe, MonadExceptOf.throw, StateT.lift, liftM, monadLift, MonadLift.monadLift, bind, Except.bind] at h


/-- `st'` differs from `st` only by more (or updated) signals -/
structure SigExt (st st' : ElabSt) : Prop where
  size : st.sigs.size ≤ st'.sigs.size
  assigns : st'.assigns = st.assigns
  combs : st'.combs = st.combs
  procs : st'.procs = st.procs
  inits : st'.inits = st.inits

theorem SigExt.refl (st : ElabSt) : SigExt st st := ⟨Nat.le_refl _, rfl, rfl, rfl, rfl⟩
theorem SigExt.trans {a b c : ElabSt} (h1 : SigExt a b) (h2 : SigExt b c) : SigExt a c :=
  ⟨Nat.le_trans h1.size h2.size, h2.assigns.trans h1.assigns, h2.combs.trans h1.combs,
   h2.procs.trans h1.procs, h2.inits.trans h1.inits⟩

theorem ScOk.mono {sc : Scope} {n m : Nat} (h : ScOk sc n) (hnm : n ≤ m) : ScOk sc m :=
  fun name i hi => Nat.lt_of_lt_of_le (h name i hi) hnm

theorem ScOk.insert_sig {sc : Scope} {n : Nat} (h : ScOk sc n) (name : String) (i : Nat) (hi : i < n) :
    ScOk (sc.insert name (.sig i)) n := by
  intro name' j hj
  rw [Std.HashMap.getElem?_insert] at hj
  split at hj
  · simp at hj; omega
  · exact h name' j hj

theorem ScOk.insert_const {sc : Scope} {n : Nat} (h : ScOk sc n) (name : String) (w v : Nat) :
    ScOk (sc.insert name (.const w v)) n := by
  intro name' j hj
  rw [Std.HashMap.getElem?_insert] at hj
  split at hj
  · simp at hj
  · exact h name' j hj

theorem declare_spec (sc : Scope) (pfx : String) (isTop : Bool) (d : Decl) (nm : DeclName) (s s' : ElabSt) (sc' : Scope)
    (hsc : ScOk sc s.sigs.size) (h : declare sc pfx isTop d nm s = .ok (sc', s')) :
    ScOk sc' s'.sigs.size ∧ SigExt s s' := by
  unfold declare at h
  obtain ⟨p1, s1, h1, ha⟩ := em_bind_ok h
  clear h
  obtain ⟨_, rfl⟩ := em_lift_ok h1
  clear h1
  obtain ⟨w, lsb⟩ := p1
  simp only [] at ha
  obtain ⟨p2, s2, h2, hb⟩ := em_bind_ok ha
  clear ha
  obtain ⟨_, rfl⟩ := em_lift_ok h2
  clear h2
  obtain ⟨depth, memLo⟩ := p2
  simp only [] at hb
  cases hm : sc[nm.name]? with
  | some b =>
    cases b with
    | const cw cv =>
      simp only [hm] at hb
      exact (em_efail hb).elim
    | sig i =>
      simp only [hm] at hb
      obtain ⟨st, s3, h3, hc⟩ := em_bind_ok hb
      clear hb
      obtain ⟨rfl, rfl⟩ := em_get_ok h3
      clear h3
      split at hc
      · obtain ⟨u, s4, h4, hd⟩ := em_bind_ok hc
        have := em_set_ok h4; subst this
        obtain ⟨rfl, rfl⟩ := em_pure_ok hd
        exact ⟨by simpa [Array.set!] using hsc, ⟨by simp [Array.set!], rfl, rfl, rfl, rfl⟩⟩
      · split at hc
        · obtain ⟨u, s4, h4, hd⟩ := em_bind_ok hc
          have := em_set_ok h4; subst this
          obtain ⟨rfl, rfl⟩ := em_pure_ok hd
          exact ⟨by simpa [Array.set!] using hsc, ⟨by simp [Array.set!], rfl, rfl, rfl, rfl⟩⟩
        · exact (em_efail hc).elim
  | none =>
    simp only [hm] at hb
    obtain ⟨st, s3, h3, hc⟩ := em_bind_ok hb
    clear hb
    obtain ⟨rfl, rfl⟩ := em_get_ok h3
    clear h3
    obtain ⟨u, s4, h4, hd⟩ := em_bind_ok hc
    have := em_set_ok h4; subst this
    obtain ⟨rfl, rfl⟩ := em_pure_ok hd
    refine ⟨?_, ⟨by simp, rfl, rfl, rfl, rfl⟩⟩
    simp only [Array.size_push]
    exact ScOk.insert_sig (hsc.mono (Nat.le_succ _)) _ _ (Nat.lt_succ_self _)

theorem declareAll_spec (pfx : String) (isTop : Bool) (d : Decl) : ∀ (ns : List DeclName) (sc : Scope) (s s' : ElabSt) (sc' : Scope),
    ScOk sc s.sigs.size → declareAll sc pfx isTop d ns s = .ok (sc', s') → ScOk sc' s'.sigs.size ∧ SigExt s s'
  | [], sc, s, s', sc', hsc, h => by
    unfold declareAll at h
    obtain ⟨rfl, rfl⟩ := em_pure_ok h
    exact ⟨hsc, SigExt.refl _⟩
  | n :: ns, sc, s, s', sc', hsc, h => by
    unfold declareAll at h
    obtain ⟨sc1, s1, h1, h⟩ := em_bind_ok h
    obtain ⟨hsc1, he1⟩ := declare_spec sc pfx isTop d n s s1 sc1 hsc h1
    obtain ⟨hsc2, he2⟩ := declareAll_spec pfx isTop d ns sc1 s1 s' sc' hsc1 h
    exact ⟨hsc2, he1.trans he2⟩

theorem declareDecls_spec (pfx : String) (isTop : Bool) : ∀ (ds : List Decl) (sc : Scope) (s s' : ElabSt) (sc' : Scope),
    ScOk sc s.sigs.size → declareDecls sc pfx isTop ds s = .ok (sc', s') → ScOk sc' s'.sigs.size ∧ SigExt s s'
  | [], sc, s, s', sc', hsc, h => by
    unfold declareDecls at h
    obtain ⟨rfl, rfl⟩ := em_pure_ok h
    exact ⟨hsc, SigExt.refl _⟩
  | d :: ds, sc, s, s', sc', hsc, h => by
    unfold declareDecls at h
    obtain ⟨sc1, s1, h1, h⟩ := em_bind_ok h
    obtain ⟨hsc1, he1⟩ := declareAll_spec pfx isTop d d.names sc s s1 sc1 hsc h1
    obtain ⟨hsc2, he2⟩ := declareDecls_spec pfx isTop ds sc1 s1 s' sc' hsc1 h
    exact ⟨hsc2, he1.trans he2⟩




mutual
theorem wfS_mono {n m : Nat} (hnm : n ≤ m) : ∀ (s : Stmt), wfS n s = true → wfS m s = true
  | .null, _ => rfl
  | .assign _ l r, h => by
    simp only [wfS, Bool.and_eq_true] at h ⊢
    exact ⟨wfE_mono hnm l h.1, wfE_mono hnm r h.2⟩
  | .ite c t e, h => by
    simp only [wfS, Bool.and_eq_true] at h ⊢
    exact ⟨⟨wfE_mono hnm c h.1.1, wfS_mono hnm t h.1.2⟩, wfS_mono hnm e h.2⟩
  | .block _ _ ss, h => by simp only [wfS] at h ⊢; exact wfSL_mono hnm ss h
  | .case e items d, h => by
    simp only [wfS, Bool.and_eq_true] at h ⊢
    exact ⟨⟨wfE_mono hnm e h.1.1, wfItems_mono hnm items h.1.2⟩, wfS_mono hnm d h.2⟩
  | .for _ _ _ _, h => by simp [wfS] at h
theorem wfSL_mono {n m : Nat} (hnm : n ≤ m) : ∀ (ss : List Stmt), wfSL n ss = true → wfSL m ss = true
  | [], _ => rfl
  | s :: ss, h => by
    simp only [wfSL, Bool.and_eq_true] at h ⊢
    exact ⟨wfS_mono hnm s h.1, wfSL_mono hnm ss h.2⟩
theorem wfItems_mono {n m : Nat} (hnm : n ≤ m) : ∀ (its : List (List Expr × Stmt)), wfItems n its = true → wfItems m its = true
  | [], _ => rfl
  | (ls, b) :: rest, h => by
    simp only [wfItems, Bool.and_eq_true] at h ⊢
    exact ⟨⟨wfEL_mono hnm ls h.1.1, wfS_mono hnm b h.1.2⟩, wfItems_mono hnm rest h.2⟩
end

theorem wfSL_append {n : Nat} : ∀ (a b : List Stmt), wfSL n a = true → wfSL n b = true → wfSL n (a ++ b) = true
  | [], b, _, hb => hb
  | x :: a, b, ha, hb => by
    simp only [wfSL, Bool.and_eq_true, List.cons_append] at ha ⊢
    exact ⟨ha.1, wfSL_append a b ha.2 hb⟩

theorem unrollFor_wf (n i : Nat) (hi : i < n) (c f : Expr) (body : Stmt) (hb : wfS n body = true) :
    ∀ (fuel v : Nat) (acc r : Array Stmt), wfSL n acc.toList = true →
      unrollFor i c f body fuel v acc = .ok r → wfSL n r.toList = true
  | 0, _, _, _, _, h => by
    unfold unrollFor at h
    simp [throw, throwThe, MonadExceptOf.throw] at h
  | fuel + 1, v, acc, r, hacc, h => by
    unfold unrollFor at h
    simp only [] at h
    obtain ⟨cv, _, h⟩ := bind_ok h
    have hacc1 : wfSL n (acc.push (.assign true (.sig i) (.num (some 32) v))).toList = true := by
      simp only [Array.toList_push]
      exact wfSL_append _ _ hacc (by simp [wfSL, wfS, wfE, hi])
    split at h
    · simp only [pure, Except.pure, Except.ok.injEq] at h; subst h; exact hacc1
    · obtain ⟨v', _, h⟩ := bind_ok h
      refine unrollFor_wf n i hi c f body hb fuel _ _ r ?_ h
      simp only [Array.toList_push]
      exact wfSL_append _ _ (by simpa using hacc1) (by simp [wfSL, hb])


theorem em_liftE {α : Type} {r : R α} {s s' : ElabSt} {a : α}
    (h : (liftM r : EM α) s = .ok (a, s')) : r = .ok a ∧ s' = s := em_lift_ok h

mutual
theorem resolveStmt_spec (sc : Scope) (pfx : String) :
    ∀ (t : Stmt) (s s' : ElabSt) (t' : Stmt), ScOk sc s.sigs.size → srcS t = true →
      resolveStmt sc pfx t s = .ok (t', s') → wfS s'.sigs.size t' = true ∧ SigExt s s'
  | .null, s, s', t', _, _, h => by
    unfold resolveStmt at h
    obtain ⟨rfl, rfl⟩ := em_pure_ok h
    exact ⟨rfl, SigExt.refl _⟩
  | .assign b l r, s, s', t', hsc, hs, h => by
    simp only [srcS, Bool.and_eq_true] at hs
    unfold resolveStmt at h
    obtain ⟨l', s1, h1, ha⟩ := em_bind_ok h
    obtain ⟨hl, rfl⟩ := em_lift_ok h1
    obtain ⟨r', s2, h2, hb⟩ := em_bind_ok ha
    obtain ⟨hr, rfl⟩ := em_lift_ok h2
    obtain ⟨rfl, rfl⟩ := em_pure_ok hb
    refine ⟨?_, SigExt.refl _⟩
    simp [wfS, resolveExpr_wf sc _ hsc l l' hs.1 hl, resolveExpr_wf sc _ hsc r r' hs.2 hr]
  | .ite c t e, s, s', t', hsc, hs, h => by
    simp only [srcS, Bool.and_eq_true] at hs
    unfold resolveStmt at h
    obtain ⟨c', s1, h1, ha⟩ := em_bind_ok h
    obtain ⟨hc, rfl⟩ := em_lift_ok h1
    obtain ⟨t1, s2, h2, hb⟩ := em_bind_ok ha
    obtain ⟨hw2, he2⟩ := resolveStmt_spec sc pfx t _ s2 t1 hsc hs.1.2 h2
    obtain ⟨e1, s3, h3, hc3⟩ := em_bind_ok hb
    obtain ⟨hw3, he3⟩ := resolveStmt_spec sc pfx e s2 s3 e1 (hsc.mono he2.size) hs.2 h3
    obtain ⟨rfl, rfl⟩ := em_pure_ok hc3
    refine ⟨?_, he2.trans he3⟩
    have hsz := (he2.trans he3).size
    simp [wfS, wfE_mono hsz _ (resolveExpr_wf sc _ hsc c c' hs.1.1 hc), wfS_mono he3.size _ hw2, hw3]
  | .block label locals ss, s, s', t', hsc, hs, h => by
    simp only [srcS] at hs
    unfold resolveStmt at h
    simp only [] at h
    obtain ⟨sc1, s1, h1, ha⟩ := em_bind_ok h
    obtain ⟨hsc1, he1⟩ := declareDecls_spec _ false locals sc s s1 sc1 hsc h1
    obtain ⟨ss', s2, h2, hb⟩ := em_bind_ok ha
    obtain ⟨hw2, he2⟩ := resolveStmts_spec sc1 _ ss s1 s2 ss' hsc1 hs h2
    obtain ⟨rfl, rfl⟩ := em_pure_ok hb
    exact ⟨by simpa [wfS] using hw2, he1.trans he2⟩
  | .case e items dflt, s, s', t', hsc, hs, h => by
    simp only [srcS, Bool.and_eq_true] at hs
    unfold resolveStmt at h
    obtain ⟨e', s1, h1, ha⟩ := em_bind_ok h
    obtain ⟨he, rfl⟩ := em_lift_ok h1
    obtain ⟨its', s2, h2, hb⟩ := em_bind_ok ha
    obtain ⟨hw2, he2⟩ := resolveItems_spec sc pfx items _ s2 its' hsc hs.1.2 h2
    obtain ⟨d', s3, h3, hc3⟩ := em_bind_ok hb
    obtain ⟨hw3, he3⟩ := resolveStmt_spec sc pfx dflt s2 s3 d' (hsc.mono he2.size) hs.2 h3
    obtain ⟨rfl, rfl⟩ := em_pure_ok hc3
    refine ⟨?_, he2.trans he3⟩
    have hsz := (he2.trans he3).size
    simp [wfS, wfE_mono hsz _ (resolveExpr_wf sc _ hsc e e' hs.1.1 he), wfItems_mono he3.size _ hw2, hw3]
  | .for init c step body, s, s', t', hsc, hs, h => by
    simp only [srcS, Bool.and_eq_true] at hs
    unfold resolveStmt at h
    obtain ⟨body', s1, h1, ha⟩ := em_bind_ok h
    obtain ⟨hwb, heb⟩ := resolveStmt_spec sc pfx body s s1 body' hsc hs.2 h1
    have hsc1 := hsc.mono heb.size
    obtain ⟨c', s2, h2, hb⟩ := em_bind_ok ha
    obtain ⟨_, rfl⟩ := em_lift_ok h2
    split at hb
    · rename_i il ie sl se
      simp only [srcS, Bool.and_eq_true] at hs
      obtain ⟨il', s3, h3, hc3⟩ := em_bind_ok hb
      obtain ⟨hil, rfl⟩ := em_lift_ok h3
      obtain ⟨sl', s4, h4, hd⟩ := em_bind_ok hc3
      obtain ⟨_, rfl⟩ := em_lift_ok h4
      obtain ⟨se', s5, h5, he5⟩ := em_bind_ok hd
      obtain ⟨_, rfl⟩ := em_lift_ok h5
      split at he5
      · split at he5
        · exact (em_efail he5).elim
        · obtain ⟨ie', s6, h6, hf⟩ := em_bind_ok he5
          obtain ⟨_, rfl⟩ := em_lift_ok h6
          obtain ⟨v0, s7, h7, hg⟩ := em_bind_ok hf
          obtain ⟨_, rfl⟩ := em_lift_ok h7
          obtain ⟨ssr, s8, h8, hh⟩ := em_bind_ok hg
          obtain ⟨hun, rfl⟩ := em_lift_ok h8
          obtain ⟨rfl, rfl⟩ := em_pure_ok hh
          refine ⟨?_, heb⟩
          have hi := resolveExpr_wf sc _ hsc1 il _ hs.1.1.1.1 hil
          simp only [wfE, decide_eq_true_eq] at hi
          have := unrollFor_wf _ _ hi c' se' body' hwb _ _ #[] ssr (by simp [wfSL]) hun
          simpa [wfS] using this
      · exact (em_efail he5).elim
    · exact (em_efail hb).elim
theorem resolveStmts_spec (sc : Scope) (pfx : String) :
    ∀ (ts : List Stmt) (s s' : ElabSt) (ts' : List Stmt), ScOk sc s.sigs.size → srcSL ts = true →
      resolveStmts sc pfx ts s = .ok (ts', s') → wfSL s'.sigs.size ts' = true ∧ SigExt s s'
  | [], s, s', ts', _, _, h => by
    unfold resolveStmts at h
    obtain ⟨rfl, rfl⟩ := em_pure_ok h
    exact ⟨rfl, SigExt.refl _⟩
  | t :: ts, s, s', ts', hsc, hs, h => by
    simp only [srcSL, Bool.and_eq_true] at hs
    unfold resolveStmts at h
    obtain ⟨t1, s1, h1, ha⟩ := em_bind_ok h
    obtain ⟨hw1, he1⟩ := resolveStmt_spec sc pfx t s s1 t1 hsc hs.1 h1
    obtain ⟨ts1, s2, h2, hb⟩ := em_bind_ok ha
    obtain ⟨hw2, he2⟩ := resolveStmts_spec sc pfx ts s1 s2 ts1 (hsc.mono he1.size) hs.2 h2
    obtain ⟨rfl, rfl⟩ := em_pure_ok hb
    exact ⟨by simp [wfSL, wfS_mono he2.size _ hw1, hw2], he1.trans he2⟩
theorem resolveItems_spec (sc : Scope) (pfx : String) :
    ∀ (its : List (List Expr × Stmt)) (s s' : ElabSt) (its' : List (List Expr × Stmt)), ScOk sc s.sigs.size →
      srcItems its = true → resolveItems sc pfx its s = .ok (its', s') →
      wfItems s'.sigs.size its' = true ∧ SigExt s s'
  | [], s, s', its', _, _, h => by
    unfold resolveItems at h
    obtain ⟨rfl, rfl⟩ := em_pure_ok h
    exact ⟨rfl, SigExt.refl _⟩
  | (ls, b) :: rest, s, s', its', hsc, hs, h => by
    simp only [srcItems, Bool.and_eq_true] at hs
    unfold resolveItems at h
    obtain ⟨ls', s1, h1, ha⟩ := em_bind_ok h
    obtain ⟨hls, rfl⟩ := em_lift_ok h1
    obtain ⟨b', s2, h2, hb⟩ := em_bind_ok ha
    obtain ⟨hw2, he2⟩ := resolveStmt_spec sc pfx b _ s2 b' hsc hs.1.2 h2
    obtain ⟨rest', s3, h3, hc3⟩ := em_bind_ok hb
    obtain ⟨hw3, he3⟩ := resolveItems_spec sc pfx rest s2 s3 rest' (hsc.mono he2.size) hs.2 h3
    obtain ⟨rfl, rfl⟩ := em_pure_ok hc3
    refine ⟨?_, he2.trans he3⟩
    have hsz := (he2.trans he3).size
    simp [wfItems, wfEL_mono hsz _ (resolveExprs_wf sc _ hsc ls ls' hs.1.1 hls), wfS_mono he3.size _ hw2, hw3]
end


end BMV.Vlog
