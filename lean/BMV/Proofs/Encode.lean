/-
  Helper lemmas for C03 (BMV.Encode).
-/
import BMV.Encode
import BMV.Proofs.Bits
namespace BMV.Encode
open BMV BMV.Bits

/-- an operand value fits its field -/
def Fits (a : Arch) : FieldKind → Operand → Prop
  | .reg, .reg k => k < 2 ^ a.r ∧ 1 ≤ a.r
  | .inp, .inp k => k < a.n ∧ k < 2 ^ a.inBits
  | .out, .out k => k < a.m ∧ k < 2 ^ a.outBits
  | .so kind short, .so s k => s = short ∧ k < a.sharedNum kind ∧ k < 2 ^ a.sharedBits kind
  | .so _ _, .num _ => False
  | f, .num n => n < 2 ^ a.width f ∧ 1 ≤ a.width f ∧ f ≠ .reg ∧ f ≠ .inp ∧ f ≠ .out
  | _, _ => False

/-- what an encoded operand is: `encField` of the field's width and the operand's value -/
def opVal : Operand → Nat
  | .reg k => k | .inp k => k | .out k => k | .num n => n | .so _ k => k | .bad => 0

theorem encOperand_eq {a : Arch} {f : FieldKind} {x : Operand} {b : Bits}
    (h : encOperand a f x = some b) : b = encField (a.width f) (opVal x) ∧ decOperand f (opVal x) = x := by
  cases f <;> cases x <;> simp [encOperand] at h <;>
    first
    | (obtain ⟨⟨rfl, _⟩, rfl⟩ := h; exact ⟨rfl, rfl⟩)
    | (obtain ⟨_, rfl⟩ := h; exact ⟨rfl, rfl⟩)
    | (subst h; exact ⟨rfl, rfl⟩)

theorem encOperand_len_ge {a : Arch} {f : FieldKind} {x : Operand} {b : Bits}
    (h : encOperand a f x = some b) : a.width f ≤ b.length := by
  rw [(encOperand_eq h).1]; exact encField_length_ge _ _

theorem encOperands_len_ge {a : Arch} : ∀ {fs : List FieldKind} {xs : List Operand} {body : Bits},
    encOperands a fs xs = some body → (fs.map a.width).sum ≤ body.length
  | [], [], body, h => by simp [encOperands] at h; subst h; simp
  | [], _ :: _, _, h => by simp [encOperands] at h
  | _ :: _, [], _, h => by simp [encOperands] at h
  | f :: fs, x :: xs, body, h => by
    simp only [encOperands] at h
    cases h1 : encOperand a f x with
    | none => simp [h1] at h
    | some b =>
      cases h2 : encOperands a fs xs with
      | none => simp [h1, h2] at h
      | some bs =>
        simp [h1, h2] at h
        subst h
        have := encOperand_len_ge h1
        have := encOperands_len_ge h2
        simp; omega

/-- if the body is exactly as long as the fields' nominal widths, every field is exact, and the
    body decodes (even when followed by padding) to the operands it was built from -/
theorem encOperands_exact {a : Arch} : ∀ {fs : List FieldKind} {xs : List Operand} {body : Bits} (pad : Bits),
    encOperands a fs xs = some body → body.length = (fs.map a.width).sum →
      decOperands a fs (body ++ pad) = xs ∧
      (∀ (j : Nat) f x, fs[j]? = some f → xs[j]? = some x → (encField (a.width f) (opVal x)).length = a.width f)
  | [], [], body, pad, h, _ => by simp [encOperands] at h; subst h; simp [decOperands]
  | [], _ :: _, _, _, h, _ => by simp [encOperands] at h
  | _ :: _, [], _, _, h, _ => by simp [encOperands] at h
  | f :: fs, x :: xs, body, pad, h, hl => by
    simp only [encOperands] at h
    cases h1 : encOperand a f x with
    | none => simp [h1] at h
    | some b =>
      cases h2 : encOperands a fs xs with
      | none => simp [h1, h2] at h
      | some bs =>
        simp [h1, h2] at h
        subst h
        have g1 := encOperand_len_ge h1
        have g2 := encOperands_len_ge h2
        simp only [List.length_append, List.map_cons, List.sum_cons] at hl
        have e1 : b.length = a.width f := by omega
        have e2 : bs.length = (fs.map a.width).sum := by omega
        obtain ⟨ih1, ih2⟩ := encOperands_exact pad h2 e2
        obtain ⟨hb, hd⟩ := encOperand_eq h1
        constructor
        · simp only [decOperands]
          rw [List.append_assoc, ← e1, List.take_left, List.drop_left, ih1]
          rw [hb]
          congr 1
          rw [show getId (encField (a.width f) (opVal x)) = opVal x from by
            unfold encField; rw [getId_zerosPrefix, getId_getBinary]]
          exact hd
        · intro j f' x' hf hx
          cases j with
          | zero =>
            simp at hf hx; subst hf; subst hx
            rw [← hb]; exact e1
          | succ j => exact ih2 j f' x' (by simpa using hf) (by simpa using hx)

theorem foldl_max_ge (l : List Nat) (init : Nat) : init ≤ l.foldl max init ∧ ∀ x ∈ l, x ≤ l.foldl max init := by
  induction l generalizing init with
  | nil => simp
  | cons y ys ih =>
    simp only [List.foldl_cons]
    obtain ⟨h1, h2⟩ := ih (max init y)
    refine ⟨by omega, ?_⟩
    intro x hx
    simp at hx
    rcases hx with rfl | hx
    · omega
    · exact h2 x hx

end BMV.Encode

namespace BMV.Encode
open BMV BMV.Bits

/-- everything `asm a i = .ok w` tells us -/
theorem asm_ok_inv {a : Arch} {i : Instr} {w : Bits} (h : asm a i = .ok w) :
    ∃ idx fs body,
      a.ops.findIdx? (· == i.op) = some idx ∧ layout i.op = some fs ∧
      encOperands a fs (normalise i).args = some body ∧
      (encField a.opBits idx).length = a.opBits ∧ body.length = (fs.map a.width).sum ∧
      w = encField a.opBits idx ++ body ++ List.replicate (a.maxWord - (a.opBits + (fs.map a.width).sum)) false ∧
      w.length = a.maxWord := by
  unfold asm at h
  cases hr : asmRaw a i with
  | error e => simp [hr] at h
  | ok w' =>
    simp only [hr] at h
    split at h
    · rename_i hlen
      cases h
      unfold asmRaw at hr
      cases hidx : a.ops.findIdx? (· == i.op) with
      | none => simp [hidx] at hr
      | some idx =>
        simp only [hidx] at hr
        cases hlay : layout i.op with
        | none => simp [hlay] at hr
        | some fs =>
          simp only [hlay] at hr
          generalize (normalise i).args = args at hr ⊢
          by_cases harity : fs.length ≠ args.length
          · simp [harity] at hr
          · simp only [harity, if_false] at hr
            cases hbody : encOperands a fs args with
            | none => simp [hbody] at hr
            | some body =>
              simp only [hbody] at hr
              cases hr
              have g0 := encField_length_ge a.opBits idx
              have g1 := encOperands_len_ge hbody
              simp only [List.length_append, List.length_replicate] at hlen
              refine ⟨idx, fs, body, rfl, rfl, hbody, by omega, by omega, rfl, ?_⟩
              simp only [List.length_append, List.length_replicate]; exact hlen
    · cases h

theorem take_of_len {α} {l1 l2 : List α} {n : Nat} (h : l1.length = n) : (l1 ++ l2).take n = l1 := by
  subst h; exact List.take_left
theorem drop_of_len {α} {l1 l2 : List α} {n : Nat} (h : l1.length = n) : (l1 ++ l2).drop n = l2 := by
  subst h; exact List.drop_left

theorem findIdx_get {ops : List String} {op : String} {idx : Nat}
    (h : ops.findIdx? (· == op) = some idx) : ops[idx]? = some op := by
  obtain ⟨hlt, hp, _⟩ := List.findIdx?_eq_some_iff_getElem.mp h
  rw [List.getElem?_eq_getElem hlt]
  simp at hp
  rw [hp]

theorem normalise_idem (i : Instr) : normalise (normalise i) = normalise i := by
  unfold normalise; by_cases h : lenientArity i.op <;> simp [h]

theorem asm_normalise (a : Arch) (i : Instr) : asm a (normalise i) = asm a i := by
  unfold asm asmRaw
  rw [normalise_idem]
  rfl


theorem mapM_ok {α β ε : Type} (f : α → Except ε β) :
    ∀ (l : List α) (ws : List β), l.mapM f = .ok ws →
      ws.length = l.length ∧ ∀ p ∈ l.zip ws, f p.1 = .ok p.2 := by
  intro l
  induction l with
  | nil => intro ws h; simp [pure, Except.pure] at h; subst h; simp
  | cons x xs ih =>
    intro ws h
    rw [List.mapM_cons] at h
    cases hx : f x with
    | error e => simp [hx, bind, Except.bind] at h
    | ok b =>
      cases hxs : xs.mapM f with
      | error e => simp [hx, hxs, bind, Except.bind] at h
      | ok bs =>
        simp [hx, hxs, bind, Except.bind, pure, Except.pure] at h
        subst h
        obtain ⟨hl, hall⟩ := ih bs hxs
        refine ⟨by simp [hl], ?_⟩
        intro p hp
        simp only [List.zip_cons_cons, List.mem_cons] at hp
        rcases hp with rfl | hp
        · exact hx
        · exact hall p hp

/-- if every word decodes to (the image of) the instruction it came from, the whole program decodes
    to the instruction list -/
theorem mapM_some_of_zip {α β γ : Type} (f : β → Option γ) (g : α → γ) :
    ∀ (l : List α) (ws : List β), ws.length = l.length →
      (∀ p ∈ l.zip ws, f p.2 = some (g p.1)) → ws.mapM f = some (l.map g) := by
  intro l
  induction l with
  | nil => intro ws hl _; cases ws with
    | nil => simp [pure]
    | cons _ _ => simp at hl
  | cons x xs ih =>
    intro ws hl hall
    cases ws with
    | nil => simp at hl
    | cons w ws' =>
      have hw : f w = some (g x) := hall (x, w) (by simp)
      have hrest := ih ws' (by simpa using hl) (fun p hp => hall p (by simp [hp]))
      rw [List.mapM_cons]
      simp [hw, hrest, bind, Option.bind, pure]

end BMV.Encode
