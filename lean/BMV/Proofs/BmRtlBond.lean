/-
  C02 helper: one bond of a clock of the hardware world (`Bm.rtlCycle`) projects onto one step of
  C04's handshake model `Hs.Rtl.step` (`rtl_bond_projects`), hence every run of the hardware
  composition projects bond by bond onto a run of `Hs.Rtl` (`rtl_bond_run_projects`).
-/
import BMV.Proofs.BmIsaBond
namespace BMV.Bm
open BMV BMV.Bits BMV.Topology

/-! ### one clock of one processor, seen from one port -/

theorem mainBlock_r2owa {a : Arch} {cur : Nat} (s : RtlState) (p : PortsIn) (h : Rtl.curOp a cur = some "r2owa") :
    Rtl.mainBlock a cur s p =
      (if Rtl.part cur a.maxWord (a.opBits + a.r) a.outBits < a.m then
        if s.waitsm = false then
          (if p.outRecv.getD (Rtl.part cur a.maxWord (a.opBits + a.r) a.outBits) false = false then { s with waitsm := true } else s)
        else
          if p.outRecv.getD (Rtl.part cur a.maxWord (a.opBits + a.r) a.outBits) false then
            { s with auxo := s.auxo.set (Rtl.part cur a.maxWord (a.opBits + a.r) a.outBits) (s.regs.getD (Rtl.part cur a.maxWord a.opBits a.r) 0),
                     pc := (s.pc + 1) % 2 ^ a.o, waitsm := false }
          else { s with auxo := s.auxo.set (Rtl.part cur a.maxWord (a.opBits + a.r) a.outBits) (s.regs.getD (Rtl.part cur a.maxWord a.opBits a.r) 0) }
      else s) := by
  unfold Rtl.mainBlock
  simp only [h]
  rw [if_neg (by decide), if_neg (by decide), if_neg (by decide), if_neg (by decide), if_neg (by decide),
    if_neg (by decide), if_neg (by decide), if_neg (by decide), if_neg (by decide), if_neg (by decide), if_pos True.intro]

theorem mainBlock_i2rw {a : Arch} {cur : Nat} (s : RtlState) (p : PortsIn) (h : Rtl.curOp a cur = some "i2rw") :
    Rtl.mainBlock a cur s p =
      (if Rtl.part cur a.maxWord (a.opBits + a.r) a.inBits < a.n ∧
          p.inValid.getD (Rtl.part cur a.maxWord (a.opBits + a.r) a.inBits) false ∧
          s.iRecv.getD (Rtl.part cur a.maxWord (a.opBits + a.r) a.inBits) false = false then
        { s with pc := (s.pc + 1) % 2 ^ a.o,
                 regs := s.regs.set (Rtl.part cur a.maxWord a.opBits a.r) (p.inputs.getD (Rtl.part cur a.maxWord (a.opBits + a.r) a.inBits) 0) }
      else s) := by
  unfold Rtl.mainBlock
  simp only [h]
  rw [if_neg (by decide), if_neg (by decide), if_neg (by decide), if_neg (by decide), if_neg (by decide),
    if_neg (by decide), if_neg (by decide), if_neg (by decide), if_neg (by decide), if_pos True.intro]

/-- only `r2owa` writes `waitsm` -/
theorem mainBlock_waitsm {a : Arch} {cur : Nat} (s : RtlState) (p : PortsIn) (h : Rtl.curOp a cur ≠ some "r2owa") :
    (Rtl.mainBlock a cur s p).waitsm = s.waitsm := by
  unfold Rtl.mainBlock
  simp only
  cases hc : Rtl.curOp a cur with
  | none => rfl
  | some op =>
    have hop : op ≠ "r2owa" := fun e => h (by rw [hc, e])
    simp only
    by_cases h1 : op = "nop"
    · rw [if_pos h1]
    rw [if_neg h1]
    by_cases h2 : op = "rset"
    · rw [if_pos h2]
    rw [if_neg h2]
    by_cases h3 : op ∈ Rtl.unops
    · rw [if_pos h3]
    rw [if_neg h3]
    by_cases h4 : op ∈ Rtl.binops
    · rw [if_pos h4]
    rw [if_neg h4]
    by_cases h4b : op ∈ Rtl.pipeOps
    · rw [if_pos h4b]
      simp only [RtlState.setPipe]
      (repeat' split) <;> rfl
    rw [if_neg h4b]
    by_cases h5 : op = "j"
    · rw [if_pos h5]
    rw [if_neg h5]
    by_cases h6 : op = "jz"
    · rw [if_pos h6]; split <;> rfl
    rw [if_neg h6]
    by_cases h7 : op = "i2r"
    · rw [if_pos h7]; split <;> rfl
    rw [if_neg h7]
    by_cases h8 : op = "r2o"
    · rw [if_pos h8]; split <;> rfl
    rw [if_neg h8]
    by_cases h9 : op = "i2rw"
    · rw [if_pos h9]; split <;> rfl
    rw [if_neg h9, if_neg hop]

theorem cycle_oVal (a : Arch) (prog : List Bits) (s : RtlState) (p : PortsIn) (o : Nat) (ho : o < a.m) :
    (Rtl.cycle a prog s p).oVal.getD o false = Rtl.valBlock a (Rtl.fetch prog s.pc) s p o := by
  simp [Rtl.cycle, List.getD_eq_getElem?_getD, List.getElem?_map, List.getElem?_range ho]

theorem cycle_iRecv (a : Arch) (prog : List Bits) (s : RtlState) (p : PortsIn) (k : Nat) (hk : k < a.n) :
    (Rtl.cycle a prog s p).iRecv.getD k false = Rtl.recvBlock a (Rtl.fetch prog s.pc) s p k := by
  simp [Rtl.cycle, List.getD_eq_getElem?_getD, List.getElem?_map, List.getElem?_range hk]

theorem cycle_main (a : Arch) (prog : List Bits) (s : RtlState) (p : PortsIn) :
    (Rtl.cycle a prog s p).pc = (Rtl.mainBlock a (Rtl.fetch prog s.pc) s p).pc ∧
    (Rtl.cycle a prog s p).waitsm = (Rtl.mainBlock a (Rtl.fetch prog s.pc) s p).waitsm := ⟨rfl, rfl⟩

/-! ### one agent of a bond, one clock -/

def rtlAtR2owa (a : Arch) (prog : List Bits) (pc o : Nat) : Bool :=
  Rtl.curOp a (Rtl.fetch prog pc) == some "r2owa" &&
    Rtl.part (Rtl.fetch prog pc) a.maxWord (a.opBits + a.r) a.outBits == o

def rtlAtI2rw (a : Arch) (prog : List Bits) (pc k : Nat) : Bool :=
  Rtl.curOp a (Rtl.fetch prog pc) == some "i2rw" &&
    Rtl.part (Rtl.fetch prog pc) a.maxWord (a.opBits + a.r) a.inBits == k

/-- `waitsm` is up only while the processor sits at an `r2owa` with an existing output -/
def WInv (a : Arch) (prog : List Bits) (s : RtlState) : Prop :=
  s.waitsm = true → Rtl.curOp a (Rtl.fetch prog s.pc) = some "r2owa" ∧
    Rtl.part (Rtl.fetch prog s.pc) a.maxWord (a.opBits + a.r) a.outBits < a.m

theorem winv_reset (a : Arch) (prog : List Bits) : WInv a prog (Rtl.reset a) := by
  intro h; simp [Rtl.reset] at h

theorem winv_cycle (a : Arch) (prog : List Bits) (s : RtlState) (p : PortsIn) (h : WInv a prog s) :
    WInv a prog (Rtl.cycle a prog s p) := by
  intro hw
  rw [(cycle_main a prog s p).2] at hw
  rw [(cycle_main a prog s p).1]
  by_cases hc : Rtl.curOp a (Rtl.fetch prog s.pc) = some "r2owa"
  · rw [mainBlock_r2owa s p hc] at hw ⊢
    split at hw
    · rename_i hlt
      rw [if_pos hlt]
      split at hw
      · rename_i hws
        rw [if_pos hws]
        split at hw
        · rename_i hr; rw [if_pos hr]; exact ⟨hc, hlt⟩
        · rw [hws] at hw; cases hw
      · rename_i hws
        rw [if_neg hws]
        split at hw
        · cases hw
        · rename_i hr; rw [if_neg hr]; exact ⟨hc, hlt⟩
    · rename_i hlt
      rw [if_neg hlt]
      exact h hw
  · rw [mainBlock_waitsm s p hc] at hw
    exact absurd (h hw).1 hc

/-- output port `o` of a processor as the producer of C04's hardware model, one clock -/
theorem rtl_prod_step (a : Arch) (prog : List Bits) (o : Nat) (ho : o < a.m) (s : RtlState) (p : PortsIn)
    (hsA hsW hsO : Bool) (hO : hsO = s.oVal.getD o false)
    (hW : hsW = (s.waitsm && rtlAtR2owa a prog s.pc o)) (hA : hsA = true → rtlAtR2owa a prog s.pc o = true)
    (hinv : WInv a prog s) (hno : Rtl.curOp a (Rtl.fetch prog s.pc) ≠ some "r2o") :
    let rIn := p.outRecv.getD o false
    let ex := hsA || rtlAtR2owa a prog s.pc o
    let s' := Rtl.cycle a prog s p
    s'.oVal.getD o false =
      (if ex = true then (if hsW = false then (if rIn = true then false else hsO) else true)
       else (if rIn = true then false else hsO)) ∧
    (s'.waitsm && rtlAtR2owa a prog s'.pc o) =
      (if ex = true then (if hsW = false then !rIn else (if rIn = true then false else true)) else hsW) ∧
    ((if ex = true then (if hsW = false then true else if rIn = true then false else true) else hsA) = true →
      rtlAtR2owa a prog s'.pc o = true) := by
  intro rIn ex s'
  have hov : s'.oVal.getD o false = Rtl.valBlock a (Rtl.fetch prog s.pc) s p o := cycle_oVal a prog s p o ho
  have hpc : s'.pc = (Rtl.mainBlock a (Rtl.fetch prog s.pc) s p).pc := rfl
  have hwm : s'.waitsm = (Rtl.mainBlock a (Rtl.fetch prog s.pc) s p).waitsm := rfl
  by_cases hex : rtlAtR2owa a prog s.pc o = true
  · -- executing r2owa on this output
    have hexv : ex = true := by show (hsA || rtlAtR2owa a prog s.pc o) = true; rw [hex]; simp
    unfold rtlAtR2owa at hex
    simp only [Bool.and_eq_true, beq_iff_eq] at hex
    obtain ⟨hc, hsel⟩ := hex
    have hat' : ∀ pc', pc' = s.pc → rtlAtR2owa a prog pc' o = true := by
      intro pc' e; subst e; unfold rtlAtR2owa; simp [hc, hsel]
    rw [hexv, if_pos rfl, if_pos rfl, if_pos rfl]
    rw [hov, hpc, hwm, mainBlock_r2owa s p hc, hsel, if_pos ho]
    have hvb : Rtl.valBlock a (Rtl.fetch prog s.pc) s p o =
        (if s.waitsm then true else (if rIn then false else hsO)) := by
      unfold Rtl.valBlock
      simp only [hc, hsel, if_true, hO]
      rfl
    rw [hvb]
    have hWs : hsW = s.waitsm := by rw [hW, hat' _ rfl]; simp
    rw [hWs]
    cases hws : s.waitsm with
    | false =>
      simp only [if_true, Bool.false_eq_true, if_false]
      cases hr : rIn with
      | false =>
        have : p.outRecv.getD o false = false := hr
        simp only [this, if_true, Bool.false_eq_true, if_false, Bool.not_false, Bool.true_and]
        exact ⟨trivial, hat' _ rfl, fun _ => hat' _ rfl⟩
      | true =>
        have : p.outRecv.getD o false = true := hr
        simp only [this, Bool.true_eq_false, if_false, if_true, hws, Bool.false_and, Bool.not_true]
        exact ⟨trivial, trivial, fun _ => hat' _ rfl⟩
    | true =>
      simp only [Bool.true_eq_false, if_false, if_true]
      cases hr : rIn with
      | false =>
        have : p.outRecv.getD o false = false := hr
        simp only [this, Bool.false_eq_true, if_false, hws, Bool.true_and]
        exact ⟨trivial, hat' _ rfl, fun _ => hat' _ rfl⟩
      | true =>
        have : p.outRecv.getD o false = true := hr
        simp only [this, if_true, Bool.false_and]
        exact ⟨trivial, trivial, fun hh => by cases hh⟩
  · -- busy with another instruction
    have hex' : rtlAtR2owa a prog s.pc o = false := by cases h : rtlAtR2owa a prog s.pc o <;> simp_all
    have hAf : hsA = false := by
      cases h : hsA
      · rfl
      · exact absurd (hA h) hex
    have hWf : hsW = false := by rw [hW, hex']; simp
    have hexv : ex = false := by show (hsA || rtlAtR2owa a prog s.pc o) = false; rw [hAf, hex']; rfl
    rw [hexv, hAf, hWf]
    simp only [Bool.false_eq_true, if_false]
    refine ⟨?_, ?_, fun hh => by cases hh⟩
    · rw [hov, hO]
      unfold Rtl.valBlock
      simp only
      cases hc : Rtl.curOp a (Rtl.fetch prog s.pc) with
      | none => rfl
      | some op =>
        by_cases h1 : op = "r2owa"
        · subst h1
          have hsel : Rtl.part (Rtl.fetch prog s.pc) a.maxWord (a.opBits + a.r) a.outBits ≠ o := by
            intro e
            unfold rtlAtR2owa at hex'
            simp [hc, e] at hex'
          simp only [hsel, if_false]
          rfl
        · by_cases h2 : op = "r2o"
          · subst h2; exact absurd hc hno
          · split
            · rename_i heq; simp only [Option.some.injEq] at heq; exact absurd heq h1
            · rename_i heq; simp only [Option.some.injEq] at heq; exact absurd heq h2
            · rfl
    · -- waitsm stays the business of another output
      cases hwn : s'.waitsm with
      | false => rfl
      | true =>
        have hi' := winv_cycle a prog s p hinv hwn
        -- the processor is (still) at an r2owa; it can only be the one it was at
        rw [Bool.true_and]
        by_cases hc : Rtl.curOp a (Rtl.fetch prog s.pc) = some "r2owa"
        · have hwm' := hwn
          rw [hwm, mainBlock_r2owa s p hc] at hwm'
          have hpc' : s'.pc = s.pc := by
            rw [hpc, mainBlock_r2owa s p hc]
            by_cases hlt : Rtl.part (Rtl.fetch prog s.pc) a.maxWord (a.opBits + a.r) a.outBits < a.m
            · rw [if_pos hlt] at hwm' ⊢
              by_cases hws : s.waitsm = false
              · rw [if_pos hws]; split <;> rfl
              · rw [if_neg hws] at hwm' ⊢
                by_cases hr : p.outRecv.getD (Rtl.part (Rtl.fetch prog s.pc) a.maxWord (a.opBits + a.r) a.outBits) false = true
                · rw [if_pos hr] at hwm'; cases hwm'
                · rw [if_neg hr]
            · rw [if_neg hlt]
          rw [hpc', hex']
        · rw [hwm, mainBlock_waitsm s p hc] at hwn
          exact absurd (hinv hwn).1 hc

theorem recvBlock_other {a : Arch} {cur : Nat} (s : RtlState) (p : PortsIn) (k : Nat) {op : String}
    (hco : Rtl.curOp a cur = some op) (h1 : op ≠ "i2rw") (h2 : op ≠ "i2r") :
    Rtl.recvBlock a cur s p k = (p.inValid.getD k false && s.iRecv.getD k false) := by
  unfold Rtl.recvBlock
  simp only [hco]
  split
  · rename_i heq; simp only [Option.some.injEq] at heq; exact absurd heq h1
  · rename_i heq; simp only [Option.some.injEq] at heq; exact absurd heq h2
  · cases p.inValid.getD k false <;> simp

/-- input port `k` of a processor as a consumer of C04's hardware model, one clock -/
theorem rtl_cons_step (a : Arch) (prog : List Bits) (k : Nat) (hk : k < a.n) (s : RtlState) (p : PortsIn)
    (hc : Hs.Rtl.Cons) (d : Nat) (hrecv : hc.recv = s.iRecv.getD k false)
    (hat : hc.atIO = true → rtlAtI2rw a prog s.pc k = true)
    (hno : Rtl.curOp a (Rtl.fetch prog s.pc) ≠ some "i2r") :
    let V := p.inValid.getD k false
    let hc' := Hs.Rtl.cstep V d (rtlAtI2rw a prog s.pc k) hc
    let s' := Rtl.cycle a prog s p
    hc'.recv = s'.iRecv.getD k false ∧ (hc'.atIO = true → rtlAtI2rw a prog s'.pc k = true) := by
  intro V hc' s'
  have hir : s'.iRecv.getD k false = Rtl.recvBlock a (Rtl.fetch prog s.pc) s p k := cycle_iRecv a prog s p k hk
  have hpc : s'.pc = (Rtl.mainBlock a (Rtl.fetch prog s.pc) s p).pc := rfl
  have hcs : hc' = (if hc.atIO || rtlAtI2rw a prog s.pc k then
        if V && !hc.recv then { atIO := false, recv := V, got := hc.got ++ [d] }
        else { hc with atIO := true, recv := V }
      else { hc with recv := if V then hc.recv else false }) := rfl
  rw [hcs, hir]
  by_cases hex : rtlAtI2rw a prog s.pc k = true
  · rw [hex, Bool.or_true, if_pos rfl]
    unfold rtlAtI2rw at hex
    simp only [Bool.and_eq_true, beq_iff_eq] at hex
    obtain ⟨hop, hsel⟩ := hex
    have hat' : ∀ pc', pc' = s.pc → rtlAtI2rw a prog pc' k = true := by
      intro pc' e; subst e; unfold rtlAtI2rw; simp [hop, hsel]
    have hrb : Rtl.recvBlock a (Rtl.fetch prog s.pc) s p k = V := by
      unfold Rtl.recvBlock
      simp only [hop, hsel, if_true]
      rfl
    rw [hrb]
    by_cases htake : (V && !hc.recv) = true
    · rw [if_pos htake]
      exact ⟨rfl, fun hh => by cases hh⟩
    · rw [if_neg htake]
      refine ⟨rfl, fun _ => hat' _ ?_⟩
      rw [hpc, mainBlock_i2rw s p hop, hsel]
      split
      · rename_i hcond
        exfalso
        apply htake
        have h2 : V = true := hcond.2.1
        have h3 : s.iRecv.getD k false = false := hcond.2.2
        rw [h2, hrecv, h3]; rfl
      · rfl
  · have hex' : rtlAtI2rw a prog s.pc k = false := by cases h : rtlAtI2rw a prog s.pc k <;> simp_all
    have hcat : hc.atIO = false := by
      cases h : hc.atIO
      · rfl
      · exact absurd (hat h) hex
    rw [hex', hcat]
    simp only [Bool.or_self, Bool.false_eq_true, if_false]
    refine ⟨?_, fun hh => by simp at hh⟩
    rw [hrecv]
    unfold Rtl.recvBlock
    simp only
    cases hco : Rtl.curOp a (Rtl.fetch prog s.pc) with
    | none => rfl
    | some op =>
      by_cases h1 : op = "i2rw"
      · subst h1
        have hsel : Rtl.part (Rtl.fetch prog s.pc) a.maxWord (a.opBits + a.r) a.inBits ≠ k := by
          intro e
          unfold rtlAtI2rw at hex'
          simp [hco, e] at hex'
        simp only [hsel, if_false]
        rfl
      · by_cases h2 : op = "i2r"
        · subst h2; exact absurd hco hno
        · have := recvBlock_other s p k hco h1 h2
          unfold Rtl.recvBlock at this
          simp only [hco] at this
          rw [this]
          show (if p.inValid.getD k false = true then _ else _) = _
          cases p.inValid.getD k false <;> simp

end BMV.Bm

namespace BMV.Hs.Rtl

theorem step_atIO (s : St) (sch : Sched) :
    (step s sch).atIO =
      if (s.atIO || sch.p) = true then
        (if s.waitsm = false then true
         else if (!s.cs.isEmpty && s.cs.all (·.recv)) = true then false else true)
      else s.atIO := by
  unfold step
  dsimp only
  cases hv : s.waitsm <;> cases ha : (s.atIO || sch.p) <;> cases hr : (!s.cs.isEmpty && s.cs.all (·.recv)) <;> simp_all

end BMV.Hs.Rtl

namespace BMV.Bm
open BMV BMV.Bits BMV.Topology

/-! ### a processor-to-processor bond of the hardware composition, projected onto C04's model -/

def hprocOf (h : HwState) (p : Nat) : RtlState := h.procs.getD p {}

/-- internal output `j` is output `o` of processor `q`, and only processor inputs are bonded to it -/
structure RtlProcBond (m : Machine) (j q o : Nat) : Prop where
  drv : m.topo.iout[j]? = some ⟨3, q, o⟩
  cons : ∀ b ∈ Bond.consumers m.topo j, b.kind = 2

/-- the handshake opcodes are the only IO opcodes of the machine (`r2o` / `i2r` write the same
    valid / recv registers without any protocol) -/
def HandshakeOnly (m : Machine) : Prop :=
  ∀ (p : Nat) (a : Arch), m.archs[p]? = some a → "r2o" ∉ a.ops ∧ "i2r" ∉ a.ops

def RtlBondRel (m : Machine) (j q o : Nat) (h : HwState) (hs : Hs.Rtl.St) : Prop :=
  hs.oVal = (hprocOf h q).oVal.getD o false ∧
  hs.waitsm = ((hprocOf h q).waitsm && rtlAtR2owa (archOf m q) (progOf m q) (hprocOf h q).pc o) ∧
  (hs.atIO = true → rtlAtR2owa (archOf m q) (progOf m q) (hprocOf h q).pc o = true) ∧
  hs.cs.length = (Bond.consumers m.topo j).length ∧
  ∀ (n : Nat) (b : Topology.Bond), (Bond.consumers m.topo j)[n]? = some b →
    (hs.cs.getD n {}).recv = (hprocOf h b.res).iRecv.getD b.ext false ∧
    ((hs.cs.getD n {}).atIO = true → rtlAtI2rw (archOf m b.res) (progOf m b.res) (hprocOf h b.res).pc b.ext = true)

def rtlBondSched (m : Machine) (j q o : Nat) (h : HwState) : Hs.Sched :=
  { p := rtlAtR2owa (archOf m q) (progOf m q) (hprocOf h q).pc o
    c := (Bond.consumers m.topo j).map fun b =>
      rtlAtI2rw (archOf m b.res) (progOf m b.res) (hprocOf h b.res).pc b.ext }

structure HwOk (m : Machine) (h : HwState) : Prop where
  len : h.procs.length = m.archs.length
  winv : ∀ (p : Nat) s a prog, h.procs[p]? = some s → m.archs[p]? = some a → m.progs[p]? = some prog → WInv a prog s

theorem curOp_mem {a : Arch} {cur : Nat} {op : String} (h : Rtl.curOp a cur = some op) : op ∈ a.ops :=
  List.mem_of_getElem? h

theorem findIdx?_of_nodup {l : List Topology.Bond} (hn : l.Nodup) {j : Nat} {b : Topology.Bond} (hj : l[j]? = some b) :
    l.findIdx? (· = b) = some j := by
  rw [List.findIdx?_eq_some_iff_getElem]
  have hlt : j < l.length := (List.getElem?_eq_some_iff.mp hj).1
  refine ⟨hlt, ?_, ?_⟩
  · have := (List.getElem?_eq_some_iff.mp hj).2
    simp [this]
  · intro j' hj'
    simp only [decide_eq_true_eq]
    intro e
    have h1 : l[j']? = some b := by rw [List.getElem?_eq_getElem (Nat.lt_trans hj' hlt), e]
    have := idx_unique hn h1 hj
    omega

theorem rtlCycle_get {m : Machine} {h : HwState} {e : EnvIn} {p : Nat} {s : RtlState} {a : Arch} {prog : List Bits}
    (hs : h.procs[p]? = some s) (ha : m.archs[p]? = some a) (hp : m.progs[p]? = some prog) :
    (rtlCycle m h e).procs[p]? = some (Rtl.cycle a prog s (portsIn m.topo h e p a)) := by
  unfold rtlCycle
  simp only [List.getElem?_map, List.getElem?_zipIdx, hs, Option.map_some, Nat.zero_add, ha, hp]

theorem rtlCycle_ok {m : Machine} {h : HwState} (e : EnvIn) (hm : MachineWF m) (hok : HwOk m h) : HwOk m (rtlCycle m h e) := by
  constructor
  · unfold rtlCycle; simp [hok.len]
  · intro p s' a prog hs' ha hp
    have hlt : p < h.procs.length := by
      rw [hok.len]; exact (List.getElem?_eq_some_iff.mp ha).1
    rw [rtlCycle_get (List.getElem?_eq_getElem hlt) ha hp] at hs'
    cases hs'
    exact winv_cycle a prog _ _ (hok.winv p _ a prog (List.getElem?_eq_getElem hlt) ha hp)

theorem hw_proc_of_endpoint {m : Machine} (hm : MachineWF m) {h : HwState} (hlen : h.procs.length = m.archs.length)
    {p : Nat} {nm : Nat × Nat} (hp : m.topo.procs[p]? = some nm) :
    ∃ s a prog, h.procs[p]? = some s ∧ m.archs[p]? = some a ∧ m.progs[p]? = some prog ∧ nm = (a.n, a.m) := by
  have hlt : p < m.topo.procs.length := (List.getElem?_eq_some_iff.mp hp).1
  have h1 : p < h.procs.length := by rw [hlen, hm.archs]; exact hlt
  have h2 : p < m.archs.length := by rw [hm.archs]; exact hlt
  have h3 : p < m.progs.length := by rw [hm.progs]; exact hlt
  refine ⟨h.procs[p], m.archs[p], m.progs[p], List.getElem?_eq_getElem h1, List.getElem?_eq_getElem h2,
    List.getElem?_eq_getElem h3, ?_⟩
  have := hm.ports p _ (List.getElem?_eq_getElem h2)
  rw [hp] at this
  exact Option.some.inj this

/-- **projection of one clock of the hardware composition onto one step of C04's bond model** -/
theorem rtl_bond_projects {m : Machine} (hm : MachineWF m) (hho : HandshakeOnly m) {j q o : Nat}
    (hb : RtlProcBond m j q o) {h : HwState} (e : EnvIn) (hok : HwOk m h)
    {hs : Hs.Rtl.St} (hrel : RtlBondRel m j q o h hs) :
    RtlBondRel m j q o (rtlCycle m h e) (Hs.Rtl.step hs (rtlBondSched m j q o h)) := by
  obtain ⟨hO, hW, hA, hcl, hcons⟩ := hrel
  have hwf := hm.wf
  -- the producer
  have hqo : ∃ nm, m.topo.procs[q]? = some nm ∧ o < nm.2 := by
    rcases (hwf.iout_mem _).mp (List.mem_of_getElem? hb.drv) with ⟨h0, _⟩ | ⟨_, nm, hp, ho⟩
    · simp at h0
    · exact ⟨nm, hp, ho⟩
  obtain ⟨nmq, hpq, hoq⟩ := hqo
  obtain ⟨sq, aq, progq, hsq, haq, hprq, hnmq⟩ := hw_proc_of_endpoint hm hok.len hpq
  have hoq' : o < aq.m := by rw [hnmq] at hoq; exact hoq
  have eaq : archOf m q = aq := getD_some haq
  have eprq : progOf m q = progq := getD_some hprq
  have esq : hprocOf h q = sq := getD_some hsq
  have esq' : hprocOf (rtlCycle m h e) q = Rtl.cycle aq progq sq (portsIn m.topo h e q aq) :=
    getD_some (rtlCycle_get hsq haq hprq)
  -- the consumers
  have hcon : ∀ b, b ∈ Bond.consumers m.topo j → ∃ sc ac progc, b = ⟨2, b.res, b.ext⟩ ∧ h.procs[b.res]? = some sc ∧
      m.archs[b.res]? = some ac ∧ m.progs[b.res]? = some progc ∧ b.ext < ac.n ∧
      Bond.driverOf m.topo ⟨2, b.res, b.ext⟩ = some ⟨3, q, o⟩ := by
    intro b hbm
    have hk2 := hb.cons b hbm
    have hbond := (Bond.mem_consumers hwf hb.drv).mp hbm
    have hbi : b ∈ m.topo.iin := bond_sink_mem hbond
    have heta : b = ⟨2, b.res, b.ext⟩ := by cases b; simp_all
    have hck : ∃ nm, m.topo.procs[b.res]? = some nm ∧ b.ext < nm.1 := by
      rcases (hwf.iin_mem _).mp hbi with ⟨h0, _⟩ | ⟨_, nm, hp, hk⟩
      · omega
      · exact ⟨nm, hp, hk⟩
    obtain ⟨nm, hp, hk⟩ := hck
    obtain ⟨sc, ac, progc, hsc, hac, hprc, hnm⟩ := hw_proc_of_endpoint hm hok.len hp
    refine ⟨sc, ac, progc, heta, hsc, hac, hprc, by rw [hnm] at hk; exact hk, ?_⟩
    rw [← heta]
    exact (Bond.driverOf_iff_bond hwf hbi).mpr hbond
  -- what the producer is shown as `received`
  have hrin : (portsIn m.topo h e q aq).outRecv.getD o false = (!hs.cs.isEmpty && hs.cs.all (·.recv)) := by
    unfold portsIn
    simp only [List.getD_eq_getElem?_getD, List.getElem?_map, List.getElem?_range hoq', Option.map_some, Option.getD_some]
    have : idxOfOut m.topo ⟨3, q, o⟩ = some j := findIdx?_of_nodup hwf.iout_nodup hb.drv
    rw [this]
    unfold hwRecv
    simp only
    congr 1
    · have hie : hs.cs.isEmpty = (Bond.consumers m.topo j).isEmpty := by
        cases h1 : hs.cs <;> cases h2 : Bond.consumers m.topo j <;> simp [h1, h2] at hcl ⊢
      rw [hie]
    · symm
      apply all_congr_idx _ _ _ _ hcl
      intro n x b hx hbn
      have := (hcons n b hbn).1
      rw [getD_some hx] at this
      rw [this]
      have hk2 := hb.cons b (List.mem_of_getElem? hbn)
      unfold hwSinkRecv hprocOf
      simp [hk2]
  have hnor : Rtl.curOp aq (Rtl.fetch progq sq.pc) ≠ some "r2o" := fun hc => (hho q aq haq).1 (curOp_mem hc)
  obtain ⟨p1, p2, p3⟩ := rtl_prod_step aq progq o hoq' sq (portsIn m.topo h e q aq) hs.atIO hs.waitsm hs.oVal
    (by rw [hO, esq]) (by rw [hW, esq, eaq, eprq]) (by rw [← esq, ← eaq, ← eprq]; exact hA)
    (hok.winv q sq aq progq hsq haq hprq) hnor
  rw [hrin] at p1 p2 p3
  have hschp : (rtlBondSched m j q o h).p = rtlAtR2owa aq progq sq.pc o := by
    simp only [rtlBondSched, eaq, eprq, esq]
  refine ⟨?_, ?_, ?_, ?_, ?_⟩
  · rw [Hs.Rtl.step_oVal, esq', p1, hschp]
    cases hs.atIO <;> cases rtlAtR2owa aq progq sq.pc o <;> cases hs.waitsm <;>
      cases (!hs.cs.isEmpty && hs.cs.all (·.recv)) <;> simp
  · rw [Hs.Rtl.step_waitsm, esq', eaq, eprq, p2, hschp]
  · rw [Hs.Rtl.step_atIO, esq', eaq, eprq, hschp]
    intro hh
    apply p3
    revert hh
    cases hs.atIO <;> cases rtlAtR2owa aq progq sq.pc o <;> cases hs.waitsm <;>
      cases (!hs.cs.isEmpty && hs.cs.all (·.recv)) <;> simp
  · rw [Hs.Rtl.step_cs_length]; exact hcl
  · intro n b hbn
    obtain ⟨sc, ac, progc, heta, hsc, hac, hprc, hk, hdrv⟩ := hcon b (List.mem_of_getElem? hbn)
    have hn : n < hs.cs.length := by rw [hcl]; exact (List.getElem?_eq_some_iff.mp hbn).1
    have eac : archOf m b.res = ac := getD_some hac
    have eprc : progOf m b.res = progc := getD_some hprc
    have esc : hprocOf h b.res = sc := getD_some hsc
    have esc' : hprocOf (rtlCycle m h e) b.res = Rtl.cycle ac progc sc (portsIn m.topo h e b.res ac) :=
      getD_some (rtlCycle_get hsc hac hprc)
    have hV : (portsIn m.topo h e b.res ac).inValid.getD b.ext false = hs.oVal := by
      unfold portsIn
      simp only [List.getD_eq_getElem?_getD, List.getElem?_map, List.getElem?_range hk, Option.map_some, Option.getD_some]
      rw [show driverOf m.topo ⟨2, b.res, b.ext⟩ = some ⟨3, q, o⟩ from hdrv]
      simp only [hwValid]
      rw [hO]
      simp [hprocOf]
    have hnoi : Rtl.curOp ac (Rtl.fetch progc sc.pc) ≠ some "i2r" := fun hc => (hho b.res ac hac).2 (curOp_mem hc)
    obtain ⟨hr0, ha0⟩ := hcons n b hbn
    rw [esc] at hr0
    rw [eac, eprc, esc] at ha0
    obtain ⟨c1, c2⟩ := rtl_cons_step ac progc b.ext hk sc (portsIn m.topo h e b.res ac) (hs.cs.getD n {}) hs.auxo hr0 ha0 hnoi
    rw [hV] at c1 c2
    have hget := Hs.Rtl.step_cs_get hs (rtlBondSched m j q o h) n hn
    have hw : Hs.wantOf (rtlBondSched m j q o h) hs.cs.length n = rtlAtI2rw ac progc sc.pc b.ext := by
      unfold Hs.wantOf rtlBondSched
      simp only
      rw [List.getElem?_append_left (by simp; rw [← hcl]; exact hn), List.getElem?_map, hbn]
      simp only [Option.map_some, Option.getD_some, eac, eprc, esc]
    have hcn : hs.cs[n] = hs.cs.getD n {} := by
      rw [List.getD_eq_getElem?_getD, List.getElem?_eq_getElem hn]; rfl
    rw [getD_some hget, hw, hcn, esc', eac, eprc]
    exact ⟨c1, c2⟩

/-! ### runs -/

/-- the hardware composition driven by an arbitrary sequence of external stimuli (one per clock) -/
def runHw (m : Machine) : List EnvIn → HwState → HwState
  | [], h => h
  | e :: es, h => runHw m es (rtlCycle m h e)

theorem hwInit_ok (m : Machine) : HwOk m (hwInit m) := by
  constructor
  · simp [hwInit]
  · intro p s a prog hs ha _
    simp only [hwInit, List.getElem?_map, ha, Option.map_some, Option.some.injEq] at hs
    subst hs
    exact winv_reset a prog

theorem hwInit_rel (m : Machine) (j q o : Nat) :
    RtlBondRel m j q o (hwInit m) (Hs.Rtl.init (Bond.consumers m.topo j).length) := by
  have hz : ∀ (c k : Nat), (hprocOf (hwInit m) c).oVal.getD k false = false ∧
      (hprocOf (hwInit m) c).iRecv.getD k false = false ∧ (hprocOf (hwInit m) c).waitsm = false := by
    intro c k
    simp only [hprocOf, hwInit, List.getD_eq_getElem?_getD, List.getElem?_map]
    cases m.archs[c]? with
    | none => simp
    | some a =>
      simp only [Option.map_some, Option.getD_some, Rtl.reset, List.getElem?_replicate]
      refine ⟨?_, ?_, trivial⟩ <;> split <;> rfl
  refine ⟨?_, ?_, fun h => by simp [Hs.Rtl.init] at h, by simp [Hs.Rtl.init], ?_⟩
  · show false = _; rw [(hz q o).1]
  · show false = _; rw [(hz q o).2.2]; rfl
  · intro n b hb
    have hn : n < (Bond.consumers m.topo j).length := (List.getElem?_eq_some_iff.mp hb).1
    have : (Hs.Rtl.init (Bond.consumers m.topo j).length).cs.getD n {} = {} := by
      simp [Hs.Rtl.init, List.getD_eq_getElem?_getD, List.getElem?_replicate, hn]
    rw [this]
    refine ⟨?_, fun h => by cases h⟩
    show false = _; rw [(hz b.res b.ext).2.1]

/-- **every run of the hardware composition, under any external stimulus, projects bond by bond
    onto a run of C04's hardware handshake model** -/
theorem rtl_bond_run_projects {m : Machine} (hm : MachineWF m) (hho : HandshakeOnly m) {j q o : Nat}
    (hb : RtlProcBond m j q o) (es : List EnvIn) (h : HwState) (hs : Hs.Rtl.St) (hok : HwOk m h)
    (hrel : RtlBondRel m j q o h hs) :
    ∃ schs, schs.length = es.length ∧ HwOk m (runHw m es h) ∧ RtlBondRel m j q o (runHw m es h) (Hs.Rtl.run hs schs) := by
  induction es generalizing h hs with
  | nil => exact ⟨[], rfl, hok, hrel⟩
  | cons e es ih =>
    have hrel1 := rtl_bond_projects hm hho hb e hok hrel
    obtain ⟨schs, hl, hok', hrel'⟩ := ih _ _ (rtlCycle_ok e hm hok) hrel1
    exact ⟨rtlBondSched m j q o h :: schs, by simp [hl], hok', by simpa [Hs.Rtl.run, runHw] using hrel'⟩

theorem runRtl_is_runHw (m : Machine) (spec : EnvSpec) (n : Nat) (x : HwState × EnvSt × Bool) :
    ∃ es, es.length = n ∧ (runRtl m spec n x).1 = runHw m es x.1 := by
  induction n generalizing x with
  | zero => exact ⟨[], rfl, rfl⟩
  | succ n ih =>
    obtain ⟨h, env, hz⟩ := x
    simp only [runRtl]
    obtain ⟨es, hl, hr⟩ := ih (rtlCycle m h (envDrive (envStep spec env (observeHw m.topo h (envDrive env)))),
      envStep spec env (observeHw m.topo h (envDrive env)),
      hz || bmRtlHazard m h (envDrive (envStep spec env (observeHw m.topo h (envDrive env)))))
    exact ⟨envDrive (envStep spec env (observeHw m.topo h (envDrive env))) :: es, by simp [hl], by rw [hr]; rfl⟩

end BMV.Bm
