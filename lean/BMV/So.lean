/-
  BMV.So — model of the shared-object header / port functions of /repo (C18):

    pkg/procbuilder/shr_*.go     Sharedel.GetArchHeader / GetArchParams / GetCPParams
                                 (port list + declarations of the arch module aN and the processor pN)
    pkg/bondmachine/shr_*.go     Shared_instance.GetPerProcPortsHeader / GetPerProcPortsWires /
                                 GetCPSharedPortsHeader / GetCPSharedPortsWires
                                 (connection list of `aN aN_inst(...)` in bondmachine.v + its wires)
                                 and the header of the shared object's own module (`Write_verilog`)
                                 against its instance `soK soK_inst (...)` in bondmachine.v

  Every Go function is modelled by its own literal list (they are written independently in /repo;
  that they agree is the theorem `so_ports_agree`, BMV.Props.C18).  A name is `prefix ++ suffix`:
  the prefix (`br0`, `p1br0`, `p0`) depends on numbers, the suffix list is a literal per kind.
  Modelled kinds: barrier, channel, sharedmem, queue, stack, lfsr8.  Unmodelled: kbd, uart, vtextmem.
  Core-only.
-/
namespace BMV.So

inductive Kind where
  | barrier | channel | sharedmem | queue | stack | lfsr8
deriving Repr, DecidableEq, Inhabited

def Kind.all : List Kind := [.barrier, .channel, .sharedmem, .queue, .stack, .lfsr8]

/-- `Shr_get_name` -/
def Kind.name : Kind → String
  | .barrier => "barrier" | .channel => "channel" | .sharedmem => "sharedmem"
  | .queue => "queue" | .stack => "stack" | .lfsr8 => "lfsr8"

def Kind.ofName? (s : String) : Option Kind := Kind.all.find? (·.name == s)

/-- `Shortname` -/
def Kind.short : Kind → String
  | .barrier => "br" | .channel => "ch" | .sharedmem => "sh"
  | .queue => "q" | .stack => "st" | .lfsr8 => "lfsr8"

/-- which of the kind's opcodes the processor has: `send` = r2q / r2t, `recv` = q2r / t2r
    (only queue and stack look at them) -/
structure Caps where
  send : Bool
  recv : Bool
deriving Repr, DecidableEq, Inhabited

inductive Width where
  | one | rsize | fixed (n : Nat)
deriving Repr, DecidableEq, Inhabited

def Width.bits (rsize : Nat) : Width → Nat
  | .one => 1 | .rsize => rsize | .fixed n => n

/-- a declared port: suffix of its name, direction seen from the processor (`out = true`: the
    processor drives it), width -/
structure Port where
  suffix : String
  out : Bool
  w : Width
deriving Repr, DecidableEq, Inhabited

/-! ## pkg/procbuilder/shr_*.go -/

/-- `GetArchHeader`: suffixes of the header names, in port order (prefix `<short><seq>`) -/
def archHeader : Kind → Caps → List String
  | .barrier, _ => ["hit", "ishitted", "tout"]
  | .channel, _ => ["in", "wwr", "wrd", "ack_ch_ready", "op_check_ready", "finish_channel", "out",
                    "ack_wwr", "ack_wrd", "ch_ready", "ch_w_r_ready"]
  | .sharedmem, _ => ["din", "dout", "addr", "wren", "en"]
  | .queue, c | .stack, c =>
    (if c.send then ["senderData", "senderWrite", "senderAck"] else []) ++
    (if c.recv then ["receiverData", "receiverRead", "receiverAck"] else []) ++ ["empty", "full"]
  | .lfsr8, _ => ["out"]

/-- `GetArchParams`: the declarations in the arch module, in text order -/
def archParams : Kind → Caps → List Port
  | .barrier, _ => [⟨"hit", true, .one⟩, ⟨"ishitted", false, .one⟩, ⟨"tout", false, .one⟩]
  | .channel, _ =>
    [⟨"in", true, .rsize⟩, ⟨"wwr", true, .one⟩, ⟨"wrd", true, .one⟩, ⟨"ack_ch_ready", true, .one⟩,
     ⟨"op_check_ready", true, .one⟩, ⟨"finish_channel", false, .one⟩, ⟨"out", false, .rsize⟩,
     ⟨"ack_wwr", false, .one⟩, ⟨"ack_wrd", false, .one⟩, ⟨"ch_ready", false, .one⟩,
     ⟨"ch_w_r_ready", false, .fixed 2⟩]
  | .sharedmem, _ =>
    [⟨"din", true, .rsize⟩, ⟨"addr", true, .rsize⟩, ⟨"wren", true, .one⟩, ⟨"en", true, .one⟩,
     ⟨"dout", false, .rsize⟩]
  | .queue, c | .stack, c =>
    (if c.send then [⟨"senderData", true, .rsize⟩, ⟨"senderWrite", true, .one⟩, ⟨"senderAck", false, .one⟩] else []) ++
    (if c.recv then [⟨"receiverData", false, .rsize⟩, ⟨"receiverRead", true, .one⟩, ⟨"receiverAck", false, .one⟩] else []) ++
    [⟨"empty", false, .one⟩, ⟨"full", false, .one⟩]
  | .lfsr8, _ => [⟨"out", false, .fixed 8⟩]

/-- `GetCPParams`: the port declarations in the processor module (the helper wires / assigns it also
    emits are not ports and not modelled) -/
def cpParams : Kind → Caps → List Port
  | .barrier, c => archParams .barrier c            -- `GetCPParams` calls `GetArchParams`
  | .channel, c => archParams .channel c            -- the same eleven lines, written again
  | .sharedmem, c => archParams .sharedmem c
  | .queue, c => archParams .queue c                -- `output reg` instead of `output`: same dir / width
  | .stack, c => archParams .stack c
  | .lfsr8, c => archParams .lfsr8 c

/-! ## pkg/bondmachine/shr_*.go -/

/-- `GetPerProcPortsHeader`: suffixes of the connection names (prefix `p<proc><soName>`) -/
def perProcHeader : Kind → Caps → List String
  | .barrier, _ => ["hit", "ishitted", "tout"]
  | .channel, _ => ["chin", "w2w", "w2r", "ack_ch_ready", "op_check_ready", "finish_channel", "chout",
                    "ack_w2w", "ack_w2r", "ch_ready", "ch_w_r_ready"]
  | .sharedmem, _ => ["din", "dout", "addr", "wren", "en"]
  | .queue, c | .stack, c =>
    (if c.send then ["senderData", "senderWrite", "senderAck"] else []) ++
    (if c.recv then ["receiverData", "receiverRead", "receiverAck"] else [])
  | .lfsr8, _ => ["out"]

/-- `GetPerProcPortsWires`: the wires declared in bondmachine.v for these connections -/
def perProcWires : Kind → Caps → List (String × Width)
  | .barrier, _ => [("hit", .one), ("ishitted", .one), ("tout", .one)]
  | .channel, _ =>
    [("chin", .rsize), ("w2w", .one), ("w2r", .one), ("ack_ch_ready", .one), ("op_check_ready", .one),
     ("finish_channel", .one), ("chout", .rsize), ("ack_w2w", .one), ("ack_w2r", .one), ("ch_ready", .one),
     ("ch_w_r_ready", .fixed 2)]
  | .sharedmem, _ => [("din", .rsize), ("dout", .rsize), ("addr", .rsize), ("wren", .one), ("en", .one)]
  | .queue, c | .stack, c =>
    (if c.send then [("senderData", .rsize), ("senderWrite", .one), ("senderAck", .one)] else []) ++
    (if c.recv then [("receiverData", .rsize), ("receiverRead", .one), ("receiverAck", .one)] else [])
  | .lfsr8, _ => [("out", .fixed 8)]

/-- `GetCPSharedPortsHeader` (prefix `<soName>`): ports every attached processor shares -/
def cpSharedHeader : Kind → List String
  | .queue | .stack => ["empty", "full"]
  | _ => []

/-- `GetCPSharedPortsWires` -/
def cpSharedWires : Kind → List (String × Width)
  | .queue | .stack => [("empty", .one), ("full", .one)]
  | _ => []

/-- the connection list of `aN aN_inst(…)` for one attached shared object, with the widths of the
    wires that are connected -/
def topConns (k : Kind) (c : Caps) : List (String × Width) := perProcWires k c ++ cpSharedWires k

/-- the declaration with the given suffix -/
def declOf (ps : List Port) (s : String) : Option Port := ps.find? (·.suffix == s)

/-- position `i`: the wire connected at top level and the arch / processor port agree
    (same width; declared in both modules with the same direction) -/
def slotAgrees (k : Kind) (c : Caps) (conn : String × Width) (hdr : String) : Bool :=
  match declOf (archParams k c) hdr, declOf (cpParams k c) hdr with
  | some pa, some pc => pa.w == conn.2 && pc.w == pa.w && pc.out == pa.out
  | _, _ => false

def slotsAgree (k : Kind) (c : Caps) : List (String × Width) → List String → Bool
  | [], [] => true
  | conn :: cs, h :: hs => slotAgrees k c conn h && slotsAgree k c cs hs
  | _, _ => false

/-! ## the shared object's own module against its instance in bondmachine.v

  An element of either list is a *slot* `(processor, role)`; the names are generated from the slots
  (`instName`, `moduleName`), so equal slot lists ⇔ the positional connection is the intended one. -/

structure Slot where
  proc : Nat
  role : String
deriving Repr, DecidableEq, Inhabited

/-- an attached processor: its number, its position among the attached ones, its capabilities -/
structure Att where
  proc : Nat
  idx : Nat
  caps : Caps
deriving Repr, DecidableEq, Inhabited

def senderRoles : List String := ["senderData", "senderWrite", "senderAck"]
def receiverRoles : List String := ["receiverData", "receiverRead", "receiverAck"]

/-- `soK soK_inst (clk, reset, …)` in `Write_verilog_main`: `GetPerProcPortsHeader` of every attached
    processor in processor order, then `GetCPSharedPortsHeader` once (shared slots: `proc = 0`) -/
def instSlots (k : Kind) (atts : List Att) : List Slot :=
  (atts.flatMap fun a => (perProcHeader k a.caps).map fun r => ⟨a.proc, r⟩) ++
  (if atts.isEmpty then [] else (cpSharedHeader k).map fun r => ⟨0, r⟩)

/-- the port list of the module written by `<Kind>_instance.Write_verilog` (after `clk, reset`),
    with the roles named as the top level names them -/
def moduleSlots (k : Kind) (atts : List Att) : List Slot :=
  match k with
  | .barrier | .channel | .sharedmem =>
    atts.flatMap fun a => (perProcHeader k a.caps).map fun r => ⟨a.proc, r⟩
  | .queue | .stack =>
    -- bmstack template: all senders, then all receivers, then empty, full
    (atts.flatMap fun a => if a.caps.send then senderRoles.map fun r => ⟨a.proc, r⟩ else []) ++
    (atts.flatMap fun a => if a.caps.recv then receiverRoles.map fun r => ⟨a.proc, r⟩ else []) ++
    [⟨0, "empty"⟩, ⟨0, "full"⟩]
  | .lfsr8 =>                      -- one port `lfsr8out`, however many processors are attached
    match atts with
    | [] => []
    | a :: _ => [⟨a.proc, "out"⟩]

/-- role → port-name suffix inside the shared object's module -/
def moduleRoleName (k : Kind) (role : String) : String :=
  match k with
  | .queue | .stack =>
    let q := if k == .queue then "queue" else "stack"
    match role with
    | "senderData" => q ++ "_sendData" | "senderWrite" => q ++ "_sendWrite" | "senderAck" => q ++ "_sendAck"
    | "receiverData" => q ++ "_recvData" | "receiverRead" => q ++ "_recvRead" | "receiverAck" => q ++ "_recvAck"
    | r => r
  | .lfsr8 => "lfsr8out"
  | _ => role

/-- name of a module port: barrier / channel / sharedmem number the attached processors 0, 1, …
    (`idx`), queue / stack use the processor number; shared ports have no prefix -/
def modulePortName (k : Kind) (atts : List Att) (s : Slot) : String :=
  if (cpSharedHeader k).contains s.role || k == .lfsr8 then moduleRoleName k s.role else
  match k with
  | .queue | .stack => s!"p{s.proc}{moduleRoleName k s.role}"
  | _ =>
    let idx := ((atts.find? (·.proc == s.proc)).map (·.idx)).getD 0
    s!"p{idx}{s.role}"

/-- name of the wire connected at top level -/
def instConnName (k : Kind) (soName : String) (s : Slot) : String :=
  if (cpSharedHeader k).contains s.role then soName ++ s.role else s!"p{s.proc}{soName}{s.role}"

/-- the senders-first order of the queue / stack module coincides with the per-processor order of the
    instance iff no processor with a receiver port precedes a processor with a sender port -/
def sendersFirst : List Att → Bool
  | [] => true
  | a :: rest => (!a.caps.recv || rest.all fun b => !b.caps.send) && sendersFirst rest

end BMV.So
