import BMV.Audit
import BMV.Lines
import BMV.Topology
import BMV.Proofs.Topology
import BMV.Props.C10
