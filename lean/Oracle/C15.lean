/-
  Oracle for C15.  Reads the harness' stream (harness/cmd/c15) and prints the model's lines.

  text cases      T <hex>                       ->  R ...
  edit histories  H <id> / E <op> <arg> / J     ->  B ... / L ...
  simulations     S ... / M ... / U ... / G     ->  X / K / W / C lines of BMV.Simbox.Sim.simLoop with
                                                    `fabricStep`, and a verdict line
                                                    P ok | P fail <what>   = the property itself
                                                    evaluated on the *implementation's* K/W lines
  Strings travel as 'x' + hex of their UTF-8 bytes.
-/
import BMV.Simbox
import BMV.Lines
open BMV.Simbox BMV.Simbox.Sim BMV.Lines

def hexVal (c : Char) : Nat :=
  if c.isDigit then c.toNat - 48 else if 'a' ≤ c ∧ c ≤ 'f' then c.toNat - 87 else 0

def unhex (s : String) : String :=
  let cs := (s.toList.drop 1)
  let rec go : List Char → List UInt8
    | a :: b :: rest => (UInt8.ofNat (hexVal a * 16 + hexVal b)) :: go rest
    | _ => []
  match String.fromUTF8? (ByteArray.mk (go cs).toArray) with
  | some r => r
  | none => "�"

def hexDigit (n : Nat) : Char := if n < 10 then Char.ofNat (48 + n) else Char.ofNat (87 + n)

def enhex (s : String) : String :=
  "x" ++ String.ofList (s.toUTF8.toList.flatMap fun b => [hexDigit (b.toNat / 16), hexDigit (b.toNat % 16)])

def b01 (b : Bool) : String := if b then "1" else "0"

def ruleDump (r : Rule) : String :=
  s!"{r.timec.code}.{r.tick}.{r.action.code}.{enhex r.object}.{enhex r.extra}.{b01 r.suspended}"

def boxDump (b : Box) : String := ";".intercalate (b.map ruleDump)

def timecOfCode : Nat → Timec
  | 0 => .abs | 1 => .notime | 2 => .rel | 3 => .onValid | 4 => .onRecv | _ => .onExit
def actionOfCode : Nat → Action
  | 0 => .set | 1 => .get | 2 => .show | _ => .config

/-! ### simulation glue -/

/-- number formatting of bmnumbers for the types the generator uses (8-bit registers) -/
def toBase (b : Nat) (n : Nat) : String := String.ofList (Nat.toDigits b n)

def fmtVal (bits : Nat) (ty : String) (v : Nat) : String :=
  if ty = "hex" then s!"0x<{bits}>{toBase 16 v}"
  else if ty = "bin" then s!"0b<{bits}>{toBase 2 v}"
  else toString v

structure SimCase where
  id : String := ""
  ticks : Nat := 0
  stopOn : Option Nat := none
  report : Bool := false
  sh : Shape := ⟨8, 0, 0, []⟩
  topo : Topo := ⟨[], [], []⟩
  bondNames : List String := []
  rules : Box := []
  implK : List (Nat × List (String × Nat × Nat × Nat) × List (String × Nat × Nat × Nat)) := []  -- tick, pre, post
  implW : List (Nat × String) := []

def parseEnd (s : String) : End :=
  match s.splitOn "." with
  | [a, b, c] => ⟨nat! a, nat! b, nat! c⟩
  | _ => ⟨9, 0, 0⟩

def parseProc (s : String) : Nat × Nat × Nat :=
  match s.splitOn ":" with
  | [a, b, c] => (nat! a, nat! b, nat! c)
  | _ => (0, 0, 0)

/-- `i0:5:1:0` -/
def parseCell (s : String) : String × Nat × Nat × Nat :=
  match s.splitOn ":" with
  | [n, v, a, b] => (n, nat! v, nat! a, nat! b)
  | _ => ("?", 0, 0, 0)

def ioCells (sh : Shape) (vm : Vm) : String :=
  let ins := (List.range sh.nIn).map fun k =>
    s!"i{k}:{readD vm (.inReg k)}:{readD vm (.inValid k)}:{readD vm (.inRecv k)}"
  let outs := (List.range sh.nOut).map fun k =>
    s!"o{k}:{readD vm (.outReg k)}:{readD vm (.outValid k)}:{readD vm (.outRecv k)}"
  ",".intercalate (ins ++ outs)

def showLine (bits : Nat) (vals : List (Nat × String × Nat)) : String :=
  String.join (vals.map fun (_, ty, v) => fmtVal bits ty v ++ " ")

def csvRow (c : Compiled) (bits : Nat) (t : Nat) (vals : List (Nat × String × Nat)) : String :=
  let cells := (List.range c.gets.slots.length).map fun i =>
    match vals.find? (fun (j, _, _) => j == i) with
    | some (_, ty, v) => fmtVal bits ty v
    | none => ""
  ",".intercalate ((if c.conf.getTicks then [toString t] else []) ++ cells)

/-- the property itself on the implementation's dumps: at every tick the state handed to the
    machine step differs from the previous state exactly by the firing set rules (value, valid
    flag raised, received inputs no longer valid, nothing else) -/
def checkInjection (cs : SimCase) (c : Compiled) : Option String := Id.run do
  let mut prev : List (String × Nat × Nat × Nat) := []
  let mut first := true
  for (t, pre, post) in cs.implK do
    let fired := firing c.acts t
    for (name, v, va, rc) in pre do
      let (pv, pva, prc) := match prev.find? (fun (n, _, _, _) => n == name) with
        | some (_, a, b, d) => (a, b, d)
        | none => (0, 0, 0)
      let _ := first
      match resolve cs.sh name with
      | none => return some s!"t={t} unknown cell {name}"
      | some l =>
        let hit := fired.reverse.find? (fun a => a.loc == l)
        let expV := match hit with | some a => a.val | none => pv
        let isIn := match l with | .inReg _ => true | _ => false
        let expVa := if isIn then (if hit.isSome then 1 else if prc == 1 then 0 else pva) else pva
        -- the previous dump was taken before the loop acknowledged the outputs (recv := valid)
        let expRc := if isIn then prc else pva
        if v != expV then return some s!"t={t} {name} value {v} expected {expV}"
        if va != expVa then return some s!"t={t} {name} valid {va} expected {expVa}"
        if rc != expRc then return some s!"t={t} {name} recv {rc} expected {expRc}"
    prev := post
    first := false
  return none

/-- the model's lines for one compiled case -/
def simLines (cs : SimCase) (c : Compiled) : List String :=
  let bits := (wbits cs.sh.rsize).getD 8
  let tr := simLoop (fabricStep cs.topo) c cs.stopOn cs.report cs.ticks (initVm cs.sh cs.topo)
  let hdr := if cs.report then
      ["C hdr=" ++ ",".intercalate ((if c.conf.getTicks then ["tick"] else []) ++ c.gets.slots.map (·.name))]
    else []
  let body := tr.flatMap fun r =>
    (if r.shutdown then [] else [s!"K t={r.tick} pre={ioCells cs.sh r.pre} post={ioCells cs.sh r.stepped}"])
    ++ (if r.shown.isEmpty then [] else [s!"W after={if r.shutdown then r.tick - 1 else r.tick} vals={enhex (showLine bits r.shown)}"])
  let rows := tr.flatMap fun r =>
    match r.reported with | some vals => ["C row=" ++ csvRow c bits r.tick vals] | none => []
  let cls := match tr.getLast? with
    | some r => if r.fatal == 0 then "ok"
                else if r.fatal == 1 && hasZeroPeriod c.shows then "divzero"
                else if r.fatal == 2 && hasZeroPeriod c.gets && !(c.conf.getAll || c.conf.getAllInternal) then "divzero"
                else "fatal"
    | none => "ok"
  body ++ hdr ++ rows ++ ["X " ++ cls]

def runSim (cs : SimCase) : List String :=
  match compile cs.sh cs.bondNames cs.rules with
  | .error _ => ["X init", "P ok"]
  | .ok c =>
    let verdict := match checkInjection cs c with
      | none => "P ok"
      | some w => "P fail " ++ w
    -- "A" lines: what the model predicts when periodic set rules are compiled but never applied
    -- (the recorded defect); used only to recognise that defect's signature exactly
    let alt := if c.acts.any (·.periodic) then
        (simLines cs { c with acts := c.acts.filter (!·.periodic) }).map ("A " ++ ·)
      else []
    simLines cs c ++ [verdict] ++ alt

/-- documented short forms (`absolute:<t>:get|show:<obj>`, `on…:get|show:<obj>`): "if the extra
    parameter is omitted it defaults to unsigned", i.e. the short form denotes the same rule as the
    string with `:unsigned` appended -/
def longFormOf (str : String) : Option String :=
  match splitStr str with
  | [w0, _, _, _] => if w0 = "absolute" ∨ w0 = "relative" then some (str ++ ":unsigned") else none
  | [w0, _, _] => if w0 = "onvalid" ∨ w0 = "onrecv" ∨ w0 = "onexit" then some (str ++ ":unsigned") else none
  | _ => none

def shortFormVerdict (str : String) (r : Rule) : String :=
  match longFormOf str with
  | none => "na"
  | some l => if addStr l == some r then "ok" else "fail"

/-- the stored rule prints with the time-constraint keyword and the action word of the string -/
def keywordVerdict (str : String) (r : Rule) : String :=
  let ws := splitStr str
  let ps := ruleWords r
  let w0 := ws.headD ""
  let act := if w0 = "absolute" ∨ w0 = "relative" then ws.getD 2 "" else if w0 = "config" then "" else ws.getD 1 ""
  let pact := if w0 = "absolute" ∨ w0 = "relative" then ps.getD 2 "" else if w0 = "config" then "" else ps.getD 1 ""
  if ps.headD "" == w0 && act == pact then "ok" else "fail"

/-- the rule list the strings of a `# Q` line denote, with the text each rule was added as -/
structure QBox where
  box : Box := []
  src : List (String × Bool) := []

def qEdit (q : QBox) (e : String) : QBox :=
  match e.splitOn ":" with
  | [op, arg] =>
    if op = "add" then
      let str := unhex arg
      match add q.box str with
      | some b => ⟨b, q.src ++ [(str, false)]⟩
      | none => q
    else
      let i := nat! arg
      if i < q.box.length then
        if op = "del" then ⟨q.box.eraseIdx i, q.src.eraseIdx i⟩
        else if op = "sus" then ⟨q.box.modify i (setSusp true), q.src.modify i (fun p => (p.1, true))⟩
        else ⟨q.box.modify i (setSusp false), q.src.modify i (fun p => (p.1, false))⟩
      else q
  | _ => q

def observers : Box :=
  ["config:show_ticks", "config:show_io_pre", "config:show_io_post"].filterMap addStr

structure St where
  box : Box := []
  sim : SimCase := {}
  q : Option QBox := none

def parseRuleDump (fs : List String) : Option Rule :=
  match fs with
  | [tc, tk, a, o, e, s] => some ⟨timecOfCode (nat! tc), nat! tk, actionOfCode (nat! a), unhex o, unhex e, s == "1"⟩
  | _ => none

def step (s : St) (line : String) : St × List String :=
  let fs := fields line
  match fs with
  | ["T", h] =>
    let str := unhex h
    match addStr str with
    | none => (s, [line, "R err"])
    | some r =>
      let rt := if addStr (ruleString r) == some r then "ok" else "fail"
      (s, [line, s!"R ok {ruleDump r} S={enhex (ruleString r)} RT={rt} SF={shortFormVerdict str r} KW={keywordVerdict str r}"])
  | "H" :: _ => ({ s with box := [] }, [line])
  | ["E", op, arg] =>
    let e : Edit := match op with
      | "add" => .add (unhex arg)
      | "del" => .del (nat! arg)
      | "sus" => .suspend (nat! arg)
      | _ => .reactivate (nat! arg)
    let err := rejects s.box e
    let b' := applyEdit s.box e
    ({ s with box := b' }, [line, s!"B err={b01 err} n={b'.length} rules={boxDump b'} P={enhex (printBox b')}"])
  | ["J"] =>
    let rb := match rebuild s.box with | some b => if b == s.box then "ok" else "diff" | none => "none"
    (s, [line, s!"L rules={boxDump s.box} rebuild={rb}"])
  | "S" :: rest =>
    let stop := match kv rest "stop" with | some "-" => none | some k => some (nat! k) | none => none
    ({ s with sim := { id := (kv rest "id").getD "", ticks := nat! ((kv rest "ticks").getD "0"), stopOn := stop,
                       report := (kv rest "report") == some "1" } }, [line])
  | "M" :: rest =>
    let sh : Shape := ⟨nat! ((kv rest "rsize").getD "8"), nat! ((kv rest "nin").getD "0"), nat! ((kv rest "nout").getD "0"),
      (commaList ((kv rest "procs").getD "")).map parseProc⟩
    let topo : Topo := ⟨(commaList ((kv rest "iin").getD "")).map parseEnd, (commaList ((kv rest "iout").getD "")).map parseEnd,
      (commaList ((kv rest "links").getD "")).map fun x => if x == "-" then none else some (nat! x)⟩
    ({ s with sim := { s.sim with sh := sh, topo := topo, bondNames := commaList ((kv rest "names").getD "") } }, [line])
  | ["U", d] =>
    match parseRuleDump (d.splitOn ".") with
    | some r => ({ s with sim := { s.sim with rules := s.sim.rules ++ [r] } }, [line])
    | none => (s, [line, "bad-rule"])
  | "K" :: rest =>
    let t := nat! ((kv rest "t").getD "0")
    let pre := (commaList ((kv rest "pre").getD "")).map parseCell
    let post := (commaList ((kv rest "post").getD "")).map parseCell
    ({ s with sim := { s.sim with implK := s.sim.implK ++ [(t, pre, post)] } }, [])
  | ["G"] =>
    -- the prediction is made from the rule *strings* (when the case came with them); a stored
    -- rule that differs from the rule its string denotes is reported (D line)
    match s.q with
    | some q =>
      let denoted := q.box ++ observers
      let dl := if denoted == s.sim.rules then [] else
        match (List.range (max denoted.length s.sim.rules.length)).find? (fun i => denoted[i]? != s.sim.rules[i]?) with
        | some i => [s!"D stored-rule-differs index={i} stored={(s.sim.rules[i]?.map ruleDump).getD "-"} denoted={(denoted[i]?.map ruleDump).getD "-"} string={enhex ((q.src[i]?.map (·.1)).getD "")}"]
        | none => []
      let nl := q.src.map fun (str, su) => s!"N {enhex str} {b01 su}"
      ({ s with sim := {}, q := none }, runSim { s.sim with rules := denoted } ++ dl ++ nl ++ ["G"])
    | none => ({ s with sim := {} }, runSim s.sim ++ ["G"])
  | "#" :: "Q" :: _ :: _ :: _ :: _ :: edits => ({ s with q := some (edits.foldl qEdit {}) }, [line])
  | "#" :: _ => (s, [line])
  | _ => (s, [])

def main : IO Unit := do
  let _ ← foldStdin ({} : St) step
