/-
  Oracle for C07: runs the compiled model on the regenerated site table.
  Prints, for the driver (tools/props/c07.py) to cross-check against its own reading:
      COVERED true|false            the merge pass `Expect.covered Gen.sites Expect.rows`
      BADKEYS n                     table rows whose key is not the hash of their strings
      SITE <key> <verdict-kind>     one line per generated site (UNCLASSIFIED if no row has its key)
  and, on stdin lines `PERM a,b,c` answers `SORT …` / `CPDEF …` with the model's sorted walk and
  the unsorted cpdef walk of that order (used by the driver's self-test of the model).
-/
import BMV.Sched
import BMV.SchedExpect
import BMV.Gen.MapRanges
import BMV.Lines
open BMV.Sched BMV.Sched.Expect

def verdictKind : Verdict → String
  | .thm c => "thm:" ++ (reprStr c)
  | .sortedAfter => "sortedAfter"
  | .insens _ => "insens"
  | .debugOnly => "debugOnly"
  | .offpath _ => "offpath"
  | .unproved _ => "unproved"
  | .finding i => "finding:" ++ i

def main : IO Unit := do
  let out ← IO.getStdout
  out.putStrLn s!"COVERED {covered BMV.Gen.MapRanges.sites rows}"
  out.putStrLn s!"BADKEYS {badKeys.length}"
  for s in BMV.Gen.MapRanges.sites do
    if s.key == sortedKeysKey then
      out.putStrLn s!"SITE {s.key} generic:sortedkeys"
    else match rows.find? (fun r => r.key == s.key) with
    | some r => out.putStrLn s!"SITE {s.key} {verdictKind r.verdict}"
    | none => out.putStrLn s!"SITE {s.key} UNCLASSIFIED"
  let _ ← BMV.Lines.foldStdin () fun _ l =>
    if l.startsWith "PERM " then
      let xs := BMV.Lines.commaList (l.drop 5).toString
      ((), ["SORT " ++ ",".intercalate (isort (fun a b => decide (a ≤ b)) xs),
            "CPDEF " ++ "|".intercalate (cpdefLines xs)])
    else ((), [])
  out.flush
