/-
  Oracle for C06.  Reads the harness' case stream

    CASE <cid> w=<w>
    INST <name> <fragname> <resin csv|-> <resout csv|-> <body|->     body: add:0:1;inc:1;rset:2:5
    LINK <name> <src> <dst>          src = e<k> | o<i>.<p>     dst = e<k> | i<i>.<j>
    INPUT v,v,..                     one line per round
    PART <pid> <cpname>=<i>:<i>;<cpname>=<i>...
    X ...                            implementation observations (ignored here)
    END

  and prints, for every PART, the model's observables in the harness' format:

    M <cid> <pid> flags wf=<0|1> ok=<0|1>
    M <cid> <pid> asm <ok|multi-input>
    M <cid> <pid> sec.<c> <romname> | <line> | ...        Frag.secRes rendered
    M <cid> <pid> prg.<c> <line> | ...                    lowered program
    M <cid> <pid> att <entry> | ...
    M <cid> <pid> bonds a>b a>b ...                       sorted
    M <cid> <pid> out <status> <stream>;<stream>          Frag.Net.run of Frag.compose
    M <cid> <pid> eval <stream>;<stream>                  Frag.evalOut, round by round
    M <cid> <pid> temps <c>:<k>=<reg>,.. fresh=<0|1>      temp_fresh evaluated on this section
-/
import BMV.Frag
import BMV.Lines
open BMV.Frag BMV.Lines

structure Case where
  cid : String := ""
  g : Graph := {}
  inputs : List (List Nat) := []
  deriving Inhabited

def natList (s : String) : List Nat :=
  if s = "-" || s = "" then [] else (s.splitOn ",").map nat!

def parseInstr (s : String) : Option Instr :=
  match s.splitOn ":" with
  | ["rset", d, v] => some (.rset (nat! d) (nat! v))
  | ["inc", d] => some (.inc (nat! d))
  | ["dec", d] => some (.dec (nat! d))
  | ["clr", d] => some (.clr (nat! d))
  | ["add", d, s] => some (.add (nat! d) (nat! s))
  | ["cpy", d, s] => some (.cpy (nat! d) (nat! s))
  | ["mult", d, s] => some (.mult (nat! d) (nat! s))
  | _ => none

def parseBody (s : String) : List Instr :=
  if s = "-" || s = "" then [] else (s.splitOn ";").filterMap parseInstr

def parseSrc (s : String) : Src :=
  if s.startsWith "e" then .ext (nat! (s.drop 1).toString)
  else match ((s.drop 1).toString).splitOn "." with
    | [a, b] => .out (nat! a) (nat! b)
    | _ => .ext 0

def parseDst (s : String) : Dst :=
  if s.startsWith "e" then .ext (nat! (s.drop 1).toString)
  else match ((s.drop 1).toString).splitOn "." with
    | [a, b] => .inp (nat! a) (nat! b)
    | _ => .ext 0

def parsePart (s : String) : Part :=
  (s.splitOn ";").filterMap fun c =>
    match c.splitOn "=" with
    | [n, l] => some { name := n, list := if l = "" then [] else (l.splitOn ":").map nat! }
    | _ => none

def joinBar (ls : List String) : String := " | ".intercalate ls

def insertSorted (x : String) : List String → List String
  | [] => [x]
  | y :: ys => if x < y || x == y then x :: y :: ys else y :: insertSorted x ys
def sortStrings (l : List String) : List String := l.foldl (fun acc x => insertSorted x acc) []

def streams (o : List (List Nat)) : String :=
  ";".intercalate (o.map fun s => ",".intercalate (s.map toString))

def multiInput (g : Graph) : Bool :=
  (List.range g.insts.length).any fun i =>
    (List.range (g.nIn i)).any fun j => decide (g.inCount i j > 1)

def natNodup : List Nat → Bool
  | [] => true
  | x :: xs => !xs.contains x && natNodup xs

def partLines (c : Case) (pid : String) (pt : Part) : List String :=
  let g := c.g
  let pre := s!"M {c.cid} {pid} "
  let flags := pre ++ s!"flags wf={if g.wf then 1 else 0} ok={if Part.ok g pt then 1 else 0}"
  if multiInput g then [flags, pre ++ "asm multi-input"] else
  let net := compose g pt
  let secLines := (enum pt).map fun cc =>
    pre ++ s!"sec.{cc.1} " ++ joinBar (secName g cc.2.list :: renderSec (secRes g cc.2.list))
  let prgLines := (enum pt).map fun cc =>
    pre ++ s!"prg.{cc.1} " ++ joinBar ((secRes g cc.2.list).map SInstr.lower)
  let att := pre ++ "att " ++ joinBar (ioAtt g pt)
  let bl := pre ++ "bonds " ++ " ".intercalate
    (sortStrings (net.bonds.map fun b => b.1.render ++ ">" ++ b.2.render))
  let (outs, status) := net.run c.inputs
  let outL := pre ++ s!"out {status} " ++ streams outs
  let ev : List (List Nat) := (List.range (nExtOut g)).map fun k =>
    c.inputs.map fun row => (evalOut g row k).getD 0
  let evL := pre ++ "eval " ++ streams ev
  -- temp_fresh on this very section: the chosen registers are pairwise distinct and occur in no
  -- line of the section before the replacement
  let tl := (enum pt).map fun cc =>
    let s := secSym g cc.2.list
    let T := tempRegs s
    let fresh := natNodup T && T.all (fun n => !(usedR s).contains n)
    s!"{cc.1}:" ++ ",".intercalate ((enum T).map fun kn => s!"t{kn.1}=r{kn.2}") ++
      s!":{if fresh then 1 else 0}"
  [flags, pre ++ "asm ok"] ++ secLines ++ prgLines ++ [att, bl, outL, evL,
    pre ++ "temps " ++ " ".intercalate tl]

def step (c : Case) (line : String) : Case × List String :=
  let fs := fields line
  match fs with
  | "CASE" :: cid :: rest =>
    ({ cid := cid, g := { w := nat! ((kv rest "w").getD "16") }, inputs := [] }, [])
  | ["INST", name, fname, ri, ro, body] =>
    let f : Fragment := { name := fname, resin := natList ri, resout := natList ro, body := parseBody body }
    ({ c with g := { c.g with insts := c.g.insts ++ [{ name := name, frag := f }] } }, [])
  | ["LINK", name, s, d] =>
    ({ c with g := { c.g with links := c.g.links ++ [{ name := name, src := parseSrc s, dst := parseDst d }] } }, [])
  | ["INPUT", vs] => ({ c with inputs := c.inputs ++ [natList vs] }, [])
  | ["INPUT"] => ({ c with inputs := c.inputs ++ [[]] }, [])
  | ["PART", pid, spec] => (c, partLines c pid (parsePart spec))
  | _ => (c, [])

def main : IO Unit := do
  let _ ← foldStdin ({} : Case) step
  pure ()
