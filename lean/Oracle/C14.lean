/-
  Oracle for C14.  Reads the harness stream (one case after another)

    C <id> <n>
    G <name> <q>... [A=<float64 bits of the angle the Go code uses> T=<angle text>]
    M <k> <dim> <nnz> (<i> <j> <reBits> <imBits>)*     k-th matrix returned by QasmToBmMatrices
    P <dim> <nnz> (...)                                 Go's own product M_last*...*M_0
    S <k> <nnz> (<i> <reBits> <imBits>)*                RunSoftwareSimulation output for basis state k
    E <text>                                            error / panic of the Go side
    X                                                   end of case

  and prints one verdict line per case:

    R id=<id> n=<n> gates=<g> layers=<l> maxmulti=<m> follows=<fixed|stale|both|none> verdict=<ok|stale|fail>
      [kind=<...> layer=<t> at=<i>,<j> impl=<re>,<im> ref=<re>,<im>] [prop=<ok|fail>] ...

  verdict=ok    : every emitted matrix equals the reference layer (exact zero pattern, values within
                  tolerance), is unitary, the product equals Uref, the simulation returns Uref's columns
  verdict=stale : the property FAILS on this circuit and the emitted matrices are exactly what the model
                  of the unrepaired code (`layer true`) predicts (the signature of the known defect)
  verdict=fail  : anything else (property fails in a different way, or the implementation follows
                  neither model)
  With `--sym` the symbolic structure of every reference layer is printed as well (`Y` lines).
-/
import BMV.Quantum
import BMV.Lines
open BMV.Quantum BMV.Lines

structure C where
  re : Float
  im : Float
deriving Inhabited

instance : Ops C where
  zero := ⟨0, 0⟩
  one := ⟨1, 0⟩
  mul a b := ⟨a.re * b.re - a.im * b.im, a.re * b.im + a.im * b.re⟩
  add a b := ⟨a.re + b.re, a.im + b.im⟩

def C.isZero (a : C) : Bool := a.re == 0 && a.im == 0
def C.dist (a b : C) : Float :=
  let x := Float.abs (a.re - b.re)
  let y := Float.abs (a.im - b.im)
  if x ≤ y then y else if y ≤ x then x else x + y  -- NaN propagates
def C.conj (a : C) : C := ⟨a.re, -a.im⟩
def C.str (a : C) : String := s!"{a.re},{a.im}"

def cz : C := ⟨0, 0⟩
def c1 : C := ⟨1, 0⟩
def ci : C := ⟨0, 1⟩

def pi : Float := 3.14159265358979323846

def ofRows (rows : List (List C)) : Mat C := fun i j => (rows.getD i []).getD j cz

/-- reference gate matrices: the textbook closed forms (first argument = most significant bit) -/
def gateMat (name : String) (θ : Float) : Option (Nat × Mat C) :=
  let h : Float := 1 / Float.sqrt 2
  let c := Float.cos (θ / 2)
  let s := Float.sin (θ / 2)
  match name with
  | "h" => some (1, ofRows [[⟨h, 0⟩, ⟨h, 0⟩], [⟨h, 0⟩, ⟨-h, 0⟩]])
  | "x" => some (1, ofRows [[cz, c1], [c1, cz]])
  | "y" => some (1, ofRows [[cz, ⟨0, -1⟩], [ci, cz]])
  | "z" => some (1, ofRows [[c1, cz], [cz, ⟨-1, 0⟩]])
  | "s" => some (1, ofRows [[c1, cz], [cz, ci]])
  | "p" => some (1, ofRows [[c1, cz], [cz, ci]])          -- bmqsim dialect: `p` is the fixed phase gate P = S
  | "t" => some (1, ofRows [[c1, cz], [cz, ⟨Float.cos (pi / 4), Float.sin (pi / 4)⟩]])
  | "sx" => some (1, ofRows [[⟨0.5, 0.5⟩, ⟨0.5, -0.5⟩], [⟨0.5, -0.5⟩, ⟨0.5, 0.5⟩]])
  | "r" => some (1, ofRows [[c1, cz], [cz, ⟨Float.cos θ, Float.sin θ⟩]])   -- phase shift P(θ)
  | "rx" => some (1, ofRows [[⟨c, 0⟩, ⟨0, -s⟩], [⟨0, -s⟩, ⟨c, 0⟩]])
  | "ry" => some (1, ofRows [[⟨c, 0⟩, ⟨-s, 0⟩], [⟨s, 0⟩, ⟨c, 0⟩]])
  | "rz" => some (1, ofRows [[⟨c, -s⟩, cz], [cz, ⟨c, s⟩]])
  | "cx" => some (2, ofRows [[c1, cz, cz, cz], [cz, c1, cz, cz], [cz, cz, cz, c1], [cz, cz, c1, cz]])
  | "cz" => some (2, ofRows [[c1, cz, cz, cz], [cz, c1, cz, cz], [cz, cz, c1, cz], [cz, cz, cz, ⟨-1, 0⟩]])
  | "swap" => some (2, ofRows [[c1, cz, cz, cz], [cz, cz, c1, cz], [cz, c1, cz, cz], [cz, cz, cz, c1]])
  | "iswap" => some (2, ofRows [[c1, cz, cz, cz], [cz, cz, ci, cz], [cz, ci, cz, cz], [cz, cz, cz, c1]])
  | "dcnot" => some (2, ofRows [[c1, cz, cz, cz], [cz, cz, c1, cz], [cz, cz, cz, c1], [cz, c1, cz, cz]])
  | _ => none

/-! dense matrices -/
structure Dense where
  dim : Nat
  a : Array C
deriving Inhabited

def Dense.get (m : Dense) (i j : Nat) : C := m.a.getD (i * m.dim + j) cz

def Dense.ofMat (N : Nat) (f : Mat C) : Dense :=
  ⟨N, Id.run do
    let mut a : Array C := Array.mkEmpty (N * N)
    for i in [0:N] do
      for j in [0:N] do
        a := a.push (f i j)
    return a⟩

def Dense.mul (x y : Dense) : Dense :=
  let N := x.dim
  ⟨N, Id.run do
    let mut a : Array C := Array.mkEmpty (N * N)
    for i in [0:N] do
      for j in [0:N] do
        let mut acc : C := cz
        for k in [0:N] do
          let p := MulOps.mul (x.get i k) (y.get k j)
          if !p.isZero then acc := Ops.add acc p
        a := a.push acc
    return a⟩

def Dense.ident (N : Nat) : Dense := Dense.ofMat N (fun i j => if i = j then c1 else cz)

def Dense.dagger (x : Dense) : Dense := Dense.ofMat x.dim (fun i j => (x.get j i).conj)

/-- first entry where two matrices differ: exact zero pattern, then tolerance -/
def Dense.diff (impl ref : Dense) (tol : Float) (exactZero : Bool) : Option (Nat × Nat) := Id.run do
  if impl.dim != ref.dim then return some (impl.dim, ref.dim)
  for i in [0:ref.dim] do
    for j in [0:ref.dim] do
      let a := impl.get i j
      let b := ref.get i j
      -- exact zero pattern; a non-zero value below float32's normal range (a product of several
      -- sin/cos values at near-multiples of pi/2) may legitimately underflow to 0 on the Go side
      if exactZero && (a.isZero != b.isZero) && !(C.dist a b ≤ 1e-36) then return some (i, j)
      if !(C.dist a b ≤ tol) then return some (i, j)
  return none

/-! parsing -/
def flt (s : String) : Float := Float.ofBits (nat! s).toUInt64

structure G where
  name : String
  args : List Nat
  θ : Float

def parseG (fs : List String) : G :=
  match fs with
  | name :: rest =>
    let ang := rest.filter (·.startsWith "A=")
    let qs := rest.filter (fun f => !f.contains '=')
    ⟨name, qs.map nat!, match ang with | a :: _ => flt (a.drop 2).toString | [] => 0⟩
  | [] => ⟨"?", [], 0⟩

def parseEntries2 (dim : Nat) : List String → Array C → Array C
  | i :: j :: re :: im :: rest, a => parseEntries2 dim rest (a.setIfInBounds (nat! i * dim + nat! j) ⟨flt re, flt im⟩)
  | _, a => a

def parseDense (fs : List String) : Dense :=
  match fs with
  | dim :: _nnz :: rest =>
    let d := nat! dim
    ⟨d, parseEntries2 d rest (Array.replicate (d * d) cz)⟩
  | _ => ⟨0, #[]⟩

def parseVec1 : List String → Array C → Array C
  | i :: re :: im :: rest, a => parseVec1 rest (a.setIfInBounds (nat! i) ⟨flt re, flt im⟩)
  | _, a => a

structure Case where
  id : String := ""
  n : Nat := 0
  gates : Array G := #[]
  mats : Array Dense := #[]
  prod : Option Dense := none
  sims : Array (Nat × Array C) := #[]
  err : Option String := none

def toGate (g : G) : Option (Gate C) :=
  match gateMat g.name g.θ with
  | some (ar, m) => if ar == g.args.length then some ⟨m, g.args⟩ else none
  | none => none

def kv' (k v : String) : String := k ++ "=" ++ v

def symStr (s : Sym) : String :=
  match s with
  | none => "0"
  | some l => if l.isEmpty then "1" else "*".intercalate (l.map fun (k, r, c) => s!"g{k}[{r}][{c}]")

/-- symbolic structure of the reference layer: non-zero entries only -/
def symLines (id : String) (n t : Nat) (L : List (List Nat)) : List String := Id.run do
  let N := 2 ^ n
  let gs := symGates L
  let mut out : Array String := #[]
  for i in [0:N] do
    let mut row := ""
    for j in [0:N] do
      match layerRef n gs i j with
      | none => pure ()
      | some l => row := row ++ s!" {j}:{symStr (some (sortAtoms l))}"
    out := out.push s!"Y id={id} layer={t} args={L} row={i}{row}"
  return out.toList

def judge (c : Case) (sym : Bool) : List String := Id.run do
  let n := c.n
  let N := 2 ^ n
  let gsO := c.gates.toList.map toGate
  let hdr := s!"R id={c.id} n={n} gates={c.gates.size}"
  if gsO.any Option.isNone then return [hdr ++ " verdict=fail kind=bad-gate-line"]
  let gs : List (Gate C) := gsO.filterMap id
  let layers := compileLayers gs
  let depth := layers.length
  let maxmulti := layers.foldl (fun m l => Nat.max m (l.filter (fun g => g.args.length ≥ 2)).length) 0
  let hdr := hdr ++ s!" layers={depth} maxmulti={maxmulti}"
  let mut symOut : List String := []
  if sym then
    let mut t := 0
    for l in layers do
      symOut := symOut ++ symLines c.id n t (l.map (·.args))
      t := t + 1
  -- the models
  let nzStr (m : Dense) : String := Id.run do
    let mut r := ""
    for i in [0:m.dim] do
      for j in [0:m.dim] do
        let x := m.get i j
        if !x.isZero then r := r ++ s!" ({i},{j})={x.str}"
    return r
  let refs := layers.map fun l => Dense.ofMat N (layerRef n l)
  let fixedM := layers.map fun l => (layer false n l).map fun m => Dense.ofMat m.dim m.e
  let staleM := layers.map fun l => (layer true n l).map fun m => Dense.ofMat m.dim m.e
  -- model self check: repaired model = reference (this is the theorem, re-evaluated numerically)
  for (f, r) in fixedM.zip refs do
    match f with
    | none => return [hdr ++ " verdict=fail kind=model-self-check"] ++ symOut
    | some fm => if (fm.diff r 1e-12 true).isSome then return [hdr ++ " verdict=fail kind=model-self-check"] ++ symOut
  -- Uref: `BMV.Quantum.Uref` evaluated densely (same fold: a later gate multiplies on the left)
  if sym then
    let mut t := 0
    for r in refs do
      symOut := symOut ++ [s!"Z id={c.id} layer={t} expected:{nzStr r}"]
      match c.mats[t]? with
      | some m => symOut := symOut ++ [s!"Z id={c.id} layer={t} actual:{nzStr m}"]
      | none => pure ()
      t := t + 1
  let uref := gs.foldl (fun u g => (Dense.ofMat N (embed n g)).mul u) (Dense.ident N)
  let tolL : Float := 1e-5
  let tolP : Float := 1e-5 * (Float.ofNat (Nat.max depth 1))
  -- Go side failed?
  match c.err with
  | some e =>
    let stalePanics := staleM.any Option.isNone
    if stalePanics && e.startsWith "panic" then
      return [hdr ++ " follows=stale verdict=stale kind=panic prop=fail err=" ++ (e.replace " " "_")] ++ symOut
    return [hdr ++ " follows=none verdict=fail kind=impl-error err=" ++ (e.replace " " "_")] ++ symOut
  | none => pure ()
  if c.mats.size != depth then
    return [hdr ++ s!" follows=none verdict=fail kind=split impl_layers={c.mats.size}"] ++ symOut
  -- which model does the implementation follow, layer by layer
  let mut followsFixed := true
  let mut followsStale := true
  let mut firstBad : Option (Nat × Nat × Nat) := none
  let mut t := 0
  for ((m, r), s) in (c.mats.toList.zip refs).zip staleM do
    match m.diff r tolL true with
    | some (i, j) =>
      followsFixed := false
      if firstBad.isNone then firstBad := some (t, i, j)
    | none => pure ()
    match s with
    | some sm => if (m.diff sm tolL true).isSome then followsStale := false
    | none => followsStale := false
    t := t + 1
  let follows := if followsFixed && followsStale then "both" else if followsFixed then "fixed"
    else if followsStale then "stale" else "none"
  let hdr := hdr ++ s!" follows={follows}"
  -- the property itself: product of the emitted matrices vs Uref
  let implProd := c.mats.foldl (fun p m => m.mul p) (Dense.ident N)
  let propOk := (implProd.diff uref tolP false).isNone
  match firstBad with
  | some (bt, i, j) =>
    let m : Dense := c.mats.getD bt (Dense.ident N)
    let r := refs.getD bt (Dense.ident N)
    let det := s!" kind=layer layer={bt} at={i},{j} impl={(m.get i j).str} ref={(r.get i j).str} prop={if propOk then "ok" else "fail"}"
    if followsStale then return [hdr ++ " verdict=stale" ++ det] ++ symOut
    return [hdr ++ " verdict=fail" ++ det] ++ symOut
  | none => pure ()
  if !propOk then return [hdr ++ " verdict=fail kind=product prop=fail"] ++ symOut
  -- unitarity of every emitted matrix
  let mut t2 := 0
  for m in c.mats do
    if ((m.mul m.dagger).diff (Dense.ident N) tolL false).isSome then
      return [hdr ++ s!" verdict=fail kind=not-unitary layer={t2}"] ++ symOut
    t2 := t2 + 1
  -- Go's own product
  match c.prod with
  | some p => if (p.diff uref tolP false).isSome then return [hdr ++ " verdict=fail kind=go-product"] ++ symOut
  | none => pure ()
  -- software simulation: basis state k -> column k of Uref
  for (k, v) in c.sims do
    for i in [0:N] do
      if !(C.dist (v.getD i cz) (uref.get i k) ≤ tolP) then
        return [hdr ++ s!" verdict=fail kind=sim-column col={k} row={i} impl={(v.getD i cz).str} ref={(uref.get i k).str}"] ++ symOut
  if c.sims.size != N then
    return [hdr ++ s!" verdict=fail kind=sim-missing got={c.sims.size}"] ++ symOut
  return [hdr ++ " verdict=ok prop=ok"] ++ symOut

def step (sym : Bool) (c : Case) (l : String) : Case × List String :=
  match fields l with
  | "C" :: id :: n :: _ => ({ id := id, n := nat! n }, [])
  | "G" :: rest => ({ c with gates := c.gates.push (parseG rest) }, [])
  | "M" :: _k :: rest => ({ c with mats := c.mats.push (parseDense rest) }, [])
  | "P" :: rest => ({ c with prod := some (parseDense rest) }, [])
  | "S" :: k :: _nnz :: rest =>
    ({ c with sims := c.sims.push (nat! k, parseVec1 rest (Array.replicate (2 ^ c.n) cz)) }, [])
  | "E" :: rest => ({ c with err := some (" ".intercalate rest) }, [])
  | ["X"] => ({}, judge c sym)
  | _ => (c, [])

def main (args : List String) : IO Unit := do
  let _ ← foldStdin ({} : Case) (step (args.contains "--sym"))
  pure ()
