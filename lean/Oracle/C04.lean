/-
  Oracle for C04.  Reads the harness' stream (see harness/cmd/c04/main.go) and, per case,

  * replays every G line on the abstract simulator protocol `BMV.Hs.Isa.step`, with the schedule
    read off the real run (an agent "wants" in a tick iff its pc before the step is at an IO
    instruction of the bond), and prints the model's observables
        g v=<valid> d=<data index> r=<recv,..> df=<deferred,..> ps=<producer completed> cs=<captured,..>
  * builds the same net out of `BMV.Rtl.cycle` (one per processor, wired combinationally as
    Write_verilog_main wires them), runs it for as many clocks, replays it on the abstract hardware
    protocol `BMV.Hs.Rtl.step` and reports the first disagreement and the delivered streams:
        RT ok clocks=<n> written=<values> | RT mismatch clock=<t> <what>
        RR <i> <values captured by consumer i in the hardware net>
  * does the same with the EMITTED Verilog of every processor (M i H lines) executed by BMV.Vlog:
        VT ok clocks=<n> | VT mismatch … | VT unavailable … ;  VW <written> ; VR <i> <captured>
-/
import BMV.Hs
import BMV.Rtl
import BMV.Lines
import BMV.Vlog.Elab
open BMV BMV.Bits BMV.Lines BMV.Vlog

def parseMode (s : String) : Mode :=
  if s = "vn" then .vn else if s = "hy" then .hy else .ha

def parseArch (fs : List String) : Option Arch :=
  match fs with
  | [rs, r, n, m, l, o, mode, ws, ops] =>
    let opl := (ops.drop 4).toString
    some { rsize := nat! rs, r := nat! r, n := nat! n, m := nat! m, l := nat! l, o := nat! o,
           mode := parseMode mode, wordSize := nat! ws,
           ops := if opl = "" then [] else opl.splitOn "," }
  | _ => none

/-- the emitted Verilog of one processor, elaborated, with the indices of the observed signals -/
structure Hw where
  d : Design
  clk : Nat
  reset : Nat
  pc : Nat
  regs : List Nat
  auxo : Option Nat
  oval : Option Nat
  irecv : Option Nat
  waitsm : Option Nat
  inp : Option Nat
  ival : Option Nat
  orecv : Option Nat
deriving Inhabited

def mkHw (a : Arch) (line : String) : R Hw := do
  let d ← Design.ofString line (some "a0")
  let clk ← d.sigIdx "clock_signal"
  let reset ← d.sigIdx "reset_signal"
  d.checkClock clk
  let p := "p0_instance."
  let pc ← d.sigIdx (p ++ "_pc")
  let regs ← (List.range (2 ^ a.r)).mapM fun k => d.sigIdx (p ++ s!"_r{k}")
  pure { d, clk, reset, pc, regs, auxo := d.sigIdx? (p ++ "_auxo0"), oval := d.sigIdx? (p ++ "o0_val"),
         irecv := d.sigIdx? (p ++ "i0_recv"), waitsm := d.sigIdx? (p ++ "waitsm"),
         inp := d.sigIdx? "i0", ival := d.sigIdx? "i0_valid", orecv := d.sigIdx? "o0_received" }

structure PProc where
  arch : Arch := { rsize := 8, r := 1, n := 0, m := 0, l := 0, o := 1, ops := [] }
  prog : List Bits := []
  io : List Nat := []
  hw : Option Hw := none
  hwErr : String := "no H line"

instance : Inhabited PProc := ⟨{}⟩

structure St where
  k : Nat := 0
  procs : Array PProc := #[]
  isa : Hs.Isa.St := {}
  ticks : Nat := 0

def joinN (l : List Nat) : String := ",".intercalate (l.map toString)
def joinB (l : List Bool) : String := ",".intercalate (l.map fun b => if b then "1" else "0")
def nats (s : String) : List Nat := (commaList s).map nat!

def setProc (st : St) (i : Nat) (f : PProc → PProc) : St :=
  let ps := if i < st.procs.size then st.procs else st.procs ++ Array.replicate (i + 1 - st.procs.size) default
  { st with procs := ps.modify i f }

/-- destination register of the i2rw at address pc (second field after the opcode) -/
def destReg (p : PProc) (pc : Nat) : Nat :=
  match p.prog[pc]? with
  | some w => getId ((w.drop p.arch.opBits).take p.arch.r)
  | none => 0

/-- the hardware net: processors' `Rtl.cycle`, combinational wiring; returns the report lines -/
def rtlNet (st : St) : List String := Id.run do
  let k := st.k
  let p0 := st.procs[0]!
  let mut ps : Array RtlState := (Array.range (k + 1)).map fun i => Rtl.reset (st.procs[i]!).arch
  let mut hs : Hs.Rtl.St := Hs.Rtl.init k
  let mut written : List Nat := []
  let mut got : Array (List Nat) := Array.replicate (k + 1) []
  for t in [0:st.ticks] do
    let prod := ps[0]!
    let valid := prod.oVal.getD 0 false
    let data := prod.auxo.getD 0 0
    let received := k > 0 && (List.range k).all fun i => (ps[i + 1]!).iRecv.getD 0 false
    -- schedule read off the net
    let wantP := p0.io.contains prod.pc
    let wantC := (List.range k).map fun i => (st.procs[i + 1]!).io.contains (ps[i + 1]!).pc
    -- step the net
    let prod' := Rtl.cycle p0.arch p0.prog prod { outRecv := [received] }
    let mut ps' := ps.set! 0 prod'
    for i in [0:k] do
      let c := ps[i + 1]!
      let pr := st.procs[i + 1]!
      let c' := Rtl.cycle pr.arch pr.prog c { inputs := [data], inValid := [valid] }
      ps' := ps'.set! (i + 1) c'
      if pr.io.contains c.pc && c'.pc != c.pc then
        got := got.modify (i + 1) (· ++ [c'.regs.getD (destReg pr c.pc) 0])
    if wantP && prod'.pc != prod.pc then written := written ++ [prod'.auxo.getD 0 0]
    -- step the abstract protocol with that schedule
    let hs' := Hs.Rtl.step hs { p := wantP, c := wantC }
    -- compare observables
    let nv := prod'.oVal.getD 0 false
    let nrecv := (List.range k).map fun i => (ps'[i + 1]!).iRecv.getD 0 false
    let ngot := (List.range k).map fun i => (got[i + 1]!).length
    if nv != hs'.oVal || prod'.waitsm != hs'.waitsm || nrecv != hs'.cs.map (·.recv) ||
       written.length != hs'.sent.length || ngot != hs'.cs.map (·.got.length) then
      return [s!"RT mismatch clock={t} net: v={nv} w={prod'.waitsm} r={joinB nrecv} sent={written.length} got={joinN ngot}" ++
              s!" | abstract: v={hs'.oVal} w={hs'.waitsm} r={joinB (hs'.cs.map (·.recv))} sent={hs'.sent.length} got={joinN (hs'.cs.map (·.got.length))}"]
    ps := ps'
    hs := hs'
  return [s!"RT ok clocks={st.ticks} written={joinN written}"] ++
    (List.range k).map fun i => s!"RR {i + 1} {joinN (got[i + 1]!)}"

def sget (st : State) (o : Option Nat) : Nat := match o with | some i => st.get i | none => 0

/-- the same net built from the EMITTED Verilog of each processor under BMV.Vlog, wired as
    Write_verilog_main wires a bond (valid/data forward, received = AND backward) -/
def vlogNet (st : St) : List String := Id.run do
  let k := st.k
  let mut hws : Array Hw := #[]
  for i in [0:k + 1] do
    match (st.procs[i]!).hw with
    | some h => hws := hws.push h
    | none => return [s!"VT unavailable processor {i}: {(st.procs[i]!).hwErr}"]
  let mut sts : Array State := #[]
  for i in [0:k + 1] do
    let h := hws[i]!
    match (do let s0 ← h.d.init; h.d.cycle h.clk s0 [(h.reset, 1)]) with
    | .ok s => sts := sts.push s
    | .error e => return [s!"VT unavailable reset of processor {i}: {e}"]
  let p0 := st.procs[0]!
  let mut hs : Hs.Rtl.St := Hs.Rtl.init k
  let mut written : List Nat := []
  let mut got : Array (List Nat) := Array.replicate (k + 1) []
  for t in [0:st.ticks] do
    let ph := hws[0]!
    let ps := sts[0]!
    let valid := sget ps ph.oval
    let data := sget ps ph.auxo
    let received := k > 0 && (List.range k).all fun i => sget (sts[i + 1]!) (hws[i + 1]!).irecv != 0
    let ppc := ps.get ph.pc
    let wantP := p0.io.contains ppc
    let wantC := (List.range k).map fun i => (st.procs[i + 1]!).io.contains ((sts[i + 1]!).get (hws[i + 1]!).pc)
    let pin := [(ph.reset, 0)] ++ (match ph.orecv with | some i => [(i, if received then 1 else 0)] | none => [])
    let ps' ← match ph.d.cycle ph.clk ps pin with
      | .ok s => pure s
      | .error e => return [s!"VT mismatch clock={t} producer evaluation error: {e}"]
    let mut sts' := sts.set! 0 ps'
    for i in [0:k] do
      let h := hws[i + 1]!
      let c := sts[i + 1]!
      let pr := st.procs[i + 1]!
      let cin := [(h.reset, 0)] ++ (match h.inp with | some j => [(j, data)] | none => []) ++
        (match h.ival with | some j => [(j, valid)] | none => [])
      let c' ← match h.d.cycle h.clk c cin with
        | .ok s => pure s
        | .error e => return [s!"VT mismatch clock={t} consumer {i + 1} evaluation error: {e}"]
      sts' := sts'.set! (i + 1) c'
      let cpc := c.get h.pc
      if pr.io.contains cpc && c'.get h.pc != cpc then
        got := got.modify (i + 1) (· ++ [c'.get (h.regs.getD (destReg pr cpc) 0)])
    if wantP && ps'.get ph.pc != ppc then written := written ++ [sget ps' ph.auxo]
    let hs' := Hs.Rtl.step hs { p := wantP, c := wantC }
    let nv := sget ps' ph.oval != 0
    let nw := sget ps' ph.waitsm != 0
    let nrecv := (List.range k).map fun i => sget (sts'[i + 1]!) (hws[i + 1]!).irecv != 0
    let ngot := (List.range k).map fun i => (got[i + 1]!).length
    if nv != hs'.oVal || nw != hs'.waitsm || nrecv != hs'.cs.map (·.recv) ||
       written.length != hs'.sent.length || ngot != hs'.cs.map (·.got.length) then
      return [s!"VT mismatch clock={t} emitted: v={nv} w={nw} r={joinB nrecv} sent={written.length} got={joinN ngot}" ++
              s!" | abstract: v={hs'.oVal} w={hs'.waitsm} r={joinB (hs'.cs.map (·.recv))} sent={hs'.sent.length} got={joinN (hs'.cs.map (·.got.length))}"] ++
             [s!"VW {joinN written}"] ++ (List.range k).map fun i => s!"VR {i + 1} {joinN (got[i + 1]!)}"
    sts := sts'
    hs := hs'
  return [s!"VT ok clocks={st.ticks}", s!"VW {joinN written}"] ++
    (List.range k).map fun i => s!"VR {i + 1} {joinN (got[i + 1]!)}"

def step (st : St) (line : String) : St × List String :=
  if line.startsWith "M " && (line.splitOn " ").getD 2 "" == "H" then
    let parts := line.splitOn " "
    let i := nat! (parts.getD 1 "0")
    let rest := (line.drop (("M " ++ parts.getD 1 "0" ++ " H ").length)).toString
    if rest.startsWith "err" then (setProc st i fun p => { p with hw := none, hwErr := rest }, [])
    else match mkHw ((st.procs[i]?.getD default).arch) rest with
      | .ok h => (setProc st i fun p => { p with hw := some h }, [])
      | .error e => (setProc st i fun p => { p with hw := none, hwErr := "rejected " ++ e }, [])
  else
  let fs := fields line
  match fs with
  | ["N", k] => ({ k := nat! k, isa := Hs.Isa.init (nat! k) }, [line])
  | "M" :: i :: "A" :: rest =>
    match parseArch rest with
    | some a => (setProc st (nat! i) fun p => { p with arch := a }, [])
    | none => (st, ["bad-arch"])
  | "M" :: _ :: "S" :: _ => (st, [])
  | "M" :: i :: "P" :: ws => (setProc st (nat! i) fun p => { p with prog := ws.map ofString01 }, [])
  | ["M", i, "IO", l] => (setProc st (nat! i) fun p => { p with io := nats l }, [])
  | ["M", i, "IO"] => (setProc st (nat! i) fun p => { p with io := [] }, [])
  | "T" :: _ => (st, [line])
  | "D" :: _ => (st, [line])
  | "G" :: rest =>
    let pre := nats ((kv rest "pre").getD "")
    -- a processor inside a simulated latency (DelayCounter > 0) executes nothing in this tick
    let dl := nats ((kv rest "dl").getD "")
    let wantP := (st.procs[0]!).io.contains (pre.getD 0 0) && dl.getD 0 0 == 0
    let wantC := (List.range st.k).map fun i => (st.procs[i + 1]!).io.contains (pre.getD (i + 1) 0) && dl.getD (i + 1) 0 == 0
    let s' := Hs.Isa.step st.isa { p := wantP, c := wantC }
    let ps := s'.sent.length != st.isa.sent.length
    let cs := (s'.cs.zip st.isa.cs).map fun (a, b) => a.got.length != b.got.length
    ({ st with isa := s', ticks := st.ticks + 1 },
      [s!"g v={if s'.valid then 1 else 0} r={joinB (s'.cs.map (·.recv))} df={joinB (s'.cs.map (·.deferred))} ps={if ps then 1 else 0} cs={joinB cs} n={s'.sent.length}"])
  | "W" :: _ => (st, [line] ++ rtlNet st ++ vlogNet st)
  | "R" :: _ => (st, [line])
  | _ => (st, [])

def main : IO Unit := do
  let _ ← foldStdin ({} : St) step
