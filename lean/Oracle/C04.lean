/-
  Oracle for C04.  Reads the harness' stream (see harness/cmd/c04/main.go): a net of P processors
  joined by B bonds (bond b: output (pp, op) -> inputs (cp_j, ip_j)).  Per case it

  * replays every G line on one abstract simulator protocol `BMV.Hs.Isa.step` PER BOND, with the
    schedule read off the real run (an agent "wants" in a tick iff its pc before the step is at an IO
    instruction of that bond and it is not inside a simulated latency), and prints the observables
        g v<b>=<valid> r<b>=<recv,..> ps<b>=<producer completed> cs<b>=<captured,..> n<b>=<#sent> ...
  * builds the same net out of `BMV.Rtl.cycle` (one per processor, wired combinationally as
    Write_verilog_main wires bonds), runs it for as many clocks, replays every bond on the abstract
    hardware protocol `BMV.Hs.Rtl.step` and reports the first disagreement and the delivered streams:
        RT ok clocks=<n> | RT mismatch clock=<t> bond=<b> <what> ;  RW <b> <written> ; RR <b> <j> <captured>
  * does the same with the EMITTED Verilog of every processor (M i H lines) executed by BMV.Vlog:
        VT ok clocks=<n> | VT mismatch … | VT unavailable … ;  VW <b> <written> ; VR <b> <j> <captured>
-/
import BMV.Hs
import BMV.Rtl
import BMV.Lines
import BMV.Vlog.Elab
open BMV BMV.Bits BMV.Lines BMV.Vlog

def parseMode (s : String) : Mode :=
  if s = "vn" then .vn else if s = "hy" then .hy else .ha

def parseArch (fs : List String) : Option Arch :=
  match fs with
  | [rs, r, n, m, l, o, mode, ws, ops] =>
    let opl := (ops.drop 4).toString
    some { rsize := nat! rs, r := nat! r, n := nat! n, m := nat! m, l := nat! l, o := nat! o,
           mode := parseMode mode, wordSize := nat! ws,
           ops := if opl = "" then [] else opl.splitOn "," }
  | _ => none

/-- the emitted Verilog of one processor, elaborated, with the indices of the observed signals
    (per port where the processor has ports) -/
structure Hw where
  d : Design
  clk : Nat
  reset : Nat
  pc : Nat
  regs : List Nat
  waitsm : Option Nat
  auxo : List (Option Nat)
  oval : List (Option Nat)
  orecv : List (Option Nat)
  irecv : List (Option Nat)
  inp : List (Option Nat)
  ival : List (Option Nat)
deriving Inhabited

def mkHw (a : Arch) (line : String) : R Hw := do
  let d ← Design.ofString line (some "a0")
  let clk ← d.sigIdx "clock_signal"
  let reset ← d.sigIdx "reset_signal"
  d.checkClock clk
  let p := "p0_instance."
  let pc ← d.sigIdx (p ++ "_pc")
  let regs ← (List.range (2 ^ a.r)).mapM fun k => d.sigIdx (p ++ s!"_r{k}")
  pure { d, clk, reset, pc, regs, waitsm := d.sigIdx? (p ++ "waitsm"),
         auxo := (List.range a.m).map fun j => d.sigIdx? (p ++ s!"_auxo{j}"),
         oval := (List.range a.m).map fun j => d.sigIdx? (p ++ s!"o{j}_val"),
         orecv := (List.range a.m).map fun j => d.sigIdx? s!"o{j}_received",
         irecv := (List.range a.n).map fun j => d.sigIdx? (p ++ s!"i{j}_recv"),
         inp := (List.range a.n).map fun j => d.sigIdx? s!"i{j}",
         ival := (List.range a.n).map fun j => d.sigIdx? s!"i{j}_valid" }

structure PProc where
  arch : Arch := { rsize := 8, r := 1, n := 0, m := 0, l := 0, o := 1, ops := [] }
  prog : List Bits := []
  hw : Option Hw := none
  hwErr : String := "no H line"

instance : Inhabited PProc := ⟨{}⟩

/-- processor number of the environment's ends (BondMachine inputs / outputs) -/
def envP : Nat := 1000000

structure BondD where
  pp : Nat := 0
  op : Nat := 0
  cons : List (Nat × Nat) := []
  ioP : List Nat := []
  ioC : List (List Nat) := []       -- per consumer, in the order of `cons`
  sic : Bool := false               -- read with sicv3 (not a transfer): wired, not compared
deriving Inhabited

structure St where
  procs : Array PProc := #[]
  bonds : Array BondD := #[]
  isa : Array Hs.Isa.St := #[]
  ticks : Nat := 0

def joinN (l : List Nat) : String := ",".intercalate (l.map toString)
def joinB (l : List Bool) : String := ",".intercalate (l.map fun b => if b then "1" else "0")
def nats (s : String) : List Nat := (commaList s).map nat!

def setProc (st : St) (i : Nat) (f : PProc → PProc) : St :=
  let ps := if i < st.procs.size then st.procs else st.procs ++ Array.replicate (i + 1 - st.procs.size) default
  { st with procs := ps.modify i f }

def setBond (st : St) (b : Nat) (f : BondD → BondD) : St :=
  let bs := if b < st.bonds.size then st.bonds else st.bonds ++ Array.replicate (b + 1 - st.bonds.size) default
  { st with bonds := bs.modify b f }

/-- the program does not end in a jump: the simulated processor halts past its last instruction
    (hardware has no halt: such nets are compared in the simulator only) -/
def halts (p : PProc) : Bool :=
  match p.prog.getLast? with
  | some w => p.arch.ops[getId (w.take p.arch.opBits)]? != some "j"
  | none => true

/-- destination register of the i2rw at address pc (second field after the opcode) -/
def destReg (p : PProc) (pc : Nat) : Nat :=
  match p.prog[pc]? with
  | some w => getId ((w.drop p.arch.opBits).take p.arch.r)
  | none => 0

/-- the bond (if any) that drives input `j` of processor `i` / that output `o` of processor `i` drives -/
def bondOfInput (st : St) (i j : Nat) : Option BondD := st.bonds.toList.find? fun b => b.cons.contains (i, j)
def bondOfOutput (st : St) (i o : Nat) : Option BondD := st.bonds.toList.find? fun b => b.pp == i && b.op == o

/-- the hardware net: processors' `Rtl.cycle`, combinational wiring; returns the report lines -/
def rtlNet (st : St) : List String := Id.run do
  let P := st.procs.size
  let B := st.bonds.size
  let mut ps : Array RtlState := (Array.range P).map fun i => Rtl.reset (st.procs[i]!).arch
  let mut hs : Array Hs.Rtl.St := st.bonds.map fun b => Hs.Rtl.init b.cons.length
  let mut written : Array (List Nat) := Array.replicate B []
  let mut got : Array (Array (List Nat)) := st.bonds.map fun b => Array.replicate b.cons.length []
  for t in [0:st.ticks] do
    -- step every processor on the wires as they are before the edge
    let mut ps' := ps
    for i in [0:P] do
      let pr := st.procs[i]!
      let inputs := (List.range pr.arch.n).map fun j =>
        match bondOfInput st i j with
        | some b => (ps[b.pp]!).auxo.getD b.op 0
        | none => 0
      let inValid := (List.range pr.arch.n).map fun j =>
        match bondOfInput st i j with
        | some b => (ps[b.pp]!).oVal.getD b.op false
        | none => false
      let outRecv := (List.range pr.arch.m).map fun o =>
        match bondOfOutput st i o with
        | some b => !b.cons.isEmpty && b.cons.all fun (c, ip) => (ps[c]!).iRecv.getD ip false
        | none => false
      ps' := ps'.set! i (Rtl.cycle pr.arch pr.prog (ps[i]!) { inputs, inValid, outRecv })
    -- per bond: schedule read off the net, completions, abstract protocol, comparison
    let mut hs' := hs
    for bi in [0:B] do
      let b := st.bonds[bi]!
      let prod := ps[b.pp]!
      let prod' := ps'[b.pp]!
      let wantP := b.ioP.contains prod.pc
      let wantC := (List.range b.cons.length).map fun j =>
        let (c, _) := b.cons.getD j (0, 0)
        (b.ioC.getD j []).contains (ps[c]!).pc
      if wantP && prod'.pc != prod.pc then
        written := written.modify bi (· ++ [prod'.auxo.getD b.op 0])
      for j in [0:b.cons.length] do
        let (c, _) := b.cons.getD j (0, 0)
        let cs := ps[c]!
        let cs' := ps'[c]!
        if (b.ioC.getD j []).contains cs.pc && cs'.pc != cs.pc then
          got := got.modify bi fun g => g.modify j (· ++ [cs'.regs.getD (destReg (st.procs[c]!) cs.pc) 0])
      let h' := Hs.Rtl.step (hs[bi]!) { p := wantP, c := wantC }
      hs' := hs'.set! bi h'
      let nv := prod'.oVal.getD b.op false
      let nw := prod'.waitsm && b.ioP.contains prod'.pc
      let nrecv := b.cons.map fun (c, ip) => (ps'[c]!).iRecv.getD ip false
      let ngot := (List.range b.cons.length).map fun j => ((got[bi]!)[j]!).length
      if nv != h'.oVal || nw != h'.waitsm || nrecv != h'.cs.map (·.recv) ||
         (written[bi]!).length != h'.sent.length || ngot != h'.cs.map (·.got.length) then
        return [s!"RT mismatch clock={t} bond={bi} net: v={nv} w={nw} r={joinB nrecv} sent={(written[bi]!).length} got={joinN ngot}" ++
                s!" | abstract: v={h'.oVal} w={h'.waitsm} r={joinB (h'.cs.map (·.recv))} sent={h'.sent.length} got={joinN (h'.cs.map (·.got.length))}"]
    ps := ps'
    hs := hs'
  let mut res := [s!"RT ok clocks={st.ticks}"]
  for bi in [0:B] do
    res := res ++ [s!"RW {bi} {joinN (written[bi]!)}"]
    for j in [0:(st.bonds[bi]!).cons.length] do
      res := res ++ [s!"RR {bi} {j} {joinN ((got[bi]!)[j]!)}"]
  return res

def sget (st : State) (o : Option Nat) : Nat := match o with | some i => st.get i | none => 0
def sgetL (st : State) (l : List (Option Nat)) (j : Nat) : Nat := sget st (l.getD j none)

/-- the same net built from the EMITTED Verilog of each processor under BMV.Vlog, wired as
    Write_verilog_main wires a bond (valid/data forward, received = AND backward) -/
def vlogNet (st : St) : List String := Id.run do
  let P := st.procs.size
  let B := st.bonds.size
  let mut hws : Array Hw := #[]
  for i in [0:P] do
    match (st.procs[i]!).hw with
    | some h => hws := hws.push h
    | none => return [s!"VT unavailable processor {i}: {(st.procs[i]!).hwErr}"]
  let mut sts : Array State := #[]
  for i in [0:P] do
    let h := hws[i]!
    match (do let s0 ← h.d.init; h.d.cycle h.clk s0 [(h.reset, 1)]) with
    | .ok s => sts := sts.push s
    | .error e => return [s!"VT unavailable reset of processor {i}: {e}"]
  let mut hs : Array Hs.Rtl.St := st.bonds.map fun b => Hs.Rtl.init b.cons.length
  let mut written : Array (List Nat) := Array.replicate B []
  let mut got : Array (Array (List Nat)) := st.bonds.map fun b => Array.replicate b.cons.length []
  let dump := fun (written : Array (List Nat)) (got : Array (Array (List Nat))) => Id.run do
    let mut res : List String := []
    for bi in [0:B] do
      res := res ++ [s!"VW {bi} {joinN (written[bi]!)}"]
      for j in [0:(st.bonds[bi]!).cons.length] do
        res := res ++ [s!"VR {bi} {j} {joinN ((got[bi]!)[j]!)}"]
    return res
  for t in [0:st.ticks] do
    let mut sts' := sts
    for i in [0:P] do
      let h := hws[i]!
      let pr := st.procs[i]!
      let mut pins : List (Nat × Nat) := [(h.reset, 0)]
      for j in [0:pr.arch.n] do
        let (data, valid) := match bondOfInput st i j with
          | some b => (sgetL (sts[b.pp]!) (hws[b.pp]!).auxo b.op, sgetL (sts[b.pp]!) (hws[b.pp]!).oval b.op)
          | none => (0, 0)
        match h.inp.getD j none with | some k => pins := pins ++ [(k, data)] | none => pure ()
        match h.ival.getD j none with | some k => pins := pins ++ [(k, valid)] | none => pure ()
      for o in [0:pr.arch.m] do
        let received := match bondOfOutput st i o with
          | some b => !b.cons.isEmpty && b.cons.all fun (c, ip) => sgetL (sts[c]!) (hws[c]!).irecv ip != 0
          | none => false
        match h.orecv.getD o none with | some k => pins := pins ++ [(k, if received then 1 else 0)] | none => pure ()
      match h.d.cycle h.clk (sts[i]!) pins with
      | .ok s => sts' := sts'.set! i s
      | .error e => return [s!"VT mismatch clock={t} processor {i} evaluation error: {e}"]
    let mut hs' := hs
    for bi in [0:B] do
      let b := st.bonds[bi]!
      let ph := hws[b.pp]!
      let ppc := (sts[b.pp]!).get ph.pc
      let ppc' := (sts'[b.pp]!).get ph.pc
      let wantP := b.ioP.contains ppc
      let wantC := (List.range b.cons.length).map fun j =>
        let (c, _) := b.cons.getD j (0, 0)
        (b.ioC.getD j []).contains ((sts[c]!).get (hws[c]!).pc)
      if wantP && ppc' != ppc then
        written := written.modify bi (· ++ [sgetL (sts'[b.pp]!) ph.auxo b.op])
      for j in [0:b.cons.length] do
        let (c, _) := b.cons.getD j (0, 0)
        let h := hws[c]!
        let cpc := (sts[c]!).get h.pc
        if (b.ioC.getD j []).contains cpc && (sts'[c]!).get h.pc != cpc then
          got := got.modify bi fun g => g.modify j (· ++ [(sts'[c]!).get (h.regs.getD (destReg (st.procs[c]!) cpc) 0)])
      let h' := Hs.Rtl.step (hs[bi]!) { p := wantP, c := wantC }
      hs' := hs'.set! bi h'
      let nv := sgetL (sts'[b.pp]!) ph.oval b.op != 0
      let nw := sget (sts'[b.pp]!) ph.waitsm != 0 && b.ioP.contains ppc'
      let nrecv := b.cons.map fun (c, ip) => sgetL (sts'[c]!) (hws[c]!).irecv ip != 0
      let ngot := (List.range b.cons.length).map fun j => ((got[bi]!)[j]!).length
      if !b.sic && (nv != h'.oVal || nw != h'.waitsm || nrecv != h'.cs.map (·.recv) ||
         (written[bi]!).length != h'.sent.length || ngot != h'.cs.map (·.got.length)) then
        return [s!"VT mismatch clock={t} bond={bi} emitted: v={nv} w={nw} r={joinB nrecv} sent={(written[bi]!).length} got={joinN ngot}" ++
                s!" | abstract: v={h'.oVal} w={h'.waitsm} r={joinB (h'.cs.map (·.recv))} sent={h'.sent.length} got={joinN (h'.cs.map (·.got.length))}"] ++
               dump written got
    sts := sts'
    hs := hs'
  return [s!"VT ok clocks={st.ticks}"] ++ dump written got

def step (st : St) (line : String) : St × List String :=
  if line.startsWith "M " && (line.splitOn " ").getD 2 "" == "H" then
    let parts := line.splitOn " "
    let i := nat! (parts.getD 1 "0")
    let rest := (line.drop (("M " ++ parts.getD 1 "0" ++ " H ").length)).toString
    if rest.startsWith "err" then (setProc st i fun p => { p with hw := none, hwErr := rest }, [])
    else match mkHw ((st.procs[i]?.getD default).arch) rest with
      | .ok h => (setProc st i fun p => { p with hw := some h }, [])
      | .error e => (setProc st i fun p => { p with hw := none, hwErr := "rejected " ++ e }, [])
  else
  let fs := fields line
  match fs with
  | "N" :: _ => ({}, [line])
  | "M" :: i :: "A" :: rest =>
    match parseArch rest with
    | some a => (setProc st (nat! i) fun p => { p with arch := a }, [])
    | none => (st, ["bad-arch"])
  | "M" :: _ :: "S" :: _ => (st, [])
  | "M" :: i :: "P" :: ws => (setProc st (nat! i) fun p => { p with prog := ws.map ofString01 }, [])
  | ["B", b, pp, op, cl] =>
    let pidx := fun (x : String) => if x == "e" then envP else nat! x
    let cons := (commaList cl).map fun c =>
      match c.splitOn ":" with
      | [x, y] => (pidx x, nat! y)
      | _ => (0, 0)
    let st' := setBond st (nat! b) fun _ => { pp := pidx pp, op := nat! op, cons, ioC := cons.map fun _ => [] }
    ({ st' with isa := st'.bonds.map fun bd => Hs.Isa.init bd.cons.length }, [])
  | "SIC" :: b :: _ => (setBond st (nat! b) fun bd => { bd with sic := true }, [])
  | "IO" :: b :: who :: rest =>
    let pcs := nats (rest.getD 0 "")
    match who.splitOn ":" with
    | [c, ip] =>
      (setBond st (nat! b) fun bd =>
        match bd.cons.findIdx? (· == (nat! c, nat! ip)) with
        | some j => { bd with ioC := bd.ioC.set j pcs }
        | none => bd, [])
    | _ => (setBond st (nat! b) fun bd => { bd with ioP := pcs }, [])
  | "T" :: _ => (st, [line])
  | "D" :: _ => (st, [line])
  | "G" :: rest =>
    let pre := nats ((kv rest "pre").getD "")
    -- a processor inside a simulated latency (DelayCounter > 0) executes nothing in this tick
    let dl := nats ((kv rest "dl").getD "")
    let atIO := fun (p : Nat) (io : List Nat) => io.contains (pre.getD p 0) && dl.getD p 0 == 0
    -- the environment's ends: whether it acts in this tick is its own (arbitrary) choice, read off the run
    let bits := fun (key : String) => (commaList ((kv rest key).getD "")).map (· == "1")
    let isa' := (Array.range st.bonds.size).map fun bi =>
      let b := st.bonds[bi]!
      let wcEnv := bits s!"wc{bi}"
      let wantC := (List.range b.cons.length).map fun j =>
        let c := (b.cons.getD j (0, 0)).1
        if c == envP then wcEnv.getD j false else atIO c (b.ioC.getD j [])
      let wantP := if b.pp == envP then (bits s!"wp{bi}").getD 0 false else atIO b.pp b.ioP
      Hs.Isa.step (st.isa[bi]!) { p := wantP, c := wantC }
    let outs := (List.range st.bonds.size).map fun bi =>
      let s := st.isa[bi]!
      let s' := isa'[bi]!
      let ps := s'.sent.length != s.sent.length
      let cs := (s'.cs.zip s.cs).map fun (a, b) => a.got.length != b.got.length
      s!"v{bi}={if s'.valid then 1 else 0} r{bi}={joinB (s'.cs.map (·.recv))} ps{bi}={if ps then 1 else 0} cs{bi}={joinB cs} n{bi}={s'.sent.length}"
    ({ st with isa := isa', ticks := st.ticks + 1 }, ["g " ++ " ".intercalate outs])
  | "W" :: _ => (st, [line])
  | "R" :: _ => (st, [line])
  | ["E"] =>
    -- nets with ends in the environment: the top-level wiring of external ports is C02's subject,
    -- the hardware nets here are built from processors only
    if st.bonds.any fun b => b.pp == envP || b.cons.any (·.1 == envP) then (st, ["RT skipped environment", "VT skipped environment"])
    else if st.procs.any halts then (st, ["RT skipped halting", "VT skipped halting"])
    else if st.procs.any fun p => p.arch.ops.contains "sicv3" then (st, ["RT skipped sicv3"] ++ vlogNet st)   -- BMV.Rtl has no sicv3
    else (st, rtlNet st ++ vlogNet st)
  | _ => (st, [])

def main : IO Unit := do
  let _ ← foldStdin ({} : St) step
