/-
  Oracle for C08.
    oracle-c08 pairs      verdict of the decision procedure for every pair of BMV.Gen.matchers that
                          is not `.disjoint` (P i j overlap : <code points> | P i j unknown), then
                          `PAIRS <n> <bad>`; also the historic pair (OLD ...)
    oracle-c08            (stdin) W lines -> R <hex> <mask>  (matchStr of every regenerated matcher)
                                  N lines -> C <hex> ...     (BMV.Numbers import/export model) or U <hex>
-/
import BMV.Regex
import BMV.Numbers
import BMV.Gen.Matchers
import BMV.Lines
open BMV.Regex BMV.Numbers BMV.Lines

def cpsOf (fs : List String) : List Nat := fs.map nat!

def str (w : List Nat) : String := String.ofList (w.map Char.ofNat)

def hexByte (b : Nat) : String :=
  let d (x : Nat) : Char := Char.ofNat (digitChar x)
  String.ofList [d (b / 16), d (b % 16)]

def hexBytes (bs : List Nat) : String :=
  if bs.isEmpty then "-" else String.join (bs.map hexByte)

def tyName : NType → String
  | .unsigned => "unsigned" | .signed => "signed" | .hex => "hex" | .bin => "bin"

def optS (o : Option (List Nat)) : String :=
  match o with | some s => str s | none => "!err"

def strE (s : List Nat) : String := if s.isEmpty then "hex:" else str s

/-- the OmitPrefix fields: op=<text with the option> ort=<re-import of ShowPrefix ++ that text> -/
def omitFields (t : NType) (es : Option (List Nat)) : String :=
  match es with
  | none => "op=!err ort=-"
  | some e =>
    let o := omitPrefix t e
    match importString (showPrefix t ++ o) with
    | none => s!"op={strE o} ort=err"
    | some m => s!"op={strE o} ort=ok orty={tyName m.ty} orbits={m.bits} orbytes={hexBytes m.bytes}"

def caseLine (hex : String) (ns : List Nat) (s : List Nat) (spec : Bool) : String :=
  match importString s with
  | none => s!"C {hex} imp=err"
  | some v =>
    let es := if spec then exportStringSpec v else exportString v
    let nb := ";".intercalate (ns.map fun k => s!"{k}:{optS (exportBinaryNBits v k)}")
    let rt := match es with
      | none => "rt=-"
      | some e => match importString e with
        | none => "rt=err"
        | some m => s!"rt=ok rty={tyName m.ty} rbits={m.bits} rbytes={hexBytes m.bytes}"
    s!"C {hex} imp=ok ty={tyName v.ty} bits={v.bits} bytes={hexBytes v.bytes} es={optS es} eb={str (exportBinary false v)} ebs={str (exportBinary true v)} vb={str (exportVerilogBinary v)} nb={nb} {rt} {omitFields v.ty es}"

def hexVal (c : Char) : Nat := digitVal c.toNat

def unhexBytes (h : String) : List Nat :=
  let rec go : List Char → List Nat
    | a :: b :: rest => (hexVal a * 16 + hexVal b) :: go rest
    | _ => []
  if h = "-" then [] else go h.toList

/-- observables of a value built by ImportUint / ImportBytes (same fields as the harness' VC line) -/
def valueLine (v : BMNumber) : String :=
  let es := exportStringSpec v
  let u := match exportUint64 v with | some n => toString n | none => "!err"
  let nbF := if 1 ≤ v.bits && v.bits ≤ 4096 then s!"nb={v.bits}:{optS (exportBinaryNBits v v.bits)}" else "nb=-"
  let brt := match importString (exportBinary true v) with
    | none => "brt=err"
    | some m => s!"brt=ok:{tyName m.ty}:{m.bits}:{hexBytes m.bytes}"
  let rt := match es with
    | none => "rt=-"
    | some e => match importString e with
      | none => "rt=err"
      | some m => s!"rt=ok rty={tyName m.ty} rbits={m.bits} rbytes={hexBytes m.bytes}"
  s!"ty={tyName v.ty} bits={v.bits} bytes={hexBytes v.bytes} u64={u} es={optS es} eb={str (exportBinary false v)} ebs={str (exportBinary true v)} vb={str (exportVerilogBinary v)} {nbF} {brt} {rt} {omitFields v.ty es}"

def step (_ : Unit) (line : String) : Unit × List String :=
  let fs := fields line
  match fs with
  | "W" :: hex :: ":" :: rest =>
    let s := cpsOf rest
    let mask := String.ofList (BMV.Gen.matchers.map fun r => if matchStr r s then '1' else '0')
    ((), [s!"R {hex} {mask}"])
  | "N" :: hex :: ns :: ":" :: rest =>
    let s := cpsOf rest
    match classify s with
    | .unmodelled => ((), [s!"U {hex}"])
    | _ =>
      let nl := (commaList ns).map nat!
      let l1 := caseLine hex nl s false
      let isSigned : Bool := match importString s with | some v => v.ty == .signed | none => false
      if isSigned then ((), [l1, "CF" ++ (caseLine hex nl s true).drop 1]) else ((), [l1])
  | "V" :: "uint" :: w :: v :: ob :: _ =>
    ((), [s!"VC uint {w} {v} {ob} " ++ valueLine (importUint (nat! w) (nat! v) (ob.toInt?.getD 0))])
  | "V" :: "show" :: w :: v :: tn :: _ =>
    -- the simulator's show path: ImportUint(value, t.GetSize()) then CastType(t); any-size types only
    let t? : Option NType := if tn = "unsigned" then some .unsigned else if tn = "signed" then some .signed
      else if tn = "hex" then some .hex else if tn = "bin" then some .bin else none
    match t? with
    | some t => ((), [s!"VC show {w} {v} {tn} size=-1 " ++ valueLine (castType (importUint (nat! w) (nat! v) (-1)) t)])
    | none => ((), [s!"VU show {w} {v} {tn}"])
  | "V" :: "bytes" :: bits :: behex :: cast :: _ =>
    let t : NType := if cast = "hex" then .hex else if cast = "bin" then .bin else .unsigned
    ((), [s!"VC bytes {bits} {behex} {cast} " ++ valueLine (castType (importBytes (unhexBytes behex) (nat! bits)) t)])
  | _ => ((), [])

def cpsStr (w : List Nat) : String := " ".intercalate (w.map fun n => Nat.repr n)

def showVerdict (tag : String) (i j : Nat) (v : Verdict) : String :=
  match v with
  | .disjoint => s!"{tag} {i} {j} disjoint"
  | .overlap w => s!"{tag} {i} {j} overlap : {cpsStr w}"
  | .unknown => s!"{tag} {i} {j} unknown"

/-- the two pairs that overlapped before the fix 2553f67 (unescaped dot) -/
def digitR : Regex := .cls false [(48, 57)]
def oldPlainU : Regex := Regex.seq [Regex.chr 48, Regex.chr 117, Regex.plus digitR]
def oldDotU : Regex := Regex.seq [Regex.chr 48, Regex.chr 117, Regex.plus digitR, Regex.any, Regex.plus (Regex.chr 48)]

def main (args : List String) : IO UInt32 := do
  match args with
  | ["pairs"] =>
    let bad := allBad 0 BMV.Gen.matchers
    for (i, j, v) in bad do
      IO.println (showVerdict "P" i j v)
    IO.println s!"PAIRS {BMV.Gen.matchers.length} {bad.length}"
    IO.println (showVerdict "OLD" 0 0 (verdict oldPlainU oldDotU))
    return 0
  | _ =>
    let _ ← foldStdin () step
    return 0
