/-
  Oracle for C13.  Reads the harness' lines on stdin:

    C <id> fifo=<0|1> depth=<D> ns=<n> nr=<n> dsize=<w> top=<module> senders=a,b receivers=c,d
    V <one-line S-expression of the parsed Verilog file set>
    T <id> <mode> <pRaiseS> <pRaiseR> <pDrop> <w0>,<w1>,…   mode = agents | raw ; w = hex word per cycle
    X <id> <maxStates>                               exhaustive exploration (BFS, all input valuations)
    S                                                run the Vlog engine self-tests

  and prints one result line per C/T/X/S line:

    C <id> ok regs=<n> | C <id> ERROR <msg>
    T <id> ok cycles=… wfire=… rfire=… full=… empty=… resets=… maxocc=… wrap=… blockedW=… contended=…
    T <id> FAIL kind=<mismatch|property|vlog-error|model-inv> cycle=<k> <detail>
    X <id> ok states=… transitions=… | X <id> FAIL …

  For every cycle the SAME input valuation is applied to `Vlog.cycle` on the parsed module and to
  `Stack.step`; afterwards ALL registers of the module are compared with the model state.  The
  property itself is evaluated on the implementation's outputs alone by a scoreboard (`sb`): every
  rising Ack is a transfer, writes append, reads must return the element prescribed by the
  discipline, flags must reflect the occupancy, a held request must be acknowledged within the
  bound of the liveness theorems.
-/
import BMV.Stack
import BMV.Lines
import BMV.Vlog.Elab
import BMV.Vlog.SelfTest
import Std.Data.HashSet
open BMV.Stack BMV.Lines BMV.Vlog

structure Agent where
  data : Nat
  req : Nat      -- Write / Read input
  ack : Nat
  name : String
deriving Inhabited

structure Ix where
  clk : Nat
  reset : Nat
  empty : Nat
  full : Nat
  memory : Nat
  sp : Nat
  rp : Option Nat
  wp : Option Nat
  sendSM : Nat
  recvSM : Nat
  snd : Array Agent
  rcv : Array Agent
  /-- every signal of kind reg, to detect registers the model does not know -/
  nregs : Nat

structure Cfg13 where
  id : String
  c : Cfg
  dsize : Nat
  d : Design
  ix : Ix

def mkIx (d : Design) (c : Cfg) (senders receivers : List String) : R Ix := do
  let ag (kind : String) (n : String) : R Agent := do
    pure ⟨← d.sigIdx (n ++ "Data"), ← d.sigIdx (n ++ kind), ← d.sigIdx (n ++ "Ack"), n⟩
  let snd ← senders.mapM (ag "Write")
  let rcv ← receivers.mapM (ag "Read")
  let rp ← if c.fifo then some <$> d.sigIdx "readsp" else pure none
  let wp ← if c.fifo then some <$> d.sigIdx "writesp" else pure none
  let ix : Ix := { clk := ← d.sigIdx "clk", reset := ← d.sigIdx "reset", empty := ← d.sigIdx "empty",
                   full := ← d.sigIdx "full", memory := ← d.sigIdx "memory", sp := ← d.sigIdx "sp",
                   rp, wp, sendSM := ← d.sigIdx "sendSM", recvSM := ← d.sigIdx "recvSM",
                   snd := snd.toArray, rcv := rcv.toArray, nregs := 0 }
  -- every register of the design must be one the model knows (the loop variable `i` is scratch)
  let known : List Nat := [ix.memory, ix.sp, ix.sendSM, ix.recvSM] ++ ix.rp.toList ++ ix.wp.toList
    ++ snd.map (·.ack) ++ rcv.map (·.ack) ++ rcv.map (·.data)
  let mut n := 0
  for i in [0:d.sigs.size] do
    let s := d.sigs[i]!
    if s.kind == .reg && !s.isInt then
      n := n + 1
      if !known.contains i then throw s!"register {s.name} of the emitted module is not modelled"
  if !c.fifo && (d.sigIdx? "readsp").isSome then throw "LIFO module has a readsp register"
  let mem := d.sigs[ix.memory]!
  if mem.depth != c.D then throw s!"memory depth {mem.depth} ≠ configured depth {c.D}"
  d.checkClock ix.clk
  pure { ix with nregs := n }

/-- model state ← registers of the circuit -/
def readBack (k : Cfg13) (st : State) : S Nat :=
  let ix := k.ix
  let mem := st[ix.memory]?.getD #[]
  { mem := fun i => mem[i]?.getD 0
    sp := st.get ix.sp
    rp := (ix.rp.map st.get).getD 0
    wp := (ix.wp.map st.get).getD 0
    sendSM := st.get ix.sendSM
    recvSM := st.get ix.recvSM
    sAck := fun i => (ix.snd[i]?.map fun a => st.get a.ack == 1).getD false
    rAck := fun i => (ix.rcv[i]?.map fun a => st.get a.ack == 1).getD false
    rData := fun i => (ix.rcv[i]?.map fun a => st.get a.data).getD 0 }

/-- canonical register valuation of a model state (used for comparison and as BFS key) -/
def modelKey (c : Cfg) (s : S Nat) : List Nat :=
  (List.range c.D).map s.mem ++ [s.sp, s.rp, s.wp, s.sendSM, s.recvSM]
    ++ (List.range c.nS).map (fun i => if s.sAck i then 1 else 0)
    ++ (List.range c.nR).map (fun i => if s.rAck i then 1 else 0)
    ++ (List.range c.nR).map s.rData

/-- rebuild a model state from its key (keeps closures shallow on long traces) -/
def ofKey (c : Cfg) (l : List Nat) : S Nat :=
  let a := l.toArray
  let g (i : Nat) := a[i]?.getD 0
  let o := c.D
  { mem := fun i => if i < c.D then g i else 0
    sp := g o, rp := g (o + 1), wp := g (o + 2), sendSM := g (o + 3), recvSM := g (o + 4)
    sAck := fun i => i < c.nS && g (o + 5 + i) == 1
    rAck := fun i => i < c.nR && g (o + 5 + c.nS + i) == 1
    rData := fun i => if i < c.nR then g (o + 5 + c.nS + c.nR + i) else 0 }

def keyNames (k : Cfg13) : List String :=
  (List.range k.c.D).map (fun i => s!"memory[{i}]") ++ ["sp", "readsp", "writesp", "sendSM", "recvSM"]
    ++ k.ix.snd.toList.map (·.name ++ "Ack") ++ k.ix.rcv.toList.map (·.name ++ "Ack")
    ++ k.ix.rcv.toList.map (·.name ++ "Data")

/-- first register on which circuit and model differ (also the two flag outputs) -/
def compareAll (k : Cfg13) (st : State) (s : S Nat) : Option String :=
  let a := modelKey k.c (readBack k st)
  let b := modelKey k.c s
  let names := keyNames k
  let diffs := (List.zip names (List.zip a b)).filter fun (_, x, y) => x != y
  match diffs with
  | (n, x, y) :: _ => some s!"reg={n} vlog={x} model={y}"
  | [] =>
    let e := st.get k.ix.empty
    let f := st.get k.ix.full
    if e != (if s.empty then 1 else 0) then some s!"reg=empty vlog={e} model={s.empty}"
    else if f != (if s.full k.c then 1 else 0) then some s!"reg=full vlog={f} model={s.full k.c}"
    else none

/-- the model's own invariant, evaluated (cross-check of the theorem `inv_step`) -/
def invB (c : Cfg) (s : S Nat) : Bool :=
  decide (s.sp ≤ c.D) && decide (s.sendSM < c.nS) && decide (s.recvSM < c.nR) &&
  (if c.fifo then decide (s.rp < c.D) && decide (s.wp < c.D) && (s.rp + s.sp) % c.D == s.wp
   else s.rp == 0 && s.wp == 0)

structure InVal where
  reset : Bool
  wr : Array Bool
  wdata : Array Nat
  rd : Array Bool

def InVal.toModel (i : InVal) : In Nat :=
  { reset := i.reset, wr := fun k => i.wr[k]?.getD false, wdata := fun k => i.wdata[k]?.getD 0,
    rd := fun j => i.rd[j]?.getD false }

def InVal.toVlog (k : Cfg13) (i : InVal) : List (Nat × Nat) :=
  let b (x : Bool) : Nat := if x then 1 else 0
  [(k.ix.reset, b i.reset)]
  ++ (List.range k.ix.snd.size).flatMap (fun n =>
      let a := k.ix.snd[n]!
      [(a.req, b (i.wr[n]?.getD false)), (a.data, i.wdata[n]?.getD 0)])
  ++ (List.range k.ix.rcv.size).map (fun n => ((k.ix.rcv[n]!).req, b (i.rd[n]?.getD false)))

/-- running statistics of a trace (the "branches hit" of the evidence) -/
structure Stats where
  cycles : Nat := 0
  wfire : Nat := 0
  rfire : Nat := 0
  fullSeen : Nat := 0
  emptySeen : Nat := 0
  resets : Nat := 0
  maxocc : Nat := 0
  wrap : Nat := 0        -- FIFO pointer wrapped / LIFO reached depth
  blockedW : Nat := 0    -- a write request waited because reads had priority
  contended : Nat := 0   -- more than one agent of a side requesting in a cycle

structure Run where
  st : State
  s : S Nat
  sb : List Nat := []      -- scoreboard: elements the implementation has acknowledged, oldest first
  prev : InVal             -- inputs of the previous cycle (agents keep requests/data stable)
  stats : Stats := {}
  mismatch : Option (Nat × String) := none   -- first register disagreement circuit/model
  /-- per sender: write-enabled cycles its current un-acknowledged request has waited -/
  wWait : Array Nat := #[]
  /-- per receiver: consecutive non-empty cycles its current un-acknowledged request has waited -/
  rWait : Array Nat := #[]

def hexVal (s : String) : Nat :=
  s.toList.foldl (fun acc c =>
    let d := if '0' ≤ c ∧ c ≤ '9' then c.toNat - 48 else if 'a' ≤ c ∧ c ≤ 'f' then c.toNat - 87
             else if 'A' ≤ c ∧ c ≤ 'F' then c.toNat - 55 else 0
    acc * 16 + d) 0

def bitsAt (w lo n : Nat) : Nat := (w >>> lo) % (2 ^ n)

/-- inputs of this cycle from the random word.
    agents: idle → raise with probability pRaiseS/8 (senders), pRaiseR/8 (receivers) (new data); requesting, no ack → hold request
    and data; acknowledged → drop with probability pDrop/8.  raw: everything random, reset 1/64. -/
def nextInputs (k : Cfg13) (mode : String) (pRaiseS pRaiseR pDrop : Nat) (w : Nat) (r : Run) : InVal :=
  let nS := k.c.nS
  let nR := k.c.nR
  let dmask := 2 ^ k.dsize
  if mode == "raw" then
    { reset := bitsAt w 0 6 == 0
      wr := (Array.range nS).map fun a => bitsAt w (8 + 3 * a) 1 == 1
      rd := (Array.range nR).map fun a => bitsAt w (8 + 3 * (nS + a)) 1 == 1
      wdata := (Array.range nS).map fun a => bitsAt w (32 + 8 * a) 8 % dmask }
  else
    let ack (a : Agent) := r.st.get a.ack == 1
    let choose (pRaise : Nat) (req : Bool) (acked : Bool) (ch : Nat) : Bool :=
      if !req then decide (ch < pRaise) else if acked then !(decide (ch < pDrop)) else true
    let wr := (Array.range nS).map fun a =>
      choose pRaiseS (r.prev.wr[a]?.getD false) (ack (k.ix.snd[a]!)) (bitsAt w (8 + 3 * a) 3)
    let rd := (Array.range nR).map fun a =>
      choose pRaiseR (r.prev.rd[a]?.getD false) (ack (k.ix.rcv[a]!)) (bitsAt w (8 + 3 * (nS + a)) 3)
    let wdata := (Array.range nS).map fun a =>
      if r.prev.wr[a]?.getD false then r.prev.wdata[a]?.getD 0 else bitsAt w (32 + 8 * a) 8 % dmask
    { reset := false, wr, rd, wdata }

def countTrue (a : Array Bool) : Nat := a.foldl (fun n b => if b then n + 1 else n) 0

/-- one cycle on both sides + all checks; `Except.error (kind, detail)` on the first failure -/
def stepBoth (k : Cfg13) (r : Run) (i : InVal) : Except (String × String) Run := do
  let c := k.c
  let st' ← match k.d.cycle k.ix.clk r.st (i.toVlog k) with
    | .ok s => pure s
    | .error e => throw ("vlog-error", e)
  let sm := ofKey c (modelKey c (step 0 c r.s i.toModel))
  -- (1) all registers.  A disagreement is remembered (first one wins) and the model is
  -- re-synchronised to the circuit, so that the scoreboard keeps judging the implementation
  -- on the rest of the trace (search for a failing input of the property itself).
  let mm := compareAll k st' sm
  let mm := match mm with
    | some m => some m
    | none => if invB c sm then none else some "the model left its invariant"
  let s' := if mm.isSome then readBack k st' else sm
  let mismatch := match r.mismatch, mm with
    | some x, _ => some x
    | none, some m => some (r.stats.cycles, m)
    | none, none => none
  -- (2) the property on the implementation's outputs: scoreboard
  let rise (a : Agent) : Bool := r.st.get a.ack == 0 && st'.get a.ack == 1
  let wr := (List.range c.nS).filter fun n => rise (k.ix.snd[n]!)
  let rd := (List.range c.nR).filter fun n => rise (k.ix.rcv[n]!)
  let sb ← (if i.reset then
      if wr.isEmpty && rd.isEmpty then pure [] else throw ("property", "ack raised during reset")
    else match wr, rd with
    | [], [] => pure r.sb
    | [n], [] =>
      if r.sb.length ≥ c.D then throw ("property", s!"write by sender {n} acknowledged while {r.sb.length} = depth elements are stored")
      else pure (r.sb ++ [i.wdata[n]?.getD 0])
    | [], [n] =>
      let got := st'.get (k.ix.rcv[n]!).data
      if c.fifo then
        match r.sb with
        | [] => throw ("property", s!"read by receiver {n} acknowledged while empty")
        | x :: rest => if got == x then pure rest else
          throw ("property", s!"receiver {n} got {got}, the FIFO discipline prescribes {x} (stored: {r.sb})")
      else
        match r.sb.getLast? with
        | none => throw ("property", s!"read by receiver {n} acknowledged while empty")
        | some x => if got == x then pure r.sb.dropLast else
          throw ("property", s!"receiver {n} got {got}, the LIFO discipline prescribes {x} (stored: {r.sb})")
    | _, _ => throw ("property", s!"several acknowledges in one cycle: senders {wr} receivers {rd}"))
  let e := st'.get k.ix.empty == 1
  let f := st'.get k.ix.full == 1
  if e != sb.isEmpty then throw ("property", s!"empty={e} with {sb.length} stored elements")
  if f != (sb.length == c.D) then throw ("property", s!"full={f} with {sb.length} of {c.D} stored elements")
  -- an acknowledged request holds its ack until the request drops
  for n in List.range c.nS do
    let a := k.ix.snd[n]!
    if !i.reset && r.st.get a.ack == 1 && st'.get a.ack != (if i.wr[n]?.getD false then 1 else 0) then
      throw ("property", s!"ack of sender {n} not held until the request drops")
  for n in List.range c.nR do
    let a := k.ix.rcv[n]!
    if !i.reset && r.st.get a.ack == 1 && st'.get a.ack != (if i.rd[n]?.getD false then 1 else 0) then
      throw ("property", s!"ack of receiver {n} not held until the request drops")
  -- bounded response (theorems `bounded_response_write/read`, judged on the circuit's outputs):
  -- an un-acknowledged held write is served within nS write-enabled cycles, a held read within nR
  -- consecutive non-empty cycles
  let preEmpty := r.st.get k.ix.empty == 1
  let preFull := r.st.get k.ix.full == 1
  let enabled := !i.reset && !(countTrue i.rd > 0 && !preEmpty) && !preFull
  let mut wWait : Array Nat := #[]
  for n in List.range c.nS do
    let a := k.ix.snd[n]!
    let w0 := r.wWait[n]?.getD 0
    let waiting := !i.reset && (i.wr[n]?.getD false) && r.st.get a.ack == 0
    let w1 := if !waiting || wr.contains n then 0 else if enabled then w0 + 1 else w0
    if w1 ≥ c.nS then
      throw ("property", s!"sender {n} kept its request for {w1} write-enabled cycles (number of senders: {c.nS}) without being acknowledged")
    wWait := wWait.push w1
  let mut rWait : Array Nat := #[]
  for n in List.range c.nR do
    let a := k.ix.rcv[n]!
    let w0 := r.rWait[n]?.getD 0
    let waiting := !i.reset && (i.rd[n]?.getD false) && r.st.get a.ack == 0 && !preEmpty
    let w1 := if !waiting || rd.contains n then 0 else w0 + 1
    if w1 ≥ c.nR then
      throw ("property", s!"receiver {n} kept its request for {w1} non-empty cycles (number of receivers: {c.nR}) without being acknowledged")
    rWait := rWait.push w1
  let t := r.stats
  let wrapped := if c.fifo then (s'.wp == 0 && r.s.wp != 0) || (s'.rp == 0 && r.s.rp != 0) else s'.sp == c.D
  let stats : Stats :=
    { cycles := t.cycles + 1, wfire := t.wfire + wr.length, rfire := t.rfire + rd.length
      fullSeen := t.fullSeen + (if f then 1 else 0), emptySeen := t.emptySeen + (if e then 1 else 0)
      resets := t.resets + (if i.reset then 1 else 0), maxocc := max t.maxocc sb.length
      wrap := t.wrap + (if wrapped then 1 else 0)
      blockedW := t.blockedW + (if !i.reset && rBranch c r.s i.toModel && countTrue i.wr > 0 then 1 else 0)
      contended := t.contended + (if countTrue i.wr > 1 || countTrue i.rd > 1 then 1 else 0) }
  pure { st := st', s := s', sb, prev := i, stats, mismatch, wWait, rWait }

def idleIn (c : Cfg) (reset : Bool) : InVal :=
  { reset, wr := Array.replicate c.nS false, wdata := Array.replicate c.nS 0, rd := Array.replicate c.nR false }

/-- power-on (all storage zero) followed by one reset cycle -/
def startRun (k : Cfg13) : Except (String × String) Run := do
  let st0 ← match k.d.init with
    | .ok s => pure s
    | .error e => throw ("vlog-error", e)
  let r0 : Run := { st := st0, s := reset 0, prev := idleIn k.c true }
  stepBoth k r0 (idleIn k.c true)

def runTrace (k : Cfg13) (mode : String) (pRaiseS pRaiseR pDrop : Nat) (ws : List Nat) : String :=
  match startRun k with
  | .error (kind, m) => s!"FAIL kind={kind} cycle=0 {m}"
  | .ok r0 =>
    let rec go (r : Run) (n : Nat) : List Nat → String
      | [] =>
        let t := r.stats
        if let some (cy, m) := r.mismatch then s!"FAIL kind=mismatch cycle={cy} {m} (scoreboard clean on all {t.cycles} cycles)" else
        s!"ok cycles={t.cycles} wfire={t.wfire} rfire={t.rfire} full={t.fullSeen} empty={t.emptySeen} resets={t.resets} maxocc={t.maxocc} wrap={t.wrap} blockedW={t.blockedW} contended={t.contended}"
      | w :: ws =>
        match stepBoth k r (nextInputs k mode pRaiseS pRaiseR pDrop w r) with
        | .ok r' => go r' (n + 1) ws
        | .error (kind, m) =>
          let note := match r.mismatch with
            | some (cy, mm) => s!" [first register disagreement at cycle {cy}: {mm}]"
            | none => ""
          s!"FAIL kind={kind} cycle={n} {m}{note}"
    go r0 1 ws

/-! exhaustive exploration -/

/-- all input valuations: one with reset, and every combination of requests and data without -/
def allInputs (k : Cfg13) : List InVal :=
  let nS := k.c.nS
  let nR := k.c.nR
  let bits := nS + nR + nS * k.dsize
  idleIn k.c true :: (List.range (2 ^ bits)).map fun v =>
    { reset := false
      wr := (Array.range nS).map fun a => bitsAt v a 1 == 1
      rd := (Array.range nR).map fun a => bitsAt v (nS + a) 1 == 1
      wdata := (Array.range nS).map fun a => bitsAt v (nS + nR + a * k.dsize) k.dsize }

/-- the circuit state restricted to its registers (inputs and wires are functions of them and
    of the next inputs) -/
def regKey (k : Cfg13) (st : State) : List Nat := modelKey k.c (readBack k st)

partial def bfs (k : Cfg13) (maxStates : Nat) : String := Id.run do
  match startRun k with
  | .error (kind, m) => return s!"FAIL kind={kind} cycle=0 {m}"
  | .ok r0 =>
    let ins := allInputs k
    let mut seen : Std.HashSet (List Nat) := {}
    seen := seen.insert (regKey k r0.st)
    let mut frontier : Array Run := #[r0]
    let mut trans := 0
    while !frontier.isEmpty do
      let mut next : Array Run := #[]
      for r in frontier do
        for i in ins do
          -- the scoreboard of a state is its abstraction (already compared equal to the model's)
          let r := { r with sb := abs k.c r.s, wWait := #[], rWait := #[] }
          match stepBoth k r i with
          | .error (kind, m) =>
            return s!"FAIL kind={kind} state={regKey k r.st} input=reset:{i.reset},wr:{i.wr},rd:{i.rd},data:{i.wdata} {m}"
          | .ok r' =>
            if let some (_, m) := r'.mismatch then
              return s!"FAIL kind=mismatch state={regKey k r.st} input=reset:{i.reset},wr:{i.wr},rd:{i.rd},data:{i.wdata} {m}"
            trans := trans + 1
            let key := regKey k r'.st
            if !seen.contains key then
              seen := seen.insert key
              next := next.push { r' with stats := {} }
      if seen.size > maxStates then
        return s!"FAIL kind=bound states>{maxStates}"
      frontier := next
    return s!"ok states={seen.size} transitions={trans} inputs={ins.length}"

/-! line protocol -/

structure St where
  cfgLine : Option (String × Cfg × Nat × List String × List String × String) := none
  cur : Option Cfg13 := none

def parseCfg (fs : List String) : Option (String × Cfg × Nat × List String × List String × String) :=
  match fs with
  | id :: rest =>
    let g (key : String) := (kv rest key).getD ""
    some (id, { fifo := g "fifo" == "1", D := nat! (g "depth"), nS := nat! (g "ns"), nR := nat! (g "nr") },
          nat! (g "dsize"), commaList (g "senders"), commaList (g "receivers"), g "top")
  | _ => none

def stepLine (s : St) (line : String) : St × List String :=
  if line.startsWith "C " then
    ({ cfgLine := parseCfg (fields (line.drop 2).toString), cur := none }, [])
  else if line.startsWith "V " then
    match s.cfgLine with
    | none => (s, ["C ? ERROR V line without C line"])
    | some (id, c, dsize, snd, rcv, top) =>
      let res : R Cfg13 := do
        if !(decide c.WF) then throw "configuration outside the model (depth, senders, receivers ≥ 1)"
        if snd.length != c.nS || rcv.length != c.nR then throw "sender/receiver lists do not match ns/nr"
        let d ← Design.ofString (line.drop 2).toString (if top == "" then none else some top)
        let ix ← mkIx d c snd rcv
        pure { id, c, dsize, d, ix }
      match res with
      | .ok k => ({ s with cur := some k }, [s!"C {id} ok regs={k.ix.nregs} sigs={k.d.sigs.size}"])
      | .error e => ({ s with cur := none }, [s!"C {id} ERROR {e}"])
  else if line.startsWith "T " then
    match fields line, s.cur with
    | [_, id, mode, ps, pr, pd, ws], some k =>
      (s, [s!"T {id} " ++ runTrace k mode (nat! ps) (nat! pr) (nat! pd) ((ws.splitOn ",").map hexVal)])
    | _ :: id :: _, none => (s, [s!"T {id} FAIL kind=no-design cycle=0 configuration did not elaborate"])
    | _ :: id :: _, some _ => (s, [s!"T {id} FAIL kind=bad-line cycle=0 expected: T id mode pRaiseS pRaiseR pDrop words"])
    | _, _ => (s, ["T ? FAIL kind=bad-line cycle=0"])
  else if line.startsWith "X " then
    match fields line, s.cur with
    | [_, id, mx], some k => (s, [s!"X {id} " ++ bfs k (nat! mx)])
    | _ :: id :: _, _ => (s, [s!"X {id} FAIL kind=no-design"])
    | _, _ => (s, ["X ? FAIL kind=bad-line"])
  else if line == "S" then
    (s, BMV.Vlog.SelfTest.report)
  else (s, [])

def main : IO Unit := do
  let _ ← foldStdin ({} : St) stepLine
