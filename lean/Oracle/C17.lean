/-
  Oracle for C17: reads the batch descriptions (`B ...` lines) printed by harness/cmd/c17, replays
  each batch as a schedule on BMV.Lifecycle under the configuration regenerated from the Go source
  (genCfg / genShut), lets the workers settle, and prints the model's growth per creation site:
    CFG proc=<0|1> disp=.. emu=.. req=.. pool=.. shut:<fn>=<0|1> ...
    X id=<n> proc=<d> disp=<d> emu=<d> req=<d> pool=<d> total=<d>
-/
import BMV.LifecycleGen
import BMV.Lines
open BMV.Lifecycle BMV.Lines

structure OSt where
  sys : Sys := {}
  next : Nat := 0          -- next fresh call id
  held : List Nat := []    -- ReqRoots created by `reqhold` and not yet closed

def b2s (b : Bool) : String := if b then "1" else "0"

def cfgLine : String :=
  s!"CFG proc={b2s genCfg.proc} disp={b2s genCfg.disp} emu={b2s genCfg.emu} req={b2s genCfg.req} pool={b2s genCfg.pool}"
    ++ String.join (launcherNames.map fun (_, n) => s!" shut:{n}={b2s (genShut n)}")

def delta (a b : Sys) (k : Kind) : Int := (liveOf k b : Int) - (liveOf k a : Int)

def report (id : String) (a b : Sys) : String :=
  let ks := Kind.all.map fun k => s!"{k.name}={delta a b k}"
  s!"X id={id} " ++ " ".intercalate ks ++ s!" total={(live b : Int) - (live a : Int)}"

def reqActs (c0 n : Nat) (close : Bool) : List Act :=
  ((List.range n).map fun j =>
    [Act.spawn (c0 + j) .req 1] ++ (if close then [Act.shutdown (c0 + j)] else [])).flatten

def handle (st : OSt) (line : String) : OSt × List String :=
  let fs := fields line
  match fs with
  | "B" :: rest =>
    let id := (kv rest "id").getD "?"
    let mode := (kv rest "mode").getD ""
    let n := nat! ((kv rest "n").getD "0")
    let P := nat! ((kv rest "P").getD "0")
    let ticks := nat! ((kv rest "ticks").getD "1")
    let fn := (kv rest "fn").getD ""
    let shut := match (kv rest "shut").getD "gen" with
      | "gen" => genShut fn
      | "1" => true
      | _ => false
    let s := st.sys
    let (s', next', held') :=
      if mode == "seq" || mode == "seqerr" || mode == "seqdyn" || mode == "seqdly" || mode == "heapdly" || mode == "heapseq" || mode == "fit" || mode == "fiterr" || mode == "spserr" || mode == "raw" then
        (seqBatch genCfg P ticks shut st.next n s, st.next + n, st.held)
      else if mode == "pool" then
        let w := nat! ((kv rest "pool").getD "1")
        let R := nat! ((kv rest "R").getD "1")
        (poolBatch genCfg P ticks shut true w R st.next n s, st.next + n * (R + 1), st.held)
      else if mode == "par" || mode == "pardyn" || mode == "pardly" then
        (parBatch genCfg P ticks shut st.next n s, st.next + n, st.held)
      else if mode == "req" || mode == "basm" then
        (settle genCfg (run genCfg s (reqActs st.next n shut)), st.next + n, st.held)
      else if mode == "reqhold" then
        (settle genCfg (run genCfg s (reqActs st.next n false)), st.next + n,
          st.held ++ (List.range n).map (st.next + ·))
      else if mode == "reqrelease" then
        (settle genCfg (run genCfg s (st.held.map .shutdown)), st.next, [])
      else (s, st.next, st.held)
    ({ sys := s', next := next', held := held' }, [report id s s'])
  | _ => (st, [])

def main : IO Unit := do
  IO.println cfgLine
  let _ ← foldStdin ({} : OSt) handle
  pure ()
