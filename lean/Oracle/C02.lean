/- Oracle for C02 (stub: replaced when the property's model is built). -/
def main : IO Unit := pure ()
