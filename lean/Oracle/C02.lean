/-
  Oracle for C02.  Reads the harness' stream (harness/cmd/c02) case by case and prints, per case:

    G …                       echo of the bond graph line
    N ok names=ok | N differ <what> + NE ok|fail   `BMV.Bond.wire` against the netlist extracted from the
                              emitted bondmachine.v — ports, declarations, instance connections,
                              assigns; names included
    H ok | H rejected … | H err …       the emitted file set, elaborated by BMV.Vlog with top `bondmachine`
    X …                       `BMV.Bm.isaStep` after every V line (compared with the real VM's X line)
    EV ok | EV differ@<tick>  the Lean environment automaton (closed loop with the model) drives
                              exactly what the harness' automaton drove into the real VM
    HI <tick|->               first tick at which the simulator model meets the C04 signature
    MS s;s;…                  delivered streams, simulator model + Lean environment
    RF s;s;…                  streams of the reference network `Bm.refNet` (round-robin schedule)
    SH s;s;…                  delivered streams of the emitted Verilog under BMV.Vlog + Lean environment
    YZ ok <clocks> | YZ differ@<clock> <Y…> <Z…> | YZ fail@<clock> <error>
                              `BMV.Bm.rtlCycle` against the Verilog, every register, every clock
    HR <clock|->              first clock at which the hardware model meets the C04 signature
    SR s;s;…                  delivered streams of `Bm.runRtl` (model + environment, independent loop)
    Z                         end of case
-/
import BMV.Bm
import BMV.Lines
import BMV.Vlog.Elab
open BMV BMV.Bits BMV.Lines BMV.Vlog BMV.Topology BMV.Bond BMV.Bm

def parseBondDots (s : String) : Topology.Bond :=
  match s.splitOn "." with
  | [a, b, c] => ⟨nat! a, nat! b, nat! c⟩
  | _ => ⟨9, 0, 0⟩

def parseGraph (fs : List String) : Option (Nat × Topo) :=
  match fs with
  | "G" :: rs :: i :: o :: rest =>
    let procs := (commaList ((kv rest "P").getD "")).map fun s =>
      match s.splitOn ":" with | [a, b] => (nat! a, nat! b) | _ => (0, 0)
    let iin := (commaList ((kv rest "I").getD "")).map parseBondDots
    let iout := (commaList ((kv rest "O").getD "")).map parseBondDots
    let links := (commaList ((kv rest "L").getD "")).map fun s => if s = "-" then none else some (nat! s)
    some (nat! rs, { inputs := nat! i, outputs := nat! o, procs, iin, iout, links })
  | _ => none

def parseArch (fs : List String) : Option (Nat × Arch) :=
  match fs with
  | [p, rs, r, n, m, l, o, mode, ws, ops] =>
    let opl := (ops.drop 4).toString
    some (nat! p, { rsize := nat! rs, r := nat! r, n := nat! n, m := nat! m, l := nat! l, o := nat! o,
                    mode := if mode = "vn" then .vn else if mode = "hy" then .hy else .ha, wordSize := nat! ws,
                    ops := if opl = "" then [] else opl.splitOn "," })
  | _ => none

def joinN (l : List Nat) : String := ",".intercalate (l.map toString)
def joinB (l : List Bool) : String := ",".intercalate (l.map fun b => if b then "1" else "0")
def bools (s : String) : List Bool := (commaList s).map (· == "1")
def nats (s : String) : List Nat := (commaList s).map nat!
def semiLists (s : String) : List (List Nat) := if s = "" then [] else (s.splitOn ";").map nats
def streamsStr (ss : List (List Nat)) : String := ";".intercalate (ss.map joinN)

def setAt {α} (l : List α) (i : Nat) (x d : α) : List α :=
  (l ++ List.replicate (i + 1 - l.length) d).set i x

/-! ### netlist comparison -/

def tdeclKey (d : TDecl) : String := s!"{d.dir} {d.kind} {d.width} {d.name}"
def instKey (i : String × String × List String) : String := s!"{i.1} {i.2.1} {" ".intercalate i.2.2}"
def assignKey (a : String × String × List String) : String := s!"{a.1} {a.2.1} {" ".intercalate a.2.2}"

def sortS (l : List String) : List String := l.mergeSort (· ≤ ·)

def firstDiff (tag : String) (impl model : List String) : Option String :=
  if impl = model then none
  else
    match impl.find? (fun x => !model.contains x), model.find? (fun x => !impl.contains x) with
    | some x, _ => some s!"{tag}: emitted but not in the model: {x}"
    | none, some y => some s!"{tag}: in the model but not emitted: {y}"
    | none, none => some s!"{tag}: same elements, different order or multiplicity"

def allDistinct (l : List String) : Bool :=
  let s := sortS l
  (s.zip (s.drop 1)).all fun (a, b) => a != b

/-- identifier → net (inverse of `Net.render`); anything else is a net of an endpoint that exists nowhere -/
def parseBondName (s : String) : Topology.Bond :=
  let bad : Topology.Bond := ⟨9, 0, 0⟩
  let num (x : String) : Option Nat := if x.isEmpty then none else x.toNat?
  if s.startsWith "i" then
    match num (s.drop 1).toString with | some k => ⟨0, k, 0⟩ | none => bad
  else if s.startsWith "o" then
    match num (s.drop 1).toString with | some k => ⟨1, k, 0⟩ | none => bad
  else if s.startsWith "p" then
    let rest := (s.drop 1).toString
    match rest.splitOn "i" with
    | [a, b] => match num a, num b with | some p, some k => ⟨2, p, k⟩ | _, _ => bad
    | _ => match rest.splitOn "o" with
      | [a, b] => match num a, num b with | some p, some k => ⟨3, p, k⟩ | _, _ => bad
      | _ => bad
  else bad

def parseNet (s : String) : Net :=
  if s = "clk" then .clk
  else if s = "reset" then .reset
  else if s.endsWith "_valid" then .valid (parseBondName (s.dropEnd 6).toString)
  else if s.endsWith "_received" then .recv (parseBondName (s.dropEnd 9).toString)
  else .data (parseBondName s)

/-- the emitted netlist as a structured one (for the evaluation of `exactB` on the implementation) -/
def structured (impl : TNetlist) : Netlist :=
  { ports := impl.ports.map parseNet
    decls := []
    insts := impl.insts.map fun (md, _, conns) => { proc := ((md.drop 1).toString.toNat?).getD 999, conns := conns.map parseNet }
    assigns := impl.assigns.map fun (lhs, kind, names) =>
      (parseNet lhs, if kind = "id" then .id (parseNet (names.headD "?")) else .and1 (names.map parseNet)) }

/-- declarations of the emitted netlist (executable form of `data_nets_declared`): every data net
    that an instance connection or an assign mentions is declared `rsize` bits wide (an undeclared
    identifier is an implicit 1-bit net), and no valid / received net is declared wider than 1 -/
def declsOk (impl : TNetlist) (rsize : Nat) : Bool :=
  let used := impl.insts.flatMap (fun i => i.2.2) ++ impl.assigns.flatMap (fun a => a.1 :: a.2.2)
  let isData (n : String) : Bool := match parseNet n with | .data b => b.kind ≤ 3 | _ => false
  used.all (fun n => !isData n || impl.decls.any (fun d => d.name == n && d.width == rsize)) &&
  impl.decls.all (fun d => match parseNet d.name with
    | .data b => b.kind > 3 || d.width == rsize
    | .clk => d.width == 1 | .reset => d.width == 1
    | _ => d.width == 1)

def compareNet (impl : TNetlist) (other : Nat) (t : Topo) (rsize : Nat) : String :=
  let nl := wire t rsize
  let model := nl.render
  let checks := [
    firstDiff "ports" impl.ports model.ports,
    firstDiff "decls" (sortS (impl.decls.map tdeclKey)) (sortS (model.decls.map tdeclKey)),
    firstDiff "instances" (sortS (impl.insts.map instKey)) (sortS (model.insts.map instKey)),
    firstDiff "assigns" (sortS (impl.assigns.map assignKey)) (sortS (model.assigns.map assignKey)),
    if other = 0 then none else some s!"other-items: {other} module items that are neither declaration, instance nor assign" ]
  match checks.filterMap id with
  | d :: _ => "N differ " ++ d
  | [] =>
    -- rendering is injective on the nets of this netlist (so the textual netlist has the
    -- connectivity of the structured one that `netlist_exact` speaks about)
    let nets := nl.nets.eraseDups
    if allDistinct (nets.map Net.render) then "N ok names=ok" else "N differ names: two nets render to the same identifier"

/-! ### the emitted hardware -/

structure HwProc where
  pc : Nat
  regs : List Nat
  auxo : List Nat
  oval : List (Option Nat)
  irecv : List (Option Nat)
  waitsm : Option Nat

structure Hw where
  d : Design
  clk : Nat
  reset : Nat
  inp : List Nat
  ival : List Nat
  orecv : List Nat
  outp : List Nat
  oval : List Nat
  irecv : List Nat
  procs : List HwProc

def mkHw (t : Topo) (archs : List Arch) (line : String) : R Hw := do
  let d ← Design.ofString line (some "bondmachine")
  let clk ← d.sigIdx "clk"
  let reset ← d.sigIdx "reset"
  d.checkClock clk
  let inp ← (List.range t.inputs).mapM fun k => d.sigIdx s!"i{k}"
  let ival ← (List.range t.inputs).mapM fun k => d.sigIdx s!"i{k}_valid"
  let irecv ← (List.range t.inputs).mapM fun k => d.sigIdx s!"i{k}_received"
  let outp ← (List.range t.outputs).mapM fun k => d.sigIdx s!"o{k}"
  let oval ← (List.range t.outputs).mapM fun k => d.sigIdx s!"o{k}_valid"
  let orecv ← (List.range t.outputs).mapM fun k => d.sigIdx s!"o{k}_received"
  let procs ← archs.zipIdx.mapM fun (a, p) => do
    let pre := s!"a{p}_inst.p{p}_instance."
    let pc ← d.sigIdx (pre ++ "_pc")
    let regs ← (List.range (2 ^ a.r)).mapM fun k => d.sigIdx (pre ++ s!"_r{k}")
    let auxo ← (List.range a.m).mapM fun k => d.sigIdx (pre ++ s!"_auxo{k}")
    pure ({ pc, regs, auxo
            oval := (List.range a.m).map fun k => d.sigIdx? (pre ++ s!"o{k}_val")
            irecv := (List.range a.n).map fun k => d.sigIdx? (pre ++ s!"i{k}_recv")
            waitsm := d.sigIdx? (pre ++ "waitsm") } : HwProc)
  pure { d, clk, reset, inp, ival, orecv, outp, oval, irecv, procs }

def bn (b : Bool) : Nat := if b then 1 else 0

def hwInputs (h : Hw) (e : EnvIn) : List (Nat × Nat) :=
  [(h.reset, 0)] ++ h.inp.zip e.inRegs ++ h.ival.zip (e.inValid.map bn) ++ h.orecv.zip (e.outRecv.map bn)

def hwObserve (h : Hw) (st : State) : EnvOut :=
  { outRegs := h.outp.map st.get, outValid := h.oval.map (fun i => st.get i != 0), inRecv := h.irecv.map (fun i => st.get i != 0) }

def procDump (pc : Nat) (regs auxo : List Nat) (ov ir : List Bool) (w : Bool) : String :=
  s!"pc={pc} r={joinN regs} o={joinN auxo} ov={joinB ov} ir={joinB ir} w={bn w}"

def hwDump (h : Hw) (st : State) : String :=
  " | ".intercalate (h.procs.map fun p =>
    procDump (st.get p.pc) (p.regs.map st.get) (p.auxo.map st.get)
      (p.oval.map fun o => match o with | some i => st.get i != 0 | none => false)
      (p.irecv.map fun o => match o with | some i => st.get i != 0 | none => false)
      (match p.waitsm with | some i => st.get i != 0 | none => false))

/-- the registers `oK_val` / `iK_recv` / `waitsm` exist only if some opcode declares them -/
def rtlDump (h : Hw) (s : HwState) : String :=
  " | ".intercalate ((h.procs.zip s.procs).map fun (p, r) =>
    procDump r.pc r.regs r.auxo
      ((List.range r.oVal.length).map fun k => ((p.oval.getD k none).isSome) && r.oVal.getD k false)
      ((List.range r.iRecv.length).map fun k => ((p.irecv.getD k none).isSome) && r.iRecv.getD k false)
      (p.waitsm.isSome && r.waitsm))

structure HdlResult where
  sh : String := ""
  yz : String := ""
  hr : String := "-"

/-- closed loop: the emitted Verilog under BMV.Vlog + the environment automaton; in lock step the
    hardware model `Bm.rtlCycle` gets the same stimulus and is compared register by register -/
def runHdl (m : Machine) (spec : EnvSpec) (h : Hw) (clocks : Nat) : HdlResult := Id.run do
  let st0 := match (do let s0 ← h.d.init; h.d.cycle h.clk s0 [(h.reset, 1)]) with
    | .ok s => some s
    | .error _ => none
  match st0 with
  | none => return { sh := "", yz := "YZ fail@reset", hr := "-" }
  | some st0 =>
    let mut st := st0
    let mut env := envInit spec m.topo.inputs m.topo.outputs
    let mut hs := hwInit m
    let mut yz : Option String := none
    let mut hr : Option Nat := none
    let mut n := 0
    for c in [0:clocks] do
      env := envStep spec env (hwObserve h st)
      let e := envDrive env
      if yz.isNone && hr.isNone && bmRtlHazard m hs e then hr := some c
      match h.d.cycle h.clk st (hwInputs h e) with
      | .error err =>
        yz := yz.orElse fun _ => some s!"YZ fail@{c} {err}"
        break
      | .ok st2 =>
        st := st2
        if yz.isNone then
          hs := rtlCycle m hs e
          let y := hwDump h st
          let z := rtlDump h hs
          if y != z then yz := some s!"YZ differ@{c} Y {y} Z {z}"
      n := c + 1
    return { sh := streamsStr (envStreams env)
             yz := yz.getD s!"YZ ok {n}"
             hr := match hr with | some c => toString c | none => "-" }

/-! ### state of the oracle -/

structure St where
  rsize : Nat := 8
  topo : Topo := {}
  archs : List Arch := []
  progs : List (List Bits) := []
  -- netlist lines
  netSeen : Bool := false
  netErr : Option String := none
  tn : TNetlist := { ports := [], decls := [], insts := [], assigns := [] }
  other : Nat := 0
  -- hardware
  hw : Option Hw := none
  -- environment
  spec : Option EnvSpec := none
  clocks : Nat := 0
  -- simulator model
  bm : Option BmState := none
  started : Bool := false
  env : EnvSt := {}
  tick : Nat := 0
  evDiff : Option Nat := none
  hzIsa : Option Nat := none

def St.machine (st : St) : Machine := { topo := st.topo, archs := st.archs, progs := st.progs }

def dumpProc (s : VmState) : String :=
  let d := s.deferred.mergeSort (· ≤ ·)
  s!"pc={s.pc} r={joinN s.regs} in={joinN s.inputs} iv={joinB s.inValid} ir={joinB s.inRecv} o={joinN s.outputs} ov={joinB s.outValid} or={joinB s.outRecv} d={joinN d}"

def dumpBm (s : BmState) : String :=
  let head := s!"X o={joinN s.outRegs} ov={joinB s.outValid} ir={joinB s.inRecv} ii={joinN s.iiRegs} iiv={joinB s.iiValid} iir={joinB s.iiRecv} io={joinN s.ioRegs} iov={joinB s.ioValid} ior={joinB s.ioRecv}"
  s.procs.foldl (fun acc p => acc ++ " | " ++ dumpProc p) head

def endCase (st : St) : List String :=
  let netLines :=
    if st.netSeen then
      match st.netErr with
      | some e => ["N differ reader: " ++ e]
      | none =>
        let tn : TNetlist := { st.tn with decls := st.tn.decls.reverse, insts := st.tn.insts.reverse, assigns := st.tn.assigns.reverse }
        let n := compareNet tn st.other st.topo st.rsize
        -- the property itself on the emitted netlist: tells a wrong connection from a harmless variation
        if n.startsWith "N ok" then [n]
        else [n, if exactB (structured tn) st.topo && tn.assigns.all (fun a => a.2.1 != "other") && declsOk tn st.rsize
                 then "NE ok" else "NE fail"]
    else []
  let simLines :=
    if st.started then
      match st.spec with
      | some _ =>
        [match st.evDiff with | none => "EV ok" | some t => s!"EV differ@{t}",
         s!"HI {match st.hzIsa with | some t => toString t | none => "-"}",
         "MS " ++ streamsStr (envStreams st.env),
         -- the reference (blocking-IO network) semantics under a round-robin schedule
         "RF " ++ streamsStr (refStreams st.topo (refRun st.machine ((st.spec).getD {}) (max st.tick st.clocks)))]
      | none => [s!"HI {match st.hzIsa with | some t => toString t | none => "-"}"]
    else []
  let hdlLines :=
    match st.hw, st.spec with
    | some h, some spec =>
      let m := st.machine
      let r := runHdl m spec h st.clocks
      let (_, envR, hzR) := runRtl m spec st.clocks (hwInit m, envInit spec m.topo.inputs m.topo.outputs, false)
      ["SH " ++ r.sh, r.yz, "HR " ++ r.hr, "SR " ++ streamsStr (envStreams envR) ++ (if hzR then " hazard" else "")]
    | _, _ => []
  netLines ++ simLines ++ hdlLines ++ ["Z"]

def step (st : St) (line : String) : St × List String :=
  if line.startsWith "H " then
    if line.startsWith "H err" then ({ st with hw := none }, [line])
    else match mkHw st.topo st.archs (line.drop 2).toString with
      | .ok h => ({ st with hw := some h }, ["H ok"])
      | .error e => ({ st with hw := none }, ["H rejected " ++ e])
  else
  let fs := fields line
  match fs with
  | "G" :: "err" :: _ => ({}, [line])
  | "G" :: _ =>
    match parseGraph fs with
    | some (rs, t) => ({ rsize := rs, topo := t }, [line])
    | none => ({}, ["G bad"])
  | "NV" :: "ok" :: _ => ({ st with netSeen := true }, [])
  | "NV" :: rest => ({ st with netSeen := true, netErr := some (" ".intercalate rest) }, [])
  | "NP" :: ps => ({ st with tn := { st.tn with ports := ps } }, [])
  | ["ND", dir, kind, w, name] =>
    ({ st with tn := { st.tn with decls := { dir, kind, width := nat! w, name } :: st.tn.decls } }, [])
  | "NI" :: md :: inst :: conns => ({ st with tn := { st.tn with insts := (md, inst, conns) :: st.tn.insts } }, [])
  | "NA" :: lhs :: kind :: names => ({ st with tn := { st.tn with assigns := (lhs, kind, names) :: st.tn.assigns } }, [])
  | ["NX", n] => ({ st with other := nat! n }, [])
  | "A" :: rest =>
    match parseArch rest with
    | some (p, a) => ({ st with archs := setAt st.archs p a default }, [])
    | none => (st, ["A bad"])
  | "P" :: p :: ws => ({ st with progs := setAt st.progs (nat! p) (ws.map ofString01) [] }, [])
  | "E" :: rest =>
    let spec : EnvSpec := { vals := semiLists ((kv rest "vals").getD ""), idel := semiLists ((kv rest "idel").getD ""),
                            odel := semiLists ((kv rest "odel").getD ""), ihold := semiLists ((kv rest "ihold").getD ""),
                            orel := semiLists ((kv rest "orel").getD "") }
    ({ st with spec := some spec, clocks := nat! ((kv rest "clocks").getD "0") }, [])
  | "T" :: "err" :: _ => (st, [line])
  | "T" :: _ =>
    let m := st.machine
    let spec := st.spec.getD {}
    ({ st with bm := some (Bm.init m), started := true, env := envInit spec m.topo.inputs m.topo.outputs, tick := 0 }, [])
  | "V" :: rest =>
    let e : EnvIn := { inRegs := nats ((kv rest "in").getD ""), inValid := bools ((kv rest "iv").getD ""),
                       outRecv := bools ((kv rest "or").getD "") }
    match st.bm with
    | none => ({ st with tick := st.tick + 1 }, ["X fail"])
    | some s =>
      let m := st.machine
      -- the Lean automaton, closed loop with the model
      let env' := match st.spec with
        | some spec => envStep spec st.env (observeIsa s)
        | none => st.env
      let evDiff := match st.spec, st.evDiff with
        | some _, none => if envDrive env' = e then none else some st.tick
        | _, d => d
      let s1 := setEnv s e
      let hz := match st.hzIsa with
        | some t => some t
        | none => if bmIsaHazard m s1 then some st.tick else none
      match isaStep m s1 with
      | some s2 => ({ st with bm := some s2, env := env', evDiff, hzIsa := hz, tick := st.tick + 1 }, [dumpBm s2])
      | none => ({ st with bm := none, env := env', evDiff, hzIsa := hz, tick := st.tick + 1 }, ["X fail"])
  | "Z" :: _ => ({}, endCase st)
  | _ => (st, [])

def main : IO Unit := do
  let _ ← foldStdin ({} : St) step
