/-
  Oracle for C18.  Reads the harness' lines (harness/cmd/c18):
    M <json>     machine description (echoed)
    K <facts>    rsize=<n> so=<kind,..> procs=<n>/<m>/<l>/<cap.cap>/<so.so>;...
    W …          outcome of Write_verilog (echoed)
    T / P        test benches excluded / reader errors (echoed)
    Q <module>…  opaque modules (defined in files the reader could not parse)
    X <module>…  named external-IP allow-list
    V <sexp>     the parsed file set
    E            end of machine
  and prints per machine, after the echoed lines:
    R <class>|<module>|<message>      one per finding of `Source.check` (BMV.Vlog.Check: per-module
                                      [undeclared]/[undefined-module]/[port], then `elaborate` +
                                      `Design.lint` with every module as a root)
    R port-order|bondmachine|…        the positional connection of a shared object's instance does not
                                      follow the port order of its module (model BMV.So)
    N modules=<n> elaborated=<k> roots=<..>
    S ok <comparisons> | S diff <what>   shared-object header model against the parsed text
    S skip <why>                         (unmodelled kind / module not parsed)
    E
-/
import BMV.Lines
import BMV.Vlog.Check
import BMV.So
open BMV BMV.Lines BMV.Vlog BMV.So

structure ProcFacts where
  n : Nat
  m : Nat
  l : Nat
  caps : List String
  links : List Nat
deriving Repr, Inhabited

structure Facts where
  rsize : Nat := 8
  sos : List String := []
  procs : List ProcFacts := []
deriving Repr, Inhabited

def dotList (s : String) : List String := if s = "" then [] else s.splitOn "."

def parseFacts (line : String) : Facts :=
  let fs := fields line
  let rsize := nat! ((kv fs "rsize").getD "8")
  let sos := commaList ((kv fs "so").getD "")
  let ps := (kv fs "procs").getD ""
  let procs := (if ps = "" then [] else ps.splitOn ";").map fun p =>
    match p.splitOn "/" with
    | [n, m, l, caps, links] => { n := nat! n, m := nat! m, l := nat! l, caps := dotList caps, links := (dotList links).map nat! }
    | _ => { n := 0, m := 0, l := 0, caps := [], links := [] }
  { rsize, sos, procs }

structure St where
  facts : Option Facts := none
  opq : List String := []
  ext : List String := []
  src : Option String := none

def capsOf (k : Kind) (caps : List String) : Caps :=
  match k with
  | .queue => ⟨caps.contains "r2q", caps.contains "q2r"⟩
  | .stack => ⟨caps.contains "r2t", caps.contains "t2r"⟩
  | _ => ⟨false, false⟩

def countBefore (l : List String) (i : Nat) (x : String) : Nat := ((l.take i).filter (· == x)).length

/-- positional connections of an instance, as identifier names (`?` for anything else) -/
def instConns (m : Module) (inst : String) : Option (List String) :=
  m.items.findSome? fun it => match it with
    | .inst _ n _ (.positional es) =>
      if n == inst then some (es.map fun e => match e with | some (.id x) => x | _ => "?") else none
    | _ => none

/-- declared direction and width (constant ranges only) of a name in a module -/
def declInfo (m : Module) (name : String) : Option (Dir × Option Nat) :=
  let hits := m.items.filterMap fun it => match it with
    | .decl d =>
      if d.names.any (·.name == name) then
        let w : Option Nat := match d.range with
          | none => some 1
          | some ⟨.num _ a, .num _ b⟩ => if a ≥ b then some (a - b + 1) else none
          | _ => none
        some (d.dir, w)
      else none
    | _ => none
  -- a port may be declared twice (`output x; reg x;`): the declaration with a direction wins
  match hits.find? (·.1 != .none) with
  | some h => some h
  | none => hits.head?

structure Tie where
  cmp : Nat := 0
  diffs : Array String := #[]
  skips : Array String := #[]
  order : Array String := #[]

def Tie.eqList (t : Tie) (what : String) (got want : List String) : Tie :=
  if got == want then { t with cmp := t.cmp + 1 }
  else { t with cmp := t.cmp + 1, diffs := t.diffs.push s!"{what}: emitted {got} model {want}" }

def Tie.decl (t : Tie) (m : Module) (name : String) (dir : Option Dir) (w : Nat) : Tie :=
  match declInfo m name with
  | none => { t with cmp := t.cmp + 1, diffs := t.diffs.push s!"{m.name}: {name} is not declared" }
  | some (d, gw) =>
    let okDir := match dir with | none => true | some x => x == d
    if okDir && gw == some w then { t with cmp := t.cmp + 1 }
    else { t with cmp := t.cmp + 1, diffs := t.diffs.push s!"{m.name}: {name} declared {repr d} width {gw}, model {repr dir} width {w}" }

def soTie (src : Source) (f : Facts) : Tie := Id.run do
  let mut t : Tie := {}
  let find (n : String) := findModule src.modules n
  let kindName (so : Nat) : String := f.sos.getD so "?"
  let top := find "bondmachine"
  -- (A) processors: aN / pN port lists and the aN_inst connection list
  let mut i := 0
  for p in f.procs do
    let kinds := p.links.map fun so => Kind.ofName? (kindName so)
    if kinds.any (·.isNone) then
      if !p.links.isEmpty then t := { t with skips := t.skips.push s!"processor {i}: attached to an unmodelled kind" }
    else
      let linkNames := p.links.map kindName
      let mut archExp : List String := []
      let mut topExp : List String := []
      let mut archDecl : List (String × Bool × Nat) := []
      let mut cpDecl : List (String × Bool × Nat) := []
      let mut topDecl : List (String × Nat) := []
      let mut j := 0
      for so in p.links do
        match Kind.ofName? (kindName so) with
        | none => pure ()
        | some k =>
          let c := capsOf k p.caps
          let lseq := countBefore linkNames j (kindName so)
          let gseq := countBefore f.sos so (kindName so)
          let soName := s!"{k.short}{gseq}"
          let apfx := s!"{k.short}{lseq}"
          archExp := archExp ++ (archHeader k c).map (apfx ++ ·)
          topExp := topExp ++ (perProcHeader k c).map (s!"p{i}{soName}" ++ ·) ++ (cpSharedHeader k).map (soName ++ ·)
          archDecl := archDecl ++ (archParams k c).map fun q => (apfx ++ q.suffix, q.out, q.w.bits f.rsize)
          cpDecl := cpDecl ++ (cpParams k c).map fun q => (apfx ++ q.suffix, q.out, q.w.bits f.rsize)
          topDecl := topDecl ++ (perProcWires k c).map (fun q => (s!"p{i}{soName}" ++ q.1, q.2.bits f.rsize))
            ++ (cpSharedWires k).map (fun q => (soName ++ q.1, q.2.bits f.rsize))
        j := j + 1
      let io := 3 * p.n + 3 * p.m
      match find s!"a{i}" with
      | none => t := { t with skips := t.skips.push s!"a{i} not parsed" }
      | some am =>
        t := t.eqList s!"a{i} ports" (am.ports.drop (2 + io)) archExp
        for (n, out, w) in archDecl do
          t := t.decl am n (some (if out then .output else .input)) w
      match find s!"p{i}" with
      | none => if !p.links.isEmpty then t := { t with skips := t.skips.push s!"p{i} not parsed" }
      | some pm =>
        t := t.eqList s!"p{i} ports" (pm.ports.drop (4 + (if p.l != 0 then 5 else 0) + io)) archExp
        for (n, out, w) in cpDecl do
          t := t.decl pm n (some (if out then .output else .input)) w
      match top with
      | none => t := { t with skips := t.skips.push "bondmachine not parsed" }
      | some tm =>
        match instConns tm s!"a{i}_inst" with
        | none => t := { t with diffs := t.diffs.push s!"bondmachine: no positional instance a{i}_inst" }
        | some cs => t := t.eqList s!"a{i}_inst connections" (cs.drop (2 + io)) topExp
        for (n, w) in topDecl do
          t := t.decl tm n none w
    i := i + 1
  -- (B) shared objects: module header against its instance
  let mut s := 0
  for soFull in f.sos do
    match Kind.ofName? soFull with
    | none => t := { t with skips := t.skips.push s!"shared object {s} ({soFull}): unmodelled kind" }
    | some k =>
      let gseq := countBefore f.sos s soFull
      let soName := s!"{k.short}{gseq}"
      let attProcs := (List.range f.procs.length).filter fun pi => ((f.procs.getD pi default).links.contains s)
      let atts : List Att := (List.range attProcs.length).map fun idx =>
        let pi := attProcs.getD idx 0
        ⟨pi, idx, capsOf k (f.procs.getD pi default).caps⟩
      if atts.isEmpty then t := { t with skips := t.skips.push s!"{soName}: no processor attached" } else
      let ms := moduleSlots k atts
      let is := instSlots k atts
      match find soName with
      | none => t := { t with skips := t.skips.push s!"{soName} not parsed" }
      | some sm => t := t.eqList s!"{soName} ports" (sm.ports.drop 2) (ms.map (modulePortName k atts))
      match top with
      | none => pure ()
      | some tm =>
        match instConns tm s!"{soName}_inst" with
        | none => t := { t with diffs := t.diffs.push s!"bondmachine: no positional instance {soName}_inst" }
        | some cs => t := t.eqList s!"{soName}_inst connections" (cs.drop 2) (is.map (instConnName k soName))
      if ms != is then
        let firstBad := (List.range (max ms.length is.length)).find? fun q => ms[q]? != is[q]?
        let q := firstBad.getD 0
        let showSlot (o : Option Slot) : String := match o with
          | some x => s!"p{x.proc}.{x.role}" | none => "nothing"
        let msg := s!"instance {soName}_inst ({is.length} connections) does not follow the port order of module {soName} ({ms.length} ports): position {q + 2} is {showSlot ms[q]?} in the module but {showSlot is[q]?} in the instance"
        t := { t with order := t.order.push msg }
    s := s + 1
  pure t

def finish (st : St) : List String :=
  match st.src with
  | none => ["N modules=0 elaborated=0 roots=", "E"]
  | some line =>
    match Source.ofString line with
    | .error e => [s!"R oracle|*|cannot read the S-expression: {e}", "E"]
    | .ok src =>
      let r := src.check st.opq st.ext
      -- hypothesis of `BMV.Props.C18.wf_total` / `elab_sigs_in_range`, re-checked on every file set
      let pre := if src.fromReader then [] else ["R internal|*|the parsed file set contains an elaborated `.sig` node (Source.fromReader = false)"]
      let rl := pre ++ r.findings.map fun f => s!"R {f.cls}|{f.modName}|{f.msg}"
      let nl := s!"N modules={src.modules.length} elaborated={r.elaborated} roots={",".intercalate r.roots}"
      let sl := match st.facts with
        | none => ["S skip no-facts"]
        | some f =>
          let t := soTie src f
          (t.order.toList.map fun o => s!"R port-order|bondmachine|{o}") ++
          (t.diffs.toList.map fun d => s!"S diff {d}") ++
          (t.skips.toList.map fun d => s!"S skip {d}") ++ [s!"S ok {t.cmp - t.diffs.size}"]
      rl ++ [nl] ++ sl ++ ["E"]

def step (st : St) (line : String) : St × List String :=
  if line.startsWith "V " then ({ st with src := some (line.drop 2).toString }, [])
  else if line.startsWith "M " then ({}, [line])
  else if line.startsWith "K " then ({ st with facts := some (parseFacts (line.drop 2).toString) }, [])
  else if line.startsWith "Q " then ({ st with opq := fields (line.drop 2).toString }, [line])
  else if line.startsWith "X " then ({ st with ext := fields (line.drop 2).toString }, [])
  else if line == "E" then ({}, finish st)
  else (st, [line])

def main : IO Unit := do
  let _ ← foldStdin ({} : St) step
