/-
  Oracle for C09: reads the case list printed by `h-c09 gen` (C lines), runs every case whose
  programs are inside the modelled ISA on BMV.SchedSim — with the `Globals` domain regenerated from
  the Go source (genDom) — and prints
    CFG globals=<Type.field,...> addp=<0|1> multp=<0|1>
    X <id> model=<0|1> free=<0|1> dep=<0|1>
       model: the case is inside the modelled ISA (no bonds, no delay table, no simbox rules, known opcodes)
       free:  no core uses an opcode whose phase lives in Globals  (⇒ step_sched_indep / sim_isolation apply)
       dep:   the model itself yields different traces for ascending / descending schedules or for
              Globals left dirty by another simulation (a witness of globals_break_it on this case)
    T <id> <tick> pc.r0.r1.r2.r3.o0|...      the model's trace (ascending schedule, clean Globals)
-/
import BMV.SchedSimGen
import BMV.Lines
open BMV.SchedSim BMV.Lines

def parseReg (s : String) : Option Nat :=
  if s.startsWith "r" then (s.drop 1).toString.toNat? else none

def parseOp (ws : List String) : Option Op :=
  match ws with
  | ["rset", r, v] => do let r ← parseReg r; let v ← v.toNat?; pure (.rset r v)
  | ["inc", r] => do let r ← parseReg r; pure (.inc r)
  | ["add", r, s] => do let r ← parseReg r; let s ← parseReg s; pure (.add r s)
  | ["addp", r, s] => do let r ← parseReg r; let s ← parseReg s; pure (.addp r s)
  | ["multp", r, s] => do let r ← parseReg r; let s ← parseReg s; pure (.multp r s)
  | ["nop"] => some .nop
  | ["j", a] => do let a ← a.toNat?; pure (.j a)
  | ["r2o", r, "o0"] => do let r ← parseReg r; pure (.r2o r)
  | _ => none

def parseProg (s : String) : Option (List Op) :=
  (s.splitOn ",").filter (· ≠ "") |>.mapM fun i => parseOp ((i.splitOn "_").filter (· ≠ ""))

def digest (n : Nat) (st : BmState) : String :=
  "|".intercalate ((List.range n).map fun i =>
    let c := st.cells i
    s!"{lget c 0}.{lget c 4}.{lget c 5}.{lget c 6}.{lget c 7}.{lget c 1}")

/-- trace of T ticks under one schedule from given Globals -/
def traceOf (dom : Dom) (mod : Nat) (progs : List (List Op)) (σ : Schedule) (g : Globals) (T : Nat) :
    List String :=
  let m := isaMachine dom mod progs
  let rec go (t : Nat) (g : Globals) (st : BmState) (acc : List String) : List String :=
    match t with
    | 0 => acc.reverse
    | t + 1 =>
      let r := stepSched m σ g st
      go t r.1 r.2 (digest progs.length r.2 :: acc)
  go T g isaInit []

def b2s (b : Bool) : String := if b then "1" else "0"

def handle (_ : Unit) (line : String) : Unit × List String :=
  let fs := fields line
  match fs with
  | "C" :: rest =>
    let id := (kv rest "id").getD "?"
    let ring := (kv rest "ring").getD "0"
    let rsize := nat! ((kv rest "rsize").getD "8")
    let ticks := nat! ((kv rest "ticks").getD "1")
    let progsS := ((kv rest "progs").getD "").splitOn "/"
    match progsS.mapM parseProg with
    | some progs =>
      if ring != "0" || (kv rest "delays").getD "0" != "0" || (kv rest "rules").isSome || (kv rest "sps").isSome || (kv rest "dly").isSome then ((), [s!"X {id} model=0 free=0 dep=0"]) else
      let mod := 2 ^ rsize
      let n := progs.length
      let asc := List.range n
      let desc := asc.reverse
      let free := !(progs.any (usesPipelined genDom))
      let t1 := traceOf genDom mod progs asc gInit ticks
      let t2 := traceOf genDom mod progs desc gInit ticks
      let t3 := traceOf genDom mod progs asc [1, 1] ticks
      let dep := t1 != t2 || t1 != t3
      let tl := ((List.range t1.length).zip t1).map fun (t, d) => s!"T {id} {t} {d}"
      ((), s!"X {id} model=1 free={b2s free} dep={b2s dep}" :: tl)
    | none => ((), [s!"X {id} model=0 free=0 dep=0"])
  | _ => ((), [])

def main : IO Unit := do
  let gl := ",".intercalate (genGlobals.map fun (t, f) => s!"{t}.{f}")
  IO.println s!"CFG globals={gl} addp={b2s genDom.addp} multp={b2s genDom.multp}"
  let _ ← foldStdin () handle
  pure ()
