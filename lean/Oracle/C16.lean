/-
  Oracle for C16: reads the machines dumped by the harness (canonical text of harness/basmdump,
  one machine between an `M` line and its `E` line) and evaluates the independent validator
  `BMV.WfBM` on each:
      WF <0|1> cf=<0|1> reasons=<r1,r2,..|-> unmodelled=<op,..|-> words=<#ROM words> cps=<#processors>
  (cf = `CfClosed`: every jump target is inside the program; reported, not part of the verdict)
  `CASE`, `F`, `R` lines are echoed.  When the harness sends the source text (`F S <text>`, or `FS <text>`
for a file set) its `cpdef`/`ioatt` lines are read (`scanWiring`) and the machine's external port
counts and bonds are compared with them (`Basm.wiringAgrees`); a difference is one more reason.  `AL n0,n1,…`
(instruction counts of the assembly a front-end saved next to the machine): processor k must hold n_k ROM words.
`XW i o b` (bondgo in plain -mpm mode: derived by the driver from the IO ids the Go source declares): the machine has
i inputs, o outputs and b processor-to-processor bonds.
`OPS n1,n2,…` (the names of `procbuilder.Allopcodes`): answered by `OPSDUP <count> <names that occur twice|->`.
`PB` (sent where the front-end's input guarantees it — bondgo plain -mpm, the multi-abstract-assembly bond list): every processor input must be the sink of a bond and every processor output the
driver of one (`cpK:output-N-not-bonded`).
  When a machine uses opcodes outside the shared layout table
  its verdict is printed but the reason list says so (`opcode-unmodelled-or-wrong-mode`) and the
  opcodes are listed: the driver reports such instances as *unmodelled*, not as ill-formed.
-/
import BMV.WfBM
import BMV.BasmText
import BMV.BasmSem
import BMV.Lines
open BMV BMV.Lines BMV.BasmText

structure St where
  bm : Option BM := none
  wire : Option Basm.Source := none   -- the `cpdef`/`ioatt` lines of the source, when the harness sent its text
  asm : List Nat := []                -- instruction counts of the assembly the front-end saved per processor (`AL`)
  portsBonded : Bool := false         -- `PB`: the front-end only creates ports it connects: none may be left open
  xw : Option (Nat × Nat × Nat) := none   -- `XW i o b`: inputs, outputs, processor-to-processor bonds the front-end's input asks for

def unmodelled (bm : BM) : List String :=
  (bm.cps.flatMap fun cp => cp.arch.ops.filter fun op => (layout op).isNone).eraseDups

def wiringReason (wire : Option Basm.Source) (bm : BM) : List String :=
  match wire with
  | some src =>
    if Basm.wiringAgrees src bm then [] else
    let ps := Basm.pairs src.procs src.ioatts
    let want := Basm.wiringOf src (bm.cps.map fun cp => (cp.arch.n, cp.arch.m))
    let sb (l : List (Topology.Bond × Topology.Bond)) := ";".intercalate (l.map fun p => s!"{showBond p.1}>{showBond p.2}")
    [s!"wiring-differs-from-ioatt-lines[inputs:{bm.topo.inputs}/{Basm.extCount 0 ps};outputs:{bm.topo.outputs}/{Basm.extCount 1 ps};bonds:{sb (Topology.bonds bm.topo)}/{sb want}]"]
  | none => []

/-- a front-end that saved both its assembly and the machine: processor k holds one ROM word per instruction -/
def asmReason (asm : List Nat) (bm : BM) : List String :=
  if asm.isEmpty then [] else
  (if asm.length == bm.cps.length then [] else [s!"processors-vs-emitted-assemblies[{bm.cps.length}/{asm.length}]"]) ++
  (bm.cps.zip asm).zipIdx.filterMap fun ((cp, n), k) =>
    if cp.prog.length == n then none else some s!"cp{k}:program-length-differs-from-emitted-assembly[{cp.prog.length}/{n}]"

/-- every input of every processor is the sink of a bond, every output the driver of one -/
def openPorts (bm : BM) : List String :=
  let bs := Topology.bonds bm.topo
  bm.cps.zipIdx.flatMap fun (cp, k) =>
    ((List.range cp.arch.n).filterMap fun i =>
      if bs.any (fun b => b.2 == ⟨2, k, i⟩) then none else some s!"cp{k}:input-{i}-not-bonded") ++
    ((List.range cp.arch.m).filterMap fun o =>
      if bs.any (fun b => b.1 == ⟨3, k, o⟩) then none else some s!"cp{k}:output-{o}-not-bonded")

/-- the port counts and the number of processor-to-processor bonds the front-end's input asks for -/
def xwReason (xw : Option (Nat × Nat × Nat)) (bm : BM) : List String :=
  match xw with
  | none => []
  | some (i, o, b) =>
    let internal := ((Topology.bonds bm.topo).filter fun p => p.1.kind == 3 && p.2.kind == 2).length
    if bm.topo.inputs == i && bm.topo.outputs == o && internal == b then []
    else [s!"wiring-differs-from-declared-ios[inputs:{bm.topo.inputs}/{i};outputs:{bm.topo.outputs}/{o};processor-bonds:{internal}/{b}]"]

def verdict (wire : Option Basm.Source) (asm : List Nat) (pb : Bool) (xw : Option (Nat × Nat × Nat)) (bm0 : BM) : String :=
  let bm := finishBM bm0
  let wr := wiringReason wire bm ++ asmReason asm bm ++ (if pb then openPorts bm else []) ++ xwReason xw bm
  let ok := WfBM bm && wr.isEmpty
  let rs := WfBM.explain bm ++ wr
  let um := unmodelled bm
  let words := (bm.cps.map fun cp => cp.prog.length).sum
  s!"WF {if ok then 1 else 0} cf={if CfClosed bm then 1 else 0} reasons={if rs.isEmpty then "-" else ",".intercalate rs} unmodelled={if um.isEmpty then "-" else ",".intercalate um} words={words} cps={bm.cps.length}"

def step (st : St) (line : String) : St × List String :=
  match fields line with
  | "CASE" :: _ => ({}, [line])
  | "F" :: "S" :: _ => ({ st with wire := scanWiring (((line.drop 4).toString).splitOn "\\n") }, [line])
  | "F" :: _ => (st, [line])
  | ["OPS", ns] =>
    -- the opcode registry of the implementation: no name twice
    let names := commaList ns
    let dups := (names.filter fun n => names.count n > 1).eraseDups
    (st, [s!"OPSDUP {names.length} {if dups.isEmpty then "-" else ",".intercalate dups}"])
  | "OPSKIP" :: _ => (st, [line])
  | ["PB"] => ({ st with portsBonded := true }, [])
  | ["XW", i, o, b] => ({ st with xw := some (nat! i, nat! o, nat! b) }, [])
  | ["AL", ns] => ({ st with asm := (commaList ns).map nat! }, [])
  | "FS" :: _ => ({ st with wire := scanWiring (((line.drop 3).toString).splitOn "\\n") }, [])
  | "R" :: _ => (st, [line])
  | "M" :: _ => ({ st with bm := some (bmLine default line) }, [])
  | "E" :: _ =>
    match st.bm with
    | some bm => ({}, [verdict st.wire st.asm st.portsBonded st.xw bm])
    | none => (st, ["WF ? no-machine"])
  | _ =>
    match st.bm with
    | some bm => ({ st with bm := some (bmLine bm line) }, [])
    | none => (st, [])

def main : IO Unit := do
  let _ ← foldStdin ({} : St) step
