/-
  Oracle for C16: reads the machines dumped by the harness (canonical text of harness/basmdump,
  one machine between an `M` line and its `E` line) and evaluates the independent validator
  `BMV.WfBM` on each:
      WF <0|1> cf=<0|1> reasons=<r1,r2,..|-> unmodelled=<op,..|-> words=<#ROM words> cps=<#processors>
  (cf = `CfClosed`: every jump target is inside the program; reported, not part of the verdict)
  `CASE`, `F`, `R` lines are echoed.  When a machine uses opcodes outside the shared layout table
  its verdict is printed but the reason list says so (`opcode-unmodelled-or-wrong-mode`) and the
  opcodes are listed: the driver reports such instances as *unmodelled*, not as ill-formed.
-/
import BMV.WfBM
import BMV.BasmText
import BMV.Lines
open BMV BMV.Lines BMV.BasmText

structure St where
  bm : Option BM := none

def unmodelled (bm : BM) : List String :=
  (bm.cps.flatMap fun cp => cp.arch.ops.filter fun op => (layout op).isNone).eraseDups

def verdict (bm0 : BM) : String :=
  let bm := finishBM bm0
  let ok := WfBM bm
  let rs := WfBM.explain bm
  let um := unmodelled bm
  let words := (bm.cps.map fun cp => cp.prog.length).sum
  s!"WF {if ok then 1 else 0} cf={if CfClosed bm then 1 else 0} reasons={if rs.isEmpty then "-" else ",".intercalate rs} unmodelled={if um.isEmpty then "-" else ",".intercalate um} words={words} cps={bm.cps.length}"

def step (st : St) (line : String) : St × List String :=
  match fields line with
  | "CASE" :: _ => ({}, [line])
  | "F" :: _ => (st, [line])
  | "R" :: _ => (st, [line])
  | "M" :: _ => ({ bm := some (bmLine default line) }, [])
  | "E" :: _ =>
    match st.bm with
    | some bm => ({}, [verdict bm])
    | none => (st, ["WF ? no-machine"])
  | _ =>
    match st.bm with
    | some bm => ({ bm := some (bmLine bm line) }, [])
    | none => (st, [])

def main : IO Unit := do
  let _ ← foldStdin ({} : St) step
