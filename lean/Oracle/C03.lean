/-
  Oracle for C03: answers the harness' A/I lines from BMV.Encode.
    R ok <word> mw=<maxWord> | R err | R unmodelled
    D <tokens> | D err | D -           disassembly (by the model) of the word the *model* produced
    RA ok <word> | RA err | RA -       model re-assembly of that disassembly
-/
import BMV.Encode
import BMV.Lines
open BMV BMV.Bits BMV.Encode BMV.Lines

def parseMode (s : String) : Mode :=
  if s = "vn" then .vn else if s = "hy" then .hy else .ha

/-- strict decimal: digits only (what strconv/regexp accept for the plain notation) -/
def decimal? (s : String) : Option Nat :=
  if s.isEmpty then none else if s.all Char.isDigit then s.toNat? else none

/-- token → operand: inverse of Get_register_name / Get_input_name / Get_output_name (lower case,
    canonical decimal without leading zeros since Go compares the *name strings*) -/
def canonical? (s : String) : Option Nat :=
  match decimal? s with
  | some k => if toString k = s then some k else none
  | none => none

def parseOperand (t : String) : Operand :=
  if t.startsWith "r" then
    match canonical? (t.drop 1).toString with | some k => .reg k | none => .bad
  else if t.startsWith "i" then
    match canonical? (t.drop 1).toString with | some k => .inp k | none => .bad
  else if t.startsWith "o" then
    match canonical? (t.drop 1).toString with | some k => .out k | none => .bad
  else match decimal? t with
    | some n => .num n
    | none =>
      -- shared-object names: a known short name followed by a canonical decimal (longest prefix first)
      match ["lfsr8", "ch", "st", "q", "k", "u"].find? (fun p => t.startsWith p && (canonical? (t.drop p.length).toString).isSome) with
      | some p => .so p ((canonical? (t.drop p.length).toString).getD 0)
      | none => .bad

def showOperand : Operand → String
  | .reg k => s!"r{k}"
  | .inp k => s!"i{k}"
  | .out k => s!"o{k}"
  | .num n => toString n
  | .so p k => s!"{p}{k}"
  | .bad => "?"

def parseShared (f : String) : List (String × Nat) :=
  (commaList (f.drop 3).toString).filterMap fun kv =>
    match kv.splitOn ":" with
    | [k, n] => some (k, nat! n)
    | _ => none

def parseArch (fs : List String) : Option Arch :=
  let mk := fun (rs r n m l o mode ws ops so : String) =>
    let opl := (ops.drop 4).toString
    ({ rsize := nat! rs, r := nat! r, n := nat! n, m := nat! m, l := nat! l, o := nat! o,
       mode := parseMode mode, wordSize := nat! ws,
       ops := if opl = "" then [] else opl.splitOn ",", shared := parseShared so } : Arch)
  match fs with
  | [rs, r, n, m, l, o, mode, ws, ops] => some (mk rs r n m l o mode ws ops "so=")
  | [rs, r, n, m, l, o, mode, ws, ops, so] => some (mk rs r n m l o mode ws ops so)
  | _ => none

structure St where
  a : Arch := { rsize := 8, r := 1, n := 0, m := 0, l := 0, o := 1, ops := [] }
  pl : List String := []

/-- a source line of a program: `none` for blank and comment lines -/
def parseLine (l : String) : Option Instr :=
  match fields l.toLower with
  | [] => none
  | op :: toks => if op.startsWith "#" then none else some ⟨op, toks.map parseOperand⟩

def stepA (a : Arch) (line : String) : Arch × List String :=
  let fs := fields line
  match fs with
  | "A" :: rest =>
    match parseArch rest with
    | some a' =>
      let ls := a'.ops.map fun op =>
        match declLayout op with
        | some _ => s!"L {op} {a'.instrLen op}"
        | none => s!"L {op} ?"
      (a', [line] ++ ls ++ [s!"MW {a'.maxWord}"])
    | none => (a, ["bad-arch"])
  | "I" :: op0 :: toks0 =>
    -- Assembler_process_line lower-cases the whole line first
    let op := op0.toLower
    let toks := toks0.map String.toLower
    let i : Instr := ⟨op, toks.map parseOperand⟩
    match asm a i with
    | .error .unmodelled => (a, [line, "R unmodelled", "D -", "RA -"])
    | .error _ => (a, [line, "R err", "D -", "RA -"])
    | .ok w =>
      let r := s!"R ok {toString01 w} mw={a.maxWord}"
      match disasm a w with
      | none => (a, [line, r, "D err", "RA -"])
      | some i' =>
        let d := "D " ++ " ".intercalate (i'.op :: i'.args.map showOperand)
        match asm a i' with
        | .ok w' => (a, [line, r, d, s!"RA ok {toString01 w'}"])
        | .error _ => (a, [line, r, d, "RA err"])
  | "I" :: [] => (a, [line, "R empty", "D -", "RA -"])
  | _ => (a, [])

def step (st : St) (line : String) : St × List String :=
  if line.startsWith "PG" then ({ st with pl := [] }, [line])
  else if line == "PL" || line.startsWith "PL " then
    ({ st with pl := st.pl ++ [(line.drop 3).toString] }, [line])
  else if line.startsWith "PR" then
    -- (tabs count as blanks for strings.Fields)
    let src := st.pl.map fun l => parseLine (l.replace "\t" " ")
    match asmProgram st.a src with
    | .ok ws =>
      let pd := match disasmProgram st.a ws with
        | none => "PD err"
        | some is => ("PD " ++ " ; ".intercalate (is.map fun i => " ".intercalate (i.op :: i.args.map showOperand))).trimAsciiEnd.toString
      (st, [(s!"PR ok " ++ " ".intercalate (ws.map toString01)).trimAsciiEnd.toString, pd])
    | .error .unmodelled => (st, ["PR unmodelled"])
    | .error _ => (st, ["PR err"])
  else if line.startsWith "PD" || line.startsWith "PS" then (st, [])
  else
    let (a', outs) := stepA st.a line
    ({ st with a := a' }, outs)

def main : IO Unit := do
  let _ ← foldStdin ({} : St) step
