/-
  Oracle for C11.  Reads the merged stream of the harness (see harness/cmd/c11/dump.go):

    R <static names>            registry of a fresh process
    F lq=<idx|-> flopoco=<0|1>  family configuration of the LOADING process
    CASE <i> <bm|mach> <tag>
    L.B / L.D k …               live machine (absent for hand-made files)
    J.B / J.D k …               what the implementation's Jsoner produced (or the hand-made file)
    X.B / X.D k …               what the implementation's Dejsoner produced in the loading process
    END

  and prints per case

    CASE <i>
    MJ.B / MJ.D k …   BMV.Json.jsoner(BM) applied to L                       (compared with J)
    MX.B / MX.D k …   BMV.Json.dejsoner / loadBM (= Dejsoner + Init) applied to J, registry threaded (compared with X)
                      from case to case exactly as the loading process does
    P resolvable=<0|1> sovalid=<0|1> loadeq=<0|1|-> nilops=<n> nilsos=<n> counts=<0|1> mnilops=<n> mnilsos=<n>
                      (mnil* = nil entries the MODEL predicts: > 0 means the file is not loadable in this configuration)
                      the property evaluated by the model's definitions on the IMPLEMENTATION's
                      dumps: loadeq = (X == clearTransient(L) lifted)
-/
import BMV.Json
import BMV.Lines
open BMV.Json BMV.Lines

/-! ### decoding -/

def hexVal (c : Char) : Nat :=
  if c.isDigit then c.toNat - '0'.toNat
  else if 'A' ≤ c && c ≤ 'F' then c.toNat - 'A'.toNat + 10
  else if 'a' ≤ c && c ≤ 'f' then c.toNat - 'a'.toNat + 10 else 0

/-- percent-decoding (single bytes; the interpreted strings are ASCII) -/
def decodeL : List Char → List Char
  | '%' :: a :: b :: rest => Char.ofNat (hexVal a * 16 + hexVal b) :: decodeL rest
  | c :: rest => c :: decodeL rest
  | [] => []

def encChar (c : Char) : List Char :=
  if c.isAlphanum || c = '_' || c = ':' || c = '.' || c = '+' || c = '-' || c = '/' then [c]
  else
    let n := c.toNat
    let h (k : Nat) : Char := if k < 10 then Char.ofNat (48 + k) else Char.ofNat (55 + k)
    ['%', h (n / 16), h (n % 16)]

def encodeL (cs : List Char) : String := String.ofList (cs.flatMap encChar)

def int! (s : String) : Int := s.toInt?.getD 0

/-- `<n>:<items>` — split on the first colon only -/
def countList (s : String) (sep : String) : List String :=
  match s.splitOn ":" with
  | n :: rest =>
    if nat! n = 0 then [] else (":".intercalate rest).splitOn sep
  | [] => []

def fmtList (items : List String) (sep : String) : String :=
  s!"{items.length}:{sep.intercalate items}"

def field (fs : List String) (k : String) : String := (kv fs k).getD ""

/-! ### opcodes -/

def famOfKind : String → Option Fam
  | "FloPoCo" => some .flopoco | "LinearQuantizer" => some .linq | "Rsets" => some .rsets
  | "Call" => some .call | "DynOpStack" => some .stack | "FixedPoint" => some .fixedPoint
  | "FXP" => some .fxp | _ => none

def kindOfFam : Option Fam → String
  | none => "static" | some .flopoco => "FloPoCo" | some .linq => "LinearQuantizer"
  | some .rsets => "Rsets" | some .call => "Call" | some .stack => "DynOpStack"
  | some .fixedPoint => "FixedPoint" | some .fxp => "FXP"

def parseOp (s : String) : Option Opcode :=
  if s = "-" then none
  else match s.splitOn "/" with
    | [n, k] => some ⟨n, famOfKind k, []⟩
    | _ => some ⟨s, none, []⟩

def fmtOp : Option Opcode → String
  | none => "-"
  | some op => s!"{op.name}/{kindOfFam op.fam}"

/-! ### shared objects -/

def parseBox (s : String) : Box :=
  match (s.splitOn ".").map int! with
  | [a, b, c, d, e] => ⟨a, b, c, d, e⟩
  | _ => ⟨0, 0, 0, 0, 0⟩

def parseSO (s : String) : Option SO :=
  if s = "-" then none else
  let parts := s.splitOn "/"
  let arg (k : String) : Int := int! ((kv parts k).getD "0")
  match parts.head? with
  | some "sharedmem" => some (.sharedmem (arg "Depth"))
  | some "channel" => some .channel
  | some "barrier" => some (.barrier (arg "Timeout"))
  | some "lfsr8" => some (.lfsr8 (Fin.ofNat 256 (arg "Seed").toNat))
  | some "vtextmem" =>
    let b := (kv parts "Boxes").getD ""
    some (.vtextmem (if b = "" then [] else (b.splitOn "+").map parseBox))
  | some "queue" => some (.queue (arg "Depth"))
  | some "stack" => some (.stack (arg "Depth"))
  | some "uart" => some (.uart (arg "BaudRate") (arg "Depth"))
  | some "kbd" => some (.kbd (arg "Depth"))
  | _ => none

def fmtSO : Option SO → String
  | none => "-"
  | some (.sharedmem d) => s!"sharedmem/Depth={d}"
  | some .channel => "channel"
  | some (.barrier t) => s!"barrier/Timeout={t}"
  | some (.lfsr8 s) => s!"lfsr8/Seed={s.val}"
  | some (.vtextmem bs) =>
    let b := "+".intercalate (bs.map fun x => s!"{x.cp}.{x.left}.{x.top}.{x.width}.{x.height}")
    s!"vtextmem/Boxes={b}"
  | some (.queue d) => s!"queue/Depth={d}"
  | some (.stack d) => s!"stack/Depth={d}"
  | some (.uart b d) => s!"uart/BaudRate={b}/Depth={d}"
  | some (.kbd d) => s!"kbd/Depth={d}"

/-! ### machines -/

def parseLiveD (fs : List String) : LoadedMachine :=
  { modes := countList (field fs "modes") ",", cpID := nat! (field fs "cpid"),
    rsize := nat! (field fs "rsize"), r := nat! (field fs "r"), n := nat! (field fs "n"),
    m := nat! (field fs "m"), ops := (countList (field fs "ops") ",").map parseOp,
    threaded := int! (field fs "thr"), sharedHDLOps := field fs "hdl", o := nat! (field fs "o"),
    l := nat! (field fs "l"), sharedConstraints := field fs "sc", tag := field fs "tag",
    wordSize := nat! (field fs "ws"), slocs := countList (field fs "slocs") ",",
    vars := countList (field fs "vars") "," }

def fmtLiveD (p : String) (k : Nat) (m : LoadedMachine) : String :=
  s!"{p}.D {k} modes={fmtList m.modes ","} cpid={m.cpID} rsize={m.rsize} r={m.r} n={m.n} m={m.m} " ++
  s!"ops={fmtList (m.ops.map fmtOp) ","} thr={m.threaded} hdl={m.sharedHDLOps} o={m.o} l={m.l} " ++
  s!"sc={m.sharedConstraints} tag={m.tag} ws={m.wordSize} slocs={fmtList m.slocs ","} vars={fmtList m.vars ","}"

def parseJsonD (fs : List String) : MachineJson :=
  { modes := countList (field fs "modes") ",", rsize := nat! (field fs "rsize"),
    wordSize := nat! (field fs "ws"), r := nat! (field fs "r"), n := nat! (field fs "n"),
    m := nat! (field fs "m"), l := nat! (field fs "l"), o := nat! (field fs "o"),
    sharedConstraints := field fs "sc", op := countList (field fs "op") ",",
    slocs := countList (field fs "slocs") ",", vars := countList (field fs "vars") ",",
    threaded := int! (field fs "thr") }

def fmtJsonD (p : String) (k : Nat) (j : MachineJson) : String :=
  s!"{p}.D {k} modes={fmtList j.modes ","} rsize={j.rsize} ws={j.wordSize} r={j.r} n={j.n} m={j.m} " ++
  s!"l={j.l} o={j.o} sc={j.sharedConstraints} op={fmtList j.op ","} slocs={fmtList j.slocs ","} " ++
  s!"vars={fmtList j.vars ","} thr={j.threaded}"

def parseBond (s : String) : Bond :=
  match s.splitOn "." with
  | [a, b, c] => ⟨nat! a, int! b, int! c⟩
  | _ => ⟨99, 0, 0⟩

def fmtBond (b : Bond) : String := s!"{b.mapTo}.{b.resId}.{b.extId}"

def parseSlinks (s : String) : Option (List (List Int)) :=
  if s = "nil" then none else
  some ((countList s "|").map fun x => if x = "" then [] else (x.splitOn ".").map int!)

def fmtSlinks : Option (List (List Int)) → String
  | none => "nil"
  | some l => fmtList (l.map fun x => ".".intercalate (x.map toString)) "|"

def fmtInts (l : List Int) : String := fmtList (l.map toString) ","

structure BHead (β : Type) where
  rsize : Nat
  processors : List Int
  inputs : Int
  outputs : Int
  iin : List Bond
  iout : List Bond
  links : List Int
  sos : List β
  slinks : Option (List (List Int))

def parseHead {β : Type} (fs : List String) (pso : String → β) : BHead β :=
  { rsize := nat! (field fs "rsize"), processors := (countList (field fs "procs") ",").map int!,
    inputs := int! (field fs "inputs"), outputs := int! (field fs "outputs"),
    iin := (countList (field fs "iin") ";").map parseBond,
    iout := (countList (field fs "iout") ";").map parseBond,
    links := (countList (field fs "links") ",").map int!,
    sos := (countList (field fs "sos") ";").map pso, slinks := parseSlinks (field fs "slinks") }

def fmtHead (p : String) (ndom : Nat) (rsize : Nat) (procs : List Int) (inputs outputs : Int)
    (iin iout : List Bond) (links : List Int) (sos : List String) (sl : Option (List (List Int))) : String :=
  s!"{p}.B rsize={rsize} ndom={ndom} procs={fmtInts procs} inputs={inputs} outputs={outputs} " ++
  s!"iin={fmtList (iin.map fmtBond) ";"} iout={fmtList (iout.map fmtBond) ";"} links={fmtInts links} " ++
  s!"sos={fmtList sos ";"} slinks={fmtSlinks sl}"

/-! ### per-case state -/

structure Case where
  id : String := ""
  kind : String := ""
  lB : Option (BHead (Option SO)) := none
  lD : List LoadedMachine := []
  jB : Option (BHead (List Char)) := none
  jD : List MachineJson := []
  xB : Option (BHead (Option SO)) := none
  xD : List LoadedMachine := []

structure St where
  statics : List String := []
  cfg : FamConfig := { lqRanges := none, flopoco := false }
  reg : Registry := { ops := [], fams := [] }
  reg0 : Registry := { ops := [], fams := [] }
  cur : Option Case := none

def b2s (b : Bool) : String := if b then "1" else "0"

def mkBM {α β : Type} (h : BHead β) (ds : List (MachineOf α)) : BMOf α β :=
  { rsize := h.rsize, domains := ds, processors := h.processors, inputs := h.inputs,
    outputs := h.outputs, iin := h.iin, iout := h.iout, links := h.links, sos := h.sos,
    slinks := h.slinks }

def resolvableM (reg0 : Registry) (m : Machine) : Bool := m.ops.all (resolvableOpB reg0)

/-- flush one case: model outputs and the property verdicts -/
def finish (s : St) (c : Case) : St × List String :=
  let out0 := [s!"CASE {c.id}"]
  -- model Jsoner on the live dump
  let liveChecked : Option (List Machine) := allSome (c.lD.map MachineOf.check)
  let mj : List String :=
    match liveChecked with
    | none => if c.lD.isEmpty then [] else ["MJ nil-opcode-in-live-machine"]
    | some ds =>
      match c.lB with
      | some h =>
        match allSome h.sos with
        | some sos =>
          let j := jsonerBM (mkBM { h with sos := sos } ds)
          fmtHead "MJ" j.domains.length j.rsize j.processors j.inputs j.outputs j.iin j.iout j.links
              (j.sos.map encodeL) j.slinks ::
            (j.domains.zipIdx.map fun (d, k) => fmtJsonD "MJ" k d)
        | none => ["MJ nil-so-in-live-machine"]
      | none => ds.zipIdx.map fun (d, k) => fmtJsonD "MJ" k (jsoner d)
  -- model Dejsoner on the implementation's JSON dump, registry threaded
  let (reg', mx, xModel) : Registry × List String × Option (LoadedBM ⊕ List LoadedMachine) :=
    match c.jB with
    | some h =>
      let j : BMJson := { rsize := h.rsize, domains := c.jD, processors := h.processors,
                          inputs := h.inputs, outputs := h.outputs, iin := h.iin, iout := h.iout,
                          links := h.links, sos := h.sos, slinks := h.slinks }
      let r := loadBM s.reg j      -- Dejsoner followed by Init, as the tools load a file
      let b := r.2
      (r.1, fmtHead "MX" b.domains.length b.rsize b.processors b.inputs b.outputs b.iin b.iout b.links
              (b.sos.map fmtSO) b.slinks ::
            (b.domains.zipIdx.map fun (d, k) => fmtLiveD "MX" k d), some (.inl b))
    | none =>
      let r := dejsonDomains s.reg c.jD
      (r.1, r.2.zipIdx.map fun (d, k) => fmtLiveD "MX" k d, some (.inr r.2))
  -- the property on the implementation's dumps
  let resolvable : Bool :=
    match liveChecked with
    | some ds => ds.all (resolvableM s.reg0)
    | none => false
  let sovalid : Bool :=
    match c.lB with
    | some h => h.sos.all fun o => match o with | some so => decide so.Valid | none => false
    | none => true
  let loadeq : String :=
    if c.lD.isEmpty then "-" else
    let dEq := c.xD == c.lD.map (·.clearTransient)
    match c.lB, c.xB with
    | some l, some x =>
      b2s (dEq && x.rsize == l.rsize && x.processors == l.processors && x.inputs == l.inputs &&
        x.outputs == l.outputs && x.iin == l.iin && x.iout == l.iout && x.links == l.links &&
        x.sos == l.sos && x.slinks.getD [] == l.slinks.getD [])
    | none, none => b2s dEq
    | _, _ => "0"
  let nilops := (c.xD.map fun d => (d.ops.filter Option.isNone).length).sum
  let nilsos := match c.xB with | some x => (x.sos.filter Option.isNone).length | none => 0
  let counts : Bool :=
    c.xD.length == c.jD.length &&
    (c.xD.map (·.ops.length)) == (c.jD.map (·.op.length)) &&
    (match c.jB, c.xB with
     | some j, some x => x.sos.length == j.sos.length && x.links == j.links && x.iin == j.iin &&
         x.iout == j.iout && (j.slinks.isNone || x.slinks == j.slinks) && x.processors == j.processors
     | none, none => true
     | _, _ => false)
  -- what the model itself predicts for this file in this loader configuration: nil entries = the file is not loadable
  let nilIn (ds : List LoadedMachine) : Nat := (ds.map fun d => (d.ops.filter Option.isNone).length).sum
  let (mnilops, mnilsos) : Nat × Nat :=
    match xModel with
    | some (.inl b) => (nilIn b.domains, (b.sos.filter Option.isNone).length)
    | some (.inr ds) => (nilIn ds, 0)
    | none => (0, 0)
  let p := s!"P resolvable={b2s resolvable} sovalid={b2s sovalid} loadeq={loadeq} nilops={nilops} nilsos={nilsos} counts={b2s counts} mnilops={mnilops} mnilsos={mnilsos}"
  ({ s with reg := reg', cur := none }, out0 ++ mj ++ mx ++ [p])

def flush (s : St) : St × List String :=
  match s.cur with
  | some c => finish s c
  | none => (s, [])

def decodeStr (s : String) : List Char := decodeL s.toList

def step (s : St) (line : String) : St × List String :=
  let fs := fields line
  match fs with
  | "R" :: rest =>
    let st := commaList (rest.headD "")
    ({ s with statics := st }, [])
  | "F" :: rest =>
    let lq := field rest "lq"
    let cfg : FamConfig :=
      { lqRanges := if lq = "-" || lq = "" then none else some ((lq.splitOn ",").map nat!),
        flopoco := field rest "flopoco" = "1" }
    let reg := stdRegistry cfg s.statics
    ({ s with cfg := cfg, reg := reg, reg0 := reg }, [])
  | "CASE" :: id :: kind :: _ =>
    let (s', outs) := flush s
    ({ s' with cur := some { id := id, kind := kind } }, outs)
  | "END" :: _ =>
    let (s', outs) := flush s
    (s', outs ++ ["END"])
  | tag :: rest =>
    match s.cur with
    | none => (s, [])
    | some c =>
      let c' : Case :=
        if tag = "L.B" then { c with lB := some (parseHead rest parseSO) }
        else if tag = "X.B" then { c with xB := some (parseHead rest parseSO) }
        else if tag = "J.B" then { c with jB := some (parseHead rest decodeStr) }
        else if tag = "L.D" then { c with lD := c.lD ++ [parseLiveD rest] }
        else if tag = "X.D" then { c with xD := c.xD ++ [parseLiveD rest] }
        else if tag = "J.D" then { c with jD := c.jD ++ [parseJsonD rest] }
        else c
      ({ s with cur := some c' }, [])
  | [] => (s, [])

def main : IO Unit := do
  let _ ← foldStdin ({} : St) step
