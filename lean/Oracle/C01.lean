/-
  Oracle for C01.  Replays the harness' lines:
    A/S/P      architecture, source, program words
    O onlydestregs inc=.. dec=.. rset=.. jz=..   the HDL was generated with the OnlyDestRegs
                               optimisation from these recorded register sets (after P, before H)
    H <sexp> | H err …        the emitted Verilog file set (a0 + p0 + p0rom), parsed by bmvh/vlog
    T                          initialise: Isa.init; Vlog: Design.init + one clock with reset high; Rtl.reset
    DV <word> …                the data words that follow the program in the ROM (machines with ro2rri)
    V in=.. iv=.. or=..        port stimulus, then one simulator step / one clock
    VH in=.. iv=.. or=..       a hardware-only clock (the first of the two clocks of an ro2rri): Y and Z only
  and prints after every V line
    X …   BMV.Isa.step            (compared with the Go VM's X line: simulator tie)
    Y …   the emitted Verilog under BMV.Vlog.cycle   (the implementation's hardware)
    Z …   BMV.Rtl.cycle           (compared with Y: HDL tie)
  The harness' own X lines are consumed and not echoed.
-/
import BMV.Isa
import BMV.Rtl
import BMV.Lines
import BMV.Vlog.Elab
open BMV BMV.Bits BMV.Lines BMV.Vlog

def parseMode (s : String) : Mode :=
  if s = "vn" then .vn else if s = "hy" then .hy else .ha

def parseArch (fs : List String) : Option Arch :=
  match fs with
  | [rs, r, n, m, l, o, mode, ws, ops] =>
    let opl := (ops.drop 4).toString
    some { rsize := nat! rs, r := nat! r, n := nat! n, m := nat! m, l := nat! l, o := nat! o,
           mode := parseMode mode, wordSize := nat! ws,
           ops := if opl = "" then [] else opl.splitOn "," }
  | _ => none

/-- indices of the observed signals of the flattened design -/
structure Hw where
  d : Design
  clk : Nat
  reset : Nat
  pc : Nat
  regs : List Nat
  auxo : List Nat
  oval : List (Option Nat)
  irecv : List (Option Nat)
  waitsm : Option Nat
  inp : List Nat
  ival : List Nat
  orecv : List Nat
  pipes : List (Option Nat) := []     -- addp/multp/divp: state, input_a, input_b (where the opcode exists)
  rom : List (Option Nat) := []       -- ro2rri: romread_bus, romread_ready

structure St where
  arch : Arch := { rsize := 8, r := 1, n := 0, m := 0, l := 0, o := 1, ops := [] }
  prog : List Bits := []
  data : List Bits := []
  vm : Option VmState := none
  hw : Option Hw := none
  hwErr : String := ""
  hst : Option State := none
  rtl : RtlState := {}
  used : Option (List (String × List Nat)) := none     -- OnlyDestRegs: the sets the Go side recorded

def joinN (l : List Nat) : String := ",".intercalate (l.map toString)
def joinB (l : List Bool) : String := ",".intercalate (l.map fun b => if b then "1" else "0")

def dump (s : VmState) : String :=
  let d := s.deferred.mergeSort (· ≤ ·)
  let ph := (["addp", "divp", "multp"].filter fun o => s.phase.contains o)
  s!"X pc={s.pc} r={joinN s.regs} o={joinN s.outputs} ov={joinB s.outValid} ir={joinB s.inRecv} d={joinN d} ph={",".intercalate ph}"

def dumpHw (tag : String) (pc : Nat) (regs auxo : List Nat) (ov ir : List Bool) (w : Bool) (pipes rom : List Nat) : String :=
  s!"{tag} pc={pc} r={joinN regs} o={joinN auxo} ov={joinB ov} ir={joinB ir} w={if w then 1 else 0} pp={joinN pipes} rom={joinN rom}"

def bools (s : String) : List Bool := (commaList s).map (· == "1")
def nats (s : String) : List Nat := (commaList s).map nat!

def mkHw (a : Arch) (line : String) : R Hw := do
  let d ← Design.ofString line (some "a0")
  let clk ← d.sigIdx "clock_signal"
  let reset ← d.sigIdx "reset_signal"
  d.checkClock clk
  let p := "p0_instance."
  let pc ← d.sigIdx (p ++ "_pc")
  let regs ← (List.range (2 ^ a.r)).mapM fun k => d.sigIdx (p ++ s!"_r{k}")
  let auxo ← (List.range a.m).mapM fun k => d.sigIdx (p ++ s!"_auxo{k}")
  let oval := (List.range a.m).map fun k => d.sigIdx? (p ++ s!"o{k}_val")
  let irecv := (List.range a.n).map fun k => d.sigIdx? (p ++ s!"i{k}_recv")
  let inp ← (List.range a.n).mapM fun k => d.sigIdx s!"i{k}"
  let ival ← (List.range a.n).mapM fun k => d.sigIdx s!"i{k}_valid"
  let orecv ← (List.range a.m).mapM fun k => d.sigIdx s!"o{k}_received"
  let pipes := (["addp", "multp", "divp"].map fun o =>
    [d.sigIdx? (p ++ s!"{o}_0_state"), d.sigIdx? (p ++ s!"{o}_0_input_a"), d.sigIdx? (p ++ s!"{o}_0_input_b")]).flatten
  let rom := [d.sigIdx? (p ++ "romread_bus"), d.sigIdx? (p ++ "romread_ready")]
  pure { d, clk, reset, pc, regs, auxo, oval, irecv, waitsm := d.sigIdx? (p ++ "waitsm"), inp, ival, orecv, pipes, rom }

def hwDump (h : Hw) (st : State) : String :=
  dumpHw "Y" (st.get h.pc) (h.regs.map st.get) (h.auxo.map st.get)
    (h.oval.map fun o => match o with | some i => st.get i != 0 | none => false)
    (h.irecv.map fun o => match o with | some i => st.get i != 0 | none => false)
    (match h.waitsm with | some i => st.get i != 0 | none => false)
    (h.pipes.map fun o => match o with | some i => st.get i | none => 0)
    (h.rom.map fun o => match o with | some i => st.get i | none => 0)

/-- registers the processes `oK_val` / `iK_recv` / `waitsm` exist only if some opcode declares them -/
def rtlDump (h : Option Hw) (s : RtlState) : String :=
  let has (f : Hw → List (Option Nat)) (k : Nat) : Bool := match h with
    | some hw => ((f hw).getD k none).isSome
    | none => true
  dumpHw "Z" s.pc s.regs s.auxo
    ((List.range s.oVal.length).map fun k => has (fun hw => hw.oval) k && s.oVal.getD k false)
    ((List.range s.iRecv.length).map fun k => has (fun hw => hw.irecv) k && s.iRecv.getD k false)
    ((match h with | some hw => hw.waitsm.isSome | none => true) && s.waitsm)
    (let raw := [s.pAdd, s.pMult, s.pDiv].flatMap fun pp => [if pp.st then 1 else 0, pp.a, pp.b]
     (List.range raw.length).map fun k => if has (fun hw => hw.pipes) k then raw.getD k 0 else 0)
    (let raw := [s.romBus, if s.romReady then 1 else 0]
     (List.range raw.length).map fun k => if has (fun hw => hw.rom) k then raw.getD k 0 else 0)

def step (st : St) (line : String) : St × List String :=
  if line.startsWith "H " then
    if line.startsWith "H err" then ({ st with hw := none, hwErr := line }, [line])
    else match mkHw st.arch (line.drop 2).toString with
      | .ok h => ({ st with hw := some h, hwErr := "" }, ["H ok"])
      | .error e => ({ st with hw := none, hwErr := e }, ["H rejected " ++ e])
  else
  let fs := fields line
  match fs with
  | "A" :: rest =>
    match parseArch rest with
    | some a => ({ arch := a }, [line])   -- also clears `used`
    | none => (st, ["bad-arch"])
  | "S" :: _ => (st, [line])
  | "O" :: _ :: sets =>
    let used := sets.map fun f => match f.splitOn "=" with
      | [op, regs] => (op, nats regs)
      | _ => ("?", [])
    -- the model's idea of what the assembler records, compared as sets
    -- hypothesis of `onlyDestRegs_sound`: the sets the generator used contain the model's destRegs;
    -- when something was recorded for an opcode (not every arm kept) the sets must be equal
    let all := 2 ^ st.arch.r
    let recorded := fun (key : String) =>
      if key.endsWith "/src" then Rtl.srcRegs st.arch st.prog (key.dropEnd 4).toString
      else Rtl.destRegs st.arch st.prog key
    let sound := used.all fun (op, regs) =>
      (recorded op).all (fun r => regs.contains r)
    let exact := used.all fun (op, regs) =>
      regs.length == all || regs.all (fun r => (recorded op).contains r)
    let pruned := used.any fun (_, regs) => regs.length < all
    ({ st with used := some used },
      [if sound && exact then (if pruned then "O ok pruned" else "O ok") else "O destregs-differ " ++ line])
  | "P" :: "err" :: _ => ({ st with vm := none }, [line])
  | "P" :: ws => ({ st with prog := ws.map ofString01, data := [] }, [line])
  | "DV" :: ws => ({ st with data := ws.map ofString01 }, [line])
  | "VH" :: rest =>
    let ins := nats ((kv rest "in").getD "")
    let iv := bools ((kv rest "iv").getD "")
    let orc := bools ((kv rest "or").getD "")
    let (hst', yl) := match st.hw, st.hst with
      | some h, some s =>
        let inputs := [(h.reset, 0)] ++ (h.inp.zip ins) ++ (h.ival.zip (iv.map fun b => if b then 1 else 0))
          ++ (h.orecv.zip (orc.map fun b => if b then 1 else 0))
        match h.d.cycle h.clk s inputs with
        | .ok s2 => (some s2, hwDump h s2)
        | .error e => (none, "Y fail " ++ e)
      | _, _ => (none, "Y none")
    let p : PortsIn := { inputs := ins, inValid := iv, outRecv := orc }
    let rtl' := match st.used with
      | none => Rtl.cycleRom st.arch st.prog st.data st.rtl p
      | some u => Rtl.cycleOptRom st.arch (fun op => (u.lookup op).getD []) st.prog st.data st.rtl p
    ({ st with hst := hst', rtl := rtl' }, [line, yl, rtlDump st.hw rtl'])
  | "T" :: _ =>
    let (hst, note) : Option State × List String := match st.hw with
      | none => (none, [])
      | some h => match (do let s0 ← h.d.init; h.d.cycle h.clk s0 [(h.reset, 1)]) with
        | .ok s => (some s, [])
        | .error e => (none, ["HI hdl-cannot-be-initialised " ++ e])
    ({ st with vm := some (Isa.init st.arch), hst, rtl := Rtl.reset st.arch }, [line] ++ note)
  | "V" :: rest =>
    let ins := nats ((kv rest "in").getD "")
    let iv := bools ((kv rest "iv").getD "")
    let orc := bools ((kv rest "or").getD "")
    -- simulator model
    let (vm', xl) := match st.vm with
      | none => (none, "X fail")
      | some vm =>
        match Isa.stepRom st.arch st.prog st.data { vm with inputs := ins, inValid := iv, outRecv := orc } with
        | some vm2 => (some vm2, dump vm2)
        | none => (none, "X fail")
    -- emitted hardware under the Verilog semantics
    let (hst', yl) := match st.hw, st.hst with
      | some h, some s =>
        let inputs := [(h.reset, 0)] ++ (h.inp.zip ins) ++ (h.ival.zip (iv.map fun b => if b then 1 else 0))
          ++ (h.orecv.zip (orc.map fun b => if b then 1 else 0))
        match h.d.cycle h.clk s inputs with
        | .ok s2 => (some s2, hwDump h s2)
        | .error e => (none, "Y fail " ++ e)
      | _, _ => (none, "Y none")
    -- hardware model
    let p : PortsIn := { inputs := ins, inValid := iv, outRecv := orc }
    let rtl' := match st.used with
      | none => Rtl.cycleRom st.arch st.prog st.data st.rtl p
      | some u => Rtl.cycleOptRom st.arch (fun op => (u.lookup op).getD []) st.prog st.data st.rtl p
    ({ st with vm := vm', hst := hst', rtl := rtl' }, [line, xl, yl, rtlDump st.hw rtl'])
  | _ => (st, [])

def main : IO Unit := do
  let _ ← foldStdin ({} : St) step
