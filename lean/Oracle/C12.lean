/-
  Oracle for C12 (line protocol with harness/cmd/c12 and tools/props/c12.py).

  in : PROG <id> w=<bits> fuel=<n> steps=<n> salt=<n> decls=<0/1 string or -> body=<s-expr…>
  out: M <id> asm=<l1;l2;…>            model compiler output (`none` → asm=!reject)
       MR <id> regs=<n> ram=<n> rom=<n> ops=<a,b,…>   what Usage_Monitor should have recorded
       SRC <id> done=<0|1> outs=<p:v,…>  goEval
       MRUN <id> end=<0|1> outs=<p:v,…>  model code on the ISA interpreter
  in : IMPL <id> w=… steps=… salt=… asm=<l1;l2;…>     the real compiler's assembly text
  out: IRUN <id> parse=<ok|bad:<line>> end=<0|1> outs=<p:v,…>
  in : PROTO <id> acts=<a1,a2,…>     allocator protocol scenario (see `parseAct`)
  out: PM <id> rank=<n> fixed_final=<0|1> fixed_unique=<0|1> cur_deadlock=<0|1> cur_forced=<ok|hang> ids=<…>
-/
import BMV.Proofs.Bondgo
import BMV.BondgoProto
import BMV.Lines
open BMV.Lines

namespace C12
open BMV.Bondgo

/-! ### s-expression reader for statements -/

def tokenize (s : String) : List String :=
  let s := (s.replace "(" " ( ").replace ")" " ) "
  (s.splitOn " ").filter (· ≠ "")

partial def parseExpr : List String → Option (Expr × List String)
  | "(" :: "lit" :: n :: ")" :: r => some (.lit (nat! n), r)
  | "(" :: "var" :: n :: ")" :: r => some (.var (nat! n), r)
  | "(" :: "ior" :: n :: ")" :: r => some (.ioread (nat! n), r)
  | "(" :: "add" :: r =>
    match parseExpr r with
    | some (a, r1) => match parseExpr r1 with
      | some (b, ")" :: r2) => some (.add a b, r2)
      | _ => none
    | none => none
  | "(" :: "mul" :: r =>
    match parseExpr r with
    | some (a, r1) => match parseExpr r1 with
      | some (b, ")" :: r2) => some (.mul a b, r2)
      | _ => none
    | none => none
  | _ => none

def parseCond : List String → Option (Cond × List String)
  | "(" :: "eq" :: r =>
    match parseExpr r with
    | some (a, r1) => match parseExpr r1 with
      | some (b, ")" :: r2) => some (.eq a b, r2)
      | _ => none
    | none => none
  | _ => none

/-- `(x e) (x e) … )` of a tuple assignment -/
partial def parsePairs : List String → Option (List (Nat × Expr) × List String)
  | ")" :: r => some ([], r)
  | "(" :: x :: r =>
    match parseExpr r with
    | some (e, ")" :: r1) =>
      match parsePairs r1 with
      | some (ps, r2) => some ((nat! x, e) :: ps, r2)
      | none => none
    | _ => none
  | _ => none

partial def parseStmt : List String → Option (Stmt × List String)
  | "skip" :: r => some (.skip, r)
  | "(" :: "tasg" :: r =>
    match parsePairs r with
    | some (ps, r1) => some (.tassign ps, r1)
    | none => none
  | "(" :: "def" :: r =>
    match parsePairs r with
    | some (ps, r1) => some (.define ps, r1)
    | none => none
  | "(" :: "sw" :: r =>
    match parseExpr r with
    | some (e, r1) => match parseStmt r1 with
      | some (cs, ")" :: r2) => some (.switch e cs, r2)
      | _ => none
    | none => none
  | "(" :: "case" :: v :: r =>
    match parseStmt r with
    | some (b, r1) => match parseStmt r1 with
      | some (rest, ")" :: r2) => some (.swCase (nat! v) b rest, r2)
      | _ => none
    | none => none
  | "(" :: "dflt" :: r =>
    match parseStmt r with
    | some (b, ")" :: r1) => some (.swDefault b, r1)
    | _ => none
  | "brk" :: r => some (.brk, r)
  | "cont" :: r => some (.cont, r)
  | "(" :: "forp" :: r =>
    match parseCond r with
    | some (c, r1) => match parseStmt r1 with
      | some (b, r2) => match parseStmt r2 with
        | some (p, ")" :: r3) => some (.loopP c b p, r3)
        | _ => none
      | none => none
    | none => none
  | "(" :: "seq" :: r =>
    match parseStmt r with
    | some (a, r1) => match parseStmt r1 with
      | some (b, ")" :: r2) => some (.seq a b, r2)
      | _ => none
    | none => none
  | "(" :: "asg" :: x :: r =>
    match parseExpr r with
    | some (e, ")" :: r1) => some (.assign (nat! x) e, r1)
    | _ => none
  | "(" :: "decl" :: x :: ")" :: r => some (.decl (nat! x), r)
  | "(" :: "inc" :: x :: ")" :: r => some (.inc (nat! x), r)
  | "(" :: "dec" :: x :: ")" :: r => some (.dec (nat! x), r)
  | "(" :: "iow" :: o :: r =>
    match parseExpr r with
    | some (e, ")" :: r1) => some (.iowrite (nat! o) e, r1)
    | _ => none
  | "(" :: "if" :: r =>
    match parseCond r with
    | some (c, r1) => match parseStmt r1 with
      | some (t, ")" :: r2) => some (.ifThen c t, r2)
      | _ => none
    | none => none
  | "(" :: "ife" :: r =>
    match parseCond r with
    | some (c, r1) => match parseStmt r1 with
      | some (t, r2) => match parseStmt r2 with
        | some (e, ")" :: r3) => some (.ifElse c t e, r3)
        | _ => none
      | none => none
    | none => none
  | "(" :: "for" :: r =>
    match parseStmt r with
    | some (b, ")" :: r1) => some (.loop none b, r1)
    | _ => none
  | "(" :: "forc" :: r =>
    match parseCond r with
    | some (c, r1) => match parseStmt r1 with
      | some (b, ")" :: r2) => some (.loop (some c) b, r2)
      | _ => none
    | none => none
  | _ => none

/-! ### assembly text reader (for the implementation's output) -/

def regOf (s : String) : Option Nat :=
  if s.startsWith "r" then (s.drop 1).toString.toNat? else none
def inOf (s : String) : Option Nat :=
  if s.startsWith "i" then (s.drop 1).toString.toNat? else none
def outOf (s : String) : Option Nat :=
  if s.startsWith "o" then (s.drop 1).toString.toNat? else none

def parseInstr (l : String) : Option Instr :=
  match fields l with
  | ["clr", r] => (regOf r).map .clr
  | ["rset", r, n] => do let r ← regOf r; let n ← n.toNat?; pure (.rset r n)
  | ["cpy", d, s] => do let d ← regOf d; let s ← regOf s; pure (.cpy d s)
  | ["m2r", r, m] => do let r ← regOf r; let m ← m.toNat?; pure (.m2r r m)
  | ["r2m", r, m] => do let r ← regOf r; let m ← m.toNat?; pure (.r2m r m)
  | ["add", d, s] => do let d ← regOf d; let s ← regOf s; pure (.add d s)
  | ["mult", d, s] => do let d ← regOf d; let s ← regOf s; pure (.mult d s)
  | ["inc", r] => (regOf r).map .inc
  | ["dec", r] => (regOf r).map .dec
  | ["je", a, b, t] => do let a ← regOf a; let b ← regOf b; let t ← t.toNat?; pure (.je a b t)
  | ["jz", r, t] => do let r ← regOf r; let t ← t.toNat?; pure (.jz r t)
  | ["j", t] => t.toNat?.map .j
  | ["i2r", r, i] => do let r ← regOf r; let i ← inOf i; pure (.i2r r i)
  | ["r2o", r, o] => do let r ← regOf r; let o ← outOf o; pure (.r2o r o)
  | _ => none

def parseAsm (t : String) : Except String (List Instr) :=
  -- blank lines have no address (the assembler skips them)
  let ls := (if t = "" then [] else t.splitOn ";").filter (fun l => (fields l) ≠ [])
  ls.foldr (fun l acc =>
    match acc, parseInstr l with
    | .error e, _ => .error e
    | .ok is, some i => .ok (i :: is)
    | .ok _, none => .error l) (.ok [])

/-! ### environment and printing -/

/-- input values: a fixed pseudo-random function of (salt, port, read index) -/
def envOf (salt : Nat) (port k : Nat) : Nat :=
  let x := (salt * 1000003 + port * 7919 + k * 104729 + 12345) * 2654435761 % 4294967296
  (x / 8191 + x) % 4294967296

def outsStr (os : List (Nat × Nat)) : String :=
  ",".intercalate (os.map fun (p, v) => s!"{p}:{v}")

def b2s (b : Bool) : String := if b then "1" else "0"

def kvNat (fs : List String) (k : String) (d : Nat) : Nat :=
  match kv fs k with | some v => v.toNat?.getD d | none => d

def bodyOf (line : String) : String :=
  match line.splitOn " body=" with
  | [_, b] => b
  | _ => ""

def asmOf (line : String) : String :=
  match line.splitOn " asm=" with
  | [_, b] => b
  | _ => ""

/-- least number of instructions after which `code` has produced exactly `target` (and, when
    `needEnd`, has left the program); `none` if that does not happen within `maxSteps` -/
def findN (env : Nat → Nat → Nat) (w : Nat) (code : List Instr) (target : List (Nat × Nat)) (needEnd : Bool)
    (maxSteps : Nat) : Option Nat := Id.run do
  let mut c : Cfg := {}
  for k in [0:maxSteps + 1] do
    if c.outs.length == target.length && (!needEnd || decide (code.length ≤ c.pc)) then
      return (if c.outs.reverse == target then some k else none)
    if c.outs.length > target.length then return none
    match isaStep env w code c with
    | some c' => c := c'
    | none => return none
  return none

def doProg (line : String) (fs : List String) : List String × Option (String × Nat) :=
  let id := fs.getD 1 "?"
  let w := kvNat fs "w" 8
  let fuel := kvNat fs "fuel" 8
  let steps := kvNat fs "steps" 2000
  let salt := kvNat fs "salt" 0
  let ds := (kv fs "decls").getD "-"
  let decls : List Bool := if ds = "-" then [] else ds.toList.map (· = '1')
  match parseStmt (tokenize (bodyOf line)) with
  | some (body, []) =>
    let p : Prog := { decls, body }
    let env := envOf salt
    -- the extended compiler / semantics (break, continue, post clauses); on plain programs they are
    -- checked here to coincide with the ones `compile_correct` is about
    let src := goEvalX env w fuel p
    let isPlain := plain p.body
    let xeq := !isPlain || (compileXP p == compile p && goEvalX env w fuel p == goEval env w fuel p)
    let srcLine := s!"SRC {id} done={b2s src.2} outs={outsStr src.1}"
    match compileXP p with
    | none => ([s!"M {id} asm={if redeclProg p then "!refused:already-defined" else "!reject"}", srcLine], none)
    | some code =>
      let run := runCode env w code steps
      -- Usage_Monitor keeps the largest cell number ever handed out (+1), block-local cells included
      let ramN := maxList ((memCells (allLocs p)).map (· + 1))
      let ns := findN env w code src.1 src.2 steps
      -- the hypotheses of `compile_correct_wf` / `compile_correct_full`, evaluated on this program
      ([ s!"WF {id} wf={b2s (wfProg p)} scoped={b2s (scopedProg p)} nostray={b2s (noStray p.body)} plain={b2s isPlain} xeq={b2s xeq}",
        s!"M {id} asm={";".intercalate (code.map Instr.text)}",
        s!"MR {id} regs={regCount code} ram={ramN} rom={code.length} ops={",".intercalate (opcodes code)}",
        srcLine,
        s!"MRUN {id} end={b2s run.2} outs={outsStr run.1} nstar={match ns with | some n => toString n | none => "-"}" ],
       ns.map fun n => (id, n))
  | _ => ([s!"M {id} asm=!parse-error"], none)

def doImpl (known : List (String × Nat)) (line : String) (fs : List String) : List String :=
  let id := fs.getD 1 "?"
  let w := kvNat fs "w" 8
  -- when the model's code reproduces goEval's outputs after n* instructions, the implementation's
  -- code gets 2·n* + 200 instructions to do the same (`exact=1`); otherwise the default budget
  let (steps, exact) := match known.lookup id with
    | some n => (2 * n + 200, true)
    | none => (kvNat fs "steps" 2000, false)
  let salt := kvNat fs "salt" 0
  match parseAsm (asmOf line) with
  | .error l => [s!"IRUN {id} parse=bad:{l.replace " " "_"} end=0 outs="]
  | .ok code =>
    let run := runCode (envOf salt) w code steps
    -- the same code on a machine whose `je` does nothing (what procbuilder implements today)
    let nopCode := (List.range code.length).zip code |>.map fun (k, i) =>
      match i with | .je _ _ _ => Instr.j (k + 1) | x => x
    let run2 := runCode (envOf salt) w nopCode steps
    [s!"IRUN {id} parse=ok end={b2s run.2} outs={outsStr run.1} budget={steps} exact={b2s exact}",
     s!"IRUNJENOP {id} end={b2s run2.2} outs={outsStr run2.1}"]

/-! ### protocol scenarios -/
open BMV.BondgoProto in
/-- (action in the unchanged order, allocation effect) -/
def parseAct (s : String) : Option Act :=
  if s = "u" then some .use
  else if s = "nr" || s = "nm" then some (.req 0 1)
  else if s.startsWith "ni" || s.startsWith "no" then
    some (if (s.drop 2).toString = "0" then .req 0 0 else .req 0 1)
  else if s.startsWith "rr" || s.startsWith "rm" || s = "ri" || s = "ro" then some (.req 0 0)
  else if s = "nc" then some (.req 1 2)
  else if s.startsWith "at" then some (.req 0 2)
  else none

structure AllocSt where
  regs : List Nat := []
  mems : List Nat := []
  ins : List Nat := []
  outs : List Nat := []

/-- the id the allocator answers with (`-` where the model does not predict one) -/
def allocStep (a : AllocSt) (s : String) : AllocSt × String :=
  if s = "nr" then ({ a with regs := fresh a.regs :: a.regs }, toString (fresh a.regs))
  else if s = "nm" then ({ a with mems := fresh a.mems :: a.mems }, toString (fresh a.mems))
  else if s.startsWith "ni" then ({ a with ins := fresh a.ins :: a.ins }, toString (fresh a.ins))
  else if s.startsWith "no" then ({ a with outs := fresh a.outs :: a.outs }, toString (fresh a.outs))
  else if s.startsWith "rr" then ({ a with regs := a.regs.erase (nat! (s.drop 2).toString) }, "-")
  else if s.startsWith "rm" then ({ a with mems := a.mems.erase (nat! (s.drop 2).toString) }, "-")
  else (a, "-")

open BMV.BondgoProto in
def doProto (fs : List String) : List String :=
  let id := fs.getD 1 "?"
  let toks := commaList ((kv fs "acts").getD "")
  match toks.mapM parseAct with
  | none => [s!"PM {id} bad-acts"]
  | some cur =>
    let fixed := cur.map Act.fix
    let r := rank (init fixed)
    let scheds : List (Nat → Nat) := [fun _ => 0, fun i => i, fun i => i * 7 + 3]
    let ff := scheds.all fun sc => final (runSched sc r 0 (init fixed))
    let uniq := (reachable fixed).all fun s => final s || (enabled s).length == 1
    let dl := canDeadlock cur
    -- the losing schedule: the assigner's notifications always wait (visitor and monitor first)
    let forced := runSched (fun _ => 0) (rank (init cur)) 0
      { (init cur) with }  -- `enabled` lists vReq, aAns, vUse before aUse: index 0 prefers the visitor
    let ids := (toks.foldl (fun (acc : AllocSt × List String) t =>
      let (a', x) := allocStep acc.1 t
      (a', acc.2 ++ [x])) ({}, [])).2
    [s!"PM {id} rank={r} fixed_final={b2s ff} fixed_unique={b2s uniq} cur_deadlock={b2s dl} cur_forced={if deadlocked forced then "hang" else "ok"} ids={",".intercalate ids}"]

def handle (known : List (String × Nat)) (line : String) : List (String × Nat) × List String :=
  let fs := fields line
  match fs with
  | "PROG" :: _ =>
    let (ls, k) := doProg line fs
    (match k with | some x => x :: known | none => known, ls)
  | "IMPL" :: _ => (known, doImpl known line fs)
  | "PROTO" :: _ => (known, doProto fs)
  | _ => (known, [])

end C12

def main : IO Unit := do
  let _ ← foldStdin ([] : List (String × Nat)) (fun st l => C12.handle st l)
  pure ()
