/-
  Oracle for C05: reads the harness' stream (see harness/cmd/c05/main.go), parses the *same source
  text* the real tool was given (S lines) into `Basm.Source`, and prints
      R ok | R err <class> | R unsupported         `Basm.assemble` on it
      P entryfirst=<0|1> litjump=<0|1>              facts about the source used for the known-finding signature
      M/C/W/D/II/IO/LK/E                            the model's machine in the harness' canonical text
      WF <0|1>                                      `WfBM` of the model's machine (C16's `assemble_wf`, evaluated)
  and, per `SIM <cp>` block, echoes the stimuli and prints the state of the *reference
  interpreter* (`Basm.refStep` on the source text, not on the ROM) after every tick in the harness'
  X format.  The harness' own R/M…E/X lines are consumed and not echoed.
-/
import BMV.Basm
import BMV.BasmSem
import BMV.BasmData
import BMV.BasmText
import BMV.Lines
open BMV BMV.Bits BMV.Basm BMV.BasmText BMV.Lines

structure St where
  fix : Bool := false                             -- the tree under test has the `entry` repair
  delta : Nat := 0                                -- address shift of the section being interpreted (1 = a jump was placed at 0)
  pendingJump : Bool := false                     -- the first tick of the machine is that jump
  src : List String := []
  parsed : Option Source := none
  bm : Option BM := none
  sim : Option (SecCtx × RefState) := none     -- section being interpreted, reference state
  simArch : Option Arch := none
  dead : Bool := false                            -- reference interpreter has no meaning from here on
  implBm : Option BM := none                      -- the machine the harness dumped (for port / register counts when the model has none)
  data : Option (DataSec × Nat) := none           -- ROM data section of the processor being interpreted, address of its first cell
  net : Option (List SecCtx × List (Topology.Bond × Topology.Bond) × List RefState × List Arch × List Nat) := none
                                                  -- whole machine: contexts, bonds, states, archs, address shifts
  netFirst : Bool := true

def errName : Err → String
  | .dupsymbol => "dupsymbol" | .entry => "entry" | .nomatch => "nomatch" | .notfound => "notfound"
  | .rsize => "rsize" | .noregs => "noregs" | .asm => "asm"

def joinN (l : List Nat) : String := ",".intercalate (l.map toString)
def joinB (l : List Bool) : String := ",".intercalate (l.map fun b => if b then "1" else "0")
def bools (s : String) : List Bool := (commaList s).map (· == "1")
def nats (s : String) : List Nat := (commaList s).map nat!

def dumpRef (a : Arch) (c : SecCtx) (delta : Nat) (s : RefState) : String :=
  let d := s.deferred.mergeSort (· ≤ ·)
  let regs := (List.range (2 ^ a.r)).map s.regs
  let outs := (List.range a.m).map s.outputs
  let ov := (List.range a.m).map s.outValid
  let ir := (List.range a.n).map s.inRecv
  s!"X pc={delta + c.addr s.pos} r={joinN regs} o={joinN outs} ov={joinB ov} ir={joinB ir} d={joinN d}"

def facts (src : Source) : String :=
  let used := src.procs.filterMap fun c => src.sections.reverse.find? (·.name == c.romcode)
  let ef := used.all fun s => entryFirst s.lines
  let lj := used.any fun s => s.lines.any fun l => (l.op == "j" || l.op == "jmp" || l.op == "jz") && l.args.any (fun a => match a with | .num _ => true | _ => false)
  s!"P entryfirst={if ef then 1 else 0} litjump={if lj then 1 else 0}"

def step (st : St) (line : String) : St × List String :=
  match fields line with
  | "MODE" :: rest => ({ st with fix := (kv rest "entryjump").getD "0" == "1" }, [line])
  | "CASE" :: _ => ({ fix := st.fix }, [line])
  | "S" :: _ => ({ st with src := st.src ++ [(line.drop 2).toString] }, [line])
  | "R" :: _ =>
    match parseSource st.src with
    | none => ({ st with parsed := none }, ["R unsupported"])
    | some src =>
      if !src.datas.isEmpty then
        -- data sections are outside the model assembler: only the meaning is compared (SIM blocks), and the data cells
        let dv := src.procs.filterMap fun c =>
          ((src.cpData.find? (·.1 == c.name)).bind fun p => src.datas.reverse.find? (·.name == p.2)).map fun d =>
            s!"DV {c.name} " ++ ",".intercalate (d.cells.map toString)
        ({ st with parsed := some src, bm := none }, ["R unsupported", facts src] ++ dv)
      else
      match assemble src st.fix with
      | .error e => ({ st with parsed := some src }, [s!"R err {errName e}", facts src])
      | .ok bm => ({ st with parsed := some src, bm := some bm },
                   [ "R ok", facts src ] ++ showBM bm ++ [s!"WF {if WfBM bm && wiringAgrees src bm then 1 else 0} cf={if CfClosed bm then 1 else 0} wire={if wiringAgrees src bm then 1 else 0}"])
  | "M" :: _ => ({ st with implBm := some (bmLine default line) }, [])
  | "C" :: _ => ({ st with implBm := st.implBm.map fun b => bmLine b line }, [])
  | "W" :: _ => ({ st with implBm := st.implBm.map fun b => bmLine b line }, [])
  | ["SIM", i] =>
    let k := nat! i
    match st.parsed, (match st.bm with | some b => some b | none => st.implBm) with
    | some src, some bm =>
      match src.procs[k]?, bm.cps[k]? with
      | some c, some cp =>
        match src.sections.reverse.find? (·.name == c.romcode) with
        | some sec =>
          let ctx := SecCtx.of src sec
          match refInit ctx with
          | some r0 =>
            let shifted := st.fix && !(entryFirst sec.lines)
            let dsec := (src.cpData.find? (·.1 == c.name)).bind fun p => src.datas.reverse.find? (·.name == p.2)
            let codeLen := (sec.lines.filter fun l => !isEntry l).length
            ({ st with sim := some (ctx, r0), simArch := some cp.arch, dead := false,
                       delta := if shifted then 1 else 0, pendingJump := shifted,
                       data := dsec.map fun d => (d, (if shifted then 1 else 0) + codeLen) }, [line])
          | none => ({ st with sim := none }, [line, "X noentry"])
        | none => ({ st with sim := none }, [line, "X nosection"])
      | _, _ => ({ st with sim := none }, [line, "X nocp"])
    | _, _ => ({ st with sim := none }, [line])
  | ["BSIM"] =>
    match st.parsed, st.bm with
    | some src, some bm =>
      let secs := src.procs.map fun c => src.sections.reverse.find? (·.name == c.romcode)
      let ctxs := secs.filterMap fun o => o.map (SecCtx.of src)
      let inits := ctxs.filterMap refInit
      if ctxs.length == src.procs.length && inits.length == ctxs.length then
        let deltas := ctxs.map fun c => if st.fix && !(entryFirst c.lines) then 1 else 0
        ({ st with net := some (ctxs, netOf src (ctxs.map fun c => srcPorts c.lines), inits, bm.cps.map (·.arch), deltas), netFirst := true, sim := none, dead := false }, [line])
      else ({ st with net := none, sim := none }, [line, "BX noentry"])
    | _, _ => ({ st with net := none, sim := none }, [line])
  | "BT" :: _ => (st, [line])
  | "BV" :: rest =>
    match st.net, st.bm with
    | some (ctxs, net, sts, archs, deltas), some bm =>
      if st.dead then (st, [line, "BX undefined"]) else
      let ins := nats ((kv rest "in").getD "")
      let iv := bools ((kv rest "iv").getD "")
      let orr := bools ((kv rest "or").getD "")
      let ext : ExtEnv := { inputs := fun k => ins.getD k 0, inValid := fun k => iv.getD k false, outRecv := fun k => orr.getD k false }
      let hold : Nat → Bool := fun p => st.netFirst && deltas.getD p 0 == 1
      match netStep ctxs net ext hold sts with
      | none => ({ st with dead := true }, [line, "BX undefined"])
      | some sts' =>
        let no := bm.topo.outputs
        let ni := bm.topo.inputs
        let outs := (List.range no).map fun r => extOut net ext sts' r
        let bx := s!"BX o={joinN (outs.map (·.1))} ov={joinB (outs.map (·.2))} ir={joinB ((List.range ni).map fun r => extInRecv net ext sts' r)}"
        let xs := (ctxs.zip sts').zipIdx.map fun ((c, s), p) => dumpRef (archs.getD p default) c (deltas.getD p 0) s
        ({ st with net := some (ctxs, net, sts', archs, deltas), netFirst := false }, [line, bx] ++ xs)
    | _, _ => (st, [line])
  | "T" :: _ => (st, [line])
  | "V" :: rest =>
    match st.sim, st.simArch with
    | some (ctx, rs), some a =>
      if st.dead then (st, [line, "X undefined"]) else
      if st.pendingJump then ({ st with pendingJump := false }, [line, dumpRef a ctx st.delta rs]) else
      let ins := nats ((kv rest "in").getD "")
      let iv := bools ((kv rest "iv").getD "")
      let orr := bools ((kv rest "or").getD "")
      let env : Env := { inputs := fun k => ins.getD k 0, inValid := fun k => iv.getD k false, outRecv := fun k => orr.getD k false }
      match (match st.data with | some (d, base) => refStepData ctx d base env rs | none => refStep ctx env rs) with
      | some rs' => ({ st with sim := some (ctx, rs') }, [line, dumpRef a ctx st.delta rs'])
      | none => ({ st with dead := true }, [line, "X undefined"])
    | _, _ => (st, [line])
  | "END" :: _ => (st, [line])
  | _ => (st, [])

def main : IO Unit := do
  let _ ← foldStdin ({} : St) step
