/-
  Oracle for C10: replays the harness' E lines on BMV.Topology and prints
    S ...   the model's state in the harness' format
    P wf=<0|1> spec=<0|1>   the property itself evaluated on the *implementation's* dumped states
-/
import BMV.Topology
import BMV.Lines
open BMV.Topology BMV.Lines

def parseBondDots (s : String) : Bond :=
  match s.splitOn "." with
  | [a, b, c] => ⟨nat! a, nat! b, nat! c⟩
  | _ => ⟨9, 0, 0⟩

/-- name → bond (inverse of Go's `Bond.String`); anything else is a bond that exists nowhere. -/
def parseName (s : String) : Bond :=
  let bad : Bond := ⟨9, 0, 0⟩
  let num (x : String) : Option Nat := if x.isEmpty then none else x.toNat?
  if s.startsWith "i" then
    match num (s.drop 1).toString with | some k => ⟨0, k, 0⟩ | none => bad
  else if s.startsWith "o" then
    match num (s.drop 1).toString with | some k => ⟨1, k, 0⟩ | none => bad
  else if s.startsWith "p" then
    let rest := (s.drop 1).toString
    match rest.splitOn "i" with
    | [a, b] => match num a, num b with | some p, some k => ⟨2, p, k⟩ | _, _ => bad
    | _ => match rest.splitOn "o" with
      | [a, b] => match num a, num b with | some p, some k => ⟨3, p, k⟩ | _, _ => bad
      | _ => bad
  else bad

def parseEdit (fs : List String) : Option Edit :=
  match fs with
  | ["ai"] => some .addInput
  | ["ao"] => some .addOutput
  | ["di", k] => some (.delInput (nat! k))
  | ["do", k] => some (.delOutput (nat! k))
  | ["ap", n, m] => some (.addProcessor (nat! n) (nat! m))
  | ["apr", n, m] => some (.addProcessor (nat! n) (nat! m))   -- same effect, the domain is reused
  | ["ab", a, b] => some (.addBond (parseName a) (parseName b))
  | ["db", i] => some (.delBond (nat! i))
  | ["at", a, b] => some (.attach (parseName a) (parseName b))
  | ["at2", a, b] => some (.attach (parseName a) (parseName b))
  | _ => none

def bondDots (b : Bond) : String := s!"{b.kind}.{b.res}.{b.ext}"

def bondName (b : Bond) : String :=
  match b.kind with
  | 0 => s!"i{b.res}"
  | 1 => s!"o{b.res}"
  | 2 => s!"p{b.res}i{b.ext}"
  | 3 => s!"p{b.res}o{b.ext}"
  | _ => "?"

def dumpTopo (t : Topo) (err : Bool) : String :=
  let ps := ",".intercalate (t.procs.map fun (n, m) => s!"{n}:{m}")
  let ii := ",".intercalate (t.iin.map bondDots)
  let oo := ",".intercalate (t.iout.map bondDots)
  let ll := ",".intercalate (t.links.map fun l => match l with | none => "-" | some j => toString j)
  let bb := ";".intercalate ((bonds t).map fun (o, i) => bondName o ++ "," ++ bondName i)
  s!"S {t.inputs} {t.outputs} P={ps} I={ii} O={oo} L={ll} B={bb} SL={t.procs.length} err={if err then 1 else 0}"

def parseState (fs : List String) : Option Topo :=
  match fs with
  | "S" :: i :: o :: rest =>
    let procs := (commaList ((kv rest "P").getD "")).map fun s =>
      match s.splitOn ":" with | [a, b] => (nat! a, nat! b) | _ => (0, 0)
    let iin := (commaList ((kv rest "I").getD "")).map parseBondDots
    let iout := (commaList ((kv rest "O").getD "")).map parseBondDots
    let links := (commaList ((kv rest "L").getD "")).map fun s => if s = "-" then none else some (nat! s)
    some { inputs := nat! i, outputs := nat! o, procs, iin, iout, links }
  | _ => none

def parseCli (fs : List String) : Option CliEdit :=
  let ids (s : String) : List Nat := (commaList s).map nat!
  match fs with
  | ["addin", n] => some (.addInputs (nat! n))
  | ["addout", n] => some (.addOutputs (nat! n))
  | ["delin", l] => some (.delInputs (ids l))
  | ["delout", l] => some (.delOutputs (ids l))
  | ["addbond", a, b] => some (.addBond (parseName a) (parseName b))
  | ["delbonds", l] => some (.delBonds (ids l))
  | ["addproc", _, n, m] => some (.addProcessor (nat! n) (nat! m))
  | ["attach", a, b] => some (.attach (parseName a) (parseName b))
  | ["attach2", a, b] => some (.attach (parseName a) (parseName b))
  | _ => none

structure St where
  model : Topo := {}
  impl : Topo := {}          -- last state dumped by the implementation
  edit : Option Edit := none
  modelPrev : Topo := {}

def b2s (b : Bool) : String := if b then "1" else "0"

def step (s : St) (line : String) : St × List String :=
  let fs := fields line
  match fs with
  | "H" :: _ => ({}, [line])
  | "E" :: "adom" :: _ =>
    -- a domain without a processor: no topology effect at all
    ({ s with edit := none, modelPrev := s.model }, [line, dumpTopo s.model false])
  | "E" :: rest =>
    match parseEdit rest with
    | some e =>
      let err := rejects s.model e
      let m' := apply s.model e
      ({ s with model := m', edit := some e, modelPrev := s.model }, [line, dumpTopo m' err])
    | none => ({ s with edit := none }, [line, "bad-edit"])
  | "C" :: rest =>
    -- one invocation of the command line tool = a sequence of API edits
    match parseCli rest with
    | some c =>
      let m' := applyCli s.model c
      ({ s with model := m', edit := none, modelPrev := s.model }, [line, dumpTopo m' false])
    | none => ({ s with edit := none }, [line, "bad-edit"])
  | "S" :: _ =>
    match parseState fs, s.edit with
    | some g', none =>
      -- after a CLI invocation: well-formedness of what the tool wrote back
      ({ s with impl := g' }, [s!"P wf={b2s (wfB g')} spec=1 mwf={b2s (wfB s.model)} mspec=1"])
    | some g', some e =>
      let wf := wfB g'
      let spec := sameSet (bonds g') (specBonds s.impl e)
      -- the model's own self-check (must always be 1/1 by the theorems; printed as a cross-check)
      let mwf := wfB s.model
      let mspec := sameSet (bonds s.model) (specBonds s.modelPrev e)
      ({ s with impl := g' }, [s!"P wf={b2s wf} spec={b2s spec} mwf={b2s mwf} mspec={b2s mspec}"])
    | _, _ => (s, ["P unparsable"])
  | _ => (s, [])   -- panic / bad-edit lines of the implementation: no model counterpart

def main : IO Unit := do
  let _ ← foldStdin ({} : St) step
