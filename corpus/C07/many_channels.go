// bondgo -mpm: ten channels shared by main and one goroutine (a Go map with more than eight entries has
// many iteration orders): the Shared_links of the saved machine must list them in one order on every run
package main

import (
	"bondgo"
)

func worker(c0 chan uint8, c1 chan uint8, c2 chan uint8, c3 chan uint8, c4 chan uint8, c5 chan uint8, c6 chan uint8, c7 chan uint8, c8 chan uint8, c9 chan uint8) {
	c0 <- 1
	c1 <- 2
	c2 <- 3
	c3 <- 4
	c4 <- 5
	c5 <- 6
	c6 <- 7
	c7 <- 8
	c8 <- 9
	c9 <- 10
}

func main() {
	var o bondgo.Output
	var c0 chan uint8
	var c1 chan uint8
	var c2 chan uint8
	var c3 chan uint8
	var c4 chan uint8
	var c5 chan uint8
	var c6 chan uint8
	var c7 chan uint8
	var c8 chan uint8
	var c9 chan uint8
	var x uint8
	o = bondgo.Make(bondgo.Output, 1)
	go worker(c0, c1, c2, c3, c4, c5, c6, c7, c8, c9)
	x = <-c0
	bondgo.IOWrite(o, x)
	x = <-c1
	bondgo.IOWrite(o, x)
	x = <-c2
	bondgo.IOWrite(o, x)
	x = <-c3
	bondgo.IOWrite(o, x)
	x = <-c4
	bondgo.IOWrite(o, x)
	x = <-c5
	bondgo.IOWrite(o, x)
	x = <-c6
	bondgo.IOWrite(o, x)
	x = <-c7
	bondgo.IOWrite(o, x)
	x = <-c8
	bondgo.IOWrite(o, x)
	x = <-c9
	bondgo.IOWrite(o, x)
}
