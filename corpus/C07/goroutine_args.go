package main

import (
	"bondgo"
)

func worker(x uint8, y uint8, z uint8) {
	var o bondgo.Output
	var s uint8
	o = bondgo.Make(bondgo.Output, 2)
	s = x + y
	s = s + z
	bondgo.IOWrite(o, s)
}

func main() {
	var o bondgo.Output
	var a uint8
	var b uint8
	var c uint8
	o = bondgo.Make(bondgo.Output, 1)
	a = 3
	b = 4
	c = 5
	go worker(a, b, c)
	bondgo.IOWrite(o, a)
}
