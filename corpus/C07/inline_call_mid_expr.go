package main

import (
	"bondgo"
)

// calls of functions with two and three register parameters in the MIDDLE of an expression: after the
// inlined call its parameters and locals are released (by ranging over the scope's variable map) and
// another register is requested before the call's result is consumed

func add3(a uint8, b uint8, c uint8) uint8 {
	var s uint8
	s = a + b
	s = s + c
	return s
}

func mix2(p uint8, q uint8) uint8 {
	var t uint8
	var u uint8
	t = p + q
	u = t + p
	return u
}

func main() {
	var o bondgo.Output
	var x uint8
	var y uint8
	var z uint8
	var w uint8
	o = bondgo.Make(bondgo.Output, 1)
	x = 1
	y = 2
	for {
		z = add3(x, y, z) + y
		w = mix2(z, x) + z
		x = add3(w, z, y) + mix2(x, y) + w
		bondgo.IOWrite(o, x)
	}
}
