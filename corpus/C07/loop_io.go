package main

import (
	"bondgo"
)

func main() {
	var i bondgo.Input
	var o bondgo.Output
	var a uint8
	var b uint8
	i = bondgo.Make(bondgo.Input, 1)
	o = bondgo.Make(bondgo.Output, 2)
	for {
		a = bondgo.IORead(i)
		if a == 3 {
			b = b + a
		} else {
			b++
		}
		bondgo.IOWrite(o, b)
	}
}
