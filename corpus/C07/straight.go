package main

import (
	"bondgo"
)

func main() {
	var o bondgo.Output
	var a uint8
	var b uint8
	o = bondgo.Make(bondgo.Output, 1)
	a = 3
	b = a + 2
	bondgo.IOWrite(o, b)
}
