// bondgo -mpm: two channels shared by main and one goroutine, select over them on both sides; the
// Shared_links of the saved machine must list the channels in one order on every run
package main

import (
	"bondgo"
)

func worker(a chan uint8, b chan uint8) {
	var v uint8
	v = 1
	for {
		select {
		case a <- v:
			v = v + 1
		case b <- v:
			v = v + 2
		}
	}
}

func main() {
	var o bondgo.Output
	var c0 chan uint8
	var c1 chan uint8
	var x uint8
	o = bondgo.Make(bondgo.Output, 1)
	go worker(c0, c1)
	for {
		select {
		case x = <-c0:
			bondgo.IOWrite(o, x)
		case x = <-c1:
			bondgo.IOWrite(o, x)
		}
	}
}
