// C01 harness.  Part 1 (`sim`): steps the real procbuilder.VM on generated architectures,
// programs and port stimuli and dumps the architectural state after every VM.Step:
//
//	A rsize R N M L O mode wordsize ops=...        architecture
//	S <assembly line>                              program source (one per instruction)
//	P <word> <word> ...                            assembled program (Arch.Assembler)
//	T                                              VM.Init
//	V in=v,.. iv=0/1,.. or=0/1,..                  port stimulus applied before the next step
//	X pc=.. r=.. o=.. ov=.. ir=.. d=..             state after VM.Step  (| X err | X panic:...)
//
// Part 2 (`hdl`): additionally emits the generated Verilog of the same machine (parsed to an
// S-expression by bmvh/vlog when that package is available) — see hdl.go.
//
// Usage: c01 sim|hdl|hdlopt <machines> <steps> | c01 replay|replayhdl|replayhdlopt <file>
package main

import (
	"bufio"
	"fmt"
	"os"
	"sort"
	"strconv"
	"strings"

	"bmvh/common"
	"bmvh/vlog"

	"github.com/BondMachineHQ/BondMachine/pkg/bmline"
	"github.com/BondMachineHQ/BondMachine/pkg/bmreqs"
	"github.com/BondMachineHQ/BondMachine/pkg/procbuilder"
)

// withHDL: also emit the generated Verilog (parsed) of every machine; hwOpt: with OnlyDestRegs
var withHDL, hwOpt bool

// emitHDL renders arch + processor + ROM exactly as bondmachine.Write_verilog does for one domain
// and prints them as one S-expression line "H <sexp>" (or "H err <class>: <message>").
func emitHDL(m *procbuilder.Machine, src []string, opt bool) {
	res := common.Guard(func() string {
		conf := new(procbuilder.Config)
		rg := bmreqs.NewReqRoot()
		defer rg.Close()
		conf.ReqRoot = rg
		conf.Runinfo = new(procbuilder.RuntimeInfo)
		conf.Runinfo.Init()
		// the comment option must not change the hardware: on for every other program
		conf.Commented_verilog = len(src)%2 == 1
		m.Arch.Tag = "0"
		if opt {
			// record the destination registers the way basm does: through each opcode's own
			// HLAssemblerNormalize on the program's lines
			node := "/bm:cps/id:0"
			rg.Requirement(bmreqs.ReqRequest{Node: "/", T: bmreqs.ObjectSet, Name: "bm", Value: "cps", Op: bmreqs.OpAdd})
			rg.Requirement(bmreqs.ReqRequest{Node: "/bm:cps", T: bmreqs.ObjectSet, Name: "id", Value: "0", Op: bmreqs.OpAdd})
			for _, l := range src {
				f := strings.Fields(l)
				if len(f) == 0 {
					continue
				}
				bl := new(bmline.BasmLine)
				bl.Operation = new(bmline.BasmElement)
				spelling := f[0]
				if f[0] == "rset" && len(l)%2 == 0 {
					// the assembler also reaches rset through its pseudo-instruction `mov rX, <number>`
					// (Rset.HLAssemblerMatch): record through that spelling for half of the lines
					spelling = "mov"
				}
				bl.Operation.SetValue(spelling)
				for _, a := range f[1:] {
					e := new(bmline.BasmElement)
					e.SetValue(a)
					bl.Elements = append(bl.Elements, e)
				}
				for _, op := range m.Arch.Op {
					if op.Op_get_name() == f[0] {
						// as basm's matcherResolver does: the opcode is added to the section's set first
						rg.Requirement(bmreqs.ReqRequest{Node: node, T: bmreqs.ObjectSet, Name: "opcodes", Value: f[0], Op: bmreqs.OpAdd})
						func() {
							defer func() { recover() }()
							op.HLAssemblerNormalize(&m.Arch, rg, node, bl)
						}()
					}
				}
			}
			// which of the two optimisations: a function of the program, so that a replay takes the same
			// ones (1 = onlydestregs, 2 = onlysrcregs, 3 = both)
			flags := 1 + (len(src)+len(strings.Join(src, "")))%3
			if flags&1 != 0 {
				conf.HwOptimizations = procbuilder.SetHwOptimization(conf.HwOptimizations, procbuilder.HwOptimizations(procbuilder.OnlyDestRegs))
			}
			if flags&2 != 0 {
				conf.HwOptimizations = procbuilder.SetHwOptimization(conf.HwOptimizations, procbuilder.HwOptimizations(procbuilder.OnlySrcRegs))
			}
			// what was recorded (queried exactly as the templates query it); a flag that is off keeps
			// every arm = every register
			query := func(opn, set string, on bool) string {
				var regs []string
				for i := 0; i < 1<<uint(m.Arch.R); i++ {
					req := rg.Requirement(bmreqs.ReqRequest{Node: node + "/opcodes:" + opn, T: bmreqs.ObjectSet, Name: set, Value: procbuilder.Get_register_name(i), Op: bmreqs.OpCheck})
					if !on || req.Value != "false" {
						regs = append(regs, strconv.Itoa(i))
					}
				}
				return strings.Join(regs, ",")
			}
			var parts []string
			for _, opn := range []string{"inc", "dec", "rset", "jz", "addp", "multp", "divp"} {
				parts = append(parts, opn+"="+query(opn, "destregs", flags&1 != 0))
			}
			for _, opn := range []string{"addp", "multp", "divp"} {
				parts = append(parts, opn+"/src="+query(opn, "sourceregs", flags&2 != 0))
			}
			out.Line("O hwopt%d %s", flags, strings.Join(parts, " "))
		}
		names := map[string]string{"processor": "p0", "rom": "p0rom", "ram": "p0ram"}
		files := map[string]string{
			"a0.v":    m.Arch.Write_verilog("a0", names, "iverilog"),
			"p0.v":    m.Arch.Conproc.Write_verilog(conf, &m.Arch, "p0", "iverilog"),
			"p0rom.v": m.Arch.Rom.Write_verilog(m, "p0rom", "iverilog"),
		}
		if m.Arch.L != 0 {
			files["p0ram.v"] = m.Arch.Ram.Write_verilog(conf, m, "p0ram", "iverilog")
		}
		d, err := vlog.ParseFiles(files)
		if err != nil {
			return "H err " + strings.ReplaceAll(err.Error(), "\n", " ")
		}
		return "H " + vlog.ToSexp(d)
	})
	if strings.HasPrefix(res, "panic") {
		res = "H err " + res
	}
	out.Line("%s", res)
}

var out = common.NewOut(os.Stdout)

type archSpec struct {
	rsize, r, n, m, l, o int
	mode                 string
	wordSize             int
	ops                  []string
}

func (s archSpec) line() string {
	return fmt.Sprintf("A %d %d %d %d %d %d %s %d ops=%s", s.rsize, s.r, s.n, s.m, s.l, s.o, s.mode, s.wordSize, strings.Join(s.ops, ","))
}

func parseArch(l string) archSpec {
	f := strings.Fields(l)
	at := func(i int) int { v, _ := strconv.Atoi(f[i]); return v }
	s := archSpec{rsize: at(1), r: at(2), n: at(3), m: at(4), l: at(5), o: at(6), mode: f[7], wordSize: at(8)}
	opl := strings.TrimPrefix(f[9], "ops=")
	if opl != "" {
		s.ops = strings.Split(opl, ",")
	}
	return s
}

func build(s archSpec) (*procbuilder.Machine, error) {
	all := map[string]procbuilder.Opcode{}
	for _, op := range procbuilder.Allopcodes {
		all[op.Op_get_name()] = op
	}
	m := new(procbuilder.Machine)
	a := &m.Arch
	a.Rsize = uint8(s.rsize)
	a.R = uint8(s.r)
	a.N = uint8(s.n)
	a.M = uint8(s.m)
	a.L = uint8(s.l)
	a.O = uint8(s.o)
	a.Modes = []string{s.mode}
	a.WordSize = uint8(s.wordSize)
	ops := make([]procbuilder.Opcode, 0)
	for _, n := range s.ops {
		op, ok := all[n]
		if !ok {
			return nil, fmt.Errorf("no opcode %s", n)
		}
		ops = append(ops, op)
	}
	sort.Sort(procbuilder.ByName(ops))
	a.Op = ops
	return m, nil
}

// the co-implemented opcode set (both back-ends implement them); widths they work at
var coImplAll = []string{"nop", "rset", "inc", "dec", "clr", "add", "mult", "div", "cpy", "j", "jz", "i2r", "r2o", "i2rw", "r2owa",
	"addp", "multp", "divp", "ro2rri"}
var coImplSmall = []string{"and", "or", "xor", "nand", "nor", "xnor", "not", "mod"}

func shape(op string) string {
	switch op {
	case "nop":
		return ""
	case "rset":
		return "rv"
	case "inc", "dec", "clr":
		return "r"
	case "j":
		return "a"
	case "jz":
		return "ra"
	case "i2r", "i2rw":
		return "ri"
	case "r2o", "r2owa":
		return "ro"
	}
	return "rr"
}

func genValue(r *common.Rng, rsize int) string {
	switch r.Intn(6) {
	case 0:
		return "0"
	case 1:
		return "1"
	case 2:
		if rsize >= 64 {
			return "18446744073709551615"
		}
		return strconv.FormatUint((uint64(1)<<uint(rsize))-1, 10)
	}
	v := r.Next()
	if rsize < 64 {
		v &= (uint64(1) << uint(rsize)) - 1
	}
	if r.Bool() {
		v &= 7
	}
	return strconv.FormatUint(v, 10)
}

// directed machines: every co-implemented opcode on its own (plus rset / j to load registers and
// loop), at R = 1, 2, 3 (the templates special-case R == 1) and two register sizes, with every
// (destination, source) register pair of interest and distinct non-zero operands — a wrong
// part-select or operand order in ONE template cannot hide behind the random mix
func directedCases() []struct {
	s   archSpec
	src []string
} {
	var res []struct {
		s   archSpec
		src []string
	}
	ops := append(append([]string{}, coImplAll...), coImplSmall...)
	for _, op := range ops {
		if op == "i2rw" || op == "r2owa" { // handshake opcodes: C04's nets
			continue
		}
		for _, r := range []int{1, 2, 3} {
			for _, rsize := range []int{8, 32} {
				small := false
				for _, o := range coImplSmall {
					small = small || o == op
				}
				if small && rsize > 16 {
					rsize = 16
				}
				s := archSpec{mode: "ha", rsize: rsize, r: r, n: 0, m: 0, l: 0, o: 6}
				set := map[string]bool{op: true, "rset": true, "j": true}
				sh := shape(op)
				if strings.Contains(sh, "i") {
					s.n = 3
				}
				if strings.Contains(sh, "o") {
					s.m = 3
				}
				for o := range set {
					s.ops = append(s.ops, o)
				}
				sort.Strings(s.ops)
				nreg := 1 << uint(r)
				last := nreg - 1
				var src []string
				for k := 0; k < nreg; k++ { // distinct, non-zero, never equal quotients
					src = append(src, fmt.Sprintf("rset r%d %d", k, (37*(k+1)+11*k*k+3)%200+2))
				}
				if op == "ro2rri" { // the registers hold ROM addresses (program words, then the data words)
					src = nil
					for k := 0; k < nreg; k++ {
						src = append(src, fmt.Sprintf("rset r%d %d", k, k+1))
					}
					src[nreg-1] = fmt.Sprintf("rset r%d %d", last, nreg+6) // the first data word
				}
				pairs := [][2]int{{0, 1}, {1, 0}, {last, 0}, {0, last}, {last, last}}
				switch sh {
				case "":
					src = append(src, op)
				case "r":
					for _, k := range []int{0, 1, last} {
						src = append(src, fmt.Sprintf("%s r%d", op, k))
					}
				case "rv":
					src = append(src, fmt.Sprintf("%s r%d %d", op, last, 77))
				case "rr":
					for _, pq := range pairs {
						src = append(src, fmt.Sprintf("%s r%d r%d", op, pq[0], pq[1]))
					}
				case "a":
					src = append(src, fmt.Sprintf("%s %d", op, len(src)+2), "rset r0 99")
				case "ra":
					src = append(src, fmt.Sprintf("rset r%d 0", last), fmt.Sprintf("%s r%d %d", op, last, len(src)+3), "rset r0 98",
						fmt.Sprintf("%s r0 0", op))
				case "ri":
					for _, k := range []int{0, 1, 2} {
						src = append(src, fmt.Sprintf("%s r%d i%d", op, (k+1)%nreg, k))
					}
				case "ro":
					for _, k := range []int{0, 1, 2} {
						src = append(src, fmt.Sprintf("%s r%d o%d", op, (k+1)%nreg, k))
					}
				}
				src = append(src, "j 0")
				res = append(res, struct {
					s   archSpec
					src []string
				}{s, src})
			}
		}
	}
	// the pipelined opcodes with a destination that is never a source (and a source that is never a
	// destination): what OnlyDestRegs / OnlySrcRegs prune differs per operand position.  Three lengths,
	// so that every flag combination (a function of the program text) is taken under hdldiropt
	for _, op := range []string{"addp", "multp", "divp"} {
		for pad := 0; pad < 3; pad++ {
			s := archSpec{mode: "ha", rsize: 8, r: 2, o: 4, ops: []string{"j", "nop", op, "rset"}}
			sort.Strings(s.ops)
			src := []string{"rset r0 200", "rset r1 7", op + " r0 r1", "rset r3 3", op + " r0 r3"}
			for k := 0; k < pad; k++ {
				src = append(src, "nop")
			}
			src = append(src, "j 0")
			res = append(res, struct {
				s   archSpec
				src []string
			}{s, src})
		}
	}
	// ro2rri reading the last cell of a ROM that is exactly full (program + data = 2^O cells)
	for _, o := range []int{3, 4} {
		s := archSpec{mode: "ha", rsize: 8, r: 1, o: o, ops: []string{"inc", "j", "ro2rri", "rset"}}
		src := []string{fmt.Sprintf("rset r1 %d", (1<<uint(o))-1), "ro2rri r0 r1", "inc r0", fmt.Sprintf("rset r1 %d", (1<<uint(o))-2), "ro2rri r0 r1", "j 5"}
		res = append(res, struct {
			s   archSpec
			src []string
		}{s, src})
	}
	// ro2rri on machines whose registers are wider than the ROM words (no rset, no wide immediate): the
	// word read is zero-extended into a register whose upper bits were set before
	for _, r := range []int{1, 2, 3} {
		for _, rsize := range []int{16, 32, 64} {
			s := archSpec{mode: "ha", rsize: rsize, r: r, o: 4, ops: []string{"dec", "inc", "j", "ro2rri"}}
			last := (1 << uint(r)) - 1
			src := []string{"dec r0", "inc r1", "ro2rri r0 r1", fmt.Sprintf("dec r%d", last), "inc r1", fmt.Sprintf("ro2rri r%d r1", last),
				"inc r1", "inc r1", "inc r1", "inc r1", "inc r1", "dec r0", "ro2rri r0 r1", "j 13"}
			res = append(res, struct {
				s   archSpec
				src []string
			}{s, src})
		}
	}
	return res
}

func genProgram(r *common.Rng, s archSpec) []string {
	maxLen := 1 << uint(s.o)
	n := 2 + r.Intn(maxLen-1)
	if n > 24 {
		n = 24
	}
	if n > maxLen {
		n = maxLen
	}
	hasJ := false
	for _, o := range s.ops {
		if o == "j" {
			hasJ = true
		}
	}
	hasRset := false
	for _, o := range s.ops {
		if o == "rset" {
			hasRset = true
		}
	}
	pool := s.ops
	if hwOpt {
		// the optimisations concern these opcodes: use them three times as often
		pool = append([]string{}, s.ops...)
		for _, o := range s.ops {
			switch o {
			case "addp", "multp", "divp", "inc", "dec", "jz":
				pool = append(pool, o, o)
			}
		}
	}
	var lines []string
	for i := 0; i < n; i++ {
		op := pool[r.Intn(len(pool))]
		if hasRset && i < (1<<uint(s.r)) && i < n/2 && r.Chance(3, 4) {
			// load the registers first so that arithmetic does not just shuffle zeros
			lines = append(lines, "rset r"+strconv.Itoa(i)+" "+genValue(r, s.rsize))
			continue
		}
		if i == n-1 && hasJ {
			op = "j" // never fall off the end of the program
		}
		if op == "ro2rri" && hasRset && i+2 < n && r.Chance(3, 4) {
			// an address inside the ROM (program, or the data that follows it) in the source register
			rs := r.Intn(1 << uint(s.r))
			addr := r.Intn(n + 3)
			if r.Chance(1, 4) {
				addr = (1 << uint(s.o)) - 1 // the last cell of the ROM (see dataFor)
			}
			lines = append(lines, fmt.Sprintf("rset r%d %d", rs, addr))
			lines = append(lines, fmt.Sprintf("ro2rri r%d r%d", r.Intn(1<<uint(s.r)), rs))
			i++
			continue
		}
		toks := []string{op}
		for _, c := range shape(op) {
			switch c {
			case 'r':
				toks = append(toks, "r"+strconv.Itoa(r.Intn(1<<uint(s.r))))
			case 'v':
				toks = append(toks, genValue(r, s.rsize))
			case 'a':
				toks = append(toks, strconv.Itoa(r.Intn(n)))
			case 'i':
				toks = append(toks, "i"+strconv.Itoa(r.Intn(s.n)))
			case 'o':
				toks = append(toks, "o"+strconv.Itoa(r.Intn(s.m)))
			}
		}
		lines = append(lines, strings.Join(toks, " "))
	}
	return lines
}

func genArch(r *common.Rng) archSpec {
	s := archSpec{mode: "ha"}
	s.rsize = []int{8, 16, 32, 64}[r.Intn(4)]
	s.r = 1 + r.Intn(3)
	s.n = r.Intn(4)
	s.m = r.Intn(4)
	s.l = 0
	s.o = 2 + r.Intn(4)
	if r.Chance(1, 4) {
		s.o = 6 + r.Intn(7) // ROM addresses wider than a register: jz / j become the widest instructions
	}
	if r.Chance(1, 6) {
		s.wordSize = 26 + r.Intn(20) // explicit WordSize: every instruction is narrower than the ROM word
		if s.rsize > 16 {
			s.wordSize = 0
		}
	}
	pool := append([]string{}, coImplAll...)
	if s.rsize <= 16 {
		pool = append(pool, coImplSmall...)
	}
	var cand []string
	for _, o := range pool {
		if o == "ro2rri" && s.o > s.rsize {
			continue // (the template's part-select _rK[O-1:0] needs O <= Rsize; wider ROM addresses are its own "unchecked code")
		}
		if (o == "i2r" || o == "i2rw") && s.n == 0 {
			continue
		}
		if (o == "r2o" || o == "r2owa") && s.m == 0 {
			continue
		}
		cand = append(cand, o)
	}
	sizes := []int{1, 2, 3, 4, 5, 7, 8, 9, 12, 16, 17, len(cand)}
	k := sizes[r.Intn(len(sizes))]
	if k > len(cand) {
		k = len(cand)
	}
	for i := len(cand) - 1; i > 0; i-- {
		j := r.Intn(i + 1)
		cand[i], cand[j] = cand[j], cand[i]
	}
	s.ops = append([]string{}, cand[:k]...)
	if r.Chance(4, 5) { // most machines can jump (so programs loop)
		has := false
		for _, o := range s.ops {
			if o == "j" {
				has = true
			}
		}
		if !has {
			s.ops = append(s.ops, "j")
		}
	}
	if hwOpt && r.Chance(2, 3) {
		// the optimisations prune per (opcode, register): machines for them hold several of the opcodes
		// that can be pruned and enough registers for some to stay unused
		for _, o := range []string{"addp", "multp", "divp", "inc", "rset"} {
			if r.Chance(3, 4) {
				has := false
				for _, x := range s.ops {
					has = has || x == o
				}
				if !has {
					s.ops = append(s.ops, o)
				}
			}
		}
		if s.r < 2 {
			s.r = 2 + r.Intn(2)
		}
	}
	sort.Strings(s.ops)
	// as in assembler-produced machines, ports exist only if some opcode uses them (a processor
	// with ports but no IO opcode references undeclared iK_recv / oK_val: that is C18's matter)
	hasIn, hasOut := false, false
	for _, o := range s.ops {
		if o == "i2r" || o == "i2rw" {
			hasIn = true
		}
		if o == "r2o" || o == "r2owa" {
			hasOut = true
		}
	}
	if !hasIn {
		s.n = 0
	}
	if !hasOut {
		s.m = 0
	}
	return s
}

func typed(rsize int, v uint64) interface{} {
	switch {
	case rsize <= 8:
		return uint8(v)
	case rsize <= 16:
		return uint16(v)
	case rsize <= 32:
		return uint32(v)
	}
	return v
}

func untyped(x interface{}) uint64 {
	switch v := x.(type) {
	case uint8:
		return uint64(v)
	case uint16:
		return uint64(v)
	case uint32:
		return uint64(v)
	case uint64:
		return v
	}
	return 0
}

func joinU(xs []interface{}) string {
	p := make([]string, len(xs))
	for i, x := range xs {
		p[i] = strconv.FormatUint(untyped(x), 10)
	}
	return strings.Join(p, ",")
}

func joinB(xs []bool) string {
	p := make([]string, len(xs))
	for i, x := range xs {
		if x {
			p[i] = "1"
		} else {
			p[i] = "0"
		}
	}
	return strings.Join(p, ",")
}

func dumpVM(vm *procbuilder.VM) string {
	var d []int
	for k := range vm.DeferredInstructions {
		if strings.HasPrefix(k, "waitRecvI2rw") {
			v, _ := strconv.Atoi(strings.TrimPrefix(k, "waitRecvI2rw"))
			d = append(d, v)
		} else {
			d = append(d, 1000)
		}
	}
	sort.Ints(d)
	ds := make([]string, len(d))
	for i, v := range d {
		ds[i] = strconv.Itoa(v)
	}
	// pipelined opcodes in their second phase (Extra_states["pipeline_<op>"] != 0), sorted by name
	var ph []string
	for _, n := range []string{"addp", "divp", "multp"} {
		if v, ok := vm.Extra_states["pipeline_"+n].(uint8); ok && v != 0 {
			ph = append(ph, n)
		}
	}
	return fmt.Sprintf("X pc=%d r=%s o=%s ov=%s ir=%s d=%s ph=%s", vm.Pc, joinU(vm.Registers), joinU(vm.Outputs),
		joinB(vm.OutputsValid), joinB(vm.InputsRecv), strings.Join(ds, ","), strings.Join(ph, ","))
}

type stim struct {
	in []uint64
	iv []bool
	or []bool
}

func (st stim) line() string {
	p := make([]string, len(st.in))
	for i, v := range st.in {
		p[i] = strconv.FormatUint(v, 10)
	}
	return fmt.Sprintf("V in=%s iv=%s or=%s", strings.Join(p, ","), joinB(st.iv), joinB(st.or))
}

func parseStim(l string) stim {
	st := stim{}
	for _, f := range strings.Fields(l)[1:] {
		kv := strings.SplitN(f, "=", 2)
		var parts []string
		if kv[1] != "" {
			parts = strings.Split(kv[1], ",")
		}
		switch kv[0] {
		case "in":
			for _, p := range parts {
				v, _ := strconv.ParseUint(p, 10, 64)
				st.in = append(st.in, v)
			}
		case "iv":
			for _, p := range parts {
				st.iv = append(st.iv, p == "1")
			}
		case "or":
			for _, p := range parts {
				st.or = append(st.or, p == "1")
			}
		}
	}
	return st
}

func applyStim(vm *procbuilder.VM, rsize int, st stim) {
	for i := range vm.Inputs {
		if i < len(st.in) {
			vm.Inputs[i] = typed(rsize, st.in[i])
		}
		if i < len(st.iv) {
			vm.InputsValid[i] = st.iv[i]
		}
	}
	for i := range vm.OutputsRecv {
		if i < len(st.or) {
			vm.OutputsRecv[i] = st.or[i]
		}
	}
}

// dataFor: the data words that follow the program in the ROM of a machine with ro2rri — a function of
// the source, so that a replay file (architecture, source, stimulus) gives the same machine
func dataFor(s archSpec, src []string, words int, maxWord int) []string {
	has := false
	for _, o := range s.ops {
		has = has || o == "ro2rri"
	}
	if !has {
		return nil
	}
	h := uint64(1469598103934665603)
	for _, l := range src {
		for _, c := range []byte(l) {
			h = (h ^ uint64(c)) * 1099511628211
		}
	}
	room := (1 << uint(s.o)) - words
	n := 1 + int(h%4)
	// a source that loads the last ROM address gets a ROM that is full to the last cell
	last := " " + strconv.Itoa((1<<uint(s.o))-1)
	for _, l := range src {
		if strings.HasPrefix(l, "rset ") && strings.HasSuffix(l, last) && room <= 16 {
			n = room
		}
	}
	if n > room {
		n = room
	}
	var res []string
	for i := 0; i < n; i++ {
		w := make([]byte, maxWord)
		for k := range w {
			h = h*6364136223846793005 + 1442695040888963407
			w[k] = '0' + byte((h>>33)&1)
		}
		res = append(res, string(w))
	}
	return res
}

// runMachine assembles, initialises and steps; stims==nil means generate them from r.
func runMachine(r *common.Rng, s archSpec, src []string, steps int, stims []stim) {
	m, err := build(s)
	if err != nil {
		return
	}
	out.Line("%s", s.line())
	for _, l := range src {
		out.Line("S %s", l)
	}
	prog, err := m.Arch.Assembler([]byte(strings.Join(src, "\n") + "\n"))
	if err != nil {
		out.Line("P err %v", err)
		out.Flush()
		return
	}
	m.Program = prog
	out.Line("P %s", strings.Join(prog.Slocs, " "))
	if dv := dataFor(s, src, len(prog.Slocs), m.Arch.Max_word()); len(dv) > 0 {
		m.Data.Vars = dv
		out.Line("DV %s", strings.Join(dv, " "))
	}
	if withHDL {
		emitHDL(m, src, hwOpt)
	}
	vm := new(procbuilder.VM)
	vm.Mach = m
	if err := vm.Init(); err != nil {
		out.Line("T err")
		out.Flush()
		return
	}
	out.Line("T")
	cur := stim{in: make([]uint64, s.n), iv: make([]bool, s.n), or: make([]bool, s.m)}
	n := steps
	if stims != nil {
		n = len(stims)
	}
	for t := 0; t < n; t++ {
		if stims != nil {
			cur = stims[t]
		} else {
			for i := range cur.in { // values change often, flags are sticky (handshake-like) with noise
				if r.Chance(1, 2) {
					cur.in[i], _ = strconv.ParseUint(genValue(r, s.rsize), 10, 64)
				}
				if r.Chance(1, 3) {
					cur.iv[i] = !cur.iv[i]
				}
			}
			for i := range cur.or {
				if r.Chance(1, 3) {
					cur.or[i] = !cur.or[i]
				}
			}
		}
		if pc := int(vm.Pc); pc < len(src) && strings.HasPrefix(src[pc], "ro2rri ") {
			// the hardware spends two clocks on this instruction (address out, word in), the simulator one
			// step: a hardware-only clock with the same stimulus first
			out.Line("VH%s", strings.TrimPrefix(cur.line(), "V"))
		}
		out.Line("%s", cur.line())
		applyStim(vm, s.rsize, cur)
		res := common.Guard(func() string {
			if _, err := vm.Step(nil); err != nil {
				return "X err"
			}
			return dumpVM(vm)
		})
		if strings.HasPrefix(res, "panic") {
			res = "X panic"
		}
		out.Line("%s", res)
		if res == "X err" || res == "X panic" {
			break
		}
	}
	out.Flush()
}

func main() {
	if len(os.Args) < 2 {
		fmt.Fprintln(os.Stderr, "usage: c01 sim <machines> <steps> | replay <file>")
		os.Exit(2)
	}
	if os.Args[1] == "hdl" || os.Args[1] == "hdlopt" || os.Args[1] == "replayhdl" || os.Args[1] == "replayhdlopt" ||
		os.Args[1] == "hdldir" || os.Args[1] == "hdldiropt" {
		withHDL = true
		hwOpt = strings.HasSuffix(os.Args[1], "opt")
		if strings.HasPrefix(os.Args[1], "replay") {
			os.Args[1] = "replay"
		} else if strings.HasPrefix(os.Args[1], "hdldir") {
			os.Args[1] = "directed"
		} else {
			os.Args[1] = "sim"
		}
	}
	switch os.Args[1] {
	case "sim":
		n, _ := strconv.Atoi(os.Args[2])
		steps, _ := strconv.Atoi(os.Args[3])
		r := common.NewRng(common.Seed())
		for i := 0; i < n; i++ {
			s := genArch(r)
			for k := 0; k < 3; k++ {
				runMachine(r, s, genProgram(r, s), steps, nil)
			}
		}
	case "directed": // (via hdldir / hdldiropt) the directed per-opcode machines
		r := common.NewRng(common.Seed())
		for _, c := range directedCases() {
			runMachine(r, c.s, c.src, 2*len(c.src)+4, nil)
		}
	case "replay":
		f, err := os.Open(os.Args[2])
		if err != nil {
			fmt.Fprintln(os.Stderr, err)
			os.Exit(2)
		}
		sc := bufio.NewScanner(f)
		sc.Buffer(make([]byte, 1<<22), 1<<22)
		var s archSpec
		var src []string
		var stims []stim
		have := false
		flush := func() {
			if have {
				runMachine(nil, s, src, 0, stims)
			}
			src, stims, have = nil, nil, false
		}
		for sc.Scan() {
			l := sc.Text()
			switch {
			case strings.HasPrefix(l, "A "):
				flush()
				s = parseArch(l)
				have = true
			case strings.HasPrefix(l, "S "):
				src = append(src, strings.TrimPrefix(l, "S "))
			case strings.HasPrefix(l, "V "):
				stims = append(stims, parseStim(l))
			}
		}
		flush()
	}
	out.Flush()
}
