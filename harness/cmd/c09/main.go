// C09 harness — "simulation results do not depend on scheduling or on other simulations".
//
//	h-c09 extract <repo>   go/ast extractor -> BMV/Gen/OpcodeState.lean on stdout (extract.go)
//	h-c09 gen <tier>       seeded case list;  h-c09 alone <spec>;  h-c09 batch <file>   (run.go)
package main

import (
	"fmt"
	"os"
)

func main() {
	if len(os.Args) >= 3 {
		switch os.Args[1] {
		case "extract":
			s, err := extractOpcodeState(os.Args[2])
			if err != nil {
				fmt.Fprintln(os.Stderr, "extract:", err)
				os.Exit(2)
			}
			fmt.Print(s)
			return
		case "gen":
			for _, c := range genCases(os.Args[2]) {
				out.Line("C %s", c.String())
			}
			out.Flush()
			return
		case "alone":
			runAlone(os.Args[2])
			return
		case "batch":
			runBatch(os.Args[2])
			return
		}
	}
	fmt.Fprintln(os.Stderr, "usage: h-c09 extract <repo> | gen <tier> | alone <spec> | batch <file>")
	os.Exit(2)
}
