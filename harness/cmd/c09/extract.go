package main

// go/ast extractor for property C09: lists, for every opcode type of pkg/procbuilder (a struct type
// with a method `Simulate`), the fields of reference type (pointer, map, slice, chan, func,
// interface) and whether the Simulate method writes through them, plus every package-level variable
// of pkg/procbuilder assigned inside a Simulate method.  Output: BMV/Gen/OpcodeState.lean on stdout.

import (
	"fmt"
	"go/ast"
	"go/parser"
	"go/token"
	"os"
	"path/filepath"
	"sort"
	"strings"
)

func refKind(e ast.Expr) string {
	switch t := e.(type) {
	case *ast.StarExpr:
		return "pointer"
	case *ast.MapType:
		return "map"
	case *ast.ArrayType:
		if t.Len == nil {
			return "slice"
		}
		return refKind(t.Elt)
	case *ast.ChanType:
		return "chan"
	case *ast.FuncType:
		return "func"
	case *ast.InterfaceType:
		return "interface"
	}
	return ""
}

// rootSel returns (receiver-rooted field name) if e is built from recv.f by *, [], . — e.g.
// *op.pipeline, op.m[k], op.p.x — and the first field name.
func rootField(e ast.Expr, recv string) (string, bool) {
	depth := 0
	for {
		switch t := e.(type) {
		case *ast.StarExpr:
			e = t.X
			depth++
		case *ast.IndexExpr:
			e = t.X
			depth++
		case *ast.ParenExpr:
			e = t.X
		case *ast.SelectorExpr:
			if id, ok := t.X.(*ast.Ident); ok && id.Name == recv {
				// a plain `op.f = v` on a value receiver changes only the copy: needs depth > 0
				return t.Sel.Name, depth > 0
			}
			e = t.X
			depth++
		default:
			return "", false
		}
	}
}

func rootIdent(e ast.Expr) string {
	for {
		switch t := e.(type) {
		case *ast.StarExpr:
			e = t.X
		case *ast.IndexExpr:
			e = t.X
		case *ast.ParenExpr:
			e = t.X
		case *ast.SelectorExpr:
			e = t.X
		case *ast.Ident:
			return t.Name
		default:
			return ""
		}
	}
}

type refField struct {
	ty, field, kind string
	written         bool
}

func extractOpcodeState(repo string) (string, error) {
	dir := filepath.Join(repo, "pkg", "procbuilder")
	fset := token.NewFileSet()
	ents, err := os.ReadDir(dir)
	if err != nil {
		return "", err
	}
	structs := map[string]*ast.StructType{}
	simulate := map[string]*ast.FuncDecl{}
	pkgVars := map[string]bool{}
	for _, e := range ents {
		if e.IsDir() || !strings.HasSuffix(e.Name(), ".go") || strings.HasSuffix(e.Name(), "_test.go") {
			continue
		}
		f, err := parser.ParseFile(fset, filepath.Join(dir, e.Name()), nil, parser.SkipObjectResolution)
		if err != nil {
			return "", err
		}
		for _, d := range f.Decls {
			switch x := d.(type) {
			case *ast.GenDecl:
				for _, sp := range x.Specs {
					switch s := sp.(type) {
					case *ast.TypeSpec:
						if st, ok := s.Type.(*ast.StructType); ok {
							structs[s.Name.Name] = st
						}
					case *ast.ValueSpec:
						if x.Tok == token.VAR {
							for _, n := range s.Names {
								pkgVars[n.Name] = true
							}
						}
					}
				}
			case *ast.FuncDecl:
				if x.Name.Name == "Simulate" && x.Recv != nil && len(x.Recv.List) == 1 {
					t := x.Recv.List[0].Type
					if st, ok := t.(*ast.StarExpr); ok {
						t = st.X
					}
					if id, ok := t.(*ast.Ident); ok {
						simulate[id.Name] = x
					}
				}
			}
		}
	}
	var fields []refField
	var varWrites [][2]string
	var names []string
	for n := range simulate {
		names = append(names, n)
	}
	sort.Strings(names)
	for _, ty := range names {
		fd := simulate[ty]
		recv := ""
		if len(fd.Recv.List[0].Names) > 0 {
			recv = fd.Recv.List[0].Names[0].Name
		}
		written := map[string]bool{}
		varsW := map[string]bool{}
		locals := map[string]bool{}
		note := func(lhs ast.Expr) {
			if recv != "" {
				if f, deep := rootField(lhs, recv); f != "" && deep {
					written[f] = true
				}
			}
			if id := rootIdent(lhs); id != "" && pkgVars[id] && !locals[id] {
				varsW[id] = true
			}
		}
		if fd.Body != nil {
			ast.Inspect(fd.Body, func(x ast.Node) bool {
				switch s := x.(type) {
				case *ast.AssignStmt:
					if s.Tok == token.DEFINE {
						for _, l := range s.Lhs {
							if id, ok := l.(*ast.Ident); ok {
								locals[id.Name] = true
							}
						}
					} else {
						for _, l := range s.Lhs {
							note(l)
						}
					}
				case *ast.IncDecStmt:
					note(s.X)
				}
				return true
			})
		}
		if st, ok := structs[ty]; ok && st.Fields != nil {
			for _, fl := range st.Fields.List {
				k := refKind(fl.Type)
				if k == "" {
					continue
				}
				for _, n := range fl.Names {
					fields = append(fields, refField{ty, n.Name, k, written[n.Name]})
				}
			}
		}
		var vs []string
		for v := range varsW {
			vs = append(vs, v)
		}
		sort.Strings(vs)
		for _, v := range vs {
			varWrites = append(varWrites, [2]string{ty, v})
		}
	}
	var sb strings.Builder
	sb.WriteString("/- REGENERATED on every run by `h-c09 extract <repo>` (harness/cmd/c09/extract.go) from\n")
	sb.WriteString("   pkg/procbuilder.  Do not edit. -/\n")
	sb.WriteString("namespace BMV.Gen.OpcodeState\n\n")
	sb.WriteString("/-- number of opcode types (struct types with a Simulate method) that were inspected -/\n")
	fmt.Fprintf(&sb, "def opcodeTypes : Nat := %d\n\n", len(names))
	sb.WriteString("/-- (opcode type, field, kind of reference type, Simulate writes through it) -/\n")
	sb.WriteString("def refFields : List (String × String × String × Bool) := [\n")
	for i, f := range fields {
		sep := ","
		if i == len(fields)-1 {
			sep = ""
		}
		fmt.Fprintf(&sb, "  (%q, %q, %q, %v)%s\n", f.ty, f.field, f.kind, f.written, sep)
	}
	sb.WriteString("]\n\n")
	sb.WriteString("/-- (opcode type, package-level variable of pkg/procbuilder assigned inside its Simulate) -/\n")
	sb.WriteString("def pkgVarWrites : List (String × String) := [\n")
	for i, v := range varWrites {
		sep := ","
		if i == len(varWrites)-1 {
			sep = ""
		}
		fmt.Fprintf(&sb, "  (%q, %q)%s\n", v[0], v[1], sep)
	}
	sb.WriteString("]\n\n")
	pg, err := processGlobals(repo)
	if err != nil {
		return "", err
	}
	sb.WriteString("/-- process-wide registries: (package, package-level variable of slice/map type, kind, the functions\n")
	sb.WriteString("    of the package that assign / append to / index-assign it) -/\n")
	sb.WriteString("def pkgGlobals : List (String × String × String × List String) := [\n")
	for i, g := range pg {
		sep := ","
		if i == len(pg)-1 {
			sep = ""
		}
		ws := make([]string, len(g.writers))
		for j, w := range g.writers {
			ws[j] = fmt.Sprintf("%q", w)
		}
		fmt.Fprintf(&sb, "  (%q, %q, %q, [%s])%s\n", g.pkg, g.name, g.kind, strings.Join(ws, ", "), sep)
	}
	sb.WriteString("]\n\n")
	cl, err := clockSites(repo)
	if err != nil {
		return "", err
	}
	sb.WriteString("/-- uses of the wall clock / timers (package time) in the simulator packages: (file, function, call).\n")
	sb.WriteString("    A simulation step that consults the clock makes the trace depend on the host's load. -/\n")
	sb.WriteString("def clockSites : List (String × String × String) := [\n")
	for i, c := range cl {
		sep := ","
		if i == len(cl)-1 {
			sep = ""
		}
		fmt.Fprintf(&sb, "  (%q, %q, %q)%s\n", c[0], c[1], c[2], sep)
	}
	sb.WriteString("]\n\nend BMV.Gen.OpcodeState\n")
	return sb.String(), nil
}

type pkgGlobal struct {
	pkg, name, kind string
	writers         []string
}

// processGlobals lists the package-level variables of slice or map type of pkg/bmnumbers and
// pkg/procbuilder (the registries every simulation of the process shares) with the top-level
// functions/methods that write them (assignment, append, index assignment, delete).
func processGlobals(repo string) ([]pkgGlobal, error) {
	var res []pkgGlobal
	for _, pkg := range []string{"bmnumbers", "procbuilder"} {
		dir := filepath.Join(repo, "pkg", pkg)
		fset := token.NewFileSet()
		ents, err := os.ReadDir(dir)
		if err != nil {
			return nil, err
		}
		var files []*ast.File
		kinds := map[string]string{}
		for _, e := range ents {
			if e.IsDir() || !strings.HasSuffix(e.Name(), ".go") || strings.HasSuffix(e.Name(), "_test.go") {
				continue
			}
			f, err := parser.ParseFile(fset, filepath.Join(dir, e.Name()), nil, parser.SkipObjectResolution)
			if err != nil {
				return nil, err
			}
			files = append(files, f)
			for _, d := range f.Decls {
				gd, ok := d.(*ast.GenDecl)
				if !ok || gd.Tok != token.VAR {
					continue
				}
				for _, sp := range gd.Specs {
					vs := sp.(*ast.ValueSpec)
					if vs.Type == nil {
						continue
					}
					if k := refKind(vs.Type); k == "slice" || k == "map" {
						for _, n := range vs.Names {
							kinds[n.Name] = k
						}
					}
				}
			}
		}
		writers := map[string]map[string]bool{}
		for _, f := range files {
			for _, d := range f.Decls {
				fd, ok := d.(*ast.FuncDecl)
				if !ok || fd.Body == nil {
					continue
				}
				fname := fd.Name.Name
				if fd.Recv != nil && len(fd.Recv.List) == 1 {
					t := fd.Recv.List[0].Type
					if st, ok := t.(*ast.StarExpr); ok {
						t = st.X
					}
					if id, ok := t.(*ast.Ident); ok {
						fname = id.Name + "." + fname
					}
				}
				locals := map[string]bool{}
				mark := func(e ast.Expr) {
					if id := rootIdent(e); id != "" && kinds[id] != "" && !locals[id] {
						if writers[id] == nil {
							writers[id] = map[string]bool{}
						}
						writers[id][fname] = true
					}
				}
				ast.Inspect(fd.Body, func(x ast.Node) bool {
					switch s := x.(type) {
					case *ast.AssignStmt:
						if s.Tok == token.DEFINE {
							for _, l := range s.Lhs {
								if id, ok := l.(*ast.Ident); ok {
									locals[id.Name] = true
								}
							}
						} else {
							for _, l := range s.Lhs {
								mark(l)
							}
						}
					case *ast.CallExpr:
						if id, ok := s.Fun.(*ast.Ident); ok && id.Name == "delete" && len(s.Args) > 0 {
							mark(s.Args[0])
						}
					}
					return true
				})
			}
		}
		var names []string
		for n := range kinds {
			names = append(names, n)
		}
		sort.Strings(names)
		for _, n := range names {
			var ws []string
			for w := range writers[n] {
				ws = append(ws, w)
			}
			sort.Strings(ws)
			res = append(res, pkgGlobal{pkg, n, kinds[n], ws})
		}
	}
	return res, nil
}

// clockSites lists every call of a function of package time (After, Now, Since, Sleep, NewTimer, NewTicker,
// Tick, AfterFunc, Until) in the non-test files of the simulator packages (files guarded by the `verif`
// build tag - the schedule-perturbation hook - are skipped).
func clockSites(repo string) ([][3]string, error) {
	var res [][3]string
	clock := map[string]bool{"After": true, "Now": true, "Since": true, "Sleep": true, "NewTimer": true,
		"NewTicker": true, "Tick": true, "AfterFunc": true, "Until": true}
	for _, pkg := range []string{"procbuilder", "bondmachine", "simbox", "bmnumbers"} {
		dir := filepath.Join(repo, "pkg", pkg)
		fset := token.NewFileSet()
		ents, err := os.ReadDir(dir)
		if err != nil {
			return nil, err
		}
		for _, e := range ents {
			if e.IsDir() || !strings.HasSuffix(e.Name(), ".go") || strings.HasSuffix(e.Name(), "_test.go") {
				continue
			}
			f, err := parser.ParseFile(fset, filepath.Join(dir, e.Name()), nil, parser.ParseComments|parser.SkipObjectResolution)
			if err != nil {
				return nil, err
			}
			guarded := false
			for _, cg := range f.Comments {
				if cg.Pos() < f.Package && strings.Contains(cg.Text(), "go:build verif") {
					guarded = true
				}
			}
			for _, cg := range f.Comments {
				for _, c := range cg.List {
					if c.Pos() < f.Package && strings.HasPrefix(c.Text, "//go:build") && strings.Contains(c.Text, "verif") && !strings.Contains(c.Text, "!verif") {
						guarded = true
					}
				}
			}
			if guarded {
				continue
			}
			timeName := ""
			for _, im := range f.Imports {
				if im.Path.Value == "\"time\"" {
					timeName = "time"
					if im.Name != nil {
						timeName = im.Name.Name
					}
				}
			}
			if timeName == "" {
				continue
			}
			for _, d := range f.Decls {
				fd, ok := d.(*ast.FuncDecl)
				if !ok || fd.Body == nil {
					continue
				}
				fname := fd.Name.Name
				if fd.Recv != nil && len(fd.Recv.List) == 1 {
					t := fd.Recv.List[0].Type
					if st, ok := t.(*ast.StarExpr); ok {
						t = st.X
					}
					if id, ok := t.(*ast.Ident); ok {
						fname = id.Name + "." + fname
					}
				}
				ast.Inspect(fd.Body, func(x ast.Node) bool {
					if c, ok := x.(*ast.CallExpr); ok {
						if se, ok := c.Fun.(*ast.SelectorExpr); ok {
							if id, ok := se.X.(*ast.Ident); ok && id.Name == timeName && clock[se.Sel.Name] {
								res = append(res, [3]string{"pkg/" + pkg + "/" + e.Name(), fname, "time." + se.Sel.Name})
							}
						}
					}
					return true
				})
			}
		}
	}
	sort.Slice(res, func(i, j int) bool {
		if res[i][0] != res[j][0] {
			return res[i][0] < res[j][0]
		}
		if res[i][1] != res[j][1] {
			return res[i][1] < res[j][1]
		}
		return res[i][2] < res[j][2]
	})
	return res, nil
}
