package main

// C09 harness, dynamic side: runs real bondmachine.VM simulations of generated machines and prints
// the full state digest after every VM.Step.
//
//	h-c09 gen <tier>            the seeded list of cases, one spec per line (C lines)
//	h-c09 alone <spec>          one simulation in a fresh process            -> T lines
//	h-c09 batch <file>          every case of the file, in ONE process: first alone (after all the
//	                            previous ones: mode=seq), then concurrently with k-1 other simulations
//	                            of the same and of other machines (mode=conc)       -> R/T lines
//
// Case spec:   id=<n> P=<cores> rsize=<8|16|32> ticks=<t> ring=<0|1> progs=<p0>/<p1>/...
//              program = instructions separated by ',', words by '_'   (rset_r0_3,addp_r0_r1,j_0)
// Trace line:  T <run> <tick> pc.r0.r1.r2.r3.o0|pc.r0....     (one group per core, after that Step)
// Run header:  R <run> id=<case> mode=<alone|seq|conc> k=<concurrent sims> gomaxprocs=<n> seed=<s>

import (
	"bufio"
	"fmt"
	"os"
	"runtime"
	"strings"
	"sync"

	"bmvh/common"

	"github.com/BondMachineHQ/BondMachine/pkg/bmnumbers"
	"github.com/BondMachineHQ/BondMachine/pkg/bondmachine"
	"github.com/BondMachineHQ/BondMachine/pkg/procbuilder"
	"github.com/BondMachineHQ/BondMachine/pkg/simbox"
)

var out = common.NewOut(os.Stdout)

type caseSpec struct {
	ID    int
	P     int
	Rsize int
	Ticks int
	Ring  bool
	Delay bool       // simulated with the process-wide shared *simbox.SimDelays (deterministic distributions)
	Progs [][]string // per core, instructions as assembler lines
	Rules []string   // simbox rules driving the run the way `bondmachine -sim` does (i0 -> p0i0, p0o0 -> o0)
	Sps   string     // "<number type>~<input>": the case is one SinglePipelineSimulate call showing o0 in that type
	Dly   string     // "op:d,op:d": the delay table of this simulation (single-valued distributions)
	Group int        // > 0: in a batch the concurrent group of this case is Group copies of itself
	Prev  string     // like Dly: when the case runs after other simulations (batch), its *simbox.SimDelays object
	// was first used, for a simulation of the same machine, with this table and then UPDATED IN PLACE to Dly
	// (simbox.MergeSimDelays / direct map update, what cmd/simfinetune does between fitness evaluations)
}

func (c caseSpec) String() string {
	ps := make([]string, len(c.Progs))
	for i, p := range c.Progs {
		q := make([]string, len(p))
		for j, l := range p {
			q[j] = strings.ReplaceAll(l, " ", "_")
		}
		ps[i] = strings.Join(q, ",")
	}
	ring := 0
	if c.Ring {
		ring = 1
	}
	delays := 0
	if c.Delay {
		delays = 1
	}
	extra := ""
	if len(c.Rules) > 0 {
		extra += " rules=" + strings.Join(c.Rules, ";")
	}
	if c.Sps != "" {
		extra += " sps=" + c.Sps
	}
	if c.Group > 0 {
		extra += fmt.Sprintf(" group=%d", c.Group)
	}
	if c.Dly != "" {
		extra += " dly=" + c.Dly
	}
	if c.Prev != "" {
		extra += " prev=" + c.Prev
	}
	return fmt.Sprintf("id=%d P=%d rsize=%d ticks=%d ring=%d delays=%d%s progs=%s", c.ID, c.P, c.Rsize, c.Ticks, ring, delays, extra, strings.Join(ps, "/"))
}

func parseCase(s string) (caseSpec, error) {
	var c caseSpec
	for _, f := range strings.Fields(s) {
		kv := strings.SplitN(f, "=", 2)
		if len(kv) != 2 {
			continue
		}
		switch kv[0] {
		case "id":
			fmt.Sscanf(kv[1], "%d", &c.ID)
		case "P":
			fmt.Sscanf(kv[1], "%d", &c.P)
		case "rsize":
			fmt.Sscanf(kv[1], "%d", &c.Rsize)
		case "ticks":
			fmt.Sscanf(kv[1], "%d", &c.Ticks)
		case "ring":
			c.Ring = kv[1] == "1"
		case "delays":
			c.Delay = kv[1] == "1"
		case "rules":
			c.Rules = strings.Split(kv[1], ";")
		case "sps":
			c.Sps = kv[1]
		case "group":
			fmt.Sscanf(kv[1], "%d", &c.Group)
		case "dly":
			c.Dly = kv[1]
		case "prev":
			c.Prev = kv[1]
		case "progs":
			for _, p := range strings.Split(kv[1], "/") {
				var prog []string
				for _, l := range strings.Split(p, ",") {
					if l != "" {
						prog = append(prog, strings.ReplaceAll(l, "_", " "))
					}
				}
				c.Progs = append(c.Progs, prog)
			}
		}
	}
	if c.P < 1 || len(c.Progs) != c.P || c.Ticks < 1 {
		return c, fmt.Errorf("bad case %q", s)
	}
	return c, nil
}

func opsFor(progs []string) []procbuilder.Opcode {
	used := map[string]bool{}
	for _, l := range progs {
		used[strings.Fields(l)[0]] = true
	}
	for n := range used {
		procbuilder.EventuallyCreateInstruction(n) // dynamic families (no-op for static opcodes)
	}
	res := []procbuilder.Opcode{}
	for _, op := range procbuilder.Allopcodes {
		if used[op.Op_get_name()] {
			res = append(res, op)
		}
	}
	return res
}

// sharedDelays is ONE delay table handed to every simulation of the process that uses delays, the way
// cmd/simfinetune hands its merged table to all its workers.  Every distribution has a single value
// with probability 1: DelayDistribution.GetValue is then deterministic (and Normalize a no-op in value).
var sharedDelays = &simbox.SimDelays{OpcodeDelays: map[string]simbox.DelayDistribution{
	"inc":   {2: 1.0},
	"add":   {3: 1.0},
	"rset":  {1: 1.0},
	"nop":   {1: 1.0},
	"addp":  {2: 1.0},
	"multp": {4: 1.0},
	"r2o":   {1: 1.0},
}}

// The linear-quantiser opcode family (addlqs<S>t<T> …) needs its ranges table: the tools (cmd/basm,
// cmd/bondmachine, …) hand the table of bmnumbers' dyn_linear_quantizer type to procbuilder's dynamic
// instruction at start-up; the harness does the same, once, before anything is simulated.
func init() {
	var lqRanges *map[int]bmnumbers.LinearDataRange
	for _, t := range bmnumbers.AllDynamicalTypes {
		if t.GetName() == "dyn_linear_quantizer" {
			lqRanges = t.(bmnumbers.DynLinearQuantizer).Ranges
		}
	}
	if lqRanges == nil {
		return
	}
	(*lqRanges)[1] = bmnumbers.LinearDataRange{Max: 8}
	(*lqRanges)[2] = bmnumbers.LinearDataRange{Max: 100}
	for i, t := range procbuilder.AllDynamicalInstructions {
		if t.GetName() == "dyn_linear_quantizer" {
			dynIst := t.(procbuilder.DynLinearQuantizer)
			dynIst.Ranges = lqRanges
			procbuilder.AllDynamicalInstructions[i] = dynIst
		}
	}
}

var buildMu sync.Mutex // EventuallyCreateInstruction appends to Allopcodes without synchronisation

func (c caseSpec) build() (*bondmachine.Bondmachine, error) {
	buildMu.Lock()
	defer buildMu.Unlock()
	bm := new(bondmachine.Bondmachine)
	bm.Rsize = uint8(c.Rsize)
	bm.Init()
	for i := 0; i < c.P; i++ {
		d := new(procbuilder.Machine)
		d.Arch.Rsize = uint8(c.Rsize)
		d.Arch.Modes = []string{"ha"}
		d.Arch.R, d.Arch.N, d.Arch.M, d.Arch.L, d.Arch.O = 2, 1, 1, 2, 5
		if c.Sps != "" && i == 0 {
			d.Arch.M = 2
		}
		d.Arch.Op = opsFor(c.Progs[i])
		for _, l := range c.Progs[i] {
			switch strings.Fields(l)[0] {
			case "r2u", "u2r", "k2r", "t2r", "r2t", "q2r", "r2q":
				// the command-channel opcodes address a shared object of the processor (no driver is attached:
				// the commands are taken by the VM's dispatcher and dropped)
				d.Arch.Shared_constraints = "uart:0,kbd:0,stack:0,queue:0"
			}
		}
		p, err := d.Arch.Assembler([]byte(strings.Join(c.Progs[i], "\n") + "\n"))
		if err != nil {
			return nil, fmt.Errorf("core %d: %v", i, err)
		}
		d.Program = p
		bm.Domains = append(bm.Domains, d)
		if _, err := bm.Add_processor(i); err != nil {
			return nil, err
		}
	}
	if c.Ring && c.P > 1 {
		for i := 0; i < c.P; i++ {
			bm.Add_bond([]string{fmt.Sprintf("p%do0", i), fmt.Sprintf("p%di0", (i+1)%c.P)})
		}
	}
	if len(c.Rules) > 0 || c.Sps != "" {
		// external IO on core 0: i0 -> p0i0, p0o0 -> o0 (and p0o1 -> o1 for the pipeline call)
		bm.Add_input()
		bm.Add_output()
		bm.Add_bond([]string{"i0", "p0i0"})
		bm.Add_bond([]string{"p0o0", "o0"})
		if c.Sps != "" {
			bm.Add_output()
			bm.Add_bond([]string{"p0o1", "o1"})
			// the number type is registered once, before any simulation of the process starts (as a driver
			// that runs simulations in parallel has to): from here on simulations only look it up
			if _, err := bmnumbers.EventuallyCreateType(strings.SplitN(c.Sps, "~", 2)[0], nil); err != nil {
				return nil, err
			}
		}
	}
	return bm, nil
}

// simulate runs the case on a fresh VM and returns one digest per tick
// delayTable builds a fresh *simbox.SimDelays from "op:d,op:d" (each distribution = one value, p = 1)
func delayTable(spec string) *simbox.SimDelays {
	sd := simbox.NewSimDelays()
	for _, e := range strings.Split(spec, ",") {
		var d int
		f := strings.SplitN(e, ":", 2)
		if len(f) == 2 {
			// "d+z1+z2": the value d with probability 1 and the values z1, z2 with probability 0
			// (what simbox's Mutate leaves behind): still deterministic
			vals := strings.Split(f[1], "+")
			fmt.Sscanf(vals[0], "%d", &d)
			dd := simbox.DelayDistribution{int32(d): 1.0}
			for _, z := range vals[1:] {
				var zv int
				fmt.Sscanf(z, "%d", &zv)
				dd[int32(zv)] = 0.0
			}
			sd.OpcodeDelays[f[0]] = dd
		}
	}
	return sd
}

// simulate runs the case.  history = the case runs after other simulations of the process: a case with
// a `prev` table first simulates the same machine with ONE SimDelays object holding `prev`, updates that
// object in place to `dly`, and only then runs the simulation whose trace is reported.
func simulate(bm *bondmachine.Bondmachine, c caseSpec, history bool) (trace []string, err error) {
	var sd *simbox.SimDelays
	if c.Dly != "" {
		// the table in force = prev overridden by dly; run alone it is built on a fresh object that no
		// simulation has seen before
		sd = delayTable(c.Dly)
		if !history && c.Prev != "" {
			sd = simbox.MergeSimDelays(delayTable(c.Prev), delayTable(c.Dly))
		}
		if history && c.Prev != "" {
			sd = delayTable(c.Prev)
			if _, e := simulateWith(bm, c, sd); e != nil {
				return nil, e
			}
			if c.ID%2 == 0 {
				sd = simbox.MergeSimDelays(sd, delayTable(c.Dly)) // returns its first argument, updated in place
			} else {
				for op, distr := range delayTable(c.Dly).OpcodeDelays {
					sd.OpcodeDelays[op] = distr
				}
			}
		}
	} else if c.Delay {
		sd = sharedDelays
	}
	return simulateWith(bm, c, sd)
}

func simulateWith(bm *bondmachine.Bondmachine, c caseSpec, sd *simbox.SimDelays) (trace []string, err error) {
	defer func() {
		if r := recover(); r != nil {
			err = fmt.Errorf("panic:%v", r)
		}
	}()
	if c.Sps != "" {
		f := strings.SplitN(c.Sps, "~", 2)
		res, e := bm.SinglePipelineSimulate(f[0], []string{f[1]}, sd)
		if e != nil {
			return nil, e
		}
		return []string{strings.ReplaceAll(strings.Join(res, ";"), " ", "_")}, nil
	}
	vm := new(bondmachine.VM)
	vm.Bmach = bm
	vm.SimDelayMap = sd
	if e := vm.Init(); e != nil {
		return nil, e
	}
	var sbox *simbox.Simbox
	var sconfig *bondmachine.SimConfig
	var sdrive *bondmachine.SimDrive
	if len(c.Rules) > 0 {
		// the loop of `bondmachine -sim` / Fitness_default: absolute sets, periodic sets, step
		sbox = new(simbox.Simbox)
		for _, r := range c.Rules {
			if e := sbox.Add(r); e != nil {
				return nil, e
			}
		}
		conf := new(bondmachine.Config)
		sconfig = new(bondmachine.SimConfig)
		if e := sconfig.Init(sbox, vm, conf); e != nil {
			return nil, e
		}
		sdrive = new(bondmachine.SimDrive)
		if e := sdrive.Init(conf, sbox, vm); e != nil {
			return nil, e
		}
	}
	if e := vm.Launch_processors(sbox); e != nil {
		return nil, e
	}
	if s, has := interface{}(vm).(interface{ Shutdown() }); has {
		defer s.Shutdown()
	}
	for t := 0; t < c.Ticks; t++ {
		if sdrive != nil {
			if act, ok := sdrive.AbsSet[uint64(t)]; ok {
				for k, val := range act {
					*sdrive.Injectables[k] = val
				}
			}
			for _, act := range sdrive.PeriodicSets(uint64(t)) {
				for k, val := range act {
					*sdrive.Injectables[k] = val
				}
			}
		}
		report, e := vm.Step(sconfig)
		if e != nil {
			return trace, e
		}
		var sb strings.Builder
		for i, p := range vm.Processors {
			if i > 0 {
				sb.WriteByte('|')
			}
			fmt.Fprintf(&sb, "%d", p.Pc)
			for r := 0; r < 4; r++ {
				fmt.Fprintf(&sb, ".%v", p.Registers[r])
			}
			fmt.Fprintf(&sb, ".%v", p.Outputs[0])
		}
		if sdrive != nil {
			fmt.Fprintf(&sb, "#%v.%v", vm.Inputs_regs[0], vm.Outputs_regs[0])
		}
		if report != "" {
			sb.WriteString("#" + flatReport(report))
		}
		trace = append(trace, sb.String())
	}
	return trace, nil
}

// flatReport: the textual report of VM.Step (config:show_* options), VERBATIM (line breaks -> ';',
// tabs dropped, blanks -> '_' so that it fits the one-word digest).  The per-processor blocks must come in
// processor order on every run (repaired in /repo 0705c73; before, they came in worker-answer order).
func flatReport(report string) string {
	lines := strings.Split(strings.TrimRight(report, "\n"), "\n")
	for i, l := range lines {
		lines[i] = strings.TrimSpace(l)
	}
	return strings.ReplaceAll(strings.Join(lines, ";"), " ", "_")
}

var runCounter int
var outMu sync.Mutex

// registries prints the size of the process-wide number-type tables; called only while no simulation is
// running.  A simulation must not change them (the types it uses are registered before it starts).
func registries(after int) {
	outMu.Lock()
	defer outMu.Unlock()
	out.Line("G after=%d types=%d matchers=%d opcodes=%d", after, len(bmnumbers.AllTypes), len(bmnumbers.AllMatchers), len(procbuilder.Allopcodes))
	out.Flush()
}

func emit(c caseSpec, mode string, k int, trace []string, err error) {
	outMu.Lock()
	defer outMu.Unlock()
	runCounter++
	seed := os.Getenv("VERIF_SCHED_SEED")
	if seed == "" {
		seed = "0"
	}
	e := "-"
	if err != nil {
		e = strings.ReplaceAll(err.Error(), " ", "_")
	}
	out.Line("R %d id=%d mode=%s k=%d gomaxprocs=%d seed=%s err=%s", runCounter, c.ID, mode, k, runtime.GOMAXPROCS(0), seed, e)
	for t, d := range trace {
		out.Line("T %d %d %s", runCounter, t, d)
	}
	out.Flush()
}

// ---- generator ---------------------------------------------------------------------------------

var pipelinedOps = []string{"addp", "multp"}

func genProg(rng *common.Rng, pipe bool, ring bool) []string {
	n := 3 + rng.Intn(6)
	prog := []string{
		fmt.Sprintf("rset r0 %d", 1+rng.Intn(9)),
		fmt.Sprintf("rset r1 %d", 2+rng.Intn(5)),
	}
	for len(prog) < n+2 {
		switch x := rng.Intn(10); {
		case x < 2:
			prog = append(prog, fmt.Sprintf("inc r%d", rng.Intn(3)))
		case x < 4:
			prog = append(prog, fmt.Sprintf("add r%d r%d", rng.Intn(3), rng.Intn(3)))
		case x < 8 && pipe:
			prog = append(prog, fmt.Sprintf("%s r%d r%d", pipelinedOps[rng.Intn(2)], rng.Intn(3), rng.Intn(2)))
		case x < 8:
			prog = append(prog, "nop")
		case x < 9:
			prog = append(prog, fmt.Sprintf("r2o r%d o0", rng.Intn(3)))
		default:
			if ring {
				prog = append(prog, fmt.Sprintf("i2r r%d i0", 2+rng.Intn(2)))
			} else {
				prog = append(prog, "nop")
			}
		}
	}
	if rng.Chance(2, 3) {
		prog = append(prog, fmt.Sprintf("j %d", 2+rng.Intn(len(prog)-2)))
	}
	return prog
}

func genCases(tier string) []caseSpec {
	rng := common.NewRng(common.Seed())
	n := 24
	if tier == "thorough" {
		n = 120
	}
	var cs []caseSpec
	for i := 0; i < n; i++ {
		c := caseSpec{ID: i + 1, P: 1 + rng.Intn(5), Rsize: []int{8, 16, 32}[rng.Intn(3)], Ticks: 20 + rng.Intn(60)}
		pipe := i%3 != 2 // two thirds of the cases use the pipelined opcodes
		c.Ring = i%4 == 3 && c.P > 1
		c.Delay = i%6 == 1 || i%6 == 4 // a third of the cases share the delay table
		for p := 0; p < c.P; p++ {
			c.Progs = append(c.Progs, genProg(rng, pipe, c.Ring))
		}
		cs = append(cs, c)
	}
	// fixed cases: the counterexample of Props/C09 (two cores, addp on both) and a dynamic family
	cs = append(cs, caseSpec{ID: n + 1, P: 2, Rsize: 8, Ticks: 9, Progs: [][]string{
		{"rset r0 1", "rset r1 2", "addp r0 r1", "r2o r0 o0"}, {"rset r0 10", "rset r1 20", "addp r0 r1", "r2o r0 o0"}}})
	cs = append(cs, caseSpec{ID: n + 2, P: 1, Rsize: 8, Ticks: 3, Progs: [][]string{
		{"rset r0 1", "rset r1 2", "addp r0 r1", "r2o r0 o0"}}})
	cs = append(cs, caseSpec{ID: n + 3, P: 2, Rsize: 16, Ticks: 7, Progs: [][]string{
		{"rset r0 3", "rset r1 4", "addfps16f8 r0 r1", "r2o r0 o0"}, {"rset r0 5", "rset r1 6", "addfps16f8 r0 r1", "addfps16f8 r0 r1"}}})
	// dynamic opcode families (created through procbuilder.EventuallyCreateInstruction, as basm does):
	// their two/three-phase pipeline state must live in the executing VM.
	//  (a) one core stopping in the middle of the operation (the next simulation of the process must not
	//      inherit the phase), (b) two/three cores executing the same opcode name with a phase offset
	dynOps := []string{"addfxps16f8", "multfxps16f8", "addfps16f8", "multfps16f4", "addlqs16t1", "multlqs16t2"} // (no div*: a zero divisor panics the simulator, that is not this property)
	did := n + 20
	for _, op := range []string{"addfxps16f8", "addfps16f8", "multlqs16t1"} {
		did++
		cs = append(cs, caseSpec{ID: did, P: 1, Rsize: 16, Ticks: 3, Progs: [][]string{
			{"rset r0 300", "rset r1 512", op + " r0 r1", "r2o r0 o0"}}})
		did++
		cs = append(cs, caseSpec{ID: did, P: 2, Rsize: 16, Ticks: 9, Progs: [][]string{
			{"rset r0 300", "rset r1 512", op + " r0 r1", op + " r0 r1", "r2o r0 o0"},
			{"rset r0 700", "rset r1 256", "nop", op + " r0 r1", op + " r1 r0", "r2o r0 o0"}}})
	}
	for q := 0; q < 3; q++ {
		did++
		op := dynOps[rng.Intn(len(dynOps))]
		c := caseSpec{ID: did, P: 2 + rng.Intn(2), Rsize: 16, Ticks: 11 + 2*rng.Intn(10)}
		for p := 0; p < c.P; p++ {
			prog := []string{fmt.Sprintf("rset r0 %d", 256+rng.Intn(700)), fmt.Sprintf("rset r1 %d", 256+rng.Intn(700))}
			for k := 0; k < p+rng.Intn(2); k++ {
				prog = append(prog, "nop") // phase offset between the cores
			}
			for k := 0; k < 2+rng.Intn(3); k++ {
				prog = append(prog, fmt.Sprintf("%s r%d r%d", op, rng.Intn(2), rng.Intn(2)))
				if rng.Bool() {
					prog = append(prog, "inc r2")
				}
			}
			prog = append(prog, "r2o r0 o0", "j 2")
			c.Progs = append(c.Progs, prog)
		}
		cs = append(cs, c)
	}
	// one SimDelays object updated in place between two simulations of the same loaded machine: the second
	// simulation must follow the updated table (= its run-alone trace with a fresh object)
	dlyProg := []string{"rset r0 1", "inc r0", "add r0 r0", "nop", "inc r0", "r2o r0 o0", "j 1"}
	cs = append(cs, caseSpec{ID: did + 1, P: 1, Rsize: 8, Ticks: 24, Dly: "inc:5,add:1", Prev: "inc:2,add:3", Progs: [][]string{dlyProg}})
	cs = append(cs, caseSpec{ID: did + 2, P: 1, Rsize: 8, Ticks: 24, Dly: "inc:1,nop:4", Prev: "inc:3", Progs: [][]string{dlyProg}})
	// delay distributions with one value of probability 1 and further values of probability 0
	cs = append(cs, caseSpec{ID: did + 6, P: 1, Rsize: 8, Ticks: 30, Dly: "inc:2+7+9,add:1+5", Progs: [][]string{dlyProg}})
	cs = append(cs, caseSpec{ID: did + 7, P: 2, Rsize: 16, Ticks: 40, Dly: "inc:3+1,nop:2+6+8+4,rset:1+3", Prev: "inc:1",
		Progs: [][]string{dlyProg, {"rset r1 2", "nop", "inc r1", "nop", "r2o r1 o0", "j 1"}}})
	for q := 0; q < 3; q++ {
		ops := []string{"inc", "add", "nop", "rset", "r2o"}
		mk := func() string {
			var es []string
			for _, o := range ops {
				if rng.Chance(2, 3) {
					es = append(es, fmt.Sprintf("%s:%d", o, 1+rng.Intn(5)))
				}
			}
			if len(es) == 0 {
				es = []string{fmt.Sprintf("inc:%d", 2+rng.Intn(4))}
			}
			return strings.Join(es, ",")
		}
		c := caseSpec{ID: did + 3 + q, P: 1 + rng.Intn(3), Rsize: []int{8, 16}[rng.Intn(2)], Ticks: 30 + rng.Intn(30), Dly: mk(), Prev: mk()}
		for c.Prev == c.Dly {
			c.Prev = mk()
		}
		for p := 0; p < c.P; p++ {
			c.Progs = append(c.Progs, genProg(rng, false, false))
		}
		cs = append(cs, c)
	}
	// simbox-driven cases: several periodic set rules (different periods, different values) on the same
	// input, with and without an absolute set on a common multiple: the trace must not depend on the run
	ioProg := []string{"rset r0 1", "i2r r2 i0", "r2o r2 o0", "add r0 r2", "j 1"}
	cs = append(cs, caseSpec{ID: n + 6, P: 1, Rsize: 8, Ticks: 13, Progs: [][]string{ioProg},
		Rules: []string{"relative:2:set:i0:5", "relative:3:set:i0:9"}})
	for q := 0; q < 4; q++ {
		per := []int{2, 3, 4, 5, 6}
		var rules []string
		nr := 2 + rng.Intn(2)
		lcm := 1
		for r := 0; r < nr; r++ {
			j := rng.Intn(len(per))
			p := per[j]
			per = append(per[:j], per[j+1:]...)
			rules = append(rules, fmt.Sprintf("relative:%d:set:i0:%d", p, 3+7*r+rng.Intn(5)))
			g, a := lcm, p
			for a != 0 {
				g, a = a, g%a
			}
			lcm = lcm / g * p
		}
		if q%2 == 1 {
			rules = append(rules, fmt.Sprintf("absolute:%d:set:i0:%d", lcm, 100+q))
		}
		c := caseSpec{ID: n + 7 + q, P: 1 + rng.Intn(2), Rsize: []int{8, 16}[rng.Intn(2)], Ticks: 2*lcm + 3, Rules: rules}
		c.Progs = append(c.Progs, ioProg)
		for p := 1; p < c.P; p++ {
			c.Progs = append(c.Progs, genProg(rng, false, false))
		}
		cs = append(cs, c)
	}
	// textual reports (config:show_*): every processor's lines must be its own, whatever the worker order
	shProgs := [][]string{ioProg, {"rset r0 7", "inc r1", "add r0 r1", "r2o r0 o0", "j 1"}, {"rset r1 3", "nop", "inc r0", "add r1 r0", "nop", "j 1"}}
	cs = append(cs, caseSpec{ID: n + 18, P: 2, Rsize: 8, Ticks: 12, Progs: shProgs[:2],
		Rules: []string{"config:show_disasm", "absolute:0:set:i0:4"}})
	cs = append(cs, caseSpec{ID: n + 19, P: 3, Rsize: 16, Ticks: 15, Progs: shProgs,
		Rules: []string{"config:show_disasm", "config:show_pc", "config:show_ticks", "relative:4:set:i0:9"}})
	cs = append(cs, caseSpec{ID: n + 20, P: 3, Rsize: 8, Ticks: 10, Progs: shProgs,
		Rules: []string{"config:show_instruction", "config:show_proc_regs_pre", "config:show_io_post", "absolute:2:set:i0:1"}})
	// command-channel opcodes (they hand a command to the VM's dispatcher goroutine; no driver attached):
	// many processors executing them in the same tick, many simulations at once
	cmdCore := func(op string) []string { return []string{"rset r1 3", "inc r0", op, "j 1"} }
	c1 := caseSpec{ID: n + 90, P: 5, Rsize: 8, Ticks: 60, Group: 48}
	for p := 0; p < c1.P; p++ {
		c1.Progs = append(c1.Progs, cmdCore("r2u r0 u0"))
	}
	cs = append(cs, c1)
	c2 := caseSpec{ID: n + 91, P: 7, Rsize: 8, Ticks: 40, Group: 24}
	for _, op := range []string{"r2v r0 3", "k2r r0 k0", "t2r r0 st0", "q2r r0 q0", "r2q r0 q0", "r2t r0 st0", "u2r r0 u0"} {
		c2.Progs = append(c2.Progs, cmdCore(op))
	}
	cs = append(cs, c2)
	c3 := caseSpec{ID: n + 92, P: 8, Rsize: 8, Ticks: 50, Group: 16}
	for p := 0; p < c3.P; p++ {
		c3.Progs = append(c3.Progs, []string{"rset r1 3", "inc r0", "r2u r0 u0", "r2u r1 u0", "j 1"})
	}
	cs = append(cs, c3)
	// several absolute set rules for the SAME tick and the SAME object (a later rule overrides an earlier
	// one), on objects that are not the first one named by a set rule (inputs and processor registers)
	dupProgs := [][]string{{"i2r r2 i0", "add r0 r1", "add r0 r3", "r2o r0 o0", "j 0"}, {"add r0 r2", "inc r1", "r2o r0 o0", "j 0"}}
	cs = append(cs, caseSpec{ID: n + 80, P: 1, Rsize: 8, Ticks: 8, Progs: dupProgs[:1], Rules: []string{
		"absolute:0:set:i0:4", "absolute:0:set:p0r1:7", "absolute:0:set:p0r3:2", "absolute:0:set:p0r1:11"}})
	for q := 0; q < 3; q++ {
		P := 1 + rng.Intn(2)
		objs := []string{"i0", "p0r1", "p0r3"}
		if P > 1 {
			objs = append(objs, "p1r2", "p1r0")
		}
		var rules []string
		ticks := []int{0, 2 + rng.Intn(3)}
		for _, t := range ticks {
			for _, o := range objs { // every object once, in order: i0 is the first registered
				rules = append(rules, fmt.Sprintf("absolute:%d:set:%s:%d", t, o, 1+rng.Intn(20)))
			}
			for d := 0; d < 1+rng.Intn(2); d++ { // duplicates on the 2nd..nth object, different value
				o := objs[1+rng.Intn(len(objs)-1)]
				rules = append(rules, fmt.Sprintf("absolute:%d:set:%s:%d", t, o, 30+rng.Intn(20)))
			}
		}
		cs = append(cs, caseSpec{ID: n + 81 + q, P: P, Rsize: []int{8, 16}[rng.Intn(2)], Ticks: 10 + rng.Intn(6), Progs: dupProgs[:P], Rules: rules})
	}
	// stimuli written in every notation of the number library (plain, 0u, 0d, 0x, 0b, sized forms, 0f; values
	// ending in zeros): the same text must mean the same value in every run
	cs = append(cs, caseSpec{ID: n + 14, P: 1, Rsize: 16, Ticks: 26, Progs: [][]string{ioProg}, Rules: []string{
		"absolute:0:set:i0:0u100", "absolute:3:set:i0:0d2000", "absolute:6:set:i0:0x1f00", "absolute:9:set:i0:0b1010000",
		"absolute:12:set:i0:0u<16>300", "absolute:15:set:i0:500", "absolute:18:set:i0:0x<8>1f", "absolute:21:set:i0:0b<16>1100",
		"absolute:23:set:i0:0d<16>7000"}})
	cs = append(cs, caseSpec{ID: n + 15, P: 1, Rsize: 32, Ticks: 20, Progs: [][]string{ioProg}, Rules: []string{
		"absolute:0:set:i0:0f1.500000", "absolute:4:set:i0:0u1000", "relative:5:set:i0:0d100", "relative:7:set:i0:0x100",
		"absolute:10:set:i0:0f<32>2.000000", "absolute:14:set:i0:0u10.0"}})
	cs = append(cs, caseSpec{ID: n + 16, P: 1, Rsize: 16, Ticks: 1, Sps: "unsigned~0u100", Progs: [][]string{
		{"i2rw r0 i0", "inc r1", "r2owa r0 o0", "r2owa r1 o1"}}})
	cs = append(cs, caseSpec{ID: n + 17, P: 1, Rsize: 16, Ticks: 1, Sps: "unsigned~0d1000", Progs: [][]string{
		{"i2rw r0 i0", "inc r1", "r2owa r0 o0", "r2owa r1 o1"}}})
	// SinglePipelineSimulate calls whose shown value uses a dynamic number type (registered beforehand)
	spsProg := []string{"i2rw r0 i0", "inc r1", "r2owa r0 o0", "r2owa r1 o1"}
	cs = append(cs, caseSpec{ID: n + 11, P: 1, Rsize: 16, Ticks: 1, Sps: "fps16f8~384", Progs: [][]string{spsProg}})
	cs = append(cs, caseSpec{ID: n + 12, P: 1, Rsize: 16, Ticks: 1, Sps: "fps16f4~" + fmt.Sprint(16+rng.Intn(200)), Delay: true, Progs: [][]string{spsProg}})
	cs = append(cs, caseSpec{ID: n + 13, P: 1, Rsize: 16, Ticks: 1, Sps: "unsigned~" + fmt.Sprint(rng.Intn(500)), Progs: [][]string{spsProg}})
	// fixed cases with the shared delay table: short simulations so that the Init of one overlaps the
	// steps (and the Init) of the others in the concurrent groups
	cs = append(cs, caseSpec{ID: n + 4, P: 1, Rsize: 8, Ticks: 12, Delay: true, Progs: [][]string{
		{"rset r0 1", "inc r0", "inc r0", "add r0 r0", "r2o r0 o0", "j 1"}}})
	cs = append(cs, caseSpec{ID: n + 5, P: 3, Rsize: 16, Ticks: 10, Delay: true, Progs: [][]string{
		{"rset r0 2", "inc r0", "j 1"}, {"rset r1 3", "add r0 r1", "nop", "j 1"}, {"rset r0 1", "inc r0", "r2o r0 o0", "j 1"}}})
	return cs
}

// ---- modes -------------------------------------------------------------------------------------

func readCases(path string) []caseSpec {
	f, err := os.Open(path)
	if err != nil {
		fmt.Fprintln(os.Stderr, err)
		os.Exit(2)
	}
	defer f.Close()
	var cs []caseSpec
	sc := bufio.NewScanner(f)
	sc.Buffer(make([]byte, 1<<20), 1<<20)
	for sc.Scan() {
		l := strings.TrimSpace(sc.Text())
		if strings.HasPrefix(l, "C ") {
			l = l[2:]
		}
		if l == "" || strings.HasPrefix(l, "#") {
			continue
		}
		c, err := parseCase(l)
		if err != nil {
			fmt.Fprintln(os.Stderr, err)
			os.Exit(2)
		}
		cs = append(cs, c)
	}
	return cs
}

func runAlone(spec string) {
	c, err := parseCase(spec)
	if err != nil {
		fmt.Fprintln(os.Stderr, err)
		os.Exit(2)
	}
	bm, err := c.build()
	if err != nil {
		emit(c, "alone", 1, nil, err)
		return
	}
	registries(0)
	tr, err := simulate(bm, c, false)
	emit(c, "alone", 1, tr, err)
	registries(c.ID)
}

func runBatch(path string) {
	cs := readCases(path)
	rng := common.NewRng(common.Seed() + 77)
	bms := make([]*bondmachine.Bondmachine, len(cs))
	for i, c := range cs {
		bm, err := c.build()
		if err != nil {
			emit(c, "seq", 1, nil, err)
			continue
		}
		bms[i] = bm
	}
	registries(0)
	for i, c := range cs {
		if bms[i] == nil {
			continue
		}
		// (1) alone, but after every earlier simulation of this process
		tr, err := simulate(bms[i], c, true)
		emit(c, "seq", 1, tr, err)
		// (2) concurrently with k-1 other simulations: copies of itself and other machines
		k := 2 + rng.Intn(7)
		if c.Group > 0 {
			k = c.Group
		}
		idx := []int{i}
		for len(idx) < k {
			if rng.Bool() || c.Group > 0 {
				idx = append(idx, i)
			} else {
				j := rng.Intn(len(cs))
				if bms[j] != nil {
					idx = append(idx, j)
				}
			}
		}
		rounds := 1
		if c.Delay || c.Sps != "" {
			// start-up (VM.Init) of one simulation must overlap the others often: the race-detector
			// runs repeat the concurrent group (VERIF_C09_ROUNDS)
			rounds = common.EnvInt("VERIF_C09_ROUNDS", 1)
		}
		for r := 0; r < rounds; r++ {
			var wg sync.WaitGroup
			type res struct {
				tr  []string
				err error
			}
			rs := make([]res, len(idx))
			for w, j := range idx {
				wg.Add(1)
				go func(w, j int) {
					defer wg.Done()
					t, e := simulate(bms[j], cs[j], true)
					rs[w] = res{t, e}
				}(w, j)
			}
			wg.Wait()
			for w, j := range idx {
				emit(cs[j], "conc", k, rs[w].tr, rs[w].err)
			}
		}
		registries(c.ID)
	}
}
