// C12 harness: the bondgo compiler (pkg/bondgo) driven in-process.
//
//	c12 gen <n> <dir> [maxstmts]   generate n programs of the modelled subset, write p<id>.go into
//	                               <dir>, compile each in-process (same wiring as cmd/bondgo main)
//	                               under several forced schedules, print
//	    PROG <id> w= fuel= steps= salt= decls= body=<s-expr>     (read by the Lean oracle)
//	    TAG  <id> <feature,feature,...>
//	    IMPL <id> w= steps= salt= asm=<l1;l2;...>                 (read by the Lean oracle)
//	    IREQ <id> regs= ram= rom= ops= ins= outs=                 (Usage_Monitor's final state)
//	    ISCH <id> sched=<s> exit=<ok|hang:<phase>|faulty:<msg>|panic:<msg>> same=<0|1>
//	c12 compilefile <file.go> <id> <w>   the same for one given source file (replay)
//	c12 proto <n>                  allocator protocol scenarios: the harness plays the visitor against
//	                               the real Var_assigner / Usage_Monitor
//	    PROTO <id> acts=<a1,a2,...>
//	    PIMPL <id> sched=<s> result=<ok|hang:<phase>> ids=<...> regs=<n> ram=<n>
//	c12 protoreplay <acts>         one scenario
//	c12 probeje                    is procbuilder's `je` still a stub?  JE stub=<0|1>
//	c12 chan <n> <dir>             programs with several channels and several goroutines (each goroutine is given
//	                               a subset of the channels, in an order different from their declaration):
//	    CHAN <id> w= exit= srctopo=<g:p,p;…> reqtopo=<g:p,p;…> expected=<v,v,…> got=<v,v,…|deadlock:…>
//	                               srctopo = the topology the source implies, reqtopo = Usage_Monitor's Chanr (what
//	                               Create_Bondmachine wires); got = main's outputs when all processors' emitted code
//	                               runs on rendezvous channels restricted to the requested topology
//	c12 chanfile <file.go> <id> <w> <srctopo> <expected>   the same for a given source
//
// A hang is detected from a consistent goroutine dump: every goroutine of the case (worker,
// Var_assigner, Usage_Monitor) is blocked on a channel operation — nobody is left to unblock them.
// All randomness derives from VERIF_SEED.
package main

import (
	"fmt"
	"go/ast"
	"go/parser"
	"go/token"
	"os"
	"path/filepath"
	"regexp"
	"runtime"
	"strconv"
	"strings"
	"sync"
	"time"

	"bmvh/common"

	"github.com/BondMachineHQ/BondMachine/pkg/bondgo"
	"github.com/BondMachineHQ/BondMachine/pkg/procbuilder"
)

var out = common.NewOut(os.Stdout)

// ---------------------------------------------------------------------------------------------
// program generator (AST of the modelled subset)

type expr struct {
	k    string // lit var add mul ior
	n    int
	a, b *expr
}

type stmt struct {
	k      string // asg inc dec iow if ife for forc
	x      int
	e      *expr
	ca, cb *expr
	t, el  []*stmt
	deep   bool // inc/dec below two or more enclosing if/for constructs
	cases  []swCase // switch: case clauses (value, body); `el` holds the default clause (nil = none)
	xs     []int   // tuple assignment: destinations
	es     []*expr // tuple assignment: right-hand sides
	init   *stmt // `if init; cond {` / `for init; cond; post {` (an assignment or ++/--)
	post   *stmt
}

// one `case <lit>:` clause of a switch
type swCase struct {
	val  *expr
	body []*stmt
}

type prog struct {
	w      int
	decls  []bool // true = register variable
	nin    int
	nout   int
	body   []*stmt
	tags   map[string]bool
	nstmts int
	names  []string // Go name of every variable (top-level ones first, then block-local ones in textual order)
}

type gen struct {
	r      *common.Rng
	p      *prog
	budget int
	scope  []int // indices of the variables in scope, outermost first (a later one shadows an earlier one of the same name)
	here   []map[string]bool // names declared in the enclosing blocks, innermost last (a `:=` must not re-declare one of the innermost)
	pre    []*stmt           // statements g.stmt wants in front of the statement it returns (the caller places them)
}

// one statement, preceded by whatever it asked to have in front of it
func (g *gen) stmts(nest int, inIf bool, inLoop bool) []*stmt {
	s := g.stmt(nest, inIf, inLoop)
	res := append(g.pre, s)
	g.pre = nil
	return res
}

// visible: for every name in scope the index Go resolves it to (the innermost declaration)
func (g *gen) visible() []int {
	var res []int
	seen := map[string]bool{}
	for i := len(g.scope) - 1; i >= 0; i-- {
		n := g.p.names[g.scope[i]]
		if !seen[n] {
			seen[n] = true
			res = append(res, g.scope[i])
		}
	}
	sortInts(res)
	return res
}

func (g *gen) pickVar() int {
	v := g.visible()
	return v[g.r.Intn(len(v))]
}

func (g *gen) lit() *expr {
	max := 1 << uint(g.p.w)
	if g.p.w > 16 {
		max = 1 << 16
	}
	switch g.r.Intn(4) {
	case 0:
		return &expr{k: "lit", n: g.r.Intn(4)}
	case 1:
		return &expr{k: "lit", n: max - 1 - g.r.Intn(3)}
	}
	return &expr{k: "lit", n: g.r.Intn(max)}
}

func (g *gen) expr(depth int) *expr {
	c := g.r.Intn(10)
	if depth <= 0 && c >= 6 {
		c = g.r.Intn(6)
	}
	switch {
	case c < 2:
		return g.lit()
	case c < 5:
		return &expr{k: "var", n: g.pickVar()}
	case c < 6:
		if g.p.nin > 0 {
			g.p.tags["ioread"] = true
			return &expr{k: "ior", n: g.r.Intn(g.p.nin)}
		}
		return &expr{k: "var", n: g.pickVar()}
	case c < 8:
		g.p.tags["add"] = true
		if depth >= 1 && g.p.nin > 0 && g.r.Chance(1, 8) {
			// two reads in one expression whose value depends on which happens first (Go: left to right)
			g.p.tags["ioread"], g.p.tags["mul"], g.p.tags["ioread-pair"] = true, true, true
			return &expr{k: "add", a: &expr{k: "mul", a: &expr{k: "ior", n: g.r.Intn(g.p.nin)}, b: &expr{k: "lit", n: 2 + g.r.Intn(8)}},
				b: &expr{k: "ior", n: g.r.Intn(g.p.nin)}}
		}
		return &expr{k: "add", a: g.expr(depth - 1), b: g.expr(depth - 1)}
	default:
		g.p.tags["mul"] = true
		return &expr{k: "mul", a: g.expr(depth - 1), b: g.expr(depth - 1)}
	}
}

func (g *gen) block(nest int, inIf bool, inLoop bool) []*stmt {
	n := 1 + g.r.Intn(4)
	var res []*stmt
	mark := len(g.scope)
	here := map[string]bool{}
	g.here = append(g.here, here)
	defer func() { g.scope = g.scope[:mark]; g.here = g.here[:len(g.here)-1] }()
	// block-local memory variables, possibly shadowing an outer memory variable's name
	if g.r.Chance(2, 5) {
		for k := 1 + g.r.Intn(2); k > 0; k-- {
			idx := len(g.p.names)
			name := "v" + strconv.Itoa(idx)
			if g.r.Bool() {
				var cands []string
				for _, v := range g.visible() {
					nm := g.p.names[v]
					if !strings.HasPrefix(nm, "reg_") && !here[nm] {
						cands = append(cands, nm)
					}
				}
				if len(cands) > 0 {
					name = cands[g.r.Intn(len(cands))]
					g.p.tags["shadow"] = true
				}
			}
			here[name] = true
			g.p.names = append(g.p.names, name)
			g.scope = append(g.scope, idx)
			g.p.tags["blockdecl"] = true
			res = append(res, &stmt{k: "decl", x: idx})
		}
	}
	for i := 0; i < n && g.budget > 0; i++ {
		res = append(res, g.stmts(nest, inIf, inLoop)...)
	}
	if len(res) == 0 {
		g.budget--
		g.p.nstmts++
		res = append(res, &stmt{k: "iow", x: g.r.Intn(g.p.nout), e: g.expr(1)})
	}
	return res
}

// simple: an assignment or ++/-- usable as init / post clause
func (g *gen) simple() *stmt {
	x := g.pickVar()
	switch g.r.Intn(3) {
	case 0:
		return &stmt{k: "inc", x: x}
	case 1:
		return &stmt{k: "dec", x: x}
	}
	return &stmt{k: "asg", x: x, e: &expr{k: "add", a: &expr{k: "var", n: x}, b: g.lit()}}
}

// declaresName: the statement declares a variable of that name in its own block
func declaresName(p *prog, s *stmt, name string) bool {
	if s.k == "decl" && p.names[s.x] == name {
		return true
	}
	if s.k == "def" {
		for _, x := range s.xs {
			if p.names[x] == name {
				return true
			}
		}
	}
	return false
}

func hasTopDecl(b []*stmt) bool {
	for _, s := range b {
		if s.k == "decl" {
			return true
		}
	}
	return false
}

func (g *gen) stmt(nest int, inIf bool, inLoop bool) *stmt {
	g.budget--
	g.p.nstmts++
	c := g.r.Intn(20)
	if nest >= 3 && c >= 12 {
		c = g.r.Intn(12)
	}
	if inLoop && g.r.Chance(1, 10) {
		if g.r.Bool() {
			g.p.tags["break"] = true
			return &stmt{k: "brk"}
		}
		g.p.tags["continue"] = true
		return &stmt{k: "cont"}
	}
	if g.r.Chance(1, 12) {
		// `x := e` / `x, y := e1, e2`: fresh names, or (in nested blocks) the name of an outer variable —
		// never a name already declared in this block (bondgo mishandles that, see docs/C12.md)
		cur := g.here[len(g.here)-1]
		k := 1
		if g.r.Chance(1, 3) {
			k = 2
		}
		st := &stmt{k: "def"}
		for i := 0; i < k; i++ {
			st.es = append(st.es, g.expr(1)) // evaluated in the scope before the new variables
		}
		vis := g.visible()
		var newNames []string
		for i := 0; i < k; i++ {
			idx := len(g.p.names) + i
			name := "v" + strconv.Itoa(idx)
			if g.r.Chance(1, 10) {
				name = "reg_v" + strconv.Itoa(idx)
			}
			if g.r.Bool() {
				var cands []string
				for _, v := range vis {
					nm := g.p.names[v]
					dup := cur[nm]
					for _, nn := range newNames {
						if nn == nm {
							dup = true
						}
					}
					if !dup && (!strings.HasPrefix(nm, "reg_") || g.r.Chance(1, 4)) {
						cands = append(cands, nm)
					}
				}
				if len(cands) > 0 {
					name = cands[g.r.Intn(len(cands))]
					g.p.tags["define-shadow"] = true
				}
			}
			newNames = append(newNames, name)
		}
		for i, name := range newNames {
			idx := len(g.p.names)
			g.p.names = append(g.p.names, name)
			g.scope = append(g.scope, idx)
			cur[name] = true
			st.xs = append(st.xs, idx)
			if strings.HasPrefix(name, "reg_") {
				g.p.tags["define-reg"] = true
			}
			_ = i
		}
		g.p.tags["define"] = true
		return st
	}
	if nest < 2 && g.r.Chance(1, 70) {
		// a long switch: 11..13 case clauses (+ default now and then), distinct constants, and in front of
		// it an assignment that sends the tag to one of the clauses with index >= 10 (the jump table's
		// two-digit entries are taken, not only written)
		n := 11 + g.r.Intn(3)
		vals := make([]int, n+3)
		for i := range vals {
			vals[i] = i
		}
		for i := len(vals) - 1; i > 0; i-- {
			j := g.r.Intn(i + 1)
			vals[i], vals[j] = vals[j], vals[i]
		}
		st := &stmt{k: "sw", x: g.pickVar()}
		for i := 0; i < n; i++ {
			var body []*stmt
			if g.r.Chance(1, 3) {
				body = append(body, g.simple())
			}
			body = append(body, &stmt{k: "iow", x: g.r.Intn(g.p.nout), e: &expr{k: "lit", n: 100 + i}})
			st.cases = append(st.cases, swCase{val: &expr{k: "lit", n: vals[i]}, body: body})
			g.p.nstmts++
		}
		if g.r.Bool() {
			st.el = []*stmt{{k: "iow", x: g.r.Intn(g.p.nout), e: &expr{k: "lit", n: 99}}}
		}
		g.pre = append(g.pre, &stmt{k: "asg", x: st.x, e: &expr{k: "lit", n: vals[10+g.r.Intn(n-10)]}})
		g.p.tags["switch"], g.p.tags["switch-long"] = true, true
		return st
	}
	if nest < 3 && g.r.Chance(1, 70) {
		// switch on a variable, distinct literal cases, default last. Clauses hold simple statements,
		// now and then a nested if / for / switch (no declaration directly in a clause: bondgo would put
		// it into the enclosing block's scope), inside a loop a `continue`, and `break` — directly in the
		// clause or under an `if` of the clause, inside and outside loops: it ends the switch (Go; bondgo
		// since /repo 5d0e719, before it left the enclosing loop or was refused outside one).
		st := &stmt{k: "sw", x: g.pickVar()}
		simpleBody := func() []*stmt {
			var b []*stmt
			for i := 1 + g.r.Intn(2); i > 0; i-- {
				switch g.r.Intn(4) {
				case 0:
					b = append(b, &stmt{k: "iow", x: g.r.Intn(g.p.nout), e: g.expr(1)})
				case 1:
					b = append(b, &stmt{k: "asg", x: g.pickVar(), e: g.expr(1)})
				case 2:
					if nest < 2 && g.budget > 0 {
						markN, markS := len(g.p.names), len(g.scope)
						cur := g.here[len(g.here)-1]
						saved := map[string]bool{}
						for k, v := range cur {
							saved[k] = v
						}
						n := g.stmt(nest+1, true, false)
						b = append(b, g.pre...)
						g.pre = nil
						if n.k == "def" || n.k == "decl" {
							// undo the declaration: the variable indices stay consecutive
							g.p.names, g.scope = g.p.names[:markN], g.scope[:markS]
							for k := range cur {
								if !saved[k] {
									delete(cur, k)
								}
							}
							n = &stmt{k: "iow", x: g.r.Intn(g.p.nout), e: g.expr(1)}
						} else if n.k != "iow" && n.k != "asg" && n.k != "inc" && n.k != "dec" && n.k != "tasg" {
							g.p.tags["switch-nested"] = true
						}
						b = append(b, n)
						continue
					}
					b = append(b, g.simple())
				default:
					b = append(b, g.simple())
				}
				g.p.nstmts++
			}
			switch {
			case inLoop && g.r.Chance(1, 6):
				b = append(b, &stmt{k: "cont"})
				g.p.tags["continue"] = true
				g.p.tags["switch-continue"] = true
			case g.r.Chance(1, 4):
				// break: last statement of the clause, in the middle of it (the rest is skipped), or guarded
				brk := &stmt{k: "brk"}
				if g.r.Bool() {
					brk = &stmt{k: "if", ca: &expr{k: "var", n: g.pickVar()}, cb: &expr{k: "lit", n: g.r.Intn(4)}, t: []*stmt{{k: "brk"}}}
				}
				pos := g.r.Intn(len(b) + 1)
				b = append(b[:pos], append([]*stmt{brk}, b[pos:]...)...)
				g.p.tags["switch-break"] = true
				if !inLoop {
					g.p.tags["switch-break-noloop"] = true
				}
			}
			return b
		}
		used := map[int]bool{}
		for i := 1 + g.r.Intn(3); i > 0; i-- {
			v := g.r.Intn(5)
			if used[v] {
				continue
			}
			used[v] = true
			st.cases = append(st.cases, swCase{val: &expr{k: "lit", n: v}, body: simpleBody()})
		}
		if g.r.Bool() {
			st.el = simpleBody()
		}
		g.p.tags["switch"] = true
		return st
	}
	switch {
	case c < 5 && g.r.Chance(1, 4) && len(g.visible()) >= 2:
		// tuple assignment: 2..3 distinct destinations, right-hand sides that read the destinations
		// (swaps, overlapping reads and writes)
		vis := g.visible()
		k := 2
		if len(vis) >= 3 && g.r.Bool() {
			k = 3
		}
		perm := append([]int{}, vis...)
		for i := len(perm) - 1; i > 0; i-- {
			j := g.r.Intn(i + 1)
			perm[i], perm[j] = perm[j], perm[i]
		}
		st := &stmt{k: "tasg", xs: perm[:k]}
		for i := 0; i < k; i++ {
			other := perm[(i+1)%k]
			switch g.r.Intn(3) {
			case 0:
				st.es = append(st.es, &expr{k: "var", n: other}) // rotation / swap
			case 1:
				st.es = append(st.es, &expr{k: "add", a: &expr{k: "var", n: perm[i]}, b: &expr{k: "var", n: other}})
			default:
				st.es = append(st.es, g.expr(1))
			}
		}
		g.p.tags["tuple-assign"] = true
		return st
	case c < 5:
		return &stmt{k: "asg", x: g.pickVar(), e: g.expr(2)}
	case c < 7:
		k := "inc"
		if g.r.Bool() {
			k = "dec"
		}
		x := g.pickVar()
		if nest >= 2 && g.r.Chance(2, 3) {
			// keep deep inc/dec (a construct with a known defect) rare, so that most programs test the rest
			return &stmt{k: "asg", x: x, e: &expr{k: "add", a: &expr{k: "var", n: x}, b: &expr{k: "lit", n: 1}}}
		}
		if nest >= 2 {
			g.p.tags["incdec-deep"] = true
		} else {
			g.p.tags["incdec"] = true
		}
		return &stmt{k: k, x: x, deep: nest >= 2}
	case c < 12:
		g.p.tags["iowrite"] = true
		return &stmt{k: "iow", x: g.r.Intn(g.p.nout), e: g.expr(2)}
	case c < 15:
		g.p.tags["if"] = true
		st := &stmt{k: "if"}
		if g.r.Chance(1, 3) {
			st.init = g.simple()
			g.p.tags["if-init"] = true
		}
		st.ca, st.cb = g.expr(1), g.expr(1)
		st.t = g.block(nest+1, true, inLoop)
		return st
	case c < 17:
		g.p.tags["ifelse"] = true
		st := &stmt{k: "ife"}
		if g.r.Chance(1, 3) {
			st.init = g.simple()
			g.p.tags["if-init"] = true
		}
		st.ca, st.cb = g.expr(1), g.expr(1)
		st.t = g.block(nest+1, true, inLoop)
		st.el = g.block(nest+1, true, inLoop)
		return st
	case c < 19:
		// a conditional loop; the body usually changes the tested variable so that it can end
		g.p.tags["forcond"] = true
		v := g.pickVar()
		body := g.block(nest+1, false, true)
		shadowed := false
		for _, b := range body {
			if declaresName(g.p, b, g.p.names[v]) {
				shadowed = true
			}
		}
		if !shadowed && g.r.Chance(3, 4) {
			k := "inc"
			if g.r.Bool() {
				k = "dec"
			}
			if nest+1 >= 2 {
				body = append(body, &stmt{k: "asg", x: v, e: &expr{k: "add", a: &expr{k: "var", n: v}, b: &expr{k: "lit", n: 1}}})
			} else {
				body = append(body, &stmt{k: k, x: v})
				g.p.tags["incdec"] = true
			}
			g.p.nstmts++
		}
		var cb *expr
		if g.r.Bool() {
			cb = g.lit()
		} else {
			cb = g.expr(0)
		}
		st := &stmt{k: "forc", ca: &expr{k: "var", n: v}, cb: cb, t: body}
		if g.r.Chance(1, 3) {
			st.init = g.simple()
			g.p.tags["for-init"] = true
		}
		// (the real compiler releases the body's variables when it visits the post clause: `loopP` in the model)
		if g.r.Chance(1, 3) {
			st.post = g.simple()
			g.p.tags["for-post"] = true
			// a `continue` that skips part of the body must still reach the post clause
			if g.r.Bool() && len(st.t) > 0 {
				k := g.r.Intn(len(st.t) + 1)
				for k < len(st.t) && st.t[k].k == "decl" {
					k++ // after the body's declarations
				}
				guard := &stmt{k: "if", ca: &expr{k: "var", n: v}, cb: g.lit(), t: []*stmt{{k: "cont"}}}
				if g.r.Bool() {
					guard.cb = &expr{k: "lit", n: g.r.Intn(4)}
				}
				shadowedHere := false
				for _, b := range st.t[:k] {
					if declaresName(g.p, b, g.p.names[v]) {
						shadowedHere = true
					}
				}
				if !shadowedHere {
					nt := append([]*stmt{}, st.t[:k]...)
					nt = append(nt, guard)
					nt = append(nt, st.t[k:]...)
					st.t = nt
					g.p.tags["continue"] = true
					g.p.tags["continue-with-post"] = true
				}
			}
		}
		return st
	default:
		g.p.tags["forever"] = true
		return &stmt{k: "for", t: g.block(nest+1, false, true)}
	}
}

func genProg(r *common.Rng, maxstmts int) *prog {
	return genProgW(r, maxstmts, []int{8, 8, 16, 32, 64}[r.Intn(5)])
}

func genProgW(r *common.Rng, maxstmts int, w int) *prog {
	p := &prog{tags: map[string]bool{}}
	p.w = w
	nv := 1 + r.Intn(4)
	for i := 0; i < nv; i++ {
		isreg := r.Chance(1, 3)
		if isreg {
			p.tags["regvar"] = true
		} else {
			p.tags["memvar"] = true
		}
		p.decls = append(p.decls, isreg)
		if isreg {
			p.names = append(p.names, "reg_v"+strconv.Itoa(i))
		} else {
			p.names = append(p.names, "v"+strconv.Itoa(i))
		}
	}
	p.nin = r.Intn(3)
	p.nout = 1 + r.Intn(2)
	g := &gen{r: r, p: p, budget: 3 + r.Intn(maxstmts-2)}
	top := map[string]bool{}
	for i := range p.decls {
		g.scope = append(g.scope, i)
		top[p.names[i]] = true
	}
	g.here = []map[string]bool{top}
	for g.budget > 0 {
		p.body = append(p.body, g.stmts(0, false, false)...)
	}
	return p
}

// ---- printers: s-expression for the oracle, Go source for the compiler

func (e *expr) sx() string {
	switch e.k {
	case "lit", "var", "ior":
		return fmt.Sprintf("(%s %d)", e.k, e.n)
	}
	return fmt.Sprintf("(%s %s %s)", e.k, e.a.sx(), e.b.sx())
}

func blockSx(b []*stmt) string {
	// `if init; c {…}` compiles and behaves as `init; if c {…}`, `for init; c; post {…}` as
	// `init; for c {…; post}`: the s-expression is written in that form
	var parts []string
	for _, s := range b {
		if s.init != nil {
			parts = append(parts, s.init.sx())
		}
		parts = append(parts, s.sx())
	}
	res := "skip"
	for i := len(parts) - 1; i >= 0; i-- {
		res = "(seq " + parts[i] + " " + res + ")"
	}
	return res
}

func (s *stmt) sx() string {
	switch s.k {
	case "asg", "iow":
		return fmt.Sprintf("(%s %d %s)", s.k, s.x, s.e.sx())
	case "inc", "dec", "decl":
		return fmt.Sprintf("(%s %d)", s.k, s.x)
	case "brk", "cont":
		return s.k
	case "sw":
		// (sw tag (case v1 B1 (case v2 B2 … (dflt D) | skip)))
		chain := "skip"
		if s.el != nil {
			chain = fmt.Sprintf("(dflt %s)", blockSx(s.el))
		}
		for i := len(s.cases) - 1; i >= 0; i-- {
			chain = fmt.Sprintf("(case %d %s %s)", s.cases[i].val.n, blockSx(s.cases[i].body), chain)
		}
		return fmt.Sprintf("(sw (var %d) %s)", s.x, chain)
	case "def":
		r := "(def"
		for i, x := range s.xs {
			r += fmt.Sprintf(" (%d %s)", x, s.es[i].sx())
		}
		return r + ")"
	case "tasg":
		r := "(tasg"
		for i, x := range s.xs {
			r += fmt.Sprintf(" (%d %s)", x, s.es[i].sx())
		}
		return r + ")"
	case "if":
		return fmt.Sprintf("(if (eq %s %s) %s)", s.ca.sx(), s.cb.sx(), blockSx(s.t))
	case "ife":
		return fmt.Sprintf("(ife (eq %s %s) %s %s)", s.ca.sx(), s.cb.sx(), blockSx(s.t), blockSx(s.el))
	case "forc":
		if s.post != nil {
			return fmt.Sprintf("(forp (eq %s %s) %s %s)", s.ca.sx(), s.cb.sx(), blockSx(s.t), s.post.sx())
		}
		return fmt.Sprintf("(forc (eq %s %s) %s)", s.ca.sx(), s.cb.sx(), blockSx(s.t))
	case "for":
		return fmt.Sprintf("(for %s)", blockSx(s.t))
	}
	return "?"
}

func (p *prog) varName(i int) string {
	return p.names[i]
}

func (p *prog) goExpr(e *expr) string {
	switch e.k {
	case "lit":
		return strconv.Itoa(e.n)
	case "var":
		return p.varName(e.n)
	case "ior":
		return fmt.Sprintf("bondgo.IORead(i%d)", e.n)
	case "add":
		return "(" + p.goExpr(e.a) + " + " + p.goExpr(e.b) + ")"
	case "mul":
		return "(" + p.goExpr(e.a) + " * " + p.goExpr(e.b) + ")"
	}
	return "?"
}

// the compiler has no ParenExpr case: print without parentheses, which is only faithful when the
// tree shape is what Go's precedence parses; so sums of products are printed flat and anything
// else goes through fresh statements.  To stay simple the generator's trees are *re-associated by
// the printer*: goExprFlat prints the tree only if no parentheses are needed, otherwise nil.
func needsParen(e *expr, parent string, right bool) bool {
	if e.k != "add" && e.k != "mul" {
		return false
	}
	if parent == "mul" && e.k == "add" {
		return true
	}
	if right && (e.k == parent || (parent == "mul" && e.k == "mul") || (parent == "add" && e.k == "add")) {
		return true // a + (b + c) would be re-associated by the Go parser
	}
	if right && parent == "mul" {
		return true
	}
	return false
}

func parenFree(e *expr) bool {
	if e.k != "add" && e.k != "mul" {
		return true
	}
	if needsParen(e.a, e.k, false) || needsParen(e.b, e.k, true) {
		return false
	}
	return parenFree(e.a) && parenFree(e.b)
}

// normalise: rewrite every expression into a paren-free shape (left-leaning, products inside sums)
func norm(e *expr) *expr {
	if e.k != "add" && e.k != "mul" {
		return e
	}
	a, b := norm(e.a), norm(e.b)
	n := &expr{k: e.k, a: a, b: b}
	if parenFree(n) {
		return n
	}
	// drop the offending right operand structure: keep its leftmost leaf
	for b.k == "add" || b.k == "mul" {
		b = b.a
	}
	n = &expr{k: e.k, a: a, b: b}
	if parenFree(n) {
		return n
	}
	for a.k == "add" || a.k == "mul" {
		a = a.a
	}
	return &expr{k: e.k, a: a, b: b}
}

func (p *prog) goFlat(e *expr) string {
	switch e.k {
	case "add":
		return p.goFlat(e.a) + " + " + p.goFlat(e.b)
	case "mul":
		return p.goFlat(e.a) + " * " + p.goFlat(e.b)
	}
	return p.goExpr(e)
}

func normStmts(b []*stmt) {
	for _, s := range b {
		if s.e != nil {
			s.e = norm(s.e)
		}
		if s.ca != nil {
			s.ca = norm(s.ca)
			s.cb = norm(s.cb)
		}
		for i := range s.es {
			s.es[i] = norm(s.es[i])
		}
		if s.init != nil {
			normStmts([]*stmt{s.init})
		}
		if s.post != nil {
			normStmts([]*stmt{s.post})
		}
		for i := range s.cases {
			normStmts(s.cases[i].body)
		}
		normStmts(s.t)
		normStmts(s.el)
	}
}

// goSimple: an init / post clause
func (p *prog) goSimple(s *stmt) string {
	if s == nil {
		return ""
	}
	switch s.k {
	case "asg":
		return p.varName(s.x) + " = " + p.goFlat(s.e)
	case "inc":
		return p.varName(s.x) + "++"
	case "dec":
		return p.varName(s.x) + "--"
	}
	return ""
}

func (p *prog) goBlock(sb *strings.Builder, b []*stmt, ind string) {
	for _, s := range b {
		switch s.k {
		case "asg":
			fmt.Fprintf(sb, "%s%s = %s\n", ind, p.varName(s.x), p.goFlat(s.e))
		case "sw":
			fmt.Fprintf(sb, "%sswitch %s {\n", ind, p.varName(s.x))
			for _, c := range s.cases {
				fmt.Fprintf(sb, "%scase %s:\n", ind, p.goFlat(c.val))
				p.goBlock(sb, c.body, ind+"\t")
			}
			if s.el != nil {
				fmt.Fprintf(sb, "%sdefault:\n", ind)
				p.goBlock(sb, s.el, ind+"\t")
			}
			fmt.Fprintf(sb, "%s}\n", ind)
		case "def":
			var dl, dr []string
			for i, x := range s.xs {
				dl = append(dl, p.varName(x))
				dr = append(dr, p.goFlat(s.es[i]))
			}
			fmt.Fprintf(sb, "%s%s := %s\n", ind, strings.Join(dl, ", "), strings.Join(dr, ", "))
		case "tasg":
			var l, r []string
			for i, x := range s.xs {
				l = append(l, p.varName(x))
				r = append(r, p.goFlat(s.es[i]))
			}
			fmt.Fprintf(sb, "%s%s = %s\n", ind, strings.Join(l, ", "), strings.Join(r, ", "))
		case "brk":
			fmt.Fprintf(sb, "%sbreak\n", ind)
		case "cont":
			fmt.Fprintf(sb, "%scontinue\n", ind)
		case "decl":
			fmt.Fprintf(sb, "%svar %s uint%d\n", ind, p.varName(s.x), p.w)
		case "inc":
			fmt.Fprintf(sb, "%s%s++\n", ind, p.varName(s.x))
		case "dec":
			fmt.Fprintf(sb, "%s%s--\n", ind, p.varName(s.x))
		case "iow":
			fmt.Fprintf(sb, "%sbondgo.IOWrite(o%d, %s)\n", ind, s.x, p.goFlat(s.e))
		case "if", "ife":
			if s.init != nil {
				fmt.Fprintf(sb, "%sif %s; %s == %s {\n", ind, p.goSimple(s.init), p.goFlat(s.ca), p.goFlat(s.cb))
			} else {
				fmt.Fprintf(sb, "%sif %s == %s {\n", ind, p.goFlat(s.ca), p.goFlat(s.cb))
			}
			p.goBlock(sb, s.t, ind+"\t")
			if s.k == "ife" {
				fmt.Fprintf(sb, "%s} else {\n", ind)
				p.goBlock(sb, s.el, ind+"\t")
			}
			fmt.Fprintf(sb, "%s}\n", ind)
		case "forc":
			if s.init != nil || s.post != nil {
				fmt.Fprintf(sb, "%sfor %s; %s == %s; %s {\n", ind, p.goSimple(s.init), p.goFlat(s.ca), p.goFlat(s.cb), p.goSimple(s.post))
			} else {
				fmt.Fprintf(sb, "%sfor %s == %s {\n", ind, p.goFlat(s.ca), p.goFlat(s.cb))
			}
			p.goBlock(sb, s.t, ind+"\t")
			fmt.Fprintf(sb, "%s}\n", ind)
		case "for":
			fmt.Fprintf(sb, "%sfor {\n", ind)
			p.goBlock(sb, s.t, ind+"\t")
			fmt.Fprintf(sb, "%s}\n", ind)
		}
	}
}

// funcBody: declarations, Make assignments and statements of one function (main or a worker)
func (p *prog) funcBody(sb *strings.Builder, gidBase int, goCall string) {
	for i := 0; i < p.nin; i++ {
		fmt.Fprintf(sb, "\tvar i%d bondgo.Input\n", i)
	}
	for i := 0; i < p.nout; i++ {
		fmt.Fprintf(sb, "\tvar o%d bondgo.Output\n", i)
	}
	for i := range p.decls {
		fmt.Fprintf(sb, "\tvar %s uint%d\n", p.varName(i), p.w)
	}
	for i := 0; i < p.nin; i++ {
		fmt.Fprintf(sb, "\ti%d = bondgo.Make(bondgo.Input, %d)\n", i, gidBase+i+1)
	}
	for i := 0; i < p.nout; i++ {
		fmt.Fprintf(sb, "\to%d = bondgo.Make(bondgo.Output, %d)\n", i, gidBase+p.nin+i+1)
	}
	if goCall != "" {
		fmt.Fprintf(sb, "\tgo %s()\n", goCall)
	}
	p.goBlock(sb, p.body, "\t")
}

func (p *prog) goSource() string {
	return goSourcePair(p, nil)
}

// goSourcePair: main = p; when q is given it becomes `func worker()` started with `go` from main
// (a second processor with its own registers, memory and ports)
func goSourcePair(p, q *prog) string {
	var sb strings.Builder
	sb.WriteString("package main\n\nimport (\n\t\"bondgo\"\n)\n\n")
	if q != nil {
		sb.WriteString("func worker() {\n")
		q.funcBody(&sb, 20, "")
		sb.WriteString("}\n\n")
	}
	sb.WriteString("func main() {\n")
	if q != nil {
		p.funcBody(&sb, 0, "worker")
	} else {
		p.funcBody(&sb, 0, "")
	}
	sb.WriteString("}\n")
	return sb.String()
}

// twin: the same program with every deep inc/dec replaced by `x = x + 1` (used to attribute a
// failure to the IncDec-scope defect: the twin must pass)
func twinStmts(b []*stmt) []*stmt {
	var r []*stmt
	for _, s := range b {
		c := *s
		if (s.k == "inc" || s.k == "dec") && s.deep {
			c = stmt{k: "asg", x: s.x, e: &expr{k: "add", a: &expr{k: "var", n: s.x}, b: &expr{k: "lit", n: 1}}}
		}
		c.t = twinStmts(s.t)
		c.el = twinStmts(s.el)
		r = append(r, &c)
	}
	return r
}

// redeclVariant: a copy of p with one `:=` inserted that names a variable already declared in the same
// block (alone, or together with a new name — Go's partial re-declaration). bondgo refuses both
// ("Already defined variable", /repo a87efcf) and so does the model (redeclProg). nil = no block of p
// declares anything before one of its statements.
func redeclVariant(p *prog, r *common.Rng) *prog {
	q := *p
	q.names = append([]string{}, p.names...)
	q.tags = map[string]bool{"redeclare": true}
	var top []int
	for i := range p.decls {
		top = append(top, i)
	}
	count := 0
	pick := -1
	var walk func(b []*stmt, here []int) []*stmt
	walk = func(b []*stmt, here []int) []*stmt {
		var res []*stmt
		for _, s := range b {
			if len(here) > 0 {
				if count == pick {
					x := here[r.Intn(len(here))]
					nw := len(q.names)
					lit := func() *expr { return &expr{k: "lit", n: r.Intn(200)} }
					st := &stmt{k: "def"}
					switch r.Intn(3) {
					case 0:
						st.xs, st.es = []int{x}, []*expr{lit()}
					case 1:
						q.names = append(q.names, "v"+strconv.Itoa(nw))
						st.xs, st.es = []int{x, nw}, []*expr{lit(), lit()}
					default:
						q.names = append(q.names, "v"+strconv.Itoa(nw))
						st.xs, st.es = []int{nw, x}, []*expr{lit(), &expr{k: "var", n: x}}
					}
					res = append(res, st)
				}
				count++
			}
			c := *s
			switch s.k {
			case "decl":
				here = append(append([]int{}, here...), s.x)
			case "def":
				here = append(append([]int{}, here...), s.xs...)
			case "sw":
				// clauses are left alone
			default:
				c.t = walk(s.t, nil)
				c.el = walk(s.el, nil)
			}
			res = append(res, &c)
		}
		return res
	}
	walk(p.body, top)
	if count == 0 {
		return nil
	}
	pick = r.Intn(count)
	count = 0
	q.names = append([]string{}, p.names...)
	q.body = walk(p.body, top)
	return &q
}

// scopesOK: every variable reference (by unique index) is what Go's name resolution gives for the
// printed name at that point, and no block declares a name twice.  Guards the two printers.
func (p *prog) scopesOK() bool {
	ok := true
	var scope []int
	resolve := func(i int) {
		for k := len(scope) - 1; k >= 0; k-- {
			if p.names[scope[k]] == p.names[i] {
				if scope[k] != i {
					ok = false
				}
				return
			}
		}
		ok = false
	}
	var ex func(e *expr)
	ex = func(e *expr) {
		if e == nil {
			return
		}
		if e.k == "var" {
			resolve(e.n)
		}
		ex(e.a)
		ex(e.b)
	}
	topHere := map[string]bool{}
	for i := range p.decls {
		topHere[p.names[i]] = true
	}
	first := true
	var blk func(b []*stmt)
	blk = func(b []*stmt) {
		mark := len(scope)
		here := map[string]bool{}
		if first {
			here = topHere // the body of main shares the scope of the top-level declarations
			first = false
		}
		for _, s := range b {
			switch s.k {
			case "decl":
				if here[p.names[s.x]] {
					ok = false
				}
				here[p.names[s.x]] = true
				scope = append(scope, s.x)
			case "asg", "inc", "dec":
				resolve(s.x)
			case "def":
				for _, e := range s.es {
					ex(e) // in the scope before the new variables
				}
				for _, x := range s.xs {
					if here[p.names[x]] {
						ok = false
					}
					here[p.names[x]] = true
					scope = append(scope, x)
				}
			case "tasg":
				for i, x := range s.xs {
					resolve(x)
					ex(s.es[i])
				}
			case "sw":
				resolve(s.x)
				for _, c := range s.cases {
					blk(c.body)
				}
			}
			for _, c := range []*stmt{s.init, s.post} {
				if c != nil {
					resolve(c.x)
					ex(c.e)
				}
			}
			ex(s.e)
			ex(s.ca)
			ex(s.cb)
			if s.t != nil {
				blk(s.t)
			}
			if s.el != nil {
				blk(s.el)
			}
		}
		scope = scope[:mark]
	}
	for i := range p.decls {
		scope = append(scope, i)
	}
	// the body of main is not a nested block for this purpose (top-level variables are in p.decls)
	mark := len(scope)
	blk(p.body)
	_ = mark
	return ok
}

func (p *prog) declStr() string {
	if len(p.decls) == 0 {
		return "-"
	}
	s := ""
	for _, d := range p.decls {
		if d {
			s += "1"
		} else {
			s += "0"
		}
	}
	return s
}

// ---------------------------------------------------------------------------------------------
// hang detection from a goroutine dump

var hdrRe = regexp.MustCompile(`^goroutine \d+ \[([^\],]*)`)

// caseBlocked: (found, allBlocked) over the goroutines whose stack mentions one of the markers.
var stackBuf = make([]byte, 1<<20)

func caseBlocked(markers []string) (int, bool) {
	buf := stackBuf
	n := runtime.Stack(buf, true)
	blocks := strings.Split(string(buf[:n]), "\n\n")
	found := 0
	all := true
	for _, b := range blocks {
		hit := false
		for _, m := range markers {
			if strings.Contains(b, m) {
				hit = true
				break
			}
		}
		if !hit {
			continue
		}
		first := b
		if i := strings.IndexByte(b, '\n'); i >= 0 {
			first = b[:i]
		}
		m := hdrRe.FindStringSubmatch(first)
		if m == nil {
			continue
		}
		if strings.Contains(first, "running") && strings.Contains(b, "caseBlocked") {
			continue // the goroutine taking the dump
		}
		found++
		st := m[1]
		if st != "chan send" && st != "chan receive" {
			all = false
		}
		if strings.Contains(b, "machineSummary") {
			// building the machine after the compiler's goroutines have finished: the worker waits (on a
			// channel) for the goroutine that captures the package's stdout, which is not a goroutine of
			// the case; that is work in progress, not a dead-lock
			all = false
		}
	}
	return found, all
}

// waitDone waits for done; returns "" when it closed, "hang" when the case's goroutines are all
// blocked on channels in two consecutive dumps, "timeout" after the overall deadline.
func waitDone(done chan struct{}, markers []string) string {
	deadline := time.Now().Add(20 * time.Second)
	tick := 2 * time.Millisecond
	strikes := 0
	for {
		select {
		case <-done:
			return ""
		case <-time.After(tick):
		}
		if tick < 16*time.Millisecond {
			tick *= 2
		}
		found, all := caseBlocked(markers)
		if found > 0 && all {
			strikes++
			if strikes >= 2 {
				// a last look: done may have closed meanwhile
				select {
				case <-done:
					return ""
				default:
				}
				return "hang"
			}
		} else {
			strikes = 0
		}
		if time.Now().After(deadline) {
			return "timeout"
		}
	}
}

// ---------------------------------------------------------------------------------------------
// in-process compile with the wiring of cmd/bondgo/bondgo.go main()

// what the compiler produced for one processor (routine)
type procRes struct {
	asm    []string
	haveAs bool
	regs   int
	ram    int
	rom    int
	ins    int
	outs   int
	ops    []string
	haveRq bool
	mach   string // summary of the machine Create_Connecting_Processor builds from the requirements
}

type compRes struct {
	chanTopo map[int][]int // requested channel topology: global channel id -> processors (Usage_Monitor's Chanr)
	procRes          // processor 0 (main)
	more    []procRes // processors 1.. (functions started with `go`)
	faulty  string
	phase   string
	exit    string
}

func (r *compRes) proc(i int) *procRes {
	if i == 0 {
		return &r.procRes
	}
	for len(r.more) < i {
		r.more = append(r.more, procRes{})
	}
	return &r.more[i-1]
}

func newConfig(w int) *bondgo.BondgoConfig {
	config := new(bondgo.BondgoConfig)
	config.Rsize = uint8(w)
	config.Basic_type = "uint" + strconv.Itoa(w)
	config.Basic_chantype = "chan uint" + strconv.Itoa(w)
	return config
}

func compileWorker(f *ast.File, config *bondgo.BondgoConfig, res *compRes, mu *sync.Mutex, done chan struct{}, usagenotify chan bondgo.UsageNotify, wantMachine bool) {
	defer func() {
		if r := recover(); r != nil {
			mu.Lock()
			res.exit = "panic:" + strings.ReplaceAll(fmt.Sprint(r), " ", "_")
			mu.Unlock()
		}
		close(done)
	}()
	setPhase := func(p string) { mu.Lock(); res.phase = p; mu.Unlock() }

	usagedone := make(chan bool)
	assignerdone := make(chan bool)
	results := new(bondgo.BondgoResults)
	results.Init_Results(config)
	messages := new(bondgo.BondgoMessages)
	messages.Init_Messages(config)
	reqmnts := new(bondgo.BondgoRequirements)
	reqmnts.Init_Requirements(config)
	go reqmnts.Usage_Monitor(usagenotify, usagedone)
	run := new(bondgo.BondgoRuninfo)
	run.Init_Runinfo(config)
	varreq := make(chan bondgo.VarReq)
	varans := make(chan bondgo.VarAns)
	go run.Var_assigner(varreq, varans, usagenotify, assignerdone)
	functs := new(bondgo.BondgoFunctions)
	functs.Init_Functions(config, messages)
	vars := make(map[string]bondgo.VarCell)
	returns := make([]bondgo.VarCell, 0)
	bgmain := &bondgo.BondgoCheck{results, config, reqmnts, run, messages, functs, usagenotify, varreq, varans, nil, nil, vars, returns, "", "", "device_0", 0}

	setPhase("walk")
	bgmain.Used <- bondgo.UsageNotify{bondgo.TR_PROC, 0, bondgo.C_DEVICE, bgmain.CurrentDevice, bondgo.I_NIL}
	ast.Walk(functs, f)
	if !bgmain.Is_faulty() {
		executable := false
		for ifuncname, ifunc := range functs.Functions {
			if ifuncname == "main" {
				ast.Walk(bgmain, ifunc.Body)
				executable = true
				break
			}
		}
		if !executable {
			bgmain.Set_faulty("main function not found.")
		}
		// the emitted lines are complete here: copy them (Write_assembly strips the <<n>> markers)
		nproc := len(bgmain.Program)
		mu.Lock()
		if !bgmain.Is_faulty() {
			for pi := 0; pi < nproc; pi++ {
				if _, ok := bgmain.Program[pi]; !ok {
					continue
				}
				txt := bgmain.Write_assembly(pi)
				pr := res.proc(pi)
				// keep blank lines: they are part of what the compiler wrote (and counted)
				pr.asm = strings.Split(strings.TrimSuffix(txt, "\n"), "\n")
				if txt == "" {
					pr.asm = nil
				}
				pr.haveAs = true
			}
		}
		mu.Unlock()
		for procid, rout := range bgmain.Program {
			bgmain.Used <- bondgo.UsageNotify{bondgo.TR_PROC, procid, bondgo.C_ROMSIZE, bondgo.S_NIL, len(rout.Lines)}
		}
		setPhase("exit-usage")
		bgmain.Used <- bondgo.UsageNotify{bondgo.TR_EXIT, 0, 0, bondgo.S_NIL, bondgo.I_NIL}
		setPhase("wait-usagedone")
		<-usagedone
		// the monitor has finished: its tables are final
		mu.Lock()
		for pi := 0; pi < nproc; pi++ {
			if pr, ok := reqmnts.Procr[pi]; ok {
				q := res.proc(pi)
				q.regs, q.ram, q.rom, q.ins, q.outs = pr.Registersize, pr.Ramsize, pr.Romsize, pr.Inputs, pr.Outputs
				q.ops = append([]string{}, pr.Opcodes...)
				q.haveRq = true
			}
		}
		res.chanTopo = map[int][]int{}
		for g, cr := range reqmnts.Chanr {
			l := append([]int{}, cr.Connected...)
			sortInts(l)
			res.chanTopo[g] = l
		}
		mu.Unlock()
		setPhase("exit-assigner")
		gent, _ := bondgo.Type_from_string(bgmain.Basic_type)
		bgmain.Reqs <- bondgo.VarReq{bondgo.REQ_EXIT, 0, bondgo.VarCell{gent, 0, 0, 0, 0, 0, 0, 0}}
		setPhase("wait-assignerdone")
		<-assignerdone
		// the machine cmd/bondgo -save-machine would write: built from the requirement tables, the
		// emitted program assembled for it (errors are printed to stdout by the package: captured)
		setPhase("machine")
		if wantMachine && os.Getenv("C12_NOMACH") == "" {
			for pi := 0; pi < nproc; pi++ {
				if _, ok := reqmnts.Procr[pi]; !ok {
					continue
				}
				mach := machineSummary(bgmain, int(config.Rsize), pi)
				mu.Lock()
				res.proc(pi).mach = mach
				mu.Unlock()
			}
		}
	}
	mu.Lock()
	if bgmain.Is_faulty() {
		res.faulty = strings.ReplaceAll(strings.TrimSpace(bgmain.Dump_log()), " ", "_")
		res.faulty = strings.ReplaceAll(res.faulty, "\n", "|")
	}
	res.phase = "done"
	mu.Unlock()
}

var stdoutMu sync.Mutex

func machineSummary(bg *bondgo.BondgoCheck, rsize int, procid int) (res string) {
	defer func() {
		if r := recover(); r != nil {
			res = "panic:" + strings.ReplaceAll(fmt.Sprint(r), " ", "_")
		}
	}()
	stdoutMu.Lock()
	defer stdoutMu.Unlock()
	saved := os.Stdout
	rd, wr, err := os.Pipe()
	if err != nil {
		return "pipe-error"
	}
	os.Stdout = wr
	captured := make(chan string, 1)
	go func() {
		buf := make([]byte, 1<<16)
		var sb strings.Builder
		for {
			n, e := rd.Read(buf)
			sb.Write(buf[:n])
			if e != nil {
				break
			}
		}
		captured <- sb.String()
	}()
	m, ok := bg.Create_Connecting_Processor(rsize, procid)
	os.Stdout = saved
	wr.Close()
	msg := strings.TrimSpace(<-captured)
	rd.Close()
	if !ok || m == nil {
		return "failed"
	}
	msg = strings.ReplaceAll(strings.ReplaceAll(msg, " ", "_"), "\n", "|")
	if msg == "" {
		msg = "-"
	}
	return fmt.Sprintf("slocs=%d R=%d L=%d O=%d N=%d M=%d msg=%s", len(m.Program.Slocs), m.Arch.R, m.Arch.L, m.Arch.O, m.Arch.N, m.Arch.M, msg)
}

func compileInProc(src string, w int, sched string) *compRes {
	res := &compRes{}
	fset := token.NewFileSet()
	f, err := parser.ParseFile(fset, "p.go", src, 0)
	if err != nil {
		res.exit = "parse-error:" + strings.ReplaceAll(err.Error(), " ", "_")
		return res
	}
	os.Setenv("VERIF_SCHED_SEED", sched)
	defer os.Setenv("VERIF_SCHED_SEED", "")
	var mu sync.Mutex
	done := make(chan struct{})
	usagenotify := make(chan bondgo.UsageNotify)
	// the machine is a function of the requirement tables and the assembly, both compared under every
	// schedule: building it once (natural schedule) is enough
	go compileWorker(f, newConfig(w), res, &mu, done, usagenotify, sched == "0")
	v := waitDone(done, []string{"main.compileWorker", "Var_assigner", "Usage_Monitor"})
	mu.Lock()
	defer mu.Unlock()
	switch {
	case v != "":
		res.exit = v + ":" + res.phase
		// rescue the blocked goroutines so that they do not pollute later dumps: drain the
		// notification channel until the worker finishes
		mu.Unlock()
		rescue(done, usagenotify)
		mu.Lock()
	case res.exit != "":
	case res.faulty != "":
		res.exit = "faulty:" + res.faulty
	default:
		res.exit = "ok"
	}
	return res
}

func rescue(done chan struct{}, usagenotify chan bondgo.UsageNotify) {
	limit := time.After(2 * time.Second)
	for {
		select {
		case <-done:
			return
		case <-usagenotify:
		case <-limit:
			return
		}
	}
}

var scheds = []string{"0", "s1:100", "s2:50"}

func emitHeader(id int, p *prog, salt int) {
	fuel := 10
	steps := 6000
	out.Line("PROG %d w=%d fuel=%d steps=%d salt=%d decls=%s body=%s", id, p.w, fuel, steps, salt, p.declStr(), blockSx(p.body))
	tags := []string{}
	for t := range p.tags {
		tags = append(tags, t)
	}
	sortStrings(tags)
	out.Line("TAG %d %s n=%d nin=%d nout=%d", id, strings.Join(tags, ","), p.nstmts, p.nin, p.nout)
}

func emitProgram(id int, p *prog, src string, salt int, extraSched string) {
	emitHeader(id, p, salt)
	emitCompiles([]int{id}, src, p.w, 6000, []int{salt}, extraSched)
}

// emitPair: main program p with a function q started by `go` on a second processor
func emitPair(id, qid int, p, q *prog, src string, salt int, extraSched string) {
	emitHeader(id, p, salt)
	emitHeader(qid, q, salt+7)
	emitCompiles([]int{id, qid}, src, p.w, 6000, []int{salt, salt + 7}, extraSched)
}

func sortStrings(a []string) {
	for i := 1; i < len(a); i++ {
		for j := i; j > 0 && a[j] < a[j-1]; j-- {
			a[j], a[j-1] = a[j-1], a[j]
		}
	}
}

// emitCompiles compiles src under the schedules and prints, for every processor pi with ids[pi] >= 0,
// the lines of that processor under the case id ids[pi].
func emitCompiles(ids []int, src string, w, steps int, salts []int, extraSched string) {
	first := make([]*procRes, len(ids))
	ss := append([]string{}, scheds...)
	if v := os.Getenv("C12_SCHEDS"); v != "" {
		ss = strings.Split(v, ",")
		extraSched = ""
	}
	if extraSched != "" {
		ss = append(ss, extraSched)
	}
	for _, sc := range ss {
		r := compileInProc(src, w, sc)
		for pi, id := range ids {
			if id < 0 {
				continue
			}
			pr := r.proc(pi)
			same := 1
			if pr.haveAs {
				if first[pi] == nil {
					cp := *pr
					first[pi] = &cp
					out.Line("IMPL %d w=%d steps=%d salt=%d asm=%s", id, w, steps, salts[pi], strings.Join(pr.asm, ";"))
				} else if strings.Join(first[pi].asm, ";") != strings.Join(pr.asm, ";") {
					same = 0
					out.Line("IMPLDIFF %d sched=%s asm=%s", id, sc, strings.Join(pr.asm, ";"))
				}
			}
			if pr.haveRq {
				out.Line("IREQ %d sched=%s regs=%d ram=%d rom=%d ins=%d outs=%d ops=%s", id, sc, pr.regs, pr.ram, pr.rom, pr.ins, pr.outs, strings.Join(pr.ops, ","))
			}
			if pr.mach != "" {
				nonblank := 0
				for _, l := range pr.asm {
					if strings.TrimSpace(l) != "" {
						nonblank++
					}
				}
				out.Line("IMACH %d sched=%s lines=%d %s", id, sc, nonblank, pr.mach)
			}
			out.Line("ISCH %d sched=%s exit=%s same=%d", id, sc, r.exit, same)
		}
		out.Flush()
	}
}

// ---------------------------------------------------------------------------------------------
// protocol scenarios: the harness is the visitor

type protoRes struct {
	ids    []string
	phase  string
	regs   int
	ram    int
	haveRq bool
	exit   string
}

func protoWorker(acts []string, res *protoRes, mu *sync.Mutex, done chan struct{}, usagenotify chan bondgo.UsageNotify) {
	defer func() {
		if r := recover(); r != nil {
			mu.Lock()
			res.exit = "panic:" + strings.ReplaceAll(fmt.Sprint(r), " ", "_")
			mu.Unlock()
		}
		close(done)
	}()
	config := newConfig(8)
	usagedone := make(chan bool)
	assignerdone := make(chan bool)
	reqmnts := new(bondgo.BondgoRequirements)
	reqmnts.Init_Requirements(config)
	go reqmnts.Usage_Monitor(usagenotify, usagedone)
	run := new(bondgo.BondgoRuninfo)
	run.Init_Runinfo(config)
	reqs := make(chan bondgo.VarReq)
	answers := make(chan bondgo.VarAns)
	go run.Var_assigner(reqs, answers, usagenotify, assignerdone)
	gent, _ := bondgo.Type_from_string(config.Basic_type)
	chant, _ := bondgo.Type_from_string(config.Basic_chantype)
	regCells := map[int]bondgo.VarCell{}
	memCells := map[int]bondgo.VarCell{}
	var ioCell bondgo.VarCell
	setPhase := func(p string) { mu.Lock(); res.phase = p; mu.Unlock() }
	addId := func(s string) { mu.Lock(); res.ids = append(res.ids, s); mu.Unlock() }
	ask := func(r bondgo.VarReq) bondgo.VarAns {
		reqs <- r
		return <-answers
	}
	for i, a := range acts {
		setPhase(fmt.Sprintf("act%d:%s", i, a))
		switch {
		case a == "u":
			usagenotify <- bondgo.UsageNotify{bondgo.TR_PROC, 0, bondgo.C_OPCODE, "nop", bondgo.I_NIL}
			addId("-")
		case a == "nr":
			ans := ask(bondgo.VarReq{bondgo.REQ_NEW, 0, bondgo.VarCell{gent, bondgo.REGISTER, 0, 0, 0, 0, 0, 0}})
			regCells[ans.Cell.Id] = ans.Cell
			addId(strconv.Itoa(ans.Cell.Id))
		case a == "nm":
			ans := ask(bondgo.VarReq{bondgo.REQ_NEW, 0, bondgo.VarCell{gent, bondgo.MEMORY, 0, 0, 0, 0, 0, 0}})
			memCells[ans.Cell.Id] = ans.Cell
			addId(strconv.Itoa(ans.Cell.Id))
		case strings.HasPrefix(a, "ni"), strings.HasPrefix(a, "no"):
			g, _ := strconv.Atoi(a[2:])
			t := bondgo.INPUT
			if a[1] == 'o' {
				t = bondgo.OUTPUT
			}
			ans := ask(bondgo.VarReq{bondgo.REQ_NEW, 0, bondgo.VarCell{gent, t, 0, 0, 0, g, g, g}})
			ioCell = ans.Cell
			addId(strconv.Itoa(ans.Cell.Id))
		case strings.HasPrefix(a, "rr"):
			k, _ := strconv.Atoi(a[2:])
			ask(bondgo.VarReq{bondgo.REQ_REMOVE, 0, regCells[k]})
			delete(regCells, k)
			addId("-")
		case strings.HasPrefix(a, "rm"):
			k, _ := strconv.Atoi(a[2:])
			ask(bondgo.VarReq{bondgo.REQ_REMOVE, 0, memCells[k]})
			delete(memCells, k)
			addId("-")
		case a == "ri", a == "ro":
			ask(bondgo.VarReq{bondgo.REQ_REMOVE, 0, ioCell})
			addId("-")
		case a == "nc":
			ask(bondgo.VarReq{bondgo.REQ_NEW, 0, bondgo.VarCell{chant, bondgo.CHANNEL, 0, 0, 0, 0, 0, 0}})
			addId("-")
		case strings.HasPrefix(a, "at"):
			g, _ := strconv.Atoi(a[2:])
			ask(bondgo.VarReq{bondgo.REQ_ATTACH, 1, bondgo.VarCell{chant, bondgo.CHANNEL, 0, 0, 0, g, g, g}})
			addId("-")
		}
	}
	setPhase("exit-usage")
	usagenotify <- bondgo.UsageNotify{bondgo.TR_EXIT, 0, 0, bondgo.S_NIL, bondgo.I_NIL}
	setPhase("wait-usagedone")
	<-usagedone
	mu.Lock()
	if pr, ok := reqmnts.Procr[0]; ok {
		res.regs, res.ram, res.haveRq = pr.Registersize, pr.Ramsize, true
	}
	mu.Unlock()
	setPhase("exit-assigner")
	reqs <- bondgo.VarReq{bondgo.REQ_EXIT, 0, bondgo.VarCell{gent, 0, 0, 0, 0, 0, 0, 0}}
	setPhase("wait-assignerdone")
	<-assignerdone
	setPhase("done")
}

func runProto(acts []string, sched string) *protoRes {
	res := &protoRes{}
	os.Setenv("VERIF_SCHED_SEED", sched)
	defer os.Setenv("VERIF_SCHED_SEED", "")
	var mu sync.Mutex
	done := make(chan struct{})
	usagenotify := make(chan bondgo.UsageNotify)
	go protoWorker(acts, res, &mu, done, usagenotify)
	v := waitDone(done, []string{"main.protoWorker", "Var_assigner", "Usage_Monitor"})
	mu.Lock()
	if v != "" {
		res.exit = v + ":" + res.phase
		mu.Unlock()
		rescue(done, usagenotify)
		mu.Lock()
	} else if res.exit == "" {
		res.exit = "ok"
	}
	mu.Unlock()
	return res
}

func genActs(r *common.Rng) []string {
	n := 1 + r.Intn(10)
	var acts []string
	regs := map[int]bool{}
	mems := map[int]bool{}
	lowest := func(m map[int]bool) int {
		for i := 0; ; i++ {
			if !m[i] {
				return i
			}
		}
	}
	nio := 0
	gid := 1
	chans := 0
	haveIO := false
	for i := 0; i < n; i++ {
		c := r.Intn(14)
		switch {
		case c < 3:
			acts = append(acts, "u")
		case c < 6:
			regs[lowest(regs)] = true
			acts = append(acts, "nr")
		case c < 7:
			mems[lowest(mems)] = true
			acts = append(acts, "nm")
		case c < 9 && len(regs) > 0:
			var ks []int
			for k := range regs {
				ks = append(ks, k)
			}
			sortInts(ks)
			k := ks[r.Intn(len(ks))]
			delete(regs, k)
			acts = append(acts, "rr"+strconv.Itoa(k))
		case c < 10 && len(mems) > 0:
			var ks []int
			for k := range mems {
				ks = append(ks, k)
			}
			sortInts(ks)
			k := ks[r.Intn(len(ks))]
			delete(mems, k)
			acts = append(acts, "rm"+strconv.Itoa(k))
		case c < 12 && nio < 5:
			nio++
			haveIO = true
			g := 0
			if r.Bool() {
				g = gid
				gid++
			}
			if r.Bool() {
				acts = append(acts, "ni"+strconv.Itoa(g))
			} else {
				acts = append(acts, "no"+strconv.Itoa(g))
			}
		case c < 13 && haveIO:
			acts = append(acts, "ri")
		default:
			if chans > 0 && r.Bool() {
				acts = append(acts, "at"+strconv.Itoa(r.Intn(chans)))
			} else if chans < 3 {
				chans++
				acts = append(acts, "nc")
			} else {
				acts = append(acts, "u")
			}
		}
	}
	return acts
}

func sortInts(a []int) {
	for i := 1; i < len(a); i++ {
		for j := i; j > 0 && a[j] < a[j-1]; j-- {
			a[j], a[j-1] = a[j-1], a[j]
		}
	}
}

var protoScheds = []string{"0", "s1:300", "s2:150", "s4:300"}

func emitProto(id int, acts []string, extra string) {
	out.Line("PROTO %d acts=%s", id, strings.Join(acts, ","))
	ss := append([]string{}, protoScheds...)
	if extra != "" {
		ss = append(ss, extra)
	}
	for _, sc := range ss {
		r := runProto(acts, sc)
		rq := "regs=- ram=-"
		if r.haveRq {
			rq = fmt.Sprintf("regs=%d ram=%d", r.regs, r.ram)
		}
		out.Line("PIMPL %d sched=%s result=%s ids=%s %s", id, sc, r.exit, strings.Join(r.ids, ","), rq)
		out.Flush()
	}
}

// ---------------------------------------------------------------------------------------------

// ---------------------------------------------------------------------------------------------
// several channels, several goroutines

type chanProg struct {
	w        int
	nch      int
	prods    [][]int // per goroutine: the channels it is given, in parameter order
	sends    [][]int // per goroutine: its sends, as indices into its parameter list
	values   [][]int // per goroutine: the value of each send
	recvs    []int   // main: the channels it receives from, in order
	rvals    []int   // the value each receive delivers under Go semantics
	stmts    []chanStmt
	useIn    bool // main declares the input i0 (read next to a receive)
	isSel    bool // main waits with `select` (genSelProg)
	expected []int
}

// one statement of main: `x = <expr>; IOWrite(o0, x)` where <expr> holds one or two receives (operands are
// evaluated left to right in Go: two receives in one expression happen in source order) or a receive and
// an IORead
type chanStmt struct {
	form int // 0: <-a   1: <-a*k + <-b   2: <-a + <-b*k   3: <-a*k + IORead(i0)   4: IORead(i0) + <-a*k
	a, b int // indices into recvs
	k    int
}

// the constant the channel interpreter delivers on input port 0
const chanInputValue = 5

func genChanProg(r *common.Rng) *chanProg {
	cp := &chanProg{w: []int{8, 16, 32}[r.Intn(3)], nch: 2 + r.Intn(3)}
	// every goroutine owns a disjoint, non-empty subset of the channels; some channels may stay unused
	perm := make([]int, cp.nch)
	for i := range perm {
		perm[i] = i
	}
	for i := len(perm) - 1; i > 0; i-- {
		j := r.Intn(i + 1)
		perm[i], perm[j] = perm[j], perm[i]
	}
	np := 1 + r.Intn(3)
	if np > cp.nch {
		np = cp.nch
	}
	used := 0
	for g := 0; g < np; g++ {
		k := 1
		if cp.nch-used-(np-g-1) > 1 && r.Bool() {
			k = 2
		}
		cp.prods = append(cp.prods, append([]int{}, perm[used:used+k]...)) // shuffled: not the declaration order
		used += k
	}
	val := 1
	for g := range cp.prods {
		n := 1 + r.Intn(4)
		var sd, vs []int
		for i := 0; i < n; i++ {
			k := r.Intn(len(cp.prods[g]))
			if i > 0 && r.Bool() {
				k = sd[i-1] // runs of sends on one channel: two receives from it in one expression
			}
			sd = append(sd, k)
			vs = append(vs, (val*7+3)%250+1)
			val++
		}
		cp.sends = append(cp.sends, sd)
		cp.values = append(cp.values, vs)
	}
	// main receives in a random merge of the goroutines' send sequences (no deadlock under Go semantics)
	pos := make([]int, np)
	for {
		var ready []int
		for g := 0; g < np; g++ {
			if pos[g] < len(cp.sends[g]) {
				ready = append(ready, g)
			}
		}
		if len(ready) == 0 {
			break
		}
		g := ready[r.Intn(len(ready))]
		cp.recvs = append(cp.recvs, cp.prods[g][cp.sends[g][pos[g]]])
		cp.rvals = append(cp.rvals, cp.values[g][pos[g]])
		pos[g]++
	}
	// group the receives into statements
	mask := (uint64(1) << uint(cp.w)) - 1
	for i := 0; i < len(cp.recvs); {
		st := chanStmt{a: i, k: 2 + r.Intn(8)}
		var v uint64
		switch {
		case i+1 < len(cp.recvs) && r.Chance(1, 2):
			st.form, st.b = 1+r.Intn(2), i+1
			if st.form == 1 {
				v = uint64(cp.rvals[i])*uint64(st.k) + uint64(cp.rvals[i+1])
			} else {
				v = uint64(cp.rvals[i]) + uint64(cp.rvals[i+1])*uint64(st.k)
			}
			i += 2
		case r.Chance(1, 5):
			st.form = 3 + r.Intn(2)
			cp.useIn = true
			v = uint64(cp.rvals[i])*uint64(st.k) + chanInputValue
			i++
		default:
			v = uint64(cp.rvals[i])
			i++
		}
		cp.stmts = append(cp.stmts, st)
		cp.expected = append(cp.expected, int(v&mask))
	}
	return cp
}

// genSelProg: one producer with two channels sending a fixed sequence, main waits with `select` — both
// channels in every select, `case v = <-c:` into a RAM variable and into a register variable (which
// variable listens on which channel changes from select to select). One sender, sequential: exactly one
// case can happen at a time, so Go's result is determined.
func genSelProg(r *common.Rng) *chanProg {
	cp := &chanProg{w: []int{8, 16, 32}[r.Intn(3)], nch: 2 + r.Intn(2), isSel: true}
	perm := []int{0, 1, 2}[:cp.nch]
	for i := len(perm) - 1; i > 0; i-- {
		j := r.Intn(i + 1)
		perm[i], perm[j] = perm[j], perm[i]
	}
	cp.prods = [][]int{{perm[0], perm[1]}}
	n := 2 + r.Intn(4)
	var sd, vs []int
	for i := 0; i < n; i++ {
		sd = append(sd, r.Intn(2))
		vs = append(vs, (i*37+11+r.Intn(5))%200+1)
	}
	cp.sends, cp.values = [][]int{sd}, [][]int{vs}
	mask := (uint64(1) << uint(cp.w)) - 1
	for i := 0; i < n; i++ {
		st := chanStmt{form: r.Intn(4), k: r.Intn(3)} // form bit 0: which variable listens on the producer's first channel; bit 1: case order
		cp.stmts = append(cp.stmts, st)
		cp.expected = append(cp.expected, int((uint64(vs[i])+uint64(st.k))&mask))
	}
	return cp
}

func (cp *chanProg) selSource() string {
	var sb strings.Builder
	sb.WriteString("package main\n\nimport (\n\t\"bondgo\"\n)\n\n")
	fmt.Fprintf(&sb, "func prod0(p0 chan uint%d, p1 chan uint%d) {\n", cp.w, cp.w)
	for i, k := range cp.sends[0] {
		fmt.Fprintf(&sb, "\tp%d <- %d\n", k, cp.values[0][i])
	}
	sb.WriteString("}\n\nfunc main() {\n\tvar o0 bondgo.Output\n")
	for c := 0; c < cp.nch; c++ {
		fmt.Fprintf(&sb, "\tvar c%d chan uint%d\n", c, cp.w)
	}
	fmt.Fprintf(&sb, "\tvar x uint%d\n\tvar reg_y uint%d\n\to0 = bondgo.Make(bondgo.Output, 1)\n", cp.w, cp.w)
	fmt.Fprintf(&sb, "\tgo prod0(c%d, c%d)\n", cp.prods[0][0], cp.prods[0][1])
	for _, st := range cp.stmts {
		vars := []string{"x", "reg_y"}
		if st.form&1 == 1 {
			vars = []string{"reg_y", "x"}
		}
		cases := []int{0, 1}
		if st.form&2 == 2 {
			cases = []int{1, 0}
		}
		sb.WriteString("\tselect {\n")
		for _, ci := range cases {
			e := vars[ci]
			if st.k > 0 {
				e = fmt.Sprintf("%s + %d", vars[ci], st.k)
			}
			fmt.Fprintf(&sb, "\tcase %s = <-c%d:\n\t\tbondgo.IOWrite(o0, %s)\n", vars[ci], cp.prods[0][ci], e)
		}
		sb.WriteString("\t}\n")
	}
	sb.WriteString("}\n")
	return sb.String()
}

func (cp *chanProg) source() string {
	if cp.isSel {
		return cp.selSource()
	}
	var sb strings.Builder
	sb.WriteString("package main\n\nimport (\n\t\"bondgo\"\n)\n\n")
	for g, chs := range cp.prods {
		var ps []string
		for k := range chs {
			ps = append(ps, fmt.Sprintf("p%d chan uint%d", k, cp.w))
		}
		fmt.Fprintf(&sb, "func prod%d(%s) {\n", g, strings.Join(ps, ", "))
		for i, k := range cp.sends[g] {
			fmt.Fprintf(&sb, "\tp%d <- %d\n", k, cp.values[g][i])
		}
		sb.WriteString("}\n\n")
	}
	sb.WriteString("func main() {\n\tvar o0 bondgo.Output\n")
	for c := 0; c < cp.nch; c++ {
		fmt.Fprintf(&sb, "\tvar c%d chan uint%d\n", c, cp.w)
	}
	if cp.useIn {
		sb.WriteString("\tvar i0 bondgo.Input\n")
	}
	fmt.Fprintf(&sb, "\tvar x uint%d\n\to0 = bondgo.Make(bondgo.Output, 1)\n", cp.w)
	if cp.useIn {
		sb.WriteString("\ti0 = bondgo.Make(bondgo.Input, 2)\n")
	}
	for g, chs := range cp.prods {
		var as []string
		for _, c := range chs {
			as = append(as, "c"+strconv.Itoa(c))
		}
		fmt.Fprintf(&sb, "\tgo prod%d(%s)\n", g, strings.Join(as, ", "))
	}
	for _, st := range cp.stmts {
		a := cp.recvs[st.a]
		var e string
		switch st.form {
		case 1:
			e = fmt.Sprintf("<-c%d*%d + <-c%d", a, st.k, cp.recvs[st.b])
		case 2:
			e = fmt.Sprintf("<-c%d + <-c%d*%d", a, cp.recvs[st.b], st.k)
		case 3:
			e = fmt.Sprintf("<-c%d*%d + bondgo.IORead(i0)", a, st.k)
		case 4:
			e = fmt.Sprintf("bondgo.IORead(i0) + <-c%d*%d", a, st.k)
		default:
			e = fmt.Sprintf("<-c%d", a)
		}
		fmt.Fprintf(&sb, "\tx = %s\n\tbondgo.IOWrite(o0, x)\n", e)
	}
	sb.WriteString("}\n")
	return sb.String()
}

// the topology the source implies: main (processor 0) is attached to every channel it declares,
// goroutine g (processor g+1) to the channels it is given
func (cp *chanProg) srcTopo() map[int][]int {
	t := map[int][]int{}
	for c := 0; c < cp.nch; c++ {
		t[c] = []int{0}
	}
	for g, chs := range cp.prods {
		for _, c := range chs {
			t[c] = append(t[c], g+1)
		}
	}
	for c := range t {
		sortInts(t[c])
	}
	return t
}

func topoStr(t map[int][]int) string {
	var ks []int
	for k := range t {
		ks = append(ks, k)
	}
	sortInts(ks)
	var parts []string
	for _, k := range ks {
		var ps []string
		for _, p := range t[k] {
			ps = append(ps, strconv.Itoa(p))
		}
		parts = append(parts, strconv.Itoa(k)+":"+strings.Join(ps, ","))
	}
	if len(parts) == 0 {
		return "-"
	}
	return strings.Join(parts, ";")
}

func parseTopo(s string) map[int][]int {
	t := map[int][]int{}
	if s == "-" || s == "" {
		return t
	}
	for _, part := range strings.Split(s, ";") {
		kv := strings.SplitN(part, ":", 2)
		k, _ := strconv.Atoi(kv[0])
		t[k] = []int{}
		if len(kv) == 2 && kv[1] != "" {
			for _, p := range strings.Split(kv[1], ",") {
				v, _ := strconv.Atoi(p)
				t[k] = append(t[k], v)
			}
		}
	}
	return t
}

type mproc struct {
	lines    []string
	pc       int
	regs     map[string]uint64
	mem      map[string]uint64
	waiting bool
	pend    []pendOp // the wanted writes (wwr) / reads (wrd) posted since the last wait, in posting order
	chwReg  string   // `chw r`: r receives the index (posting order) of the operation that happened
}

type pendOp struct {
	write bool
	reg   string
	glob  int
}

// runChannels interprets the emitted code of all processors.  The local channel chK of processor p is the
// K-th channel the source attaches p to (locmap, from the source: main declares c0.. in order, a goroutine
// gets its parameters in order); a rendezvous on a global channel happens only between processors the
// *requested* topology (req) attaches to it.  Returns main's outputs and "" or a deadlock / error note.
func runChannels(progs [][]string, locmap [][]int, req map[int][]int, w int, maxSteps int) ([]uint64, string) {
	mask := ^uint64(0)
	if w < 64 {
		mask = uint64(1)<<uint(w) - 1
	}
	attached := func(p, g int) bool {
		for _, q := range req[g] {
			if q == p {
				return true
			}
		}
		return false
	}
	ps := make([]*mproc, len(progs))
	for i, l := range progs {
		var nb []string
		for _, x := range l {
			if strings.TrimSpace(x) != "" {
				nb = append(nb, x)
			}
		}
		ps[i] = &mproc{lines: nb, regs: map[string]uint64{}, mem: map[string]uint64{}}
	}
	var outs []uint64
	for step := 0; step < maxSteps; step++ {
		progress := false
		// rendezvous
		// (a `chw` after several posted operations is a select: the first pair that matches happens, the
		// other posted operations of both sides are withdrawn)
		for a := range ps {
			for b := range ps {
				if a == b || !ps[a].waiting || !ps[b].waiting {
					continue
				}
			match:
				for ia, oa := range ps[a].pend {
					for ib, ob := range ps[b].pend {
						if oa.write && !ob.write && oa.glob == ob.glob && attached(a, oa.glob) && attached(b, ob.glob) {
							ps[b].regs[ob.reg] = ps[a].regs[oa.reg]
							if ps[a].chwReg != "" {
								ps[a].regs[ps[a].chwReg] = uint64(ia)
							}
							if ps[b].chwReg != "" {
								ps[b].regs[ps[b].chwReg] = uint64(ib)
							}
							ps[a].waiting, ps[b].waiting = false, false
							ps[a].pend, ps[b].pend = nil, nil
							progress = true
							break match
						}
					}
				}
			}
		}
		for pi, p := range ps {
			if p.waiting || p.pc >= len(p.lines) {
				continue
			}
			f := strings.Fields(p.lines[p.pc])
			progress = true
			switch f[0] {
			case "clr":
				p.regs[f[1]] = 0
			case "rset":
				v, _ := strconv.ParseUint(f[2], 10, 64)
				p.regs[f[1]] = v & mask
			case "cpy":
				p.regs[f[1]] = p.regs[f[2]]
			case "add":
				p.regs[f[1]] = (p.regs[f[1]] + p.regs[f[2]]) & mask
			case "mult":
				p.regs[f[1]] = (p.regs[f[1]] * p.regs[f[2]]) & mask
			case "i2r":
				p.regs[f[1]] = chanInputValue & mask
			case "r2m":
				p.mem[f[2]] = p.regs[f[1]]
			case "m2r":
				p.regs[f[1]] = p.mem[f[2]]
			case "r2o":
				if pi == 0 {
					outs = append(outs, p.regs[f[1]])
				}
			case "wwr", "wrd":
				k, err := strconv.Atoi(strings.TrimPrefix(f[2], "ch"))
				if err != nil || k >= len(locmap[pi]) {
					return outs, fmt.Sprintf("error:processor_%d_uses_%s_but_the_source_attaches_it_to_%d_channels", pi, f[2], len(locmap[pi]))
				}
				p.pend = append(p.pend, pendOp{write: f[0] == "wwr", reg: f[1], glob: locmap[pi][k]})
			case "chw":
				if len(p.pend) > 0 {
					p.waiting = true
					p.chwReg = ""
					if len(f) > 1 {
						p.chwReg = f[1]
					}
				}
			case "inc":
				p.regs[f[1]] = (p.regs[f[1]] + 1) & mask
			case "dec":
				p.regs[f[1]] = (p.regs[f[1]] - 1) & mask
			case "j", "jz":
				t, _ := strconv.Atoi(f[len(f)-1])
				if f[0] == "j" || p.regs[f[1]] == 0 {
					p.pc = t
					continue
				}
			default:
				return outs, "error:unexpected_instruction_" + f[0]
			}
			p.pc++
		}
		if !progress {
			for pi, p := range ps {
				if p.waiting {
					return outs, fmt.Sprintf("deadlock:processor_%d_waits_on_channel_%d", pi, p.pend[0].glob)
				}
			}
			return outs, ""
		}
	}
	return outs, "error:step_budget"
}

func numsStr(v []uint64) string {
	var s []string
	for _, x := range v {
		s = append(s, strconv.FormatUint(x, 10))
	}
	if len(s) == 0 {
		return "-"
	}
	return strings.Join(s, ",")
}

func emitChan(id int, src string, w int, srcTopo map[int][]int, expected string) {
	r := compileInProc(src, w, "0")
	if r.exit != "ok" {
		out.Line("CHAN %d w=%d exit=%s srctopo=%s reqtopo=- expected=%s got=-", id, w, r.exit, topoStr(srcTopo), expected)
		return
	}
	nproc := 1 + len(r.more)
	progs := make([][]string, nproc)
	locmap := make([][]int, nproc)
	for p := 0; p < nproc; p++ {
		progs[p] = r.proc(p).asm
	}
	// local channel numbering implied by the source: main's channels in declaration order = global ids;
	// a goroutine's in parameter order.  The goroutine's parameter order is recovered from srcTopo only
	// as a set, so the caller passes it through the environment of the generator: see chanLocmap
	locmap = chanLocmap
	got, note := runChannels(progs, locmap, r.chanTopo, w, 100000)
	g := numsStr(got)
	if note != "" {
		g += "|" + note
	}
	out.Line("CHAN %d w=%d exit=ok srctopo=%s reqtopo=%s expected=%s got=%s", id, w, topoStr(srcTopo), topoStr(r.chanTopo), expected, g)
}

// chanLocmap: per processor, local channel index -> global channel id, as the source implies it
var chanLocmap [][]int

func main() {
	defer out.Flush()
	if len(os.Args) < 2 {
		fmt.Fprintln(os.Stderr, "usage: c12 gen|compilefile|proto|protoreplay|probeje ...")
		os.Exit(2)
	}
	seed := common.Seed()
	switch os.Args[1] {
	case "gen":
		n, _ := strconv.Atoi(os.Args[2])
		dir := os.Args[3]
		maxstmts := 30
		if len(os.Args) > 4 {
			maxstmts, _ = strconv.Atoi(os.Args[4])
		}
		os.MkdirAll(dir, 0o755)
		r := common.NewRng(seed*1000003 + 12)
		for id := 0; id < n; id++ {
			p := genProg(r, maxstmts)
			normStmts(p.body)
			if !p.scopesOK() {
				out.Line("GENBUG %d scoping invariant of the generator violated; program skipped", id)
				continue
			}
			if r.Chance(1, 4) {
				// a second processor: a function started with `go` (no arguments: plain IO)
				q := genProgW(r, maxstmts, p.w)
				normStmts(q.body)
				if q.scopesOK() {
					q.tags["goroutine"] = true
					p.tags["go-stmt"] = true
					src := goSourcePair(p, q)
					qid := 200000 + id
					os.WriteFile(filepath.Join(dir, fmt.Sprintf("p%d.go", id)), []byte(src), 0o644)
					os.WriteFile(filepath.Join(dir, fmt.Sprintf("p%d.go", qid)), []byte(src), 0o644)
					emitPair(id, qid, p, q, src, int(seed)*131+id, strconv.Itoa(1+r.Intn(1000000)))
					continue
				}
			}
			src := p.goSource()
			os.WriteFile(filepath.Join(dir, fmt.Sprintf("p%d.go", id)), []byte(src), 0o644)
			emitProgram(id, p, src, int(seed)*131+id, strconv.Itoa(1+r.Intn(1000000)))
			if rr := common.NewRng(seed*7919 + uint64(id) + 5); rr.Chance(1, 6) {
				// the same program with a `:=` re-declaring a name of its own block: to be refused
				if q := redeclVariant(p, rr); q != nil && q.scopesOK() {
					out.Line("GENBUG %d the re-declaring variant passes the generator's scoping check", 300000+id)
				} else if q != nil {
					qsrc := q.goSource()
					os.WriteFile(filepath.Join(dir, fmt.Sprintf("p%d.go", 300000+id)), []byte(qsrc), 0o644)
					emitProgram(300000+id, q, qsrc, int(seed)*131+id, "")
				}
			}
			if p.tags["incdec-deep"] {
				q := *p
				q.body = twinStmts(p.body)
				q.tags = map[string]bool{"twin-of-" + strconv.Itoa(id): true}
				for _, t := range []string{"switch", "define-reg"} {
					if p.tags[t] {
						q.tags[t] = true
					}
				}
				qsrc := q.goSource()
				os.WriteFile(filepath.Join(dir, fmt.Sprintf("p%d.go", 100000+id)), []byte(qsrc), 0o644)
				emitProgram(100000+id, &q, qsrc, int(seed)*131+id, "")
			}
		}
	case "compilefile":
		b, err := os.ReadFile(os.Args[2])
		if err != nil {
			fmt.Fprintln(os.Stderr, err)
			os.Exit(2)
		}
		id, _ := strconv.Atoi(os.Args[3])
		w, _ := strconv.Atoi(os.Args[4])
		salt := 0
		if len(os.Args) > 5 {
			salt, _ = strconv.Atoi(os.Args[5])
		}
		proc := 0
		if len(os.Args) > 6 {
			proc, _ = strconv.Atoi(os.Args[6])
		}
		ids := make([]int, proc+1)
		salts := make([]int, proc+1)
		for i := range ids {
			ids[i] = -1
		}
		ids[proc] = id
		salts[proc] = salt
		emitCompiles(ids, string(b), w, 6000, salts, "")
	case "proto":
		n, _ := strconv.Atoi(os.Args[2])
		r := common.NewRng(seed*7919 + 5)
		for id := 0; id < n; id++ {
			emitProto(id, genActs(r), strconv.Itoa(1+r.Intn(1000000)))
		}
	case "protoreplay":
		emitProto(0, strings.Split(os.Args[2], ","), "")
	case "chan":
		n, _ := strconv.Atoi(os.Args[2])
		dir := os.Args[3]
		os.MkdirAll(dir, 0o755)
		r := common.NewRng(seed*104729 + 77)
		for id := 0; id < n; id++ {
			cp := genChanProg(r)
			if id%4 == 3 {
				cp = genSelProg(r)
			}
			src := cp.source()
			os.WriteFile(filepath.Join(dir, fmt.Sprintf("ch%d.go", id)), []byte(src), 0o644)
			chanLocmap = make([][]int, 1+len(cp.prods))
			for c := 0; c < cp.nch; c++ {
				chanLocmap[0] = append(chanLocmap[0], c)
			}
			for g, chs := range cp.prods {
				chanLocmap[g+1] = append([]int{}, chs...)
			}
			var ex []uint64
			for _, v := range cp.expected {
				ex = append(ex, uint64(v))
			}
			var lm []string
			for _, l := range chanLocmap {
				var x []string
				for _, c := range l {
					x = append(x, strconv.Itoa(c))
				}
				lm = append(lm, strings.Join(x, ","))
			}
			out.Line("CHANSRC %d locmap=%s", id, strings.Join(lm, "/"))
			emitChan(id, src, cp.w, cp.srcTopo(), numsStr(ex))
			out.Flush()
		}
	case "chanfile":
		b, err := os.ReadFile(os.Args[2])
		if err != nil {
			fmt.Fprintln(os.Stderr, err)
			os.Exit(2)
		}
		id, _ := strconv.Atoi(os.Args[3])
		w, _ := strconv.Atoi(os.Args[4])
		chanLocmap = nil
		for _, part := range strings.Split(os.Args[7], "/") {
			var l []int
			if part != "" {
				for _, c := range strings.Split(part, ",") {
					v, _ := strconv.Atoi(c)
					l = append(l, v)
				}
			}
			chanLocmap = append(chanLocmap, l)
		}
		emitChan(id, string(b), w, parseTopo(os.Args[5]), os.Args[6])
	case "probeje":
		arch := new(procbuilder.Arch)
		arch.Rsize = 8
		arch.Modes = []string{"ha"}
		arch.R = 2
		arch.O = 4
		arch.Op = []procbuilder.Opcode{procbuilder.Je{}, procbuilder.J{}}
		res := common.Guard(func() string {
			s, err := procbuilder.Je{}.Assembler(arch, []string{"r1", "r2", "5"})
			if err != nil {
				return "err"
			}
			if strings.Contains(s, "1") {
				return "0"
			}
			return "1"
		})
		out.Line("JE stub=%s", res)
	default:
		fmt.Fprintln(os.Stderr, "unknown mode")
		os.Exit(2)
	}
}
