// C14 harness: builds bmline.BasmBody values directly (public types, no hook needed), calls the
// real bmqsim.QasmToBmMatrices / RunSoftwareSimulation / bmmatrix.MatrixProductComplex and dumps
// everything for the Lean oracle (lean/Oracle/C14.lean), one case after another:
//
//	C <id> <n>
//	G <name> <qubit index>... [A=<float64 bits of float64(float32(angle))> T=<angle text>]
//	M <k> <dim> <nnz> (<i> <j> <reBits> <imBits>)*      k-th returned matrix, non-zero entries
//	P <dim> <nnz> (...)                                  M_last*...*M_0 by MatrixProductComplex
//	S <k> <nnz> (<i> <reBits> <imBits>)*                 simulation output for basis state k
//	E <text>                                             error or panic:<msg>
//	X
//
// Usage: c14 gen <count> <maxdepth> | placements <maxn> | pairs <maxn> <cxonly 0|1> | angles |
//
//	layers <minn> <maxn> | replay <file>   (file: first line n, then one gate per line)
package main

import (
	"bufio"
	"fmt"
	"math"
	"os"
	"strconv"
	"strings"

	"bmvh/common"

	"github.com/BondMachineHQ/BondMachine/pkg/bmline"
	"github.com/BondMachineHQ/BondMachine/pkg/bmmatrix"
	"github.com/BondMachineHQ/BondMachine/pkg/bmmeta"
	"github.com/BondMachineHQ/BondMachine/pkg/bmqsim"
)

var out = common.NewOut(os.Stdout)

type gate struct {
	name  string
	args  []int
	angle string // "" for non-parametric
}

var one1 = []string{"h", "x", "y", "z", "s", "t", "sx", "p"}
var par1 = []string{"rx", "ry", "rz", "r"}
var two = []string{"cx", "cz", "swap", "iswap", "dcnot"}

func isPar(name string) bool {
	for _, p := range par1 {
		if p == name {
			return true
		}
	}
	return false
}

func el(s string) *bmline.BasmElement { e := &bmline.BasmElement{}; e.SetValue(s); return e }

func mkBody(n int, gs []gate) *bmline.BasmBody {
	qs := make([]string, n)
	for i := range qs {
		qs[i] = fmt.Sprintf("q%d", i)
	}
	var m *bmmeta.BasmMeta
	m = m.SetMeta("qbits", strings.Join(qs, ":"))
	b := &bmline.BasmBody{BasmMeta: m}
	for _, g := range gs {
		bl := &bmline.BasmLine{Operation: el(g.name)}
		for _, a := range g.args {
			bl.Elements = append(bl.Elements, el(fmt.Sprintf("q%d", a)))
		}
		if g.angle != "" {
			bl.Elements = append(bl.Elements, el(g.angle))
		}
		b.Lines = append(b.Lines, bl)
	}
	return b
}

func bits(f float32) string { return strconv.FormatUint(math.Float64bits(float64(f)), 10) }

func dumpMat(sb *strings.Builder, m *bmmatrix.BmMatrixSquareComplex) {
	nnz := 0
	for i := 0; i < m.N; i++ {
		for j := 0; j < m.N; j++ {
			if m.Data[i][j].Real != 0 || m.Data[i][j].Imag != 0 {
				nnz++
			}
		}
	}
	fmt.Fprintf(sb, "%d %d", m.N, nnz)
	for i := 0; i < m.N; i++ {
		for j := 0; j < m.N; j++ {
			c := m.Data[i][j]
			if c.Real != 0 || c.Imag != 0 {
				fmt.Fprintf(sb, " %d %d %s %s", i, j, bits(c.Real), bits(c.Imag))
			}
		}
	}
}

var caseNo = 0

func runCase(tag string, n int, gs []gate) {
	caseNo++
	out.Line("C %s%d %d", tag, caseNo, n)
	for _, g := range gs {
		s := "G " + g.name
		for _, a := range g.args {
			s += " " + strconv.Itoa(a)
		}
		if g.angle != "" {
			f, _ := strconv.ParseFloat(g.angle, 32)
			s += " A=" + strconv.FormatUint(math.Float64bits(float64(float32(f))), 10) + " T=" + g.angle
		}
		out.Line("%s", s)
	}
	var lines []string
	res := common.Guard(func() string {
		sim := new(bmqsim.BmQSimulator)
		sim.BmQSimulatorInit()
		ms, err := sim.QasmToBmMatrices(mkBody(n, gs))
		if err != nil {
			return "error:" + err.Error()
		}
		for k, m := range ms {
			if m == nil {
				return "error:nil matrix"
			}
			var sb strings.Builder
			fmt.Fprintf(&sb, "M %d ", k)
			dumpMat(&sb, m)
			lines = append(lines, sb.String())
		}
		if len(ms) == 0 {
			return ""
		}
		N := 1 << uint(n)
		for _, m := range ms {
			if m.N != N {
				return "" // wrong size: the oracle reports it from the M lines
			}
		}
		// product as cmd/bmqsim computes it
		mm := ms[len(ms)-1]
		for i := len(ms) - 2; i >= 0; i-- {
			mm = bmmatrix.MatrixProductComplex(mm, ms[i])
		}
		var sb strings.Builder
		sb.WriteString("P ")
		dumpMat(&sb, mm)
		lines = append(lines, sb.String())
		// software simulation on every basis state
		sim.Mtx = ms
		sim.Inputs = make([]bmqsim.StateArray, N)
		for k := 0; k < N; k++ {
			v := make([]bmmatrix.Complex32, N)
			v[k] = bmmatrix.Complex32{Real: 1, Imag: 0}
			sim.Inputs[k] = bmqsim.StateArray{Vector: v}
		}
		if err := sim.RunSoftwareSimulation(); err != nil {
			return "error:sim:" + err.Error()
		}
		for k := 0; k < N; k++ {
			var sb strings.Builder
			o := sim.Outputs[k].Vector
			nnz := 0
			for _, c := range o {
				if c.Real != 0 || c.Imag != 0 {
					nnz++
				}
			}
			fmt.Fprintf(&sb, "S %d %d", k, nnz)
			for i, c := range o {
				if c.Real != 0 || c.Imag != 0 {
					fmt.Fprintf(&sb, " %d %s %s", i, bits(c.Real), bits(c.Imag))
				}
			}
			lines = append(lines, sb.String())
		}
		return ""
	})
	if res != "" {
		out.Line("E %s", strings.ReplaceAll(res, "\n", " "))
	} else {
		for _, l := range lines {
			out.Line("%s", l)
		}
	}
	out.Line("X")
	out.Flush()
}

// ---- generators ----

// generic angle: away from the multiples of pi/2 (every entry of the gate is clearly non-zero)
func genericAngle(r *common.Rng) string {
	for {
		a := 0.1 + float64(r.Intn(61000))/10000.0
		c, s := math.Cos(a/2), math.Sin(a/2)
		c2, s2 := math.Cos(a), math.Sin(a)
		if math.Abs(c) > 0.05 && math.Abs(s) > 0.05 && math.Abs(c2) > 0.05 && math.Abs(s2) > 0.05 {
			return strconv.FormatFloat(a, 'f', 4, 64)
		}
	}
}

// fixed list of special angles: 0, multiples of pi/2 up to +-6pi (written with more digits than a
// float32 holds), angles of more than one and more than two turns (rx/ry/rz have period 4pi, the phase
// gates 2pi), negative, tiny, large, and values that lose precision when narrowed to float32
func specialAngles() []string {
	res := []string{"0", "7.0", "-8.5", "9.42477796076938", "-9.42477796076938", "6.5", "-6.5", "12.6", "-12.6",
		"13.0", "19.5", "-25.25", "31.4", "100.125", "-100.125", "1000.3", "12345.678", "-54321.0987",
		"1000000.5", "16777217", "-16777219", "0.1000000001", "1e-8", "-1e-8", "1e-3", "3.14159265358979323846",
		"6.283185307179586", "12.566370614359172", "1.5707963267948966", "0.7853981633974483",
		"3.1415927", "3.1415925", "6.2831855", "6.283185", "2.5e1", "-0.5e1"}
	for k := -12; k <= 12; k++ {
		if k != 0 {
			res = append(res, strconv.FormatFloat(float64(k)*math.Pi/2, 'f', 12, 64))
		}
	}
	return res
}

var specials = specialAngles()

// angle of a parametric gate: generic, special, near a multiple of pi/2, several turns, large
func angle(r *common.Rng) string {
	switch d := r.Intn(20); {
	case d < 8:
		return genericAngle(r)
	case d < 11:
		return specials[r.Intn(len(specials))]
	case d < 14: // near (but not at) a multiple of pi/2, up to +-8pi
		k := r.Intn(33) - 16
		deltas := []float64{1e-2, 1e-3, 1e-4, 1e-5, 1e-6}
		dl := deltas[r.Intn(len(deltas))]
		if r.Bool() {
			dl = -dl
		}
		return strconv.FormatFloat(float64(k)*math.Pi/2+dl, 'f', 9, 64)
	case d < 18: // several turns, both signs
		a := float64(r.Intn(800000))/10000.0 - 40.0
		return strconv.FormatFloat(a, 'f', 4, 64)
	default: // large magnitudes
		a := float64(r.Intn(2000000))/7.0 - 140000.0
		return strconv.FormatFloat(a, 'f', 3, 64)
	}
}

// every parametric gate with every special angle, alone on 1 qubit and in the middle of 3 qubits
func genAngles() {
	for _, k := range par1 {
		for _, a := range specials {
			runCase("a", 1, []gate{{k, []int{0}, a}})
			runCase("a", 3, []gate{{k, []int{1}, a}, {"cx", []int{2, 1}, ""}})
		}
	}
}

func rand1(r *common.Rng, q int) gate {
	if r.Chance(1, 2) {
		return gate{par1[r.Intn(len(par1))], []int{q}, angle(r)}
	}
	return gate{one1[r.Intn(len(one1))], []int{q}, ""}
}

func randGate(r *common.Rng, n int) gate {
	if n >= 2 && r.Chance(1, 2) {
		a := r.Intn(n)
		b := r.Intn(n - 1)
		if b >= a {
			b++
		}
		return gate{two[r.Intn(len(two))], []int{a, b}, ""}
	}
	return rand1(r, r.Intn(n))
}

func genRandom(r *common.Rng, count, maxdepth int) {
	for c := 0; c < count; c++ {
		n := 1 + r.Intn(5)
		if r.Chance(1, 3) {
			n = 4 + r.Intn(2)
		}
		d := 1 + r.Intn(maxdepth)
		gs := make([]gate, d)
		for i := range gs {
			gs[i] = randGate(r, n)
		}
		runCase("r", n, gs)
	}
}

func placements(n int, kinds1, kinds2 []string, r *common.Rng) []gate {
	var res []gate
	for _, k := range kinds1 {
		for a := 0; a < n; a++ {
			g := gate{k, []int{a}, ""}
			if isPar(k) {
				g.angle = angle(r)
			}
			res = append(res, g)
		}
	}
	for _, k := range kinds2 {
		for a := 0; a < n; a++ {
			for b := 0; b < n; b++ {
				if a != b {
					res = append(res, gate{k, []int{a, b}, ""})
				}
			}
		}
	}
	return res
}

func genPlacements(r *common.Rng, maxn int) {
	all1 := append(append([]string{}, one1...), par1...)
	for n := 1; n <= maxn; n++ {
		for _, g := range placements(n, all1, two, r) {
			runCase("p", n, []gate{g})
		}
	}
}

func genPairs(r *common.Rng, maxn int, cxonly bool) {
	k1, k2 := []string{"h", "rx"}, two
	if cxonly {
		k1, k2 = nil, []string{"cx"}
	}
	for n := 1; n <= maxn; n++ {
		if cxonly && n < maxn {
			continue
		}
		ps := placements(n, k1, k2, r)
		for _, g1 := range ps {
			for _, g2 := range ps {
				runCase("q", n, []gate{g1, g2})
			}
		}
	}
}

// every layer shape (ordered list of disjoint argument lists, arity 1 or 2) with random gate kinds:
// the same family the Lean enumeration `genLayers` ranges over
func genLayers(r *common.Rng, minn, maxn int) {
	for n := minn; n <= maxn; n++ {
		var rec func(free []int, cur []gate)
		rec = func(free []int, cur []gate) {
			if len(cur) > 0 {
				gs := make([]gate, len(cur))
				copy(gs, cur)
				runCase("l", n, gs)
			}
			for _, a := range free {
				rest := without(free, a, -1)
				rec(rest, append(cur, rand1(r, a)))
			}
			for _, a := range free {
				for _, b := range free {
					if a != b {
						rest := without(free, a, b)
						rec(rest, append(cur, gate{two[r.Intn(len(two))], []int{a, b}, ""}))
					}
				}
			}
		}
		free := make([]int, n)
		for i := range free {
			free[i] = i
		}
		rec(free, nil)
	}
}

func without(l []int, a, b int) []int {
	var res []int
	for _, x := range l {
		if x != a && x != b {
			res = append(res, x)
		}
	}
	return res
}

func replay(path string) {
	f, err := os.Open(path)
	if err != nil {
		fmt.Fprintln(os.Stderr, err)
		os.Exit(2)
	}
	defer f.Close()
	sc := bufio.NewScanner(f)
	n := -1
	var gs []gate
	flush := func() {
		if n >= 0 {
			runCase("f", n, gs)
		}
		gs = nil
	}
	for sc.Scan() {
		fs := strings.Fields(sc.Text())
		if len(fs) == 0 || strings.HasPrefix(fs[0], "#") {
			continue
		}
		if fs[0] == "n" && len(fs) == 2 {
			flush()
			n, _ = strconv.Atoi(fs[1])
			continue
		}
		g := gate{name: fs[0]}
		for _, a := range fs[1:] {
			if strings.HasPrefix(a, "q") {
				v, _ := strconv.Atoi(a[1:])
				g.args = append(g.args, v)
			} else {
				g.angle = a
			}
		}
		gs = append(gs, g)
	}
	flush()
}

func main() {
	r := common.NewRng(common.Seed())
	atoi := func(i int) int {
		if len(os.Args) > i {
			v, _ := strconv.Atoi(os.Args[i])
			return v
		}
		return 0
	}
	if len(os.Args) < 2 {
		fmt.Fprintln(os.Stderr, "usage: c14 gen|placements|pairs|layers|replay ...")
		os.Exit(2)
	}
	switch os.Args[1] {
	case "gen":
		genRandom(r, atoi(2), atoi(3))
	case "placements":
		genPlacements(r, atoi(2))
	case "pairs":
		genPairs(r, atoi(2), atoi(3) == 1)
	case "layers":
		genLayers(r, atoi(2), atoi(3))
	case "angles":
		genAngles()
	case "replay":
		replay(os.Args[2])
	default:
		os.Exit(2)
	}
	out.Flush()
}
