// C10 harness: applies edit histories to a real bondmachine.Bondmachine and dumps the topology
// after every edit.  Output (stdout), one history after another:
//
//	H <n>
//	E <edit>
//	S <inputs> <outputs> P=<n:m,...> I=<k.r.e,...> O=<...> L=<j|-,...> B=<out>iin;... err=<0|1>
//
// The Lean oracle reads the same stream, replays the E lines on BMV.Topology and prints its own
// S lines; the driver diffs them.  Usage: c10 gen <histories> <maxlen> | c10 exhaustive <len> |
// c10 replay <file> (file: E lines).
package main

import (
	"bufio"
	"encoding/json"
	"fmt"
	"os"
	"os/exec"
	"path/filepath"
	"sort"
	"strconv"
	"strings"

	"bmvh/common"

	"github.com/BondMachineHQ/BondMachine/pkg/bondmachine"
	"github.com/BondMachineHQ/BondMachine/pkg/procbuilder"
)

var out = common.NewOut(os.Stdout)

func newBM() *bondmachine.Bondmachine {
	bm := new(bondmachine.Bondmachine)
	bm.Rsize = 8
	bm.Init()
	return bm
}

func bondS(b bondmachine.Bond) string {
	return fmt.Sprintf("%d.%d.%d", b.Map_to, b.Res_id, b.Ext_id)
}

func dump(bm *bondmachine.Bondmachine, err bool) string {
	var sb strings.Builder
	fmt.Fprintf(&sb, "S %d %d P=", bm.Inputs, bm.Outputs)
	for i, d := range bm.Processors {
		if i > 0 {
			sb.WriteByte(',')
		}
		fmt.Fprintf(&sb, "%d:%d", bm.Domains[d].N, bm.Domains[d].M)
	}
	sb.WriteString(" I=")
	for i, b := range bm.Internal_inputs {
		if i > 0 {
			sb.WriteByte(',')
		}
		sb.WriteString(bondS(b))
	}
	sb.WriteString(" O=")
	for i, b := range bm.Internal_outputs {
		if i > 0 {
			sb.WriteByte(',')
		}
		sb.WriteString(bondS(b))
	}
	sb.WriteString(" L=")
	for i, l := range bm.Links {
		if i > 0 {
			sb.WriteByte(',')
		}
		if l == -1 {
			sb.WriteByte('-')
		} else {
			sb.WriteString(strconv.Itoa(l))
		}
	}
	// what List_bonds() itself reports (names), sorted by slot
	sb.WriteString(" B=")
	lb := bm.List_bonds()
	keys := make([]int, 0, len(lb))
	for k := range lb {
		keys = append(keys, k)
	}
	sort.Ints(keys)
	for i, k := range keys {
		if i > 0 {
			sb.WriteByte(';')
		}
		sb.WriteString(lb[k])
	}
	sb.WriteString(" SL=" + strconv.Itoa(len(bm.Shared_links)))
	if err {
		sb.WriteString(" err=1")
	} else {
		sb.WriteString(" err=0")
	}
	return sb.String()
}

// applyEdit runs one edit against the real API; returns whether the API reported an error.
func applyEdit(bm *bondmachine.Bondmachine, e string) (bool, error) {
	f := strings.Fields(e)
	if len(f) == 0 {
		return false, fmt.Errorf("empty edit")
	}
	atoi := func(s string) int { v, _ := strconv.Atoi(s); return v }
	switch f[0] {
	case "ai":
		_, err := bm.Add_input()
		return err != nil, nil
	case "di":
		return bm.Del_input(atoi(f[1])) != nil, nil
	case "ao":
		_, err := bm.Add_output()
		return err != nil, nil
	case "do":
		return bm.Del_output(atoi(f[1])) != nil, nil
	case "ap":
		m := new(procbuilder.Machine)
		m.Arch.Rsize = bm.Rsize
		m.Arch.Modes = []string{"ha"}
		m.Arch.N = uint8(atoi(f[1]))
		m.Arch.M = uint8(atoi(f[2]))
		bm.Domains = append(bm.Domains, m)
		_, err := bm.Add_processor(len(bm.Domains) - 1)
		return err != nil, nil
	case "apr":
		// a processor built from an EXISTING domain of that shape when there is one (so that the
		// number of processors and the number of domains drift apart), else like "ap"
		n, mm := uint8(atoi(f[1])), uint8(atoi(f[2]))
		for d, dom := range bm.Domains {
			if dom.N == n && dom.M == mm {
				_, err := bm.Add_processor(d)
				return err != nil, nil
			}
		}
		m := new(procbuilder.Machine)
		m.Arch.Rsize = bm.Rsize
		m.Arch.Modes = []string{"ha"}
		m.Arch.N = n
		m.Arch.M = mm
		bm.Domains = append(bm.Domains, m)
		_, err := bm.Add_processor(len(bm.Domains) - 1)
		return err != nil, nil
	case "adom":
		// a domain nobody instantiates (yet): no topology effect
		m := new(procbuilder.Machine)
		m.Arch.Rsize = bm.Rsize
		m.Arch.Modes = []string{"ha"}
		m.Arch.N = uint8(atoi(f[1]))
		m.Arch.M = uint8(atoi(f[2]))
		bm.Domains = append(bm.Domains, m)
		return false, nil
	case "ab":
		bm.Add_bond([]string{f[1], f[2]})
		return false, nil
	case "db":
		return bm.Del_bond(atoi(f[1])) != nil, nil
	case "at":
		return bm.Attach_benchmark_core([]string{f[1], f[2]}) != nil, nil
	case "at2":
		return bm.AttachBenchmarkCoreV2([]string{f[1], f[2]}) != nil, nil
	}
	return false, fmt.Errorf("unknown edit %q", e)
}

func runHistory(id int, edits []string) {
	out.Line("H %d", id)
	bm := newBM()
	for _, e := range edits {
		out.Line("E %s", e)
		res := common.Guard(func() string {
			isErr, perr := applyEdit(bm, e)
			if perr != nil {
				return "bad-edit " + perr.Error()
			}
			return dump(bm, isErr)
		})
		out.Line("%s", res)
		if strings.HasPrefix(res, "panic") || strings.HasPrefix(res, "bad-edit") {
			break
		}
	}
	out.Flush()
}

// ---------- generation ----------

type shadow struct { // just enough bookkeeping to aim the generator at interesting endpoints
	inputs, outputs int
	procs           [][2]int
	slots           int
}

func (s *shadow) inName(r *common.Rng) string { // an internal input name (a sink)
	k := r.Intn(10)
	switch {
	case k < 4 && s.outputs > 0:
		return "o" + strconv.Itoa(r.Intn(s.outputs+1)) // sometimes one past the end
	case k < 9 && len(s.procs) > 0:
		p := r.Intn(len(s.procs))
		return fmt.Sprintf("p%di%d", p, r.Intn(s.procs[p][0]+1))
	}
	return "o" + strconv.Itoa(r.Intn(4))
}

func (s *shadow) outName(r *common.Rng) string { // an internal output name (a driver)
	k := r.Intn(10)
	switch {
	case k < 4 && s.inputs > 0:
		return "i" + strconv.Itoa(r.Intn(s.inputs+1))
	case k < 9 && len(s.procs) > 0:
		p := r.Intn(len(s.procs))
		return fmt.Sprintf("p%do%d", p, r.Intn(s.procs[p][1]+1))
	}
	return "i" + strconv.Itoa(r.Intn(4))
}

func genHistory(r *common.Rng, maxlen int) []string {
	n := 1 + r.Intn(maxlen)
	s := &shadow{}
	var es []string
	for len(es) < n {
		k := r.Intn(100)
		switch {
		case k < 12:
			es = append(es, "ai")
			s.inputs++
		case k < 24:
			es = append(es, "ao")
			s.outputs++
			s.slots++
		case k < 36:
			a, b := r.Intn(4), r.Intn(4)
			op := "ap"
			if r.Chance(1, 3) {
				op = "apr"
				if len(s.procs) > 0 && r.Bool() { // the shape of an earlier processor: its domain is reused
					q := s.procs[r.Intn(len(s.procs))]
					a, b = q[0], q[1]
				}
			}
			if r.Chance(1, 8) {
				es = append(es, fmt.Sprintf("adom %d %d", r.Intn(4), r.Intn(4)))
			}
			es = append(es, fmt.Sprintf("%s %d %d", op, a, b))
			s.procs = append(s.procs, [2]int{a, b})
			s.slots += a
		case k < 62:
			a, b := s.inName(r), s.outName(r)
			if r.Bool() {
				a, b = b, a
			}
			if r.Chance(1, 25) { // two sinks, two drivers, or the same name twice
				b = a
			}
			es = append(es, "ab "+a+" "+b)
		case k < 74:
			v := r.Intn(s.inputs + 2)
			es = append(es, "di "+strconv.Itoa(v))
			if v < s.inputs {
				s.inputs--
			}
		case k < 86:
			v := r.Intn(s.outputs + 2)
			es = append(es, "do "+strconv.Itoa(v))
			if v < s.outputs {
				s.outputs--
				s.slots--
			}
		case k < 93:
			es = append(es, "db "+strconv.Itoa(r.Intn(s.slots+2)))
		default:
			a, b := s.outName(r), s.outName(r)
			op := "at"
			if r.Bool() {
				op = "at2"
			}
			es = append(es, op+" "+a+" "+b)
			// (shadow only approximates: attach succeeds only if both names exist)
		}
	}
	return es
}

// alphabet for the exhaustive enumeration of short histories
var alphabet = []string{
	"ai", "ao", "ap 1 1", "ap 2 1", "di 0", "di 1", "do 0", "do 1",
	"ab o0 i0", "ab o1 i1", "ab p0i0 i1", "ab p0o0 o1", "ab p1i1 p0o0", "db 0", "db 1", "at i0 p0o0",
	"apr 1 1", "adom 2 1",
}

func exhaustive(depth int) int {
	id := 0
	var rec func(prefix []string, d int)
	rec = func(prefix []string, d int) {
		if d == 0 {
			runHistory(id, prefix)
			id++
			return
		}
		for _, a := range alphabet {
			rec(append(append([]string{}, prefix...), a), d-1)
		}
	}
	for d := 1; d <= depth; d++ {
		rec(nil, d)
	}
	return id
}

// ---------- command line layer (cmd/bondmachine) ----------

func cliArgs(e string) []string {
	f := strings.Fields(e)
	switch f[0] {
	case "addin":
		return []string{"-add-inputs", f[1]}
	case "addout":
		return []string{"-add-outputs", f[1]}
	case "delin":
		return []string{"-del-inputs", f[1]}
	case "delout":
		return []string{"-del-outputs", f[1]}
	case "addbond":
		return []string{"-add-bond", f[1] + "," + f[2]}
	case "delbonds":
		return []string{"-del-bonds", f[1]}
	case "addproc": // addproc <domain> <n> <m> (n, m: the domain's shape, for the model)
		return []string{"-add-processor", f[1]}
	case "attach":
		return []string{"-attach-benchmark-core", f[1] + "," + f[2]}
	case "attach2":
		return []string{"-attach-benchmark-core-v2", f[1] + "," + f[2]}
	}
	return nil
}

func idList(r *common.Rng, limit int) string {
	n := 1 + r.Intn(4)
	var l []string
	for i := 0; i < n; i++ {
		l = append(l, strconv.Itoa(r.Intn(limit+2)))
	}
	if r.Chance(1, 3) && len(l) > 1 { // a repeated id
		l[len(l)-1] = l[0]
	}
	return strings.Join(l, ",")
}

// runCliHistory builds a machine through the API (edits printed as usual), saves it, then drives
// the real cmd/bondmachine binary on the file; after every invocation the file is loaded back.
func runCliHistory(id int, cli string, dir string, setup []string, cedits []string) {
	out.Line("H %d", id)
	bm := newBM()
	for _, e := range setup {
		out.Line("E %s", e)
		isErr, perr := applyEdit(bm, e)
		if perr != nil {
			out.Line("bad-edit %v", perr)
			out.Flush()
			return
		}
		out.Line("%s", dump(bm, isErr))
	}
	file := filepath.Join(dir, "bm.json")
	b, err := json.Marshal(bm.Jsoner())
	if err != nil {
		out.Line("panic:json %v", err)
		out.Flush()
		return
	}
	os.WriteFile(file, b, 0644)
	exists := func(name string) bool {
		raw, _ := os.ReadFile(file)
		var bj bondmachine.Bondmachine_json
		if json.Unmarshal(raw, &bj) != nil {
			return false
		}
		for _, n := range (&bj).Dejsoner().List_internal_outputs() {
			if n == name {
				return true
			}
		}
		return false
	}
	for _, e := range cedits {
		if f := strings.Fields(e); f[0] == "attach" || f[0] == "attach2" {
			// the tool refuses the option (and exits) when a name does not exist: only valid ones are tried
			if !exists(f[1]) || !exists(f[2]) {
				continue
			}
		}
		out.Line("C %s", e)
		args := append([]string{"-bondmachine-file", file}, cliArgs(e)...)
		cmd := exec.Command(cli, args...)
		cmd.Dir = dir
		if o, err := cmd.CombinedOutput(); err != nil {
			out.Line("panic:cli %v %s", err, strings.ReplaceAll(string(o), "\n", " "))
			break
		}
		raw, _ := os.ReadFile(file)
		var bj bondmachine.Bondmachine_json
		if err := json.Unmarshal(raw, &bj); err != nil {
			out.Line("panic:load %v", err)
			break
		}
		res := common.Guard(func() string { return dump((&bj).Dejsoner(), false) })
		out.Line("%s", res)
	}
	out.Flush()
}

func genCliHistory(r *common.Rng, maxlen int) ([]string, []string) {
	s := &shadow{}
	var setup []string
	// a machine with processors first or IO first (both orders matter for the slot arithmetic)
	np := 1 + r.Intn(3)
	addProcs := func() {
		for i := 0; i < np; i++ {
			a, b := 1+r.Intn(3), 1+r.Intn(3)
			setup = append(setup, fmt.Sprintf("ap %d %d", a, b))
			s.procs = append(s.procs, [2]int{a, b})
			s.slots += a
		}
	}
	addIO := func() {
		for i, n := 0, 1+r.Intn(4); i < n; i++ {
			setup = append(setup, "ai")
			s.inputs++
		}
		for i, n := 0, 1+r.Intn(4); i < n; i++ {
			setup = append(setup, "ao")
			s.outputs++
			s.slots++
		}
	}
	if r.Bool() {
		addProcs()
		addIO()
	} else {
		addIO()
		addProcs()
	}
	for i, n := 0, 2+r.Intn(6); i < n; i++ {
		setup = append(setup, "ab "+s.inName(r)+" "+s.outName(r))
	}
	var c []string
	ndom := len(s.procs) // the setup made one domain per processor
	for i, n := 0, 1+r.Intn(maxlen); i < n; i++ {
		switch r.Intn(11) {
		case 8: // a further processor of an existing domain
			d := r.Intn(ndom)
			c = append(c, fmt.Sprintf("addproc %d %d %d", d, s.procs[d][0], s.procs[d][1]))
			s.procs = append(s.procs, s.procs[d])
			s.slots += s.procs[d][0]
		case 9, 10:
			op := "attach"
			if r.Bool() {
				op = "attach2"
			}
			// (the benchmark core brings its own domain, a processor and an output; both names must
			// exist for the tool to accept the option: the shadow only offers names that do)
			a, b := s.outName(r), s.outName(r)
			c = append(c, op+" "+a+" "+b)
			s.procs = append(s.procs, [2]int{2, 1})
			s.slots += 3
			s.outputs++
		case 0:
			k := 1 + r.Intn(2)
			c = append(c, "addin "+strconv.Itoa(k))
			s.inputs += k
		case 1:
			k := 1 + r.Intn(2)
			c = append(c, "addout "+strconv.Itoa(k))
			s.outputs += k
			s.slots += k
		case 2, 3:
			c = append(c, "delin "+idList(r, s.inputs))
		case 4, 5:
			c = append(c, "delout "+idList(r, s.outputs))
		case 6:
			c = append(c, "addbond "+s.inName(r)+" "+s.outName(r))
		default:
			c = append(c, "delbonds "+idList(r, s.slots))
		}
	}
	return setup, c
}

func main() {
	if len(os.Args) < 2 {
		fmt.Fprintln(os.Stderr, "usage: c10 gen <histories> <maxlen> | exhaustive <depth> | replay <file>")
		os.Exit(2)
	}
	switch os.Args[1] {
	case "gen":
		n, _ := strconv.Atoi(os.Args[2])
		maxlen, _ := strconv.Atoi(os.Args[3])
		r := common.NewRng(common.Seed())
		for i := 0; i < n; i++ {
			runHistory(i, genHistory(r, maxlen))
		}
	case "cli": // c10 cli <cases> <maxlen> <path of the bondmachine binary> <scratch dir>
		n, _ := strconv.Atoi(os.Args[2])
		maxlen, _ := strconv.Atoi(os.Args[3])
		r := common.NewRng(common.Seed() + 77)
		os.MkdirAll(os.Args[5], 0755)
		for i := 0; i < n; i++ {
			setup, c := genCliHistory(r, maxlen)
			runCliHistory(i, os.Args[4], os.Args[5], setup, c)
		}
	case "exhaustive":
		d, _ := strconv.Atoi(os.Args[2])
		exhaustive(d)
	case "replay":
		f, err := os.Open(os.Args[2])
		if err != nil {
			fmt.Fprintln(os.Stderr, err)
			os.Exit(2)
		}
		sc := bufio.NewScanner(f)
		var es, cs []string
		id := 0
		flush := func() {
			if len(cs) > 0 && len(os.Args) >= 5 { // a command line history: replay <file> <cli> <scratch>
				os.MkdirAll(os.Args[4], 0755)
				runCliHistory(id, os.Args[3], os.Args[4], es, cs)
				id++
			} else if len(es) > 0 {
				runHistory(id, es)
				id++
			}
			es, cs = nil, nil
		}
		for sc.Scan() {
			l := strings.TrimSpace(sc.Text())
			if strings.HasPrefix(l, "H") {
				flush()
			} else if strings.HasPrefix(l, "E ") {
				es = append(es, strings.TrimPrefix(l, "E "))
			} else if strings.HasPrefix(l, "C ") {
				cs = append(cs, strings.TrimPrefix(l, "C "))
			}
		}
		flush()
	}
	out.Flush()
}
