// C17 harness — "finished simulations leave no workers behind".
//
//	h-c17 extract <repo>        go/ast extractor -> BMV/Gen/GoStmts.lean on stdout (extract.go)
//	h-c17 run <quick|thorough>  batches of simulations / assemblies, goroutines per creation site (run.go)
//	h-c17 replay <mode,n,k,machine>   one batch
package main

import (
	"fmt"
	"os"
)

func main() {
	if len(os.Args) >= 3 {
		switch os.Args[1] {
		case "extract":
			s, err := extract(os.Args[2])
			if err != nil {
				fmt.Fprintln(os.Stderr, "extract:", err)
				os.Exit(2)
			}
			fmt.Print(s)
			return
		case "run":
			runAll(os.Args[2])
			return
		case "replay":
			runReplay(os.Args[2])
			return
		}
	}
	fmt.Fprintln(os.Stderr, "usage: h-c17 extract <repo> | run <quick|thorough> | replay <mode,n,k,machine>")
	os.Exit(2)
}
