package main

// C17 harness, dynamic side: runs batches of simulations / assemblies against the real packages and
// measures, per creation site, how many goroutines are left behind after a settle period.
//
// Output (stdout), per batch:
//   B id=<k> mode=<seq|seqerr|par|fit|raw|req|reqhold|reqrelease|basm> n=<calls> P=<procs> ticks=<t>
//     fn=<launching function> shut=<gen|0|1> mach=<description>
//   M id=<k> proc=<d> disp=<d> emu=<d> req=<d> pool=<d> other=<d> total=<d> ok=<results sane 0|1> [sites=...]
// The Lean oracle reads the B lines and prints the model's X lines; the driver compares M and X.

import (
	"bytes"
	"fmt"
	"os"
	"regexp"
	"runtime"
	"runtime/pprof"
	"sort"
	"strings"
	"sync"
	"time"

	"bmvh/common"

	"github.com/BondMachineHQ/BondMachine/pkg/basm"
	"github.com/BondMachineHQ/BondMachine/pkg/bminfo"
	"github.com/BondMachineHQ/BondMachine/pkg/bmnumbers"
	"github.com/BondMachineHQ/BondMachine/pkg/bmreqs"
	"github.com/BondMachineHQ/BondMachine/pkg/bondmachine"
	"github.com/BondMachineHQ/BondMachine/pkg/procbuilder"
	"github.com/BondMachineHQ/BondMachine/pkg/simbox"
)

var out = common.NewOut(os.Stdout)

// ---- machines -------------------------------------------------------------------------------

type machSpec struct {
	P     int    // processors in the chain
	Rsize uint8  // register size
	Incs  []int  // number of `inc` instructions of every processor
	Two   bool   // two BM outputs (o0 unconnected, the chain ends in o1): used for the error path
	Fail  int    // extra unconnected processors whose every step FAILS (`addf16` at a register size != 16)
	Dead  string // "" | "empty" | "noreg": one spare unconnected processor that cannot be initialised
	// (empty program / no registers: procbuilder.VM.Init refuses it, the simulator treats it as halted)
	DeadAt int    // its processor index (0..P)
	Cmd    string // "" | "list" | "exec": the chain cores' instruction sets LIST the command-channel opcodes
	// (r2v k2r t2r: they talk to the emulation drivers through VM.cmdChan) / core 0 also EXECUTES `r2v r0 3`
}

func (m machSpec) String() string {
	s := fmt.Sprintf("chain:P%d:r%d:incs", m.P, m.Rsize)
	for _, i := range m.Incs {
		s += fmt.Sprintf(".%d", i)
	}
	if m.Fail > 0 {
		s += fmt.Sprintf(":fail%d", m.Fail)
	}
	if m.Dead != "" {
		s += fmt.Sprintf(":%s%d", m.Dead, m.DeadAt)
	}
	if m.Cmd != "" {
		s += ":cmd" + m.Cmd
	}
	return s
}

func parseMach(s string) (machSpec, error) {
	var m machSpec
	f := strings.Split(s, ":")
	for len(f) > 4 {
		x := f[len(f)-1]
		switch {
		case x == "cmdlist" || x == "cmdexec":
			m.Cmd = x[3:]
		case strings.HasPrefix(x, "fail"):
			fmt.Sscanf(x, "fail%d", &m.Fail)
		case strings.HasPrefix(x, "empty"):
			m.Dead = "empty"
			fmt.Sscanf(x, "empty%d", &m.DeadAt)
		case strings.HasPrefix(x, "noreg"):
			m.Dead = "noreg"
			fmt.Sscanf(x, "noreg%d", &m.DeadAt)
		default:
			return m, fmt.Errorf("bad machine %q", s)
		}
		f = f[:len(f)-1]
	}
	if len(f) != 4 || f[0] != "chain" {
		return m, fmt.Errorf("bad machine %q", s)
	}
	var r int
	fmt.Sscanf(f[1], "P%d", &m.P)
	fmt.Sscanf(f[2], "r%d", &r)
	m.Rsize = uint8(r)
	for _, x := range strings.Split(strings.TrimPrefix(f[3], "incs."), ".") {
		var v int
		fmt.Sscanf(x, "%d", &v)
		m.Incs = append(m.Incs, v)
	}
	if m.P < 1 || len(m.Incs) != m.P {
		return m, fmt.Errorf("bad machine %q", s)
	}
	return m, nil
}

func opsByName(names ...string) []procbuilder.Opcode {
	res := []procbuilder.Opcode{}
	for _, op := range procbuilder.Allopcodes { // Allopcodes is sorted by name: keep that order
		for _, n := range names {
			if op.Op_get_name() == n {
				res = append(res, op)
			}
		}
	}
	return res
}

// a chain i0 -> p0 -> p1 -> ... -> o0; every processor waits for its input, increments it Incs[i]
// times and hands it on with the valid/recv handshake; the last write makes o0 valid, which is what
// ends SinglePipelineSimulate.
func (m machSpec) build() (*bondmachine.Bondmachine, error) {
	bm := new(bondmachine.Bondmachine)
	bm.Rsize = m.Rsize
	bm.Init()
	bm.Add_input()
	bm.Add_output()
	last := "o0"
	if m.Two {
		bm.Add_output()
		last = "o1"
	}
	// processor index of chain core j (a spare core that cannot be initialised may sit in between)
	deadAt := -1
	if m.Dead != "" {
		deadAt = m.DeadAt
		if deadAt > m.P {
			deadAt = m.P
		}
	}
	pid := func(j int) int {
		if deadAt >= 0 && j >= deadAt {
			return j + 1
		}
		return j
	}
	nproc := 0
	addDead := func() error {
		d := new(procbuilder.Machine)
		d.Arch.Rsize = m.Rsize
		d.Arch.Modes = []string{"ha"}
		d.Arch.R, d.Arch.N, d.Arch.M, d.Arch.L, d.Arch.O = 2, 0, 0, 2, 5 // no ports: nothing is moved into it
		if m.Dead == "noreg" {
			d.Arch.R = 0
		}
		d.Arch.Op = opsByName("nop")
		// no program: procbuilder.VM.Init returns an error and leaves the register file nil
		bm.Domains = append(bm.Domains, d)
		_, err := bm.Add_processor(nproc)
		nproc++
		return err
	}
	for i := 0; i < m.P; i++ {
		if i == deadAt {
			if err := addDead(); err != nil {
				return nil, err
			}
		}
		d := new(procbuilder.Machine)
		d.Arch.Rsize = m.Rsize
		d.Arch.Modes = []string{"ha"}
		d.Arch.R, d.Arch.N, d.Arch.M, d.Arch.L, d.Arch.O = 2, 1, 1, 2, 5
		d.Arch.Op = opsByName("i2rw", "inc", "r2owa")
		prog := "i2rw r0 i0\n" + strings.Repeat("inc r0\n", m.Incs[i]) + "r2owa r0 o0\n"
		if m.Cmd != "" {
			d.Arch.Op = opsByName("i2rw", "inc", "r2owa", "r2v", "k2r", "t2r")
			if m.Cmd == "exec" && i == 0 {
				// one command to the (absent) video driver before the result is handed on
				prog = "i2rw r0 i0\n" + strings.Repeat("inc r0\n", m.Incs[i]) + "r2v r0 3\nr2owa r0 o0\n"
			}
		}
		p, err := d.Arch.Assembler([]byte(prog))
		if err != nil {
			return nil, err
		}
		d.Program = p
		bm.Domains = append(bm.Domains, d)
		if _, err := bm.Add_processor(nproc); err != nil {
			return nil, err
		}
		nproc++
	}
	if deadAt == m.P {
		if err := addDead(); err != nil {
			return nil, err
		}
	}
	// processors whose step fails on every tick: procbuilder's Addf16.Simulate rejects any register size
	// but 16 (VM.Step of the pinned tree drops the error; the simulation of the chain is unaffected)
	for i := 0; i < m.Fail; i++ {
		d := new(procbuilder.Machine)
		d.Arch.Rsize = m.Rsize
		d.Arch.Modes = []string{"ha"}
		d.Arch.R, d.Arch.N, d.Arch.M, d.Arch.L, d.Arch.O = 2, 1, 1, 2, 5
		d.Arch.Op = opsByName("addf16", "j")
		p, err := d.Arch.Assembler([]byte("addf16 r0 r0\nj 0\n"))
		if err != nil {
			return nil, err
		}
		d.Program = p
		bm.Domains = append(bm.Domains, d)
		if _, err := bm.Add_processor(nproc); err != nil {
			return nil, err
		}
		nproc++
	}
	bm.Add_bond([]string{"i0", fmt.Sprintf("p%di0", pid(0))})
	for i := 0; i+1 < m.P; i++ {
		bm.Add_bond([]string{fmt.Sprintf("p%do0", pid(i)), fmt.Sprintf("p%di0", pid(i+1))})
	}
	bm.Add_bond([]string{fmt.Sprintf("p%do0", pid(m.P-1)), last})
	return bm, nil
}

// total number of processors (= workers a launch starts)
func (m machSpec) total() int {
	n := m.P + m.Fail
	if m.Dead != "" {
		n++
	}
	return n
}

func (m machSpec) expect(in int) int {
	v := in
	for _, i := range m.Incs {
		v += i
	}
	mod := 1 << m.Rsize
	return v % mod
}

const basmProg = `%section code1 .romtext iomode:sync
  entry _start
_start:
  mov r0, i0
  inc r0
  mov o0, r0
  j _start
%endsection

%meta cpdef cpu romcode: code1, execmode: ha
%meta ioatt testio1 cp: cpu, type:input, index:0
%meta ioatt testio1 cp: bm, type:input, index:0
%meta ioatt testio2 cp: cpu, type:output, index:0
%meta ioatt testio2 cp: bm, type:output, index:0
%meta bmdef global registersize:8
`

// ---- goroutine profile ------------------------------------------------------------------------

var kinds = []string{"proc", "disp", "emu", "req", "pool"}

// classify maps a goroutine (its entry function and its creator) to a model kind or to "other:<f>"
func classify(entry, creator string) string {
	switch {
	case strings.HasSuffix(entry, "bondmachine.(*VM).Processor_execute"):
		return "proc"
	case strings.HasSuffix(entry, "bondmachine.(*VM).EmuDriverDispatcher"):
		return "disp"
	case strings.HasSuffix(entry, "bmreqs.(*ReqRoot).run"):
		return "req"
	case strings.HasSuffix(creator, "bondmachine.(*VM).Launch_processors"):
		return "emu" // anything else started by Launch_processors is an emulator driver's Run
	}
	return "other:" + entry + "<-" + creator
}

var reFrame = regexp.MustCompile(`^(\S.*)\([^()]*\)$`)

// profile returns the number of live goroutines per site (the calling goroutine excluded)
func profile() map[string]int {
	var buf bytes.Buffer
	pprof.Lookup("goroutine").WriteTo(&buf, 2)
	res := map[string]int{}
	for _, blk := range strings.Split(buf.String(), "\n\n") {
		lines := strings.Split(strings.TrimSpace(blk), "\n")
		if len(lines) < 2 || !strings.HasPrefix(lines[0], "goroutine ") {
			continue
		}
		if strings.Contains(lines[0], "[running]") {
			continue // ourselves
		}
		entry, creator := "", ""
		for _, l := range lines[1:] {
			if strings.HasPrefix(l, "\t") {
				continue
			}
			if strings.HasPrefix(l, "created by ") {
				creator = strings.TrimPrefix(l, "created by ")
				if i := strings.Index(creator, " in goroutine"); i >= 0 {
					creator = creator[:i]
				}
				continue
			}
			if m := reFrame.FindStringSubmatch(l); m != nil {
				entry = m[1]
			} else {
				entry = l
			}
		}
		res[classify(entry, creator)]++
	}
	return res
}

// settle waits until the number of goroutines has been stable for a while (workers that were told to
// exit need to be scheduled once more); bounded.
func settle() {
	last, stable := -1, 0
	for i := 0; i < 4000 && stable < 40; i++ {
		runtime.Gosched()
		time.Sleep(250 * time.Microsecond)
		n := runtime.NumGoroutine()
		if n == last {
			stable++
		} else {
			stable = 0
			last = n
		}
	}
}

// ---- batches ----------------------------------------------------------------------------------

type batch struct {
	Mode string
	N    int
	K    int // concurrent callers (par)
	M    machSpec
	DT   string // seqdyn / pardyn: the (dynamic) number type SinglePipelineSimulate shows o0 in
}

type holder struct{ roots []*bmreqs.ReqRoot }

var held holder

// delayKind builds the *simbox.SimDelays of the seqdly / pardly batches: tables a caller may hand to
// SinglePipelineSimulate (cmd/simfinetune mutates them freely); the simulator accepts all of them.
//
//	normal:  inc {2:1}, r2owa {1:1}           empty:   inc {} (a distribution without entries)
//	zero:    inc {3:0, 5:0} (no weight)        unknown: an opcode the machine does not have
//	mixed:   all of the above in one table
func delayKind(kind string) *simbox.SimDelays {
	sd := simbox.NewSimDelays()
	add := func(k string) {
		switch k {
		case "normal":
			sd.OpcodeDelays["inc"] = simbox.DelayDistribution{2: 1.0}
			sd.OpcodeDelays["r2owa"] = simbox.DelayDistribution{1: 1.0}
		case "empty":
			sd.OpcodeDelays["inc"] = simbox.DelayDistribution{}
		case "zero":
			sd.OpcodeDelays["i2rw"] = simbox.DelayDistribution{3: 0.0, 5: 0.0}
		case "unknown":
			sd.OpcodeDelays["nosuchop"] = simbox.DelayDistribution{4: 1.0}
		}
	}
	if kind == "mixed" {
		for _, k := range []string{"normal", "unknown", "zero"} {
			add(k)
		}
		sd.OpcodeDelays["r2owa"] = simbox.DelayDistribution{}
	} else {
		add(kind)
	}
	return sd
}

var simDelaysOf = map[string]*simbox.SimDelays{} // one shared object per kind, as a tuner shares its table

func simOnce(bm *bondmachine.Bondmachine, m machSpec, in int, dataType string) bool {
	if strings.HasPrefix(dataType, "delays:") {
		res, err := bm.SinglePipelineSimulate("unsigned", []string{fmt.Sprintf("%d", in)}, simDelaysOf[dataType[7:]])
		return err == nil && len(res) == 1 && res[0] == fmt.Sprintf("%d", m.expect(in))
	}
	res, err := bm.SinglePipelineSimulate(dataType, []string{fmt.Sprintf("%d", in)}, nil)
	if dataType != "unsigned" && dataType != "nosuchtype" {
		// two outputs: o0 (unconnected) shown in the dynamic type, o1 = the chain's result, unsigned
		return err == nil && len(res) == 2 && res[1] == fmt.Sprintf("%d", m.expect(in))
	}
	if dataType != "unsigned" {
		return err != nil // the error path after the launch
	}
	return err == nil && len(res) == 1 && res[0] == fmt.Sprintf("%d", m.expect(in))
}

// runBatch executes one batch and returns (B-line fields, results sane)
func runBatch(id int, b batch, rng *common.Rng) (string, bool) {
	ok := true
	fn, shut := "-", "gen"
	ticks := 0
	for _, i := range b.M.Incs {
		ticks += i + 3
	}
	switch b.Mode {
	case "seq", "seqerr", "seqdyn", "seqdly":
		fn = "SinglePipelineSimulate"
		bm, err := b.M.build()
		if err != nil {
			return "", false
		}
		dt := "unsigned"
		if b.Mode == "seqdly" {
			simDelaysOf[b.DT] = delayKind(b.DT)
			dt = "delays:" + b.DT
		}
		if b.Mode == "seqdyn" {
			dt = b.DT
			b.M.Two = true
			if bm, err = b.M.build(); err != nil {
				return "", false
			}
		}
		if b.Mode == "seqerr" {
			// o0 is shown with a type that does not exist: SinglePipelineSimulate fails *after* the
			// launch, on the last tick
			dt = "nosuchtype"
			b.M.Two = true
			if bm, err = b.M.build(); err != nil {
				return "", false
			}
		}
		for i := 0; i < b.N; i++ {
			ok = simOnce(bm, b.M, rng.Intn(200), dt) && ok
		}
	case "par", "pardyn", "pardly":
		fn = "SinglePipelineSimulate"
		bm, err := b.M.build()
		if err != nil {
			return "", false
		}
		pdt := "unsigned"
		if b.Mode == "pardly" {
			simDelaysOf[b.DT] = delayKind(b.DT)
			pdt = "delays:" + b.DT
		}
		if b.Mode == "pardyn" {
			pdt = b.DT
			b.M.Two = true
			if bm, err = b.M.build(); err != nil {
				return "", false
			}
		}
		var wg sync.WaitGroup
		var mu sync.Mutex
		per := make([][]int, b.K)
		for i := 0; i < b.N; i++ {
			per[i%b.K] = append(per[i%b.K], rng.Intn(200))
		}
		for w := 0; w < b.K; w++ {
			wg.Add(1)
			go func(ins []int) {
				defer wg.Done()
				for _, in := range ins {
					r := simOnce(bm, b.M, in, pdt)
					mu.Lock()
					ok = ok && r
					mu.Unlock()
				}
			}(per[w])
		}
		wg.Wait()
	case "fit":
		fn = "Fitness_default"
		bm, err := b.M.build()
		if err != nil {
			return "", false
		}
		for i := 0; i < b.N; i++ {
			// (Fitness_default dereferences a nil *Config for any non-suspended rule of `in`: empty box)
			in := new(simbox.Simbox)
			exp := new(simbox.Simbox)
			_, err := bm.Fitness_default(in, exp, uint64(ticks))
			ok = ok && err == nil
		}
	case "heapdly", "heapseq":
		// retained simulator state: live heap after GC over N finished simulations (after a warm-up), with a
		// delay table whose opcodes are executed (heapdly) or without delays (heapseq)
		fn = "SinglePipelineSimulate"
		bm, err := b.M.build()
		if err != nil {
			return "", false
		}
		var sd *simbox.SimDelays
		if b.Mode == "heapdly" {
			sd = delayKind("normal")
			sd.OpcodeDelays["i2rw"] = simbox.DelayDistribution{1: 1.0}
		}
		one := func() {
			in := rng.Intn(200)
			res, err := bm.SinglePipelineSimulate("unsigned", []string{fmt.Sprintf("%d", in)}, sd)
			ok = ok && err == nil && len(res) == 1 && res[0] == fmt.Sprintf("%d", b.M.expect(in))
		}
		for i := 0; i < 1000; i++ {
			one()
		}
		settle()
		runtime.GC()
		h0 := liveHeap()
		for i := 0; i < b.N; i++ {
			one()
		}
		settle()
		runtime.GC()
		lastHeapGrow = int64(liveHeap()) - int64(h0)
	case "fiterr":
		// Fitness_default with an `exp` simbox it has to refuse: every error return must leave nothing
		// behind, whatever stage it comes from (the expected-values box is examined by SimReport.Init)
		fn = "Fitness_default"
		bm, err := b.M.build()
		if err != nil {
			return "", false
		}
		bad := []string{
			"absolute:5:set:o7:0",   // an output the machine does not have
			"relative:3:set:p9r0:1", // a register of a processor it does not have
			"absolute:1:set:i5:3",   // an input it does not have
			"relative:2:set:zz:1",   // not an element name
			"absolute:2:set:p0r9:1", // a register the processor does not have
		}
		for i := 0; i < b.N; i++ {
			in := new(simbox.Simbox)
			exp := new(simbox.Simbox)
			r := bad[(i+b.K)%len(bad)]
			if e := exp.Add(r); e != nil {
				return "", false
			}
			if rng.Bool() {
				exp.Add("absolute:100000:set:o0:1") // a valid rule beyond the simulated ticks, first or second
			}
			_, err := bm.Fitness_default(in, exp, uint64(ticks))
			ok = ok && err != nil
		}
	case "spserr":
		// SinglePipelineSimulate with stimuli it has to refuse, before or after the launch
		fn = "SinglePipelineSimulate"
		two := b.M
		two.Two = true
		bm, err := b.M.build()
		if err != nil {
			return "", false
		}
		bm2, err := two.build()
		if err != nil {
			return "", false
		}
		for i := 0; i < b.N; i++ {
			var e error
			switch (i + b.K) % 4 {
			case 0: // not a number
				_, e = bm.SinglePipelineSimulate("unsigned", []string{"zz"}, nil)
			case 1: // more stimuli than inputs
				_, e = bm.SinglePipelineSimulate("unsigned", []string{"1", "2", "3"}, nil)
			case 2: // a number type that does not exist (refused on the last tick, after the launch)
				_, e = bm2.SinglePipelineSimulate("nosuchtype", []string{"7"}, nil)
			case 3: // a malformed sized literal
				_, e = bm.SinglePipelineSimulate("unsigned", []string{"0u<zz>5"}, nil)
			}
			ok = ok && e != nil
		}
	case "raw":
		// the way cmd/bondmachine drives a VM: Init, Launch_processors, Step..., and the shutdown method
		// if the tree has one
		fn = "raw"
		shut = "0"
		bm, err := b.M.build()
		if err != nil {
			return "", false
		}
		for i := 0; i < b.N; i++ {
			vm := new(bondmachine.VM)
			vm.Bmach = bm
			if err := vm.Init(); err != nil {
				return "", false
			}
			if err := vm.Launch_processors(nil); err != nil {
				ok = false // (a careful caller still shuts the VM down, below)
				ticks = 0
			}
			for t := 0; t < ticks; t++ {
				if _, err := vm.Step(nil); err != nil {
					ok = false
					break // a VM whose Step failed is not stepped again, only shut down
				}
			}
			if s, has := interface{}(vm).(interface{ Shutdown() }); has {
				s.Shutdown()
				shut = "1"
			}
		}
	case "req":
		shut = "1"
		for i := 0; i < b.N; i++ {
			rg := bmreqs.NewReqRoot()
			r := rg.Requirement(bmreqs.ReqRequest{Node: "/", T: bmreqs.ObjectSet, Name: "k", Value: "v", Op: bmreqs.OpAdd})
			ok = ok && r.Error == nil
			rg.Close()
		}
	case "reqhold":
		shut = "0"
		for i := 0; i < b.N; i++ {
			held.roots = append(held.roots, bmreqs.NewReqRoot())
		}
	case "reqrelease":
		shut = "1"
		for _, rg := range held.roots {
			rg.Close()
		}
		held.roots = nil
	case "basm":
		shut = "0"
		for i := 0; i < b.N; i++ {
			bi := new(basm.BasmInstance)
			bi.BMinfo = new(bminfo.BMinfo)
			bi.BasmInstanceInit(nil)
			e1 := bi.ParseAssemblyStringDefault(basmProg)
			e2 := bi.RunAssembler()
			e3 := bi.Assembler2BondMachine()
			ok = ok && e1 == nil && e2 == nil && e3 == nil && bi.GetBondMachine() != nil
			if c, has := interface{}(bi).(interface{ Close() }); has {
				c.Close()
				shut = "1"
			}
		}
	default:
		return "", false
	}
	dtf := b.DT
	if dtf == "" {
		dtf = "-"
	}
	return fmt.Sprintf("B id=%d mode=%s n=%d k=%d P=%d ticks=%d fn=%s shut=%s dt=%s mach=%s",
		id, b.Mode, b.N, b.K, b.M.total(), ticks, fn, shut, dtf, b.M.String()), ok
}

var lastHeapGrow int64 = -1 // heapdly / heapseq: live-heap growth over the N measured simulations

// regSizes: the process-wide registries a finished simulation must leave as it found them
func regSizes() [3]int {
	return [3]int{len(bmnumbers.AllTypes), len(bmnumbers.AllMatchers), len(procbuilder.Allopcodes)}
}

func liveHeap() uint64 {
	runtime.GC()
	var ms runtime.MemStats
	runtime.ReadMemStats(&ms)
	return ms.HeapAlloc
}

func measure(id int, b batch, rng *common.Rng) {
	if b.DT != "" && !strings.HasSuffix(b.Mode, "dly") {
		// the number type is registered before the batch (as a tool does before it starts simulating):
		// the simulations only look it up
		bmnumbers.EventuallyCreateType(b.DT, nil)
	}
	settle()
	regBefore := regSizes()
	heapBefore := liveHeap()
	before := profile()
	line := ""
	ok := false
	res := common.Guard(func() string {
		line, ok = runBatch(id, b, rng)
		return ""
	})
	settle()
	after := profile()
	regAfter := regSizes()
	heapAfter := liveHeap()
	if line == "" {
		out.Line("E id=%d mode=%s %s", id, b.Mode, strings.ReplaceAll(res, "\n", " "))
		out.Flush()
		return
	}
	out.Line("%s", line)
	total, other := 0, 0
	var sb strings.Builder
	seen := map[string]bool{}
	for _, k := range kinds {
		d := after[k] - before[k]
		total += d
		seen[k] = true
		fmt.Fprintf(&sb, " %s=%d", k, d)
	}
	var others []string
	for k := range after {
		if !seen[k] && after[k]-before[k] != 0 {
			other += after[k] - before[k]
			others = append(others, fmt.Sprintf("%s:%d", strings.ReplaceAll(k, " ", "_"), after[k]-before[k]))
		}
	}
	for k := range before {
		if _, in := after[k]; !in && !seen[k] {
			other -= before[k]
			others = append(others, fmt.Sprintf("%s:%d", strings.ReplaceAll(k, " ", "_"), -before[k]))
		}
	}
	sort.Strings(others)
	total += other
	okS := 0
	if ok && res == "" {
		okS = 1
	}
	hg := ""
	if strings.HasPrefix(b.Mode, "heap") {
		hg = fmt.Sprintf(" heapgrow=%d", lastHeapGrow)
	}
	out.Line("M id=%d%s other=%d total=%d ok=%d types=%d matchers=%d opcodes=%d heap=%d%s sites=%s", id, sb.String(), other, total, okS,
		regAfter[0]-regBefore[0], regAfter[1]-regBefore[1], regAfter[2]-regBefore[2], int64(heapAfter)-int64(heapBefore), hg, strings.Join(others, ","))
	out.Flush()
}

// genFailMach: a chain plus 1..3 processors whose step fails every tick (register size 8 or 32)
func genFailMach(rng *common.Rng, maxP int) machSpec {
	m := genMach(rng, maxP)
	m.Rsize = []uint8{8, 32}[rng.Intn(2)]
	m.Fail = 1 + rng.Intn(3)
	return m
}

// genCmdMach: 8-bit chain whose cores list (and, for "exec", whose first core executes) command-channel opcodes
func genCmdMach(rng *common.Rng, maxP int, kind string) machSpec {
	m := genMach(rng, maxP)
	m.Rsize = 8
	m.Cmd = kind
	return m
}

// genDeadMach: a chain plus one spare processor that cannot be initialised, at a random index
func genDeadMach(rng *common.Rng, maxP int) machSpec {
	m := genMach(rng, maxP)
	m.Dead = []string{"empty", "noreg"}[rng.Intn(2)]
	m.DeadAt = rng.Intn(m.P + 1)
	return m
}

func genMach(rng *common.Rng, maxP int) machSpec {
	m := machSpec{P: 1 + rng.Intn(maxP), Rsize: []uint8{8, 16, 32}[rng.Intn(3)]}
	for i := 0; i < m.P; i++ {
		m.Incs = append(m.Incs, rng.Intn(4))
	}
	return m
}

func runAll(tier string) {
	rng := common.NewRng(common.Seed())
	ns := []int{1, 10, 100}
	id := 0
	next := func(b batch) {
		id++
		measure(id, b, rng)
	}
	// calibration of the measurement itself: servers held open are seen, released ones disappear
	next(batch{Mode: "reqhold", N: 3})
	next(batch{Mode: "reqrelease"})
	rounds := 1
	if tier == "thorough" {
		rounds = 4
		ns = []int{1, 10, 100, 1000}
	}
	for r := 0; r < rounds; r++ {
		for _, n := range ns {
			next(batch{Mode: "seq", N: n, M: genMach(rng, 4)})
			next(batch{Mode: "par", N: n, K: 1 + rng.Intn(8), M: genMach(rng, 4)})
		}
		// machines with failing steps (the step error must not strand any worker)
		next(batch{Mode: "seq", N: 25, M: genFailMach(rng, 3)})
		next(batch{Mode: "par", N: 25, K: 2 + rng.Intn(4), M: genFailMach(rng, 3)})
		next(batch{Mode: "fit", N: 10, M: genFailMach(rng, 2)})
		next(batch{Mode: "raw", N: 5, M: genFailMach(rng, 2)})
		// simulations showing a value in a dynamic number type: the process-wide registries must not grow
		dts := []string{"fps32f16", "fxps16f8", "fps16f4", "lqs16t1"} // (flpe<e>f<f> cannot export without FloPoCo)
		next(batch{Mode: "seqdyn", N: 10, M: genMach(rng, 3), DT: dts[rng.Intn(len(dts))]})
		next(batch{Mode: "seqdyn", N: 100, M: genMach(rng, 2), DT: dts[rng.Intn(len(dts))]})
		next(batch{Mode: "pardyn", N: 20, K: 2 + rng.Intn(4), M: genMach(rng, 3), DT: dts[rng.Intn(2)]})
		// retained state: live heap over thousands of finished simulations
		next(batch{Mode: "heapdly", N: 6000, M: machSpec{P: 1, Rsize: 8, Incs: []int{2}}})
		next(batch{Mode: "heapseq", N: 3000, M: machSpec{P: 2, Rsize: 16, Incs: []int{1, 1}}})
		// machines that list / execute the command-channel opcodes (emulation drivers absent)
		for _, ck := range []string{"list", "exec"} {
			next(batch{Mode: "seq", N: 10, M: genCmdMach(rng, 3, ck)})
			next(batch{Mode: "par", N: 10, K: 2 + rng.Intn(3), M: genCmdMach(rng, 2, ck)})
			next(batch{Mode: "fit", N: 4, M: genCmdMach(rng, 2, ck)})
		}
		next(batch{Mode: "raw", N: 3, M: genCmdMach(rng, 2, "exec")})
		next(batch{Mode: "seqerr", N: 2, M: genCmdMach(rng, 2, "exec")})
		// delay tables: normal, without entries, without weight, for an opcode the machine does not have
		dks := []string{"normal", "empty", "zero", "unknown", "mixed"}
		for _, dk := range dks {
			next(batch{Mode: "seqdly", N: 4, M: genMach(rng, 3), DT: dk})
		}
		next(batch{Mode: "pardly", N: 12, K: 2 + rng.Intn(3), M: genMach(rng, 3), DT: dks[rng.Intn(len(dks))]})
		// machines with a spare processor that cannot be initialised (a call may fail, never leak)
		next(batch{Mode: "seq", N: 10, M: genDeadMach(rng, 3)})
		next(batch{Mode: "par", N: 10, K: 2 + rng.Intn(4), M: genDeadMach(rng, 3)})
		next(batch{Mode: "fit", N: 5, M: genDeadMach(rng, 2)})
		next(batch{Mode: "raw", N: 3, M: genDeadMach(rng, 2)})
		next(batch{Mode: "seqerr", N: 2, M: genDeadMach(rng, 2)})
		next(batch{Mode: "seqerr", N: 1 + rng.Intn(5), M: genMach(rng, 3)})
		next(batch{Mode: "fiterr", N: 10, K: rng.Intn(5), M: genMach(rng, 3)})
		next(batch{Mode: "fiterr", N: 5, K: rng.Intn(5), M: genFailMach(rng, 2)})
		next(batch{Mode: "spserr", N: 12, K: rng.Intn(4), M: genMach(rng, 3)})
		next(batch{Mode: "fit", N: 1, M: genMach(rng, 3)})
		next(batch{Mode: "fit", N: 10, M: genMach(rng, 3)})
		next(batch{Mode: "raw", N: 1 + rng.Intn(10), M: genMach(rng, 4)})
		next(batch{Mode: "req", N: 10})
		next(batch{Mode: "basm", N: 1})
		next(batch{Mode: "basm", N: 10})
	}
}

func runReplay(spec string) {
	// spec: mode,n,k,machine[,number type]
	f := strings.Split(spec, ",")
	dt := ""
	if len(f) == 5 {
		dt = f[4]
		f = f[:4]
	}
	if len(f) != 4 {
		fmt.Fprintln(os.Stderr, "replay spec: mode,n,k,machine")
		os.Exit(2)
	}
	var b batch
	b.Mode = f[0]
	fmt.Sscanf(f[1], "%d", &b.N)
	fmt.Sscanf(f[2], "%d", &b.K)
	if b.K < 1 {
		b.K = 1
	}
	if f[3] != "-" {
		m, err := parseMach(f[3])
		if err != nil {
			fmt.Fprintln(os.Stderr, err)
			os.Exit(2)
		}
		b.M = m
	}
	b.DT = dt
	measure(1, b, common.NewRng(common.Seed()))
}
