package main

// go/ast extractor for property C17: lists every `go` statement of the anchored files with the
// enclosing function, the spawned function and whether the spawned function's body has an exit
// path (a `return` statement outside nested function literals; a body without an endless `for`
// loop also counts as exiting).  Also lists the functions that call Launch_processors and whether
// they call Shutdown.  Output: the Lean file BMV/Gen/GoStmts.lean on stdout.

import (
	"fmt"
	"go/ast"
	"go/parser"
	"go/token"
	"os"
	"path/filepath"
	"sort"
	"strings"
)

// anchored files (properties.jsonl C17 anchors), in the order they are listed in the Lean table
var anchored = []string{
	"pkg/bondmachine/vm.go",
	"pkg/bondmachine/simulate.go",
	"pkg/bondmachine/evolutionary.go",
	"pkg/bmreqs/reqroot.go",
	"cmd/simfinetune/simfinetune.go",
}

type goStmt struct {
	file, encl, callee string
	exit               string // "some true" | "some false" | "none"
	line               int
}

func hasReturn(n ast.Node) bool {
	found := false
	ast.Inspect(n, func(x ast.Node) bool {
		if x == nil || found {
			return false
		}
		switch x.(type) {
		case *ast.FuncLit:
			return false
		case *ast.ReturnStmt:
			found = true
			return false
		}
		return true
	})
	return found
}

func hasEndlessFor(n ast.Node) bool {
	found := false
	ast.Inspect(n, func(x ast.Node) bool {
		if x == nil || found {
			return false
		}
		switch f := x.(type) {
		case *ast.FuncLit:
			return false
		case *ast.ForStmt:
			if f.Cond == nil {
				found = true
				return false
			}
		}
		return true
	})
	return found
}

// exitPath: does the worker body have a way out of its loop?
func exitPath(body *ast.BlockStmt) bool {
	if body == nil {
		return false
	}
	if !hasEndlessFor(body) {
		return true
	}
	return hasReturn(body)
}

func calls(body ast.Node, name string) bool {
	found := false
	ast.Inspect(body, func(x ast.Node) bool {
		if c, ok := x.(*ast.CallExpr); ok {
			switch f := c.Fun.(type) {
			case *ast.SelectorExpr:
				if f.Sel.Name == name {
					found = true
				}
			case *ast.Ident:
				if f.Name == name {
					found = true
				}
			}
		}
		return !found
	})
	return found
}

func extract(repo string) (string, error) {
	fset := token.NewFileSet()
	// parse whole package directories so that callee bodies are found (run() lives in engine.go)
	decls := map[string]map[string][]*ast.FuncDecl{} // dir -> func name -> declarations
	ifaceM := map[string]map[string]bool{}           // dir -> method names declared by interface types
	files := map[string]*ast.File{}
	for _, a := range anchored {
		dir := filepath.Dir(a)
		if _, ok := decls[dir]; ok {
			continue
		}
		decls[dir] = map[string][]*ast.FuncDecl{}
		ifaceM[dir] = map[string]bool{}
		ents, err := os.ReadDir(filepath.Join(repo, dir))
		if err != nil {
			return "", err
		}
		for _, e := range ents {
			if e.IsDir() || !strings.HasSuffix(e.Name(), ".go") || strings.HasSuffix(e.Name(), "_test.go") {
				continue
			}
			p := filepath.Join(repo, dir, e.Name())
			f, err := parser.ParseFile(fset, p, nil, parser.SkipObjectResolution)
			if err != nil {
				return "", err
			}
			files[filepath.Join(dir, e.Name())] = f
			for _, d := range f.Decls {
				if fd, ok := d.(*ast.FuncDecl); ok {
					decls[dir][fd.Name.Name] = append(decls[dir][fd.Name.Name], fd)
				}
				if gd, ok := d.(*ast.GenDecl); ok {
					for _, sp := range gd.Specs {
						if ts, ok := sp.(*ast.TypeSpec); ok {
							if it, ok := ts.Type.(*ast.InterfaceType); ok && it.Methods != nil {
								for _, m := range it.Methods.List {
									for _, n := range m.Names {
										ifaceM[dir][n.Name] = true
									}
								}
							}
						}
					}
				}
			}
		}
	}
	var stmts []goStmt
	type launcher struct {
		file, fn string
		shut     bool
	}
	var launchers []launcher
	for _, a := range anchored {
		f, ok := files[a]
		if !ok {
			return "", fmt.Errorf("anchored file %s not found", a)
		}
		dir := filepath.Dir(a)
		for _, d := range f.Decls {
			fd, ok := d.(*ast.FuncDecl)
			if !ok || fd.Body == nil {
				continue
			}
			if fd.Name.Name != "Launch_processors" && calls(fd.Body, "Launch_processors") {
				launchers = append(launchers, launcher{a, fd.Name.Name, calls(fd.Body, "Shutdown")})
			}
			ast.Inspect(fd.Body, func(x ast.Node) bool {
				g, ok := x.(*ast.GoStmt)
				if !ok {
					return true
				}
				st := goStmt{file: a, encl: fd.Name.Name, line: fset.Position(g.Pos()).Line, exit: "none"}
				switch fn := g.Call.Fun.(type) {
				case *ast.FuncLit:
					st.callee = "func"
					if exitPath(fn.Body) {
						st.exit = "some true"
					} else {
						st.exit = "some false"
					}
				case *ast.SelectorExpr:
					st.callee = fn.Sel.Name
				case *ast.Ident:
					st.callee = fn.Name
				default:
					st.callee = "?"
				}
				if st.exit == "none" {
					// resolved only when the package has exactly one declaration of that name and no
					// interface type of the package declares it (ed.Run() stays unknown)
					if cds := decls[dir][st.callee]; len(cds) == 1 && cds[0].Body != nil && !ifaceM[dir][st.callee] {
						if exitPath(cds[0].Body) {
							st.exit = "some true"
						} else {
							st.exit = "some false"
						}
					}
				}
				stmts = append(stmts, st)
				return true
			})
		}
	}
	order := map[string]int{}
	for i, a := range anchored {
		order[a] = i
	}
	sort.SliceStable(stmts, func(i, j int) bool {
		if stmts[i].file != stmts[j].file {
			return order[stmts[i].file] < order[stmts[j].file]
		}
		return stmts[i].line < stmts[j].line
	})
	var sb strings.Builder
	sb.WriteString("/- REGENERATED on every run by `h-c17 extract <repo>` (harness/cmd/c17/extract.go) from the\n")
	sb.WriteString("   anchored Go files of property C17.  Do not edit. -/\n")
	sb.WriteString("namespace BMV.Gen.GoStmts\n\n")
	sb.WriteString("structure GoStmt where\n  file : String\n  encl : String\n  callee : String\n")
	sb.WriteString("  exit : Option Bool   -- none: the spawned function has no body in the package (interface method)\n")
	sb.WriteString("  deriving DecidableEq, Repr\n\n")
	sb.WriteString("def goStmts : List GoStmt := [\n")
	for i, s := range stmts {
		sep := ","
		if i == len(stmts)-1 {
			sep = ""
		}
		fmt.Fprintf(&sb, "  ⟨%q, %q, %q, %s⟩%s\n", s.file, s.encl, s.callee, s.exit, sep)
	}
	sb.WriteString("]\n\n")
	sb.WriteString("/-- functions of the anchored files that call Launch_processors, and whether they also call Shutdown -/\n")
	sb.WriteString("def launchers : List (String × String × Bool) := [\n")
	for i, l := range launchers {
		sep := ","
		if i == len(launchers)-1 {
			sep = ""
		}
		fmt.Fprintf(&sb, "  (%q, %q, %v)%s\n", l.file, l.fn, l.shut, sep)
	}
	sb.WriteString("]\n\nend BMV.Gen.GoStmts\n")
	return sb.String(), nil
}
