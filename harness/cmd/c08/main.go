// C08 harness: the real pkg/bmnumbers seen from outside.
//
//	c08 matchers            dump the matcher table (sorted) after init and after EventuallyCreateType
//	                        on a spread of dynamic type names:   M <hex regex> <import func>
//	c08 regex <n>           strings drawn from every matcher's language (regexp/syntax tree), mutations
//	                        and near-misses:   W <hex> : <code points>   /   R <hex> <mask>
//	                        mask[i] = '1' iff sorted matcher i accepts the string (regexp.MatchString)
//	c08 check <file>        same for the strings (hex, one per line) of a file, plus for every string
//	                        accepted by a matcher what that matcher's import function returns:
//	                        D <hex> <i> <import result>
//	c08 nums <n>            integer-like literals: import, every export, re-import
//	                        N <hex> <n1,n2,..> : <code points>  /  C <hex> imp=.. ty=.. bits=.. ...
//	c08 numfile <file>      same for literals (hex, one per line) of a file
//	c08 uints <n>           ImportUint (uint8/16/32/64, optionalBits), ImportBytes (+CastType hex/bin), ExportUint64:
//	                        V uint <w> <value> <optBits> | V bytes <bits> <hex BE> <cast>  /  VC ... observables
//	c08 floats <n>          direct round-trip search on float16/32, fixed point, FXP, linear quantiser:
//	                        F <type> <literal> <verdict> ...
//
// All randomness derives from VERIF_SEED.  Panics are observables.
package main

import (
	"bufio"
	"encoding/hex"
	"fmt"
	"math"
	"os"
	"reflect"
	"regexp"
	"regexp/syntax"
	"runtime"
	"sort"
	"strconv"
	"strings"
	"unicode/utf8"

	"bmvh/common"

	"github.com/BondMachineHQ/BondMachine/pkg/bmnumbers"
)

var out = common.NewOut(os.Stdout)

// ---------------------------------------------------------------- matcher table

var spreadDone = false

// dynamic type names: every family of dynamical_*.go with a spread of parameters, plus names that
// must not create anything
func spreadNames() []string {
	var names []string
	ps := []int{0, 1, 4, 5, 8, 11, 16, 23, 32, 52, 64}
	for _, a := range ps {
		for _, b := range ps {
			names = append(names, fmt.Sprintf("flpe%df%d", a, b), fmt.Sprintf("lqs%dt%d", a, b),
				fmt.Sprintf("fps%df%d", a, b), fmt.Sprintf("fxps%df%d", a, b))
		}
	}
	names = append(names, "", "unsigned", "float32", "fps", "fpsf", "xfps8f4y", "lqs8", "flpe4f", "fxps8f4.5", "FPS8F4")
	return names
}

func spread() (created int) {
	if spreadDone {
		return 0
	}
	spreadDone = true
	for _, n := range spreadNames() {
		func() {
			defer func() { recover() }()
			if ok, _ := bmnumbers.EventuallyCreateType(n, nil); ok {
				created++
			}
		}()
	}
	return
}

func sortedKeys() []string {
	keys := make([]string, 0, len(bmnumbers.AllMatchers))
	for k := range bmnumbers.AllMatchers {
		keys = append(keys, k)
	}
	sort.Strings(keys)
	return keys
}

func funcName(f bmnumbers.ImportFunc) string {
	n := runtime.FuncForPC(reflect.ValueOf(f).Pointer()).Name()
	if i := strings.LastIndex(n, "."); i >= 0 {
		n = n[i+1:]
	}
	return n
}

func cmdMatchers() {
	before := len(bmnumbers.AllMatchers)
	typesBefore := len(bmnumbers.AllTypes)
	created := spread()
	keys := sortedKeys()
	out.Line("T init_matchers=%d init_types=%d spread_names=%d created=%d matchers=%d types=%d",
		before, typesBefore, len(spreadNames()), created, len(keys), len(bmnumbers.AllTypes))
	for _, k := range keys {
		out.Line("M %s %s", hex.EncodeToString([]byte(k)), funcName(bmnumbers.AllMatchers[k]))
	}
}

// ---------------------------------------------------------------- string helpers

func cps(s string) string {
	var sb strings.Builder
	for _, r := range s { // invalid UTF-8 bytes come out as U+FFFD, one per byte, like in regexp
		sb.WriteByte(' ')
		sb.WriteString(strconv.Itoa(int(r)))
	}
	return sb.String()
}

func hx(s string) string {
	if s == "" {
		return "-"
	}
	return hex.EncodeToString([]byte(s))
}

func unhx(s string) string {
	if s == "-" {
		return ""
	}
	b, err := hex.DecodeString(s)
	if err != nil {
		return "?"
	}
	return string(b)
}

// printable without spaces, else hex:
func show(s string) string {
	ok := s != ""
	for i := 0; i < len(s); i++ {
		if s[i] <= 32 || s[i] > 126 {
			ok = false
		}
	}
	if ok {
		return s
	}
	return "hex:" + hex.EncodeToString([]byte(s))
}

type table struct {
	keys []string
	res  []*regexp.Regexp
}

func loadTable() *table {
	spread()
	t := &table{keys: sortedKeys()}
	for _, k := range t.keys {
		t.res = append(t.res, regexp.MustCompile(k))
	}
	return t
}

func (t *table) mask(s string) string {
	b := make([]byte, len(t.res))
	for i, re := range t.res {
		if re.MatchString(s) {
			b[i] = '1'
		} else {
			b[i] = '0'
		}
	}
	return string(b)
}

func numDump(n *bmnumbers.BMNumber, err error) string {
	if err != nil {
		return "err"
	}
	if n == nil {
		return "nil"
	}
	by := n.GetBytes() // big endian copy
	le := make([]byte, len(by))
	for i := range by {
		le[len(by)-1-i] = by[i]
	}
	bin, _ := n.ExportBinary(true)
	_ = bin
	return fmt.Sprintf("ok ty=%s bits=%s bytes=%s", n.GetTypeName(), bitsOf(n), hx(string(le)))
}

// bits are not exported: read them back from ExportBinary(true) = 0b<bits>...
func bitsOf(n *bmnumbers.BMNumber) string {
	s, err := n.ExportBinary(true)
	if err != nil {
		return "?"
	}
	i := strings.Index(s, "<")
	j := strings.Index(s, ">")
	if i < 0 || j < i {
		return "?"
	}
	return s[i+1 : j]
}

func emitString(t *table, s string, detail bool) {
	h := hx(s)
	out.Line("W %s :%s", h, cps(s))
	m := t.mask(s)
	out.Line("R %s %s", h, m)
	if detail || strings.Count(m, "1") > 1 {
		for i := range t.keys {
			if m[i] == '1' {
				k := t.keys[i]
				res := common.Guard(func() string {
					n, err := bmnumbers.AllMatchers[k](t.res[i], s)
					return numDump(n, err)
				})
				out.Line("D %s %d %s -> %s", h, i, show(k), res)
			}
		}
	}
}

// ---------------------------------------------------------------- generation from regexp/syntax

const asciiPool = "0123456789abcdefABCDEFudsxblLpPqt<>.-+eE_ #'\n\t~"

func pickFromClass(rng *common.Rng, rs []rune) rune {
	in := func(r rune) bool {
		for i := 0; i+1 < len(rs); i += 2 {
			if rs[i] <= r && r <= rs[i+1] {
				return true
			}
		}
		return false
	}
	if rng.Chance(4, 5) {
		for try := 0; try < 8; try++ {
			c := rune(asciiPool[rng.Intn(len(asciiPool))])
			if in(c) {
				return c
			}
		}
	}
	if len(rs) == 0 {
		return '?'
	}
	i := rng.Intn(len(rs)/2) * 2
	lo, hi := rs[i], rs[i+1]
	switch rng.Intn(3) {
	case 0:
		return lo
	case 1:
		return hi
	}
	r := lo + rune(rng.Intn(int(hi-lo)+1))
	if r >= 0xD800 && r <= 0xDFFF { // surrogates cannot be encoded
		return lo
	}
	return r
}

func genFrom(rng *common.Rng, re *syntax.Regexp, sb *strings.Builder, depth int) {
	rep := func(min, max int) {
		if max < 0 || max > min+4 {
			max = min + 4
		}
		n := min + rng.Intn(max-min+1)
		if rng.Chance(1, 12) {
			n += 17 // long runs: > 8 digits, > 64 bits
		}
		for i := 0; i < n; i++ {
			genFrom(rng, re.Sub[0], sb, depth+1)
		}
	}
	switch re.Op {
	case syntax.OpLiteral:
		for _, r := range re.Rune {
			sb.WriteRune(r)
		}
	case syntax.OpCharClass:
		sb.WriteRune(pickFromClass(rng, re.Rune))
	case syntax.OpAnyCharNotNL:
		c := rune(asciiPool[rng.Intn(len(asciiPool))])
		if c == '\n' {
			c = '0'
		}
		if rng.Chance(1, 20) {
			c = []rune{0xE9, 0x663, 0x1F600, 0xFFFD}[rng.Intn(4)]
		}
		sb.WriteRune(c)
	case syntax.OpAnyChar:
		sb.WriteByte(asciiPool[rng.Intn(len(asciiPool))])
	case syntax.OpCapture:
		genFrom(rng, re.Sub[0], sb, depth+1)
	case syntax.OpConcat:
		for _, s := range re.Sub {
			genFrom(rng, s, sb, depth+1)
		}
	case syntax.OpAlternate:
		genFrom(rng, re.Sub[rng.Intn(len(re.Sub))], sb, depth+1)
	case syntax.OpStar:
		rep(0, -1)
	case syntax.OpPlus:
		rep(1, -1)
	case syntax.OpQuest:
		rep(0, 1)
	case syntax.OpRepeat:
		rep(re.Min, re.Max)
	default: // anchors, empty match, word boundaries: contribute nothing
	}
}

func mutate(rng *common.Rng, s string) string {
	r := []rune(s)
	pool := []rune(asciiPool)
	switch rng.Intn(9) {
	case 0: // delete
		if len(r) > 0 {
			i := rng.Intn(len(r))
			r = append(r[:i:i], r[i+1:]...)
		}
	case 1: // insert
		i := rng.Intn(len(r) + 1)
		c := pool[rng.Intn(len(pool))]
		r = append(r[:i:i], append([]rune{c}, r[i:]...)...)
	case 2: // replace
		if len(r) > 0 {
			r[rng.Intn(len(r))] = pool[rng.Intn(len(pool))]
		}
	case 3: // duplicate a char
		if len(r) > 0 {
			i := rng.Intn(len(r))
			r = append(r[:i:i], append([]rune{r[i]}, r[i:]...)...)
		}
	case 4: // trailing newline / leading newline
		if rng.Bool() {
			r = append(r, '\n')
		} else {
			r = append([]rune{'\n'}, r...)
		}
	case 5: // invalid UTF-8 byte appended or inserted
		i := rng.Intn(len(r) + 1)
		return string(r[:i]) + "\xff" + string(r[i:])
	case 6: // swap the notation letter
		if len(r) > 1 {
			r[1] = []rune("udsbxflpq<")[rng.Intn(10)]
		}
	case 7: // ".0" suffix (the historic overlap)
		return s + []string{".0", "0", ".00", "x0", ".", "00"}[rng.Intn(6)]
	case 8: // non-ASCII digit / letter
		if len(r) > 0 {
			r[rng.Intn(len(r))] = []rune{0x663, 0xFF10, 0xE9, 0x2028}[rng.Intn(4)]
		}
	}
	return string(r)
}

func cmdRegex(n int) {
	t := loadTable()
	rng := common.NewRng(common.Seed()*7919 + 8)
	var trees []*syntax.Regexp
	for _, k := range t.keys {
		p, err := syntax.Parse(k, syntax.Perl)
		if err != nil {
			out.Line("E parse %s", hx(k))
			continue
		}
		trees = append(trees, p)
	}
	fixed := []string{"", "0", "0u", "0u100", "0d100", "0u1.0", "0u1x0", "0u10.00", "0d7.000", "0f1", "0fp<8.4>1", "0f<16>1",
		"0f<32>1", "0f<1", "0fl", "0flp<4.4>1", "0fxp<8.4>1", "0lq<8.1>1", "0s-1", "0sd-1", "0sd", "0s--1", "0b<8>1", "0b2",
		"0x<8>ff", "0xg", "12\n", "\n12", "0f<16>\n", "0f\n", "0fp<8.4>\n", "0f<32>p", "0f<16>l", "0f<16>L1", "0f<16>p", "0fx", "0fP"}
	for _, s := range fixed {
		emitString(t, s, false)
	}
	for i := 0; i < n; i++ {
		var sb strings.Builder
		genFrom(rng, trees[i%len(trees)], &sb, 0)
		s := sb.String()
		k := rng.Intn(4)
		if k >= 2 {
			for j := 0; j < k-1; j++ {
				s = mutate(rng, s)
			}
		}
		if len(s) > 400 {
			s = s[:400]
		}
		emitString(t, s, false)
	}
}

func readLines(path string) []string {
	f, err := os.Open(path)
	if err != nil {
		fmt.Fprintln(os.Stderr, err)
		os.Exit(2)
	}
	defer f.Close()
	var ls []string
	sc := bufio.NewScanner(f)
	sc.Buffer(make([]byte, 1<<20), 1<<24)
	for sc.Scan() {
		l := strings.TrimSpace(sc.Text())
		if l != "" {
			ls = append(ls, l)
		}
	}
	return ls
}

func cmdCheck(path string) {
	t := loadTable()
	for _, l := range readLines(path) {
		emitString(t, unhx(l), true)
	}
}

// ---------------------------------------------------------------- integer-like literals

func importG(s string) (n *bmnumbers.BMNumber, res string) {
	defer func() {
		if r := recover(); r != nil {
			n = nil
			res = "panic"
		}
	}()
	v, err := bmnumbers.ImportString(s)
	if err != nil || v == nil {
		return nil, "err"
	}
	return v, "ok"
}

func leBytes(n *bmnumbers.BMNumber) string {
	by := n.GetBytes()
	le := make([]byte, len(by))
	for i := range by {
		le[len(by)-1-i] = by[i]
	}
	return hx(string(le))
}

func strOrErr(s string, err error) string {
	if err != nil {
		return "!err"
	}
	return show(s)
}

// the export option OmitPrefix (the only field of BMNumberConfig; `bmnumbers -omit-prefix`):
// op=<text with the option>  ort=<re-import of ShowPrefix() + that text>
func omitFields(n *bmnumbers.BMNumber) string {
	return common.Guard(func() string {
		t := bmnumbers.GetType(n.GetTypeName())
		if t == nil {
			return "op=? ort=no-type"
		}
		o, err := n.ExportString(&bmnumbers.BMNumberConfig{OmitPrefix: true})
		if err != nil {
			return "op=!err ort=-"
		}
		m, st := importG(t.ShowPrefix() + o)
		if m == nil {
			return fmt.Sprintf("op=%s ort=%s", show(o), st)
		}
		return fmt.Sprintf("op=%s ort=ok orty=%s orbits=%s orbytes=%s", show(o), m.GetTypeName(), bitsOf(m), leBytes(m))
	})
}

func caseLine(s string, ns []int) string {
	h := hx(s)
	n, st := importG(s)
	if n == nil {
		return fmt.Sprintf("C %s imp=%s", h, st)
	}
	return common.Guard(func() string {
		var sb strings.Builder
		fmt.Fprintf(&sb, "C %s imp=ok ty=%s bits=%s bytes=%s", h, n.GetTypeName(), bitsOf(n), leBytes(n))
		es, eerr := n.ExportString(nil)
		fmt.Fprintf(&sb, " es=%s", strOrErr(es, eerr))
		fmt.Fprintf(&sb, " eb=%s", strOrErr(n.ExportBinary(false)))
		fmt.Fprintf(&sb, " ebs=%s", strOrErr(n.ExportBinary(true)))
		fmt.Fprintf(&sb, " vb=%s", strOrErr(n.ExportVerilogBinary()))
		sb.WriteString(" nb=")
		for i, k := range ns {
			if i > 0 {
				sb.WriteByte(';')
			}
			r, err := n.ExportBinaryNBits(k)
			fmt.Fprintf(&sb, "%d:%s", k, strOrErr(r, err))
		}
		if eerr != nil {
			sb.WriteString(" rt=-")
		} else {
			m, st2 := importG(es)
			if m == nil {
				fmt.Fprintf(&sb, " rt=%s", st2)
			} else {
				fmt.Fprintf(&sb, " rt=ok rty=%s rbits=%s rbytes=%s", m.GetTypeName(), bitsOf(m), leBytes(m))
			}
		}
		sb.WriteString(" " + omitFields(n))
		return sb.String()
	})
}

func emitNum(rng *common.Rng, s string) {
	// widths for ExportBinaryNBits: around the natural length, the declared width, random
	ns := []int{0, 1, rng.Intn(72), 64}
	if n, _ := importG(s); n != nil {
		if raw, err := n.ExportBinary(false); err == nil {
			ns = append(ns, len(raw), len(raw)+1)
			if len(raw) > 1 {
				ns = append(ns, len(raw)-1)
			}
		}
		if b, err := strconv.Atoi(bitsOf(n)); err == nil {
			ns = append(ns, b)
		}
	}
	var sl []string
	for _, k := range ns {
		sl = append(sl, strconv.Itoa(k))
	}
	out.Line("N %s %s :%s", hx(s), strings.Join(sl, ","), cps(s))
	out.Line("%s", caseLine(s, ns))
}

func u64s(rng *common.Rng) []string {
	var vs []string
	vs = append(vs, "0", "1", "7", "10", "100", "255", "256", "65535", "65536", "18446744073709551615",
		"18446744073709551616", "18446744073709551617", "9223372036854775807", "9223372036854775808",
		"9223372036854775809", "99999999999999999999", "340282366920938463463374607431768211456", "00", "007", "0000000000000000000000001")
	for k := 1; k <= 64; k++ {
		p := new(big).pow2(k)
		vs = append(vs, p.dec(), p.minus1().dec())
	}
	for i := 0; i < 12; i++ {
		vs = append(vs, strconv.FormatUint(rng.Next()>>uint(rng.Intn(64)), 10))
	}
	return vs
}

// tiny decimal big-number helper (2^k up to 2^64 does not fit uint64)
type big struct{ d []int } // little endian decimal digits

func (b *big) pow2(k int) *big {
	r := &big{d: []int{1}}
	for i := 0; i < k; i++ {
		c := 0
		for j := range r.d {
			v := r.d[j]*2 + c
			r.d[j] = v % 10
			c = v / 10
		}
		if c > 0 {
			r.d = append(r.d, c)
		}
	}
	return r
}
func (b *big) minus1() *big {
	r := &big{d: append([]int{}, b.d...)}
	for j := range r.d {
		if r.d[j] > 0 {
			r.d[j]--
			break
		}
		r.d[j] = 9
	}
	for len(r.d) > 1 && r.d[len(r.d)-1] == 0 {
		r.d = r.d[:len(r.d)-1]
	}
	return r
}
func (b *big) dec() string {
	var sb strings.Builder
	for j := len(b.d) - 1; j >= 0; j-- {
		sb.WriteByte(byte('0' + b.d[j]))
	}
	return sb.String()
}

func randDigits(rng *common.Rng, alphabet string, n int) string {
	var sb strings.Builder
	for i := 0; i < n; i++ {
		sb.WriteByte(alphabet[rng.Intn(len(alphabet))])
	}
	return sb.String()
}

func numLiterals(rng *common.Rng, n int) []string {
	var ls []string
	vals := u64s(rng)
	sizes := []string{"0", "00", "1", "2", "7", "8", "9", "15", "16", "17", "31", "32", "33", "63", "64", "65", "008", "100", "128",
		"512", "9223372036854775807999", "9223372036854775808", "99999999999999999999"}
	// boundary grid: every width 1..64 for the sized notations
	for w := 1; w <= 64; w++ {
		p := new(big).pow2(w)
		ws := strconv.Itoa(w)
		for _, pre := range []string{"0u", "0d"} {
			ls = append(ls, pre+"<"+ws+">"+p.minus1().dec(), pre+"<"+ws+">"+p.dec(), pre+"<"+ws+">0", pre+"<"+ws+">1")
		}
		ones := strings.Repeat("1", w)
		ls = append(ls, "0b"+ones, "0b<"+ws+">"+ones, "0b<"+ws+">1"+ones, "0b<"+ws+">0", "0b"+strings.Repeat("0", w),
			"0b<"+ws+">1"+strings.Repeat("0", w-1), "0b1"+strings.Repeat("0", w-1))
		if w%4 == 0 {
			fs := strings.Repeat("f", w/4)
			ls = append(ls, "0x"+fs, "0x<"+ws+">"+fs, "0x<"+ws+">1", "0x<"+ws+">0"+fs, "0x<"+ws+">1"+fs, "0x8"+strings.Repeat("0", w/4-1))
		}
	}
	for _, v := range vals {
		ls = append(ls, v, "0u"+v, "0d"+v, "0u"+v+".0", "0d"+v+".000", "0s"+v, "0s-"+v, "0sd"+v, "0sd-"+v)
	}
	for _, s := range sizes {
		ls = append(ls, "0u<"+s+">1", "0d<"+s+">0", "0b<"+s+">1", "0x<"+s+">1", "0x<"+s+">ff", "0b<"+s+">101")
	}
	ls = append(ls, "0u", "0d", "0s", "0s-", "0sd-", "0b", "0x", "0u<>1", "0u<8>", "0b<8>", "0x<8>", "0b<8>2", "0x<8>g", "0u<8>-1",
		"0u1.", "0u.0", "0u1.01", "0u1.0.0", "0s+1", "0s--1", "0sd1.0", "0b 1", " 1", "1 ", "+1", "-1", "1e3", "0u1\n", "\n1", "0x<8>FF",
		"0xFf", "0xABCDEF", "0xabcdef0123456789", "0x0", "0x00", "0x000", "0b0", "0b00000000", "0b000000001", "0x<16>ff", "0x<64>1",
		"0b<16>1", "0u<8>0255", "0u<08>255", "0b<3>0101", "0b<4>0101")
	// random structured literals
	for len(ls) < n {
		var s string
		switch rng.Intn(13) {
		case 0:
			s = vals[rng.Intn(len(vals))]
		case 1:
			s = "0u" + randDigits(rng, "0123456789", 1+rng.Intn(21))
		case 2:
			s = "0d" + randDigits(rng, "0123456789", 1+rng.Intn(21)) + "." + strings.Repeat("0", 1+rng.Intn(3))
		case 3, 4:
			w := 1 + rng.Intn(66)
			v := rng.Next()
			if w < 64 && !rng.Chance(1, 6) {
				v &= (uint64(1) << uint(w)) - 1
			}
			s = []string{"0u", "0d"}[rng.Intn(2)] + "<" + strconv.Itoa(w) + ">" + strconv.FormatUint(v, 10)
		case 5:
			s = []string{"0s", "0sd", "0s-", "0sd-"}[rng.Intn(4)] + strconv.FormatUint(rng.Next()>>uint(rng.Intn(64)), 10)
		case 6:
			s = "0b" + randDigits(rng, "01", 1+rng.Intn(80))
		case 7, 8:
			w := 1 + rng.Intn(80)
			l := 1 + rng.Intn(w+1)
			s = "0b<" + strconv.Itoa(w) + ">" + randDigits(rng, "01", l)
		case 9:
			s = "0x" + randDigits(rng, "0123456789abcdefABCDEF", 1+rng.Intn(20))
		case 10, 11:
			w := 8 * (1 + rng.Intn(12))
			if rng.Chance(1, 6) {
				w += rng.Intn(8)
			}
			l := 1 + rng.Intn(w/4+2)
			s = "0x<" + strconv.Itoa(w) + ">" + randDigits(rng, "0123456789abcdefABCDEF", l)
		case 12:
			s = mutate(rng, ls[rng.Intn(len(ls))])
		}
		ls = append(ls, s)
	}
	return ls
}

func cmdNums(n int) {
	spread()
	rng := common.NewRng(common.Seed()*104729 + 88)
	for _, s := range numLiterals(rng, n) {
		emitNum(rng, s)
	}
}

func cmdNumFile(path string) {
	spread()
	rng := common.NewRng(common.Seed()*104729 + 89)
	for _, l := range readLines(path) {
		emitNum(rng, unhx(l))
	}
}

// ---------------------------------------------------------------- float-like types: direct search

// F <family> <literal> <verdict> [details]; verdict: rt-ok | rt-FAIL | imp-err | exp-err
// valueFromPattern builds a typed value directly from a bit pattern (ImportBytes + CastType), so that
// the round trip starts from *every* representable value and not only from what ImportString can
// produce.  lit = pat:<type name>:<bits>:<hex of the pattern, big endian>
func valueFromPattern(lit string) (*bmnumbers.BMNumber, string) {
	f := strings.Split(lit, ":")
	if len(f) != 4 {
		return nil, "bad-pattern"
	}
	bits, err := strconv.Atoi(f[2])
	be, err2 := hex.DecodeString(f[3])
	if err != nil || err2 != nil || bits < 1 || len(be) != (bits-1)/8+1 {
		return nil, "bad-pattern"
	}
	bmnumbers.EventuallyCreateType(f[1], nil)
	t := bmnumbers.GetType(f[1])
	if t == nil {
		return nil, "no-type"
	}
	n, err := bmnumbers.ImportBytes(be, bits)
	if err != nil || n == nil {
		return nil, "err"
	}
	if err := bmnumbers.CastType(n, t); err != nil {
		return nil, "cast-err"
	}
	return n, "ok"
}

func floatCase(family, lit string) {
	res := common.Guard(func() string {
		var n *bmnumbers.BMNumber
		var st string
		if strings.HasPrefix(lit, "pat:") {
			n, st = valueFromPattern(lit)
		} else {
			n, st = importG(lit)
		}
		if n == nil {
			return "imp-" + st
		}
		es, err := n.ExportString(nil)
		if err != nil {
			return fmt.Sprintf("exp-err ty=%s bits=%s bytes=%s", n.GetTypeName(), bitsOf(n), leBytes(n))
		}
		m, st2 := importG(es)
		if m == nil {
			return fmt.Sprintf("rt-FAIL reimport=%s ty=%s bits=%s bytes=%s es=%s", st2, n.GetTypeName(), bitsOf(n), leBytes(n), show(es))
		}
		vb, _ := n.ExportVerilogBinary()
		wok := "w-ok"
		if i := strings.Index(vb, "'b"); i < 0 || strconv.Itoa(len(vb)-i-2) != bitsOf(n) {
			wok = "w-FAIL"
		}
		if m.GetTypeName() != n.GetTypeName() || bitsOf(m) != bitsOf(n) || leBytes(m) != leBytes(n) {
			return fmt.Sprintf("rt-FAIL %s ty=%s bits=%s bytes=%s es=%s rty=%s rbits=%s rbytes=%s", wok, n.GetTypeName(), bitsOf(n),
				leBytes(n), show(es), m.GetTypeName(), bitsOf(m), leBytes(m))
		}
		return fmt.Sprintf("rt-ok %s ty=%s bits=%s bytes=%s es=%s %s", wok, n.GetTypeName(), bitsOf(n), leBytes(n), show(es), omitFields(n))
	})
	out.Line("F %s %s %s", family, show(lit), res)
}

func fmtF(x float64) string { return strconv.FormatFloat(x, 'g', -1, 64) }

// linear quantiser ranges (exported field of the registered dynamical type)
var lqMax = map[int]float64{1: 1.0, 2: 3.3, 3: 0.7, 4: 1000.0, 5: 1e-3}

func setLQRanges() {
	for _, t := range bmnumbers.AllDynamicalTypes {
		if lq, ok := t.(bmnumbers.DynLinearQuantizer); ok && lq.Ranges != nil {
			for k, v := range lqMax {
				(*lq.Ranges)[k] = bmnumbers.LinearDataRange{Max: v}
			}
		}
	}
}

func patLit(name string, bits int, v uint64) string {
	nb := (bits-1)/8 + 1
	if bits < 64 {
		v &= (uint64(1) << uint(bits)) - 1
	}
	be := make([]byte, nb)
	for i := 0; i < nb; i++ {
		be[nb-1-i] = byte(v >> (8 * uint(i)))
	}
	return fmt.Sprintf("pat:%s:%d:%s", name, bits, hex.EncodeToString(be))
}

// bit patterns that use all significant bits of an s-bit word
func widePatterns(rng *common.Rng, s int, sweep bool) []uint64 {
	all := ^uint64(0)
	ps := []uint64{all, 0x5555555555555555, 0xAAAAAAAAAAAAAAAA, (uint64(1) << uint(s-1)) - 1, uint64(1) << uint(s-1),
		(uint64(1) << uint(s-1)) + 1, rng.Next(), rng.Next() | 1, 0x123456789ABCDEF1 >> uint(64-s), 0, 1}
	if sweep {
		for k := 1; k < s; k++ {
			ps = append(ps, (uint64(1)<<uint(k))-1, (uint64(1)<<uint(k))+1)
			if k%4 == 0 {
				ps = append(ps, all<<uint(k))
			}
		}
	}
	return ps
}

// pattern-first round trips: fixed point and FXP at every format s in 1..32, f in 0..s (plus a few
// larger f), float16/float32 over raw bit patterns, linear quantiser over bands
func patternCases(rng *common.Rng, n int) {
	for s := 1; s <= 32; s++ {
		for f := 0; f <= s; f++ {
			sweep := f == 0 || f == s-1 || (s*33+f)%11 == int(common.Seed()%11)
			for _, fam := range []string{"fps", "fxps"} {
				name := fmt.Sprintf("%ss%df%d", strings.TrimSuffix(fam, "s"), s, f)
				ps := widePatterns(rng, s, sweep && s >= 16)
				if !sweep { // keep the quick tier small: 5 patterns on the ordinary formats
					ps = []uint64{ps[0], ps[1+rng.Intn(2)], ps[3+rng.Intn(3)], ps[6], ps[8]}
				}
				for _, p := range ps {
					floatCase(fam, patLit(name, s, p))
				}
			}
		}
	}
	for i := 0; i < 40; i++ { // fractional part wider than the word
		s := 1 + rng.Intn(32)
		f := s + 1 + rng.Intn(62-s)
		for _, p := range widePatterns(rng, s, false)[:8] {
			floatCase("fps", patLit(fmt.Sprintf("fps%df%d", s, f), s, p))
			floatCase("fxps", patLit(fmt.Sprintf("fxps%df%d", s, f), s, p))
		}
	}
	isNaN32 := func(b uint32) bool { return b&0x7f800000 == 0x7f800000 && b&0x007fffff != 0 }
	isNaN16 := func(b uint16) bool { return b&0x7c00 == 0x7c00 && b&0x03ff != 0 }
	for i := 0; i < n/3; i++ {
		b := uint32(rng.Next())
		switch rng.Intn(6) {
		case 0:
			b &= 0x807fffff // denormals
		case 1:
			b = b&0x80000000 | 0x7f7fffff - uint32(rng.Intn(4)) // largest
		case 2:
			b = b&0x807fffff | uint32(1+rng.Intn(40))<<23 // tiny normals
		}
		if !isNaN32(b) { // NaN payloads are not representable in the text form: only the canonical NaN
			floatCase("float32", patLit("float32", 32, uint64(b)))
		}
		h := uint16(rng.Next())
		if rng.Chance(1, 4) {
			h &= 0x83ff
		}
		if !isNaN16(h) {
			floatCase("float16", patLit("float16", 16, uint64(h)))
		}
	}
	for _, b := range []uint32{0, 0x80000000, 1, 0x007fffff, 0x00800000, 0x7f7fffff, 0xff7fffff, 0x7f800000, 0xff800000, 0x7fc00000,
		0x3f800001, 0x3f7fffff, 0x4b7fffff, 0x4b800001} {
		floatCase("float32", patLit("float32", 32, uint64(b)))
	}
	for h := 0; h < 1<<16; h += 1 + int(common.Seed()%3) + 36 { // a stride through all float16 patterns
		if !isNaN16(uint16(h)) {
			floatCase("float16", patLit("float16", 16, uint64(h)))
		}
	}
	for i := 0; i < n/6; i++ { // linear quantiser bands (-(2^(s-1)) is not a band)
		s := 1 + rng.Intn(32)
		t := 1 + rng.Intn(5)
		p := widePatterns(rng, s, false)[rng.Intn(9)]
		if s < 64 && p&((uint64(1)<<uint(s))-1) == uint64(1)<<uint(s-1) {
			continue
		}
		floatCase("lqs", patLit(fmt.Sprintf("lqs%dt%d", s, t), s, p))
	}
}

func cmdFloats(n int) {
	spread()
	rng := common.NewRng(common.Seed()*15485863 + 808)
	setLQRanges()
	f32 := func() float64 {
		switch rng.Intn(8) {
		case 0:
			return float64(math.Float32frombits(uint32(rng.Next()))) // any bit pattern (may be NaN/Inf)
		case 1:
			return float64(float32(rng.Intn(2001)-1000) / 8)
		case 2:
			return float64(math.Float32frombits(uint32(rng.Intn(1 << 23)))) // denormals
		case 3:
			return float64(math.Float32frombits(0x7f7fffff - uint32(rng.Intn(16))))
		case 4:
			return math.Ldexp(float64(rng.Intn(1<<24)), -rng.Intn(150))
		case 5:
			return -math.Ldexp(float64(1+rng.Intn(1<<11)), rng.Intn(40)-24) // float16 range
		default:
			return float64(float32(math.Ldexp(float64(rng.Next()>>11), -53)*math.Pow(10, float64(rng.Intn(20)-10))))
		}
	}
	special := []string{"0", "-0", "1", "-1", "0.5", "1.5", "65504", "65520", "6.1e-5", "5.96e-8", "1e-30", "1e-40", "1e-46", "3.4028235e38",
		"3.5e38", "inf", "-inf", "+Inf", "NaN", "1e-21", "4e-4", "0.1", "1e10", "16777217", "1_0", "0x1p-2", ".5", "5.",
		"32.5", "300", "2", "3", "6", "16", "4.5", "8", "0.25", "23", "61", "3232", "1616.5"} // values starting with characters of the type prefixes (OmitPrefix)
	for _, s := range special {
		floatCase("float32", "0f"+s)
		floatCase("float32", "0f<32>"+s)
		floatCase("float16", "0f<16>"+s)
		floatCase("fps", "0fp<8.4>"+s)
		floatCase("fxps", "0fxp<16.8>"+s)
		floatCase("lqs", "0lq<8.2>"+s)
	}
	for i := 0; i < n; i++ {
		x := f32()
		switch i % 6 {
		case 0:
			floatCase("float32", "0f<32>"+fmtF(x))
		case 1:
			floatCase("float32", "0f"+strings.TrimPrefix(fmtF(x), "+"))
		case 2:
			floatCase("float16", "0f<16>"+fmtF(x))
		case 3, 4:
			s := 1 + rng.Intn(32)
			f := rng.Intn(s + 1)
			if rng.Chance(1, 10) {
				f = rng.Intn(40)
			}
			// a representable value: k / 2^f with k in the signed s-bit range
			lim := int64(1) << uint(s-1)
			k := int64(rng.Next()%uint64(2*lim)) - lim
			switch rng.Intn(6) {
			case 0:
				k = lim - 1
			case 1:
				k = -lim
			case 2:
				k = int64(rng.Intn(5)) - 2
			}
			v := math.Ldexp(float64(k), -f)
			fam, pre := "fps", "0fp<"
			if i%6 == 4 {
				fam, pre = "fxps", "0fxp<"
			}
			floatCase(fam, pre+strconv.Itoa(s)+"."+strconv.Itoa(f)+">"+strconv.FormatFloat(v, 'f', -1, 64))
		case 5:
			s := 1 + rng.Intn(32)
			t := 1 + rng.Intn(5)
			bands := int64(1) << uint(s-1)
			k := int64(rng.Next()%uint64(2*bands)) - bands
			if rng.Chance(1, 5) {
				k = []int64{bands - 1, -(bands - 1), 0, 1, -1}[rng.Intn(5)]
			}
			// the centre-free value the exporter itself would print for band k
			v := float64(k) * (lqMax[t] / float64(bands))
			floatCase("lqs", "0lq<"+strconv.Itoa(s)+"."+strconv.Itoa(t)+">"+strconv.FormatFloat(v, 'f', -1, 64))
		}
	}
	patternCases(rng, n)
}

// ---------------------------------------------------------------- ImportUint / ImportBytes / ExportUint64

// observables of a value that did not come from ImportString
func valueLine(n *bmnumbers.BMNumber) string {
	return common.Guard(func() string {
		var sb strings.Builder
		fmt.Fprintf(&sb, "ty=%s bits=%s bytes=%s", n.GetTypeName(), bitsOf(n), leBytes(n))
		if u, err := n.ExportUint64(); err != nil {
			sb.WriteString(" u64=!err")
		} else {
			fmt.Fprintf(&sb, " u64=%d", u)
		}
		es, eerr := n.ExportString(nil)
		fmt.Fprintf(&sb, " es=%s", strOrErr(es, eerr))
		fmt.Fprintf(&sb, " eb=%s", strOrErr(n.ExportBinary(false)))
		fmt.Fprintf(&sb, " ebs=%s", strOrErr(n.ExportBinary(true)))
		fmt.Fprintf(&sb, " vb=%s", strOrErr(n.ExportVerilogBinary()))
		if b, err := strconv.Atoi(bitsOf(n)); err == nil && b >= 1 && b <= 4096 {
			fmt.Fprintf(&sb, " nb=%d:%s", b, strOrErr(n.ExportBinaryNBits(b)))
		} else {
			sb.WriteString(" nb=-")
		}
		if ebs, err := n.ExportBinary(true); err != nil {
			sb.WriteString(" brt=err")
		} else if m, _ := importG(ebs); m == nil {
			sb.WriteString(" brt=err")
		} else {
			fmt.Fprintf(&sb, " brt=ok:%s:%s:%s", m.GetTypeName(), bitsOf(m), leBytes(m))
		}
		if eerr != nil {
			sb.WriteString(" rt=-")
		} else if m, st := importG(es); m == nil {
			fmt.Fprintf(&sb, " rt=%s", st)
		} else {
			fmt.Fprintf(&sb, " rt=ok rty=%s rbits=%s rbytes=%s", m.GetTypeName(), bitsOf(m), leBytes(m))
		}
		sb.WriteString(" " + omitFields(n))
		return sb.String()
	})
}

// V uint <w> <value> <optionalBits>      -> ImportUint(uintW(value), optionalBits)
// V show <w> <value> <type name>         -> ImportUint(uintW(value), t.GetSize()) then CastType(t)  (simulator show path)
// V bytes <bits> <hex big endian> <cast> -> ImportBytes(bytes, bits) then CastType to unsigned|hex|bin
func valueCase(f []string) {
	if len(f) < 5 {
		return
	}
	out.Line("%s", strings.Join(f[:5], " "))
	res := common.Guard(func() string {
		var n *bmnumbers.BMNumber
		var err error
		pre := ""
		switch f[1] {
		case "uint":
			v, e1 := strconv.ParseUint(f[3], 10, 64)
			ob, e2 := strconv.Atoi(f[4])
			if e1 != nil || e2 != nil {
				return "bad-case"
			}
			switch f[2] {
			case "8":
				n, err = bmnumbers.ImportUint(uint8(v), ob)
			case "16":
				n, err = bmnumbers.ImportUint(uint16(v), ob)
			case "32":
				n, err = bmnumbers.ImportUint(uint32(v), ob)
			case "64":
				n, err = bmnumbers.ImportUint(uint64(v), ob)
			default:
				return "bad-case"
			}
		case "show": // the simulator's show/report path: ImportUint(value, t.GetSize()); CastType(t)
			v, e1 := strconv.ParseUint(f[3], 10, 64)
			if e1 != nil {
				return "bad-case"
			}
			bmnumbers.EventuallyCreateType(f[4], nil)
			t := bmnumbers.GetType(f[4])
			if t == nil {
				return "imp=no-type"
			}
			pre = fmt.Sprintf("size=%d ", t.GetSize())
			switch f[2] {
			case "8":
				n, err = bmnumbers.ImportUint(uint8(v), t.GetSize())
			case "16":
				n, err = bmnumbers.ImportUint(uint16(v), t.GetSize())
			case "32":
				n, err = bmnumbers.ImportUint(uint32(v), t.GetSize())
			case "64":
				n, err = bmnumbers.ImportUint(uint64(v), t.GetSize())
			default:
				return "bad-case"
			}
			if err == nil && n != nil {
				if cerr := bmnumbers.CastType(n, t); cerr != nil {
					return pre + "imp=cast-err"
				}
			}
		case "bytes":
			bits, e1 := strconv.Atoi(f[2])
			be := []byte(unhx(f[3]))
			if e1 != nil {
				return "bad-case"
			}
			n, err = bmnumbers.ImportBytes(be, bits)
			if err == nil && n != nil && f[4] != "unsigned" {
				err = bmnumbers.CastType(n, bmnumbers.GetType(f[4]))
			}
		default:
			return "bad-case"
		}
		if err != nil || n == nil {
			return pre + "imp=err"
		}
		return pre + valueLine(n)
	})
	out.Line("VC %s %s", strings.Join(f[1:5], " "), res)
}

func u64Values(rng *common.Rng, n int) []uint64 {
	vs := []uint64{0, 1, 0x0102030405060708, 0x0807060504030201, 0xF1E2D3C4B5A69788, 0x8000000000000001, 0x00FF00FF00FF00FF,
		0xFF00FF00FF00FF00, 0x10000000000, 0x100000000, 0x0000010000000000, 0x0000FF0000000000, 0x000000FF00000000, ^uint64(0),
		0x123456789ABCDEF0, 0xDEADBEEFCAFEF00D}
	for k := 0; k < 64; k++ {
		p := uint64(1) << uint(k)
		vs = append(vs, p)
		if k%8 == 0 || k%8 == 7 {
			vs = append(vs, p-1, p+1)
		}
	}
	for b := 0; b < 8; b++ { // one non-zero byte, and every byte but one
		vs = append(vs, uint64(0xA5)<<uint(8*b), ^(uint64(0xFF) << uint(8*b)))
	}
	for i := 0; i < n; i++ {
		v := rng.Next()
		if rng.Chance(1, 4) {
			v >>= uint(rng.Intn(64))
		}
		vs = append(vs, v)
	}
	return vs
}

// GetSize() of every registered type (after the spread), de-duplicated: includes -1 (any size) and 0
func registeredSizes() []int {
	seen := map[int]bool{}
	var r []int
	for _, t := range bmnumbers.AllTypes {
		if s := t.GetSize(); !seen[s] && s <= 64 { // an unsigned text holds at most 64 bits (wider sizes: FloPoCo types only)
			seen[s] = true
			r = append(r, s)
		}
	}
	sort.Ints(r)
	return r
}

// values outside the text form's reach: NaN payloads, the quantiser's non-band -2^(s-1)
func showable(tn string, w int, m uint64) bool {
	switch {
	case tn == "float32":
		return !(m&0x7f800000 == 0x7f800000 && m&0x007fffff != 0)
	case tn == "float16":
		return !(m&0x7c00 == 0x7c00 && m&0x03ff != 0)
	case strings.HasPrefix(tn, "lqs"):
		sz := w
		if t := bmnumbers.GetType(tn); t != nil && t.GetSize() > 0 {
			sz = t.GetSize()
		}
		if sz < 64 {
			m &= (uint64(1) << uint(sz)) - 1
		}
		return m != uint64(1)<<uint(sz-1)
	}
	return true
}

func cmdUints(n int) {
	spread()
	rng := common.NewRng(common.Seed()*2750159 + 8008)
	setLQRanges()
	sizes := registeredSizes()
	// every type family at its own register width, and (since repo_patches/C08-importuint-width.diff and
	// C08-signed-narrow-export.diff) also registers narrower / wider than a sized type and narrow signed
	showTypes := map[int][]string{
		8:  {"unsigned", "hex", "bin", "fps8f4", "fxps8f3", "lqs8t1", "fps8f0", "lqs8t2", "signed", "float32", "float16", "lqs16t1", "fps16f8", "fxps32f16"},
		16: {"unsigned", "hex", "bin", "float16", "fps16f8", "fxps16f15", "lqs16t3", "signed", "float32", "fps8f4", "lqs32t2", "float16"},
		32: {"unsigned", "hex", "bin", "float32", "fps32f16", "fxps32f31", "lqs32t4", "signed", "float16", "fps12f5", "lqs8t1", "float32"},
		64: {"unsigned", "signed", "hex", "bin", "float32", "float16", "fps32f16", "fxps8f4", "lqs16t3", "signed"},
	}
	for vi, v := range u64Values(rng, n) {
		for _, w := range []int{8, 16, 32, 64} {
			m := v
			if w < 64 {
				m &= (uint64(1) << uint(w)) - 1
			}
			ob := 0
			switch rng.Intn(10) {
			case 0:
				ob = 1 + rng.Intn(64)
			case 1, 2: // the GetSize() of some registered type, sentinels included (-1 = any size, 0)
				ob = sizes[rng.Intn(len(sizes))]
			case 3:
				ob = -1
			}
			valueCase([]string{"V", "uint", strconv.Itoa(w), strconv.FormatUint(m, 10), strconv.Itoa(ob)})
			// the simulator's show path with a type that can hold a w-bit register
			ts := showTypes[w]
			for k := 0; k < 2; k++ {
				tn := ts[(vi*2+k+w)%len(ts)]
				bmnumbers.EventuallyCreateType(tn, nil)
				if showable(tn, w, m) {
					valueCase([]string{"V", "show", strconv.Itoa(w), strconv.FormatUint(m, 10), tn})
				}
			}
		}
		if vi%16 == 0 { // a type of size 0: ImportUint keeps the native width and CastType must refuse
			valueCase([]string{"V", "show", "8", strconv.FormatUint(v&0xff, 10), []string{"fps0f0", "lqs0t0", "fxps0f0", "fps0f4"}[(vi/16)%4]})
		}
		// the same value through ImportBytes, as unsigned (64 bits), hex and bin
		be := make([]byte, 8)
		for i := 0; i < 8; i++ {
			be[7-i] = byte(v >> (8 * uint(i)))
		}
		valueCase([]string{"V", "bytes", "64", hex.EncodeToString(be), "unsigned"})
		valueCase([]string{"V", "bytes", "64", hex.EncodeToString(be), "hex"})
		valueCase([]string{"V", "bytes", "64", hex.EncodeToString(be), "bin"})
		// narrower / wider byte strings: k bytes, bits = 8k (hex), masked to bits (bin, unsigned <= 64)
		k := 1 + rng.Intn(12)
		bs := make([]byte, k)
		for i := range bs {
			bs[i] = byte(rng.Next())
		}
		valueCase([]string{"V", "bytes", strconv.Itoa(8 * k), hex.EncodeToString(bs), "hex"})
		bits := 8*(k-1) + 1 + rng.Intn(8)
		bs2 := append([]byte{}, bs...)
		bs2[0] &= byte(0xFF >> uint(8*k-bits))
		valueCase([]string{"V", "bytes", strconv.Itoa(bits), hex.EncodeToString(bs2), "bin"})
		if k <= 8 {
			valueCase([]string{"V", "bytes", strconv.Itoa(bits), hex.EncodeToString(bs2), "unsigned"})
		}
	}
}

func main() {
	defer out.Flush()
	if len(os.Args) < 2 {
		fmt.Fprintln(os.Stderr, "usage: c08 matchers|regex n|check file|nums n|numfile file|floats n|floatfile file|uints n|uintfile file")
		os.Exit(2)
	}
	arg := func(i int, def int) int {
		if len(os.Args) > i {
			if v, err := strconv.Atoi(os.Args[i]); err == nil {
				return v
			}
		}
		return def
	}
	_ = utf8.RuneError
	switch os.Args[1] {
	case "matchers":
		cmdMatchers()
	case "regex":
		cmdRegex(arg(2, 2000))
	case "check":
		cmdCheck(os.Args[2])
	case "nums":
		cmdNums(arg(2, 1500))
	case "numfile":
		cmdNumFile(os.Args[2])
	case "floats":
		cmdFloats(arg(2, 3000))
	case "uints":
		cmdUints(arg(2, 300))
	case "uintfile": // lines: V uint <w> <value> <optionalBits> | V bytes <bits> <hex> <cast>
		spread()
		for _, l := range readLines(os.Args[2]) {
			valueCase(strings.Fields(l))
		}
	case "floatfile": // lines: <family> <hex literal>
		spread()
		setLQRanges()
		for _, l := range readLines(os.Args[2]) {
			f := strings.Fields(l)
			if len(f) == 2 {
				floatCase(f[0], unhx(f[1]))
			}
		}
	default:
		fmt.Fprintln(os.Stderr, "unknown subcommand")
		os.Exit(2)
	}
}
