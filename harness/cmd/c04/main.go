// C04 harness: one producer (r2owa) bonded to k consumers (i2rw) in a real bondmachine.VM; programs
// vary the instruction mix and padding so that every phase offset between the agents occurs.
//
//	N <k>
//	D <op:delay,...>                 simulated per-opcode latencies of this case (may be empty)
//	M <idx> A <arch line>            architecture of processor idx (0 = producer, 1..k consumers)
//	M <idx> S <source line> ...      program source
//	M <idx> P <words>                assembled program
//	M <idx> IO <pc,pc,...>           program addresses of the IO instructions on the bond
//	M <idx> H <sexp> | H err ...     the processor's generated Verilog (a0 + p0 + p0rom), parsed
//	T
//	G pre=<pc,..> post=<pc,..> v=<valid> d=<data> r=<recv,..> df=<deferred,..> rv=<recv seen by producer>
//	...                              one G line per VM.Step
//	W <values written, in order of completion>
//	R <i> <values captured by consumer i, in order>
//
// Usage: c04 gen <machines> <ticks> | c04 replay <file>   (replay file: N / M..S lines and "TICKS n")
package main

import (
	"bufio"
	"fmt"
	"os"
	"sort"
	"strconv"
	"strings"

	"bmvh/common"
	"bmvh/vlog"

	"github.com/BondMachineHQ/BondMachine/pkg/bmreqs"
	"github.com/BondMachineHQ/BondMachine/pkg/bondmachine"
	"github.com/BondMachineHQ/BondMachine/pkg/procbuilder"
	"github.com/BondMachineHQ/BondMachine/pkg/simbox"
)

var out = common.NewOut(os.Stdout)

func mkMachine(opnames []string, n, m, o int, src []string) (*procbuilder.Machine, error) {
	all := map[string]procbuilder.Opcode{}
	for _, op := range procbuilder.Allopcodes {
		all[op.Op_get_name()] = op
	}
	mc := new(procbuilder.Machine)
	a := &mc.Arch
	a.Rsize = 8
	a.R = 1
	a.N = uint8(n)
	a.M = uint8(m)
	a.L = 0
	a.O = uint8(o)
	a.Modes = []string{"ha"}
	ops := []procbuilder.Opcode{}
	for _, nm := range opnames {
		ops = append(ops, all[nm])
	}
	sort.Sort(procbuilder.ByName(ops))
	a.Op = ops
	prog, err := a.Assembler([]byte(strings.Join(src, "\n") + "\n"))
	if err != nil {
		return nil, err
	}
	mc.Program = prog
	return mc, nil
}

// hdlSexp renders arch + processor + ROM of one machine with the real generators and parses them
func hdlSexp(m *procbuilder.Machine) string {
	res := common.Guard(func() string {
		conf := new(procbuilder.Config)
		rg := bmreqs.NewReqRoot()
		defer rg.Close()
		conf.ReqRoot = rg
		conf.Runinfo = new(procbuilder.RuntimeInfo)
		conf.Runinfo.Init()
		names := map[string]string{"processor": "p0", "rom": "p0rom", "ram": "p0ram"}
		files := map[string]string{
			"a0.v":    m.Arch.Write_verilog("a0", names, "iverilog"),
			"p0.v":    m.Arch.Conproc.Write_verilog(conf, &m.Arch, "p0", "iverilog"),
			"p0rom.v": m.Arch.Rom.Write_verilog(m, "p0rom", "iverilog"),
		}
		d, err := vlog.ParseFiles(files)
		if err != nil {
			return "err " + strings.ReplaceAll(err.Error(), "\n", " ")
		}
		return vlog.ToSexp(d)
	})
	if strings.HasPrefix(res, "panic") {
		res = "err " + res
	}
	return res
}

var prodOps = []string{"inc", "j", "nop", "r2owa"}
var consOps = []string{"i2rw", "j", "nop"}

func archLine(ops []string, n, m, o int) string {
	s := append([]string{}, ops...)
	sort.Strings(s)
	return fmt.Sprintf("A 8 1 %d %d 0 %d ha 0 ops=%s", n, m, o, strings.Join(s, ","))
}

func pad(r *common.Rng, max int) []string {
	k := r.Intn(max + 1)
	var l []string
	for i := 0; i < k; i++ {
		l = append(l, "nop")
	}
	return l
}

func genProducer(r *common.Rng) []string {
	var l []string
	n := 1 + r.Intn(3) // writes per loop
	for i := 0; i < n; i++ {
		if r.Chance(2, 3) {
			l = append(l, "inc r0")
		}
		l = append(l, pad(r, 3)...)
		l = append(l, "r2owa r0 o0")
		if r.Chance(1, 3) { // back to back on the same output
			l = append(l, "r2owa r0 o0")
		}
	}
	l = append(l, pad(r, 2)...)
	l = append(l, "j 0")
	if len(l) > 16 {
		l = append(l[:15], "j 0")
	}
	return l
}

func genConsumer(r *common.Rng) []string {
	var l []string
	n := 1 + r.Intn(3)
	for i := 0; i < n; i++ {
		l = append(l, pad(r, 4)...)
		l = append(l, "i2rw r"+strconv.Itoa(r.Intn(2))+" i0")
		if r.Chance(1, 3) { // back to back on the same input
			l = append(l, "i2rw r"+strconv.Itoa(r.Intn(2))+" i0")
		}
	}
	l = append(l, "j 0")
	if len(l) > 16 {
		l = append(l[:15], "j 0")
	}
	return l
}

func ioAddrs(src []string, op string) []int {
	var a []int
	for i, l := range src {
		if strings.HasPrefix(l, op+" ") {
			a = append(a, i)
		}
	}
	return a
}

func ints(a []int) string {
	p := make([]string, len(a))
	for i, v := range a {
		p[i] = strconv.Itoa(v)
	}
	return strings.Join(p, ",")
}

func b2s(b bool) string {
	if b {
		return "1"
	}
	return "0"
}

func u8(x interface{}) int {
	if v, ok := x.(uint8); ok {
		return int(v)
	}
	return -1
}

// delays: per-opcode simulated latencies (simbox.SimDelays with one certain value each), "" = none
func runCase(srcs [][]string, ticks int, delays string) {
	k := len(srcs) - 1
	out.Line("N %d", k)
	out.Line("D %s", delays)
	bm := new(bondmachine.Bondmachine)
	bm.Rsize = 8
	bm.Init()
	var ioaddr [][]int
	for i, src := range srcs {
		var mc *procbuilder.Machine
		var err error
		if i == 0 {
			out.Line("M 0 %s", archLine(prodOps, 0, 1, 4))
			mc, err = mkMachine(prodOps, 0, 1, 4, src)
			ioaddr = append(ioaddr, ioAddrs(src, "r2owa"))
		} else {
			out.Line("M %d %s", i, archLine(consOps, 1, 0, 4))
			mc, err = mkMachine(consOps, 1, 0, 4, src)
			ioaddr = append(ioaddr, ioAddrs(src, "i2rw"))
		}
		for _, l := range src {
			out.Line("M %d S %s", i, l)
		}
		if err != nil {
			out.Line("M %d P err %v", i, err)
			out.Flush()
			return
		}
		out.Line("M %d P %s", i, strings.Join(mc.Program.Slocs, " "))
		out.Line("M %d IO %s", i, ints(ioaddr[i]))
		out.Line("M %d H %s", i, hdlSexp(mc))
		bm.Domains = append(bm.Domains, mc)
		bm.Add_processor(len(bm.Domains) - 1)
	}
	for i := 1; i <= k; i++ {
		bm.Add_bond([]string{fmt.Sprintf("p%di0", i), "p0o0"})
	}
	vm := new(bondmachine.VM)
	vm.Bmach = bm
	if delays != "" {
		sd := simbox.NewSimDelays()
		for _, kv := range strings.Split(delays, ",") {
			f := strings.SplitN(kv, ":", 2)
			d, _ := strconv.Atoi(f[1])
			sd.OpcodeDelays[f[0]] = simbox.DelayDistribution{int32(d): 1.0}
		}
		vm.SimDelayMap = sd
	}
	res := common.Guard(func() string {
		if err := vm.Init(); err != nil {
			return "T err " + err.Error()
		}
		if err := vm.Launch_processors(new(simbox.Simbox)); err != nil {
			return "T err " + err.Error()
		}
		return "T"
	})
	out.Line("%s", res)
	if res != "T" {
		out.Flush()
		return
	}
	defer vm.Shutdown()
	var written []int
	recvd := make([][]int, k+1)
	isIO := func(p int, pc int) bool {
		for _, a := range ioaddr[p] {
			if a == pc {
				return true
			}
		}
		return false
	}
	for t := 0; t < ticks; t++ {
		pre := make([]int, k+1)
		dl := make([]int, k+1)
		for i := range pre {
			pre[i] = int(vm.Processors[i].Pc)
			dl[i] = int(vm.Processors[i].DelayCounter)
		}
		seen := vm.Processors[0].OutputsRecv[0] // as left by the previous tick's movement; refreshed in Step
		_ = seen
		r := common.Guard(func() string {
			if _, err := vm.Step(nil); err != nil {
				return "G err"
			}
			return ""
		})
		if r != "" {
			out.Line("%s", r)
			break
		}
		post := make([]int, k+1)
		for i := range post {
			post[i] = int(vm.Processors[i].Pc)
		}
		p0 := vm.Processors[0]
		// completion of a write / a read = the pc left the IO instruction
		if isIO(0, pre[0]) && dl[0] == 0 && post[0] != pre[0] {
			written = append(written, u8(p0.Outputs[0]))
		}
		var rs, dfs []string
		for i := 1; i <= k; i++ {
			c := vm.Processors[i]
			rs = append(rs, b2s(c.InputsRecv[0]))
			_, pend := c.DeferredInstructions["waitRecvI2rw0"]
			dfs = append(dfs, b2s(pend))
			if isIO(i, pre[i]) && dl[i] == 0 && post[i] != pre[i] {
				// the destination register of the i2rw just executed
				f := strings.Fields(srcs[i][pre[i]])
				reg, _ := strconv.Atoi(strings.TrimPrefix(f[1], "r"))
				recvd[i] = append(recvd[i], u8(c.Registers[reg]))
			}
		}
		out.Line("G pre=%s post=%s dl=%s v=%s d=%d r=%s df=%s rv=%s", ints(pre), ints(post), ints(dl), b2s(p0.OutputsValid[0]), u8(p0.Outputs[0]),
			strings.Join(rs, ","), strings.Join(dfs, ","), b2s(p0.OutputsRecv[0]))
	}
	out.Line("W %s", ints(written))
	for i := 1; i <= k; i++ {
		out.Line("R %d %s", i, ints(recvd[i]))
	}
	out.Flush()
}

func main() {
	if len(os.Args) < 2 {
		fmt.Fprintln(os.Stderr, "usage: c04 gen <machines> <ticks> | replay <file>")
		os.Exit(2)
	}
	switch os.Args[1] {
	case "gen":
		n, _ := strconv.Atoi(os.Args[2])
		ticks, _ := strconv.Atoi(os.Args[3])
		r := common.NewRng(common.Seed())
		for c := 0; c < n; c++ {
			k := 1 + r.Intn(3)
			srcs := [][]string{genProducer(r)}
			for i := 0; i < k; i++ {
				srcs = append(srcs, genConsumer(r))
			}
			delays := ""
			if r.Chance(1, 2) { // simulated per-opcode latencies: relative speeds vary without changing the programs
				var ds []string
				for _, op := range []string{"nop", "i2rw", "r2owa", "inc", "j"} {
					if r.Chance(1, 3) {
						ds = append(ds, op+":"+strconv.Itoa(1+r.Intn(8)))
					}
				}
				delays = strings.Join(ds, ",")
			}
			runCase(srcs, ticks, delays)
		}
	case "replay":
		f, err := os.Open(os.Args[2])
		if err != nil {
			fmt.Fprintln(os.Stderr, err)
			os.Exit(2)
		}
		sc := bufio.NewScanner(f)
		var srcs [][]string
		ticks := 200
		delays := ""
		flush := func() {
			if len(srcs) > 0 {
				runCase(srcs, ticks, delays)
			}
			srcs = nil
			delays = ""
		}
		for sc.Scan() {
			l := sc.Text()
			switch {
			case strings.HasPrefix(l, "N "):
				flush()
			case strings.HasPrefix(l, "D "):
				delays = strings.TrimSpace(strings.TrimPrefix(l, "D "))
			case l == "D":
			case strings.HasPrefix(l, "TICKS "):
				ticks, _ = strconv.Atoi(strings.TrimPrefix(l, "TICKS "))
			case strings.HasPrefix(l, "M "):
				f := strings.SplitN(l, " ", 4)
				if len(f) == 4 && f[2] == "S" {
					idx, _ := strconv.Atoi(f[1])
					for len(srcs) <= idx {
						srcs = append(srcs, nil)
					}
					srcs[idx] = append(srcs[idx], f[3])
				}
			}
		}
		flush()
	}
	out.Flush()
}
