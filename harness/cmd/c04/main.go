// C04 harness: nets of processors joined by handshaked bonds (r2owa on the producer's output, i2rw
// on every bonded consumer input) in a real bondmachine.VM; programs vary the instruction mix and
// padding so that every phase offset between the agents occurs.  A net has P processors with
// N_i inputs and M_i outputs and B bonds; bond b joins output (pp, op) to the inputs (cp_j, ip_j).
//
//	N <P> <B>
//	D <op:delay,...>                 simulated per-opcode latencies of this case (may be empty)
//	M <idx> A <arch line>            architecture of processor idx
//	M <idx> S <source line> ...      program source
//	M <idx> P <words>                assembled program
//	M <idx> H <sexp> | H err ...     the processor's generated Verilog (a0 + p0 + p0rom), parsed
//	B <b> <pp> <op> <cp>:<ip>,...    bond b; pp = "e": the producer is the ENVIRONMENT on BondMachine input <op>;
//	                                 cp = "e": a consumer is the environment on BondMachine output <ip>
//	ENV <seed>                       seed of the environment's stall pattern
//	IO <b> <idx> <pc,pc,...>         program addresses of processor idx's IO instructions on bond b
//	T
//	G pre=<pc,..> post=<pc,..> dl=<delay counters> v<b>=<valid> d<b>=<data> rv<b>=<recv seen by producer>
//	  r<b>=<recv,..> df<b>=<deferred pending,..> ps<b>=<write completed> cs<b>=<captured,..>
//	  wp<b>=<producer at its IO instruction> wc<b>=<consumers at theirs>        one G line per VM.Step
//	W <b> <values written on bond b, in order of completion>
//	R <b> <j> <values captured by the j-th consumer of bond b, in order>
//
// Usage: c04 gen <nets> <ticks> | c04 replay <file>
// (replay file: N / D / B lines, M..A and M..S lines, "TICKS n")
package main

import (
	"bufio"
	"fmt"
	"os"
	"sort"
	"strconv"
	"strings"

	"bmvh/common"
	"bmvh/vlog"

	"github.com/BondMachineHQ/BondMachine/pkg/bmreqs"
	"github.com/BondMachineHQ/BondMachine/pkg/bondmachine"
	"github.com/BondMachineHQ/BondMachine/pkg/procbuilder"
	"github.com/BondMachineHQ/BondMachine/pkg/simbox"
)

var out = common.NewOut(os.Stdout)

type end struct{ p, port int }

type bond struct {
	prod end
	cons []end
}

type proc struct {
	n, m int
	sic  bool // the processor also has sicv3 (wait for an input change, counts the wait) in its opcode set
	src  []string
}

type netCase struct {
	procs   []proc
	bonds   []bond
	sicBond map[int]bool // bonds with a consumer that reads them with sicv3: not a data transfer, not compared
	delays  string
	envSeed uint64
}

// The environment follows the handshake exactly as a processor does (r2owa on its side of a
// BondMachine input, i2rw + the deferred drop of recv on its side of a BondMachine output), with an
// arbitrary stall pattern: in every tick it either stays away or goes for its next transfer.
type envProd struct {
	atIO, valid bool
	next, data  int
	sent        []int
}

type envCons struct {
	atIO, recv, deferred bool
	got                  []int
}

func (e *envProd) step(want, recvIn bool) {
	if !(e.atIO || want) {
		return
	}
	switch {
	case !e.valid && recvIn: // stale recv of the previous transfer: wait
		e.atIO = true
	case recvIn:
		e.atIO, e.valid, e.data = false, false, e.next
		e.sent = append(e.sent, e.next)
		e.next++
	default:
		e.atIO, e.valid, e.data = true, true, e.next
	}
}

func (e *envCons) step(want, validIn bool, dataIn int) {
	if e.deferred && !validIn {
		e.recv, e.deferred = false, false
	}
	if !(e.atIO || want) {
		return
	}
	switch {
	case validIn && e.recv:
		e.atIO = true
	case validIn:
		e.got = append(e.got, dataIn)
		e.recv, e.deferred, e.atIO = true, true, false
	default:
		e.recv, e.atIO = false, true
	}
}

func opsOf(p proc) []string {
	ops := []string{"inc", "j", "nop"}
	if p.m > 0 {
		ops = append(ops, "r2owa")
	}
	if p.n > 0 {
		ops = append(ops, "i2rw")
	}
	if p.sic {
		ops = append(ops, "sicv3")
	}
	sort.Strings(ops)
	return ops
}

func mkMachine(p proc) (*procbuilder.Machine, error) {
	all := map[string]procbuilder.Opcode{}
	for _, op := range procbuilder.Allopcodes {
		all[op.Op_get_name()] = op
	}
	mc := new(procbuilder.Machine)
	a := &mc.Arch
	a.Rsize = 8
	a.R = 1
	a.N = uint8(p.n)
	a.M = uint8(p.m)
	a.L = 0
	a.O = 5
	a.Modes = []string{"ha"}
	ops := []procbuilder.Opcode{}
	for _, nm := range opsOf(p) {
		ops = append(ops, all[nm])
	}
	sort.Sort(procbuilder.ByName(ops))
	a.Op = ops
	prog, err := a.Assembler([]byte(strings.Join(p.src, "\n") + "\n"))
	if err != nil {
		return nil, err
	}
	mc.Program = prog
	return mc, nil
}

// hdlSexp renders arch + processor + ROM of one machine with the real generators and parses them
func hdlSexp(m *procbuilder.Machine) string {
	res := common.Guard(func() string {
		conf := new(procbuilder.Config)
		rg := bmreqs.NewReqRoot()
		defer rg.Close()
		conf.ReqRoot = rg
		conf.Runinfo = new(procbuilder.RuntimeInfo)
		conf.Runinfo.Init()
		// the comment option must not change the hardware: on for every other program
		conf.Commented_verilog = len(m.Program.Slocs)%2 == 1
		names := map[string]string{"processor": "p0", "rom": "p0rom", "ram": "p0ram"}
		files := map[string]string{
			"a0.v":    m.Arch.Write_verilog("a0", names, "iverilog"),
			"p0.v":    m.Arch.Conproc.Write_verilog(conf, &m.Arch, "p0", "iverilog"),
			"p0rom.v": m.Arch.Rom.Write_verilog(m, "p0rom", "iverilog"),
		}
		d, err := vlog.ParseFiles(files)
		if err != nil {
			return "err " + strings.ReplaceAll(err.Error(), "\n", " ")
		}
		return vlog.ToSexp(d)
	})
	if strings.HasPrefix(res, "panic") {
		res = "err " + res
	}
	return res
}

func archLine(p proc) string {
	return fmt.Sprintf("A 8 1 %d %d 0 5 ha 0 ops=%s", p.n, p.m, strings.Join(opsOf(p), ","))
}

func pad(r *common.Rng, max int) []string {
	k := r.Intn(max + 1)
	var l []string
	for i := 0; i < k; i++ {
		l = append(l, "nop")
	}
	return l
}

func ints(a []int) string {
	p := make([]string, len(a))
	for i, v := range a {
		p[i] = strconv.Itoa(v)
	}
	return strings.Join(p, ",")
}

func b2s(b bool) string {
	if b {
		return "1"
	}
	return "0"
}

func bools(a []bool) string {
	p := make([]string, len(a))
	for i, v := range a {
		p[i] = b2s(v)
	}
	return strings.Join(p, ",")
}

func u8(x interface{}) int {
	if v, ok := x.(uint8); ok {
		return int(v)
	}
	return -1
}

// ioOn: does this source line perform IO on the given port as producer (out=true) or consumer?
func ioOn(line string, out bool, port int) bool {
	f := strings.Fields(line)
	if len(f) != 3 {
		return false
	}
	if out {
		return f[0] == "r2owa" && f[2] == "o"+strconv.Itoa(port)
	}
	return (f[0] == "i2rw" || f[0] == "sicv3") && f[2] == "i"+strconv.Itoa(port)
}

func ioAddrs(src []string, out bool, port int) []int {
	var a []int
	for i, l := range src {
		if ioOn(l, out, port) {
			a = append(a, i)
		}
	}
	return a
}

// genNet: a random net.  Every processor walks the bonds it takes part in in increasing bond order
// once per loop (all parties of a "doubled" bond access it twice back to back), which keeps the net
// free of dead-lock whatever the speeds; everything else (ports, fan-out, padding, registers, chains of
// processors that both read and write) is random.
func genNet(r *common.Rng) netCase {
	var nc netCase
	shape := r.Intn(10)
	var P int
	switch {
	case shape < 4: // the classic: one producer, k consumers, one bond (ports anywhere)
		P = 2 + r.Intn(3)
	default:
		P = 2 + r.Intn(4)
	}
	nc.procs = make([]proc, P)
	for i := range nc.procs {
		nc.procs[i].n = r.Intn(4)
		nc.procs[i].m = r.Intn(4)
	}
	usedIn := map[end]bool{}
	usedOut := map[end]bool{}
	addBond := func(pp int, cons []int) {
		// free output port of pp (grow the processor when there is none)
		p := &nc.procs[pp]
		var free []int
		for o := 0; o < p.m; o++ {
			if !usedOut[end{pp, o}] {
				free = append(free, o)
			}
		}
		if len(free) == 0 {
			if p.m >= 4 {
				return
			}
			p.m++
			free = []int{p.m - 1}
		}
		b := bond{prod: end{pp, free[r.Intn(len(free))]}}
		for _, c := range cons {
			q := &nc.procs[c]
			var fi []int
			for i := 0; i < q.n; i++ {
				if !usedIn[end{c, i}] {
					fi = append(fi, i)
				}
			}
			if len(fi) == 0 {
				if q.n >= 4 {
					continue
				}
				q.n++
				fi = []int{q.n - 1}
			}
			e := end{c, fi[r.Intn(len(fi))]}
			usedIn[e] = true
			b.cons = append(b.cons, e)
		}
		if len(b.cons) == 0 {
			return
		}
		usedOut[b.prod] = true
		nc.bonds = append(nc.bonds, b)
	}
	if shape < 4 {
		var cons []int
		for i := 1; i < P; i++ {
			cons = append(cons, i)
		}
		addBond(0, cons)
	} else {
		nb := 2 + r.Intn(3)
		for k := 0; k < nb; k++ {
			pp := r.Intn(P)
			var cons []int
			for c := 0; c < P; c++ {
				// data flows from lower to higher numbers (plus now and then a second input of the same
				// consumer from the same producer): acyclic
				if c > pp && r.Chance(1, 2) {
					cons = append(cons, c)
					if r.Chance(1, 6) {
						cons = append(cons, c)
					}
				}
			}
			if len(cons) == 0 && pp+1 < P {
				cons = []int{pp + 1 + r.Intn(P-pp-1)}
			}
			if len(cons) > 0 {
				addBond(pp, cons)
			}
		}
		if len(nc.bonds) == 0 {
			addBond(0, []int{1})
		}
	}
	nc.envSeed = r.Next()
	if r.Chance(2, 5) { // the environment takes part: BondMachine inputs and outputs with stall patterns
		nIn, nOut := 0, 0
		for k := 1 + r.Intn(2); k > 0; k-- {
			// (a BondMachine input bonded straight to a BondMachine output involves no processor: not generated)
			if b := r.Intn(len(nc.bonds)); r.Bool() && nc.bonds[b].prod.p >= 0 {
				nc.bonds[b].cons = append(nc.bonds[b].cons, end{-1, nOut})
				nOut++
			} else {
				b := bond{prod: end{-1, nIn}}
				for c := 0; c < P; c++ {
					if !r.Chance(1, 2) {
						continue
					}
					q := &nc.procs[c]
					var fi []int
					for i := 0; i < q.n; i++ {
						if !usedIn[end{c, i}] {
							fi = append(fi, i)
						}
					}
					if len(fi) == 0 {
						if q.n >= 4 {
							continue
						}
						q.n++
						fi = []int{q.n - 1}
					}
					e := end{c, fi[r.Intn(len(fi))]}
					usedIn[e] = true
					b.cons = append(b.cons, e)
				}
				if len(b.cons) > 0 {
					nc.bonds = append(nc.bonds, b)
					nIn++
				}
			}
		}
	}
	dbl := make([]bool, len(nc.bonds))
	for b := range dbl {
		dbl[b] = r.Chance(1, 3)
	}
	// sicv3 on one input of a processor that has another, i2rw-read, input: the instruction acknowledges
	// its input without taking a value (it counts the wait), so its bond is not a transfer and is left
	// out of the comparisons; it is there to disturb the processor's other handshakes
	nc.sicBond = map[int]bool{}
	sicEnd := map[end]bool{}
	for b, bd := range nc.bonds {
		if bd.prod.p < 0 || !r.Chance(1+len(bd.cons), 2+2*len(bd.cons)) || len(bd.cons) == 1 && !r.Chance(1, 2) {
			continue // (fanned-out bonds are taken more often: the other consumers keep the producer going)
		}
		// one consumer end of the bond (a processor) reads it with sicv3; the other consumers, if
		// any, keep reading with i2rw
		c := bd.cons[r.Intn(len(bd.cons))]
		if c.p < 0 {
			continue
		}
		other := false
		for b2, bd2 := range nc.bonds {
			for _, c2 := range bd2.cons {
				if b2 != b && c2.p == c.p && !nc.sicBond[b2] {
					other = true
				}
			}
		}
		if other || len(bd.cons) > 1 {
			nc.sicBond[b] = true
			sicEnd[c] = true
			nc.procs[c.p].sic = true
		}
	}
	rounds := 1 + r.Intn(2)
	for i := range nc.procs {
		var l []string
		for rd := 0; rd < rounds; rd++ {
			for b, bd := range nc.bonds {
				var lines []string
				if bd.prod.p == i {
					if r.Chance(2, 3) {
						l = append(l, "inc r0")
					}
					reg := 0
					if r.Chance(1, 5) {
						reg = 1 // relays whatever was read last
					}
					lines = append(lines, fmt.Sprintf("r2owa r%d o%d", reg, bd.prod.port))
				}
				for _, c := range bd.cons {
					if c.p == i {
						if sicEnd[c] {
							lines = append(lines, fmt.Sprintf("sicv3 r%d i%d", r.Intn(2), c.port))
							if r.Chance(1, 2) { // other work right after the acknowledge
								lines = append(lines, pad(r, 4)...)
							}
						} else {
							lines = append(lines, fmt.Sprintf("i2rw r%d i%d", r.Intn(2), c.port))
						}
					}
				}
				if len(lines) == 0 {
					continue
				}
				if r.Chance(2, 3) {
					l = append(l, pad(r, 3)...)
				}
				n := 1
				if dbl[b] {
					n = 2
				}
				for k := 0; k < n; k++ {
					l = append(l, lines...)
				}
			}
		}
		l = append(l, pad(r, 2)...)
		l = append(l, "j 0")
		if len(l) > 32 {
			// (cannot happen with the sizes above; kept as a guard for replay files)
			l = append(l[:31], "j 0")
		}
		nc.procs[i].src = l
	}
	if r.Chance(1, 5) {
		// one consumer's program ends (no closing jump) right after one of its reads: the processor halts
		// with its acknowledge still up and the deferred release still pending, while the other parties
		// go on.  (Hardware has no halt -- it would run whatever the ROM holds past the program -- so such
		// nets are compared in the simulator only.)
		var cand []int
		for i, p := range nc.procs {
			for _, l := range p.src {
				if strings.HasPrefix(l, "i2rw ") {
					cand = append(cand, i)
					break
				}
			}
		}
		if len(cand) > 0 {
			i := cand[r.Intn(len(cand))]
			var at []int
			for k, l := range nc.procs[i].src {
				if strings.HasPrefix(l, "i2rw ") {
					at = append(at, k)
				}
			}
			k := at[r.Intn(len(at))]
			nc.procs[i].src = append(append([]string{}, nc.procs[i].src[:k+1]...), pad(r, 2)...)
		}
	}
	if r.Chance(1, 2) { // simulated per-opcode latencies: relative speeds vary without changing the programs
		var ds []string
		for _, op := range []string{"nop", "i2rw", "r2owa", "inc", "j"} {
			if r.Chance(1, 3) {
				ds = append(ds, op+":"+strconv.Itoa(1+r.Intn(8)))
			}
		}
		nc.delays = strings.Join(ds, ",")
	}
	return nc
}

func endName(e end, out bool) string {
	if e.p < 0 {
		if out {
			return "i" + strconv.Itoa(e.port) // a BondMachine input drives
		}
		return "o" + strconv.Itoa(e.port)
	}
	if out {
		return fmt.Sprintf("p%do%d", e.p, e.port)
	}
	return fmt.Sprintf("p%di%d", e.p, e.port)
}

func runCase(nc netCase, ticks int) {
	P, B := len(nc.procs), len(nc.bonds)
	out.Line("N %d %d", P, B)
	out.Line("D %s", nc.delays)
	out.Line("ENV %d", nc.envSeed)
	bm := new(bondmachine.Bondmachine)
	bm.Rsize = 8
	bm.Init()
	for i, p := range nc.procs {
		out.Line("M %d %s", i, archLine(p))
		mc, err := mkMachine(p)
		for _, l := range p.src {
			out.Line("M %d S %s", i, l)
		}
		if err != nil {
			out.Line("M %d P err %v", i, err)
			out.Flush()
			return
		}
		out.Line("M %d P %s", i, strings.Join(mc.Program.Slocs, " "))
		out.Line("M %d H %s", i, hdlSexp(mc))
		bm.Domains = append(bm.Domains, mc)
		bm.Add_processor(len(bm.Domains) - 1)
	}
	// external ports used by the environment's ends
	for _, bd := range nc.bonds {
		if bd.prod.p < 0 {
			for bm.Inputs <= bd.prod.port {
				bm.Add_input()
			}
		}
		for _, c := range bd.cons {
			if c.p < 0 {
				for bm.Outputs <= c.port {
					bm.Add_output()
				}
			}
		}
	}
	// per bond and party: the addresses of the IO instructions
	ioP := make([][]int, B)
	ioC := make([][][]int, B)
	pn := func(e end) string {
		if e.p < 0 {
			return "e"
		}
		return strconv.Itoa(e.p)
	}
	for b, bd := range nc.bonds {
		var cs []string
		for _, c := range bd.cons {
			cs = append(cs, fmt.Sprintf("%s:%d", pn(c), c.port))
			bm.Add_bond([]string{endName(c, false), endName(bd.prod, true)})
		}
		out.Line("B %d %s %d %s", b, pn(bd.prod), bd.prod.port, strings.Join(cs, ","))
		if nc.sicBond[b] {
			// positions (in the consumer list) of the ends read with sicv3
			var pos []string
			for j, c := range bd.cons {
				if c.p >= 0 {
					for _, l := range nc.procs[c.p].src {
						if f := strings.Fields(l); len(f) == 3 && f[0] == "sicv3" && f[2] == "i"+strconv.Itoa(c.port) {
							pos = append(pos, strconv.Itoa(j))
							break
						}
					}
				}
			}
			out.Line("SIC %d %s", b, strings.Join(pos, ","))
		}
		if bd.prod.p >= 0 {
			ioP[b] = ioAddrs(nc.procs[bd.prod.p].src, true, bd.prod.port)
			out.Line("IO %d %d %s", b, bd.prod.p, ints(ioP[b]))
		}
		ioC[b] = make([][]int, len(bd.cons))
		for j, c := range bd.cons {
			if c.p >= 0 {
				ioC[b][j] = ioAddrs(nc.procs[c.p].src, false, c.port)
				out.Line("IO %d %d:%d %s", b, c.p, c.port, ints(ioC[b][j]))
			}
		}
	}
	vm := new(bondmachine.VM)
	vm.Bmach = bm
	if nc.delays != "" {
		sd := simbox.NewSimDelays()
		for _, kv := range strings.Split(nc.delays, ",") {
			f := strings.SplitN(kv, ":", 2)
			d, _ := strconv.Atoi(f[1])
			sd.OpcodeDelays[f[0]] = simbox.DelayDistribution{int32(d): 1.0}
		}
		vm.SimDelayMap = sd
	}
	res := common.Guard(func() string {
		if err := vm.Init(); err != nil {
			return "T err " + err.Error()
		}
		if err := vm.Launch_processors(new(simbox.Simbox)); err != nil {
			return "T err " + err.Error()
		}
		return "T"
	})
	out.Line("%s", res)
	if res != "T" {
		out.Flush()
		return
	}
	defer vm.Shutdown()
	// half of the nets are run the way `bondmachine -sim` and SinglePipelineSimulate run them: a second VM
	// takes a snapshot of the live one after every tick (it must not disturb it)
	var snap *bondmachine.VM
	if nc.envSeed%2 == 0 {
		snap = new(bondmachine.VM)
		snap.Bmach = bm
		snap.SimDelayMap = vm.SimDelayMap
		if err := snap.Init(); err != nil {
			snap = nil
		}
	}
	for i := range vm.Inputs_regs {
		vm.Inputs_regs[i] = uint8(0)
	}
	written := make([][]int, B)
	recvd := make([][][]int, B)
	eprod := make([]*envProd, B)
	econs := make([][]*envCons, B)
	for b, bd := range nc.bonds {
		recvd[b] = make([][]int, len(bd.cons))
		econs[b] = make([]*envCons, len(bd.cons))
		if bd.prod.p < 0 {
			eprod[b] = &envProd{}
		}
		for j, c := range bd.cons {
			if c.p < 0 {
				econs[b][j] = &envCons{}
			}
		}
	}
	er := common.NewRng(nc.envSeed)
	stall := 1 + er.Intn(4) // the environment goes for a transfer in one tick out of `stall`
	in := func(a []int, pc int) bool {
		for _, x := range a {
			if x == pc {
				return true
			}
		}
		return false
	}
	for t := 0; t < ticks; t++ {
		pre := make([]int, P)
		dl := make([]int, P)
		for i := range pre {
			pre[i] = int(vm.Processors[i].Pc)
			dl[i] = int(vm.Processors[i].DelayCounter)
		}
		// what the environment sees of the machine's ports before this tick, and whether it acts in it
		type esample struct {
			want, b bool
			d       int
		}
		eps := make([]esample, B)
		ecs := make([][]esample, B)
		for b, bd := range nc.bonds {
			if eprod[b] != nil {
				eps[b] = esample{want: er.Intn(stall) == 0, b: vm.InputsRecv[bd.prod.port]}
			}
			ecs[b] = make([]esample, len(bd.cons))
			for j, c := range bd.cons {
				if econs[b][j] != nil {
					ecs[b][j] = esample{want: er.Intn(stall) == 0, b: vm.OutputsValid[c.port], d: u8(vm.Outputs_regs[c.port])}
				}
			}
		}
		r := common.Guard(func() string {
			if _, err := vm.Step(nil); err != nil {
				return "G err"
			}
			return ""
		})
		if r != "" {
			out.Line("%s", r)
			break
		}
		post := make([]int, P)
		for i := range post {
			post[i] = int(vm.Processors[i].Pc)
		}
		var sb strings.Builder
		fmt.Fprintf(&sb, "G pre=%s post=%s dl=%s", ints(pre), ints(post), ints(dl))
		for b, bd := range nc.bonds {
			var v, rv, ps, wp bool
			var d int
			if e := eprod[b]; e != nil {
				wp = e.atIO || eps[b].want
				n0 := len(e.sent)
				e.step(eps[b].want, eps[b].b)
				vm.InputsValid[bd.prod.port] = e.valid
				vm.Inputs_regs[bd.prod.port] = uint8(e.data)
				ps = len(e.sent) != n0
				if ps {
					written[b] = append(written[b], e.sent[n0]%256)
				}
				v, d, rv = e.valid, e.data%256, eps[b].b
			} else {
				pp := vm.Processors[bd.prod.p]
				wp = in(ioP[b], pre[bd.prod.p]) && dl[bd.prod.p] == 0
				// completion of a write / a read = the pc left the IO instruction
				ps = wp && post[bd.prod.p] != pre[bd.prod.p]
				if ps {
					written[b] = append(written[b], u8(pp.Outputs[bd.prod.port]))
				}
				v, d, rv = pp.OutputsValid[bd.prod.port], u8(pp.Outputs[bd.prod.port]), pp.OutputsRecv[bd.prod.port]
			}
			var rs, dfs, cs, wc []bool
			for j, c := range bd.cons {
				if e := econs[b][j]; e != nil {
					wc = append(wc, e.atIO || ecs[b][j].want)
					n0 := len(e.got)
					e.step(ecs[b][j].want, ecs[b][j].b, ecs[b][j].d)
					vm.OutputsRecv[c.port] = e.recv
					cs = append(cs, len(e.got) != n0)
					recvd[b][j] = e.got
					rs = append(rs, e.recv)
					dfs = append(dfs, e.deferred)
					continue
				}
				cp := vm.Processors[c.p]
				rs = append(rs, cp.InputsRecv[c.port])
				_, pend := cp.DeferredInstructions["waitRecvI2rw"+strconv.Itoa(c.port)]
				dfs = append(dfs, pend)
				w := in(ioC[b][j], pre[c.p]) && dl[c.p] == 0
				wc = append(wc, w)
				done := w && post[c.p] != pre[c.p]
				cs = append(cs, done)
				if done {
					// the destination register of the i2rw just executed
					f := strings.Fields(nc.procs[c.p].src[pre[c.p]])
					reg, _ := strconv.Atoi(strings.TrimPrefix(f[1], "r"))
					recvd[b][j] = append(recvd[b][j], u8(cp.Registers[reg]))
				}
			}
			fmt.Fprintf(&sb, " v%d=%s d%d=%d rv%d=%s r%d=%s df%d=%s ps%d=%s cs%d=%s wp%d=%s wc%d=%s", b, b2s(v), b, d, b, b2s(rv), b, bools(rs), b, bools(dfs),
				b, b2s(ps), b, bools(cs), b, b2s(wp), b, bools(wc))
		}
		out.Line("%s", sb.String())
		if snap != nil {
			if r := common.Guard(func() string {
				if err := snap.CopyState(vm); err != nil {
					return "G err"
				}
				return ""
			}); r != "" {
				out.Line("G err")
				break
			}
		}
	}
	for b := range nc.bonds {
		out.Line("W %d %s", b, ints(written[b]))
		for j := range nc.bonds[b].cons {
			out.Line("R %d %d %s", b, j, ints(recvd[b][j]))
		}
	}
	out.Line("E")
	out.Flush()
}

func atoi(s string) int { v, _ := strconv.Atoi(s); return v }

func main() {
	if len(os.Args) < 2 {
		fmt.Fprintln(os.Stderr, "usage: c04 gen <nets> <ticks> | replay <file>")
		os.Exit(2)
	}
	switch os.Args[1] {
	case "gen":
		n, _ := strconv.Atoi(os.Args[2])
		ticks, _ := strconv.Atoi(os.Args[3])
		r := common.NewRng(common.Seed())
		for c := 0; c < n; c++ {
			runCase(genNet(r), ticks)
		}
	case "replay":
		f, err := os.Open(os.Args[2])
		if err != nil {
			fmt.Fprintln(os.Stderr, err)
			os.Exit(2)
		}
		sc := bufio.NewScanner(f)
		sc.Buffer(make([]byte, 1<<20), 1<<26)
		var nc *netCase
		ticks := 200
		flush := func() {
			if nc != nil && len(nc.procs) > 0 {
				runCase(*nc, ticks)
			}
			nc = nil
		}
		for sc.Scan() {
			l := sc.Text()
			switch {
			case strings.HasPrefix(l, "N "):
				flush()
				nc = &netCase{}
			case nc == nil:
			case strings.HasPrefix(l, "D "):
				nc.delays = strings.TrimSpace(strings.TrimPrefix(l, "D "))
			case l == "D":
			case strings.HasPrefix(l, "SIC "):
				if nc.sicBond == nil {
					nc.sicBond = map[int]bool{}
				}
				nc.sicBond[atoi(strings.Fields(l)[1])] = true
			case strings.HasPrefix(l, "ENV "):
				nc.envSeed, _ = strconv.ParseUint(strings.TrimSpace(strings.TrimPrefix(l, "ENV ")), 10, 64)
			case strings.HasPrefix(l, "TICKS "):
				ticks, _ = strconv.Atoi(strings.TrimPrefix(l, "TICKS "))
			case strings.HasPrefix(l, "B "):
				f := strings.Fields(l)
				if len(f) >= 5 {
					pidx := func(s string) int {
						if s == "e" {
							return -1
						}
						return atoi(s)
					}
					b := bond{prod: end{pidx(f[2]), atoi(f[3])}}
					for _, c := range strings.Split(f[4], ",") {
						q := strings.SplitN(c, ":", 2)
						if len(q) == 2 {
							b.cons = append(b.cons, end{pidx(q[0]), atoi(q[1])})
						}
					}
					nc.bonds = append(nc.bonds, b)
				}
			case strings.HasPrefix(l, "M "):
				f := strings.SplitN(l, " ", 4)
				if len(f) < 4 {
					continue
				}
				idx := atoi(f[1])
				for len(nc.procs) <= idx {
					nc.procs = append(nc.procs, proc{})
				}
				switch f[2] {
				case "S":
					nc.procs[idx].src = append(nc.procs[idx].src, f[3])
				case "A":
					// "A 8 1 <n> <m> ..." (f[3] starts after "M i A")
					q := strings.Fields(f[3])
					if len(q) >= 4 {
						nc.procs[idx].n = atoi(q[2])
						nc.procs[idx].m = atoi(q[3])
						nc.procs[idx].sic = strings.Contains(f[3], "sicv3")
					}
				}
			}
		}
		flush()
	}
	out.Flush()
}
