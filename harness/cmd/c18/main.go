// C18 harness: builds machines, calls the real Bondmachine.Write_verilog inside a scratch
// directory, reads back the whole emitted file set, parses it with bmvh/vlog and ships it to the
// Lean oracle (BMV.Vlog: elaborate + Design.lint + module-level checks).
//
// Protocol (one machine):
//
//	M <json spec>                 the machine description: everything needed to rebuild it (replay)
//	K <so-model facts>            facts the shared-object header model needs (kinds, links, ops)
//	W ok | W panic:<text> | W err <text>      outcome of Write_verilog itself
//	T <file> ...                  test benches found in the set and excluded (not designs)
//	P <file> <class> <line>:<col> <message>    reader error of one file (syntax / unsupported / lex)
//	Q <module> ...                modules named in files the reader could not parse (treated as opaque)
//	X <module> ...                external-IP allow-list that applies (vendor primitives)
//	V <sexp>                      the parsed files (one S-expression)
//	E                             end of machine
//
// Usage:
//
//	c18 gen <quick|thorough> <scratch-root>       the enumerated family (seeded by VERIF_SEED)
//	c18 replay <file> <scratch-root>              re-run the spec lines ("M …") of a file
//	c18 dump <file> <scratch-root> <outdir>       as replay, and keep the emitted files under outdir/<n>/
package main

import (
	"bufio"
	"encoding/json"
	"fmt"
	"os"
	"path/filepath"
	"regexp"
	"sort"
	"strconv"
	"strings"

	"bmvh/basmdump"
	"bmvh/common"
	"bmvh/vlog"

	"github.com/BondMachineHQ/BondMachine/pkg/basm"
	"github.com/BondMachineHQ/BondMachine/pkg/bmconfig"
	"github.com/BondMachineHQ/BondMachine/pkg/bminfo"
	"github.com/BondMachineHQ/BondMachine/pkg/bmline"
	"github.com/BondMachineHQ/BondMachine/pkg/bmnumbers"
	"github.com/BondMachineHQ/BondMachine/pkg/bmreqs"
	"github.com/BondMachineHQ/BondMachine/pkg/bondmachine"
	"github.com/BondMachineHQ/BondMachine/pkg/procbuilder"
	"github.com/BondMachineHQ/BondMachine/pkg/simbox"
)

var out = basmdump.Protocol() // also silences the chatter of the real packages on stdout

// ---------- machine description ----------

type procSpec struct {
	R        int      `json:"r"`
	N        int      `json:"n"`
	M        int      `json:"m"`
	L        int      `json:"l"`
	O        int      `json:"o"`
	Mode     string   `json:"mode"`
	WordSize int      `json:"ws,omitempty"`
	Threaded int      `json:"thr,omitempty"`
	Ops      []string `json:"ops"`
	Prog     []string `json:"prog,omitempty"` // procbuilder assembly lines for the ROM
	Req      []string `json:"req,omitempty"`  // assembly lines whose destination / source registers are recorded in the requirement sets (through the opcodes' own HLAssemblerNormalize, as basm does): what the hw optimisations consult
}

type spec struct {
	Kind      string            `json:"kind"` // family tag: iso:<opcode>, mix, so:<kind>x<k>, basm, ...
	Rsize     int               `json:"rsize"`
	Procs     []procSpec        `json:"procs,omitempty"`
	ProcDom   []int             `json:"procdom,omitempty"` // processor i is built from domain ProcDom[i] (`procs` are then the domains); empty = identity
	Sos       []string          `json:"sos,omitempty"`     // "barrier:0", "queue:4", ...
	Links     [][2]int          `json:"links,omitempty"`   // (processor, shared object)
	Inputs    int               `json:"inputs,omitempty"`
	Outputs   int               `json:"outputs,omitempty"`
	Bonds     [][2]string       `json:"bonds,omitempty"`
	Flavor    string            `json:"flavor"`
	HwOpt     []string          `json:"hwopt,omitempty"`
	Commented bool              `json:"commented,omitempty"`
	Basm      string            `json:"basm,omitempty"` // front-end produced machine: BASM source text
	NilSimbox bool              `json:"nilsimbox,omitempty"`
	IOmap     map[string]string `json:"iomap,omitempty"`   // board flavors: machine IO -> board port
	OpOrder   string            `json:"oporder,omitempty"` // "rev" | "rot": the machine is saved (Jsoner), the "Op" array of every domain reversed / rotated, and loaded again (Dejsoner) - the path of `bondmachine -bondmachine-file`, which does not sort
}

func allOps() map[string]procbuilder.Opcode {
	all := map[string]procbuilder.Opcode{}
	for _, op := range procbuilder.Allopcodes {
		all[op.Op_get_name()] = op
	}
	return all
}

// buildBM constructs the machine through the same API calls the CLIs use.
func buildBM(s *spec) (*bondmachine.Bondmachine, *bondmachine.Config, error) {
	conf := new(bondmachine.Config)
	conf.CommentedVerilog = s.Commented
	for _, h := range s.HwOpt {
		if id := procbuilder.HwOptimizationId(h); id != 0 {
			conf.HwOptimizations = procbuilder.SetHwOptimization(conf.HwOptimizations, id)
		}
	}
	if s.Basm != "" {
		bi := new(basm.BasmInstance)
		bi.BMinfo = new(bminfo.BMinfo)
		bi.BasmInstanceInit(nil)
		bi.Activate(bmconfig.ChooserMinWordSize)
		if err := bi.ParseAssemblyStringDefault(s.Basm); err != nil {
			return nil, nil, fmt.Errorf("basm parse: %v", err)
		}
		if err := bi.RunAssembler(); err != nil {
			return nil, nil, fmt.Errorf("basm passes: %v", err)
		}
		if err := bi.Assembler2BondMachine(); err != nil {
			return nil, nil, fmt.Errorf("basm create: %v", err)
		}
		reqs := bi.DumpRequirements()
		rg, err := bmreqs.Import(&reqs)
		if err != nil {
			return nil, nil, fmt.Errorf("bmreqs import: %v", err)
		}
		conf.ReqRoot = rg
		return bi.GetBondMachine(), conf, nil
	}
	conf.ReqRoot = bmreqs.NewReqRoot()
	for _, p := range s.Procs {
		for _, o := range p.Ops {
			if _, err := procbuilder.EventuallyCreateInstruction(o); err != nil {
				return nil, nil, fmt.Errorf("dynamic opcode %s: %v", o, err)
			}
		}
	}
	all := allOps()
	bm := new(bondmachine.Bondmachine)
	bm.Rsize = uint8(s.Rsize)
	bm.Init()
	for i := 0; i < s.Inputs; i++ {
		bm.Add_input()
	}
	for i := 0; i < s.Outputs; i++ {
		bm.Add_output()
	}
	for _, p := range s.Procs {
		m := new(procbuilder.Machine)
		a := &m.Arch
		a.Rsize = uint8(s.Rsize)
		a.R, a.N, a.M, a.L, a.O = uint8(p.R), uint8(p.N), uint8(p.M), uint8(p.L), uint8(p.O)
		a.Modes = []string{p.Mode}
		a.WordSize = uint8(p.WordSize)
		a.Threaded = p.Threaded
		ops := make([]procbuilder.Opcode, 0)
		for _, n := range p.Ops {
			op, ok := all[n]
			if !ok {
				return nil, nil, fmt.Errorf("no opcode %s", n)
			}
			ops = append(ops, op)
		}
		sort.Sort(procbuilder.ByName(ops))
		a.Op = ops
		if len(p.Prog) > 0 {
			prog, err := a.Assembler([]byte(strings.Join(p.Prog, "\n") + "\n"))
			if err != nil {
				return nil, nil, fmt.Errorf("assembler: %v", err)
			}
			m.Program = prog
		}
		bm.Domains = append(bm.Domains, m)
	}
	procDom := s.ProcDom
	if len(procDom) == 0 {
		for i := range s.Procs {
			procDom = append(procDom, i)
		}
	}
	for _, d := range procDom {
		if _, err := bm.Add_processor(d); err != nil {
			return nil, nil, err
		}
	}
	if len(s.Sos) > 0 {
		bm.Add_shared_objects(s.Sos)
		if len(bm.Shared_objects) != len(s.Sos) {
			return nil, nil, fmt.Errorf("shared objects not instantiated: %v", s.Sos)
		}
	}
	for _, l := range s.Links {
		bm.Connect_processor_shared_object([]string{strconv.Itoa(l[0]), strconv.Itoa(l[1])})
	}
	for _, b := range s.Bonds {
		bm.Add_bond([]string{b[0], b[1]})
	}
	// requirement sets of the processors, recorded the way basm records them
	for pi, di := range bm.Processors {
		if di >= len(s.Procs) || len(s.Procs[di].Req) == 0 {
			continue
		}
		rg := conf.ReqRoot
		node := "/bm:cps/id:" + strconv.Itoa(pi)
		rg.Requirement(bmreqs.ReqRequest{Node: "/", T: bmreqs.ObjectSet, Name: "bm", Value: "cps", Op: bmreqs.OpAdd})
		rg.Requirement(bmreqs.ReqRequest{Node: "/bm:cps", T: bmreqs.ObjectSet, Name: "id", Value: strconv.Itoa(pi), Op: bmreqs.OpAdd})
		arch := &bm.Domains[di].Arch
		for _, l := range s.Procs[di].Req {
			f := strings.Fields(l)
			if len(f) == 0 {
				continue
			}
			bl := new(bmline.BasmLine)
			bl.Operation = new(bmline.BasmElement)
			bl.Operation.SetValue(f[0])
			for _, a := range f[1:] {
				e := new(bmline.BasmElement)
				e.SetValue(a)
				bl.Elements = append(bl.Elements, e)
			}
			for _, op := range arch.Op {
				if op.Op_get_name() == f[0] {
					func() {
						defer func() { recover() }()
						op.HLAssemblerNormalize(arch, rg, node, bl)
					}()
				}
			}
		}
	}
	if s.OpOrder != "" {
		bmj := bm.Jsoner()
		for _, d := range bmj.Domains {
			n := len(d.Op)
			ops := append([]string{}, d.Op...)
			for i := range ops {
				switch s.OpOrder {
				case "rev":
					d.Op[i] = ops[n-1-i]
				case "rot":
					d.Op[i] = ops[(i+1)%n]
				}
			}
		}
		js, err := json.Marshal(bmj)
		if err != nil {
			return nil, nil, err
		}
		back := new(bondmachine.Bondmachine_json)
		if err := json.Unmarshal(js, back); err != nil {
			return nil, nil, err
		}
		bm = back.Dejsoner()
	}
	return bm, conf, nil
}

// ---------- emission ----------

var scratchRoot string
var caseNo int
var keepDir string

var signedDeclRe = regexp.MustCompile(`\b(input|output|wire|reg|parameter|localparam)(\s+reg)?\s+signed\b`)
var signedFnRe = regexp.MustCompile(`\$(un)?signed\b`)

func unsign(src string) string {
	src = signedDeclRe.ReplaceAllString(src, "$1$2")
	return signedFnRe.ReplaceAllString(src, "")
}

// generate-for loops of the one shape /repo emits,
//
//	genvar X; generate for (X = a; X < b; X = X + 1) begin <items without declarations> end endgenerate
//
// with literal bounds, are unrolled textually before parsing (b - a copies of the items, X replaced by
// the number): that is what elaboration of a generate loop does when the block declares nothing.  Any
// other use of generate / genvar is left alone and rejected by the reader (file not lintable).
var genHeadRe = regexp.MustCompile(`genvar\s+(\w+)\s*;\s*generate\s*for\s*\(\s*(\w+)\s*=\s*(\d+)\s*;\s*(\w+)\s*<\s*(\d+)\s*;\s*(\w+)\s*=\s*(\w+)\s*\+\s*1\s*\)\s*begin`)
var genDeclRe = regexp.MustCompile(`\b(reg|wire|integer|genvar|parameter|localparam)\b`)

// pendingChannelHalf: a processor with wrd but not wwr (or the reverse) references the other opcode's
// registers (wwr_ch / wrd_ch), and one with wrd / wwr but neither chc nor chw references reset_flag_ch,
// which only chc / chw declare (undeclared) — a defect of the unchanged tree that only shows
// once the generate loops are unrolled; reported to the integrator.  Until it is listed the files of such
// processors are not unrolled (they stay not-lintable, as before).  Set to true afterwards.
const pendingChannelHalf = true

var genBitRe = regexp.MustCompile(`(\w+)\s*\[\s*(\w+)\s*\]\s*<=`)

// ungenerate returns the unrolled text and the registers that the loop bodies assign bit-wise by the loop
// variable (one always block per bit after unrolling: legal, but `Design.lint` counts drivers per signal)
func ungenerate(src string) (string, bool, []string) {
	var bitRegs []string
	changed := false
	for iter := 0; iter < 64; iter++ {
		m := genHeadRe.FindStringSubmatchIndex(src)
		if m == nil {
			break
		}
		g := func(k int) string { return src[m[2*k]:m[2*k+1]] }
		v := g(1)
		if g(2) != v || g(4) != v || g(6) != v || g(7) != v {
			break
		}
		lo, _ := strconv.Atoi(g(3))
		hi, _ := strconv.Atoi(g(5))
		rest := src[m[1]:]
		e := strings.Index(rest, "endgenerate")
		if e < 0 || hi-lo > 64 {
			break
		}
		body := strings.TrimRight(rest[:e], " \t\r\n")
		if !strings.HasSuffix(body, "end") {
			break
		}
		body = body[:len(body)-3]
		if genDeclRe.MatchString(body) {
			break
		}
		for _, bmm := range genBitRe.FindAllStringSubmatch(body, -1) {
			if bmm[2] == v {
				bitRegs = append(bitRegs, bmm[1])
			}
		}
		vr := regexp.MustCompile(`\b` + regexp.QuoteMeta(v) + `\b`)
		var sb strings.Builder
		for k := lo; k < hi; k++ {
			sb.WriteString(vr.ReplaceAllString(body, strconv.Itoa(k)))
			sb.WriteString("\n")
		}
		src = src[:m[0]] + sb.String() + rest[e+len("endgenerate"):]
		changed = true
	}
	return src, changed, bitRegs
}

var moduleRe = regexp.MustCompile(`(?m)^\s*module\s+([A-Za-z_][A-Za-z0-9_$]*)`)

// vendor primitives instantiated by board flavors / helper files: a *named* external-IP list
var externalIP = []string{"IBUFDS", "IBUF", "OBUF", "BUFG", "MMCME2_BASE", "PLLE2_BASE", "SB_PLL40_CORE", "SB_PLL40_PAD", "SB_IO", "altpll"}

func emit(s *spec) {
	caseNo++
	js, _ := json.Marshal(s)
	out.Line("M %s", js)
	dir := filepath.Join(scratchRoot, fmt.Sprintf("m%d", caseNo))
	os.RemoveAll(dir)
	if err := os.MkdirAll(dir, 0o755); err != nil {
		out.Line("W err scratch: %v", err)
		out.Line("E")
		out.Flush()
		return
	}
	old, _ := os.Getwd()
	var bm *bondmachine.Bondmachine
	res := common.Guard(func() string {
		var conf *bondmachine.Config
		var err error
		bm, conf, err = buildBM(s)
		if err != nil {
			return "err build: " + err.Error()
		}
		if err := os.Chdir(dir); err != nil {
			return "err chdir: " + err.Error()
		}
		defer os.Chdir(old)
		var sb *simbox.Simbox
		if !s.NilSimbox {
			sb = new(simbox.Simbox)
		}
		iomap := new(bondmachine.IOmap)
		iomap.Assoc = map[string]string{}
		for k, v := range s.IOmap {
			iomap.Assoc[k] = v
		}
		if err := bm.Write_verilog(conf, s.Flavor, iomap, nil, sb); err != nil {
			return "err write_verilog: " + err.Error()
		}
		return "ok"
	})
	os.Chdir(old)
	if bm != nil {
		out.Line("K %s", soFacts(bm))
		out.Line("D %s", describe(bm))
	}
	out.Line("W %s", strings.ReplaceAll(res, "\n", " "))
	// whatever was written is linted, also after a panic (the CLI leaves those files behind too)
	ents, _ := os.ReadDir(dir)
	var names []string
	for _, e := range ents {
		if !e.IsDir() && strings.HasSuffix(e.Name(), ".v") {
			names = append(names, e.Name())
		}
	}
	sort.Strings(names)
	var tbs, opaque, unsigned, unrolled []string
	good := map[string]string{}
	for _, n := range names {
		b, err := os.ReadFile(filepath.Join(dir, n))
		if err != nil {
			continue
		}
		if strings.HasSuffix(n, "_tb.v") || n == "testbench.v" {
			tbs = append(tbs, n)
			continue
		}
		// signedness does not matter to any class of this lint (declared names, ports, drivers):
		// `signed` in declarations and `$signed(...)` are removed from the text that is parsed, so that
		// the float / fixed-point helper modules can be read; the files concerned are listed (line G)
		if stripped := unsign(string(b)); stripped != string(b) {
			b = []byte(stripped)
			unsigned = append(unsigned, n)
		}
		if un, ok, regs := ungenerate(string(b)); ok && (pendingChannelHalf || !halfChannel(bm, n)) {
			b = []byte(un)
			unrolled = append(unrolled, n+":"+strings.Join(regs, ","))
		}
		if _, err := vlog.ParseFile(n, string(b)); err != nil {
			cls, pos, msg := "syntax", "0:0", err.Error()
			if ve, ok := err.(*vlog.Error); ok {
				cls, pos, msg = ve.Class, fmt.Sprintf("%d:%d", ve.Pos.Line, ve.Pos.Col), ve.Msg
			}
			srcLine := ""
			if ve, ok := err.(*vlog.Error); ok {
				ls := strings.Split(string(b), "\n")
				if ve.Pos.Line >= 1 && ve.Pos.Line <= len(ls) {
					srcLine = strings.Join(strings.Fields(ls[ve.Pos.Line-1]), " ")
					if len(srcLine) > 400 {
						srcLine = srcLine[:400]
					}
				}
			}
			out.Line("P %s %s %s %s ## %s", n, cls, pos, strings.ReplaceAll(msg, "\n", " "), srcLine)
			for _, m := range moduleRe.FindAllStringSubmatch(string(b), -1) {
				opaque = append(opaque, m[1])
			}
			continue
		}
		good[n] = string(b)
	}
	if len(tbs) > 0 {
		out.Line("T %s", strings.Join(tbs, " "))
	}
	if len(opaque) > 0 {
		out.Line("Q %s", strings.Join(opaque, " "))
	}
	if len(unsigned) > 0 {
		out.Line("G %s", strings.Join(unsigned, " "))
	}
	if len(unrolled) > 0 {
		out.Line("U %s", strings.Join(unrolled, " "))
	}
	out.Line("X %s", strings.Join(externalIP, " "))
	if len(good) > 0 {
		d, err := vlog.ParseFiles(good)
		if err != nil {
			// each file parsed alone: this is a cross-file error (module defined twice)
			out.Line("P * redefinition 0:0 %s", strings.ReplaceAll(err.Error(), "\n", " "))
		} else {
			out.Line("V %s", vlog.ToSexp(d))
		}
	}
	out.Line("E")
	out.Flush()
	if keepDir != "" {
		dst := filepath.Join(keepDir, strconv.Itoa(caseNo))
		os.MkdirAll(dst, 0o755)
		for _, n := range names {
			b, _ := os.ReadFile(filepath.Join(dir, n))
			os.WriteFile(filepath.Join(dst, n), b, 0o644)
		}
		os.WriteFile(filepath.Join(dst, "spec.json"), js, 0o644)
	}
	os.RemoveAll(dir)
}

// describe: the machine as built (also for front-end produced machines), for the driver's
// known-finding predicates
func describe(bm *bondmachine.Bondmachine) string {
	type pd struct {
		Ops  []string `json:"ops"`
		Mode string   `json:"mode"`
		R    int      `json:"r"`
		N    int      `json:"n"`
		M    int      `json:"m"`
		L    int      `json:"l"`
		O    int      `json:"o"`
		Thr  int      `json:"thr"`
		Sos  []int    `json:"sos"`
	}
	type md struct {
		Rsize int      `json:"rsize"`
		Procs []pd     `json:"procs"`
		Sos   []string `json:"sos"`
	}
	d := md{Rsize: int(bm.Rsize), Procs: []pd{}, Sos: []string{}}
	for _, so := range bm.Shared_objects {
		d.Sos = append(d.Sos, so.String())
	}
	for i, di := range bm.Processors {
		dom := bm.Domains[di]
		p := pd{Mode: "", R: int(dom.R), N: int(dom.N), M: int(dom.M), L: int(dom.L), O: int(dom.O), Thr: dom.Threaded, Ops: []string{}, Sos: []int{}}
		if len(dom.Modes) > 0 {
			p.Mode = dom.Modes[0]
		}
		for _, op := range dom.Op {
			p.Ops = append(p.Ops, op.Op_get_name())
		}
		if i < len(bm.Shared_links) {
			for _, l := range bm.Shared_links[i] {
				p.Sos = append(p.Sos, l)
			}
		}
		d.Procs = append(d.Procs, p)
	}
	js, _ := json.Marshal(d)
	return string(js)
}

// halfChannel: is `file` the processor file pN.v of a processor with exactly one of wrd / wwr?
func halfChannel(bm *bondmachine.Bondmachine, file string) bool {
	m := regexp.MustCompile(`^p(\d+)\.v$`).FindStringSubmatch(file)
	if m == nil || bm == nil {
		return false
	}
	i, _ := strconv.Atoi(m[1])
	if i >= len(bm.Processors) {
		return false
	}
	wrd, wwr, chk := false, false, false
	for _, op := range bm.Domains[bm.Processors[i]].Op {
		switch op.Op_get_name() {
		case "wrd":
			wrd = true
		case "wwr":
			wwr = true
		case "chc", "chw":
			chk = true
		}
	}
	return wrd != wwr || (wrd && !chk)
}

// soFacts: what the shared-object header model (BMV.So) is parameterised by, read from the built
// machine: rsize; per processor n, m, l and the capability opcodes; the shared objects; the links.
func soFacts(bm *bondmachine.Bondmachine) string {
	var sb strings.Builder
	fmt.Fprintf(&sb, "rsize=%d", bm.Rsize)
	sb.WriteString(" so=")
	for i, so := range bm.Shared_objects {
		if i > 0 {
			sb.WriteString(",")
		}
		sb.WriteString(strings.SplitN(so.String(), ":", 2)[0])
	}
	sb.WriteString(" procs=")
	for i, d := range bm.Processors {
		if i > 0 {
			sb.WriteString(";")
		}
		dom := bm.Domains[d]
		var caps []string
		for _, op := range dom.Op {
			switch op.Op_get_name() {
			case "r2q", "q2r", "r2t", "t2r", "r2u", "u2r", "k2r":
				caps = append(caps, op.Op_get_name())
			}
		}
		var ls []string
		if i < len(bm.Shared_links) {
			for _, l := range bm.Shared_links[i] {
				ls = append(ls, strconv.Itoa(l))
			}
		}
		fmt.Fprintf(&sb, "%d/%d/%d/%s/%s", dom.N, dom.M, dom.L, strings.Join(caps, "."), strings.Join(ls, "."))
	}
	return sb.String()
}

// initLQ gives the linear-quantizer family a range table, as `-linear-data-range` does in the CLIs
func initLQ() {
	ranges := map[int]bmnumbers.LinearDataRange{1: {Max: 3.3}, 2: {Max: 1.0}}
	for i, t := range procbuilder.AllDynamicalInstructions {
		if t.GetName() == "dyn_linear_quantizer" {
			d := t.(procbuilder.DynLinearQuantizer)
			d.Ranges = &ranges
			procbuilder.AllDynamicalInstructions[i] = d
		}
	}
}

func main() {
	initLQ()
	if len(os.Args) < 4 {
		fmt.Fprintln(os.Stderr, "usage: c18 gen <quick|thorough> <scratch-root> | c18 replay <file> <scratch-root> | c18 dump <file> <scratch-root> <outdir>")
		os.Exit(2)
	}
	scratchRoot = filepath.Join(os.Args[3], fmt.Sprintf("c18-%d", os.Getpid()))
	if !strings.Contains(scratchRoot, "scratch") {
		fmt.Fprintln(os.Stderr, "refusing to write outside a scratch directory")
		os.Exit(2)
	}
	defer os.RemoveAll(scratchRoot)
	switch os.Args[1] {
	case "gen":
		gen(os.Args[2] == "thorough")
	case "replay", "dump":
		if os.Args[1] == "dump" && len(os.Args) > 4 {
			keepDir = os.Args[4]
		}
		f, err := os.Open(os.Args[2])
		if err != nil {
			fmt.Fprintln(os.Stderr, err)
			os.Exit(2)
		}
		sc := bufio.NewScanner(f)
		sc.Buffer(make([]byte, 1<<24), 1<<24)
		for sc.Scan() {
			l := sc.Text()
			if !strings.HasPrefix(l, "M ") {
				continue
			}
			s := new(spec)
			if err := json.Unmarshal([]byte(l[2:]), s); err != nil {
				out.Line("M %s", l[2:])
				out.Line("W err bad spec: %v", err)
				out.Line("E")
				continue
			}
			emit(s)
		}
	}
	out.Line("Z done %d", caseNo)
	out.Flush()
	os.RemoveAll(scratchRoot)
}
