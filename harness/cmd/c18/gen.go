package main

import (
	"fmt"
	"sort"
	"strings"

	"bmvh/common"

	"github.com/BondMachineHQ/BondMachine/pkg/procbuilder"
)

// what an opcode needs around it to make sense in a machine (no metadata in /repo says this:
// Required_shared is filled in for wrd/wwr only) — hand-written, by reading the op_*.go files
var needSO = map[string]string{
	"chc": "channel:", "chw": "channel:", "wrd": "channel:", "wwr": "channel:",
	"hit":     "barrier:0",
	"lfsr82r": "lfsr8:1",
	"r2q":     "queue:4", "q2r": "queue:4",
	"r2t": "stack:4", "t2r": "stack:4",
	"r2u": "uart:9600:4", "u2r": "uart:9600:4",
	"k2r": "kbd:4",
	"r2v": "vtextmem:@", "r2vri": "vtextmem:@",
	"r2s": "sharedmem:4", "s2r": "sharedmem:4",
}
var needRAM = map[string]bool{"r2m": true, "m2r": true, "r2mri": true, "m2rri": true}
var needIn = map[string]bool{"addi": true, "i2r": true, "i2rw": true, "sicv2": true, "sicv3": true, "sic": true}
var needOut = map[string]bool{"r2o": true, "r2owa": true, "r2owaa": true}

// instances of every dynamic family (names are matched by the regexps in dynamical_*.go)
var dynamicOps = []string{
	"rsets8", "rsets4",
	"callo4cs", "calla4cs", "ret4cs",
	"push4ds", "pull4ds",
	"addfps16f8", "multfps16f8", "divfps16f8",
	"addlqs8t1", "multlqs8t1", "divlqs8t1",
}

// the FXP family (addfxps/multfxps/divfxps) reads its Verilog from /tmp/fxpcode/*.v — files that are
// not part of /repo — and calls log.Fatal when they are missing: it cannot be generated here
// the FloPoCo family (addflpe/multflpe/divflpe) runs the external `flopoco` executable
var unreachableOps = []string{"addfxps16f8", "multfxps16f8", "divfxps16f8", "addflpe5f10", "multflpe5f10", "divflpe5f10"}

func staticOps() []string {
	var names []string
	for _, op := range procbuilder.Allopcodes {
		names = append(names, op.Op_get_name())
	}
	sort.Strings(names)
	return names
}

// procFor: a processor holding exactly `ops`, with the smallest environment those opcodes need
func procFor(ops []string, mode string, thr int) (procSpec, []string) {
	var uniq []string
	dup := map[string]bool{}
	for _, o := range ops {
		if !dup[o] {
			dup[o] = true
			uniq = append(uniq, o)
		}
	}
	ops = uniq
	p := procSpec{R: 2, O: 4, Mode: mode, Threaded: thr, Ops: append([]string{}, ops...)}
	var sos []string
	seen := map[string]bool{}
	for _, o := range ops {
		if so, ok := needSO[o]; ok && !seen[so] {
			seen[so] = true
			sos = append(sos, so)
		}
		if needRAM[o] {
			p.L = 4
		}
		if needIn[o] {
			p.N = 1
		}
		if needOut[o] {
			p.M = 1
		}
	}
	if mode != "ha" && p.L == 0 {
		p.L = 4
	}
	sort.Strings(p.Ops)
	return p, sos
}

// single: one processor, its shared objects attached, external IO bonded to the machine's ports
func single(kind string, rsize int, p procSpec, sos []string, flavor string) *spec {
	s := &spec{Kind: kind, Rsize: rsize, Procs: []procSpec{p}, Sos: sos, Flavor: flavor, Inputs: p.N, Outputs: p.M}
	for i := range sos {
		s.Links = append(s.Links, [2]int{0, i})
	}
	for i := 0; i < p.N; i++ {
		s.Bonds = append(s.Bonds, [2]string{fmt.Sprintf("p0i%d", i), fmt.Sprintf("i%d", i)})
	}
	for i := 0; i < p.M; i++ {
		s.Bonds = append(s.Bonds, [2]string{fmt.Sprintf("o%d", i), fmt.Sprintf("p0o%d", i)})
	}
	return s
}

var soKinds = []string{"barrier:0", "barrier:5", "channel:", "sharedmem:4", "queue:4", "stack:4", "lfsr8:1", "kbd:4", "uart:9600:4", "vtextmem:@"}

// the opcodes that use a shared object of the given kind (sender side, receiver side)
func soOps(so string) [][]string {
	switch strings.SplitN(so, ":", 2)[0] {
	case "barrier":
		return [][]string{{"hit"}}
	case "channel":
		return [][]string{{"chc", "chw", "wrd", "wwr"}, {"wrd", "chc"}, {"wwr", "chw"}}
	case "sharedmem":
		return [][]string{{"r2s", "s2r"}, {"r2s"}, {"s2r"}}
	case "queue":
		return [][]string{{"r2q", "q2r"}, {"r2q"}, {"q2r"}}
	case "stack":
		return [][]string{{"r2t", "t2r"}, {"r2t"}, {"t2r"}}
	case "lfsr8":
		return [][]string{{"lfsr82r"}}
	case "kbd":
		return [][]string{{"k2r"}}
	case "uart":
		return [][]string{{"r2u", "u2r"}, {"r2u"}, {"u2r"}}
	case "vtextmem":
		return [][]string{{"r2v", "r2vri"}, {"r2v"}}
	}
	return [][]string{{"nop"}}
}

// soMachine: one shared object of the kind, attached to k processors (variant picks op subsets)
func soMachine(so string, k int, variant int, rsize int) *spec {
	s := &spec{Kind: fmt.Sprintf("so:%sx%d.%d", strings.SplitN(so, ":", 2)[0], k, variant), Rsize: rsize, Flavor: "iverilog", Sos: []string{so}}
	sets := soOps(so)
	for i := 0; i < k; i++ {
		ops := append([]string{"rset", "j"}, sets[(variant+i)%len(sets)]...)
		p, _ := procFor(ops, "ha", 0)
		s.Procs = append(s.Procs, p)
		s.Links = append(s.Links, [2]int{i, 0})
	}
	return s
}

var basmSources = []string{
	// single processor, async IO
	`%meta bmdef global registersize:8
%section code .romtext iomode:async
  entry _start
_start:
  mov r0, i0
  inc r0
  mov o0, r0
  j _start
%endsection
%meta cpdef cpu romcode: code
%meta ioatt in0 cp: cpu, type:input, index:0
%meta ioatt in0 cp: bm, type:input, index:0
%meta ioatt out0 cp: cpu, type:output, index:0
%meta ioatt out0 cp: bm, type:output, index:0
`,
	// two processors, sync IO, a bond between them
	`%meta bmdef global registersize:16, iomode:sync
%section prod .romtext
  entry _start
_start:
  inc r0
  mov o0, r0
  j _start
%endsection
%section cons .romtext
  entry _start
_start:
  mov r1, i0
  add r1, r1
  mov o0, r1
  j _start
%endsection
%meta cpdef p romcode: prod
%meta cpdef c romcode: cons
%meta ioatt l0 cp: p, type:output, index:0
%meta ioatt l0 cp: c, type:input, index:0
%meta ioatt out0 cp: c, type:output, index:0
%meta ioatt out0 cp: bm, type:output, index:0
`,
	// arithmetic / jumps / literals
	`%meta bmdef global registersize:8
%section code .romtext iomode:async
  entry _start
_start:
  mov r0, 5
  mov r1, 3
loop:
  dec r0
  add r1, r0
  jz r0, done
  j loop
done:
  mov o0, r1
  j done
%endsection
%meta cpdef cpu romcode: code
%meta ioatt out0 cp: cpu, type:output, index:0
%meta ioatt out0 cp: bm, type:output, index:0
`,
}

// finalize: a vtextmem object needs one box (cp:left:top:width:height) per attached processor
func finalize(s *spec) *spec {
	for i, so := range s.Sos {
		if so != "vtextmem:@" {
			continue
		}
		str := "vtextmem"
		k := 0
		for _, l := range s.Links {
			if l[1] == i {
				str += fmt.Sprintf(":%d:%d:0:8:8", l[0], 8*k)
				k++
			}
		}
		if k == 0 {
			str += ":0:0:0:8:8"
		}
		s.Sos[i] = str
	}
	return s
}

// the opcode families whose members share helper declarations / processes: exactly one member must
// emit them (unique[...] + OnlyOne in procbuilder.go / utils.go, or a hand-written "first opcode
// present" loop as in op_r2o*.go, op_chc.go …).  Every non-empty subset is a different case.
var shareFamilies = []struct {
	name  string
	ops   []string
	pairs bool // too many members for all subsets: singles, pairs, the full set
}{
	{"out", []string{"r2o", "r2owa", "r2owaa"}, false},
	{"in", []string{"i2r", "i2rw", "sicv2", "sicv3"}, false},
	{"ram", []string{"r2m", "m2r", "r2mri", "m2rri"}, false},
	{"chan", []string{"chc", "chw", "wrd", "wwr"}, false},
	{"dynstack", []string{"push4ds", "pull4ds"}, false},
	{"dyncall", []string{"callo4cs", "calla4cs", "ret4cs"}, false},
	{"cmpflag", []string{"cmpr", "cmprlt", "cmpv", "jcmpl", "jcmpo", "jcmpa", "jcmprio", "jcmpria", "jncmpl", "jncmpo", "jncmpa", "jncmprio", "jncmpria"}, true},
	{"soops", []string{"r2t", "t2r", "q2r", "r2q", "r2u", "u2r", "k2r"}, true},
}

func subsets(xs []string, pairsOnly bool) [][]string {
	var out [][]string
	if pairsOnly {
		for i := range xs {
			for j := i + 1; j < len(xs); j++ {
				out = append(out, []string{xs[i], xs[j]})
			}
		}
		if len(xs) > 2 {
			out = append(out, append([]string{}, xs...))
		}
		return out
	}
	for mask := 1; mask < 1<<uint(len(xs)); mask++ {
		var sub []string
		for i, x := range xs {
			if mask&(1<<uint(i)) != 0 {
				sub = append(sub, x)
			}
		}
		if len(sub) > 1 { // singles are the iso family
			out = append(out, sub)
		}
	}
	return out
}

const opOrderFamily = true

func genShareFamilies(static []string, thorough bool) {
	known := map[string]bool{}
	for _, o := range static {
		known[o] = true
	}
	for _, o := range dynamicOps {
		known[o] = true
	}
	for _, fam := range shareFamilies {
		var ops []string
		for _, o := range fam.ops {
			if known[o] {
				ops = append(ops, o)
			}
		}
		for si, sub := range subsets(ops, fam.pairs) {
			if fam.pairs && !thorough && (si+int(common.Seed()))%2 != 0 {
				continue // quick: half of the pairs of the two large families, the other half with the next seed
			}
			modes := []string{"ha"}
			if fam.name == "ram" {
				modes = []string{"ha", "hy", "vn"}
			}
			for _, mode := range modes {
				p, sos := procFor(append([]string{"rset", "j"}, sub...), mode, 0)
				nio := []int{1}
				if fam.name == "out" || fam.name == "in" {
					nio = []int{1, 2}
				}
				for _, k := range nio {
					q := p
					if q.N > 0 {
						q.N = k
					}
					if q.M > 0 {
						q.M = k
					}
					emit(finalize(single(fmt.Sprintf("uniq:%s:%s.%s.%d", fam.name, strings.Join(sub, "+"), mode, k), 8, q, sos, "iverilog")))
					if mode == "ha" && k == 1 && opOrderFamily {
						// the same opcode set with the "Op" array in another order (loaded from JSON)
						orders := []string{"rev"}
						if thorough {
							orders = append(orders, "rot")
						}
						for _, ord := range orders {
							t := finalize(single(fmt.Sprintf("oporder:%s:%s:%s", ord, fam.name, strings.Join(sub, "+")), 8, q, sos, "iverilog"))
							t.OpOrder = ord
							emit(t)
						}
					}
				}
			}
		}
	}
}

// genPermuted: machines whose processor -> domain mapping is not the identity (what
// `bondmachine -add-processor <domain>` produces: several processors of one domain, processors in
// another order than the domains), with a shared object attached to every processor that has one of
// the kind's opcodes; the domains differ in their sender / receiver capabilities.
// vtextmem indexes its boxes by attach position in Write_verilog but by processor number in
// GetExternalPortsWires: attached to processors that are not 0..k-1 it panics (index out of range).
// Proposed known finding C18-vtextmem-box-index (docs/C18-known-findings.json); until it is listed the
// family leaves those machines out.  Set to true once the entry is merged.
const vtextmemNonPrefix = true

func genPermuted(thorough bool) {
	maps := [][]int{{1, 0}, {1, 1, 0}, {0, 0, 1}, {2, 0, 1}, {1, 2, 2}}
	if !thorough {
		maps = [][]int{{1, 0}, {1, 1, 0}, {2, 0, 1}}
	}
	for _, so := range soKinds {
		sets := soOps(so)
		kind := strings.SplitN(so, ":", 2)[0]
		// domain 0: first variant (usually sender+receiver), domain 1: last variant (one side only),
		// domain 2: no opcode of the kind at all
		doms := [][]string{
			append([]string{"rset", "j"}, sets[0]...),
			append([]string{"rset", "inc"}, sets[len(sets)-1]...),
			{"rset", "j", "inc"},
		}
		if len(sets) > 2 {
			doms[0] = append([]string{"rset", "j"}, sets[1]...)   // sender only
			doms[1] = append([]string{"rset", "inc"}, sets[2]...) // receiver only
		}
		for _, pm := range maps {
			if kind == "vtextmem" && !vtextmemNonPrefix && pm[0] == 2 {
				continue
			}
			s := &spec{Kind: fmt.Sprintf("perm:%s:%v", kind, pm), Rsize: 8, Flavor: "iverilog", Sos: []string{so}, ProcDom: pm}
			for _, ops := range doms {
				p, _ := procFor(ops, "ha", 0)
				s.Procs = append(s.Procs, p)
			}
			for pi, d := range pm {
				if d != 2 {
					s.Links = append(s.Links, [2]int{pi, 0})
				}
			}
			emit(finalize(s))
		}
	}
	// IO ports follow the domain too: processors of different N / M in permuted order, bonded
	for _, pm := range [][]int{{1, 0}, {1, 1, 0}} {
		s := &spec{Kind: fmt.Sprintf("perm:io:%v", pm), Rsize: 8, Flavor: "iverilog", ProcDom: pm}
		p0, _ := procFor([]string{"rset", "j", "i2r", "r2o"}, "ha", 0)
		p0.N, p0.M = 2, 1
		p1, _ := procFor([]string{"inc", "j", "r2owa"}, "ha", 0)
		s.Procs = []procSpec{p0, p1}
		for pi, d := range pm {
			n, m := s.Procs[d].N, s.Procs[d].M
			for k := 0; k < n; k++ {
				s.Bonds = append(s.Bonds, [2]string{fmt.Sprintf("p%di%d", pi, k), fmt.Sprintf("i%d", s.Inputs)})
				s.Inputs++
			}
			for k := 0; k < m; k++ {
				s.Bonds = append(s.Bonds, [2]string{fmt.Sprintf("o%d", s.Outputs), fmt.Sprintf("p%do%d", pi, k)})
				s.Outputs++
			}
		}
		emit(finalize(s))
	}
}

// genMultiSame: one processor attached to 2..3 shared objects of the SAME kind (the per-processor
// sequence numbers q0, q1, … of arch.go / conproc.go against the global ones of bondmachine.v), alone,
// interleaved with an object of another kind, and with a second processor attached to the last one only
func genMultiSame(thorough bool) {
	variant := func(so string, i int) string {
		kind := strings.SplitN(so, ":", 2)[0]
		switch kind {
		case "queue", "stack", "sharedmem", "kbd":
			return fmt.Sprintf("%s:%d", kind, []int{4, 8, 4}[i%3])
		case "uart":
			return fmt.Sprintf("uart:9600:%d", []int{4, 8, 4}[i%3])
		case "lfsr8":
			return fmt.Sprintf("lfsr8:%d", i+1)
		case "barrier":
			return fmt.Sprintf("barrier:%d", []int{0, 5, 0}[i%3])
		}
		return so
	}
	seen := map[string]bool{}
	for _, so := range soKinds {
		kind := strings.SplitN(so, ":", 2)[0]
		if seen[kind] || kind == "vtextmem" { // one vtextmem per machine (it owns the screen)
			continue
		}
		seen[kind] = true
		ops := append([]string{"rset", "j"}, soOps(so)[0]...)
		other := "lfsr8:7"
		otherOps := []string{"lfsr82r"}
		if kind == "lfsr8" {
			other, otherOps = "sharedmem:4", []string{"r2s", "s2r"}
		}
		for k := 2; k <= 3; k++ {
			// (a) alone
			s := &spec{Kind: fmt.Sprintf("multi:%sx%d", kind, k), Rsize: 8, Flavor: "iverilog"}
			p, _ := procFor(ops, "ha", 0)
			s.Procs = []procSpec{p}
			for i := 0; i < k; i++ {
				s.Sos = append(s.Sos, variant(so, i))
				s.Links = append(s.Links, [2]int{0, i})
			}
			emit(finalize(s))
			if k == 3 && !thorough {
				continue
			}
			// (b) another kind in between, (c) a second processor on the last object
			t := &spec{Kind: fmt.Sprintf("multi:%sx%d+other", kind, k), Rsize: 8, Flavor: "iverilog"}
			p2, _ := procFor(append(append([]string{}, ops...), otherOps...), "ha", 0)
			q, _ := procFor(ops, "ha", 0)
			t.Procs = []procSpec{p2, q}
			t.Sos = []string{variant(so, 0), other}
			for i := 1; i < k; i++ {
				t.Sos = append(t.Sos, variant(so, i))
			}
			for i := range t.Sos {
				t.Links = append(t.Links, [2]int{0, i})
			}
			t.Links = append(t.Links, [2]int{1, len(t.Sos) - 1})
			emit(finalize(t))
		}
	}
}

// variants of one dynamic operation with different parameters: a processor may hold several of them
// (each instantiates its own helper module / stack / literal width)
var dynGroups = [][]string{
	{"rsets8", "rsets4", "rsets12"},
	{"callo4cs", "callo8ct"}, {"calla4cs", "calla8ct"}, {"ret4cs", "ret8ct"},
	{"push4ds", "push8es"}, {"pull4ds", "pull8es"},
	{"addfps16f8", "addfps12f6", "addfps16f4"}, {"multfps16f8", "multfps16f4", "multfps12f6"}, {"divfps16f8", "divfps16f4"},
	{"addlqs8t1", "addlqs6t1", "addlqs8t2"}, {"multlqs8t1", "multlqs6t1", "multlqs8t2"}, {"divlqs8t1", "divlqs6t2"},
}

// Found by the families below on the unchanged tree (96ceb1e) and reported to the integrator; until the
// entries proposed in docs/C18-known-findings.json are listed, the machines that show them stay out:
//   - two call / stack opcodes of different size or name in one processor: `[redeclared] parameter CALL1` / `REGST1`
//   - two mult / div linear-quantiser opcodes in one processor: helper module `<op>_correction_N` of the second undefined
//   - addf + addf16 (multf + multf16, divf + divf16) in one processor: `adder_N_input_a` … declared twice
//   - an unconnected processor input: `pKiJ_valid` / `pKiJ_received` used in bondmachine.v, never declared
//
// Set to true once they are listed.
const pendingFindings = true

var pendingGroup = map[int]bool{1: true, 2: true, 3: true, 4: true, 5: true, 10: true, 11: true}

// genDynVariants: pairs and the whole group of every dynamic operation in one processor, and pairs
// across the operations of one family (add + mult of different precision)
func genDynVariants(thorough bool) {
	one := func(kind string, ops []string) {
		p, sos := procFor(append([]string{"rset", "j"}, ops...), "ha", 0)
		emit(finalize(single(kind, 16, p, sos, "iverilog")))
	}
	for gi, g := range dynGroups {
		if pendingGroup[gi] && !pendingFindings {
			continue
		}
		for i := range g {
			for j := i + 1; j < len(g); j++ {
				one(fmt.Sprintf("dynvar:%s+%s", g[i], g[j]), []string{g[i], g[j]})
			}
		}
		if len(g) > 2 {
			one("dynvar:"+strings.Join(g, "+"), g)
		}
		// across operations of the same family: this group's first with the next group's last
		if gi+1 < len(dynGroups) && (thorough || gi%2 == 0) && (pendingFindings || !pendingGroup[gi+1]) {
			h := dynGroups[gi+1]
			one(fmt.Sprintf("dynvar:%s+%s", g[0], h[len(h)-1]), []string{g[0], h[len(h)-1]})
		}
	}
}

// genCommented: Config.CommentedVerilog on (the annotations of Write_verilog_main / conproc.go), on
// topologies with a fanned-out processor output, an unconnected processor output, an output that
// feeds a processor and the machine, an unconnected processor input, and shared objects
func genCommented() {
	src, _ := procFor([]string{"rset", "inc", "j", "r2o"}, "ha", 0)
	src.M = 2
	dst, _ := procFor([]string{"rset", "j", "i2r", "r2o"}, "ha", 0)
	dst.N, dst.M = 1, 1
	mk := func(kind string, procs []procSpec, in, outs int, bonds [][2]string) *spec {
		return &spec{Kind: kind, Rsize: 8, Flavor: "iverilog", Commented: true, Procs: procs, Inputs: in, Outputs: outs, Bonds: bonds}
	}
	// p0o0 -> p1i0 and p2i0 (fan-out 2), p0o1 unconnected, p1o0 -> o0, p2o0 unconnected
	emit(mk("comm:fanout2", []procSpec{src, dst, dst}, 0, 1,
		[][2]string{{"p1i0", "p0o0"}, {"p2i0", "p0o0"}, {"o0", "p1o0"}}))
	// fan-out 3 including a machine output; every processor output connected
	emit(mk("comm:fanout3", []procSpec{src, dst, dst}, 0, 3,
		[][2]string{{"p1i0", "p0o0"}, {"p2i0", "p0o0"}, {"o0", "p0o0"}, {"o1", "p0o1"}, {"o2", "p1o0"}}))
	// nothing connected at all (an unconnected processor input: see pendingFindings); without it: outputs only
	if pendingFindings {
		emit(mk("comm:unconnected", []procSpec{src, dst}, 1, 1, nil))
	}
	emit(mk("comm:unconnected-outputs", []procSpec{src, src}, 0, 1, nil))
	// a machine input fanned out to two processors
	emit(mk("comm:infanout", []procSpec{dst, dst}, 1, 2,
		[][2]string{{"p0i0", "i0"}, {"p1i0", "i0"}, {"o0", "p0o0"}, {"o1", "p1o0"}}))
	// one to one (the shape the comment code is usually run on)
	emit(mk("comm:chain", []procSpec{src, dst}, 0, 2,
		[][2]string{{"p1i0", "p0o0"}, {"o0", "p0o1"}, {"o1", "p1o0"}}))
	// with shared objects and threads
	for _, so := range []string{"queue:4", "barrier:0", "sharedmem:4"} {
		s := soMachine(so, 2, 0, 8)
		s.Kind = "comm:" + s.Kind
		s.Commented = true
		emit(finalize(s))
	}
	p, sos := procFor([]string{"rset", "inc", "add", "j", "jz", "cpy", "i2r", "r2o", "r2m", "m2r"}, "hy", 2)
	c := finalize(single("comm:hy.thr2", 8, p, sos, "iverilog"))
	c.Commented = true
	emit(c)
}

// dropClash: see pendingFindings — keep one of addf/addf16, multf/multf16, divf/divf16 and one opcode of
// each call / stack / lqs-correction family
func dropClash(ops []string) []string {
	fam := func(o string) string {
		switch {
		case o == "addf" || o == "addf16":
			return "addf"
		case o == "multf" || o == "multf16":
			return "multf"
		case o == "divf" || o == "divf16":
			return "divf"
		case strings.HasPrefix(o, "multlqs") || strings.HasPrefix(o, "divlqs"):
			return o[:6]
		}
		return ""
	}
	seen := map[string]bool{}
	var out []string
	for _, o := range ops {
		if f := fam(o); f != "" {
			if seen[f] {
				continue
			}
			seen[f] = true
		}
		out = append(out, o)
	}
	return out
}

// genReqs: machines built WITH recorded requirement sets (destination / source registers per opcode,
// recorded through the opcodes' own HLAssemblerNormalize as basm does) under every combination of the
// hardware-optimisation flags, for every opcode whose templates consult those sets
func genReqs(thorough bool) {
	two := []string{"addf", "addf16", "addp", "cmpr", "cmprlt", "divf", "divf16", "divp", "multf", "multf16", "multp",
		"addfps16f8", "multfps16f8", "divfps16f8", "addlqs8t1", "multlqs8t1", "divlqs8t1"}
	one := []string{"inc", "dec"}
	flags := [][]string{nil, {"onlydestregs"}, {"onlysrcregs"}, {"onlydestregs", "onlysrcregs"}}
	emitReq := func(kind string, ops []string, rs int, progs [][]string) {
		for vi, req := range progs {
			for _, hw := range flags {
				p, sos := procFor(append([]string{"rset", "j"}, ops...), "ha", 0)
				p.Req = req
				m := finalize(single(fmt.Sprintf("reqs:%s.%d", kind, vi), rs, p, sos, "iverilog"))
				m.HwOpt = hw
				emit(m)
			}
		}
	}
	for _, o := range two {
		rs := 32
		if strings.Contains(o, "16") || strings.Contains(o, "lqs") || strings.Contains(o, "fps") {
			rs = 16
		}
		progs := [][]string{
			{"rset r0 1", "rset r1 2", o + " r0 r1"},                // r0 only a destination, r1 only a source
			{"rset r2 1", o + " r1 r0", o + " r2 r3", o + " r3 r3"}, // several, one register on both sides
		}
		if !thorough {
			progs = progs[:1+len(o)%2]
		}
		emitReq(o, []string{o}, rs, progs)
	}
	for _, o := range one {
		emitReq(o, []string{o}, 8, [][]string{{"rset r0 1", o + " r2"}, {o + " r0", o + " r3"}})
	}
	emitReq("jz", []string{"jz", "inc"}, 8, [][]string{{"rset r1 1", "inc r1", "jz r1 0"}})
	emitReq("mix", []string{"divp", "multp", "addp", "inc", "dec", "jz"}, 16,
		[][]string{{"rset r0 4", "rset r1 2", "divp r0 r1", "multp r2 r0", "addp r3 r3", "inc r1", "dec r2", "jz r3 0"}})
}

// genSameDomain: several processors built from ONE domain with differing shared-object attachments
// (Write_verilog writes the processor's constraint string into the shared domain object before every
// processor): the earlier attached and the later not, the reverse, first and last of three
func genSameDomain(thorough bool) {
	seen := map[string]bool{}
	for _, so := range soKinds {
		kind := strings.SplitN(so, ":", 2)[0]
		if seen[kind] || kind == "vtextmem" || kind == "kbd" {
			// kbd without k2r shows two more symptoms of the listed kbd defect (`k0empty` not declared in pN,
			// `0'd0` in k0.v) whose texts are not in its signature: left out here
			continue
		}
		seen[kind] = true
		attach := [][]int{{0}, {1}, {0, 2}}
		if thorough {
			attach = append(attach, []int{1, 2}, []int{2})
		}
		for ai, att := range attach {
			np := 2
			if att[len(att)-1] == 2 {
				np = 3
			}
			s := &spec{Kind: fmt.Sprintf("samedom:%s:%v/%d", kind, att, np), Rsize: 8, Flavor: "iverilog", Sos: []string{so}}
			p, _ := procFor([]string{"rset", "inc", "j"}, "ha", 0) // no opcode of the kind: the header follows the attachment only
			s.Procs = []procSpec{p}
			for i := 0; i < np; i++ {
				s.ProcDom = append(s.ProcDom, 0)
			}
			for _, a := range att {
				s.Links = append(s.Links, [2]int{a, 0})
			}
			_ = ai
			emit(finalize(s))
		}
	}
}

func pickN(r *common.Rng, xs []string, k int) []string {
	ys := append([]string{}, xs...)
	for i := len(ys) - 1; i > 0; i-- {
		j := r.Intn(i + 1)
		ys[i], ys[j] = ys[j], ys[i]
	}
	if k > len(ys) {
		k = len(ys)
	}
	return ys[:k]
}

func gen(thorough bool) {
	r := common.NewRng(common.Seed())
	static := staticOps()
	out.Line("A %s", strings.Join(static, " ")) // procbuilder.Allopcodes before any dynamic opcode is created

	// (1) every static opcode in isolation (mode ha; the opcodes that need RAM also in vn and hy)
	for _, o := range static {
		p, sos := procFor([]string{o}, "ha", 0)
		emit(finalize(single("iso:"+o, 8, p, sos, "iverilog")))
	}
	// (1b) the mode x opcode product: every opcode (static + one member of every dynamic family) alone in a
	//      vn and in a hy processor as well (no opcode declares Required_modes / Forbidden_modes, so every
	//      mode is allowed), and once more next to a minimal common set (rset, inc, j) in a mode that
	//      rotates with the seed (thorough: in all three)
	{
		all := append(append([]string{}, static...), dynamicOps...)
		for oi, o := range all {
			rs := 8
			if oi >= len(static) {
				rs = 16
			}
			for _, mode := range []string{"vn", "hy"} {
				p, sos := procFor([]string{o}, mode, 0)
				emit(finalize(single("modeiso:"+mode+":"+o, rs, p, sos, "iverilog")))
			}
			for mi, mode := range []string{"ha", "vn", "hy"} {
				if !thorough && (oi+int(common.Seed()))%3 != mi {
					continue
				}
				p, sos := procFor([]string{o, "rset", "inc", "j"}, mode, 0)
				emit(finalize(single("modemix:"+mode+":"+o, rs, p, sos, "iverilog")))
			}
		}
	}
	// (2) every dynamic family
	for _, o := range dynamicOps {
		p, sos := procFor([]string{o}, "ha", 0)
		emit(finalize(single("dyn:"+o, 16, p, sos, "iverilog")))
	}
	// (3) modes x threading on a plain opcode set, with and without RAM opcodes
	base := []string{"rset", "inc", "add", "j", "jz", "cpy", "i2r", "r2o"}
	for _, mode := range []string{"ha", "vn", "hy"} {
		for thr := 0; thr <= 3; thr++ {
			p, sos := procFor(base, mode, thr)
			emit(finalize(single(fmt.Sprintf("mode:%s.thr%d", mode, thr), 8, p, sos, "iverilog")))
		}
		p, sos := procFor(append(append([]string{}, base...), "r2m", "m2r"), mode, 0)
		emit(finalize(single("mode:"+mode+".ram", 8, p, sos, "iverilog")))
		p, sos = procFor(append(append([]string{}, base...), "r2mri", "m2rri"), mode, 0)
		emit(finalize(single("mode:"+mode+".ramri", 8, p, sos, "iverilog")))
	}
	// (4) every shared-object kind with 1..3 attached processors
	for _, so := range soKinds {
		for k := 1; k <= 3; k++ {
			nv := 1
			if thorough {
				nv = len(soOps(so))
			}
			for v := 0; v < nv; v++ {
				emit(finalize(soMachine(so, k, v, 8)))
			}
		}
	}
	// (4b) every subset of the opcode families that share helper declarations
	genShareFamilies(static, thorough)
	// (4c) processor -> domain mappings that are not the identity
	genPermuted(thorough)
	// (4d) one processor attached to several shared objects of the same kind
	genMultiSame(thorough)
	// (4e) several parameterisations of one dynamic operation in one processor
	genDynVariants(thorough)
	// (4f) the comment option on fan-out / unconnected topologies
	genCommented()
	// (4h) requirement sets recorded x hardware-optimisation flags
	genReqs(thorough)
	// (4i) several processors of one domain with differing shared-object attachments
	genSameDomain(thorough)
	// (5) ports without IO opcodes (the CLIs let the user choose N and M freely)
	{
		p := procSpec{R: 2, N: 2, M: 0, O: 4, Mode: "ha", Ops: []string{"inc", "j"}}
		emit(finalize(single("ports:in-noop", 8, p, nil, "iverilog")))
		p = procSpec{R: 2, N: 0, M: 2, O: 4, Mode: "ha", Ops: []string{"inc", "j"}}
		emit(finalize(single("ports:out-noop", 8, p, nil, "iverilog")))
	}
	// (6) front-end produced machines, with the hardware optimisation flags
	for i, src := range basmSources {
		for _, hw := range [][]string{nil, {"onlydestregs"}, {"onlysrcregs"}, {"onlydestregs", "onlysrcregs"}} {
			emit(&spec{Kind: fmt.Sprintf("basm:%d", i), Rsize: 8, Flavor: "iverilog", Basm: src, HwOpt: hw})
		}
	}
	// (7) a board flavor, commented output
	{
		p, sos := procFor(base, "ha", 0)
		b := finalize(single("flavor:basys3", 8, p, sos, "basys3"))
		b.IOmap = map[string]string{"clk": "clk", "reset": "btnC", "i0": "[7:0] sw", "o0": "[7:0] led"}
		emit(b)
		s := single("commented", 8, p, sos, "iverilog")
		s.Commented = true
		emit(s)
	}
	// (7b) what `bondmachine -create-verilog` does without a simbox file: a nil *simbox.Simbox
	{
		p, sos := procFor(base, "ha", 0)
		s := finalize(single("nilsimbox", 8, p, sos, "iverilog"))
		s.NilSimbox = true
		emit(s)
	}
	// (8) random mixes: opcode subsets, register sizes, modes, threading, several processors,
	//     shared objects attached to a random subset
	nmix := 60
	if thorough {
		nmix = 1500
	}
	allNames := []string{}
	for _, o := range append(append([]string{}, static...), dynamicOps...) {
		if o != "r2v" && o != "r2vri" { // vtextmem needs a box per attached processor id: covered by the iso and so families
			allNames = append(allNames, o)
		}
	}
	for i := 0; i < nmix; i++ {
		rsize := []int{8, 16, 32}[r.Intn(3)]
		np := 1 + r.Intn(3)
		s := &spec{Kind: "mix", Rsize: rsize, Flavor: "iverilog"}
		soIdx := map[string]int{}
		for pi := 0; pi < np; pi++ {
			ops := pickN(r, allNames, 2+r.Intn(10))
			if !pendingFindings {
				ops = dropClash(ops)
			}
			mode := []string{"ha", "ha", "vn", "hy"}[r.Intn(4)]
			thr := 0
			if r.Chance(1, 4) {
				thr = 1 + r.Intn(3)
			}
			p, sos := procFor(ops, mode, thr)
			p.R = 1 + r.Intn(3)
			p.O = 3 + r.Intn(4)
			if p.N > 0 {
				p.N = 1 + r.Intn(2)
			}
			if p.M > 0 {
				p.M = 1 + r.Intn(2)
			}
			s.Procs = append(s.Procs, p)
			for _, so := range sos {
				id, ok := soIdx[so]
				if !ok {
					id = len(s.Sos)
					soIdx[so] = id
					s.Sos = append(s.Sos, so)
				}
				s.Links = append(s.Links, [2]int{pi, id})
			}
			for k := 0; k < p.N; k++ {
				s.Bonds = append(s.Bonds, [2]string{fmt.Sprintf("p%di%d", pi, k), fmt.Sprintf("i%d", s.Inputs)})
				s.Inputs++
			}
			for k := 0; k < p.M; k++ {
				s.Bonds = append(s.Bonds, [2]string{fmt.Sprintf("o%d", s.Outputs), fmt.Sprintf("p%do%d", pi, k)})
				s.Outputs++
			}
		}
		if r.Chance(1, 3) {
			s.HwOpt = []string{[]string{"onlydestregs", "onlysrcregs"}[r.Intn(2)]}
		}
		if r.Chance(1, 4) {
			s.Commented = true
		}
		if r.Chance(1, 3) {
			// internal bonds: some processor input is fed by some processor output instead of a machine
			// input (fan-out when several pick the same output), which also leaves machine ports dangling
			var outs []string
			for pi, p := range s.Procs {
				for k := 0; k < p.M; k++ {
					outs = append(outs, fmt.Sprintf("p%do%d", pi, k))
				}
			}
			if len(outs) > 0 {
				for bi := range s.Bonds {
					if strings.Contains(s.Bonds[bi][0], "i") && strings.HasPrefix(s.Bonds[bi][0], "p") && r.Chance(1, 2) {
						s.Bonds[bi][1] = outs[r.Intn(len(outs))]
					}
				}
			}
		}
		emit(finalize(s))
		if np > 1 && r.Chance(1, 3) {
			// the same domains, processors in reversed order (links and bonds renumbered with them)
			t := *s
			t.Kind = "mixperm"
			t.ProcDom = nil
			for pi := 0; pi < np; pi++ {
				t.ProcDom = append(t.ProcDom, np-1-pi)
			}
			t.Links = nil
			for _, l := range s.Links {
				t.Links = append(t.Links, [2]int{np - 1 - l[0], l[1]})
			}
			t.Bonds, t.Inputs, t.Outputs = nil, 0, 0
			for pi, d := range t.ProcDom {
				for k := 0; k < s.Procs[d].N; k++ {
					t.Bonds = append(t.Bonds, [2]string{fmt.Sprintf("p%di%d", pi, k), fmt.Sprintf("i%d", t.Inputs)})
					t.Inputs++
				}
				for k := 0; k < s.Procs[d].M; k++ {
					t.Bonds = append(t.Bonds, [2]string{fmt.Sprintf("o%d", t.Outputs), fmt.Sprintf("p%do%d", pi, k)})
					t.Outputs++
				}
			}
			t.Sos = append([]string{}, s.Sos...)
			for i, so := range t.Sos {
				if strings.HasPrefix(so, "vtextmem") {
					t.Sos[i] = "vtextmem:@"
				}
			}
			emit(finalize(&t))
		}
	}
}
