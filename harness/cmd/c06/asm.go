package main

// Running the real assembler in-process and observing what the fragment composer produced.
//
// The composed sections are unexported (`bi.sections`).  They are observed through the tool's own
// debug facility: with `SetDebug()` `RunAssembler` prints `bi.String()` after every pass; the dump
// that follows "fragmentComposer completed" holds the sections exactly as the composer left them
// (before matcher/symbol resolution).  The final machine (public API) is observed as well: the
// disassembled program of every CP and the bond list.

import (
	"bytes"
	"fmt"
	"io"
	"os"
	"regexp"
	"sort"
	"strings"
	"sync"

	"github.com/BondMachineHQ/BondMachine/pkg/basm"
	"github.com/BondMachineHQ/BondMachine/pkg/bminfo"
	"github.com/BondMachineHQ/BondMachine/pkg/bondmachine"
)

var stdoutMu sync.Mutex

// captureStdout runs f with os.Stdout redirected to a buffer (the assembler prints unconditionally
// in some passes and profusely in debug mode).
func captureStdout(f func()) string {
	stdoutMu.Lock()
	defer stdoutMu.Unlock()
	old := os.Stdout
	r, w, err := os.Pipe()
	if err != nil {
		f()
		return ""
	}
	os.Stdout = w
	var buf bytes.Buffer
	done := make(chan struct{})
	go func() {
		io.Copy(&buf, r)
		close(done)
	}()
	func() {
		defer func() {
			os.Stdout = old
			w.Close()
		}()
		f()
	}()
	<-done
	r.Close()
	return buf.String()
}

type asmResult struct {
	err      string                   // "" or the error text of the failing stage
	stage    string                   // parse | run | bm
	bm       *bondmachine.Bondmachine // resulting machine
	sections map[string][]string      // composed section name -> lines (debug dump), nil if not parsed
	ioatt    []string                 // IO attach list after the composer
	cpRom    map[string]string        // cp name -> romcode section
	cpOrder  []string
}

func assembleOnce(src string, debug bool) (res asmResult, dump string) {
	dump = captureStdout(func() {
		defer func() {
			if r := recover(); r != nil {
				res.err = fmt.Sprintf("panic:%v", r)
				if res.stage == "" {
					res.stage = "panic"
				}
			}
		}()
		bi := new(basm.BasmInstance)
		bi.BMinfo = new(bminfo.BMinfo)
		if debug {
			bi.SetDebug()
		}
		bi.BasmInstanceInit(nil)
		res.stage = "parse"
		if err := bi.ParseAssemblyStringDefault(src); err != nil {
			res.err = err.Error()
			return
		}
		res.stage = "run"
		if err := bi.RunAssembler(); err != nil {
			res.err = err.Error()
			return
		}
		res.stage = "bm"
		if err := bi.Assembler2BondMachine(); err != nil {
			res.err = err.Error()
			return
		}
		res.bm = bi.GetBondMachine()
		res.stage = "ok"
		if c, has := interface{}(bi).(interface{ Close() }); has {
			c.Close()
		}
	})
	return
}

var ansi = regexp.MustCompile("\x1b\\[[0-9;]*m")
var metaRe = regexp.MustCompile(`\[[^\]]*\]`)

// parseComposerDump extracts the sections, the IO attach list and the CP→romcode map from the debug
// dump printed right after the fragmentComposer pass.
func parseComposerDump(dump string, res *asmResult) bool {
	txt := ansi.ReplaceAllString(dump, "")
	lines := strings.Split(txt, "\n")
	start := -1
	for i, l := range lines {
		if strings.Contains(l, "fragmentComposer completed") {
			start = i
			break
		}
	}
	if start < 0 {
		return false
	}
	res.sections = map[string][]string{}
	res.cpRom = map[string]string{}
	mode := ""
	cur := ""
	for _, l := range lines[start+1:] {
		if strings.HasPrefix(l, "Phase ") || strings.HasPrefix(l, "Pre phase") {
			break
		}
		if strings.HasPrefix(l, "\t") && !strings.HasPrefix(l, "\t\t") {
			mode = strings.TrimSuffix(strings.TrimSpace(l), ":")
			continue
		}
		switch mode {
		case "CPs meta":
			// "\t\t0: cp0[romcode:coll_A_B]"
			t := strings.TrimSpace(l)
			if k := strings.Index(t, ": "); k >= 0 {
				t = t[k+2:]
				name := t
				meta := ""
				if b := strings.Index(t, "["); b >= 0 {
					name = t[:b]
					meta = strings.TrimSuffix(t[b+1:], "]")
				}
				res.cpOrder = append(res.cpOrder, name)
				for _, kv := range strings.Split(meta, ",") {
					if strings.HasPrefix(kv, "romcode:") {
						res.cpRom[name] = strings.TrimPrefix(kv, "romcode:")
					}
				}
			}
		case "IO Attach":
			t := strings.TrimSpace(l)
			if k := strings.Index(t, ": "); k >= 0 {
				res.ioatt = append(res.ioatt, t[k+2:])
			}
		case "Sections":
			if strings.HasPrefix(l, "\t\t\t") {
				// "\t\t\t1[symbol:_start]: mov[] r0[type:reg] i0[type:input]"
				t := strings.TrimSpace(l)
				k := strings.Index(t, "]:")
				if k < 0 || cur == "" {
					continue
				}
				head := t[:k+1]
				body := t[k+2:]
				sym := ""
				if b := strings.Index(head, "["); b >= 0 {
					for _, kv := range strings.Split(strings.TrimSuffix(head[b+1:], "]"), ",") {
						if strings.HasPrefix(kv, "symbol:") {
							sym = strings.TrimPrefix(kv, "symbol:")
						}
					}
				}
				words := strings.Fields(metaRe.ReplaceAllString(body, " "))
				line := strings.Join(words, " ")
				if sym != "" {
					line = sym + ": " + line
				}
				res.sections[cur] = append(res.sections[cur], line)
			} else if strings.HasPrefix(l, "\t\t") {
				t := strings.TrimSpace(l)
				if b := strings.Index(t, "["); b >= 0 {
					cur = t[:b]
					if _, ok := res.sections[cur]; !ok {
						res.sections[cur] = []string{}
					}
				}
			}
		}
	}
	return true
}

// programLines: the disassembled program of every processor of the final machine.
func programLines(bm *bondmachine.Bondmachine) [][]string {
	out := make([][]string, 0)
	for _, d := range bm.Processors {
		m := bm.Domains[d]
		txt, err := m.Disassembler()
		if err != nil {
			out = append(out, []string{"disasm-error:" + err.Error()})
			continue
		}
		ls := []string{}
		for _, l := range strings.Split(txt, "\n") {
			l = strings.Join(strings.Fields(l), " ")
			if l != "" {
				ls = append(ls, l)
			}
		}
		out = append(out, ls)
	}
	return out
}

// bondList: canonical list "src>dst" of the bonds of the machine (sorted).
func bondList(bm *bondmachine.Bondmachine) []string {
	res := []string{}
	for i, j := range bm.Links {
		if j == -1 {
			continue
		}
		in, ok1 := bm.GetInternalInputName(i)
		ou, ok2 := bm.GetInternalOutputName(j)
		if !ok1 || !ok2 {
			res = append(res, fmt.Sprintf("err-%d-%d", i, j))
			continue
		}
		res = append(res, ou+">"+in)
	}
	sort.Strings(res)
	return res
}
