package main

// Driving the real simulator (bondmachine.VM) with a 4-phase valid/recv environment.
//
// Environment protocol (iomode sync), one round = one value on every BM input, one value expected
// on every BM output:
//   input k : present the value and raise valid; when the machine raises recv drop valid; the next
//             value is presented only after recv has been seen low again (a complete 4-phase cycle,
//             so the environment itself never provokes C04's re-arm race).
//   output k: when the machine raises valid capture the value and raise recv; when valid falls drop
//             recv.
// The run ends when every output has delivered `rounds` values, or after maxTicks (reported as
// "timeout": with blocking IO this is how a deadlock shows).

import (
	"fmt"
	"strconv"
	"strings"

	"github.com/BondMachineHQ/BondMachine/pkg/bondmachine"
)

type simResult struct {
	outs    [][]uint64 // per output: the captured stream
	ticks   int
	status  string // ok | timeout | error:...
	inTaken []int
	// C04-signature events seen during the run (the simulator's handshake defect, not a composer
	// matter): a consumer captured again on a port whose recv was still high from its previous
	// capture (rearm); a producer's r2owa completed on a recv that was high before it raised valid
	// (stale)
	rearm, stale int
	firstEvent   string
}

func toReg(rsize uint8, v uint64) interface{} {
	switch {
	case rsize <= 8:
		return uint8(v)
	case rsize <= 16:
		return uint16(v)
	case rsize <= 32:
		return uint32(v)
	}
	return uint64(v)
}

func fromReg(x interface{}) uint64 {
	switch v := x.(type) {
	case uint8:
		return uint64(v)
	case uint16:
		return uint64(v)
	case uint32:
		return uint64(v)
	case uint64:
		return v
	}
	return 0
}

// simulate feeds inputs[round][k] and collects `rounds` values per output.
func simulate(bm *bondmachine.Bondmachine, inputs [][]uint64, maxTicks int) (res simResult) {
	rounds := len(inputs)
	res.outs = make([][]uint64, bm.Outputs)
	res.inTaken = make([]int, bm.Inputs)
	defer func() {
		if r := recover(); r != nil {
			res.status = fmt.Sprintf("error:panic:%v", r)
		}
	}()
	vm := new(bondmachine.VM)
	vm.Bmach = bm
	if err := vm.Init(); err != nil {
		res.status = "error:" + err.Error()
		return
	}
	vm.Launch_processors(nil)
	defer func() {
		if s, has := interface{}(vm).(interface{ Shutdown() }); has {
			s.Shutdown()
		}
	}()
	// disassembled programs, to recognise IO instructions at a pc
	type ioAt struct {
		kind byte // 'i' = i2rw, 'o' = r2owa
		port int
	}
	progs := make([]map[int]ioAt, len(vm.Processors))
	for pi := range vm.Processors {
		progs[pi] = map[int]ioAt{}
		if txt, err := vm.Processors[pi].Mach.Disassembler(); err == nil {
			a := 0
			for _, l := range strings.Split(txt, "\n") {
				f := strings.Fields(l)
				if len(f) == 0 {
					continue
				}
				if len(f) == 3 && f[0] == "i2rw" {
					k, _ := strconv.Atoi(strings.TrimPrefix(f[2], "i"))
					progs[pi][a] = ioAt{'i', k}
				}
				if len(f) == 3 && f[0] == "r2owa" {
					k, _ := strconv.Atoi(strings.TrimPrefix(f[2], "o"))
					progs[pi][a] = ioAt{'o', k}
				}
				a++
			}
		}
	}
	type pre struct {
		pc          uint64
		recv, valid bool
		io          ioAt
		has         bool
	}
	pres := make([]pre, len(vm.Processors))
	// input side state: 0 = idle (may present), 1 = valid raised, 2 = waiting recv low
	inState := make([]int, bm.Inputs)
	inRound := make([]int, bm.Inputs)
	outPrevValid := make([]bool, bm.Outputs)
	for t := 0; t < maxTicks; t++ {
		for k := 0; k < bm.Inputs; k++ {
			switch inState[k] {
			case 0:
				if inRound[k] < rounds {
					v := uint64(0)
					if k < len(inputs[inRound[k]]) {
						v = inputs[inRound[k]][k]
					}
					vm.Inputs_regs[k] = toReg(bm.Rsize, v)
					vm.InputsValid[k] = true
					inState[k] = 1
				}
			case 1:
				if vm.InputsRecv[k] {
					vm.InputsValid[k] = false
					inRound[k]++
					res.inTaken[k]++
					inState[k] = 2
				}
			case 2:
				if !vm.InputsRecv[k] {
					inState[k] = 0
					if inRound[k] < rounds {
						v := uint64(0)
						if k < len(inputs[inRound[k]]) {
							v = inputs[inRound[k]][k]
						}
						vm.Inputs_regs[k] = toReg(bm.Rsize, v)
						vm.InputsValid[k] = true
						inState[k] = 1
					}
				}
			}
		}
		for pi, p := range vm.Processors {
			pres[pi] = pre{pc: uint64(p.Pc)}
			if io, ok := progs[pi][int(p.Pc)]; ok {
				pres[pi].io, pres[pi].has = io, true
				if io.kind == 'i' && io.port < len(p.InputsRecv) {
					pres[pi].recv = p.InputsRecv[io.port]
				}
				if io.kind == 'o' && io.port < len(p.OutputsRecv) {
					pres[pi].valid = p.OutputsValid[io.port]
				}
			}
		}
		if _, err := vm.Step(nil); err != nil {
			res.status = "error:" + err.Error()
			return
		}
		for pi, p := range vm.Processors {
			q := pres[pi]
			if !q.has || uint64(p.Pc) == q.pc {
				continue
			}
			if q.io.kind == 'i' && q.recv {
				res.rearm++
				if res.firstEvent == "" {
					res.firstEvent = fmt.Sprintf("rearm:tick%d:p%di%d", t, pi, q.io.port)
				}
			}
			if q.io.kind == 'o' && !q.valid {
				// completed in the very tick it raised valid: recv was stale
				res.stale++
				if res.firstEvent == "" {
					res.firstEvent = fmt.Sprintf("stale:tick%d:p%do%d", t, pi, q.io.port)
				}
			}
		}
		res.ticks = t + 1
		done := true
		for k := 0; k < bm.Outputs; k++ {
			if vm.OutputsValid[k] {
				if !outPrevValid[k] {
					res.outs[k] = append(res.outs[k], fromReg(vm.Outputs_regs[k]))
				}
				vm.OutputsRecv[k] = true
			} else {
				vm.OutputsRecv[k] = false
			}
			outPrevValid[k] = vm.OutputsValid[k]
			if len(res.outs[k]) < rounds {
				done = false
			}
		}
		if done {
			res.status = "ok"
			return
		}
	}
	res.status = "timeout"
	return
}
