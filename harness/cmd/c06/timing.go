package main

import (
	"os"
	"time"
)

var tAsmD, tAsm, tSim time.Duration

func init() {
	if os.Getenv("C06_TIMING") != "" {
		timingOn = true
	}
}

var timingOn bool
