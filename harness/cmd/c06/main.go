// C06 harness: fragment graphs mapped onto processors by the real basm fragment composer.
// (exploration entry points; the generator lives in gen.go)
package main

import (
	"fmt"
	"io"
	"log"
	"os"
	"strconv"
	"strings"

	"bmvh/common"
)

var out = common.NewOut(os.Stdout)

func main() {
	defer out.Flush()
	log.SetOutput(io.Discard) // the assembler warns through package log
	if len(os.Args) < 2 {
		fmt.Fprintln(os.Stderr, "usage: c06 file <basm> [rounds in0,in1 ...] | gen <n> | replay <file>")
		os.Exit(2)
	}
	switch os.Args[1] {
	case "file":
		src, err := os.ReadFile(os.Args[2])
		if err != nil {
			panic(err)
		}
		res, dump := assembleOnce(string(src), true)
		out.Line("stage=%s err=%q", res.stage, res.err)
		if parseComposerDump(dump, &res) {
			for _, cp := range res.cpOrder {
				out.Line("CP %s rom=%s", cp, res.cpRom[cp])
				for _, l := range res.sections[res.cpRom[cp]] {
					out.Line("  S %s", l)
				}
			}
			for _, a := range res.ioatt {
				out.Line("  A %s", a)
			}
		} else {
			out.Line("dump-not-parsed")
		}
		if res.bm != nil {
			for i, p := range programLines(res.bm) {
				out.Line("P%d R=%d N=%d M=%d: %s", i, res.bm.Domains[i].R, res.bm.Domains[i].N, res.bm.Domains[i].M, strings.Join(p, " ; "))
			}
			out.Line("bonds %s", strings.Join(bondList(res.bm), " "))
			inputs := [][]uint64{}
			for _, a := range os.Args[3:] {
				row := []uint64{}
				for _, f := range strings.Split(a, ",") {
					v, _ := strconv.ParseUint(f, 10, 64)
					row = append(row, v)
				}
				inputs = append(inputs, row)
			}
			if len(inputs) > 0 {
				sr := simulate(res.bm, inputs, 3000)
				out.Line("sim status=%s ticks=%d outs=%v taken=%v", sr.status, sr.ticks, sr.outs, sr.inTaken)
			}
		}
	default:
		runMode(os.Args[1:])
	}
}
