package main

// Case generator, .basm writer, case (de)serialisation, and the per-partition run.
//
// Stream written to stdout (read by lean/Oracle/C06.lean and by tools/props/c06.py):
//
//	CASE <cid> w=<w> kind=<wellformed|nontopo|unlinked|multiinput>
//	INST <name> <fragname> <resin csv|-> <resout csv|-> <body|->
//	LINK <name> <src> <dst>
//	INPUT v,v,..
//	PART <pid> <cpname>=<i>:<i>;<cpname>=...
//	X <cid> <pid> <key> <value>       observations of the real tool for that partition
//	END

import (
	"bufio"
	"fmt"
	"os"
	"sort"
	"strconv"
	"strings"
	"time"

	"bmvh/common"
)

type instr struct {
	op   string
	d, s int
	v    uint64
}

type frag struct {
	name          string
	resin, resout []int
	body          []instr
}

type inst struct {
	name string
	frag *frag
}

type link struct {
	name   string
	srcExt bool
	si, sp int // ext: si = BM input index
	dstExt bool
	di, dj int // ext: di = BM output index
}

type cpdef struct {
	name string
	list []int
}

type part struct {
	id  string
	cps []cpdef
}

type gcase struct {
	id     string
	w      int
	kind   string
	insts  []inst
	links  []link
	inputs [][]uint64
	parts  []part
	// links from a BM input that are written through a pruned pass-through instance (`fidef t pruned:true`,
	// an instance that gets no processor): link name -> "cf" (fragment-side attach first, as cmd/neuralbond
	// writes it) or "pf" (ext side first).  Only the text given to the real tool changes; pruning must not.
	prune map[string]string
	// links whose consumer-side attach line is written before the producer-side one (the order of the two
	// filinkatt lines of a link means nothing)
	cfirst map[string]bool
}

// ---------------------------------------------------------------------------------- serialisation

func csv(xs []int) string {
	if len(xs) == 0 {
		return "-"
	}
	s := make([]string, len(xs))
	for i, x := range xs {
		s[i] = strconv.Itoa(x)
	}
	return strings.Join(s, ",")
}

func (i instr) enc() string {
	switch i.op {
	case "rset":
		return fmt.Sprintf("rset:%d:%d", i.d, i.v)
	case "inc", "dec", "clr":
		return fmt.Sprintf("%s:%d", i.op, i.d)
	}
	return fmt.Sprintf("%s:%d:%d", i.op, i.d, i.s)
}

func (i instr) basm() string {
	switch i.op {
	case "rset":
		return fmt.Sprintf("rset r%d, %d", i.d, i.v)
	case "inc", "dec", "clr":
		return fmt.Sprintf("%s r%d", i.op, i.d)
	}
	return fmt.Sprintf("%s r%d, r%d", i.op, i.d, i.s)
}

func bodyEnc(b []instr) string {
	if len(b) == 0 {
		return "-"
	}
	s := make([]string, len(b))
	for i, x := range b {
		s[i] = x.enc()
	}
	return strings.Join(s, ";")
}

func (l link) srcS() string {
	if l.srcExt {
		return fmt.Sprintf("e%d", l.si)
	}
	return fmt.Sprintf("o%d.%d", l.si, l.sp)
}
func (l link) dstS() string {
	if l.dstExt {
		return fmt.Sprintf("e%d", l.di)
	}
	return fmt.Sprintf("i%d.%d", l.di, l.dj)
}

func (p part) spec() string {
	s := make([]string, len(p.cps))
	for i, c := range p.cps {
		ls := make([]string, len(c.list))
		for k, x := range c.list {
			ls[k] = strconv.Itoa(x)
		}
		s[i] = c.name + "=" + strings.Join(ls, ":")
	}
	return strings.Join(s, ";")
}

func (c *gcase) headerLines() []string {
	ls := []string{fmt.Sprintf("CASE %s w=%d kind=%s", c.id, c.w, c.kind)}
	for _, in := range c.insts {
		ls = append(ls, fmt.Sprintf("INST %s %s %s %s %s", in.name, in.frag.name, csv(in.frag.resin), csv(in.frag.resout), bodyEnc(in.frag.body)))
	}
	for _, l := range c.links {
		ls = append(ls, fmt.Sprintf("LINK %s %s %s", l.name, l.srcS(), l.dstS()))
	}
	for _, row := range c.inputs {
		s := make([]string, len(row))
		for i, v := range row {
			s[i] = strconv.FormatUint(v, 10)
		}
		if len(s) == 0 {
			ls = append(ls, "INPUT")
		} else {
			ls = append(ls, "INPUT "+strings.Join(s, ","))
		}
	}
	if len(c.prune) > 0 {
		var ks []string
		for k, v := range c.prune {
			ks = append(ks, k+":"+v)
		}
		sort.Strings(ks)
		ls = append(ls, "PRUNE "+strings.Join(ks, ","))
	}
	if len(c.cfirst) > 0 {
		var ks []string
		for k := range c.cfirst {
			ks = append(ks, k)
		}
		sort.Strings(ks)
		ls = append(ls, "CFIRST "+strings.Join(ks, ","))
	}
	return ls
}

func parseInts(s string) []int {
	if s == "-" || s == "" {
		return nil
	}
	r := []int{}
	for _, f := range strings.Split(s, ",") {
		v, _ := strconv.Atoi(f)
		r = append(r, v)
	}
	return r
}

func parseBodyEnc(s string) []instr {
	if s == "-" || s == "" {
		return nil
	}
	r := []instr{}
	for _, f := range strings.Split(s, ";") {
		p := strings.Split(f, ":")
		at := func(i int) int {
			if i < len(p) {
				v, _ := strconv.Atoi(p[i])
				return v
			}
			return 0
		}
		in := instr{op: p[0], d: at(1)}
		if p[0] == "rset" {
			if len(p) > 2 {
				in.v, _ = strconv.ParseUint(p[2], 10, 64)
			}
		} else {
			in.s = at(2)
		}
		r = append(r, in)
	}
	return r
}

func parseEnd(s string) (ext bool, a, b int) {
	if strings.HasPrefix(s, "e") {
		a, _ = strconv.Atoi(s[1:])
		return true, a, 0
	}
	p := strings.Split(s[1:], ".")
	a, _ = strconv.Atoi(p[0])
	if len(p) > 1 {
		b, _ = strconv.Atoi(p[1])
	}
	return false, a, b
}

// parseCases reads CASE/INST/LINK/INPUT/PART lines (anything else is ignored).
func parseCases(sc *bufio.Scanner) []*gcase {
	var res []*gcase
	var cur *gcase
	frags := map[string]*frag{}
	for sc.Scan() {
		f := strings.Fields(sc.Text())
		if len(f) == 0 {
			continue
		}
		switch f[0] {
		case "CASE":
			cur = &gcase{id: f[1], w: 16, kind: "replay"}
			frags = map[string]*frag{}
			for _, kv := range f[2:] {
				if strings.HasPrefix(kv, "w=") {
					cur.w, _ = strconv.Atoi(kv[2:])
				}
				if strings.HasPrefix(kv, "kind=") {
					cur.kind = kv[5:]
				}
			}
			res = append(res, cur)
		case "INST":
			if cur == nil || len(f) < 6 {
				continue
			}
			fr, ok := frags[f[2]]
			if !ok {
				fr = &frag{name: f[2], resin: parseInts(f[3]), resout: parseInts(f[4]), body: parseBodyEnc(f[5])}
				frags[f[2]] = fr
			}
			cur.insts = append(cur.insts, inst{name: f[1], frag: fr})
		case "LINK":
			if cur == nil || len(f) < 4 {
				continue
			}
			l := link{name: f[1]}
			l.srcExt, l.si, l.sp = parseEnd(f[2])
			l.dstExt, l.di, l.dj = parseEnd(f[3])
			cur.links = append(cur.links, l)
		case "CFIRST":
			if cur == nil || len(f) < 2 {
				continue
			}
			cur.cfirst = map[string]bool{}
			for _, k := range strings.Split(f[1], ",") {
				cur.cfirst[k] = true
			}
		case "PRUNE":
			if cur == nil || len(f) < 2 {
				continue
			}
			cur.prune = map[string]string{}
			for _, kv := range strings.Split(f[1], ",") {
				if x := strings.SplitN(kv, ":", 2); len(x) == 2 {
					cur.prune[x[0]] = x[1]
				}
			}
		case "INPUT":
			if cur == nil {
				continue
			}
			row := []uint64{}
			if len(f) > 1 {
				for _, x := range strings.Split(f[1], ",") {
					v, _ := strconv.ParseUint(x, 10, 64)
					row = append(row, v)
				}
			}
			cur.inputs = append(cur.inputs, row)
		case "PART":
			if cur == nil || len(f) < 3 {
				continue
			}
			p := part{id: f[1]}
			for _, c := range strings.Split(f[2], ";") {
				kv := strings.SplitN(c, "=", 2)
				if len(kv) != 2 {
					continue
				}
				cd := cpdef{name: kv[0]}
				if kv[1] != "" {
					for _, x := range strings.Split(kv[1], ":") {
						v, _ := strconv.Atoi(x)
						cd.list = append(cd.list, v)
					}
				}
				p.cps = append(p.cps, cd)
			}
			cur.parts = append(cur.parts, p)
		}
	}
	return res
}

// ---------------------------------------------------------------------------------- .basm text

// basmText: the source fed to the real assembler for one partition.  `fiOrder` is the order of the
// fidef lines (the composer looks instances up by name, so it must not matter).
func (c *gcase) basmText(p part, fiOrder []int) string {
	var b strings.Builder
	fmt.Fprintf(&b, "%%meta bmdef global registersize:%d\n", c.w)
	fmt.Fprintf(&b, "%%meta bmdef global iomode:sync\n\n")
	seen := map[string]bool{}
	for _, in := range c.insts {
		f := in.frag
		if seen[f.name] {
			continue
		}
		seen[f.name] = true
		h := "%fragment " + f.name
		if len(f.resin) > 0 {
			h += " resin:" + regList(f.resin)
		}
		if len(f.resout) > 0 {
			h += " resout:" + regList(f.resout)
		}
		b.WriteString(h + "\n")
		for _, i := range f.body {
			b.WriteString("\t" + i.basm() + "\n")
		}
		b.WriteString("%endfragment\n")
	}
	if len(c.prune) > 0 {
		b.WriteString("%fragment prterminal resin:r0 resout:r0\n%endfragment\n")
	}
	b.WriteString("\n")
	for _, i := range fiOrder {
		fmt.Fprintf(&b, "%%meta fidef %s fragment:%s\n", c.insts[i].name, c.insts[i].frag.name)
	}
	tail := ""
	for _, l := range c.links {
		if how, ok := c.prune[l.name]; ok && l.srcExt && !l.dstExt {
			// BM input -> pruned pass-through instance -> the consumer
			t := "prt_" + l.name
			fmt.Fprintf(&b, "%%meta fidef %s fragment:prterminal\n%%meta fidef %s pruned:true\n", t, t)
			fmt.Fprintf(&b, "%%meta filinkdef %s_in type:fl\n", l.name)
			ext := fmt.Sprintf("%%meta filinkatt %s_in fi:ext, type:input, index:%d\n", l.name, l.si)
			frs := fmt.Sprintf("%%meta filinkatt %s_in fi:%s, type:input, index:0\n", l.name, t)
			if how == "cf" {
				b.WriteString(frs + ext)
			} else {
				b.WriteString(ext + frs)
			}
			// (the second half of the link is written after all the others, as in neuralbond's output)
			tail += fmt.Sprintf("%%meta filinkdef %s type:fl\n", l.name)
			tail += fmt.Sprintf("%%meta filinkatt %s fi:%s, type:output, index:0\n", l.name, t)
			tail += fmt.Sprintf("%%meta filinkatt %s fi:%s, type:input, index:%d\n", l.name, c.iname(l.di), l.dj)
			continue
		}
		fmt.Fprintf(&b, "%%meta filinkdef %s type:fl\n", l.name)
		var src, dst string
		if l.srcExt {
			src = fmt.Sprintf("%%meta filinkatt %s fi:ext, type:input, index:%d\n", l.name, l.si)
		} else {
			src = fmt.Sprintf("%%meta filinkatt %s fi:%s, type:output, index:%d\n", l.name, c.iname(l.si), l.sp)
		}
		if l.dstExt {
			dst = fmt.Sprintf("%%meta filinkatt %s fi:ext, type:output, index:%d\n", l.name, l.di)
		} else {
			dst = fmt.Sprintf("%%meta filinkatt %s fi:%s, type:input, index:%d\n", l.name, c.iname(l.di), l.dj)
		}
		if c.cfirst[l.name] {
			b.WriteString(dst + src)
		} else {
			b.WriteString(src + dst)
		}
	}
	b.WriteString(tail)
	for _, cp := range p.cps {
		names := make([]string, len(cp.list))
		for k, i := range cp.list {
			names[k] = c.iname(i)
		}
		fmt.Fprintf(&b, "%%meta cpdef %s fragcollapse:%s\n", cp.name, strings.Join(names, ":"))
	}
	return b.String()
}

func (c *gcase) iname(i int) string {
	if i >= 0 && i < len(c.insts) {
		return c.insts[i].name
	}
	return "nosuch" + strconv.Itoa(i)
}

func regList(rs []int) string {
	s := make([]string, len(rs))
	for i, r := range rs {
		s[i] = "r" + strconv.Itoa(r)
	}
	return strings.Join(s, ":")
}

// ---------------------------------------------------------------------------------- running a case

func errClass(e string) string {
	switch {
	case strings.Contains(e, "more than one input link"):
		return "multi-input"
	case strings.HasPrefix(e, "panic:"):
		return "panic:" + strings.ReplaceAll(strings.TrimPrefix(e, "panic:"), " ", "_")
	}
	return "error:" + strings.ReplaceAll(e, " ", "_")
}

func streamsS(o [][]uint64) string {
	s := make([]string, len(o))
	for i, st := range o {
		x := make([]string, len(st))
		for k, v := range st {
			x[k] = strconv.FormatUint(v, 10)
		}
		s[i] = strings.Join(x, ",")
	}
	return strings.Join(s, ";")
}

var maxTicks = common.EnvInt("C06_MAXTICKS", 4000)
var partCounter int

func (c *gcase) runPart(p part, rng *common.Rng) {
	pre := fmt.Sprintf("X %s %s ", c.id, p.id)
	fiOrder := make([]int, len(c.insts))
	for i := range fiOrder {
		fiOrder[i] = i
	}
	// shuffle the fidef order (deterministic per case/partition)
	for i := len(fiOrder) - 1; i > 0; i-- {
		j := rng.Intn(i + 1)
		fiOrder[i], fiOrder[j] = fiOrder[j], fiOrder[i]
	}
	src := c.basmText(p, fiOrder)
	if os.Getenv("C06_SHOWSRC") != "" {
		for _, l := range strings.Split(src, "\n") {
			out.Line("# %s", l)
		}
	}
	t0 := time.Now()
	resD, dump := assembleOnce(src, true)
	t1 := time.Now()
	tAsmD += t1.Sub(t0)
	// the machine that is simulated comes from the debug run; every third partition (and every
	// failing one) is assembled again without debug and must give the same machine / the same error
	partCounter++
	res := resD
	if resD.err != "" || partCounter%3 == 0 {
		plain, _ := assembleOnce(src, false)
		tAsm += time.Since(t1)
		same := plain.err == resD.err
		if same && plain.bm != nil && resD.bm != nil {
			same = fmt.Sprint(programLines(resD.bm), bondList(resD.bm)) == fmt.Sprint(programLines(plain.bm), bondList(plain.bm))
		}
		if same {
			out.Line("%sdbgsame 1", pre)
		} else {
			out.Line("%sdbgsame 0 debug-run:%s plain-run:%s", pre, errClass(resD.err), errClass(plain.err))
		}
		res = plain
	}
	if res.err != "" {
		out.Line("%sasm %s", pre, errClass(res.err))
		return
	}
	out.Line("%sasm ok", pre)
	if parseComposerDump(dump, &resD) {
		for ci, cp := range p.cps {
			rom := resD.cpRom[cp.name]
			out.Line("%ssec.%d %s", pre, ci, strings.Join(append([]string{rom}, resD.sections[rom]...), " | "))
		}
		out.Line("%satt %s", pre, strings.Join(resD.ioatt, " | "))
	} else {
		out.Line("%ssec.0 dump-not-parsed", pre)
	}
	for i, pl := range programLines(res.bm) {
		out.Line("%sprg.%d %s", pre, i, strings.Join(pl, " | "))
	}
	out.Line("%sbonds %s", pre, strings.Join(bondList(res.bm), " "))
	t3 := time.Now()
	sr := simulate(res.bm, c.inputs, maxTicks)
	tSim += time.Since(t3)
	st := sr.status
	if st == "timeout" {
		st = "deadlock" // no output within the tick budget
	}
	// pad/truncate to the number of rounds
	for k := range sr.outs {
		if len(sr.outs[k]) > len(c.inputs) {
			sr.outs[k] = sr.outs[k][:len(c.inputs)]
		}
	}
	out.Line("%sout %s %s", pre, strings.ReplaceAll(st, " ", "_"), streamsS(sr.outs))
	ev := sr.firstEvent
	if ev == "" {
		ev = "-"
	}
	out.Line("%shs rearm=%d stale=%d first=%s ticks=%d", pre, sr.rearm, sr.stale, ev, sr.ticks)
}

func (c *gcase) run(rng *common.Rng) {
	for _, l := range c.headerLines() {
		out.Line("%s", l)
	}
	for _, p := range c.parts {
		out.Line("PART %s %s", p.id, p.spec())
		func() {
			defer func() {
				if r := recover(); r != nil {
					out.Line("X %s %s asm panic:%s", c.id, p.id, strings.ReplaceAll(fmt.Sprint(r), " ", "_"))
				}
			}()
			c.runPart(p, rng)
		}()
		out.Flush()
	}
	out.Line("END")
	out.Flush()
}

// ---------------------------------------------------------------------------------- generation

var instNamePool = []string{"a", "aa", "b", "n_1", "x1", "fi", "n", "node_0_1", "q", "ab", "c", "d2", "n_2", "node_1_0", "zz", "k", "m9", "ba"}

func genFragment(r *common.Rng, name string, w int) *frag {
	f := &frag{name: name}
	nIn := []int{0, 1, 1, 1, 2, 2, 3}[r.Intn(7)]
	pool := 4 + r.Intn(3) // registers r0..r(pool-1)
	// resin: distinct registers, biased to r0,r1,.. so that different fragments reuse names
	perm := make([]int, pool)
	for i := range perm {
		perm[i] = i
	}
	if r.Chance(1, 3) {
		for i := pool - 1; i > 0; i-- {
			j := r.Intn(i + 1)
			perm[i], perm[j] = perm[j], perm[i]
		}
	}
	f.resin = append([]int{}, perm[:nIn]...)
	defined := append([]int{}, f.resin...)
	isDef := func(x int) bool {
		for _, d := range defined {
			if d == x {
				return true
			}
		}
		return false
	}
	pick := func() int { return defined[r.Intn(len(defined))] }
	mask := uint64(1)<<uint(w) - 1
	n := r.Intn(6)
	if nIn == 0 && n == 0 {
		n = 1
	}
	for k := 0; k < n; k++ {
		ops := []string{"rset", "clr"}
		if len(defined) > 0 {
			ops = []string{"rset", "clr", "inc", "dec", "add", "cpy", "mult", "add", "cpy", "inc"}
		}
		op := ops[r.Intn(len(ops))]
		in := instr{op: op}
		switch op {
		case "rset":
			in.d = r.Intn(pool)
			in.v = []uint64{0, 1, 2, 3, 5, mask, mask - 1, r.Next() & mask}[r.Intn(8)]
		case "clr":
			in.d = r.Intn(pool)
		case "inc", "dec":
			in.d = pick()
		case "add", "mult":
			in.d = pick()
			in.s = pick()
		case "cpy":
			in.d = r.Intn(pool)
			in.s = pick()
		}
		f.body = append(f.body, in)
		if !isDef(in.d) {
			defined = append(defined, in.d)
		}
	}
	nOut := 1 + r.Intn(2)
	if nOut > len(defined) {
		nOut = len(defined)
	}
	// resout: distinct defined registers (order random)
	cand := append([]int{}, defined...)
	for i := len(cand) - 1; i > 0; i-- {
		j := r.Intn(i + 1)
		cand[i], cand[j] = cand[j], cand[i]
	}
	f.resout = cand[:nOut]
	return f
}

func genCase(r *common.Rng, id string, thorough bool) *gcase {
	c := &gcase{id: id, w: []int{8, 16, 16, 32}[r.Intn(4)], kind: "wellformed"}
	nFr := 1 + r.Intn(4)
	frs := make([]*frag, nFr)
	for i := range frs {
		frs[i] = genFragment(r, fmt.Sprintf("f%d", i), c.w)
	}
	n := 2 + r.Intn(5)
	if r.Chance(1, 8) {
		// a long graph: collapsed onto one processor it needs more than ten hand-over temporaries
		// (t1 next to t10, t11 …)
		n = 12 + r.Intn(5)
	}
	names := append([]string{}, instNamePool...)
	for i := len(names) - 1; i > 0; i-- {
		j := r.Intn(i + 1)
		names[i], names[j] = names[j], names[i]
	}
	for i := 0; i < n; i++ {
		c.insts = append(c.insts, inst{name: names[i], frag: frs[r.Intn(nFr)]})
	}
	nExtIn := 0
	nExtOut := 0
	lk := 0
	newLink := func() string { lk++; return fmt.Sprintf("l%d", lk-1) }
	type port struct{ i, p int }
	outs := []port{}
	consumed := map[port]int{}
	for i := 0; i < n; i++ {
		f := c.insts[i].frag
		for j := range f.resin {
			l := link{name: newLink(), di: i, dj: j}
			if len(outs) > 0 && r.Chance(3, 4) {
				var o port
				if r.Chance(1, 3) && len(consumed) > 0 {
					// fan-out: reuse an already consumed port
					ks := make([]port, 0, len(consumed))
					for k := range consumed {
						ks = append(ks, k)
					}
					sort.Slice(ks, func(a, b int) bool { return ks[a].i < ks[b].i || (ks[a].i == ks[b].i && ks[a].p < ks[b].p) })
					o = ks[r.Intn(len(ks))]
				} else {
					o = outs[r.Intn(len(outs))]
				}
				l.si, l.sp = o.i, o.p
				consumed[o]++
			} else {
				l.srcExt = true
				if nExtIn > 0 && r.Chance(1, 3) {
					l.si = r.Intn(nExtIn) // shared BM input
				} else {
					l.si = nExtIn
					nExtIn++
				}
			}
			c.links = append(c.links, l)
		}
		for p := range f.resout {
			outs = append(outs, port{i, p})
		}
	}
	for _, o := range outs {
		k := consumed[o]
		if k == 0 || r.Chance(1, 5) {
			c.links = append(c.links, link{name: newLink(), si: o.i, sp: o.p, dstExt: true, di: nExtOut})
			nExtOut++
			if r.Chance(1, 10) {
				c.links = append(c.links, link{name: newLink(), si: o.i, sp: o.p, dstExt: true, di: nExtOut})
				nExtOut++
			}
		}
	}
	// link order in the file: shuffled
	for i := len(c.links) - 1; i > 0; i-- {
		j := r.Intn(i + 1)
		c.links[i], c.links[j] = c.links[j], c.links[i]
	}
	rounds := 3
	mask := uint64(1)<<uint(c.w) - 1
	for k := 0; k < rounds; k++ {
		row := make([]uint64, nExtIn)
		for i := range row {
			row[i] = []uint64{0, 1, mask, r.Next() & mask, r.Next() & 15, r.Next() & mask}[r.Intn(6)]
		}
		c.inputs = append(c.inputs, row)
	}
	if r.Chance(1, 3) {
		c.cfirst = map[string]bool{}
		for _, l := range c.links {
			if r.Chance(1, 2) {
				c.cfirst[l.name] = true
			}
		}
	}
	if r.Chance(1, 4) {
		c.prune = map[string]string{}
		for _, l := range c.links {
			if l.srcExt && !l.dstExt && r.Chance(1, 2) {
				c.prune[l.name] = []string{"cf", "pf"}[r.Intn(2)]
			}
		}
	}
	c.genParts(r, thorough)
	return c
}

// producersIn: instances of `blk` feeding i
func (c *gcase) preds(i int) []int {
	res := []int{}
	for _, l := range c.links {
		if !l.srcExt && !l.dstExt && l.di == i {
			res = append(res, l.si)
		}
	}
	return res
}

// linearExt: a random topological order of the block
func (c *gcase) linearExt(r *common.Rng, blk []int) []int {
	in := map[int]bool{}
	for _, x := range blk {
		in[x] = true
	}
	placed := map[int]bool{}
	res := []int{}
	for len(res) < len(blk) {
		ready := []int{}
		for _, x := range blk {
			if placed[x] {
				continue
			}
			ok := true
			for _, p := range c.preds(x) {
				if in[p] && !placed[p] {
					ok = false
				}
			}
			if ok {
				ready = append(ready, x)
			}
		}
		x := ready[r.Intn(len(ready))]
		placed[x] = true
		res = append(res, x)
	}
	return res
}

func setPartitions(n int) [][][]int {
	// restricted growth strings
	var res [][][]int
	a := make([]int, n)
	var rec func(i, m int)
	rec = func(i, m int) {
		if i == n {
			blocks := make([][]int, m)
			for k, b := range a {
				blocks[b] = append(blocks[b], k)
			}
			res = append(res, blocks)
			return
		}
		for b := 0; b <= m; b++ {
			a[i] = b
			nm := m
			if b == m {
				nm = m + 1
			}
			rec(i+1, nm)
		}
	}
	rec(0, 0)
	return res
}

func (c *gcase) mkPart(r *common.Rng, id string, blocks [][]int, shuffleLists, shuffleCps bool) part {
	p := part{id: id}
	bl := make([][]int, len(blocks))
	copy(bl, blocks)
	if shuffleCps {
		for i := len(bl) - 1; i > 0; i-- {
			j := r.Intn(i + 1)
			bl[i], bl[j] = bl[j], bl[i]
		}
	}
	for k, b := range bl {
		l := append([]int{}, b...)
		sort.Ints(l)
		if shuffleLists {
			l = c.linearExt(r, l)
		}
		p.cps = append(p.cps, cpdef{name: fmt.Sprintf("cp%d", k), list: l})
	}
	return p
}

func (c *gcase) genParts(r *common.Rng, thorough bool) {
	n := len(c.insts)
	sep := make([][]int, n)
	all := []int{}
	for i := 0; i < n; i++ {
		sep[i] = []int{i}
		all = append(all, i)
	}
	if n <= 9 { // (long graphs are there for the collapsed processors: no one-processor-per-instance partitions)
		c.parts = append(c.parts, c.mkPart(r, "sep", sep, false, false))
		c.parts = append(c.parts, c.mkPart(r, "sepx", sep, false, true))
	}
	c.parts = append(c.parts, c.mkPart(r, "one", [][]int{all}, false, false))
	c.parts = append(c.parts, c.mkPart(r, "onex", [][]int{all}, true, false))
	if n <= 4 {
		for k, bl := range setPartitions(n) {
			if len(bl) == 1 || len(bl) == n {
				continue
			}
			c.parts = append(c.parts, c.mkPart(r, fmt.Sprintf("sp%d", k), bl, r.Bool(), r.Bool()))
		}
	} else {
		cnt := 4
		if thorough {
			cnt = 10
		}
		for k := 0; k < cnt; k++ {
			m := 2 + r.Intn(n-2)
			if n > 9 {
				m = 2 + r.Intn(3)
			}
			bl := make([][]int, m)
			for i := 0; i < n; i++ {
				b := r.Intn(m)
				bl[b] = append(bl[b], i)
			}
			nb := [][]int{}
			for _, b := range bl {
				if len(b) > 0 {
					nb = append(nb, b)
				}
			}
			c.parts = append(c.parts, c.mkPart(r, fmt.Sprintf("rp%d", k), nb, r.Bool(), r.Bool()))
		}
	}
}

// malform: turn a well formed case into one of the malformed kinds (text and behaviour of the
// real tool are still compared with the model; the property's hypotheses do not hold)
func (c *gcase) malform(r *common.Rng) {
	switch r.Intn(3) {
	case 0: // a collapse list that is not topologically ordered
		for pi := range c.parts {
			for ci := range c.parts[pi].cps {
				l := c.parts[pi].cps[ci].list
				for a, b := 0, len(l)-1; a < b; a, b = a+1, b-1 {
					l[a], l[b] = l[b], l[a]
				}
			}
		}
		c.kind = "nontopo"
	case 1: // an input port without a link
		for k, l := range c.links {
			if !l.dstExt {
				c.links = append(c.links[:k], c.links[k+1:]...)
				c.kind = "unlinked"
				break
			}
		}
	case 2: // two links into one input port
		for _, l := range c.links {
			if !l.dstExt {
				d := l
				d.name = l.name + "dup"
				c.links = append(c.links, d)
				c.kind = "multiinput"
				break
			}
		}
	}
}

func runMode(args []string) {
	rng := common.NewRng(common.Seed())
	switch args[0] {
	case "gen":
		n, _ := strconv.Atoi(args[1])
		thorough := len(args) > 2 && args[2] == "thorough"
		for k := 0; k < n; k++ {
			c := genCase(rng, fmt.Sprintf("g%d", k), thorough)
			if k%7 == 6 {
				c.malform(rng)
			}
			c.run(rng)
		}
		if timingOn {
			fmt.Fprintf(os.Stderr, "timing: asm(debug)=%v asm=%v sim=%v\n", tAsmD, tAsm, tSim)
		}
	case "replay":
		f, err := os.Open(args[1])
		if err != nil {
			panic(err)
		}
		defer f.Close()
		sc := bufio.NewScanner(f)
		sc.Buffer(make([]byte, 1<<20), 1<<24)
		for _, c := range parseCases(sc) {
			c.run(rng)
		}
	default:
		fmt.Fprintln(os.Stderr, "unknown mode", args[0])
		os.Exit(2)
	}
}
