// C15 harness: simbox rules as text (Add / String / Print / Del / Suspend / Reactivate, JSON
// save+load as cmd/simbox does it) and rules applied by the real `bondmachine -sim` loop.
//
//	c15 text <cases> <histories> <maxlen>      generated rule strings and edit histories
//	c15 sim  <cases> <bondmachine-cli> <dir>   generated machines + rule lists run through the CLI
//	c15 replay <file> [<cli> <dir>]            lines "T <hex>", "H/E/J", or a sim case "Q ..."
//
// Output is read by lean/Oracle/C15.lean, which prints the model's lines; tools/props/c15.py diffs.
// Strings travel as 'x' + hex(UTF-8 bytes).
package main

import (
	"bufio"
	"bytes"
	"encoding/hex"
	"encoding/json"
	"fmt"
	"os"
	"os/exec"
	"path/filepath"
	"reflect"
	"regexp"
	"strconv"
	"strings"
	"time"

	"bmvh/common"

	"github.com/BondMachineHQ/BondMachine/pkg/bondmachine"
	"github.com/BondMachineHQ/BondMachine/pkg/procbuilder"
	"github.com/BondMachineHQ/BondMachine/pkg/simbox"
)

var out = common.NewOut(os.Stdout)

func hx(s string) string { return "x" + hex.EncodeToString([]byte(s)) }
func unhx(s string) string {
	b, _ := hex.DecodeString(strings.TrimPrefix(s, "x"))
	return string(b)
}
func b01(b bool) string {
	if b {
		return "1"
	}
	return "0"
}

func ruleDump(r simbox.Rule) string {
	return fmt.Sprintf("%d.%d.%d.%s.%s.%s", r.Timec, r.Tick, r.Action, hx(r.Object), hx(r.Extra), b01(r.Suspended))
}

func boxDump(sb *simbox.Simbox) string {
	p := make([]string, len(sb.Rules))
	for i, r := range sb.Rules {
		p[i] = ruleDump(r)
	}
	return strings.Join(p, ";")
}

// ---------------------------------------------------------------- text

func textCase(s string) {
	out.Line("T %s", hx(s))
	res := common.Guard(func() string {
		sb := new(simbox.Simbox)
		if err := sb.Add(s); err != nil {
			return "R err"
		}
		if len(sb.Rules) != 1 {
			return fmt.Sprintf("R bad-len %d", len(sb.Rules))
		}
		r := sb.Rules[0]
		str := r.String()
		// the property itself, directly on the implementation: parse(print(r)) == r
		rt := "fail"
		sb2 := new(simbox.Simbox)
		if err := sb2.Add(str); err == nil && len(sb2.Rules) == 1 && sb2.Rules[0] == r {
			rt = "ok"
		}
		// the stored rule must be the rule the string denotes, evaluated on the implementation alone:
		// (SF) a documented short form ("if the extra parameter is omitted it defaults to unsigned")
		// is stored as its long form is; (KW) the stored rule prints with the string's own time
		// constraint keyword and action word
		words := strings.Split(s, ":")
		sf := "na"
		isShort := (len(words) == 4 && (words[0] == "absolute" || words[0] == "relative")) ||
			(len(words) == 3 && (words[0] == "onvalid" || words[0] == "onrecv" || words[0] == "onexit"))
		if isShort {
			sf = "fail"
			sb3 := new(simbox.Simbox)
			if err := sb3.Add(s + ":unsigned"); err == nil && len(sb3.Rules) == 1 && sb3.Rules[0] == r {
				sf = "ok"
			}
		}
		pw := strings.Split(str, ":")
		at := func(l []string, i int) string {
			if i < len(l) {
				return l[i]
			}
			return ""
		}
		ai := 1
		if words[0] == "absolute" || words[0] == "relative" {
			ai = 2
		}
		kw := "fail"
		if at(pw, 0) == words[0] && (words[0] == "config" || at(pw, ai) == at(words, ai)) {
			kw = "ok"
		}
		return fmt.Sprintf("R ok %s S=%s RT=%s SF=%s KW=%s", ruleDump(r), hx(str), rt, sf, kw)
	})
	out.Line("%s", res)
}

var docExamples = []string{
	"absolute:100:set:r0:42", "absolute:200:get:r1:unsigned", "absolute:300:show:r2:hex", "absolute:500:get:io_input:signed",
	"relative:10:set:r0:100", "relative:50:get:r1:unsigned", "relative:100:show:r2:hex", "relative:25:get:memory_0:signed",
	"onvalid:get:r0:unsigned", "onvalid:show:r1:hex", "onvalid:get:io_input:signed", "onvalid:show:r2",
	"onrecv:get:r0:unsigned", "onrecv:show:r1:hex", "onrecv:get:io_input:signed", "onrecv:show:r2",
	"onexit:get:r0:unsigned", "onexit:show:r1:hex", "onexit:get:io_output:signed", "onexit:show:r2",
	"config:show_pc", "config:show_instruction", "config:show_disasm", "config:show_ticks", "config:get_ticks",
	"config:show_proc_regs_pre", "config:show_proc_regs_post", "config:show_proc_io_pre", "config:show_proc_io_post",
	"config:show_io_pre", "config:show_io_post", "config:get_all:hex", "config:get_all_internal:unsigned",
	"config:show_all:unsigned", "config:show_all_internal:unsigned", "relative:1:show:r0:hex", "absolute:0:set:r0:0",
	"onrecv:show:r2:signed", "absolute:0:set:i0:7", "onexit:show:o0:unsigned",
}

var ticks = []string{"0", "1", "2", "7", "100", "4096", "2147483648", "9223372036854775807", "9223372036854775808",
	"18446744073709551615", "-1", "-9223372036854775808", "-9223372036854775809", "+5", "007", "-0", "", "1_0", "１",
	"0x10", " 5", "5 ", "1e3", "+", "-", "--1", "99999999999999999999999"}
var objects = []string{"i0", "i1", "i01", "o0", "o1", "i0v", "i0r", "o0v", "o0r", "p0r0", "p0r1", "p0i0", "p0o0", "p1r0", "i9", "r0",
	"memory_0", "io_input", "", "ü", "a b", "zz", "get_all", "show_pc"}
var extras = []string{"unsigned", "signed", "hex", "bin", "binary", "42", "0", "255", "300", "0x1f", "", "a b", "é", "-1"}
var plain = []string{"show_pc", "show_instruction", "show_disasm", "show_ticks", "get_ticks", "show_proc_regs_pre", "show_proc_regs_post",
	"show_proc_io_pre", "show_proc_io_post", "show_io_pre", "show_io_post"}
var bulk = []string{"get_all", "get_all_internal", "show_all", "show_all_internal"}
var kws = []string{"absolute", "relative", "onvalid", "onrecv", "onexit", "config", "Absolute", "abs", "", "set", "get"}
var acts = []string{"set", "get", "show", "config", "Set", "", "put"}

func pick(r *common.Rng, l []string) string { return l[r.Intn(len(l))] }

// a mostly valid rule string
func genRule(r *common.Rng) string {
	switch r.Intn(10) {
	case 0, 1, 2:
		return pick(r, []string{"absolute", "relative"}) + ":" + pick(r, ticks[:8]) + ":" + pick(r, acts[:3]) + ":" + pick(r, objects) + ":" + pick(r, extras)
	case 3:
		return pick(r, []string{"absolute", "relative"}) + ":" + pick(r, ticks) + ":" + pick(r, acts[:3]) + ":" + pick(r, objects) + ":" + pick(r, extras)
	case 4:
		return pick(r, []string{"absolute", "relative"}) + ":" + pick(r, ticks[:10]) + ":" + pick(r, acts[:3]) + ":" + pick(r, objects)
	case 5:
		return pick(r, []string{"onvalid", "onrecv", "onexit"}) + ":" + pick(r, acts[:3]) + ":" + pick(r, objects) + ":" + pick(r, extras)
	case 6:
		return pick(r, []string{"onvalid", "onrecv", "onexit"}) + ":" + pick(r, acts[:3]) + ":" + pick(r, objects)
	case 7:
		return "config:" + pick(r, append(append([]string{}, plain...), bulk...))
	case 8:
		return "config:" + pick(r, append(append([]string{}, plain...), bulk...)) + ":" + pick(r, extras)
	default:
		return pick(r, docExamples)
	}
}

// a malformed stream: wrong arity, unknown keywords, mutated separators
func genMalformed(r *common.Rng) string {
	switch r.Intn(6) {
	case 0: // random words, random arity
		n := r.Intn(8)
		w := make([]string, n)
		for i := range w {
			switch r.Intn(4) {
			case 0:
				w[i] = pick(r, kws)
			case 1:
				w[i] = pick(r, acts)
			case 2:
				w[i] = pick(r, ticks)
			default:
				w[i] = pick(r, objects)
			}
		}
		return strings.Join(w, ":")
	case 1: // mutate one character of a valid rule (on runes: the model's strings are Unicode strings)
		s := []rune(genRule(r))
		if len(s) == 0 {
			return ":"
		}
		i := r.Intn(len(s))
		switch r.Intn(3) {
		case 0:
			s = append(s[:i], s[i+1:]...)
		case 1:
			s[i] = []rune(":;, _-0aZ")[r.Intn(9)]
		default:
			s = append(s[:i], append([]rune{[]rune(":: x")[r.Intn(4)]}, s[i:]...)...)
		}
		return string(s)
	case 2:
		return genRule(r) + pick(r, []string{":", "::", ":x", " ", "\n"})
	case 3:
		return pick(r, []string{":", " ", "\t"}) + genRule(r)
	case 4:
		return pick(r, kws) + ":" + pick(r, ticks) + ":" + pick(r, acts) + ":" + pick(r, objects) + ":" + pick(r, extras)
	default:
		return pick(r, kws) + ":" + pick(r, acts) + ":" + pick(r, objects) + ":" + pick(r, extras)
	}
}

func textGen(r *common.Rng, n int) {
	for _, s := range docExamples {
		textCase(s)
	}
	// the full grid of forms x ticks (every tick spelling once with every timed form)
	for _, tc := range []string{"absolute", "relative"} {
		for _, a := range []string{"set", "get", "show"} {
			for _, t := range ticks {
				textCase(tc + ":" + t + ":" + a + ":i0:5")
				textCase(tc + ":" + t + ":" + a + ":i0")
			}
		}
	}
	for _, ev := range []string{"onvalid", "onrecv", "onexit"} {
		for _, a := range acts {
			textCase(ev + ":" + a + ":o0:hex")
			textCase(ev + ":" + a + ":o0")
		}
	}
	for _, o := range append(append([]string{"bogus", ""}, plain...), bulk...) {
		textCase("config:" + o)
		textCase("config:" + o + ":hex")
		textCase("config:" + o + ":hex:x")
	}
	for _, o := range objects {
		textCase("absolute:3:set:" + o + ":1")
		textCase("onvalid:show:" + o)
	}
	for i := 0; i < n; i++ {
		if r.Chance(3, 5) {
			textCase(genRule(r))
		} else {
			textCase(genMalformed(r))
		}
	}
}

// ---------------------------------------------------------------- histories

func applyEdit(sb *simbox.Simbox, op string, arg string) bool {
	switch op {
	case "add":
		return sb.Add(unhx(arg)) != nil
	case "del":
		i, _ := strconv.Atoi(arg)
		return sb.Del(i) != nil
	case "sus":
		i, _ := strconv.Atoi(arg)
		return sb.Suspend(i) != nil
	default:
		i, _ := strconv.Atoi(arg)
		return sb.Reactivate(i) != nil
	}
}

func runHistory(id int, edits [][2]string) {
	out.Line("H %d", id)
	sb := new(simbox.Simbox)
	for _, e := range edits {
		out.Line("E %s %s", e[0], e[1])
		res := common.Guard(func() string {
			err := applyEdit(sb, e[0], e[1])
			return fmt.Sprintf("B err=%s n=%d rules=%s P=%s", b01(err), len(sb.Rules), boxDump(sb), hx(sb.Print()))
		})
		out.Line("%s", res)
	}
	// save and load as cmd/simbox does
	out.Line("J")
	res := common.Guard(func() string {
		b, err := json.Marshal(sb)
		if err != nil {
			return "L marshal-error"
		}
		sb2 := new(simbox.Simbox)
		if err := json.Unmarshal(b, sb2); err != nil {
			return "L unmarshal-error"
		}
		// the listing of the reloaded file must let a user type the list in again
		rb := "ok"
		sb3 := new(simbox.Simbox)
		for i, r := range sb2.Rules {
			if err := sb3.Add(r.String()); err != nil {
				rb = "none"
				break
			}
			if r.Suspended {
				sb3.Suspend(i)
			}
		}
		if rb == "ok" && !(len(sb3.Rules) == len(sb.Rules) && (len(sb.Rules) == 0 || reflect.DeepEqual(sb3.Rules, sb.Rules))) {
			rb = "diff"
		}
		return fmt.Sprintf("L rules=%s rebuild=%s", boxDump(sb2), rb)
	})
	out.Line("%s", res)
}

func genHistory(r *common.Rng, maxlen int) [][2]string {
	n := 1 + r.Intn(maxlen)
	es := make([][2]string, 0, n)
	size := 0
	for i := 0; i < n; i++ {
		k := r.Intn(10)
		idx := func() string {
			if size > 0 && r.Chance(5, 6) {
				return strconv.Itoa(r.Intn(size))
			}
			return strconv.Itoa(size + r.Intn(3)*50)
		}
		switch {
		case k < 5 || size == 0:
			s := genRule(r)
			if r.Chance(1, 8) {
				s = genMalformed(r)
			}
			es = append(es, [2]string{"add", hx(s)})
			if new(simbox.Simbox).Add(s) == nil {
				size++
			}
		case k < 7:
			a := idx()
			es = append(es, [2]string{"sus", a})
		case k < 8:
			es = append(es, [2]string{"rea", idx()})
		default:
			a := idx()
			if v, _ := strconv.Atoi(a); v < size {
				size--
			}
			es = append(es, [2]string{"del", a})
		}
	}
	return es
}

// ---------------------------------------------------------------- simulations

type simCase struct {
	machine string
	edits   [][2]string // add/sus/rea/del building the rule list
	ticks   int
	stop    int // -1 none
	report  bool
}

func mkMachine(n, m, rbits uint8) *procbuilder.Machine {
	mc := new(procbuilder.Machine)
	mc.Arch.Rsize = 8
	mc.Arch.Modes = []string{"ha"}
	mc.Arch.N, mc.Arch.M, mc.Arch.R, mc.Arch.O, mc.Arch.L = n, m, rbits, 2, 0
	mc.Arch.Op = []procbuilder.Opcode{procbuilder.J{}, procbuilder.Nop{}}
	p, err := mc.Arch.Assembler([]byte("nop\n"))
	if err != nil {
		panic(err)
	}
	mc.Program = p
	return mc
}

var machineNames = []string{"wirep", "proc", "fan", "asym", "wide", "noin", "multi"}

// machines whose processors are inert (one nop, then halted): only rules and the bond fabric move
// data.  The shapes differ on purpose: processors with as many, fewer and more outputs than inputs,
// without inputs, several processors of different shapes, a machine without inputs.
func buildMachine(name string) *bondmachine.Bondmachine {
	bm := new(bondmachine.Bondmachine)
	bm.Rsize = 8
	bm.Init()
	io := func(nin, nout int) {
		for i := 0; i < nin; i++ {
			bm.Add_input()
		}
		for i := 0; i < nout; i++ {
			bm.Add_output()
		}
	}
	proc := func(n, m, rbits uint8) {
		bm.Domains = append(bm.Domains, mkMachine(n, m, rbits))
		bm.Add_processor(len(bm.Domains) - 1)
	}
	bond := func(a, b string) { bm.Add_bond([]string{a, b}) }
	switch name {
	case "wirep": // i0->o0, i1->o1, one unconnected idle processor
		io(2, 2)
		proc(0, 0, 2)
		bond("i0", "o0")
		bond("i1", "o1")
	case "proc": // i0->p0i0, p0o0->o0, i1->o1
		io(2, 2)
		proc(1, 1, 2)
		bond("i0", "p0i0")
		bond("p0o0", "o0")
		bond("i1", "o1")
	case "fan": // i0 feeds o0 and o1 (fan-out), i1 unconnected, processor output p0o0 unconnected
		io(2, 2)
		proc(1, 1, 2)
		bond("i0", "o0")
		bond("i0", "o1")
		bond("i1", "p0i0")
	case "asym": // more outputs than inputs: i0->o0 (a wire, so that o0 can become valid), i1->p0i0, p0o1->o1 (p0o0 unconnected)
		io(2, 2)
		proc(1, 2, 2)
		bond("i0", "o0")
		bond("i1", "p0i0")
		bond("p0o1", "o1")
	case "wide": // more inputs than outputs: i0->p0i0, i1->p0i1, p0o0->o0 (o1 unconnected), 2 registers
		io(2, 2)
		proc(2, 1, 1)
		bond("i0", "p0i0")
		bond("i1", "p0i1")
		bond("p0o0", "o0")
	case "noin": // no machine inputs, processor without inputs: p0o0->o0, p0o1->o1
		io(0, 2)
		proc(0, 2, 1)
		bond("p0o0", "o0")
		bond("p0o1", "o1")
	case "multi": // two processors of different shapes: p0 (0 in, 3 out, 2 regs), p1 (2 in, 1 out, 4 regs)
		io(1, 2)
		proc(0, 3, 1)
		proc(2, 1, 2)
		bond("p0o0", "p1i0")
		bond("i0", "p1i1")
		bond("p0o2", "o0")
		bond("p1o0", "o1")
	}
	return bm
}

// every element GetElementLocation can name on a machine (shared objects have no mnemonic there)
type machInfo struct {
	ins, outs, pins, pouts, regs []string // all valid names per kind
	bonds                        []string // names of the internal inputs and outputs (what *_all covers)
	maxima                       []string // the name with the largest valid index of every kind (per processor)
	over                         []string // the first name past the end of every kind
}

var infoCache = map[string]machInfo{}

func infoOf(name string) machInfo {
	if mi, ok := infoCache[name]; ok {
		return mi
	}
	bm := buildMachine(name)
	var mi machInfo
	rng := func(prefix string, n int, dst *[]string) {
		for k := 0; k < n; k++ {
			*dst = append(*dst, prefix+strconv.Itoa(k))
		}
		if n > 0 {
			mi.maxima = append(mi.maxima, prefix+strconv.Itoa(n-1))
		}
		mi.over = append(mi.over, prefix+strconv.Itoa(n))
	}
	rng("i", bm.Inputs, &mi.ins)
	rng("o", bm.Outputs, &mi.outs)
	for pi, d := range bm.Processors {
		a := bm.Domains[d].Arch
		pp := "p" + strconv.Itoa(pi)
		rng(pp+"i", int(a.N), &mi.pins)
		rng(pp+"o", int(a.M), &mi.pouts)
		rng(pp+"r", 1<<a.R, &mi.regs)
	}
	mi.over = append(mi.over, "p"+strconv.Itoa(len(bm.Processors))+"r0", "p"+strconv.Itoa(len(bm.Processors))+"o0")
	for _, b := range bm.Internal_inputs {
		mi.bonds = append(mi.bonds, b.String())
	}
	for _, b := range bm.Internal_outputs {
		mi.bonds = append(mi.bonds, b.String())
	}
	infoCache[name] = mi
	return mi
}

func machineLine(bm *bondmachine.Bondmachine) string {
	var procs, iin, iout, links, names []string
	for _, d := range bm.Processors {
		a := bm.Domains[d].Arch
		procs = append(procs, fmt.Sprintf("%d:%d:%d", a.N, a.M, 1<<a.R))
	}
	for _, b := range bm.Internal_inputs {
		iin = append(iin, fmt.Sprintf("%d.%d.%d", b.Map_to, b.Res_id, b.Ext_id))
		names = append(names, b.String())
	}
	for _, b := range bm.Internal_outputs {
		iout = append(iout, fmt.Sprintf("%d.%d.%d", b.Map_to, b.Res_id, b.Ext_id))
		names = append(names, b.String())
	}
	for _, l := range bm.Links {
		if l < 0 {
			links = append(links, "-")
		} else {
			links = append(links, strconv.Itoa(l))
		}
	}
	return fmt.Sprintf("M rsize=%d nin=%d nout=%d procs=%s iin=%s iout=%s links=%s names=%s", bm.Rsize, bm.Inputs, bm.Outputs,
		strings.Join(procs, ","), strings.Join(iin, ","), strings.Join(iout, ","), strings.Join(links, ","), strings.Join(names, ","))
}

var cellRe = regexp.MustCompile(`([io][0-9]+): ([01]+) \(v:(true|false) r:(true|false)\)`)

func cells(line string) string {
	var p []string
	for _, m := range cellRe.FindAllStringSubmatch(line, -1) {
		v, _ := strconv.ParseUint(m[2], 2, 64)
		p = append(p, fmt.Sprintf("%s:%d:%s:%s", m[1], v, b01(m[3] == "true"), b01(m[4] == "true")))
	}
	return strings.Join(p, ",")
}

func runSim(id int, c simCase, cli, dir string) {
	out.Line("S id=%d machine=%s ticks=%d stop=%s report=%s", id, c.machine, c.ticks,
		map[bool]string{true: "-", false: strconv.Itoa(c.stop)}[c.stop < 0], b01(c.report))
	bm := buildMachine(c.machine)
	out.Line("%s", machineLine(bm))
	sb := new(simbox.Simbox)
	for _, e := range c.edits {
		applyEdit(sb, e[0], e[1])
	}
	// the observer rules (always active): per-tick IO dumps
	for _, s := range []string{"config:show_ticks", "config:show_io_pre", "config:show_io_post"} {
		sb.Add(s)
	}
	for _, r := range sb.Rules {
		out.Line("U %s", ruleDump(r))
	}
	res := common.Guard(func() string {
		so, se, csvText, rc, herr := runCLI(bm, sb, c, cli, dir)
		if herr != "" {
			return "X " + herr
		}
		// ---- canonicalise stdout
		var lines []string
		tick, lastTick := -1, -1
		pre := ""
		for _, l := range strings.Split(so.String(), "\n") {
			switch {
			case strings.HasPrefix(l, "Absolute tick:"):
				tick, _ = strconv.Atoi(strings.TrimPrefix(l, "Absolute tick:"))
				lastTick = tick
			case strings.HasPrefix(l, "\tPre-compute IO:"):
				pre = cells(l)
			case strings.HasPrefix(l, "\tPost-compute IO:"):
				lines = append(lines, fmt.Sprintf("K t=%d pre=%s post=%s", tick, pre, cells(l)))
			case strings.HasPrefix(l, "\t"), l == "":
				// processor level output (show_pc ...): not part of this check
			default:
				// a show line: of the iteration just dumped or of the shutdown iteration (which has no
				// dump); stdout cannot tell them apart, so the line is labelled with the last dumped tick
				lines = append(lines, fmt.Sprintf("W after=%d vals=%s", lastTick, hx(l)))
			}
		}
		var csvLines []string
		if c.report && csvText != nil {
			rows := strings.Split(strings.TrimSuffix(*csvText, "\n"), "\n")
			for i, rw := range rows {
				if i == 0 {
					csvLines = append(csvLines, "C hdr="+rw)
				} else {
					csvLines = append(csvLines, "C row="+rw)
				}
			}
		}
		cls := "ok"
		est := se.String()
		switch {
		case rc == 0:
		case strings.Contains(est, "integer divide by zero"):
			cls = "divzero"
		case rc == 1 && strings.Contains(est, "unknown uint type"):
			cls = "fatal"
		case rc == 2 && so.Len() == 0 && (strings.Contains(est, "unknown mnemonic") || strings.Contains(est, "unknown number format") ||
			strings.Contains(est, "invalid number") || strings.Contains(est, "exceeds maximum") || strings.Contains(est, "cannot be exported")):
			cls = "init"
		default:
			first := strings.SplitN(est, "\n", 2)[0]
			cls = "other rc=" + strconv.Itoa(rc) + " " + hx(first)
		}
		// K/W lines in order, then the report file, then the exit class (the oracle prints the same order)
		return strings.Join(append(append(lines, csvLines...), "X "+cls), "\n")
	})
	out.Line("%s", res)
	// the property itself, directly on the implementation: a suspended rule has no effect at all,
	// i.e. the run is byte for byte the run of the list with the suspended rules deleted
	anySusp := false
	sb2 := new(simbox.Simbox)
	for _, r := range sb.Rules {
		if r.Suspended {
			anySusp = true
		} else {
			sb2.Rules = append(sb2.Rules, r)
		}
	}
	if anySusp {
		out.Line("%s", common.Guard(func() string {
			so1, _, csv1, rc1, h1 := runCLI(bm, sb, c, cli, dir)
			so2, _, csv2, rc2, h2 := runCLI(bm, sb2, c, cli, dir)
			same := h1 == "" && h2 == "" && so1.String() == so2.String() && rc1 == rc2 &&
				((csv1 == nil) == (csv2 == nil)) && (csv1 == nil || *csv1 == *csv2)
			if same {
				return "Z susp=ok"
			}
			return "Z susp=fail"
		}))
	}
	out.Line("G")
}

// runCLI writes the machine and the rule file as the tools do and runs the real simulator
func runCLI(bm *bondmachine.Bondmachine, sb *simbox.Simbox, c simCase, cli, dir string) (so, se bytes.Buffer, csvText *string, rc int, herr string) {
	bmf := filepath.Join(dir, "bm.json")
	sbf := filepath.Join(dir, "sb.json")
	csv := filepath.Join(dir, "rep.csv")
	os.Remove(csv)
	b, err := json.Marshal(bm.Jsoner())
	if err != nil {
		herr = "harness-error marshal " + err.Error()
		return
	}
	os.WriteFile(bmf, b, 0o644)
	b, _ = json.Marshal(sb) // as cmd/simbox writes the file
	os.WriteFile(sbf, b, 0o644)
	args := []string{"-bondmachine-file", bmf, "-sim", "-simbox-file", sbf, "-sim-interactions", strconv.Itoa(c.ticks)}
	if c.stop >= 0 {
		args = append(args, "-sim-stop-on-valid-of", strconv.Itoa(c.stop))
	}
	if c.report {
		args = append(args, "-sim-report", csv)
	}
	cmd := exec.Command(cli, args...)
	cmd.Stdout, cmd.Stderr = &so, &se
	done := make(chan error, 1)
	if err := cmd.Start(); err != nil {
		herr = "harness-error start " + err.Error()
		return
	}
	go func() { done <- cmd.Wait() }()
	select {
	case <-done:
	case <-time.After(20 * time.Second):
		cmd.Process.Kill()
		herr = "timeout"
		return
	}
	rc = cmd.ProcessState.ExitCode()
	if c.report {
		if cb, err := os.ReadFile(csv); err == nil {
			t := string(cb)
			csvText = &t
		}
	}
	return
}

func genSim(r *common.Rng) simCase {
	c := simCase{machine: machineNames[r.Intn(len(machineNames))], ticks: 5 + r.Intn(8), stop: -1}
	mi := infoOf(c.machine)
	// every nameable element, the maximal index of every kind twice as likely, and a spelling with a leading zero
	objs := append(append(append(append(append([]string{}, mi.ins...), mi.outs...), mi.pins...), mi.pouts...), mi.regs...)
	objs = append(append(objs, mi.maxima...), mi.maxima...)
	if len(mi.ins) > 0 {
		objs = append(objs, "i0"+strconv.Itoa(len(mi.ins)-1))
	}
	io := append(append([]string{}, mi.ins...), mi.outs...)
	// what a set rule has to write for data to move: the machine inputs, else the processor outputs
	drive := mi.ins
	if len(drive) == 0 {
		drive = mi.pouts
	}
	tk := func() string {
		switch r.Intn(8) {
		case 0:
			return "0"
		case 1:
			return "1"
		case 2:
			return strconv.Itoa(c.ticks - 1)
		case 3:
			return strconv.Itoa(c.ticks + r.Intn(3))
		default:
			return strconv.Itoa(r.Intn(c.ticks))
		}
	}
	per := func() string { return []string{"1", "2", "2", "3", "4", "5", "7"}[r.Intn(7)] }
	val := func() string {
		return []string{"0", "1", "5", "9", "17", "200", "255", "256", "300", "007"}[r.Intn(10)]
	}
	ty := func() string { return []string{"unsigned", "unsigned", "", "hex", "bin"}[r.Intn(5)] }
	n := 2 + r.Intn(7)
	size := 0
	// mode 0: suspended with probability 1/4 (sometimes reactivated); 1: suspended; 2: active
	addM := func(s string, mode int) {
		c.edits = append(c.edits, [2]string{"add", hx(s)})
		size++
		switch {
		case mode == 1:
			c.edits = append(c.edits, [2]string{"sus", strconv.Itoa(size - 1)})
		case mode == 0 && r.Chance(1, 4):
			c.edits = append(c.edits, [2]string{"sus", strconv.Itoa(size - 1)})
			if r.Chance(1, 4) {
				c.edits = append(c.edits, [2]string{"rea", strconv.Itoa(size - 1)})
			}
		}
	}
	add := func(s string) { addM(s, 0) }
	forceReport := false
	// bulk configuration scenario: one of the `config:<option>[:<format>]` rules the simulator acts
	// on (every option SimConfig.Init / SimReport.Init know), active or SUSPENDED, then timed
	// get/show rules with another format on elements the bulk rule covers (bond end points, and
	// the processor registers for the *_internal options), and a value that prints differently
	// in every format
	bulkScenario := func() {
		fm := func() string { return []string{"unsigned", "hex", "bin", ""}[r.Intn(4)] }
		covered := append([]string{}, mi.bonds...)
		opt := []string{"get_all", "get_all_internal", "show_all", "show_all_internal", "get_all", "show_all",
			"get_ticks", "show_ticks", "show_io_pre", "show_io_post"}[r.Intn(10)]
		mode := 1 + r.Intn(2)
		f1 := fm()
		switch opt {
		case "get_ticks", "show_ticks", "show_io_pre", "show_io_post":
			addM("config:"+opt, mode)
		default:
			addM("config:"+opt+":"+f1, mode)
		}
		if strings.HasSuffix(opt, "_internal") {
			covered = append(covered, mi.regs...)
		}
		act := "show"
		if strings.HasPrefix(opt, "get") {
			act = "get"
			forceReport = true
		}
		addM("absolute:"+[]string{"0", "1"}[r.Intn(2)]+":set:"+pick(r, drive)+":200", 2)
		for k := 1 + r.Intn(3); k > 0; k-- {
			f2 := fm()
			if f2 == f1 {
				f2 = fm()
			}
			if r.Chance(1, 2) {
				addM("absolute:"+tk()+":"+act+":"+pick(r, covered)+":"+f2, 2)
			} else {
				addM("relative:"+per()+":"+act+":"+pick(r, covered)+":"+f2, 2)
			}
		}
		if r.Chance(1, 3) { // a second bulk rule of the same family, the other way round
			addM("config:"+[]string{"get_all", "get_all_internal", "show_all", "show_all_internal"}[r.Intn(4)]+":"+fm(), 3-mode)
		}
	}
	// event scenario: on-valid / on-exit show and get rules (short and long forms) on different
	// elements in different orders, mixed with timed show rules on yet other elements, so that the
	// slot of a watched element and the slot of its valid signal differ; inputs are set so that
	// valid edges happen, and the loop is stopped on a valid output so that on-exit fires
	eventScenario := func() {
		evObjs := append(append(append([]string{}, io...), mi.pins...), mi.pouts...)
		fm := func() string { return []string{":unsigned", ":hex", ":bin", "", ""}[r.Intn(5)] }
		for k := 2 + r.Intn(4); k > 0; k-- {
			switch r.Intn(7) {
			case 0, 1:
				addM("onvalid:show:"+pick(r, append(io, mi.pouts...))+fm(), 2*r.Intn(2)*r.Intn(2))
			case 2:
				addM("onvalid:get:"+pick(r, io)+fm(), 2)
			case 3, 4:
				addM("onexit:show:"+pick(r, evObjs)+fm(), 2*r.Intn(2)*r.Intn(2))
			case 5:
				addM("onexit:get:"+pick(r, io)+fm(), 2)
			default:
				addM(pick(r, []string{"absolute:" + tk(), "relative:" + per()})+":show:"+pick(r, objs)+":"+ty(), 2)
			}
		}
		addM("absolute:"+[]string{"0", "1", "2"}[r.Intn(3)]+":set:"+pick(r, drive)+":"+val(), 2)
		if r.Chance(1, 2) {
			addM("absolute:"+tk()+":set:"+pick(r, drive)+":"+val(), 2)
		}
		if r.Chance(2, 3) {
			c.stop = r.Intn(2)
		}
	}
	switch r.Intn(3) {
	case 0:
		bulkScenario()
		n = r.Intn(4)
	case 1:
		eventScenario()
		n = r.Intn(3)
	}
	for i := 0; i < n; i++ {
		switch k := r.Intn(24); {
		case k < 6:
			add("absolute:" + tk() + ":set:" + pick(r, objs) + ":" + val())
		case k < 9:
			add("relative:" + per() + ":set:" + pick(r, objs) + ":" + val())
		case k < 11:
			add("absolute:" + tk() + ":show:" + pick(r, objs) + ":" + ty())
		case k < 13:
			add("relative:" + per() + ":show:" + pick(r, objs) + ":" + ty())
		case k < 15:
			add("absolute:" + tk() + ":get:" + pick(r, objs) + ":" + ty())
		case k < 16:
			add("relative:" + per() + ":get:" + pick(r, objs) + ":" + ty())
		case k < 18:
			add("onvalid:show:" + pick(r, append(append(append([]string{}, io...), mi.pouts...), "p0r0", "zz")) + ":" + ty())
		case k < 19:
			add("onexit:show:" + pick(r, objs) + ":" + ty())
			if c.stop < 0 {
				c.stop = r.Intn(2)
			}
		case k < 20:
			add(pick(r, []string{"onvalid:get:", "onexit:get:", "onrecv:show:", "onrecv:get:"}) + pick(r, io))
		case k < 21:
			add("config:" + pick(r, []string{"get_ticks", "get_all:unsigned", "get_all_internal:hex", "show_all:hex", "show_all_internal:unsigned", "get_all:", "show_pc", "show_proc_regs_post"}))
		case k < 22:
			add("absolute:" + tk() + ":show:" + pick(r, io))
		default:
			// rarely: rules the simulator rejects or dies on
			switch r.Intn(15) {
			case 12: // the first index past the end of some kind: timed rules abort the start ...
				add("absolute:" + tk() + ":" + pick(r, []string{"set", "show", "get"}) + ":" + pick(r, mi.over) + ":5")
			case 13, 14: // ... event rules on it are dropped
				add(pick(r, []string{"onvalid:show:", "onexit:show:", "onexit:get:"}) + pick(r, mi.over))
			case 0:
				add("absolute:1:set:zz:5")
			case 1:
				add("absolute:2:set:i0:abc")
			case 2:
				add("relative:0:show:i0:unsigned")
			case 3:
				add("absolute:" + tk() + ":show:" + pick(r, []string{"i0v", "o1r"}) + ":unsigned")
			case 4:
				add("absolute:1:get:p0r9:unsigned")
			case 5:
				add("relative:0:get:o0:unsigned")
			case 6:
				add("absolute:" + tk() + ":get:o0v:unsigned")
			case 7:
				add("relative:0:set:i0:3")
			default:
				add("absolute:" + tk() + ":set:" + pick(r, []string{"i0v", "i1r", "o0v", "o1r"}) + ":1")
			}
		}
	}
	if size > 1 && r.Chance(1, 5) {
		c.edits = append(c.edits, [2]string{"del", strconv.Itoa(r.Intn(size))})
	}
	if c.stop < 0 && r.Chance(1, 4) {
		c.stop = r.Intn(2)
	}
	c.report = forceReport || r.Chance(1, 2)
	return c
}

// fixed cases that must always be present (the documented defect and the corner cases)
func fixedSims() []simCase {
	mk := func(machine string, ticks, stop int, report bool, rules ...string) simCase {
		c := simCase{machine: machine, ticks: ticks, stop: stop, report: report}
		for _, s := range rules {
			if strings.HasPrefix(s, "!") {
				c.edits = append(c.edits, [2]string{"add", hx(s[1:])})
				c.edits = append(c.edits, [2]string{"sus", strconv.Itoa(countAdds(c.edits) - 1)})
			} else {
				c.edits = append(c.edits, [2]string{"add", hx(s)})
			}
		}
		return c
	}
	return []simCase{
		mk("wirep", 6, -1, true, "absolute:2:set:i0:5", "absolute:3:show:o0:unsigned", "relative:2:show:i0:unsigned",
			"onvalid:show:o0:unsigned", "absolute:4:get:o0:unsigned", "relative:3:get:i0:unsigned"),
		mk("wirep", 6, -1, false, "relative:2:set:i0:7"),
		mk("proc", 7, -1, false, "relative:3:set:p0r1:9", "relative:1:show:p0r1:unsigned"),
		mk("wirep", 8, 0, true, "absolute:2:set:i0:5", "onexit:show:o0:unsigned", "config:get_ticks", "relative:1:get:o0:unsigned"),
		mk("wirep", 5, -1, false, "absolute:1:set:i0:5", "!absolute:1:set:i1:6", "!relative:1:show:i0:hex"),
		mk("proc", 6, -1, true, "absolute:1:set:p0o0:6", "absolute:1:set:o1:7", "config:get_all_internal:hex", "absolute:2:set:p0r2:17"),
		mk("wirep", 5, -1, false, "absolute:2:set:i0:5", "absolute:2:set:i0:9", "absolute:2:set:i00:3"),
		mk("wirep", 4, -1, false, "absolute:1:set:i0v:1", "absolute:1:set:o0r:1"),
		mk("wirep", 4, -1, false, "relative:0:show:i0:unsigned"),
		mk("wirep", 4, -1, true, "relative:0:get:i0:unsigned"),
		mk("wirep", 4, -1, false, "absolute:1:show:i0v:unsigned"),
		mk("wirep", 4, -1, false, "absolute:1:set:r0:5"),
		mk("fan", 8, 1, true, "absolute:1:set:i0:200", "onvalid:show:o1:hex", "onvalid:show:o0:bin", "onexit:show:i0", "config:get_all:unsigned"),
		// bulk configuration rules, suspended and active, before timed rules on elements they cover
		mk("wirep", 6, -1, true, "!config:get_all:hex", "absolute:0:set:i0:200", "absolute:3:get:o0:unsigned"),
		mk("wirep", 6, -1, true, "config:get_all:hex", "absolute:0:set:i0:200", "absolute:3:get:o0:unsigned"),
		mk("proc", 6, -1, true, "!config:get_all_internal:bin", "absolute:1:set:p0r1:200", "relative:2:get:p0r1:unsigned", "absolute:2:get:i0:hex"),
		mk("proc", 6, -1, true, "config:get_all_internal:bin", "absolute:1:set:p0r1:200", "relative:2:get:p0r1:unsigned"),
		mk("wirep", 6, -1, false, "!config:show_all:hex", "absolute:0:set:i0:200", "absolute:3:show:o0:unsigned", "relative:2:show:i1:bin"),
		mk("wirep", 6, -1, false, "config:show_all:hex", "absolute:0:set:i0:200", "absolute:3:show:o0:unsigned", "relative:2:show:i1:bin"),
		mk("proc", 6, -1, false, "!config:show_all_internal:bin", "absolute:1:set:p0r2:200", "relative:2:show:p0r2:unsigned", "absolute:1:show:i1:hex"),
		mk("proc", 6, -1, false, "config:show_all_internal:", "absolute:1:set:p0r2:200", "relative:2:show:p0r2:hex"),
		mk("wirep", 4, -1, true, "!config:get_ticks", "absolute:1:get:i0:unsigned"),
		mk("wirep", 4, -1, true, "config:get_ticks", "!config:get_all:unsigned", "absolute:1:get:i0:hex"),
		mk("wirep", 4, -1, true, "!config:get_all:hex", "config:get_all:bin", "absolute:0:set:i1:200"),
		mk("wirep", 4, -1, true, "!config:show_ticks", "!config:show_io_pre", "!config:show_io_post", "absolute:1:set:i0:5", "relative:1:get:o0:unsigned"),
		// every element kind at its largest valid index, directly and through the bulk rules, on machines whose
		// processors have more outputs than inputs, more inputs than outputs, no inputs, and on two unequal processors
		mk("asym", 6, 1, true, "absolute:1:set:p0o1:200", "absolute:1:set:p0o0:17", "absolute:2:show:p0o1:hex", "absolute:2:get:p0o1:unsigned",
			"relative:2:show:p0r3:unsigned", "absolute:1:set:i1:5", "absolute:3:show:p0i0:bin", "onexit:show:p0o1", "onvalid:show:p0o1"),
		mk("asym", 5, -1, true, "config:get_all:hex", "absolute:1:set:p0o1:200", "absolute:1:set:i0:9"),
		mk("asym", 5, -1, true, "config:get_all_internal:unsigned", "config:show_all_internal:hex", "absolute:1:set:p0o1:200", "absolute:2:show:p0o1:unsigned"),
		mk("asym", 5, -1, false, "config:show_all:bin", "absolute:0:set:p0o1:200", "relative:2:show:p0o1:unsigned", "relative:2:show:o1:unsigned"),
		mk("wide", 6, 0, true, "absolute:1:set:i1:200", "absolute:1:set:p0o0:17", "absolute:2:show:p0i1:hex", "absolute:2:get:p0i1:unsigned",
			"relative:2:show:p0r1:unsigned", "absolute:1:set:p0r1:9", "config:get_all_internal:unsigned", "onexit:show:p0i1"),
		mk("wide", 5, -1, false, "config:show_all_internal:hex", "absolute:1:set:i1:200", "absolute:2:show:p0i1:unsigned", "absolute:2:show:p0o0:unsigned"),
		mk("noin", 6, -1, true, "absolute:1:set:p0o1:200", "absolute:2:set:p0o0:17", "relative:1:show:o1:unsigned", "relative:1:get:p0o1:hex",
			"config:get_all:unsigned", "absolute:3:show:p0r1:bin", "absolute:3:set:p0r1:255"),
		mk("multi", 7, -1, true, "absolute:1:set:p0o2:200", "absolute:1:set:p0o0:17", "absolute:2:set:i0:9", "relative:1:show:o0:unsigned", "relative:1:show:p1i0:hex",
			"absolute:3:get:p0o2:unsigned", "absolute:3:get:p1i1:unsigned", "absolute:3:show:p1r3:unsigned", "absolute:2:set:p1r3:5", "absolute:3:show:p0r1:unsigned",
			"absolute:2:set:p1o0:33", "config:get_all_internal:hex"),
		mk("multi", 5, -1, false, "config:show_all:unsigned", "absolute:0:set:p0o2:200", "relative:2:show:p0o2:hex", "relative:2:show:p0o1:unsigned", "onexit:show:p1o0", "onvalid:show:p0o2"),
		// the largest processor output reached only through the bulk rules / the event rules
		mk("asym", 5, -1, true, "config:get_all:unsigned", "absolute:1:set:i0:9"),
		mk("asym", 5, -1, false, "config:show_all_internal:hex", "absolute:1:set:i0:9", "relative:2:show:o1:unsigned"),
		mk("asym", 8, 0, false, "absolute:1:set:i0:9", "onexit:show:p0o1", "onexit:show:o0:hex"),
		mk("multi", 5, -1, true, "config:get_all_internal:unsigned", "absolute:1:set:i0:9"),
		mk("noin", 4, -1, true, "config:get_all:hex"),
		mk("asym", 4, -1, false, "absolute:1:show:p0o2:unsigned"),
		mk("wide", 4, -1, false, "absolute:1:set:p0o1:5"),
		mk("multi", 4, -1, true, "onexit:show:p0o3", "onvalid:show:p2o0", "onexit:get:p1i2", "absolute:1:get:p1o0:unsigned"),
		// event rules in short form, and on-valid rules whose element slot differs from the slot of its valid signal
		mk("wirep", 8, 0, false, "absolute:2:set:i0:5", "onexit:show:o0"),
		mk("wirep", 8, 0, true, "absolute:2:set:i0:5", "onexit:show:i0", "onvalid:show:o0", "onexit:get:o1", "onvalid:get:i0"),
		mk("wirep", 8, -1, false, "relative:3:show:i1:hex", "onvalid:show:o0:unsigned", "absolute:2:set:i0:5"),
		mk("wirep", 8, -1, false, "onvalid:show:o1", "onvalid:show:o0", "absolute:2:set:i0:5", "absolute:4:set:i1:9"),
		mk("wirep", 8, 1, true, "onvalid:get:i0", "onvalid:get:o1", "onvalid:show:i1:bin", "absolute:1:set:i1:9", "onexit:show:o1:hex"),
		mk("fan", 8, 1, false, "absolute:0:show:p0r1", "onexit:show:o0", "onvalid:show:o1:hex", "onvalid:show:i0", "absolute:1:set:i0:200"),
		mk("proc", 8, -1, false, "absolute:1:show:p0r0", "absolute:1:show:p0r2", "onvalid:show:i1", "onvalid:show:o1:hex", "absolute:2:set:i1:17"),
	}
}

func countAdds(es [][2]string) int {
	n := 0
	for _, e := range es {
		if e[0] == "add" {
			n++
		}
	}
	return n
}

// ---------------------------------------------------------------- replay

func replay(path, cli, dir string) {
	f, err := os.Open(path)
	if err != nil {
		panic(err)
	}
	defer f.Close()
	sc := bufio.NewScanner(f)
	sc.Buffer(make([]byte, 1<<20), 1<<24)
	var hist [][2]string
	inH := false
	hid := 0
	flush := func() {
		if inH {
			runHistory(hid, hist)
			hid++
		}
		hist, inH = nil, false
	}
	sid := 0
	for sc.Scan() {
		fs := strings.Fields(sc.Text())
		if len(fs) == 0 {
			continue
		}
		switch fs[0] {
		case "T":
			flush()
			textCase(unhx(fs[1]))
		case "H":
			flush()
			inH = true
		case "E":
			inH = true
			hist = append(hist, [2]string{fs[1], fs[2]})
		case "Q": // Q machine ticks stop report op:arg op:arg ...
			flush()
			c := simCase{machine: fs[1]}
			c.ticks, _ = strconv.Atoi(fs[2])
			c.stop, _ = strconv.Atoi(fs[3])
			c.report = fs[4] == "1"
			for _, e := range fs[5:] {
				p := strings.SplitN(e, ":", 2)
				c.edits = append(c.edits, [2]string{p[0], p[1]})
			}
			out.Line("# %s", qLine(c))
			runSim(sid, c, cli, dir)
			sid++
		}
	}
	flush()
}

func qLine(c simCase) string {
	p := []string{"Q", c.machine, strconv.Itoa(c.ticks), strconv.Itoa(c.stop), b01(c.report)}
	for _, e := range c.edits {
		p = append(p, e[0]+":"+e[1])
	}
	return strings.Join(p, " ")
}

func main() {
	defer out.Flush()
	if len(os.Args) < 2 {
		fmt.Fprintln(os.Stderr, "usage: c15 text|sim|replay ...")
		os.Exit(2)
	}
	r := common.NewRng(common.Seed())
	atoi := func(i int, def int) int {
		if len(os.Args) > i {
			if v, err := strconv.Atoi(os.Args[i]); err == nil {
				return v
			}
		}
		return def
	}
	switch os.Args[1] {
	case "text":
		textGen(r, atoi(2, 500))
		nh, ml := atoi(3, 100), atoi(4, 8)
		for i := 0; i < nh; i++ {
			runHistory(i, genHistory(r, ml))
		}
	case "sim":
		n := atoi(2, 50)
		cli, dir := os.Args[3], os.Args[4]
		os.MkdirAll(dir, 0o755)
		id := 0
		for _, c := range fixedSims() {
			out.Line("# %s", qLine(c))
			runSim(id, c, cli, dir)
			id++
		}
		for i := 0; i < n; i++ {
			c := genSim(r)
			out.Line("# %s", qLine(c))
			runSim(id, c, cli, dir)
			id++
		}
	case "replay":
		cli, dir := "", ""
		if len(os.Args) > 4 {
			cli, dir = os.Args[3], os.Args[4]
			os.MkdirAll(dir, 0o755)
		}
		replay(os.Args[2], cli, dir)
	}
}
