// C03 harness: runs the real per-line assembler and disassembler of procbuilder on generated
// architectures and instruction lines.  Stream (stdout):
//
//	A rsize R N M L O mode wordsize ops=a,b,c      architecture (ops name-sorted as in real machines)
//	L <op> <len> ... MW <n>                        Op_get_instruction_len of every opcode, Max_word
//	I <op> <tok> ...                               instruction line
//	R ok <word> mw=<Max_word> | R err              Arch.Assembler_process_line
//	D <tokens> | D err | D -                       Machine.Disassembler of that word
//	RA ok <word> | RA err | RA -                   re-assembly of the disassembly
//
// The Lean oracle answers the same A/I lines from BMV.Encode; the driver diffs and also evaluates
// the property directly on the Go lines (fixed width, round trips).
// Usage: c03 gen <archs> <lines-per-op> | c03 oplist | c03 replay <file>
package main

import (
	"bufio"
	"fmt"
	"os"
	"sort"
	"strconv"
	"strings"

	"bmvh/common"

	"github.com/BondMachineHQ/BondMachine/pkg/procbuilder"
)

var out = common.NewOut(os.Stdout)

type archSpec struct {
	rsize, r, n, m, l, o int
	mode                 string
	wordSize             int
	ops                  []string
	so                   map[string]int // number of shared objects of each kind the processor is attached to
}

var soKinds = []string{"channel", "kbd", "lfsr8", "queue", "stack", "uart"}
var soShort = map[string]string{"channel": "ch", "kbd": "k", "lfsr8": "lfsr8", "queue": "q", "stack": "st", "uart": "u"}

func (s archSpec) soField() string {
	var p []string
	for _, k := range soKinds {
		if s.so[k] > 0 {
			p = append(p, k+":"+strconv.Itoa(s.so[k]))
		}
	}
	return strings.Join(p, ",")
}

func (s archSpec) line() string {
	return fmt.Sprintf("A %d %d %d %d %d %d %s %d ops=%s so=%s", s.rsize, s.r, s.n, s.m, s.l, s.o, s.mode, s.wordSize, strings.Join(s.ops, ","), s.soField())
}

func allOps() map[string]procbuilder.Opcode {
	m := map[string]procbuilder.Opcode{}
	for _, op := range procbuilder.Allopcodes {
		m[op.Op_get_name()] = op
	}
	return m
}

func build(s archSpec) (*procbuilder.Machine, error) {
	m := new(procbuilder.Machine)
	a := &m.Arch
	a.Rsize = uint8(s.rsize)
	a.R = uint8(s.r)
	a.N = uint8(s.n)
	a.M = uint8(s.m)
	a.L = uint8(s.l)
	a.O = uint8(s.o)
	a.Modes = []string{s.mode}
	a.WordSize = uint8(s.wordSize)
	all := allOps()
	ops := make([]procbuilder.Opcode, 0)
	for _, n := range s.ops {
		op, ok := all[n]
		if !ok {
			return nil, fmt.Errorf("no opcode %s", n)
		}
		ops = append(ops, op)
	}
	sort.Sort(procbuilder.ByName(ops))
	a.Op = ops
	// Shared_constraints: one "<kind>:<parameter>" entry per attached object
	var cons []string
	for _, k := range soKinds {
		for i := 0; i < s.so[k]; i++ {
			cons = append(cons, k+":8")
		}
	}
	a.Shared_constraints = strings.Join(cons, ",")
	return m, nil
}

func runLine(m *procbuilder.Machine, line string) {
	out.Line("I %s", line)
	word := ""
	res := common.Guard(func() string {
		w, err := m.Arch.Assembler_process_line([]byte(line))
		if err != nil {
			return "R err"
		}
		if w == "" {
			return "R empty"
		}
		word = w
		return fmt.Sprintf("R ok %s mw=%d", w, m.Arch.Max_word())
	})
	out.Line("%s", res)
	if word == "" {
		out.Line("D -")
		out.Line("RA -")
		return
	}
	dis := ""
	res = common.Guard(func() string {
		m.Program = procbuilder.Program{Slocs: []string{word}}
		d, err := m.Disassembler()
		if err != nil {
			return "D err"
		}
		dis = strings.TrimSpace(d)
		return "D " + strings.Join(strings.Fields(d), " ")
	})
	out.Line("%s", res)
	if dis == "" {
		out.Line("RA -")
		return
	}
	res = common.Guard(func() string {
		w, err := m.Arch.Assembler_process_line([]byte(dis))
		if err != nil {
			return "RA err"
		}
		return "RA ok " + w
	})
	out.Line("%s", res)
}

// runProgram: the multi-line entry point Arch.Assembler on a source text with comment and blank lines
//
//	PG <n> / PL <source line> (n of them) / PR ok <word> ... | PR err
func runProgram(m *procbuilder.Machine, lines []string) {
	out.Line("PG %d", len(lines))
	for _, l := range lines {
		out.Line("PL %s", l)
	}
	res := common.Guard(func() string {
		p, err := m.Arch.Assembler([]byte(strings.Join(lines, "\n") + "\n"))
		if err != nil {
			return "PR err"
		}
		return strings.TrimSpace("PR ok " + strings.Join(p.Slocs, " "))
	})
	if strings.HasPrefix(res, "panic") {
		res = "PR panic"
	}
	out.Line("%s", res)
	if !strings.HasPrefix(res, "PR ok") {
		return
	}
	// Machine.Disassembler on the whole program (PD) and word by word (PS): the same instructions
	words := strings.Fields(res)[2:]
	dis := func(ws []string) string {
		return common.Guard(func() string {
			m.Program = procbuilder.Program{Slocs: ws}
			d, err := m.Disassembler()
			if err != nil {
				return "err"
			}
			var ls []string
			for _, l := range strings.Split(strings.TrimSpace(d), "\n") {
				ls = append(ls, strings.Join(strings.Fields(l), " "))
			}
			return strings.Join(ls, " ; ")
		})
	}
	out.Line("PD %s", dis(words))
	var single []string
	for _, w := range words {
		single = append(single, dis([]string{w}))
	}
	out.Line("PS %s", strings.Join(single, " ; "))
}

func genProgram(r *common.Rng, m *procbuilder.Machine, s archSpec) []string {
	capacity := 1 << uint(s.o)
	if s.mode == "vn" || (s.mode == "hy" && s.l >= s.o) {
		capacity = 1 << uint(s.l)
	}
	n := 1 + r.Intn(10)
	if r.Chance(1, 8) && capacity <= 16 {
		n = capacity + r.Intn(2) // exactly full / one too many
	}
	if n > capacity+1 {
		n = capacity + 1
	}
	comments := []string{"", "   ", "# a comment", "#", "\t# indented", "#rset r0 1"}
	var lines []string
	pad := func() {
		for r.Chance(1, 3) {
			lines = append(lines, comments[r.Intn(len(comments))])
		}
	}
	for i := 0; i < n; i++ {
		pad()
		line := ""
		for try := 0; try < 20; try++ {
			cand := genLine(r, s, s.ops[r.Intn(len(s.ops))])
			if w, err := m.Arch.Assembler_process_line([]byte(cand)); (err == nil && w != "") || (try == 19) || r.Chance(1, 60) {
				line = cand
				break
			}
		}
		if len(line) > 200 {
			line = "nop"
		}
		lines = append(lines, line)
	}
	pad()
	return lines
}

// operand kinds of each opcode for *generation only* (the model has its own table; an opcode
// missing here still gets generic operand mixes)
func genTokens(r *common.Rng, s archSpec, kind byte) string {
	pick := func(limit int) int { // in range, boundary, one past, far
		switch r.Intn(10) {
		case 0:
			return limit // one past
		case 1:
			if limit > 0 {
				return limit - 1
			}
			return 0
		case 2:
			return limit + 1 + r.Intn(5)
		case 3:
			return 0
		default:
			return r.Intn(limit + 1)
		}
	}
	// plain decimal operands, now and then written with leading zeros (010 is ten, not eight)
	num := func(v int) string {
		t := strconv.Itoa(v)
		if r.Chance(1, 8) {
			t = strings.Repeat("0", 1+r.Intn(2)) + t
		}
		return t
	}
	switch kind {
	case 'r':
		return "r" + strconv.Itoa(pick(1<<uint(s.r)))
	case 'i':
		return "i" + strconv.Itoa(pick(s.n))
	case 'o':
		return "o" + strconv.Itoa(pick(s.m))
	case 'v': // rsize-wide value
		if s.rsize >= 63 {
			switch r.Intn(4) {
			case 0:
				return "18446744073709551615"
			case 1:
				return "9223372036854775808"
			default:
				return strconv.FormatUint(r.Next(), 10)
			}
		}
		return num(pick(1 << uint(s.rsize)))
	case 'a': // rom address
		return num(pick(1 << uint(s.o)))
	case 'm': // ram address
		return num(pick(1 << uint(s.l)))
	case 'c':
		return num(pick(256))
	case 'C', 'K', 'L', 'Q', 'S', 'U': // shared-object names: ch<k> k<k> lfsr8<k> q<k> st<k> u<k>
		kind := map[byte]string{'C': "channel", 'K': "kbd", 'L': "lfsr8", 'Q': "queue", 'S': "stack", 'U': "uart"}[kind]
		short := soShort[kind]
		if r.Chance(1, 12) { // the name of another kind of object
			short = soShort[soKinds[r.Intn(len(soKinds))]]
		}
		t := short + strconv.Itoa(pick(s.so[kind]))
		if r.Chance(1, 25) {
			t = short + "0" + strconv.Itoa(r.Intn(3)) // not the canonical spelling
		}
		return t
	case 'x':
		return []string{"foo", "r", "i", "o", "rx", "-1", "r-1", "1r", "R0", "r01", "+1", ""}[r.Intn(12)]
	}
	return "0"
}

var shapes = map[string]string{}

func init() {
	for _, n := range strings.Fields("adc add addf addf16 addp and chc cmpr cmprlt cpy div divf divf16 divp mod mulc mult multf multf16 multp nand nor not or r2mri r2vri ro2rri rsc sbc sub xnor xor") {
		shapes[n] = "rr"
	}
	for _, n := range strings.Fields("addi chw cil cilc cir cirn clr dec expf inc incc jcmpria jcmprio jri jria jrio") {
		shapes[n] = "r"
	}
	for _, n := range strings.Fields("clc cset dpc hlt je nop r2s s2r") {
		shapes[n] = ""
	}
	for _, n := range strings.Fields("i2r i2rw sic sicv3") {
		shapes[n] = "ri"
	}
	shapes["sicv2"] = "rii"
	shapes["cmpv"] = "i"
	for _, n := range strings.Fields("r2o r2owa r2owaa") {
		shapes[n] = "ro"
	}
	for _, n := range strings.Fields("j jcmpl saj ja jcmpa jo jcmpo jc") {
		shapes[n] = "a"
	}
	for _, n := range strings.Fields("jgt0f jz m2rri ro2r") {
		shapes[n] = "ra"
	}
	shapes["m2r"] = "rm"
	shapes["r2m"] = "rm"
	shapes["rset"] = "rv"
	shapes["r2v"] = "rc"
	shapes["tsp"] = "rac"
	for _, n := range []string{"rsets3", "rsets8", "rsets12"} {
		shapes[n] = "rc"
	}
	for _, n := range strings.Fields("multfps16f8 addfps8f4 divfps16f8 multfxps16f8 addfxps8f4 divfxps16f8 multlqs8t1 addlqs8t1 divlqs8t1") {
		shapes[n] = "rr"
	}
	shapes["k2r"] = "rK"
	shapes["q2r"], shapes["r2q"] = "rQ", "rQ"
	shapes["r2t"], shapes["t2r"] = "rS", "rS"
	shapes["r2u"], shapes["u2r"] = "rU", "rU"
	shapes["lfsr82r"] = "rL"
	shapes["wrd"], shapes["wwr"] = "rC", "rC"
	shapes["callo4st"] = "a"
	shapes["calla4st"] = "m"
	shapes["ret4st"] = ""
	shapes["push4sk"] = "r"
	shapes["pull4sk"] = "r"
}

func genLine(r *common.Rng, s archSpec, op string) string {
	shape, known := shapes[op]
	if !known {
		shape = []string{"", "r", "rr", "ri", "ro", "ra", "rv"}[r.Intn(7)]
	}
	k := r.Intn(20)
	switch {
	case k == 0 && len(shape) > 0: // drop an operand
		shape = shape[:len(shape)-1]
	case k == 1: // extra operand
		shape += string("riovax"[r.Intn(6)])
	case k == 2 && len(shape) > 0: // wrong kind somewhere
		b := []byte(shape)
		b[r.Intn(len(b))] = "riovx"[r.Intn(5)]
		shape = string(b)
	}
	toks := []string{op}
	for i := 0; i < len(shape); i++ {
		if t := genTokens(r, s, shape[i]); t != "" {
			toks = append(toks, t)
		}
	}
	return strings.Join(toks, " ")
}

// emitLens prints what Op_get_instruction_len and Max_word say for this architecture
func emitLens(m *procbuilder.Machine, s archSpec) {
	for _, op := range m.Arch.Op {
		out.Line("L %s %d", op.Op_get_name(), op.Op_get_instruction_len(&m.Arch))
	}
	out.Line("MW %d", m.Arch.Max_word())
}

func modeAllowed(op procbuilder.Opcode, mode string) bool {
	if req, modes := op.Required_modes(); req {
		ok := false
		for _, m := range modes {
			if m == mode {
				ok = true
			}
		}
		if !ok {
			return false
		}
	}
	if forb, modes := op.Forbidden_modes(); forb {
		for _, m := range modes {
			if m == mode {
				return false
			}
		}
	}
	return true
}

func genArch(r *common.Rng, names []string) archSpec {
	s := archSpec{}
	s.rsize = []int{8, 16, 32, 64, 8, 16, 5, 12, 1, 24}[r.Intn(10)]
	s.r = 1 + r.Intn(4)
	if r.Chance(1, 10) {
		s.r = 5 + r.Intn(4)
	}
	s.n = r.Intn(6)
	s.m = r.Intn(6)
	if r.Chance(1, 8) {
		s.n = 8 + r.Intn(3)
		s.m = 7 + r.Intn(3)
	}
	s.l = r.Intn(5)
	s.o = 1 + r.Intn(6)
	s.mode = []string{"ha", "ha", "ha", "vn", "hy"}[r.Intn(5)]
	// opcode subset: sizes around powers of two matter (opBits changes)
	sizes := []int{1, 2, 3, 4, 5, 7, 8, 9, 15, 16, 17, 31, 32, 33, len(names)}
	k := sizes[r.Intn(len(sizes))]
	if k > len(names) {
		k = len(names)
	}
	perm := make([]string, len(names))
	copy(perm, names)
	for i := len(perm) - 1; i > 0; i-- {
		j := r.Intn(i + 1)
		perm[i], perm[j] = perm[j], perm[i]
	}
	all := allOps()
	for _, n := range perm {
		if len(s.ops) >= k {
			break
		}
		if modeAllowed(all[n], s.mode) { // real machines satisfy Required_modes / Forbidden_modes
			s.ops = append(s.ops, n)
		}
	}
	sort.Strings(s.ops)
	if r.Chance(1, 6) { // WordSize override: sometimes too small, sometimes roomy
		s.wordSize = 4 + r.Intn(40)
	}
	// shared objects: counts around powers of two (the index width changes), often none of a kind
	s.so = map[string]int{}
	for _, k := range soKinds {
		if r.Chance(1, 2) {
			s.so[k] = []int{1, 2, 3, 4, 5, 8, 9}[r.Intn(7)]
		}
	}
	return s
}

func main() {
	if len(os.Args) < 2 {
		fmt.Fprintln(os.Stderr, "usage: c03 gen <archs> <lines-per-op> | oplist | replay <file>")
		os.Exit(2)
	}
	// instances of every dynamically created opcode family
	for _, n := range []string{"rsets3", "rsets8", "rsets12", "multfps16f8", "addfps8f4", "divfps16f8", "multfxps16f8", "addfxps8f4",
		"divfxps16f8", "multlqs8t1", "addlqs8t1", "divlqs8t1", "callo4st", "calla4st", "ret4st", "push4sk", "pull4sk"} {
		func() {
			defer func() { recover() }()
			procbuilder.EventuallyCreateInstruction(n)
		}()
	}
	all := allOps()
	names := make([]string, 0, len(all))
	for n := range all {
		names = append(names, n)
	}
	sort.Strings(names)
	switch os.Args[1] {
	case "oplist":
		for _, n := range names {
			out.Line("%s", n)
		}
	case "gen":
		na, _ := strconv.Atoi(os.Args[2])
		per, _ := strconv.Atoi(os.Args[3])
		r := common.NewRng(common.Seed())
		for i := 0; i < na; i++ {
			s := genArch(r, names)
			m, err := build(s)
			if err != nil {
				continue
			}
			out.Line("%s", s.line())
			emitLens(m, s)
			for _, op := range s.ops {
				for k := 0; k < per; k++ {
					runLine(m, genLine(r, s, op))
				}
			}
			if r.Chance(1, 3) {
				runLine(m, "zzz r0")
			}
			for k := 0; k < 2; k++ {
				runProgram(m, genProgram(r, m, s))
			}
			if r.Chance(1, 3) && len(s.ops) >= 2 {
				// the SAME Arch value gets another opcode list of the same length (front-ends set and
				// re-sort Arch.Op on one object): nothing remembered from the first list may leak
				s2 := s
				all := allOps()
				have := map[string]bool{}
				for _, o := range s.ops {
					have[o] = true
				}
				var fresh []string
				for _, n := range names {
					if !have[n] && modeAllowed(all[n], s.mode) {
						fresh = append(fresh, n)
					}
				}
				s2.ops = append([]string{}, s.ops...)
				for i := range s2.ops {
					if len(fresh) > 0 && r.Chance(1, 2) {
						j := r.Intn(len(fresh))
						s2.ops[i] = fresh[j]
						fresh = append(fresh[:j], fresh[j+1:]...)
					}
				}
				sort.Strings(s2.ops)
				ops := make([]procbuilder.Opcode, 0, len(s2.ops))
				for _, n := range s2.ops {
					ops = append(ops, all[n])
				}
				sort.Sort(procbuilder.ByName(ops))
				m.Arch.Op = ops // in place: same Machine, same Arch
				out.Line("%s", s2.line())
				emitLens(m, s2)
				for _, op := range s2.ops {
					for k := 0; k < 2; k++ {
						runLine(m, genLine(r, s2, op))
					}
				}
			}
			out.Flush()
		}
	case "replay":
		f, err := os.Open(os.Args[2])
		if err != nil {
			fmt.Fprintln(os.Stderr, err)
			os.Exit(2)
		}
		sc := bufio.NewScanner(f)
		sc.Buffer(make([]byte, 1<<20), 1<<20)
		var m *procbuilder.Machine
		var pl []string
		for sc.Scan() {
			l := sc.Text()
			if strings.HasPrefix(l, "A ") {
				f := strings.Fields(l)
				at := func(i int) int { v, _ := strconv.Atoi(f[i]); return v }
				s := archSpec{rsize: at(1), r: at(2), n: at(3), m: at(4), l: at(5), o: at(6), mode: f[7], wordSize: at(8)}
				opl := strings.TrimPrefix(f[9], "ops=")
				if opl != "" {
					s.ops = strings.Split(opl, ",")
				}
				s.so = map[string]int{}
				if len(f) > 10 {
					for _, kv := range strings.Split(strings.TrimPrefix(f[10], "so="), ",") {
						q := strings.SplitN(kv, ":", 2)
						if len(q) == 2 {
							s.so[q[0]], _ = strconv.Atoi(q[1])
						}
					}
				}
				var err error
				m, err = build(s)
				if err != nil {
					fmt.Fprintln(os.Stderr, err)
					os.Exit(2)
				}
				out.Line("%s", s.line())
				emitLens(m, s)
			} else if strings.HasPrefix(l, "I ") && m != nil {
				runLine(m, strings.TrimPrefix(l, "I "))
			} else if strings.HasPrefix(l, "PG") && m != nil {
				pl = nil
			} else if (l == "PL" || strings.HasPrefix(l, "PL ")) && m != nil {
				pl = append(pl, strings.TrimPrefix(strings.TrimPrefix(l, "PL"), " "))
			} else if strings.HasPrefix(l, "PR") && m != nil {
				runProgram(m, pl)
			}
		}
	}
	out.Flush()
}
