// C16 harness: every machine a real front-end emits in this run is dumped (canonical text of
// bmvh/basmdump) for the independent validator in the Lean oracle.
//
//	CASE <n> <kind> mustfail=<0|1>
//	F <what was assembled>                (`F S <source, line breaks written \n>` for generated sources)
//	FS <text of the file set>             (files mode: the oracle reads the cpdef / ioatt lines)
//	AL n0,n1,..                           (json mode: instruction counts of the assembly saved per processor)
//	PB                                    (json mode, argument `pb`: every processor port must be bonded)
//	XW i o b                              (json mode, argument `xw=i,o,b`: the machine has i inputs, o outputs and b
//	                                       processor-to-processor bonds — derived by the driver from the front-end's input)
//	R ok | R err <class> <stage>
//	M/C/W/D/II/IO/LK/E                    the emitted machine
//
// Modes:
//
//	c16 gen <cases>                          basm on the C05 generator (incl. sources with an unfit operand)
//	c16 lib <root> <dyn|nodyn>               basm on every *.basm under <root>, each one standalone
//	c16 files <kind> <dyn|nodyn> <minws|-|pb|minws+pb> f1.basm f2.basm ...   basm on a file set (output of neuralbond / bmqsim + library)
//	c16 ops                                  `OPS <names of procbuilder.Allopcodes>`, then basm on one source per high-level
//	                                         matcher pattern of every opcode (with and without -chooser-min-word-size)
//	c16 text <file> [kind]                   basm on one source (replay, corpus regression)
//	c16 json <kind> <what> <bm.json> [pb] [xw=i,o,b] [asm_0 asm_1 ...]   a machine saved by a front-end CLI (bondgo -save-bondmachine, ...)
//	                                         and the assembly the front-end saved per processor (-save-assembly): their
//	                                         instruction counts are sent as `AL n0,n1,...`
package main

import (
	"encoding/json"
	"fmt"
	"os"
	"path/filepath"
	"sort"
	"strconv"
	"strings"

	"bmvh/basmdump"
	"bmvh/common"

	"github.com/BondMachineHQ/BondMachine/pkg/bondmachine"
)

var out = basmdump.Protocol()

// text of the assembled file set (files mode): sent as `FS <text>` so that the oracle can read its cpdef / ioatt lines
var fileSetText string

// instruction counts of the assembly texts a front-end saved next to the machine (json mode), per processor
var asmLens []string

// claims about the wiring that the driver derived from the front-end's own input (json mode): `PB` (every processor port is
// bonded) and `XW <inputs> <outputs> <processor-to-processor bonds>`
var extraLines []string

func report(id int, kind string, mustFail bool, what string, bm *bondmachine.Bondmachine, stage string, err error) {
	mf := 0
	if mustFail {
		mf = 1
	}
	out.Line("CASE %d %s mustfail=%d", id, kind, mf)
	out.Line("F %s", what)
	if len(asmLens) > 0 {
		out.Line("AL %s", strings.Join(asmLens, ","))
	}
	for _, l := range extraLines {
		out.Line("%s", l)
	}
	if fileSetText != "" {
		out.Line("FS %s", strings.ReplaceAll(strings.TrimRight(fileSetText, "\n"), "\n", "\\n"))
	}
	if err != nil {
		out.Line("R err %s %s", basmdump.ErrClass(err), stage)
	} else {
		out.Line("R ok")
		for _, l := range basmdump.Dump(bm) {
			out.Line("%s", l)
		}
	}
	out.Flush()
}

func main() {
	defer out.Flush()
	if len(os.Args) < 2 {
		fmt.Fprintln(os.Stderr, "usage: c16 gen <n> | lib <root> <dyn|nodyn> | files <kind> <dyn|nodyn> <minws|-> f... | text <file> | json <kind> <what> <bm.json>")
		os.Exit(2)
	}
	switch os.Args[1] {
	case "gen":
		n, _ := strconv.Atoi(os.Args[2])
		r := common.NewRng(common.Seed())
		for i := 0; i < n; i++ {
			c := basmdump.GenCase(r)
			bm, stage, err := basmdump.Assemble(c.Text, basmdump.Options{DisableDynamic: true})
			report(i, "gen:"+c.Kind, c.MustFail, "S "+strings.ReplaceAll(strings.TrimRight(c.Text, "\n"), "\n", "\\n"), bm, stage, err)
		}
		// sources outside the C05 model: ROM+RAM code (hy / vn), ROM / RAM data sections around 2^k cells
		for i := 0; i < n/3+1; i++ {
			c := basmdump.GenExtCase(r)
			bm, stage, err := basmdump.Assemble(c.Text, basmdump.Options{DisableDynamic: true})
			report(n+i, "gen:"+c.Kind, c.MustFail, "S "+strings.ReplaceAll(strings.TrimRight(c.Text, "\n"), "\n", "\\n"), bm, stage, err)
		}
	case "ops":
		// the registry itself, then one source per matcher pattern of every opcode, with and without the word-size chooser
		cases, names, skipped := basmdump.OpcodeCases()
		out.Line("OPS %s", strings.Join(names, ","))
		out.Line("OPSKIP %s", strings.Join(skipped, " "))
		id := 0
		for _, c := range cases {
			for _, minws := range []bool{true, false} {
				bm, stage, err := basmdump.Assemble(c.Text, basmdump.Options{DisableDynamic: true, MinWordSize: minws})
				kind := c.Kind
				if minws {
					kind += ":minws"
				}
				report(id, kind, false, "S "+strings.ReplaceAll(strings.TrimRight(c.Text, "\n"), "\n", "\\n"), bm, stage, err)
				id++
			}
		}
	case "lib":
		root := os.Args[2]
		dyn := os.Args[3] == "dyn"
		var files []string
		filepath.Walk(root, func(p string, info os.FileInfo, err error) error {
			if err == nil && !info.IsDir() && strings.HasSuffix(p, ".basm") && !strings.Contains(p, "/.git/") {
				files = append(files, p)
			}
			return nil
		})
		sort.Strings(files)
		for i, f := range files {
			bm, stage, err := basmdump.AssembleFiles([]string{f}, basmdump.Options{DisableDynamic: !dyn, MinWordSize: true})
			rel, _ := filepath.Rel(root, f)
			report(i, "lib:"+os.Args[3], false, rel, bm, stage, err)
		}
	case "files":
		kind := os.Args[2]
		dyn := os.Args[3] == "dyn"
		minws := strings.Contains(os.Args[4], "minws")
		if strings.Contains(os.Args[4], "pb") {
			// the front-end that wrote these files connects every port it creates (bmqsim's matrix machines)
			extraLines = append(extraLines, "PB")
		}
		files := os.Args[5:]
		bm, stage, err := basmdump.AssembleFiles(files, basmdump.Options{DisableDynamic: !dyn, MinWordSize: minws})
		names := make([]string, len(files))
		for i, f := range files {
			names[i] = filepath.Base(f)
			if b, e := os.ReadFile(f); e == nil {
				fileSetText += string(b) + "\n"
			}
		}
		report(0, kind, false, strings.Join(names, " "), bm, stage, err)
	case "text":
		b, _ := os.ReadFile(os.Args[2])
		bm, stage, err := basmdump.Assemble(string(b), basmdump.Options{DisableDynamic: true})
		kind := "text"
		if len(os.Args) > 3 {
			kind = os.Args[3]
		}
		report(0, kind, false, "S "+strings.ReplaceAll(strings.TrimRight(string(b), "\n"), "\n", "\\n"), bm, stage, err)
	case "json":
		b, err := os.ReadFile(os.Args[4])
		var bm *bondmachine.Bondmachine
		if err == nil {
			var bmj bondmachine.Bondmachine_json
			if err = json.Unmarshal(b, &bmj); err == nil {
				func() {
					defer func() {
						if x := recover(); x != nil {
							err = fmt.Errorf("panic: %v", x)
						}
					}()
					bm = (&bmj).Dejsoner()
				}()
			}
		}
		for _, af := range os.Args[5:] {
			if af == "pb" {
				extraLines = append(extraLines, "PB")
				continue
			}
			if strings.HasPrefix(af, "xw=") {
				extraLines = append(extraLines, "XW "+strings.ReplaceAll(af[3:], ",", " "))
				continue
			}
			n := 0
			if t, e := os.ReadFile(af); e == nil {
				for _, l := range strings.Split(string(t), "\n") {
					if strings.TrimSpace(l) != "" {
						n++
					}
				}
			}
			asmLens = append(asmLens, strconv.Itoa(n))
		}
		report(0, os.Args[2], false, os.Args[3], bm, "load", err)
	}
}
