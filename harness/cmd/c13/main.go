// Harness for C13 — generated stacks and queues never lose, duplicate or reorder an element.
//
// It renders the real template (bmstack.BmStack.WriteHDL) for every configuration of the tie,
// parses the emitted Verilog with bmvh/vlog and prints, for the Lean oracle (lean/Oracle/C13.lean):
//
//	C <id> fifo=.. depth=.. ns=.. nr=.. dsize=.. top=<module> senders=a,b receivers=c,d
//	V <S-expression of the parsed text>            (or  E <id> <error>  if rendering/parsing fails)
//	T <id> <mode> <pRaiseS> <pRaiseR> <pDrop> <hex words>   one random word per cycle (VERIF_SEED)
//	X <id> <maxStates>                             exhaustive exploration request (thorough tier)
//
// Sub-commands:
//
//	gen quick|thorough     all WriteHDL configurations
//	users <dir>            every module in <dir>/*.v that is an instance of the template (as emitted
//	                       by the in-tree users: shared stack/queue, thread FIFO, call/stack opcodes,
//	                       uart/kbd FIFOs); the configuration is read off the module itself
//	replay <file>          <file> = a "C …" line followed by "T …"/"X …" lines: V is re-rendered
//	                       from the current tree for w-… ids
//	selftest <testdata>    re-parse the hand-written circuits and compare with the golden .sexp files
package main

import (
	"bufio"
	"fmt"
	"os"
	"path/filepath"
	"sort"
	"strconv"
	"strings"

	"bmvh/common"
	"bmvh/vlog"

	"github.com/BondMachineHQ/BondMachine/pkg/bmstack"
)

type config struct {
	id        string
	fifo      bool
	depth     int
	dsize     int
	senders   []string
	receivers []string
	module    string
}

func (c config) line() string {
	f := 0
	if c.fifo {
		f = 1
	}
	return fmt.Sprintf("C %s fifo=%d depth=%d ns=%d nr=%d dsize=%d top=%s senders=%s receivers=%s",
		c.id, f, c.depth, len(c.senders), len(c.receivers), c.dsize, c.module,
		strings.Join(c.senders, ","), strings.Join(c.receivers, ","))
}

func names(prefix string, n int) []string {
	var out []string
	for i := 0; i < n; i++ {
		out = append(out, prefix+strconv.Itoa(i))
	}
	return out
}

func writeHDLConfig(fifo bool, depth, ns, nr, dsize int) config {
	mt := "LIFO"
	if fifo {
		mt = "FIFO"
	}
	return config{
		id:   fmt.Sprintf("w-%s-d%d-s%d-r%d-w%d", mt, depth, ns, nr, dsize),
		fifo: fifo, depth: depth, dsize: dsize,
		senders: names("snd", ns), receivers: names("rcv", nr), module: "bmstack",
	}
}

// parse "w-FIFO-d3-s2-r2-w8"
func configFromID(id string) (config, bool) {
	p := strings.Split(id, "-")
	if len(p) != 6 || p[0] != "w" {
		return config{}, false
	}
	num := func(s string) int { v, _ := strconv.Atoi(s[1:]); return v }
	return writeHDLConfig(p[1] == "FIFO", num(p[2]), num(p[3]), num(p[4]), num(p[5])), true
}

// render calls the real template code of /repo.
func render(c config) (text string, err error) {
	defer func() {
		if r := recover(); r != nil {
			err = fmt.Errorf("panic:%v", r)
		}
	}()
	s := bmstack.CreateBasicStack()
	s.ModuleName = c.module
	s.DataSize = c.dsize
	s.Depth = c.depth
	if c.fifo {
		s.MemType = "FIFO"
	} else {
		s.MemType = "LIFO"
	}
	s.Senders = c.senders
	s.Receivers = c.receivers
	return s.WriteHDL()
}

func oneLine(s string) string {
	return strings.ReplaceAll(strings.ReplaceAll(s, "\n", " "), "\r", " ")
}

func emitDesign(out *common.Out, c config, text string) bool {
	out.Line("%s", c.line())
	d, err := vlog.ParseFiles(map[string]string{c.id + ".v": text})
	if err != nil {
		out.Line("E %s parse: %s", c.id, oneLine(err.Error()))
		return false
	}
	out.Line("V %s", vlog.ToSexp(d))
	return true
}

func words(rng *common.Rng, n int) string {
	var sb strings.Builder
	for i := 0; i < n; i++ {
		if i > 0 {
			sb.WriteByte(',')
		}
		sb.WriteString(strconv.FormatUint(rng.Next(), 16))
	}
	return sb.String()
}

type tracePlan struct {
	mode                    string
	pRaiseS, pRaiseR, pDrop int
}

func emitTraces(out *common.Out, rng *common.Rng, c config, thorough bool) {
	plans := []tracePlan{{"agents", 3, 3, 6}, {"agents", 8, 8, 8}, {"agents", 7, 1, 6}, {"agents", 2, 6, 1}, {"raw", 0, 0, 0}}
	cycles := 300
	if thorough {
		plans = append(plans, tracePlan{"agents", 5, 5, 3}, tracePlan{"agents", 8, 2, 2}, tracePlan{"agents", 1, 8, 8},
			tracePlan{"raw", 0, 0, 0}, tracePlan{"raw", 0, 0, 0}, tracePlan{"agents", 6, 4, 6})
		cycles = 1500
	}
	for _, p := range plans {
		out.Line("T %s %s %d %d %d %s", c.id, p.mode, p.pRaiseS, p.pRaiseR, p.pDrop, words(rng, cycles))
	}
}

func gen(out *common.Out, thorough bool) {
	rng := common.NewRng(common.Seed())
	for _, fifo := range []bool{false, true} {
		for _, depth := range []int{1, 2, 3, 4, 5, 7, 8} {
			for ns := 1; ns <= 3; ns++ {
				for nr := 1; nr <= 3; nr++ {
					for _, dsize := range []int{1, 2, 8} {
						c := writeHDLConfig(fifo, depth, ns, nr, dsize)
						text, err := render(c)
						if err != nil {
							out.Line("%s", c.line())
							out.Line("E %s render: %s", c.id, oneLine(err.Error()))
							continue
						}
						if !emitDesign(out, c, text) {
							continue
						}
						emitTraces(out, rng, c, thorough)
						if thorough && depth <= 3 && ns <= 2 && nr <= 2 && dsize == 1 {
							out.Line("X %s 2000000", c.id)
						}
						out.Flush()
					}
				}
			}
		}
	}
}

// ---------------------------------------------------------------- in-tree users

// templateConfig recognises a module rendered from the bmstack template and reads its
// configuration off the parsed text: ports <x>Write/<x>Data/<x>Ack = sender x, <x>Read/… =
// receiver x, `reg [w-1:0] memory[d-1:0]`, FIFO iff a register `readsp` exists.
func templateConfig(file string, m *vlog.Module) (config, bool) {
	c := config{id: "u-" + strings.TrimSuffix(filepath.Base(file), ".v") + "-" + m.Name, module: m.Name}
	has := map[string]bool{}
	constOf := func(e vlog.Expr) (int, bool) {
		if n, ok := e.(*vlog.Num); ok && n.Val.IsInt64() {
			return int(n.Val.Int64()), true
		}
		return 0, false
	}
	for _, it := range m.Items {
		d, ok := it.(*vlog.Decl)
		if !ok {
			continue
		}
		for _, n := range d.Names {
			has[n.Name] = true
			if n.Name == "memory" && n.Mem != nil && d.Range != nil {
				a, ok1 := constOf(n.Mem.Msb)
				b, ok2 := constOf(n.Mem.Lsb)
				w, ok3 := constOf(d.Range.Msb)
				if !ok1 || !ok2 || !ok3 {
					return c, false
				}
				if a < b {
					a, b = b, a
				}
				c.depth = a - b + 1
				c.dsize = w + 1
			}
		}
	}
	if !(has["memory"] && has["sp"] && has["sendSM"] && has["recvSM"] && has["empty"] && has["full"]) {
		return c, false
	}
	c.fifo = has["readsp"]
	for _, p := range m.Ports {
		if strings.HasSuffix(p, "Write") {
			c.senders = append(c.senders, strings.TrimSuffix(p, "Write"))
		}
		if strings.HasSuffix(p, "Read") {
			c.receivers = append(c.receivers, strings.TrimSuffix(p, "Read"))
		}
	}
	return c, c.depth > 0
}

func users(out *common.Out, dir string) {
	rng := common.NewRng(common.Seed() ^ 0x5555)
	files, _ := filepath.Glob(filepath.Join(dir, "*.v"))
	sort.Strings(files)
	for _, f := range files {
		b, err := os.ReadFile(f)
		if err != nil {
			continue
		}
		ms, err := vlog.ParseFile(f, string(b))
		if err != nil {
			// files of the set that are outside the subset are C18's business; here only report
			out.Line("# skipped %s: %s", filepath.Base(f), oneLine(err.Error()))
			continue
		}
		for _, m := range ms {
			c, ok := templateConfig(f, m)
			if !ok {
				continue
			}
			out.Line("%s", c.line())
			out.Line("V %s", vlog.ToSexp(&vlog.Design{Modules: []*vlog.Module{m}}))
			emitTraces(out, rng, c, false)
			out.Flush()
		}
	}
}

// ---------------------------------------------------------------- replay / selftest

func replay(out *common.Out, file string) {
	f, err := os.Open(file)
	if err != nil {
		fmt.Fprintln(os.Stderr, err)
		os.Exit(2)
	}
	defer f.Close()
	sc := bufio.NewScanner(f)
	sc.Buffer(make([]byte, 1<<20), 1<<28)
	for sc.Scan() {
		l := sc.Text()
		switch {
		case strings.HasPrefix(l, "C "):
			fs := strings.Fields(l)
			if c, ok := configFromID(fs[1]); ok {
				text, err := render(c)
				if err != nil {
					out.Line("%s", c.line())
					out.Line("E %s render: %s", c.id, oneLine(err.Error()))
					continue
				}
				emitDesign(out, c, text)
			} else {
				out.Line("%s", l) // user module: the V line must follow in the file
			}
		case strings.HasPrefix(l, "T "), strings.HasPrefix(l, "X "), strings.HasPrefix(l, "V "):
			out.Line("%s", l)
		}
	}
	out.Flush()
}

func selftest(out *common.Out, dir string) {
	files, _ := filepath.Glob(filepath.Join(dir, "*.v"))
	sort.Strings(files)
	for _, f := range files {
		b, _ := os.ReadFile(f)
		base := filepath.Base(f)
		d, err := vlog.ParseFiles(map[string]string{base: string(b)})
		if err != nil {
			out.Line("G %s FAIL %s", base, oneLine(err.Error()))
			continue
		}
		want, _ := os.ReadFile(strings.TrimSuffix(f, ".v") + ".sexp")
		if strings.TrimSpace(string(want)) == vlog.ToSexp(d) {
			out.Line("G %s ok", base)
		} else {
			out.Line("G %s FAIL golden S-expression differs", base)
		}
	}
	// constructs outside the subset must be rejected with a position, never skipped
	for _, bad := range []struct{ name, src string }{
		{"casez", "module m(input a, output reg b); always @(*) casez (a) 1'b1: b = 1; endcase endmodule"},
		{"xlit", "module m(output a); assign a = 1'bx; endmodule"},
		{"generate", "module m(output a); generate endgenerate endmodule"},
		{"function-call", "module m(input a, output b); assign b = f(a); endmodule"},
		{"signed", "module m(input signed [3:0] a, output b); assign b = a[0]; endmodule"},
		{"trailing-comma", "module m(input a, output b,); assign b = a; endmodule"},
		{"while", "module m(input clk); always @(posedge clk) while (1) ; endmodule"},
		{"unterminated", "module m(input a, output b); assign b = a;"},
		{"directive", "`define X 1\nmodule m(input a, output b); assign b = a; endmodule"},
	} {
		_, err := vlog.ParseFile(bad.name, bad.src)
		if e, ok := err.(*vlog.Error); ok && e.Pos.Line >= 1 {
			out.Line("G reject-%s ok", bad.name)
		} else {
			out.Line("G reject-%s FAIL accepted or error without position: %v", bad.name, err)
		}
	}
	out.Line("S")
	out.Flush()
}

func main() {
	out := common.NewOut(os.Stdout)
	defer out.Flush()
	if len(os.Args) < 2 {
		fmt.Fprintln(os.Stderr, "usage: c13 gen quick|thorough | users <dir> | replay <file> | selftest <dir>")
		os.Exit(2)
	}
	switch os.Args[1] {
	case "gen":
		gen(out, len(os.Args) > 2 && os.Args[2] == "thorough")
	case "users":
		users(out, os.Args[2])
	case "replay":
		replay(out, os.Args[2])
	case "selftest":
		selftest(out, os.Args[2])
	default:
		fmt.Fprintln(os.Stderr, "unknown sub-command")
		os.Exit(2)
	}
}
