// C02 harness — a whole BondMachine in generated HDL and in simulation.
//
// Builds random bond graphs with the real API (Add_input / Add_output / Add_processor /
// Add_bond), one procbuilder.Machine (architecture + assembled program) per processor, and prints
//
//	G <rsize> <inputs> <outputs> P=n:m,.. I=k.r.e,.. O=k.r.e,.. L=j|-,..   the bond graph
//
// mode `net` — the top-level netlist as the real Write_verilog_main emits it, parsed by bmvh/vlog:
//
//	NV ok | NV err <message>
//	NP <port> ...                         header of module bondmachine
//	ND <dir> <kind> <width> <name>        every declared name (dir input|output|none, kind wire|reg|none)
//	NI <module> <instance> <conn> ...     positional connections (anything but an identifier: ?<text>)
//	NA <lhs> id <name> | NA <lhs> and1 <name> ... | NA <lhs> other
//	NX <n>                                number of other module items (always, initial, parameters …)
//
// modes `sim` / `hdl` — the machine's processors and a tick-by-tick run of the real bondmachine.VM:
//
//	A <p> rsize R N M L O mode wordsize ops=…   S <p> <assembly line>   P <p> <word> …
//	H <sexp> | H err …        (hdl) bondmachine.v + aN.v + pN.v + pNrom.v, produced in-process by
//	                          Write_verilog_main and the per-module generators, parsed by bmvh/vlog
//	E vals=..;.. idel=..;.. odel=..;.. ihold=..;.. orel=..;.. clocks=<n>   the reactive environment (value stream and stall
//	                          pattern per external input, acknowledge stalls per external output)
//	T                         VM.Init + Launch_processors
//	V in=.. iv=.. or=..       what the environment drives before the tick
//	X …                       all Internal_* registers and flags, external outputs, every processor
//	SS o0=v,v,..;o1=..        per external output the values the environment took delivery of
//	DL op:d,.. / SD …         (hdl, half of the machines) the same run on a second VM with simulated
//	                          opcode latencies (VM.SimDelayMap): its delivered streams
//
// mode `dly`: as hdl without the HDL and without the per-tick lines: SS and several DL/SD pairs.
//
// Usage: c02 net|sim|hdl|dly <graphs> [<ticks>]   |   c02 replaynet|replaysim|replayhdl|replaydly <file>
package main

import (
	"bufio"
	"fmt"
	"os"
	"sort"
	"strconv"
	"strings"

	"bmvh/common"
	"bmvh/vlog"

	"github.com/BondMachineHQ/BondMachine/pkg/bmline"
	"github.com/BondMachineHQ/BondMachine/pkg/bmreqs"
	"github.com/BondMachineHQ/BondMachine/pkg/bondmachine"
	"github.com/BondMachineHQ/BondMachine/pkg/procbuilder"
	"github.com/BondMachineHQ/BondMachine/pkg/simbox"
)

var out = common.NewOut(os.Stdout)

// tightPrograms: also generate stages that re-use a port without any instruction in between
// (VERIF_C02_TIGHT=0 restricts the generator to programs that satisfy PortReuseSafe by construction)
var tightPrograms = common.EnvInt("VERIF_C02_TIGHT", 1) != 0

// ---------------------------------------------------------------------------------- case data

type archSpec struct {
	rsize, r, n, m, l, o int
	mode                 string
	wordSize             int
	ops                  []string
}

func (s archSpec) line(p int) string {
	return fmt.Sprintf("A %d %d %d %d %d %d %d %s %d ops=%s", p, s.rsize, s.r, s.n, s.m, s.l, s.o, s.mode, s.wordSize, strings.Join(s.ops, ","))
}

type procSpec struct {
	arch archSpec
	src  []string
}

// an edit of the topology API, in the order it is applied
type edit struct {
	kind string // ai ao ap ab
	p    int    // ap: index into procs
	a, b string // ab: endpoint names
}

type envSpec struct {
	vals   [][]uint64 // per external input: the values offered, in order (cyclic)
	idel   [][]int    // per external input: idle ticks before each offer (cyclic)
	odel   [][]int    // per external output: ticks between valid seen and acknowledge (cyclic)
	ihold  [][]int    // per external input: ticks valid is held after received rose (cyclic)
	orel   [][]int    // per external output: ticks received is held after valid fell (cyclic)
	clocks int        // horizon of the HDL world
	noise  bool       // sim mode: not an automaton but random flags (tie of the step function only)
}

// opDelay: the simulator idles `d` ticks after every retired instruction with this opcode
// (simbox.SimDelays with the single-valued distribution {d: 1.0}: deterministic)
type opDelay struct {
	op string
	d  int
}

// genOpts: Config fields that change what Write_verilog_main / the per-module generators emit
// without changing the machine: bondmachine.Config.CommentedVerilog (-comment-verilog; carried to
// procbuilder.Config.Commented_verilog by ProcbuilderConfig) and the hardware optimisation
// OnlyDestRegs (inc/dec/rset/jz keep only the register arms recorded under `destregs`).
type genOpts struct {
	commented bool
	onlyDest  bool
}

func (o genOpts) line() string {
	b := func(x bool) int {
		if x {
			return 1
		}
		return 0
	}
	return fmt.Sprintf("O commented=%d onlydestregs=%d", b(o.commented), b(o.onlyDest))
}

type caseSpec struct {
	rsize int
	procs []procSpec
	edits []edit
	env   envSpec
	ticks int
	stims []stim // replay: explicit stimulus
	hasE  bool   // replay: an E line was given
	opt   genOpts // generator options that change the emitted text, not the machine
	dom   []int   // processor -> domain index (nil: processor p is an instance of domain p)
	ndoms int     // number of domains (0: one per processor); domains nobody instantiates are idle stubs
	delays [][]opDelay // simulated opcode latencies: one extra simulator run per assignment (hdl / dly modes)
}

// ---------------------------------------------------------------------------------- building

func buildMachine(s archSpec) (*procbuilder.Machine, error) {
	all := map[string]procbuilder.Opcode{}
	for _, op := range procbuilder.Allopcodes {
		all[op.Op_get_name()] = op
	}
	m := new(procbuilder.Machine)
	a := &m.Arch
	a.Rsize = uint8(s.rsize)
	a.R = uint8(s.r)
	a.N = uint8(s.n)
	a.M = uint8(s.m)
	a.L = uint8(s.l)
	a.O = uint8(s.o)
	a.Modes = []string{s.mode}
	a.WordSize = uint8(s.wordSize)
	ops := make([]procbuilder.Opcode, 0)
	for _, n := range s.ops {
		op, ok := all[n]
		if !ok {
			return nil, fmt.Errorf("no opcode %s", n)
		}
		ops = append(ops, op)
	}
	sort.Sort(procbuilder.ByName(ops))
	a.Op = ops
	return m, nil
}

// build applies the edits with the real API
// domOf: the domain that processor p instantiates
func (c *caseSpec) domOf(p int) int {
	if c.dom != nil && p < len(c.dom) {
		return c.dom[p]
	}
	return p
}

func (c *caseSpec) numDoms() int {
	n := c.ndoms
	if n < len(c.procs) && c.dom == nil {
		n = len(c.procs)
	}
	for p := range c.procs {
		if c.domOf(p)+1 > n {
			n = c.domOf(p) + 1
		}
	}
	return n
}

// build creates the domains (as `bondmachine -add-domains` does: plain appends to Domains, in
// domain order) and applies the edits with the real API; a processor is `Add_processor(domain)`:
// several processors may instantiate one domain, domains may be listed in another order than
// the processors, and some may be unused
func build(c *caseSpec) (*bondmachine.Bondmachine, []*procbuilder.Machine, error) {
	bm := new(bondmachine.Bondmachine)
	bm.Rsize = uint8(c.rsize)
	bm.Init()
	machs := make([]*procbuilder.Machine, len(c.procs))
	nd := c.numDoms()
	for d := 0; d < nd; d++ {
		spec := procSpec{arch: archSpec{rsize: c.rsize, r: 1, o: 2, mode: "ha", ops: []string{"j", "nop"}}, src: []string{"j 0"}}
		for p := range c.procs {
			if c.domOf(p) == d {
				spec = c.procs[p]
				break
			}
		}
		m, err := buildMachine(spec.arch)
		if err != nil {
			return nil, nil, err
		}
		prog, err := m.Arch.Assembler([]byte(strings.Join(spec.src, "\n") + "\n"))
		if err != nil {
			return nil, nil, fmt.Errorf("assembler domain %d: %v", d, err)
		}
		m.Program = prog
		bm.Domains = append(bm.Domains, m)
	}
	for _, e := range c.edits {
		switch e.kind {
		case "ai":
			bm.Add_input()
		case "ao":
			bm.Add_output()
		case "ap":
			d := c.domOf(e.p)
			machs[e.p] = bm.Domains[d]
			if _, err := bm.Add_processor(d); err != nil {
				return nil, nil, err
			}
		case "ab":
			bm.Add_bond([]string{e.a, e.b})
		}
	}
	return bm, machs, nil
}

func bondS(b bondmachine.Bond) string {
	return fmt.Sprintf("%d.%d.%d", b.Map_to, b.Res_id, b.Ext_id)
}

func graphLine(bm *bondmachine.Bondmachine) string {
	var sb strings.Builder
	fmt.Fprintf(&sb, "G %d %d %d P=", bm.Rsize, bm.Inputs, bm.Outputs)
	for i, d := range bm.Processors {
		if i > 0 {
			sb.WriteByte(',')
		}
		fmt.Fprintf(&sb, "%d:%d", bm.Domains[d].N, bm.Domains[d].M)
	}
	sb.WriteString(" I=")
	for i, b := range bm.Internal_inputs {
		if i > 0 {
			sb.WriteByte(',')
		}
		sb.WriteString(bondS(b))
	}
	sb.WriteString(" O=")
	for i, b := range bm.Internal_outputs {
		if i > 0 {
			sb.WriteByte(',')
		}
		sb.WriteString(bondS(b))
	}
	sb.WriteString(" L=")
	for i, l := range bm.Links {
		if i > 0 {
			sb.WriteByte(',')
		}
		if l == -1 {
			sb.WriteByte('-')
		} else {
			sb.WriteString(strconv.Itoa(l))
		}
	}
	return sb.String()
}

func editLine(c *caseSpec, e edit) string {
	switch e.kind {
	case "ap":
		return fmt.Sprintf("D ap %d %d", e.p, c.domOf(e.p))
	case "ab":
		return fmt.Sprintf("D ab %s %s", e.a, e.b)
	}
	return "D " + e.kind
}

// ---------------------------------------------------------------------------------- generation

func pick(r *common.Rng, w []int) int { // weighted choice
	t := 0
	for _, x := range w {
		t += x
	}
	k := r.Intn(t)
	for i, x := range w {
		if k < x {
			return i
		}
		k -= x
	}
	return 0
}

type sinkRef struct {
	name string
	proc int // -1: external output
	port int
}
type drvRef struct {
	name string
	proc int // -1: external input
	port int
	fan  int
}

func genCase(r *common.Rng, ticks int, full bool) *caseSpec {
	c := &caseSpec{ticks: ticks}
	c.rsize = []int{8, 16, 32, 64}[pick(r, []int{4, 3, 2, 1})]
	np := 1 + pick(r, []int{3, 4, 3, 2})
	ni := pick(r, []int{2, 5, 3, 1})
	no := pick(r, []int{1, 5, 3, 2})
	type pp struct{ n, m int }
	ports := make([]pp, np)
	for i := range ports {
		ports[i] = pp{pick(r, []int{2, 5, 4, 1}), pick(r, []int{2, 5, 4, 1})}
	}
	// processor -> domain: a processor may be one more instance of an earlier processor's domain
	// (`-add-processor d` twice: the usual way to replicate a core); classes are numbered by first use
	class := make([]int, np)
	nclass := 0
	for p := 0; p < np; p++ {
		if p > 0 && r.Chance(1, 4) {
			q := r.Intn(p)
			class[p] = class[q]
			ports[p] = ports[q]
		} else {
			class[p] = nclass
			nclass++
		}
	}
	// order of the API calls: random interleaving (the order of Internal_inputs/outputs follows it)
	var es []edit
	for i := 0; i < ni; i++ {
		es = append(es, edit{kind: "ai"})
	}
	for i := 0; i < no; i++ {
		es = append(es, edit{kind: "ao"})
	}
	for i := 0; i < np; i++ {
		es = append(es, edit{kind: "ap", p: -1})
	}
	for i := len(es) - 1; i > 0; i-- {
		j := r.Intn(i + 1)
		es[i], es[j] = es[j], es[i]
	}
	k := 0
	for i := range es {
		if es[i].kind == "ap" {
			es[i].p = k
			k++
		}
	}
	// bonds: every sink may take one driver; mostly forward (pipelines), fan-out up to 3
	var sinks []sinkRef
	var drvs []*drvRef
	for i := 0; i < ni; i++ {
		drvs = append(drvs, &drvRef{name: "i" + strconv.Itoa(i), proc: -1, port: i})
	}
	for p := 0; p < np; p++ {
		for j := 0; j < ports[p].n; j++ {
			sinks = append(sinks, sinkRef{fmt.Sprintf("p%di%d", p, j), p, j})
		}
		for j := 0; j < ports[p].m; j++ {
			drvs = append(drvs, &drvRef{name: fmt.Sprintf("p%do%d", p, j), proc: p, port: j})
		}
	}
	for i := 0; i < no; i++ {
		sinks = append(sinks, sinkRef{"o" + strconv.Itoa(i), -1, i})
	}
	for i := len(sinks) - 1; i > 0; i-- {
		j := r.Intn(i + 1)
		sinks[i], sinks[j] = sinks[j], sinks[i]
	}
	cycles := r.Chance(1, 6)     // backward bonds and self loops (mostly deadlocks) only in some machines
	fanny := r.Chance(1, 3)      // prefer processor outputs that already have a consumer (fan-out to processors)
	usedIn := make([][]int, np)  // connected inputs of each processor
	usedOut := make([][]int, np) // connected outputs
	markOut := map[string]bool{}
	var bonds []edit
	extDrv := map[int]*drvRef{} // external output -> its driver
	for _, s := range sinks {
		if r.Chance(1, 8) || len(drvs) == 0 {
			continue // unconnected sink
		}
		w := make([]int, len(drvs))
		for i, d := range drvs {
			switch {
			case d.fan >= 3:
				w[i] = 0
			case s.proc >= 0 && d.proc == s.proc:
				w[i] = 0 // self loop
				if cycles {
					w[i] = 1
				}
			case s.proc >= 0 && d.proc > s.proc:
				w[i] = 0 // backward (cycles)
				if cycles {
					w[i] = 2
				}
			case s.proc < 0 && d.proc < 0:
				w[i] = 2 // external input straight to external output
			default:
				w[i] = 8
			}
			if w[i] > 0 && d.fan == 0 {
				w[i] *= 3 // outputs nobody listens to block their writer
			}
			if fanny && w[i] > 0 && d.proc >= 0 && s.proc >= 0 && d.fan >= 1 {
				w[i] *= 10
			}
		}
		t := 0
		for _, x := range w {
			t += x
		}
		if t == 0 {
			continue
		}
		d := drvs[pick(r, w)]
		d.fan++
		if s.proc < 0 {
			extDrv[s.port] = d
		}
		if r.Bool() {
			bonds = append(bonds, edit{kind: "ab", a: s.name, b: d.name})
		} else {
			bonds = append(bonds, edit{kind: "ab", a: d.name, b: s.name})
		}
		if s.proc >= 0 {
			usedIn[s.proc] = append(usedIn[s.proc], s.port)
		}
		if d.proc >= 0 && !markOut[d.name] {
			markOut[d.name] = true
			usedOut[d.proc] = append(usedOut[d.proc], d.port)
		}
	}
	c.edits = append(es, bonds...)
	if full && r.Chance(1, 10) && len(bonds) > 0 {
		// a bond made before one of its endpoints exists is silently ignored by Add_bond; a bond
		// made twice is overwritten: exercise both
		c.edits = append([]edit{bonds[r.Intn(len(bonds))]}, c.edits...)
	}
	// one architecture and one program per class; a program only uses the ports that are connected
	// on every instance of its domain
	inter := func(a, b []int) []int {
		var res []int
		for _, x := range a {
			for _, y := range b {
				if x == y {
					res = append(res, x)
				}
			}
		}
		return res
	}
	classSpec := make([]*procSpec, nclass)
	for cl := 0; cl < nclass; cl++ {
		first := true
		var uin, uout []int
		var pt pp
		for p := 0; p < np; p++ {
			if class[p] != cl {
				continue
			}
			sort.Ints(usedIn[p])
			sort.Ints(usedOut[p])
			if first {
				uin, uout, pt, first = usedIn[p], usedOut[p], ports[p], false
			} else {
				uin, uout = inter(uin, usedIn[p]), inter(uout, usedOut[p])
			}
		}
		a := archSpec{rsize: c.rsize, r: 1 + r.Intn(3), n: pt.n, m: pt.m, l: 0, o: 6, mode: "ha"}
		ops := []string{"nop", "rset", "inc", "add", "cpy", "j"}
		for _, x := range []string{"dec", "clr", "mult"} {
			if r.Chance(1, 3) {
				ops = append(ops, x)
			}
		}
		if a.n > 0 {
			ops = append(ops, "i2rw")
		}
		if a.m > 0 {
			ops = append(ops, "r2owa")
		}
		sort.Strings(ops)
		a.ops = ops
		classSpec[cl] = &procSpec{arch: a, src: genProgram(r, a, uin, uout)}
	}
	for p := 0; p < np; p++ {
		c.procs = append(c.procs, *classSpec[class[p]])
	}
	// class -> domain index: identity, or another order, possibly with domains nobody instantiates
	c.ndoms = nclass
	if r.Chance(1, 4) {
		c.ndoms += 1 + r.Intn(2)
	}
	perm := make([]int, c.ndoms)
	for i := range perm {
		perm[i] = i
	}
	if nclass != np || c.ndoms != nclass || r.Chance(1, 2) {
		for i := len(perm) - 1; i > 0; i-- {
			j := r.Intn(i + 1)
			perm[i], perm[j] = perm[j], perm[i]
		}
	}
	c.dom = make([]int, np)
	for p := 0; p < np; p++ {
		c.dom[p] = perm[class[p]]
	}
	// environment
	c.env.clocks = 3 * ticks / 2
	c.opt = genOpts{commented: r.Chance(1, 3), onlyDest: r.Chance(1, 4)}
	// simulated opcode latencies for a second run of the simulator (two thirds of the machines, all
	// those built with fan-out to several processors): the
	// property holds "regardless of how many clock cycles either takes"
	if fanny || r.Chance(1, 2) {
		c.delays = genDelaySets(r, fanny)
	}
	mask := ^uint64(0)
	if c.rsize < 64 {
		mask = (uint64(1) << uint(c.rsize)) - 1
	}
	for i := 0; i < ni; i++ {
		n := 3 + r.Intn(10)
		vs := make([]uint64, n)
		base := r.Next() & mask & 0xff
		for j := range vs {
			if r.Chance(1, 4) {
				vs[j] = r.Next() & mask
			} else {
				vs[j] = (base + uint64(j)*uint64(1+i)) & mask
			}
		}
		c.env.vals = append(c.env.vals, vs)
		c.env.idel = append(c.env.idel, genDelays(r))
		c.env.ihold = append(c.env.ihold, genRelease(r))
	}
	for i := 0; i < no; i++ {
		c.env.odel = append(c.env.odel, genDelays(r))
		rel := genRelease(r)
		if d, ok := extDrv[i]; ok && d.fan > 1 {
			// `received` of an internal output is the AND of its consumers' lines: its producer only
			// sees "somebody released".  An external consumer that keeps received up for several
			// ticks after valid fell is only protocol abiding when it is the sole consumer (a sibling
			// that released lets the producer start the next transfer, which the slow one would miss:
			// in both worlds — see docs/C02.md, "slow release and fan-out")
			rel = []int{0}
		}
		c.env.orel = append(c.env.orel, rel)
	}
	return c
}

// genDelaySets: one to three assignments opcode -> idle ticks after it retires.  With fan-out to
// several processors (`long`) the delays are long enough to cover a whole valid-low window of the
// producer while a sibling consumer finishes its transfer.
func genDelaySets(r *common.Rng, long bool) [][]opDelay {
	pool := []string{"inc", "add", "cpy", "nop", "j", "i2rw", "r2owa", "rset", "dec", "mult", "clr"}
	nsets := 1
	if long {
		nsets = 3
	}
	var sets [][]opDelay
	for k := 0; k < nsets; k++ {
		var set []opDelay
		seen := map[string]bool{}
		for n := 1 + r.Intn(3); n > 0; n-- {
			op := pool[pick(r, []int{5, 3, 3, 3, 3, 6, 3, 1, 1, 1, 1})]
			if seen[op] {
				continue
			}
			seen[op] = true
			d := 1 + r.Intn(12)
			if long && r.Chance(2, 3) {
				d = 8 + r.Intn(16)
			}
			set = append(set, opDelay{op, d})
		}
		sets = append(sets, set)
	}
	return sets
}

// genRelease: slow-release pattern of an environment port (still protocol abiding): how many more
// ticks received stays up after valid fell / valid stays up after received rose, 0..8
func genRelease(r *common.Rng) []int {
	n := 1 + r.Intn(5)
	d := make([]int, n)
	style := r.Intn(3) // 0: releases at once, 1: short, 2: up to 8
	for i := range d {
		switch style {
		case 1:
			d[i] = r.Intn(3)
		case 2:
			d[i] = r.Intn(9)
		}
	}
	return d
}

func genDelays(r *common.Rng) []int {
	n := 1 + r.Intn(6)
	d := make([]int, n)
	style := r.Intn(3) // 0: never stalls, 1: short stalls, 2: occasionally long
	for i := range d {
		switch style {
		case 1:
			d[i] = r.Intn(3)
		case 2:
			if r.Chance(1, 3) {
				d[i] = 3 + r.Intn(9)
			} else {
				d[i] = r.Intn(2)
			}
		}
	}
	return d
}

// genProgram: a blocking-IO pipeline stage: load some registers, then loop forever: read inputs,
// compute, write outputs.  Two uses of the same port are separated by at least three non-IO
// instructions (hypothesis PortReuseSafe, see docs/C02.md): every connected port is used once per
// iteration and the loop holds at least three non-IO instructions; an occasional second use of a
// port inside the iteration comes after three fillers.
func genProgram(r *common.Rng, a archSpec, ins, outs []int) []string {
	nreg := 1 << uint(a.r)
	reg := func() string { return "r" + strconv.Itoa(r.Intn(nreg)) }
	has := func(op string) bool {
		for _, o := range a.ops {
			if o == op {
				return true
			}
		}
		return false
	}
	var unary, binary []string
	for _, o := range []string{"inc", "dec", "clr"} {
		if has(o) {
			unary = append(unary, o)
		}
	}
	for _, o := range []string{"add", "cpy", "mult"} {
		if has(o) {
			binary = append(binary, o)
		}
	}
	filler := func() string {
		switch r.Intn(5) {
		case 0:
			return "nop"
		case 1, 2:
			return unary[r.Intn(len(unary))] + " " + reg()
		}
		return binary[r.Intn(len(binary))] + " " + reg() + " " + reg()
	}
	var lines []string
	for i := 0; i < nreg && i < 3; i++ {
		if r.Chance(2, 3) {
			lines = append(lines, fmt.Sprintf("rset r%d %d", i, r.Intn(1<<7)))
		}
	}
	start := len(lines)
	type io struct {
		in   bool
		port int
	}
	var ios []io
	sloppy := r.Chance(1, 12) // leaves connected ports unused (its partners block for ever)
	for _, k := range ins {
		if !sloppy || r.Bool() {
			ios = append(ios, io{true, k})
		}
	}
	nin := len(ios)
	for _, k := range outs {
		if !sloppy || r.Bool() {
			ios = append(ios, io{false, k})
		}
	}
	// an unconnected port used now and then (the stage blocks there for ever in both worlds)
	if r.Chance(1, 25) && a.n > 0 {
		ios = append(ios, io{true, r.Intn(a.n)})
	}
	if r.Chance(1, 25) && a.m > 0 {
		ios = append(ios, io{false, r.Intn(a.m)})
	}
	if r.Chance(1, 4) { // any order instead of reads first
		for i := len(ios) - 1; i > 0; i-- {
			j := r.Intn(i + 1)
			ios[i], ios[j] = ios[j], ios[i]
		}
	} else {
		for i := nin - 1; i > 0; i-- {
			j := r.Intn(i + 1)
			ios[i], ios[j] = ios[j], ios[i]
		}
	}
	tight := tightPrograms && r.Chance(1, 4) // no separation between two uses of a port
	nonIO := 1                               // the closing jump
	lastReg := "r0"
	seen := map[io]bool{}
	for _, x := range ios {
		if seen[x] {
			continue
		}
		seen[x] = true
		for k := r.Intn(3); k > 0 && !tight; k-- {
			lines = append(lines, filler())
			nonIO++
		}
		if x.in {
			lastReg = reg()
			lines = append(lines, fmt.Sprintf("i2rw %s i%d", lastReg, x.port))
		} else {
			rg := lastReg
			if r.Chance(1, 3) {
				rg = reg()
			}
			lines = append(lines, fmt.Sprintf("r2owa %s o%d", rg, x.port))
		}
		if tight && r.Chance(1, 3) { // the same port again, back to back (legal since the handshake fix 18c0f8e)
			if x.in {
				lines = append(lines, fmt.Sprintf("i2rw %s i%d", reg(), x.port))
			} else {
				lines = append(lines, fmt.Sprintf("r2owa %s o%d", reg(), x.port))
			}
		}
		if r.Chance(1, 12) { // second use of the same port in one iteration, three fillers apart
			for k := 0; k < 3; k++ {
				lines = append(lines, filler())
				nonIO++
			}
			if x.in {
				lines = append(lines, fmt.Sprintf("i2rw %s i%d", reg(), x.port))
			} else {
				lines = append(lines, fmt.Sprintf("r2owa %s o%d", reg(), x.port))
			}
			for k := 0; k < 2; k++ {
				lines = append(lines, filler())
				nonIO++
			}
		}
	}
	if nin == 0 { // a source: make the stream worth looking at
		lines = append(lines, "inc "+lastReg)
		nonIO++
	}
	for nonIO < 4 && !tight {
		lines = append(lines, filler())
		nonIO++
	}
	lines = append(lines, "j "+strconv.Itoa(start))
	if len(lines) > 1<<uint(a.o) {
		lines = append(lines[:(1<<uint(a.o))-1], "j "+strconv.Itoa(start))
	}
	return lines
}

// ---------------------------------------------------------------------------------- netlist

func exprText(e vlog.Expr) string {
	d := &vlog.Design{Modules: []*vlog.Module{{Name: "x", Items: []vlog.Item{&vlog.ContAssign{LHS: &vlog.Ident{Name: "x"}, RHS: e}}}}}
	return strings.ReplaceAll(vlog.ToSexp(d), " ", "_")
}

func constWidth(rs *vlog.RangeSpec) string {
	if rs == nil {
		return "1"
	}
	m, ok1 := rs.Msb.(*vlog.Num)
	l, ok2 := rs.Lsb.(*vlog.Num)
	if !ok1 || !ok2 || l.Val.Sign() != 0 {
		return "?"
	}
	return strconv.FormatInt(m.Val.Int64()+1, 10)
}

// andLeaves flattens  1'b1 & (a) & (b) …  into its identifier leaves; ok=false for anything else
func andLeaves(e vlog.Expr) (names []string, ones int, ok bool) {
	switch x := e.(type) {
	case *vlog.Ident:
		return []string{x.Name}, 0, true
	case *vlog.Num:
		if x.Width == 1 && x.Val.Int64() == 1 {
			return nil, 1, true
		}
		return nil, 0, false
	case *vlog.Binary:
		if x.Op != "&" {
			return nil, 0, false
		}
		a, oa, ok1 := andLeaves(x.A)
		b, ob, ok2 := andLeaves(x.B)
		return append(a, b...), oa + ob, ok1 && ok2
	}
	return nil, 0, false
}

func emitNetlist(d *vlog.Design) {
	var top *vlog.Module
	for _, m := range d.Modules {
		if m.Name == "bondmachine" {
			top = m
		}
	}
	if top == nil {
		out.Line("NV err no module bondmachine")
		return
	}
	out.Line("NV ok")
	out.Line("NP %s", strings.Join(top.Ports, " "))
	other := 0
	for _, it := range top.Items {
		switch x := it.(type) {
		case *vlog.Decl:
			for _, n := range x.Names {
				w := constWidth(x.Range)
				if n.Mem != nil || n.Init != nil || x.Signed {
					w = "?"
				}
				out.Line("ND %s %s %s %s", x.Dir, x.Kind, w, n.Name)
			}
		case *vlog.Instance:
			parts := []string{x.Module, x.Name}
			if x.Named || len(x.Params) > 0 {
				parts = append(parts, "?named")
			}
			for _, c := range x.Conns {
				if id, ok := c.X.(*vlog.Ident); ok {
					parts = append(parts, id.Name)
				} else if c.X == nil {
					parts = append(parts, "?open")
				} else {
					parts = append(parts, "?"+exprText(c.X))
				}
			}
			out.Line("NI %s", strings.Join(parts, " "))
		case *vlog.ContAssign:
			lhs, ok := x.LHS.(*vlog.Ident)
			if !ok {
				out.Line("NA ?%s other", exprText(x.LHS))
				continue
			}
			if id, ok := x.RHS.(*vlog.Ident); ok {
				out.Line("NA %s id %s", lhs.Name, id.Name)
			} else if names, ones, ok := andLeaves(x.RHS); ok && ones == 1 {
				// the emitted form is ( 1'b1 & (a) & (b) … ): left-associated, the constant first
				out.Line("NA %s and1 %s", lhs.Name, strings.Join(names, " "))
			} else {
				out.Line("NA %s other %s", lhs.Name, exprText(x.RHS))
			}
		default:
			other++
		}
	}
	out.Line("NX %d", other)
}

// ---------------------------------------------------------------------------------- HDL file set

// addImplicitNets: IEEE 1364-2001 §3.5 — an identifier that appears in a port connection of a
// module instance and is declared nowhere is an implicit scalar wire.  Write_verilog_main relies
// on this for the _valid / _received lines of an unbonded processor input.  The reader keeps such
// nets undeclared (the Verilog engine refuses implicit nets), so they are declared here.
func addImplicitNets(m *vlog.Module) []string {
	decl := map[string]bool{}
	for _, p := range m.Ports {
		decl[p] = true
	}
	for _, it := range m.Items {
		if d, ok := it.(*vlog.Decl); ok {
			for _, n := range d.Names {
				decl[n.Name] = true
			}
		}
	}
	var added []string
	for _, it := range m.Items {
		if x, ok := it.(*vlog.Instance); ok {
			for _, c := range x.Conns {
				if id, ok := c.X.(*vlog.Ident); ok && !decl[id.Name] {
					decl[id.Name] = true
					added = append(added, id.Name)
				}
			}
		}
	}
	for _, n := range added {
		m.Items = append(m.Items, &vlog.Decl{Dir: "none", Kind: "wire", Names: []vlog.DeclName{{Name: n}}})
	}
	return added
}

func fileSet(bm *bondmachine.Bondmachine, withProcs bool, c *caseSpec) (map[string]string, error) {
	conf := new(bondmachine.Config)
	rg := bmreqs.NewReqRoot()
	defer rg.Close()
	conf.ReqRoot = rg
	conf.CommentedVerilog = c.opt.commented
	if c.opt.onlyDest && withProcs {
		conf.HwOptimizations = procbuilder.SetHwOptimization(conf.HwOptimizations, procbuilder.HwOptimizations(procbuilder.OnlyDestRegs))
		rg.Requirement(bmreqs.ReqRequest{Node: "/", T: bmreqs.ObjectSet, Name: "bm", Value: "cps", Op: bmreqs.OpAdd})
	}
	files := map[string]string{}
	if withProcs {
		pConf := conf.ProcbuilderConfig()
		for i, domID := range bm.Processors {
			ri := new(procbuilder.RuntimeInfo)
			ri.Init()
			pConf.Runinfo = ri
			dom := bm.Domains[domID]
			dom.Arch.Shared_constraints = ""
			dom.Arch.Tag = strconv.Itoa(i)
			if c.opt.onlyDest && i < len(c.procs) {
				// record the destination registers the way basm does: each opcode's own
				// HLAssemblerNormalize on the program's lines (as harness/cmd/c01 does)
				node := "/bm:cps/id:" + strconv.Itoa(i)
				rg.Requirement(bmreqs.ReqRequest{Node: "/bm:cps", T: bmreqs.ObjectSet, Name: "id", Value: strconv.Itoa(i), Op: bmreqs.OpAdd})
				for _, l := range c.procs[i].src {
					f := strings.Fields(l)
					if len(f) == 0 {
						continue
					}
					bl := new(bmline.BasmLine)
					bl.Operation = new(bmline.BasmElement)
					bl.Operation.SetValue(f[0])
					for _, a := range f[1:] {
						e := new(bmline.BasmElement)
						e.SetValue(a)
						bl.Elements = append(bl.Elements, e)
					}
					for _, op := range dom.Arch.Op {
						if op.Op_get_name() == f[0] {
							func() {
								defer func() { recover() }()
								op.HLAssemblerNormalize(&dom.Arch, rg, node, bl)
							}()
						}
					}
				}
			}
			an := "a" + strconv.Itoa(i)
			names := map[string]string{"processor": "p" + strconv.Itoa(i), "rom": "p" + strconv.Itoa(i) + "rom", "ram": "p" + strconv.Itoa(i) + "ram"}
			dom.Conproc.CpID = uint32(i)
			files["arch_"+strconv.Itoa(i)+".v"] = dom.Arch.Write_verilog(an, names, "iverilog")
			files[names["processor"]+".v"] = dom.Arch.Conproc.Write_verilog(pConf, &dom.Arch, names["processor"], "iverilog")
			files[names["rom"]+".v"] = dom.Arch.Rom.Write_verilog(dom, names["rom"], "iverilog")
		}
	}
	files["bondmachine.v"] = bm.Write_verilog_main(conf, "bondmachine", "iverilog")
	return files, nil
}

func emitHDL(bm *bondmachine.Bondmachine, c *caseSpec) {
	res := common.Guard(func() string {
		files, err := fileSet(bm, true, c)
		if err != nil {
			return "H err " + err.Error()
		}
		d, err := vlog.ParseFiles(files)
		if err != nil {
			return "H err " + strings.ReplaceAll(err.Error(), "\n", " ")
		}
		for _, m := range d.Modules {
			if m.Name == "bondmachine" {
				addImplicitNets(m)
			}
		}
		return "H " + vlog.ToSexp(d)
	})
	if strings.HasPrefix(res, "panic") {
		res = "H err " + res
	}
	out.Line("%s", res)
}

// ---------------------------------------------------------------------------------- VM run

func typed(rsize int, v uint64) interface{} {
	switch {
	case rsize <= 8:
		return uint8(v)
	case rsize <= 16:
		return uint16(v)
	case rsize <= 32:
		return uint32(v)
	}
	return v
}

func untyped(x interface{}) uint64 {
	switch v := x.(type) {
	case uint8:
		return uint64(v)
	case uint16:
		return uint64(v)
	case uint32:
		return uint64(v)
	case uint64:
		return v
	}
	return 0
}

func joinU(xs []interface{}) string {
	p := make([]string, len(xs))
	for i, x := range xs {
		p[i] = strconv.FormatUint(untyped(x), 10)
	}
	return strings.Join(p, ",")
}

func joinB(xs []bool) string {
	p := make([]string, len(xs))
	for i, x := range xs {
		if x {
			p[i] = "1"
		} else {
			p[i] = "0"
		}
	}
	return strings.Join(p, ",")
}

func joinN(xs []uint64) string {
	p := make([]string, len(xs))
	for i, x := range xs {
		p[i] = strconv.FormatUint(x, 10)
	}
	return strings.Join(p, ",")
}

func joinI(xs []int) string {
	p := make([]string, len(xs))
	for i, x := range xs {
		p[i] = strconv.Itoa(x)
	}
	return strings.Join(p, ",")
}

func dumpProc(vm *procbuilder.VM) string {
	var d []int
	for k := range vm.DeferredInstructions {
		if strings.HasPrefix(k, "waitRecvI2rw") {
			v, _ := strconv.Atoi(strings.TrimPrefix(k, "waitRecvI2rw"))
			d = append(d, v)
		} else {
			d = append(d, 1000)
		}
	}
	sort.Ints(d)
	return fmt.Sprintf("pc=%d r=%s in=%s iv=%s ir=%s o=%s ov=%s or=%s d=%s", vm.Pc, joinU(vm.Registers), joinU(vm.Inputs),
		joinB(vm.InputsValid), joinB(vm.InputsRecv), joinU(vm.Outputs), joinB(vm.OutputsValid), joinB(vm.OutputsRecv), joinI(d))
}

func dumpVM(vm *bondmachine.VM) string {
	var sb strings.Builder
	fmt.Fprintf(&sb, "X o=%s ov=%s ir=%s ii=%s iiv=%s iir=%s io=%s iov=%s ior=%s", joinU(vm.Outputs_regs), joinB(vm.OutputsValid),
		joinB(vm.InputsRecv), joinU(vm.Internal_inputs_regs), joinB(vm.InternalInputsValid), joinB(vm.InternalInputsRecv),
		joinU(vm.Internal_outputs_regs), joinB(vm.InternalOutputsValid), joinB(vm.InternalOutputsRecv))
	for _, p := range vm.Processors {
		sb.WriteString(" | " + dumpProc(p))
	}
	return sb.String()
}

type stim struct {
	in []uint64
	iv []bool
	or []bool
}

func (st stim) line() string {
	return fmt.Sprintf("V in=%s iv=%s or=%s", joinN(st.in), joinB(st.iv), joinB(st.or))
}

func parseList(s string) []string {
	if s == "" {
		return nil
	}
	return strings.Split(s, ",")
}

func parseStim(l string) stim {
	st := stim{}
	for _, f := range strings.Fields(l)[1:] {
		kv := strings.SplitN(f, "=", 2)
		if len(kv) != 2 {
			continue
		}
		for _, p := range parseList(kv[1]) {
			switch kv[0] {
			case "in":
				v, _ := strconv.ParseUint(p, 10, 64)
				st.in = append(st.in, v)
			case "iv":
				st.iv = append(st.iv, p == "1")
			case "or":
				st.or = append(st.or, p == "1")
			}
		}
	}
	return st
}

// the reactive environment automaton (the Lean oracle holds the same automaton: BMV.Bm.envStep)
type envState struct {
	spec            *envSpec
	iidx, iph, icnt []int
	oidx, oph, ocnt []int
	drive           stim
	streams         [][]uint64
}

func newEnv(spec *envSpec, ni, no int) *envState {
	for len(spec.vals) < ni {
		spec.vals = append(spec.vals, nil)
	}
	for len(spec.idel) < ni {
		spec.idel = append(spec.idel, nil)
	}
	for len(spec.odel) < no {
		spec.odel = append(spec.odel, nil)
	}
	for len(spec.ihold) < ni {
		spec.ihold = append(spec.ihold, nil)
	}
	for len(spec.orel) < no {
		spec.orel = append(spec.orel, nil)
	}
	e := &envState{spec: spec}
	e.iidx, e.iph, e.icnt = make([]int, ni), make([]int, ni), make([]int, ni)
	e.oidx, e.oph, e.ocnt = make([]int, no), make([]int, no), make([]int, no)
	e.drive = stim{in: make([]uint64, ni), iv: make([]bool, ni), or: make([]bool, no)}
	e.streams = make([][]uint64, no)
	for k := 0; k < ni; k++ {
		if len(spec.idel[k]) > 0 {
			e.icnt[k] = spec.idel[k][0]
		}
	}
	return e
}

// step: observe the machine (external output values/valid, external input received), move, drive
func (e *envState) step(outv []uint64, ov []bool, ir []bool) {
	for k := range e.iph {
		switch e.iph[k] {
		case 0:
			if len(e.spec.vals[k]) == 0 {
				break
			}
			if e.icnt[k] > 0 {
				e.icnt[k]--
			} else {
				e.drive.in[k] = e.spec.vals[k][e.iidx[k]%len(e.spec.vals[k])]
				e.drive.iv[k] = true
				e.iph[k] = 1
			}
		case 1:
			if ir[k] {
				h := 0 // slow release: valid is held h more ticks after received rose
				if n := len(e.spec.ihold[k]); n > 0 {
					h = e.spec.ihold[k][e.iidx[k]%n]
				}
				if h == 0 {
					e.drive.iv[k] = false
					e.iph[k] = 2
				} else {
					e.icnt[k] = h - 1
					e.iph[k] = 3
				}
			}
		case 3:
			if e.icnt[k] > 0 {
				e.icnt[k]--
			} else {
				e.drive.iv[k] = false
				e.iph[k] = 2
			}
		case 2:
			if !ir[k] {
				e.iidx[k]++
				e.icnt[k] = 0
				if n := len(e.spec.idel[k]); n > 0 {
					e.icnt[k] = e.spec.idel[k][e.iidx[k]%n]
				}
				e.iph[k] = 0
			}
		}
	}
	for k := range e.oph {
		switch e.oph[k] {
		case 0:
			if ov[k] {
				e.ocnt[k] = 0
				if n := len(e.spec.odel[k]); n > 0 {
					e.ocnt[k] = e.spec.odel[k][e.oidx[k]%n]
				}
				e.oph[k] = 1
			}
		case 1:
			if e.ocnt[k] > 0 {
				e.ocnt[k]--
			} else {
				e.drive.or[k] = true
				e.streams[k] = append(e.streams[k], outv[k])
				e.oidx[k]++
				e.oph[k] = 2
			}
		case 2:
			if !ov[k] {
				h := 0 // slow release: received is held h more ticks after valid fell
				if n := len(e.spec.orel[k]); n > 0 {
					h = e.spec.orel[k][(e.oidx[k]-1)%n]
				}
				if h == 0 {
					e.drive.or[k] = false
					e.oph[k] = 0
				} else {
					e.ocnt[k] = h - 1
					e.oph[k] = 3
				}
			}
		case 3:
			if e.ocnt[k] > 0 {
				e.ocnt[k]--
			} else {
				e.drive.or[k] = false
				e.oph[k] = 0
			}
		}
	}
}

func envLine(s *envSpec) string {
	vs := make([]string, len(s.vals))
	for i, v := range s.vals {
		vs[i] = joinN(v)
	}
	id := make([]string, len(s.idel))
	for i, v := range s.idel {
		id[i] = joinI(v)
	}
	od := make([]string, len(s.odel))
	for i, v := range s.odel {
		od[i] = joinI(v)
	}
	ih := make([]string, len(s.ihold))
	for i, v := range s.ihold {
		ih[i] = joinI(v)
	}
	or := make([]string, len(s.orel))
	for i, v := range s.orel {
		or[i] = joinI(v)
	}
	return fmt.Sprintf("E vals=%s idel=%s odel=%s ihold=%s orel=%s clocks=%d", strings.Join(vs, ";"), strings.Join(id, ";"),
		strings.Join(od, ";"), strings.Join(ih, ";"), strings.Join(or, ";"), s.clocks)
}

func runCase(r *common.Rng, c *caseSpec, mode string) {
	res := common.Guard(func() string {
		bm, _, err := build(c)
		if err != nil {
			return "G err " + err.Error()
		}
		out.Line("%s", graphLine(bm))
		out.Line("%s", c.opt.line())
		out.Line("DM %d", len(bm.Domains))
		for _, e := range c.edits {
			out.Line("%s", editLine(c, e))
		}
		for p, ps := range c.procs {
			out.Line("%s", ps.arch.line(p))
			for _, l := range ps.src {
				out.Line("S %d %s", p, l)
			}
			if p < len(bm.Processors) {
				out.Line("P %d %s", p, strings.Join(bm.Domains[bm.Processors[p]].Program.Slocs, " "))
			}
		}
		if mode == "net" {
			files, _ := fileSet(bm, false, c)
			d, err := vlog.ParseFiles(files)
			if err != nil {
				out.Line("NV err %s", strings.ReplaceAll(err.Error(), "\n", " "))
				return ""
			}
			emitNetlist(d)
			return ""
		}
		if mode == "hdl" {
			emitHDL(bm, c)
		}
		if !c.env.noise && c.stims == nil {
			out.Line("%s", envLine(&c.env))
		}
		vm := new(bondmachine.VM)
		vm.Bmach = bm
		if err := vm.Init(); err != nil {
			return "T err"
		}
		if err := vm.Launch_processors(new(simbox.Simbox)); err != nil {
			return "T err"
		}
		defer vm.Shutdown()
		out.Line("T")
		env := newEnv(&c.env, bm.Inputs, bm.Outputs)
		n := c.ticks
		if c.stims != nil {
			n = len(c.stims)
		}
		mask := ^uint64(0)
		if c.rsize < 64 {
			mask = (uint64(1) << uint(c.rsize)) - 1
		}
		cur := stim{in: make([]uint64, bm.Inputs), iv: make([]bool, bm.Inputs), or: make([]bool, bm.Outputs)}
		for t := 0; t < n; t++ {
			switch {
			case c.stims != nil:
				cur = c.stims[t]
			case c.env.noise:
				for i := range cur.in {
					if r.Chance(1, 2) {
						cur.in[i] = r.Next() & mask & 0x3f
					}
					if r.Chance(1, 3) {
						cur.iv[i] = !cur.iv[i]
					}
				}
				for i := range cur.or {
					if r.Chance(1, 3) {
						cur.or[i] = !cur.or[i]
					}
				}
			default:
				ov := make([]uint64, bm.Outputs)
				for i := range ov {
					ov[i] = untyped(vm.Outputs_regs[i])
				}
				env.step(ov, vm.OutputsValid, vm.InputsRecv)
				cur = env.drive
			}
			if mode != "dly" {
				out.Line("%s", cur.line())
			}
			for i := 0; i < bm.Inputs && i < len(cur.in); i++ {
				vm.Inputs_regs[i] = typed(c.rsize, cur.in[i])
				vm.InputsValid[i] = cur.iv[i]
			}
			for i := 0; i < bm.Outputs && i < len(cur.or); i++ {
				vm.OutputsRecv[i] = cur.or[i]
			}
			if _, err := vm.Step(nil); err != nil {
				out.Line("X err")
				break
			}
			if mode != "dly" {
				out.Line("%s", dumpVM(vm))
			}
		}
		if !c.env.noise && c.stims == nil {
			ss := make([]string, len(env.streams))
			for i, s := range env.streams {
				ss[i] = joinN(s)
			}
			out.Line("SS %s", strings.Join(ss, ";"))
		}
		if (mode == "hdl" || mode == "dly") && !c.env.noise && c.stims == nil {
			for _, set := range c.delays {
				runDelayed(c, set, bm, n)
			}
		}
		return ""
	})
	if res != "" {
		out.Line("%s", strings.ReplaceAll(res, "\n", " "))
	}
	out.Line("Z")
	out.Flush()
}

// runDelayed: the same machine and environment on a second bondmachine.VM whose processors idle
// after the opcodes named in c.delays (VM.SimDelayMap, what -sim-delays-file sets); 4 x the ticks
// since it is slower.  Prints  DL op:d,...  and  SD <streams>  (no per-tick dump: the models
// have no DelayCounter; only the delivered streams are compared).
func runDelayed(c *caseSpec, set []opDelay, bm *bondmachine.Bondmachine, ticks int) {
	parts := make([]string, len(set))
	sd := simbox.NewSimDelays()
	for i, d := range set {
		parts[i] = d.op + ":" + strconv.Itoa(d.d)
		sd.OpcodeDelays[d.op] = simbox.DelayDistribution{int32(d.d): 1.0}
	}
	out.Line("DL %s", strings.Join(parts, ","))
	vm := new(bondmachine.VM)
	vm.Bmach = bm
	vm.SimDelayMap = sd
	if err := vm.Init(); err != nil {
		out.Line("SD err")
		return
	}
	if err := vm.Launch_processors(new(simbox.Simbox)); err != nil {
		out.Line("SD err")
		return
	}
	defer vm.Shutdown()
	env := newEnv(&c.env, bm.Inputs, bm.Outputs)
	for t := 0; t < 4*ticks; t++ {
		ov := make([]uint64, bm.Outputs)
		for i := range ov {
			ov[i] = untyped(vm.Outputs_regs[i])
		}
		env.step(ov, vm.OutputsValid, vm.InputsRecv)
		cur := env.drive
		for i := 0; i < bm.Inputs && i < len(cur.in); i++ {
			vm.Inputs_regs[i] = typed(c.rsize, cur.in[i])
			vm.InputsValid[i] = cur.iv[i]
		}
		for i := 0; i < bm.Outputs && i < len(cur.or); i++ {
			vm.OutputsRecv[i] = cur.or[i]
		}
		if _, err := vm.Step(nil); err != nil {
			out.Line("SD err")
			return
		}
	}
	ss := make([]string, len(env.streams))
	for i, s := range env.streams {
		ss[i] = joinN(s)
	}
	out.Line("SD %s", strings.Join(ss, ";"))
}

// ---------------------------------------------------------------------------------- replay

func atoi(s string) int { v, _ := strconv.Atoi(s); return v }

func parseIntLists(s string) [][]int {
	var res [][]int
	if s == "" {
		return res
	}
	for _, part := range strings.Split(s, ";") {
		var l []int
		for _, x := range parseList(part) {
			l = append(l, atoi(x))
		}
		res = append(res, l)
	}
	return res
}

func parseU64Lists(s string) [][]uint64 {
	var res [][]uint64
	if s == "" {
		return res
	}
	for _, part := range strings.Split(s, ";") {
		var l []uint64
		for _, x := range parseList(part) {
			v, _ := strconv.ParseUint(x, 10, 64)
			l = append(l, v)
		}
		res = append(res, l)
	}
	return res
}

// replay file: the G line (rsize only is read), D lines (edits), A / S lines (processors), E line
// or V lines, optional "K <ticks>"
func replay(path string, mode string) {
	f, err := os.Open(path)
	if err != nil {
		fmt.Fprintln(os.Stderr, err)
		os.Exit(2)
	}
	sc := bufio.NewScanner(f)
	sc.Buffer(make([]byte, 1<<24), 1<<24)
	var c *caseSpec
	flush := func() {
		if c != nil {
			if c.stims == nil && !c.hasE && mode != "net" {
				c.env.noise = true
			}
			runCase(common.NewRng(common.Seed()), c, mode)
		}
		c = nil
	}
	for sc.Scan() {
		l := sc.Text()
		fs := strings.Fields(l)
		if len(fs) == 0 {
			continue
		}
		switch fs[0] {
		case "G":
			flush()
			c = &caseSpec{rsize: atoi(fs[1]), ticks: 200}
		case "D":
			if c == nil {
				continue
			}
			switch fs[1] {
			case "ap":
				p := atoi(fs[2])
				c.edits = append(c.edits, edit{kind: "ap", p: p})
				if len(fs) > 3 { // processor p instantiates domain fs[3]
					for len(c.dom) <= p {
						c.dom = append(c.dom, len(c.dom))
					}
					c.dom[p] = atoi(fs[3])
				}
			case "ab":
				c.edits = append(c.edits, edit{kind: "ab", a: fs[2], b: fs[3]})
			default:
				c.edits = append(c.edits, edit{kind: fs[1]})
			}
		case "A":
			if c == nil {
				continue
			}
			p := atoi(fs[1])
			for len(c.procs) <= p {
				c.procs = append(c.procs, procSpec{})
			}
			a := archSpec{rsize: atoi(fs[2]), r: atoi(fs[3]), n: atoi(fs[4]), m: atoi(fs[5]), l: atoi(fs[6]), o: atoi(fs[7]), mode: fs[8], wordSize: atoi(fs[9])}
			if opl := strings.TrimPrefix(fs[10], "ops="); opl != "" {
				a.ops = strings.Split(opl, ",")
			}
			c.procs[p].arch = a
		case "S":
			if c == nil {
				continue
			}
			p := atoi(fs[1])
			c.procs[p].src = append(c.procs[p].src, strings.Join(fs[2:], " "))
		case "E":
			if c == nil {
				continue
			}
			c.hasE = true
			for _, kv := range fs[1:] {
				x := strings.SplitN(kv, "=", 2)
				switch x[0] {
				case "vals":
					c.env.vals = parseU64Lists(x[1])
				case "idel":
					c.env.idel = parseIntLists(x[1])
				case "odel":
					c.env.odel = parseIntLists(x[1])
				case "ihold":
					c.env.ihold = parseIntLists(x[1])
				case "orel":
					c.env.orel = parseIntLists(x[1])
				case "clocks":
					c.env.clocks = atoi(x[1])
				}
			}
		case "K":
			if c != nil {
				c.ticks = atoi(fs[1])
			}
		case "DM":
			if c != nil {
				c.ndoms = atoi(fs[1])
			}
		case "O":
			if c != nil {
				for _, kv := range fs[1:] {
					switch kv {
					case "commented=1":
						c.opt.commented = true
					case "onlydestregs=1":
						c.opt.onlyDest = true
					}
				}
			}
		case "DL":
			if c != nil && len(fs) > 1 {
				var set []opDelay
				for _, kv := range strings.Split(fs[1], ",") {
					x := strings.SplitN(kv, ":", 2)
					if len(x) == 2 {
						set = append(set, opDelay{x[0], atoi(x[1])})
					}
				}
				c.delays = append(c.delays, set)
			}
		case "V":
			if c != nil {
				c.stims = append(c.stims, parseStim(l))
			}
		}
	}
	flush()
}

// netx: every machine shape with 1..2 processors of 0..2 inputs/outputs and 0..1 external
// inputs/outputs, with every assignment sink -> (no driver | any driver); shapes with more than
// `limit` assignments are sampled
func netExhaustive(r *common.Rng, limit int) {
	nx := 0
	type pp struct{ n, m int }
	var shapes [][]pp
	for n0 := 0; n0 <= 2; n0++ {
		for m0 := 0; m0 <= 2; m0++ {
			shapes = append(shapes, []pp{{n0, m0}})
			for n1 := 0; n1 <= 2; n1++ {
				for m1 := 0; m1 <= 2; m1++ {
					shapes = append(shapes, []pp{{n0, m0}, {n1, m1}})
				}
			}
		}
	}
	for _, sh := range shapes {
		for ni := 0; ni <= 1; ni++ {
			for no := 0; no <= 1; no++ {
				var sinks, drvs []string
				c0 := &caseSpec{rsize: 8}
				for i := 0; i < ni; i++ {
					c0.edits = append(c0.edits, edit{kind: "ai"})
					drvs = append(drvs, "i"+strconv.Itoa(i))
				}
				for i := 0; i < no; i++ {
					c0.edits = append(c0.edits, edit{kind: "ao"})
					sinks = append(sinks, "o"+strconv.Itoa(i))
				}
				for p, x := range sh {
					ops := []string{"j", "nop"}
					if x.n > 0 {
						ops = append(ops, "i2rw")
					}
					if x.m > 0 {
						ops = append(ops, "r2owa")
					}
					sort.Strings(ops)
					c0.procs = append(c0.procs, procSpec{arch: archSpec{rsize: 8, r: 1, n: x.n, m: x.m, o: 2, mode: "ha", ops: ops}, src: []string{"j 0"}})
					c0.edits = append(c0.edits, edit{kind: "ap", p: p})
					for j := 0; j < x.n; j++ {
						sinks = append(sinks, fmt.Sprintf("p%di%d", p, j))
					}
					for j := 0; j < x.m; j++ {
						drvs = append(drvs, fmt.Sprintf("p%do%d", p, j))
					}
				}
				total := 1
				for range sinks {
					total *= len(drvs) + 1
					if total > 1<<30 {
						break
					}
				}
				emit := func(choice []int) {
					c := &caseSpec{rsize: 8, procs: c0.procs}
					nx++
					c.opt.commented = nx%2 == 0
					if len(sh) == 2 {
						switch {
						case sh[0] == sh[1] && nx%3 == 0: // one domain, two instances
							c.dom, c.ndoms = []int{0, 0}, 1
						case nx%3 == 1: // domains in the other order, one unused domain in front
							c.dom, c.ndoms = []int{2, 1}, 3
						}
					}
					c.edits = append(c.edits, c0.edits...)
					for i, ch := range choice {
						if ch > 0 {
							c.edits = append(c.edits, edit{kind: "ab", a: sinks[i], b: drvs[ch-1]})
						}
					}
					runCase(r, c, "net")
				}
				choice := make([]int, len(sinks))
				if total <= limit {
					for k := 0; k < total; k++ {
						x := k
						for i := range choice {
							choice[i] = x % (len(drvs) + 1)
							x /= len(drvs) + 1
						}
						emit(choice)
					}
				} else {
					for k := 0; k < limit; k++ {
						for i := range choice {
							choice[i] = r.Intn(len(drvs) + 1)
						}
						emit(choice)
					}
				}
			}
		}
	}
}

func main() {
	if len(os.Args) < 3 {
		fmt.Fprintln(os.Stderr, "usage: c02 net|sim|hdl <graphs> [<ticks>] | c02 replaynet|replaysim|replayhdl <file> | c02 show <graphs>")
		os.Exit(2)
	}
	mode := os.Args[1]
	if strings.HasPrefix(mode, "replay") {
		replay(os.Args[2], strings.TrimPrefix(mode, "replay"))
		out.Flush()
		return
	}
	n := atoi(os.Args[2])
	ticks := 200
	if len(os.Args) > 3 {
		ticks = atoi(os.Args[3])
	}
	r := common.NewRng(common.Seed())
	if mode == "netx" {
		if n <= 0 {
			n = 400
		}
		netExhaustive(r, n)
		out.Flush()
		return
	}
	for i := 0; i < n; i++ {
		c := genCase(r, ticks, mode == "net")
		switch mode {
		case "show": // debugging aid: the emitted top level as text
			bm, _, err := build(c)
			if err != nil {
				fmt.Println("build:", err)
				continue
			}
			fmt.Println(graphLine(bm))
			for p, ps := range c.procs {
				fmt.Println(ps.arch.line(p))
				for _, l := range ps.src {
					fmt.Println("S", p, l)
				}
			}
			files, _ := fileSet(bm, false, c)
			fmt.Println(files["bondmachine.v"])
		case "sim":
			c.env.noise = r.Chance(1, 3)
			runCase(r, c, mode)
		case "dly": // simulator with opcode latencies against the simulator without (no HDL, no dump)
			if len(c.delays) < 3 {
				c.delays = append(c.delays, genDelaySets(r, true)...)
			}
			runCase(r, c, mode)
		default:
			runCase(r, c, mode)
		}
	}
	out.Flush()
}
