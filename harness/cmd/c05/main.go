// C05 harness: runs the real BASM front-end (pkg/basm, in-process, the same call sequence as
// cmd/basm/main.go) on generated sources, dumps the machine it emits and simulates every
// processor of it with the real procbuilder.VM.
//
//	MODE entryjump=<0|1>                  which `entry` behaviour the tree has (probed, see basmdump.ProbeEntryJump)
//	CASE <n> <kind> mustfail=<0|1>
//	S <source line>                       the text given to the tool (one S line per text line)
//	R ok | R err <class>                  the tool's result (class: see basmdump.ErrClass)
//	M/C/W/D/II/IO/LK/E                    the emitted machine (canonical text, see basmdump)
//	SIM <cp>  T  (V …  X …)*              per processor: stimuli and state after every VM.Step
//	BSIM  BT  (BV …  BX …  X … X …)*      machines with 2+ processors: the whole machine under bondmachine.VM
//	END
//
// Usage: c05 gen <cases> <steps> | c05 replay <file with S/SIM/V lines> | c05 one <file.basm>
package main

import (
	"bufio"
	"fmt"
	"os"
	"strconv"
	"strings"

	"bmvh/basmdump"
	"bmvh/common"
)

var out = basmdump.Protocol()

func runCase(r *common.Rng, id int, c basmdump.Case, steps int, stims map[int][]basmdump.Stim) {
	mf := 0
	if c.MustFail {
		mf = 1
	}
	out.Line("CASE %d %s mustfail=%d", id, c.Kind, mf)
	for _, l := range strings.Split(strings.TrimRight(c.Text, "\n"), "\n") {
		out.Line("S %s", l)
	}
	bm, _, err := basmdump.Assemble(c.Text, basmdump.Options{DisableDynamic: true})
	if err != nil {
		out.Line("R err %s", basmdump.ErrClass(err))
		out.Line("END")
		out.Flush()
		return
	}
	out.Line("R ok")
	for _, l := range basmdump.Dump(bm) {
		out.Line("%s", l)
	}
	if len(bm.Shared_objects) > 0 {
		// shared objects are outside the reference interpreter (and their Go simulation blocks on channels): structure only
		out.Line("END")
		out.Flush()
		return
	}
	for i := range bm.Domains {
		var st []basmdump.Stim
		if stims != nil {
			st = stims[i]
			if st == nil {
				continue
			}
		}
		out.Line("SIM %d", i)
		for _, l := range basmdump.SimCP(r, bm, i, steps, st) {
			out.Line("%s", l)
		}
	}
	hasData := false
	for _, d := range bm.Domains {
		if len(d.Data.Vars) > 0 {
			hasData = true
		}
		for _, op := range d.Op {
			if op.Op_get_name() == "div" {
				// `div` by zero panics in Div.Simulate; inside a goroutine of bondmachine.VM nothing can recover it (the
				// per-processor simulation above is guarded): such machines are compared processor by processor only
				hasData = true
			}
		}
	}
	// machines with data sections: the reference has no whole-machine interpreter for them (each processor is compared on
	// its own above), and a wrong address makes bondmachine.VM panic inside a goroutine, which nothing can recover
	if len(bm.Domains) >= 2 && !hasData && (stims == nil || stims[-1] != nil) {
		// the whole machine: all processors, the bonds between them, the external ports
		var st []basmdump.Stim
		if stims != nil {
			st = stims[-1]
		}
		out.Line("BSIM")
		for _, l := range basmdump.SimBM(r, bm, steps, st) {
			out.Line("%s", l)
		}
	}
	out.Line("END")
	out.Flush()
}

func main() {
	defer out.Flush()
	if len(os.Args) < 2 {
		fmt.Fprintln(os.Stderr, "usage: c05 gen <cases> <steps> | replay <file> | one <file.basm>")
		os.Exit(2)
	}
	ej := 0
	if basmdump.ProbeEntryJump() {
		ej = 1
	}
	out.Line("MODE entryjump=%d", ej)
	switch os.Args[1] {
	case "gen":
		n, _ := strconv.Atoi(os.Args[2])
		steps, _ := strconv.Atoi(os.Args[3])
		r := common.NewRng(common.Seed())
		for i := 0; i < n; i++ {
			if i%12 == 11 {
				// outside the model (ROM+RAM code, data sections): only "no panic, unfit rejected" is judged here; C16 validates them
				runCase(r, i, basmdump.GenExtCase(r), steps, nil)
				continue
			}
			if i%6 == 2 {
				// data sections (numbers and quoted strings, one code section shared by processors with different data):
				// outside the model assembler, but the meaning is compared (data cells + per-tick simulation)
				runCase(r, i, basmdump.GenDataCase(r), steps, nil)
				continue
			}
			runCase(r, i, basmdump.GenCase(r), steps, nil)
		}
	case "replay":
		f, err := os.Open(os.Args[2])
		if err != nil {
			fmt.Fprintln(os.Stderr, err)
			os.Exit(2)
		}
		sc := bufio.NewScanner(f)
		sc.Buffer(make([]byte, 1<<22), 1<<22)
		var src []string
		stims := map[int][]basmdump.Stim{}
		cur := -1
		kind := "replay"
		for sc.Scan() {
			l := sc.Text()
			switch {
			case strings.HasPrefix(l, "CASE "):
				if f := strings.Fields(l); len(f) > 2 {
					kind = f[2]
				}
			case strings.HasPrefix(l, "S ") || l == "S":
				src = append(src, strings.TrimPrefix(strings.TrimPrefix(l, "S"), " "))
			case l == "BSIM":
				cur = -1
				stims[-1] = []basmdump.Stim{}
			case strings.HasPrefix(l, "BV "):
				if cur == -1 {
					stims[-1] = append(stims[-1], basmdump.ParseStim(l[1:]))
				}
			case strings.HasPrefix(l, "SIM "):
				cur, _ = strconv.Atoi(strings.Fields(l)[1])
				stims[cur] = []basmdump.Stim{}
			case strings.HasPrefix(l, "V "):
				if cur >= 0 {
					stims[cur] = append(stims[cur], basmdump.ParseStim(l))
				}
			}
		}
		c := basmdump.Case{Kind: kind, Text: strings.Join(src, "\n") + "\n", MustFail: strings.HasPrefix(kind, "unfit:")}
		steps := 0
		var st map[int][]basmdump.Stim
		if len(stims) > 0 {
			st = stims
		} else {
			steps = 40
		}
		runCase(common.NewRng(common.Seed()), 0, c, steps, st)
	case "one":
		b, _ := os.ReadFile(os.Args[2])
		bm, stage, err := basmdump.Assemble(string(b), basmdump.Options{DisableDynamic: true})
		if err != nil {
			out.Line("ERR %s %s %v", stage, basmdump.ErrClass(err), err)
			return
		}
		for _, l := range basmdump.Dump(bm) {
			out.Line("%s", l)
		}
	}
}
