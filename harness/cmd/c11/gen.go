package main

// Case construction for C11.  Everything is derived from one PRNG seeded by VERIF_SEED.
//
//	fixed   : one machine holding every static opcode; one bondmachine holding one shared object of every kind
//	rand    : random procbuilder.Machine / bondmachine.Bondmachine built through the same API the tools use
//	          (EventuallyCreateInstruction + lookup in Allopcodes, Add_processor, Add_input/output, Add_bond,
//	          Add_shared_objects, Connect_processor_shared_object), transient fields filled with garbage
//	basm    : small BASM programs through the basm package (front-end path)
//	raw     : hand-made *_json values (the malformed stream): unknown opcode names, descriptions no kind accepts

import (
	"encoding/json"
	"fmt"
	"os"
	"path/filepath"
	"strconv"
	"strings"

	"bmvh/common"

	"github.com/BondMachineHQ/BondMachine/pkg/basm"
	"github.com/BondMachineHQ/BondMachine/pkg/bmconfig"
	"github.com/BondMachineHQ/BondMachine/pkg/bminfo"
	"github.com/BondMachineHQ/BondMachine/pkg/bondmachine"
	"github.com/BondMachineHQ/BondMachine/pkg/procbuilder"
)

type genCase struct {
	kind      string // bm | mach
	tag       string
	raw       bool
	forceVlog bool
	bm        *bondmachine.Bondmachine
	m         *procbuilder.Machine
	bmj       *bondmachine.Bondmachine_json
	mj        *procbuilder.Machine_json
}

// opByName is what cmd/procbuilder does for every requested opcode name
func opByName(name string) (procbuilder.Opcode, string) {
	if _, err := procbuilder.EventuallyCreateInstruction(name); err != nil {
		return nil, "createerr"
	}
	var found procbuilder.Opcode
	for _, op := range procbuilder.Allopcodes {
		if op.Op_get_name() == name {
			found = op
		}
	}
	if found == nil {
		return nil, "unknown"
	}
	return found, ""
}

var letters = "abcxyzQ_"

func word(r *common.Rng, n int) string {
	b := make([]byte, 1+r.Intn(n))
	for i := range b {
		b[i] = letters[r.Intn(len(letters))]
	}
	return string(b)
}

func lettersOnly(r *common.Rng, n int) string {
	const l = "ghknuvw"
	b := make([]byte, 1+r.Intn(n))
	for i := range b {
		b[i] = l[r.Intn(len(l))]
	}
	return string(b)
}

// dynName: a name of one of the dynamic families (mostly well formed, sometimes with letters around it,
// which the unanchored matchers accept too)
func dynName(r *common.Rng) string {
	num := func() string {
		switch r.Intn(6) {
		case 0:
			return "0" + strconv.Itoa(r.Intn(9)) // leading zero: the name is kept verbatim
		case 1:
			return strconv.Itoa(r.Intn(70))
		default:
			return strconv.Itoa(1 + r.Intn(16))
		}
	}
	var s string
	switch r.Intn(16) {
	case 0, 1, 2:
		s = "rsets" + num()
	case 3:
		s = []string{"callo", "calla", "ret"}[r.Intn(3)] + num() + word(r, 4)
	case 4:
		s = []string{"push", "pull"}[r.Intn(2)] + num() + word(r, 4)
	case 5, 6:
		s = []string{"multfps", "addfps", "divfps"}[r.Intn(3)] + num() + "f" + num()
	case 7, 8:
		s = []string{"multfxps", "addfxps", "divfxps"}[r.Intn(3)] + num() + "f" + num()
	case 9, 10, 11:
		s = []string{"multlqs", "addlqs", "divlqs"}[r.Intn(3)] + num() + "t" + strconv.Itoa(r.Intn(3))
	case 12:
		s = []string{"multlqs", "addlqs", "divlqs"}[r.Intn(3)] + num() + "t" + strconv.Itoa(3+r.Intn(5)) // no such range
	case 13:
		s = []string{"multflpe", "addflpe", "divflpe"}[r.Intn(3)] + num() + "f" + num() // needs the flopoco program
	case 14:
		s = "rsets" + num()
	default:
		s = "push" + num() + word(r, 3)
	}
	if r.Chance(1, 10) {
		s = lettersOnly(r, 3) + s
	}
	if r.Chance(1, 10) && !strings.Contains(s, "call") && !strings.Contains(s, "ret") && !strings.Contains(s, "pu") {
		s = s + lettersOnly(r, 3)
	}
	return s
}

var soSamples = []func(r *common.Rng) string{
	func(r *common.Rng) string { return "sharedmem:" + strconv.Itoa(r.Intn(12)) },
	func(r *common.Rng) string { return "channel:" },
	func(r *common.Rng) string { return "barrier:" + strconv.Itoa(r.Intn(300)) },
	func(r *common.Rng) string { return "lfsr8:" + strconv.Itoa(r.Intn(256)) },
	func(r *common.Rng) string {
		s := "vtextmem"
		for k := 0; k <= r.Intn(3); k++ {
			s += fmt.Sprintf(":%d:%d:%d:%d:%d", r.Intn(4), r.Intn(80), r.Intn(25), 1+r.Intn(40), 1+r.Intn(12))
		}
		return s
	},
	func(r *common.Rng) string { return "queue:" + strconv.Itoa(1+r.Intn(64)) },
	func(r *common.Rng) string { return "stack:" + strconv.Itoa(1+r.Intn(64)) },
	func(r *common.Rng) string { return fmt.Sprintf("uart:%d:%d", 9600*(1+r.Intn(12)), 1+r.Intn(32)) },
	func(r *common.Rng) string { return "kbd:" + strconv.Itoa(1+r.Intn(32)) },
}

// odd but accepted (or rejected) descriptions, as a user could type them after -add-shared-objects
var soOdd = []string{"channel:foo", "kbd:x", "kbd:", "uart:a:b", "uart:115200:", "lfsr8:300", "lfsr8:-1", "barrier:+7",
	"barrier:-5", "queue:-2", "stack:007", "sharedmem:0", "vtextmem:0:1:2:3:4:5:6:7:8:9", "vtextmem:-1:0:0:1:1",
	// rejected by every kind: never enters the machine
	"vtextmem:", "vtextmem", "vtextmem:1:2:3", "queue:", "queue:x", "stack:1:2", "kbd:1:2", "uart:1", "barrier", "nosuch:3",
	"sharedmem:1e3", "lfsr8:"}

func randSO(r *common.Rng) string {
	if r.Chance(1, 5) {
		return soOdd[r.Intn(len(soOdd))]
	}
	return soSamples[r.Intn(len(soSamples))](r)
}

func bits(r *common.Rng, n int) string {
	b := make([]byte, n)
	for i := range b {
		b[i] = '0' + byte(r.Intn(2))
	}
	return string(b)
}

var oddStrings = []string{"", " ", "a b", "x,y", "q\"uote", "<&>", "tab\there", "é", "日本", "nl\nx", "100%", "k=v;w|z"}

func randString(r *common.Rng) string {
	if r.Chance(1, 4) {
		return oddStrings[r.Intn(len(oddStrings))]
	}
	return word(r, 8)
}

// randMachine builds a machine the way cmd/procbuilder does (opcode names -> registry lookups)
func randMachine(r *common.Rng, names []string) (*procbuilder.Machine, []string) {
	m := new(procbuilder.Machine)
	notes := []string{}
	m.Rsize = []uint8{8, 8, 16, 32, 4, 64}[r.Intn(6)]
	m.R = uint8(1 + r.Intn(4))
	m.N = uint8(r.Intn(4))
	m.M = uint8(r.Intn(4))
	m.L = uint8(r.Intn(5))
	m.O = uint8(1 + r.Intn(6))
	m.WordSize = []uint8{0, 0, 0, 32, 64, 16}[r.Intn(6)]
	m.Threaded = []int{0, 0, 0, 1, 2, 4}[r.Intn(6)]
	switch r.Intn(30) {
	case 0: // nil Modes
	case 1:
		m.Modes = []string{}
	case 2:
		m.Modes = []string{"ha", "vn"}
	default:
		m.Modes = []string{"ha"}
	}
	if r.Chance(2, 3) {
		sc := []string{}
		for k := 0; k < r.Intn(3); k++ {
			sc = append(sc, soSamples[r.Intn(len(soSamples))](r))
		}
		m.Shared_constraints = strings.Join(sc, ",")
	} else if r.Chance(1, 3) {
		m.Shared_constraints = randString(r)
	}
	// transient fields: garbage on purpose (Write_verilog must overwrite them before use)
	m.CpID = uint32(r.Intn(1 << 16))
	m.Tag = word(r, 5)
	m.SharedHDLOps = word(r, 5)
	for _, n := range names {
		op, why := opByName(n)
		if op == nil {
			notes = append(notes, why+":"+n)
			continue
		}
		m.Op = append(m.Op, op)
	}
	// program and data
	w := 8
	func() {
		defer func() { recover() }()
		w = m.Max_word()
	}()
	if w <= 0 || w > 200 {
		w = 8
	}
	nl := r.Intn(6)
	for k := 0; k < nl; k++ {
		if r.Chance(1, 8) {
			m.Slocs = append(m.Slocs, randString(r))
		} else {
			m.Slocs = append(m.Slocs, bits(r, w))
		}
	}
	if r.Chance(1, 6) {
		m.Slocs = []string{}
	}
	for k := 0; k < r.Intn(3); k++ {
		m.Vars = append(m.Vars, randString(r))
	}
	return m, notes
}

func randOpNames(r *common.Rng) []string {
	names := []string{}
	ns := 1 + r.Intn(10)
	for k := 0; k < ns; k++ {
		names = append(names, statics[r.Intn(len(statics))])
	}
	nd := r.Intn(4)
	for k := 0; k < nd; k++ {
		names = append(names, dynName(r))
	}
	// shuffle lightly, drop duplicates (a processor lists an opcode once)
	seen := map[string]bool{}
	outn := []string{}
	for _, n := range names {
		if !seen[n] {
			seen[n] = true
			outn = append(outn, n)
		}
	}
	for i := len(outn) - 1; i > 0; i-- {
		if r.Chance(1, 2) {
			j := r.Intn(i + 1)
			outn[i], outn[j] = outn[j], outn[i]
		}
	}
	return outn
}

func randBM(r *common.Rng) (*bondmachine.Bondmachine, string) {
	bm := new(bondmachine.Bondmachine)
	bm.Rsize = []uint8{8, 16, 32, 64, 16, 32}[r.Intn(6)]
	bm.Init() // cmd/bondmachine and basm call Init on every machine they create
	nd := 1 + r.Intn(3)
	for d := 0; d < nd; d++ {
		m, _ := randMachine(r, randOpNames(r))
		m.Rsize = bm.Rsize
		bm.Domains = append(bm.Domains, m)
	}
	np := r.Intn(4)
	if r.Chance(9, 10) && np == 0 {
		np = 1
	}
	for p := 0; p < np; p++ {
		bm.Add_processor(r.Intn(nd))
	}
	for k := r.Intn(3); k > 0; k-- {
		bm.Add_input()
	}
	for k := r.Intn(3); k > 0; k-- {
		bm.Add_output()
	}
	// bonds: sink names from Internal_inputs, source names from Internal_outputs (+ some stale names)
	for k := r.Intn(6); k > 0; k-- {
		if len(bm.Internal_inputs) == 0 || len(bm.Internal_outputs) == 0 {
			break
		}
		a := bm.Internal_inputs[r.Intn(len(bm.Internal_inputs))].String()
		b := bm.Internal_outputs[r.Intn(len(bm.Internal_outputs))].String()
		if r.Chance(1, 8) {
			b = "p9o9"
		}
		if r.Chance(1, 2) {
			a, b = b, a
		}
		bm.Add_bond([]string{a, b})
	}
	if r.Chance(1, 5) && len(bm.Links) > 0 {
		bm.Del_bond(r.Intn(len(bm.Links)))
	}
	nso := r.Intn(5)
	sos := []string{}
	for k := 0; k < nso; k++ {
		sos = append(sos, randSO(r))
	}
	bm.Add_shared_objects(sos)
	for k := r.Intn(8); k > 0; k-- {
		if len(bm.Shared_objects) == 0 || len(bm.Processors) == 0 {
			break
		}
		bm.Connect_processor_shared_object([]string{strconv.Itoa(r.Intn(len(bm.Processors))), strconv.Itoa(r.Intn(len(bm.Shared_objects)))})
	}
	return bm, fmt.Sprintf("rand:d%d:p%d:so%d", nd, np, len(bm.Shared_objects))
}

// ---- BASM front-end ------------------------------------------------------------------------------

var basmProgs = []struct{ name, src string }{
	{"passthru", `%section code1 .romtext iomode:sync
  entry _start
_start:
  mov r0, i0
  inc r0
  mov o0, r0
  j _start
%endsection

%meta cpdef cpu romcode: code1, execmode: ha
%meta ioatt testio1 cp: cpu, type:input, index:0
%meta ioatt testio1 cp: bm, type:input, index:0
%meta ioatt testio2 cp: cpu, type:output, index:0
%meta ioatt testio2 cp: bm, type:output, index:0
%meta bmdef global registersize:8
`},
	{"twocp", `%section prod .romtext iomode:async
  entry _start
_start:
  clr r0
loop:
  inc r0
  mov o0, r0
  j loop
%endsection

%section cons .romtext iomode:async
  entry _start
_start:
  mov r1, i0
  mov o0, r1
  j _start
%endsection

%meta cpdef cpu0 romcode: prod, execmode: ha
%meta cpdef cpu1 romcode: cons, execmode: ha
%meta ioatt link cp: cpu0, type:output, index:0
%meta ioatt link cp: cpu1, type:input, index:0
%meta ioatt outp cp: cpu1, type:output, index:0
%meta ioatt outp cp: bm, type:output, index:0
%meta bmdef global registersize:16
`},
	{"rsets", `%section code1 .romtext iomode:sync
  entry _start
_start:
  mov r0, 5
  mov r1, 20
  add r0, r1
  mov o0, r0
  j _start
%endsection

%meta cpdef cpu romcode: code1, execmode: ha
%meta ioatt testio2 cp: cpu, type:output, index:0
%meta ioatt testio2 cp: bm, type:output, index:0
%meta bmdef global registersize:8
`},
	{"stack", `%section code1 .romtext iomode:sync
  entry _start
_start:
  mov r0, i0
  r2t r0, st0
  t2r r1, st0
  mov o0, r1
  j _start
%endsection

%meta sodef mystack constraint:stack:8
%meta soatt mystack cp: cpu, index:0
%meta cpdef cpu romcode: code1, execmode: ha
%meta ioatt testio1 cp: cpu, type:input, index:0
%meta ioatt testio1 cp: bm, type:input, index:0
%meta ioatt testio2 cp: cpu, type:output, index:0
%meta ioatt testio2 cp: bm, type:output, index:0
%meta bmdef global registersize:8
`},
}

var basmFailure string

func basmCase(i int) *genCase {
	p := basmProgs[i%len(basmProgs)]
	c := &genCase{kind: "bm", tag: "basm:" + p.name, forceVlog: true}
	bi := new(basm.BasmInstance)
	bi.BMinfo = new(bminfo.BMinfo)
	bi.BasmInstanceInit(nil)
	bi.Activate(bmconfig.ChooserMinWordSize)
	var errs []string
	func() {
		defer func() {
			if r := recover(); r != nil {
				errs = append(errs, "panic:"+firstLine(fmt.Sprint(r)))
			}
		}()
		if e := bi.ParseAssemblyStringDefault(p.src); e != nil {
			errs = append(errs, "parse:"+firstLine(e.Error()))
			return
		}
		if e := bi.RunAssembler(); e != nil {
			errs = append(errs, "asm:"+firstLine(e.Error()))
			return
		}
		if e := bi.Assembler2BondMachine(); e != nil {
			errs = append(errs, "a2bm:"+firstLine(e.Error()))
			return
		}
		c.bm = bi.GetBondMachine()
	}()
	if c.bm == nil {
		basmFailure = enc(strings.Join(errs, "+"))
		return nil
	}
	return c
}

// ---- case list -----------------------------------------------------------------------------------

func buildCases(r *common.Rng, n int) []*genCase {
	cases := []*genCase{}
	// fixed 1: every static opcode in one machine
	{
		m, _ := randMachine(r, append([]string{}, statics...))
		m.CpID = 0
		m.Modes = []string{"ha"}
		cases = append(cases, &genCase{kind: "mach", tag: "allstatic", m: m, forceVlog: true})
	}
	// fixed 2: one shared object of every kind, each attached to the processor
	{
		bm := new(bondmachine.Bondmachine)
		bm.Rsize = 8
		bm.Init()
		m, _ := randMachine(r, []string{"nop", "r2s", "s2r", "k2r", "r2u", "u2r", "q2r", "r2q", "t2r", "r2t", "r2v", "lfsr82r", "hit", "wrd", "wwr", "chc", "chw", "rsets8", "multfps8f4"})
		m.Rsize = 8
		bm.Domains = append(bm.Domains, m)
		bm.Add_processor(0)
		sos := []string{}
		for _, f := range soSamples {
			sos = append(sos, f(r))
		}
		bm.Add_shared_objects(sos)
		for k := range bm.Shared_objects {
			bm.Connect_processor_shared_object([]string{"0", strconv.Itoa(k)})
		}
		cases = append(cases, &genCase{kind: "bm", tag: "allso", bm: bm, forceVlog: true})
	}
	// fixed 2b: #domains != #processors with every shared-object kind attached — repeated domain, unused domains,
	// non-identity processor->domain maps (what the step-by-step `bondmachine -add-domains / -add-processor` workflow gives)
	for _, shape := range []struct {
		name  string
		ndom  int
		procs []int
		rsize uint8
	}{
		{"shareddomain", 1, []int{0, 0}, 16},
		{"shareddomain3", 1, []int{0, 0, 0}, 8},
		{"unuseddomain", 3, []int{2}, 32},
		{"permuted", 3, []int{2, 0, 1}, 64},
		{"mixed", 2, []int{1, 1, 0, 1}, 16},
		{"moredomains", 4, []int{3, 1}, 32},
	} {
		bm := new(bondmachine.Bondmachine)
		bm.Rsize = shape.rsize
		bm.Init()
		for d := 0; d < shape.ndom; d++ {
			m, _ := randMachine(r, []string{"nop", "r2s", "s2r", "k2r", "r2u", "u2r", "q2r", "r2q", "t2r", "r2t", "r2v", "lfsr82r", "hit", "wrd", "wwr", "chc", "chw"})
			m.Rsize = shape.rsize
			m.Modes = []string{"ha"}
			bm.Domains = append(bm.Domains, m)
		}
		for _, d := range shape.procs {
			bm.Add_processor(d)
		}
		sos := []string{}
		for _, f := range soSamples {
			sos = append(sos, f(r))
		}
		bm.Add_shared_objects(sos)
		for p := range bm.Processors {
			for k := range bm.Shared_objects {
				if (p+k)%2 == 0 || p == 0 {
					bm.Connect_processor_shared_object([]string{strconv.Itoa(p), strconv.Itoa(k)})
				}
			}
		}
		cases = append(cases, &genCase{kind: "bm", tag: "topo:" + shape.name, bm: bm, forceVlog: true})
	}
	// fixed 3: every dynamic family once (linear quantizer included: the ranges are configured in this process)
	{
		m, notes := randMachine(r, []string{"add", "rsets5", "callo4stk", "calla4stk", "ret4stk", "push8st", "pull8st",
			"multfps8f4", "addfps8f4", "divfps8f4", "multfxps16f8", "addfxps16f8", "divfxps16f8",
			"multlqs8t1", "addlqs8t0", "divlqs8t2"})
		m.CpID = 0
		cases = append(cases, &genCase{kind: "mach", tag: "alldyn:" + strings.Join(notes, "+"), m: m, forceVlog: true})
	}
	// BASM front-end
	for i := range basmProgs {
		if c := basmCase(i); c != nil {
			cases = append(cases, c)
		} else {
			cases = append(cases, &genCase{kind: "mach", tag: "basmfail:" + basmProgs[i].name + ":" + basmFailure, raw: true, mj: &procbuilder.Machine_json{}})
		}
	}
	// malformed stream: hand-made files
	cases = append(cases,
		&genCase{kind: "mach", tag: "raw:unknownop", raw: true, mj: &procbuilder.Machine_json{
			Modes: []string{"ha"}, Rsize: 8, R: 2, N: 1, M: 1, O: 3, Op: []string{"add", "nosuchop", "rsets5", "", "ADD", "multlqs8t7"}, Slocs: []string{"0"}}},
		&genCase{kind: "mach", tag: "raw:flopoco", raw: true, mj: &procbuilder.Machine_json{
			Modes: []string{"ha"}, Rsize: 8, R: 2, O: 3, Op: []string{"nop", "multflpe5f10", "xmultflpe5f10rsets3"}}},
		&genCase{kind: "bm", tag: "raw:unknownso", raw: true, bmj: &bondmachine.Bondmachine_json{
			Rsize: 8, Domains: []*procbuilder.Machine_json{{Modes: []string{"ha"}, Rsize: 8, R: 1, O: 1, Op: []string{"nop", "bogus"}}},
			Processors: []int{0}, Shared_objects: []string{"queue:4", "vtextmem", "nosuch:1", "kbd:1:2", "Queue:4", " queue:4", "stack:8"},
			Shared_links: []bondmachine.Shared_instance_list{{0, 6}}}},
	)
	cases = append(cases, corpusCases()...)
	// random
	for len(cases) < n {
		if r.Chance(1, 3) {
			m, notes := randMachine(r, randOpNames(r))
			m.CpID = 0 // standalone machines: nothing but Bondmachine.Write_verilog ever assigns CpID
			tag := "rand"
			if len(notes) > 0 {
				tag += ":" + enc(strings.Join(notes, "+"))
			}
			cases = append(cases, &genCase{kind: "mach", tag: tag, m: m})
		} else {
			bm, tag := randBM(r)
			cases = append(cases, &genCase{kind: "bm", tag: tag, bm: bm})
		}
	}
	return cases
}

// corpusCases: files of /verif/corpus/C11 (bm-*.json = Bondmachine_json, mach-*.json = Machine_json), sorted by name
func corpusCases() []*genCase {
	res := []*genCase{}
	if corpusDir == "" {
		return res
	}
	ents, err := os.ReadDir(corpusDir)
	if err != nil {
		return res
	}
	for _, e := range ents {
		n := e.Name()
		if !strings.HasSuffix(n, ".json") {
			continue
		}
		b, err := os.ReadFile(filepath.Join(corpusDir, n))
		if err != nil {
			continue
		}
		switch {
		case strings.HasPrefix(n, "bm-"):
			j := new(bondmachine.Bondmachine_json)
			if json.Unmarshal(b, j) == nil {
				res = append(res, &genCase{kind: "bm", tag: "corpus:" + enc(n), raw: true, bmj: j})
			}
		case strings.HasPrefix(n, "mach-"):
			j := new(procbuilder.Machine_json)
			if json.Unmarshal(b, j) == nil {
				res = append(res, &genCase{kind: "mach", tag: "corpus:" + enc(n), raw: true, mj: j})
			}
		}
	}
	return res
}
