// Harness for C11 — saving and reloading a machine loses nothing.
//
//	h-c11 fields <repo> <out.lean>     regenerate lean/BMV/Gen/Fields.lean from the Go source (fields.go)
//	h-c11 gen <dir> <n> <verilogEvery>  build machines (random construction, basm front-end, hand-made JSON),
//	                                   dump them (L.*), save them (<dir>/<i>.json, J.*), reload them in-process,
//	                                   write their Verilog to <dir>/<i>/a
//	h-c11 cliplan <bm.json> <outdir>   plan of the real-CLI operations on one saved file + expected files (cliplan.go)
//	h-c11 load <dir> <lq>               FRESH process (registries as after init()): load every <dir>/<i>.json, dump
//	                                   the result (X.*), re-save, write Verilog to <dir>/<i>/b and compare with a
//	                                   lq = same | none | other : how DynLinearQuantizer.Ranges is configured
//
// Line protocol (read by lean/Oracle/C11.lean and tools/props/c11.py): see dump.go.
package main

import (
	"encoding/json"
	"fmt"
	"os"
	"path/filepath"
	"sort"
	"strconv"
	"strings"

	"bmvh/common"

	"github.com/BondMachineHQ/BondMachine/pkg/bmnumbers"
	"github.com/BondMachineHQ/BondMachine/pkg/bondmachine"
	"github.com/BondMachineHQ/BondMachine/pkg/procbuilder"
	"github.com/BondMachineHQ/BondMachine/pkg/simbox"
)

var out = common.NewOut(os.Stdout)

// statics = names of Allopcodes as initialised by procbuilder's init() (before anything dynamic)
var statics []string

// corpusDir: hand-made / minimised JSON files (bm-*.json, mach-*.json) that are loaded first
var corpusDir string

func snapshotStatics() {
	statics = statics[:0]
	for _, op := range procbuilder.Allopcodes {
		statics = append(statics, op.Op_get_name())
	}
}

// ---- family configuration ----------------------------------------------------------------------

func lqRanges(mode string) *map[int]bmnumbers.LinearDataRange {
	switch mode {
	case "same":
		return &map[int]bmnumbers.LinearDataRange{0: {Max: 1.5}, 1: {Max: 8}, 2: {Max: 127.25}}
	case "other":
		return &map[int]bmnumbers.LinearDataRange{0: {Max: 2.5}, 1: {Max: 9}, 2: {Max: 100}}
	}
	return nil
}

// what cmd/basm, cmd/bondmachine, cmd/bmbuilder do for -linear-data-range
func configureLQ(mode string) string {
	r := lqRanges(mode)
	for i, t := range procbuilder.AllDynamicalInstructions {
		if t.GetName() == "dyn_linear_quantizer" {
			d := t.(procbuilder.DynLinearQuantizer)
			d.Ranges = r
			procbuilder.AllDynamicalInstructions[i] = d
		}
	}
	if r == nil {
		return "-"
	}
	keys := []int{}
	for k := range *r {
		keys = append(keys, k)
	}
	sort.Ints(keys)
	s := []string{}
	for _, k := range keys {
		s = append(s, strconv.Itoa(k))
	}
	return strings.Join(s, ",")
}

func flopocoAvailable() int {
	if _, err := lookPath("flopoco"); err == nil {
		return 1
	}
	return 0
}

func header(lq string) {
	out.Line("R %s", strings.Join(statics, ","))
	fams := []string{}
	for _, f := range procbuilder.AllDynamicalInstructions {
		fams = append(fams, f.GetName())
	}
	out.Line("F lq=%s flopoco=%d fams=%s", lq, flopocoAvailable(), strings.Join(fams, ","))
	out.Flush()
}

// ---- save / load -------------------------------------------------------------------------------

type caseFile struct {
	Kind string // bm | mach
	Tag  string
	Vlog bool
}

func writeFile(p string, b []byte) {
	if err := os.WriteFile(p, b, 0o644); err != nil {
		panic(err)
	}
}

func verilogBM(bm *bondmachine.Bondmachine, dir string) (res string) {
	defer func() {
		if r := recover(); r != nil {
			res = "panic:" + firstLine(fmt.Sprint(r))
		}
	}()
	os.RemoveAll(dir)
	if err := os.MkdirAll(dir, 0o755); err != nil {
		return "mkdir:" + err.Error()
	}
	cwd, _ := os.Getwd()
	if err := os.Chdir(dir); err != nil {
		return "chdir:" + err.Error()
	}
	defer os.Chdir(cwd)
	conf := new(bondmachine.Config)
	iomap := &bondmachine.IOmap{Assoc: map[string]string{}}
	sbox := new(simbox.Simbox)
	if err := bm.Write_verilog(conf, "iverilog", iomap, nil, sbox); err != nil {
		return "err:" + firstLine(err.Error())
	}
	return "ok"
}

func verilogMach(m *procbuilder.Machine, dir string) (res string) {
	defer func() {
		if r := recover(); r != nil {
			res = "panic:" + firstLine(fmt.Sprint(r))
		}
	}()
	os.RemoveAll(dir)
	if err := os.MkdirAll(dir, 0o755); err != nil {
		return "mkdir:" + err.Error()
	}
	// Conproc.Write_verilog drops extra files (threadStack<N>stack.v, …) into the current directory
	cwd, _ := os.Getwd()
	if err := os.Chdir(dir); err != nil {
		return "chdir:" + err.Error()
	}
	defer os.Chdir(cwd)
	conf := new(procbuilder.Config)
	ri := new(procbuilder.RuntimeInfo)
	ri.Init()
	conf.Runinfo = ri
	names := map[string]string{"processor": "p0", "rom": "p0rom", "ram": "p0ram"}
	writeFile("arch.v", []byte(m.Arch.Write_verilog("a0", names, "iverilog")))
	writeFile("p0.v", []byte(m.Arch.Conproc.Write_verilog(conf, &m.Arch, "p0", "iverilog")))
	writeFile("p0rom.v", []byte(m.Arch.Rom.Write_verilog(m, "p0rom", "iverilog")))
	return "ok"
}

func firstLine(s string) string {
	if i := strings.IndexByte(s, '\n'); i >= 0 {
		s = s[:i]
	}
	if len(s) > 120 {
		s = s[:120]
	}
	return strings.ReplaceAll(s, " ", "_")
}

// compareDirs: byte comparison of two directories of generated files
func compareDirs(a, b string) string {
	la, _ := os.ReadDir(a)
	lb, _ := os.ReadDir(b)
	na, nb := []string{}, []string{}
	for _, e := range la {
		na = append(na, e.Name())
	}
	for _, e := range lb {
		nb = append(nb, e.Name())
	}
	if strings.Join(na, ",") != strings.Join(nb, ",") {
		return "diff:filelist:" + strings.Join(na, "+") + "/" + strings.Join(nb, "+")
	}
	for _, n := range na {
		x, _ := os.ReadFile(filepath.Join(a, n))
		y, _ := os.ReadFile(filepath.Join(b, n))
		if string(x) != string(y) {
			return "diff:" + n
		}
	}
	return fmt.Sprintf("same:%d", len(na))
}

// scramble spreads VERIF_SEED over the 64-bit state space.  common.NewRng(seed) starts splitmix64 at seed*G+C and
// every draw adds G, so the streams of seeds 1, 2, 3 are ONE sequence read at offsets 0, 1, 2; generators that draw a
// variable number of values re-synchronise after a few cases and all seeds then produce the same machines.
func scramble(x uint64) uint64 {
	for i := 0; i < 2; i++ {
		x += 0x9E3779B97F4A7C15
		x = (x ^ (x >> 30)) * 0xBF58476D1CE4E5B9
		x = (x ^ (x >> 27)) * 0x94D049BB133111EB
		x ^= x >> 31
	}
	return x
}

// ---- gen ---------------------------------------------------------------------------------------

func cmdGen(dir string, n int, vlogEvery int) {
	snapshotStatics()
	lq := configureLQ("same")
	header(lq)
	os.MkdirAll(dir, 0o755)
	rng := common.NewRng(scramble(common.Seed()))
	cases := buildCases(rng, n)
	index := []caseFile{}
	for i, c := range cases {
		cf := caseFile{Kind: c.kind, Tag: c.tag, Vlog: vlogEvery > 0 && (i%vlogEvery == 0 || c.forceVlog) && !c.raw && !needsExternalHDL(c)}
		index = append(index, cf)
		out.Line("CASE %d %s %s", i, c.kind, c.tag)
		res := common.Guard(func() string { return genOne(dir, i, c, cf) })
		if strings.HasPrefix(res, "panic") {
			out.Line("O.gen %s", strings.ReplaceAll(res, " ", "_"))
			// make sure the loader finds a file
			if _, err := os.Stat(filepath.Join(dir, fmt.Sprintf("%d.json", i))); err != nil {
				writeFile(filepath.Join(dir, fmt.Sprintf("%d.json", i)), []byte("null"))
			}
		}
		out.Flush()
	}
	b, _ := json.Marshal(index)
	writeFile(filepath.Join(dir, "index.json"), b)
	out.Line("END")
	out.Flush()
}

// needsExternalHDL: FXP opcodes read /tmp/fxpcode/*.v and log.Fatal without them; FloPoCo needs the flopoco program
func needsExternalHDL(c *genCase) bool {
	chk := func(m *procbuilder.Machine) bool {
		if m == nil {
			return false
		}
		for _, op := range m.Op {
			if op != nil && (strings.Contains(op.Op_get_name(), "fxps") || strings.Contains(op.Op_get_name(), "flpe")) {
				return true
			}
		}
		return false
	}
	if c.m != nil && chk(c.m) {
		return true
	}
	if c.bm != nil {
		for _, d := range c.bm.Domains {
			if chk(d) {
				return true
			}
		}
	}
	return false
}

func genOne(dir string, i int, c *genCase, cf caseFile) string {
	jpath := filepath.Join(dir, fmt.Sprintf("%d.json", i))
	switch c.kind {
	case "bm":
		var jb []byte
		if c.raw {
			// hand-made file: no live machine
			dumpBMJson(c.bmj)
			jb, _ = json.Marshal(c.bmj)
			writeFile(jpath, jb)
			out.Line("O.gen raw=1")
			return "ok"
		}
		bm := c.bm
		dumpBMLive("L", bm)
		j := bm.Jsoner()
		dumpBMJson(j)
		jb, err := json.Marshal(j)
		if err != nil {
			out.Line("O.gen jsonerr=%s", firstLine(err.Error()))
			return "ok"
		}
		writeFile(jpath, jb)
		// in-process reload (the registries already hold whatever this process created)
		var j2 bondmachine.Bondmachine_json
		if err := json.Unmarshal(jb, &j2); err != nil {
			out.Line("O.gen unmarshalerr=%s", firstLine(err.Error()))
			return "ok"
		}
		bm2 := (&j2).Dejsoner()
		bm2.Init() // every tool calls Init right after Dejsoner
		deq := b2i(deepDumpBM(bm) == deepDumpBM(bm2))
		resave := 0
		if jb2, err := json.Marshal(bm2.Jsoner()); err == nil && string(jb2) == string(jb) {
			resave = 1
		}
		v := "skip"
		if cf.Vlog {
			v = verilogBM(bm, filepath.Join(dir, strconv.Itoa(i), "a"))
		}
		out.Line("O.gen deepequal=%d resave=%d verilog=%s", deq, resave, v)
	case "mach":
		var jb []byte
		if c.raw {
			dumpMachJson("J", 0, c.mj)
			jb, _ = json.Marshal(c.mj)
			writeFile(jpath, jb)
			out.Line("O.gen raw=1")
			return "ok"
		}
		m := c.m
		dumpMachLive("L", 0, m, true)
		j := m.Jsoner()
		dumpMachJson("J", 0, j)
		jb, err := json.Marshal(j)
		if err != nil {
			out.Line("O.gen jsonerr=%s", firstLine(err.Error()))
			return "ok"
		}
		writeFile(jpath, jb)
		var j2 procbuilder.Machine_json
		if err := json.Unmarshal(jb, &j2); err != nil {
			out.Line("O.gen unmarshalerr=%s", firstLine(err.Error()))
			return "ok"
		}
		m2 := (&j2).Dejsoner()
		deq := b2i(deepDumpMach(m) == deepDumpMach(m2))
		resave := 0
		if jb2, err := json.Marshal(m2.Jsoner()); err == nil && string(jb2) == string(jb) {
			resave = 1
		}
		v := "skip"
		if cf.Vlog {
			v = verilogMach(m, filepath.Join(dir, strconv.Itoa(i), "a"))
		}
		out.Line("O.gen deepequal=%d resave=%d verilog=%s", deq, resave, v)
	}
	return "ok"
}

func b2i(b bool) int {
	if b {
		return 1
	}
	return 0
}

// ---- load (fresh process) ----------------------------------------------------------------------

func cmdLoad(dir string, lqMode string) {
	snapshotStatics()
	lq := configureLQ(lqMode)
	header(lq)
	var index []caseFile
	b, err := os.ReadFile(filepath.Join(dir, "index.json"))
	if err != nil {
		panic(err)
	}
	json.Unmarshal(b, &index)
	for i, cf := range index {
		out.Line("CASE %d %s %s", i, cf.Kind, cf.Tag)
		res := common.Guard(func() string { return loadOne(dir, i, cf, lqMode) })
		if strings.HasPrefix(res, "panic") {
			out.Line("O.load %s", strings.ReplaceAll(firstLine(res), " ", "_"))
		}
		out.Flush()
	}
	out.Line("END")
	out.Flush()
}

func loadOne(dir string, i int, cf caseFile, lqMode string) string {
	jb, err := os.ReadFile(filepath.Join(dir, fmt.Sprintf("%d.json", i)))
	if err != nil {
		out.Line("O.load nofile=1")
		return "ok"
	}
	bdir := filepath.Join(dir, strconv.Itoa(i), "b-"+lqMode)
	adir := filepath.Join(dir, strconv.Itoa(i), "a")
	switch cf.Kind {
	case "bm":
		var j bondmachine.Bondmachine_json
		if err := json.Unmarshal(jb, &j); err != nil {
			out.Line("O.load unmarshalerr=%s", firstLine(err.Error()))
			return "ok"
		}
		// exactly what cmd/bondmachine, cmd/basm, cmd/bm2basm, cmd/simfinetune do with a machine file
		bm := (&j).Dejsoner()
		bm.Init()
		nilops, nilsos := dumpBMLive("X", bm)
		resave := "0"
		func() {
			defer func() {
				if r := recover(); r != nil {
					resave = "panic"
				}
			}()
			if jb2, err := json.Marshal(bm.Jsoner()); err == nil && string(jb2) == string(jb) {
				resave = "1"
			}
		}()
		v := "skip"
		if cf.Vlog && lqMode == "same" {
			v = verilogBM(bm, bdir)
			if v == "ok" {
				v = compareDirs(adir, bdir)
			}
		}
		out.Line("O.load resave=%s nilops=%d nilsos=%d verilog=%s", resave, nilops, nilsos, v)
	case "mach":
		var j procbuilder.Machine_json
		if err := json.Unmarshal(jb, &j); err != nil {
			out.Line("O.load unmarshalerr=%s", firstLine(err.Error()))
			return "ok"
		}
		m := (&j).Dejsoner()
		nilops := dumpMachLive("X", 0, m, true)
		resave := "0"
		func() {
			defer func() {
				if r := recover(); r != nil {
					resave = "panic"
				}
			}()
			if jb2, err := json.Marshal(m.Jsoner()); err == nil && string(jb2) == string(jb) {
				resave = "1"
			}
		}()
		v := "skip"
		if cf.Vlog && lqMode == "same" {
			v = verilogMach(m, bdir)
			if v == "ok" {
				v = compareDirs(adir, bdir)
			}
		}
		out.Line("O.load resave=%s nilops=%d nilsos=0 verilog=%s", resave, nilops, v)
	}
	return "ok"
}

func main() {
	if len(os.Args) < 2 {
		fmt.Fprintln(os.Stderr, "usage: h-c11 fields|gen|load ...")
		os.Exit(2)
	}
	switch os.Args[1] {
	case "fields":
		repo, outp := os.Args[2], os.Args[3]
		s, err := GenFields(repo)
		if err != nil {
			fmt.Fprintln(os.Stderr, "fields:", err)
			os.Exit(1)
		}
		writeFile(outp, []byte(s))
	case "gen":
		n, _ := strconv.Atoi(os.Args[3])
		ve := 1
		if len(os.Args) > 4 {
			ve, _ = strconv.Atoi(os.Args[4])
		}
		if len(os.Args) > 5 {
			corpusDir = os.Args[5]
		}
		cmdGen(os.Args[2], n, ve)
	case "load":
		cmdLoad(os.Args[2], os.Args[3])
	case "cliplan":
		snapshotStatics()
		cmdCliPlan(os.Args[2], os.Args[3])
	default:
		fmt.Fprintln(os.Stderr, "unknown subcommand")
		os.Exit(2)
	}
}
