package main

// h-c11 cliplan <bm.json> <outdir>
//
// Plans the real-CLI round trip of one saved bondmachine: for every cmd/bondmachine operation that loads the file and
// writes it back, prints the command-line arguments to use (never -register-size: the machine's own register size must
// survive) and writes the file the tool is expected to leave behind to <outdir>/<k>.expected.json.
//
//	OP <k> <ro|mut> <name> <arg> <arg> ...
//
// read-only operations (ro): the expected file is the saved file itself, byte for byte.
// mutating operations (mut): expected = json.Marshal(Jsoner()) after loading the file as the tool does
// (Unmarshal, Dejsoner, Init) and applying the one library call the tool's branch makes.

import (
	"encoding/json"
	"fmt"
	"os"
	"path/filepath"
	"strconv"

	"github.com/BondMachineHQ/BondMachine/pkg/bondmachine"
)

type cliOp struct {
	name  string
	args  []string
	apply func(bm *bondmachine.Bondmachine) // nil = read-only
}

// normaliseConstraints: the persisted side effect of Bondmachine.Write_verilog
func normaliseConstraints(bm *bondmachine.Bondmachine) {
	for i, domID := range bm.Processors {
		list := ""
		for j, soID := range bm.Shared_links[i] {
			list += bm.Shared_objects[soID].String()
			if j != len(bm.Shared_links[i])-1 {
				list += ","
			}
		}
		bm.Domains[domID].Shared_constraints = list
	}
}

func loadAsTool(b []byte) (*bondmachine.Bondmachine, error) {
	var j bondmachine.Bondmachine_json
	if err := json.Unmarshal(b, &j); err != nil {
		return nil, err
	}
	bm := (&j).Dejsoner()
	bm.Init()
	return bm, nil
}

func cmdCliPlan(file string, outdir string) {
	b, err := os.ReadFile(file)
	if err != nil {
		fmt.Fprintln(os.Stderr, err)
		os.Exit(1)
	}
	os.MkdirAll(outdir, 0o755)
	bm, err := loadAsTool(b)
	if err != nil {
		fmt.Fprintln(os.Stderr, err)
		os.Exit(1)
	}
	ops := []cliOp{}
	ro := func(name string, args ...string) { ops = append(ops, cliOp{name: name, args: args}) }
	mut := func(name string, f func(*bondmachine.Bondmachine), args ...string) {
		ops = append(ops, cliOp{name: name, args: args, apply: f})
	}
	for _, o := range []string{"list-domains", "list-processors", "list-inputs", "list-outputs", "list-bonds",
		"list-shared-objects", "list-processor-shared-object-links", "list-internal-inputs", "list-internal-outputs",
		"specs", "enum-processors", "enum-bonds", "emit-dot", "show-program-alias"} {
		ro(o, "-"+o)
	}
	// -create-verilog is not read-only on the persisted state: Bondmachine.Write_verilog recomputes the derived field
	// Shared_constraints of every instantiated domain from the processor's attachments (verilog.go: `dom.Arch.
	// Shared_constraints = sharedlist`, last processor of a domain wins) and the tool saves that.  Everything else
	// (Rsize included) must come back as it was.
	mut("create-verilog", normaliseConstraints, "-create-verilog")
	mut("create-verilog-comment", normaliseConstraints, "-create-verilog", "-comment-verilog")
	ro("multi-abstract-assembly-file", "-multi-abstract-assembly-file", "maa.json")
	mut("add-inputs", func(bm *bondmachine.Bondmachine) { bm.Add_input(); bm.Add_input() }, "-add-inputs", "2")
	mut("add-outputs", func(bm *bondmachine.Bondmachine) { bm.Add_output() }, "-add-outputs", "1")
	if len(bm.Domains) > 0 {
		d := len(bm.Domains) - 1
		mut("add-processor", func(bm *bondmachine.Bondmachine) { bm.Add_processor(d) }, "-add-processor", strconv.Itoa(d))
		// a domain file for -add-domains: domain 0 saved alone, as procbuilder -save-machine does
		if db, err := json.Marshal(bm.Domains[0].Jsoner()); err == nil {
			writeFile(filepath.Join(outdir, "dom0.json"), db)
			mut("add-domains", func(bm *bondmachine.Bondmachine) {
				bm.Domains = append(bm.Domains, bm.Domains[0]) // same registry entries: structurally what the tool appends
			}, "-add-domains", "../dom0.json")
		}
	}
	if bm.Inputs > 0 {
		k := bm.Inputs - 1
		mut("del-inputs", func(bm *bondmachine.Bondmachine) { bm.Del_input(k) }, "-del-inputs", strconv.Itoa(k))
	}
	if bm.Outputs > 0 {
		mut("del-outputs", func(bm *bondmachine.Bondmachine) { bm.Del_output(0) }, "-del-outputs", "0")
	}
	if len(bm.Internal_inputs) > 0 && len(bm.Internal_outputs) > 0 {
		a := bm.Internal_inputs[len(bm.Internal_inputs)-1].String()
		c := bm.Internal_outputs[0].String()
		mut("add-bond", func(bm *bondmachine.Bondmachine) { bm.Add_bond([]string{c, a}) }, "-add-bond", c+","+a)
	}
	if len(bm.Links) > 0 {
		mut("del-bonds", func(bm *bondmachine.Bondmachine) { bm.Del_bond(0) }, "-del-bonds", "0")
	}
	mut("add-shared-objects", func(bm *bondmachine.Bondmachine) { bm.Add_shared_objects([]string{"queue:5"}) },
		"-add-shared-objects", "queue:5")
	if len(bm.Processors) > 0 && len(bm.Shared_objects) > 0 {
		p, s := strconv.Itoa(len(bm.Processors)-1), strconv.Itoa(len(bm.Shared_objects)-1)
		mut("connect-processor-shared-object", func(bm *bondmachine.Bondmachine) {
			bm.Connect_processor_shared_object([]string{p, s})
		}, "-connect-processor-shared-object", p+","+s)
	}
	for k, op := range ops {
		exp := b
		kind := "ro"
		if op.apply != nil {
			kind = "mut"
			res := func() (res []byte) {
				defer func() {
					if r := recover(); r != nil {
						res = nil
					}
				}()
				m, err := loadAsTool(b)
				if err != nil {
					return nil
				}
				op.apply(m)
				e, err := json.Marshal(m.Jsoner())
				if err != nil {
					return nil
				}
				return e
			}()
			if res == nil {
				continue // the library call itself fails on this machine: nothing to expect
			}
			exp = res
		}
		writeFile(filepath.Join(outdir, fmt.Sprintf("%d.expected.json", k)), exp)
		line := fmt.Sprintf("OP %d %s %s", k, kind, op.name)
		for _, a := range op.args {
			line += " " + a
		}
		out.Line("%s", line)
	}
	out.Line("END")
	out.Flush()
}
