package main

// Canonical text dumps of live machines, their JSON form and reloaded machines.
//
//	R <static opcode names>                 Allopcodes at process start
//	F lq=<idx list|-> flopoco=<0|1> fams=…  family configuration of this process
//	CASE <i> <bm|mach> <tag>
//	L.B / X.B  rsize= ndom= procs=<n>:… inputs= outputs= iin=<n>:k.r.e;… iout=… links=<n>:… sos=<n>:<so>;… slinks=<n>:a.b|…  (or slinks=nil) deep=<sha1>
//	L.D / X.D <k> modes=<n>:… cpid= rsize= r= n= m= ops=<n>:<name>/<kind>,… thr= hdl= o= l= sc= tag= ws= slocs=<n>:… vars=<n>:… [deep=<sha1>]
//	J.B  rsize= ndom= procs= inputs= outputs= iin= iout= links= sos=<n>:<string>;… slinks=
//	J.D <k> modes= rsize= ws= r= n= m= l= o= sc= op=<n>:… slocs= vars= thr=
//	O.gen … / O.load …                      implementation-only observables
//
// L = live machine before saving, J = what Jsoner produced, X = what Dejsoner produced.
// Strings are percent-encoded outside [A-Za-z0-9_:.+-/]; lists carry their length so that the empty
// list and the list holding one empty string differ; nil and empty slices are identified.
// deep = sha1 of a reflection walk over every field (unexported ones too, pointers followed) with the
// declared transient fields (Conproc.CpID, Conproc.SharedHDLOps, Arch.Tag) left out.

import (
	"crypto/sha1"
	"fmt"
	"os/exec"
	"reflect"
	"sort"
	"strconv"
	"strings"

	"github.com/BondMachineHQ/BondMachine/pkg/bondmachine"
	"github.com/BondMachineHQ/BondMachine/pkg/procbuilder"
)

func lookPath(s string) (string, error) { return exec.LookPath(s) }

func enc(s string) string {
	var sb strings.Builder
	for i := 0; i < len(s); i++ {
		c := s[i]
		if c >= 'a' && c <= 'z' || c >= 'A' && c <= 'Z' || c >= '0' && c <= '9' ||
			c == '_' || c == ':' || c == '.' || c == '+' || c == '-' || c == '/' {
			sb.WriteByte(c)
		} else {
			fmt.Fprintf(&sb, "%%%02X", c)
		}
	}
	return sb.String()
}

func lst(items []string, sep string) string {
	return strconv.Itoa(len(items)) + ":" + strings.Join(items, sep)
}

func encs(ss []string) []string {
	r := make([]string, len(ss))
	for i, s := range ss {
		r[i] = enc(s)
	}
	return r
}

func ints(is []int) []string {
	r := make([]string, len(is))
	for i, v := range is {
		r[i] = strconv.Itoa(v)
	}
	return r
}

var dynKinds = map[string]bool{"Rsets": true, "Call": true, "DynOpStack": true, "FixedPoint": true,
	"FXP": true, "LinearQuantizer": true, "FloPoCo": true}

func opDump(op procbuilder.Opcode) string {
	if op == nil {
		return "-"
	}
	t := reflect.TypeOf(op)
	for t.Kind() == reflect.Ptr {
		t = t.Elem()
	}
	kind := "static"
	if dynKinds[t.Name()] {
		kind = t.Name()
	}
	return enc(op.Op_get_name()) + "/" + kind
}

func dumpMachLive(p string, k int, m *procbuilder.Machine, withDeep bool) (nilops int) {
	ops := make([]string, len(m.Op))
	for i, op := range m.Op {
		ops[i] = opDump(op)
		if op == nil {
			nilops++
		}
	}
	deep := ""
	if withDeep {
		deep = " deep=" + hash(deepDumpMach(m))
	}
	out.Line("%s.D %d modes=%s cpid=%d rsize=%d r=%d n=%d m=%d ops=%s thr=%d hdl=%s o=%d l=%d sc=%s tag=%s ws=%d slocs=%s vars=%s%s",
		p, k, lst(encs(m.Modes), ","), m.CpID, m.Rsize, m.R, m.N, m.M, lst(ops, ","), m.Threaded,
		enc(m.SharedHDLOps), m.O, m.L, enc(m.Shared_constraints), enc(m.Tag), m.WordSize,
		lst(encs(m.Slocs), ","), lst(encs(m.Vars), ","), deep)
	return
}

func dumpMachJson(p string, k int, j *procbuilder.Machine_json) {
	out.Line("%s.D %d modes=%s rsize=%d ws=%d r=%d n=%d m=%d l=%d o=%d sc=%s op=%s slocs=%s vars=%s thr=%d",
		p, k, lst(encs(j.Modes), ","), j.Rsize, j.WordSize, j.R, j.N, j.M, j.L, j.O,
		enc(j.Shared_constraints), lst(encs(j.Op), ","), lst(encs(j.Slocs), ","), lst(encs(j.Vars), ","), j.Threaded)
}

func bonds(bs []bondmachine.Bond) []string {
	r := make([]string, len(bs))
	for i, b := range bs {
		r[i] = fmt.Sprintf("%d.%d.%d", b.Map_to, b.Res_id, b.Ext_id)
	}
	return r
}

// slinksField: the nil slice is visible (Init looks at exactly that)
func slinksField(sl []bondmachine.Shared_instance_list) string {
	if sl == nil {
		return "nil"
	}
	return lst(slinks(sl), "|")
}

func slinks(sl []bondmachine.Shared_instance_list) []string {
	r := make([]string, len(sl))
	for i, l := range sl {
		r[i] = strings.Join(ints([]int(l)), ".")
	}
	return r
}

// soDump: kind and parameters of a live shared object, read by reflection
func soDump(so bondmachine.Shared_instance) string {
	if so == nil {
		return "-"
	}
	v := reflect.ValueOf(so)
	for v.Kind() == reflect.Ptr {
		if v.IsNil() {
			return "-"
		}
		v = v.Elem()
	}
	t := v.Type()
	name := strings.ToLower(strings.TrimSuffix(t.Name(), "_instance"))
	parts := []string{}
	for i := 0; i < t.NumField(); i++ {
		f := t.Field(i)
		if f.Name == "Shared_element" {
			continue
		}
		fv := v.Field(i)
		switch fv.Kind() {
		case reflect.Int, reflect.Int8, reflect.Int16, reflect.Int32, reflect.Int64:
			parts = append(parts, fmt.Sprintf("%s=%d", f.Name, fv.Int()))
		case reflect.Uint, reflect.Uint8, reflect.Uint16, reflect.Uint32, reflect.Uint64:
			parts = append(parts, fmt.Sprintf("%s=%d", f.Name, fv.Uint()))
		case reflect.Slice:
			boxes := []string{}
			for k := 0; k < fv.Len(); k++ {
				b := fv.Index(k)
				fs := []string{}
				for _, fn := range []string{"CP", "Left", "Top", "Width", "Height"} {
					if bf := b.FieldByName(fn); bf.IsValid() {
						fs = append(fs, strconv.FormatInt(bf.Int(), 10))
					} else {
						fs = append(fs, "?")
					}
				}
				if b.NumField() != 5 {
					fs = append(fs, fmt.Sprintf("?%dfields", b.NumField()))
				}
				boxes = append(boxes, strings.Join(fs, "."))
			}
			parts = append(parts, fmt.Sprintf("%s=%s", f.Name, strings.Join(boxes, "+")))
		default:
			parts = append(parts, fmt.Sprintf("%s=?%s", f.Name, fv.Kind()))
		}
	}
	sort.Strings(parts) // declaration order of the struct fields is irrelevant
	parts = append([]string{name}, parts...)
	return strings.Join(parts, "/")
}

func dumpBMLive(p string, bm *bondmachine.Bondmachine) (nilops, nilsos int) {
	sos := make([]string, len(bm.Shared_objects))
	for i, so := range bm.Shared_objects {
		sos[i] = soDump(so)
		if sos[i] == "-" {
			nilsos++
		}
	}
	out.Line("%s.B rsize=%d ndom=%d procs=%s inputs=%d outputs=%d iin=%s iout=%s links=%s sos=%s slinks=%s deep=%s",
		p, bm.Rsize, len(bm.Domains), lst(ints(bm.Processors), ","), bm.Inputs, bm.Outputs,
		lst(bonds(bm.Internal_inputs), ";"), lst(bonds(bm.Internal_outputs), ";"), lst(ints(bm.Links), ","),
		lst(sos, ";"), slinksField(bm.Shared_links), hash(deepDumpBM(bm)))
	for k, d := range bm.Domains {
		if d == nil {
			out.Line("%s.D %d nil", p, k)
			continue
		}
		nilops += dumpMachLive(p, k, d, false)
	}
	return
}

func dumpBMJson(j *bondmachine.Bondmachine_json) {
	out.Line("J.B rsize=%d ndom=%d procs=%s inputs=%d outputs=%d iin=%s iout=%s links=%s sos=%s slinks=%s",
		j.Rsize, len(j.Domains), lst(ints(j.Processors), ","), j.Inputs, j.Outputs,
		lst(bonds(j.Internal_inputs), ";"), lst(bonds(j.Internal_outputs), ";"), lst(ints(j.Links), ","),
		lst(encs(j.Shared_objects), ";"), slinksField(j.Shared_links))
	for k, d := range j.Domains {
		if d == nil {
			out.Line("J.D %d nil", k)
			continue
		}
		dumpMachJson("J", k, d)
	}
}

// ---- deep reflection dump ------------------------------------------------------------------------

func hash(s string) string { return fmt.Sprintf("%x", sha1.Sum([]byte(s)))[:16] }

var transientFields = map[string]map[string]bool{
	"Conproc": {"CpID": true, "SharedHDLOps": true},
	"Arch":    {"Tag": true},
}

func deepDumpBM(bm *bondmachine.Bondmachine) string {
	var sb strings.Builder
	deep(reflect.ValueOf(bm), &sb, 0)
	return sb.String()
}

func deepDumpMach(m *procbuilder.Machine) string {
	var sb strings.Builder
	deep(reflect.ValueOf(m), &sb, 0)
	return sb.String()
}

func deep(v reflect.Value, sb *strings.Builder, depth int) {
	if depth > 40 {
		sb.WriteString("<deep>")
		return
	}
	if !v.IsValid() {
		sb.WriteString("<invalid>")
		return
	}
	switch v.Kind() {
	case reflect.Ptr:
		if v.IsNil() {
			sb.WriteString("nil")
			return
		}
		sb.WriteString("&")
		deep(v.Elem(), sb, depth+1)
	case reflect.Interface:
		if v.IsNil() {
			sb.WriteString("nil")
			return
		}
		deep(v.Elem(), sb, depth+1)
	case reflect.Struct:
		t := v.Type()
		sb.WriteString(t.Name() + "{")
		skip := transientFields[t.Name()]
		for i := 0; i < t.NumField(); i++ {
			if skip[t.Field(i).Name] {
				continue
			}
			sb.WriteString(t.Field(i).Name + ":")
			deep(v.Field(i), sb, depth+1)
			sb.WriteString(",")
		}
		sb.WriteString("}")
	case reflect.Slice, reflect.Array:
		sb.WriteString("[")
		for i := 0; i < v.Len(); i++ {
			deep(v.Index(i), sb, depth+1)
			sb.WriteString(",")
		}
		sb.WriteString("]")
	case reflect.Map:
		items := []string{}
		it := v.MapRange()
		for it.Next() {
			var a, b strings.Builder
			deep(it.Key(), &a, depth+1)
			deep(it.Value(), &b, depth+1)
			items = append(items, a.String()+"=>"+b.String())
		}
		sort.Strings(items)
		sb.WriteString("map[" + strings.Join(items, ",") + "]")
	case reflect.String:
		sb.WriteString(strconv.Quote(v.String()))
	case reflect.Bool:
		sb.WriteString(strconv.FormatBool(v.Bool()))
	case reflect.Int, reflect.Int8, reflect.Int16, reflect.Int32, reflect.Int64:
		sb.WriteString(strconv.FormatInt(v.Int(), 10))
	case reflect.Uint, reflect.Uint8, reflect.Uint16, reflect.Uint32, reflect.Uint64, reflect.Uintptr:
		sb.WriteString(strconv.FormatUint(v.Uint(), 10))
	case reflect.Float32, reflect.Float64:
		sb.WriteString(strconv.FormatFloat(v.Float(), 'g', -1, 64))
	default:
		sb.WriteString("<" + v.Kind().String() + ">")
	}
}
