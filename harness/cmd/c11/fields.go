// C11 "regenerated tie": a purely syntactic extractor over the BondMachine Go source that emits
// lean/BMV/Gen/Fields.lean: the flattened fields of the live/JSON structs, the assignment flow of
// the four hand-written Jsoner/Dejsoner copy methods (a small taint analysis: which receiver
// fields each `result.X = ...` depends on) and the init() registries.  The Lean obligations over
// the generated file break when a field is added to a live struct but forgotten in a copy method.
// It only parses (no type checking), so a partial source tree is enough.
package main

import (
	"fmt"
	"go/ast"
	"go/parser"
	"go/token"
	"go/types"
	"os"
	"path/filepath"
	"sort"
	"strings"
)

type gfPkg struct {
	structs map[string]*ast.StructType
	funcs   []*ast.FuncDecl // file-name order, then source order
}

func gfLoad(dir string) (*gfPkg, error) {
	notTest := func(fi os.FileInfo) bool { return !strings.HasSuffix(fi.Name(), "_test.go") }
	pkgs, err := parser.ParseDir(token.NewFileSet(), dir, notTest, parser.SkipObjectResolution)
	if err != nil {
		return nil, fmt.Errorf("parsing %s: %v", filepath.Base(dir), err)
	}
	want := filepath.Base(dir)
	if _, ok := pkgs[want]; !ok { // unusual layout: take every non-test package in the directory
		want = ""
	}
	var names []string
	files := map[string]*ast.File{}
	for pn, p := range pkgs {
		if strings.HasSuffix(pn, "_test") || (want != "" && pn != want) {
			continue
		}
		for fn, f := range p.Files {
			names = append(names, fn)
			files[fn] = f
		}
	}
	if len(names) == 0 {
		return nil, fmt.Errorf("no Go source found in %s", filepath.Base(dir))
	}
	sort.Strings(names)
	res := &gfPkg{structs: map[string]*ast.StructType{}}
	for _, fn := range names {
		for _, d := range files[fn].Decls {
			if fd, ok := d.(*ast.FuncDecl); ok {
				res.funcs = append(res.funcs, fd)
			} else if gd, ok := d.(*ast.GenDecl); ok {
				for _, s := range gd.Specs {
					if ts, ok := s.(*ast.TypeSpec); ok {
						if st, ok := ts.Type.(*ast.StructType); ok {
							res.structs[ts.Name.Name] = st
						}
					}
				}
			}
		}
	}
	return res, nil
}

// flatten renders the fields of struct `name` as Lean pairs, descending through embedded
// same-package structs; other embedded types become a field named after the type.
func (p *gfPkg) flatten(name string, busy map[string]bool) ([]string, error) {
	st, ok := p.structs[name]
	if !ok || st.Fields == nil || busy[name] {
		return nil, fmt.Errorf("struct %s not found (or embeds itself)", name)
	}
	busy[name] = true
	defer delete(busy, name)
	var out []string
	for _, f := range st.Fields.List {
		txt := types.ExprString(f.Type)
		for _, n := range f.Names {
			out = append(out, gfPair(gfStr(n.Name), gfStr(txt)))
		}
		if len(f.Names) > 0 {
			continue
		}
		base := strings.TrimPrefix(txt, "*")
		if _, local := p.structs[base]; local {
			sub, err := p.flatten(base, busy)
			if err != nil {
				return nil, err
			}
			out = append(out, sub...)
			continue
		}
		out = append(out, gfPair(gfStr(base[strings.LastIndex(base, ".")+1:]), gfStr(txt)))
	}
	return out, nil
}

type gfSet map[string]bool

func gfUnion(sets ...gfSet) gfSet {
	acc := gfSet{}
	for _, s := range sets {
		for k := range s {
			acc[k] = true
		}
	}
	return acc
}

type gfTaint struct {
	recv, res string
	env       map[string]gfSet
	ctl       []gfSet // ctl[len-1] = union of the control dependencies of all enclosing statements
	rec       bool
	out       []string
}

func (t *gfTaint) control() gfSet { return t.ctl[len(t.ctl)-1] }

func (t *gfTaint) deps(exprs ...ast.Expr) gfSet {
	acc := gfSet{}
	for _, e := range exprs {
		if e == nil {
			continue
		}
		ast.Inspect(e, func(n ast.Node) bool {
			switch n := n.(type) {
			case *ast.SelectorExpr: // recv.F is field F; otherwise only the operand matters, not the name
				if id, ok := n.X.(*ast.Ident); ok && t.recv != "" && id.Name == t.recv {
					acc[n.Sel.Name] = true
				} else {
					acc = gfUnion(acc, t.deps(n.X))
				}
				return false
			case *ast.KeyValueExpr:
				if _, fieldKey := n.Key.(*ast.Ident); !fieldKey {
					acc = gfUnion(acc, t.deps(n.Key))
				}
				acc = gfUnion(acc, t.deps(n.Value))
				return false
			case *ast.Ident:
				acc = gfUnion(acc, t.env[n.Name])
			}
			return true
		})
	}
	return acc
}

// store assigns value deps d (control deps are added here) to an identifier or to `result.X...`.
func (t *gfTaint) store(lhs ast.Expr, d gfSet, define bool) {
	d = gfUnion(d, t.control())
	if id, ok := lhs.(*ast.Ident); ok {
		if !define && len(t.ctl) > 1 { // conditional overwrite: weak update
			d = gfUnion(d, t.env[id.Name])
		}
		t.env[id.Name] = d
		return
	}
	for e := lhs; t.rec; { // strip index/deref/selector layers down to result.X
		switch x := e.(type) {
		case *ast.StarExpr:
			e = x.X
		case *ast.ParenExpr:
			e = x.X
		case *ast.IndexExpr:
			d, e = gfUnion(d, t.deps(x.Index)), x.X
		case *ast.SelectorExpr:
			if id, ok := x.X.(*ast.Ident); ok {
				if id.Name == t.res {
					keys := []string{}
					for k := range d {
						keys = append(keys, gfStr(k))
					}
					sort.Strings(keys)
					t.out = append(t.out, gfPair(gfStr(x.Sel.Name), gfList(keys)))
				}
				return
			}
			e = x.X
		default:
			return
		}
	}
}

// literal: `result := &T{X: e, ...}` (or `result = T{...}`, `var result = ...`) assigns every keyed field of the
// composite literal, exactly like `result.X = e` would.
func (t *gfTaint) literal(lhs ast.Expr, rhs ast.Expr) {
	id, ok := lhs.(*ast.Ident)
	if !ok || id.Name != t.res {
		return
	}
	for {
		switch x := rhs.(type) {
		case *ast.ParenExpr:
			rhs = x.X
			continue
		case *ast.UnaryExpr:
			if x.Op == token.AND {
				rhs = x.X
				continue
			}
		}
		break
	}
	cl, ok := rhs.(*ast.CompositeLit)
	if !ok {
		return
	}
	for _, el := range cl.Elts {
		if kv, ok := el.(*ast.KeyValueExpr); ok {
			if key, ok := kv.Key.(*ast.Ident); ok {
				t.store(&ast.SelectorExpr{X: ast.NewIdent(t.res), Sel: key}, t.deps(kv.Value), false)
			}
		}
	}
}

// simple handles assignments/declarations (also as init statements) and returns the deps of their RHS.
func (t *gfTaint) simple(s ast.Stmt) gfSet {
	switch s := s.(type) {
	case *ast.AssignStmt:
		all := t.deps(s.Rhs...)
		for i, l := range s.Lhs {
			d := all
			if len(s.Lhs) == len(s.Rhs) {
				d = t.deps(s.Rhs[i])
			}
			if s.Tok != token.ASSIGN && s.Tok != token.DEFINE { // x op= e keeps the old value's deps
				d = gfUnion(d, t.deps(l))
			}
			t.store(l, d, s.Tok == token.DEFINE)
			if len(s.Lhs) == len(s.Rhs) {
				t.literal(l, s.Rhs[i])
			}
		}
		return all
	case *ast.DeclStmt: // var x = e
		ast.Inspect(s, func(n ast.Node) bool {
			if vs, ok := n.(*ast.ValueSpec); ok {
				for i, id := range vs.Names {
					t.store(id, t.deps(vs.Values...), true)
					if len(vs.Names) == len(vs.Values) {
						t.literal(id, vs.Values[i])
					}
				}
			}
			return true
		})
	case *ast.ExprStmt: // copy(result.X, src) writes result.X
		if c, ok := s.X.(*ast.CallExpr); ok && len(c.Args) == 2 && types.ExprString(c.Fun) == "copy" {
			t.store(c.Args[0], t.deps(c.Args[1]), false)
		}
		return t.deps(s.X)
	}
	return gfSet{}
}

// under walks body with d added to the control dependencies; loop bodies get a silent first pass
// so that loop-carried dependencies are seen.
func (t *gfTaint) under(d gfSet, loop bool, body ...ast.Stmt) {
	t.ctl = append(t.ctl, gfUnion(d, t.control()))
	if loop && t.rec {
		t.rec = false
		t.walk(body)
		t.rec = true
	}
	t.walk(body)
	t.ctl = t.ctl[:len(t.ctl)-1]
}

func (t *gfTaint) walk(list []ast.Stmt) {
	for _, s := range list {
		switch s := s.(type) {
		case nil:
		case *ast.BlockStmt:
			t.walk(s.List)
		case *ast.LabeledStmt:
			t.walk([]ast.Stmt{s.Stmt})
		case *ast.RangeStmt:
			d := t.deps(s.X)
			for _, kv := range []ast.Expr{s.Key, s.Value} {
				if kv != nil {
					t.store(kv, d, s.Tok == token.DEFINE)
				}
			}
			t.under(d, true, s.Body)
		case *ast.ForStmt:
			d := t.simple(s.Init)
			t.under(gfUnion(d, t.deps(s.Cond)), true, s.Body, s.Post)
		case *ast.IfStmt:
			d := t.simple(s.Init)
			t.under(gfUnion(d, t.deps(s.Cond)), false, s.Body, s.Else)
		case *ast.SwitchStmt:
			d := t.simple(s.Init)
			t.under(gfUnion(d, t.deps(s.Tag)), false, s.Body)
		case *ast.TypeSwitchStmt:
			d := t.simple(s.Init)
			t.under(gfUnion(d, t.simple(s.Assign)), false, s.Body)
		case *ast.CaseClause:
			t.under(t.deps(s.List...), false, s.Body...)
		default:
			t.simple(s)
		}
	}
}

// assigns runs the taint analysis on method (recvType).name and renders its `result.X` assignments.
func (p *gfPkg) assigns(recvType, name string) ([]string, error) {
	for _, fd := range p.funcs {
		if fd.Name.Name != name || fd.Recv == nil || len(fd.Recv.List) != 1 || fd.Body == nil ||
			strings.TrimPrefix(types.ExprString(fd.Recv.List[0].Type), "*") != recvType {
			continue
		}
		t := &gfTaint{res: "result", env: map[string]gfSet{}, ctl: []gfSet{{}}, rec: true, out: []string{}}
		if ns := fd.Recv.List[0].Names; len(ns) == 1 {
			t.recv = ns[0].Name
		}
		if n := len(fd.Body.List); n > 0 {
			if r, ok := fd.Body.List[n-1].(*ast.ReturnStmt); ok && len(r.Results) == 1 {
				if id, ok := r.Results[0].(*ast.Ident); ok {
					t.res = id.Name
				}
			}
		}
		t.walk(fd.Body.List)
		return t.out, nil
	}
	return nil, fmt.Errorf("method (%s).%s not found", recvType, name)
}

// appended lists, in source order and as Lean strings, the type names X of
// `target = append(target, X{...})` in init().
func (p *gfPkg) appended(target string) []string {
	out := []string{}
	for _, fd := range p.funcs {
		if fd.Name.Name != "init" || fd.Recv != nil || fd.Body == nil {
			continue
		}
		ast.Inspect(fd.Body, func(n ast.Node) bool {
			as, ok := n.(*ast.AssignStmt)
			if !ok || len(as.Lhs) != 1 || len(as.Rhs) != 1 || types.ExprString(as.Lhs[0]) != target {
				return true
			}
			c, ok := as.Rhs[0].(*ast.CallExpr)
			if !ok || len(c.Args) < 2 || types.ExprString(c.Fun) != "append" || types.ExprString(c.Args[0]) != target {
				return true
			}
			for _, e := range c.Args[1:] {
				if u, ok := e.(*ast.UnaryExpr); ok && u.Op == token.AND {
					e = u.X
				}
				if cl, ok := e.(*ast.CompositeLit); ok && cl.Type != nil {
					e = cl.Type
				}
				out = append(out, gfStr(types.ExprString(e)))
			}
			return true
		})
	}
	return out
}

var gfEsc = strings.NewReplacer(`\`, `\\`, `"`, `\"`, "\n", `\n`, "\t", `\t`, "\r", `\r`)

func gfStr(s string) string     { return `"` + gfEsc.Replace(s) + `"` }
func gfPair(a, b string) string { return "(" + a + ", " + b + ")" }
func gfList(l []string) string  { return "[" + strings.Join(l, ", ") + "]" }

// GenFields parses <repo>/pkg/procbuilder and <repo>/pkg/bondmachine (non-test files) and returns
// the text of lean/BMV/Gen/Fields.lean.
func GenFields(repo string) (string, error) {
	pb, err := gfLoad(filepath.Join(repo, "pkg", "procbuilder"))
	if err != nil {
		return "", err
	}
	bm, err := gfLoad(filepath.Join(repo, "pkg", "bondmachine"))
	if err != nil {
		return "", err
	}
	var b strings.Builder
	b.WriteString("/- REGENERATED on every run by `h-c11 fields` (harness/cmd/c11/fields.go) from the Go source — do not edit. -/\n")
	b.WriteString("namespace BMV.Gen.Fields\n\n")
	type row struct {
		def      string
		p        *gfPkg
		typ, fun string
	}
	for _, d := range []row{{"machineLive", pb, "Machine", ""}, {"machineJson", pb, "Machine_json", ""},
		{"bmLive", bm, "Bondmachine", ""}, {"bmJson", bm, "Bondmachine_json", ""},
		{"bondFields", bm, "Bond", ""}, {"graphBoxFields", bm, "GraphBox", ""}} {
		fl, err := d.p.flatten(d.typ, map[string]bool{})
		if err != nil {
			return "", err
		}
		fmt.Fprintf(&b, "def %s : List (String × String) := %s\n", d.def, gfList(fl))
	}
	inst := []string{}
	for n := range bm.structs {
		if strings.HasSuffix(n, "_instance") {
			inst = append(inst, n)
		}
	}
	sort.Strings(inst)
	for i, n := range inst {
		fl, err := bm.flatten(n, map[string]bool{})
		if err != nil {
			return "", err
		}
		inst[i] = gfPair(gfStr(n), gfList(fl))
	}
	fmt.Fprintf(&b, "def soInstances : List (String × List (String × String)) := %s\n", gfList(inst))
	for _, d := range []row{{"machineJsonerAssigns", pb, "Machine", "Jsoner"}, {"machineDejsonerAssigns", pb, "Machine_json", "Dejsoner"},
		{"bmJsonerAssigns", bm, "Bondmachine", "Jsoner"}, {"bmDejsonerAssigns", bm, "Bondmachine_json", "Dejsoner"}} {
		as, err := d.p.assigns(d.typ, d.fun)
		if err != nil {
			return "", err
		}
		fmt.Fprintf(&b, "def %s : List (String × List String) := %s\n", d.def, gfList(as))
	}
	fmt.Fprintf(&b, "def staticOpcodeCount : Nat := %d\n", len(pb.appended("Allopcodes")))
	fmt.Fprintf(&b, "def dynFamilies : List String := %s\n", gfList(pb.appended("AllDynamicalInstructions")))
	fmt.Fprintf(&b, "def sharedKinds : List String := %s\n", gfList(bm.appended("Allshared")))
	b.WriteString("\nend BMV.Gen.Fields\n")
	return b.String(), nil
}
